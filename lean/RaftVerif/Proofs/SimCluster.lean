import RaftVerif.Proofs.SimInv
/-!
# Proofs/SimCluster — the cluster of model nodes, the simulation relation `R`, and the lifting lemma
-/
namespace RaftVerif.Sim
open Refine

/-- a cluster of model nodes (each `RawNode` carries its `MemoryStorage` in `raft.log.storage`) and a network:
a soup of messages — messages are never removed (duplication, reordering and loss are free) -/
structure Cluster where
  nodes : Id → Option RawNode
  net : List Message

def Cluster.setNode (c : Cluster) (n : Id) (rn : RawNode) : Cluster :=
  { c with nodes := fun m => if m = n then some rn else c.nodes m }

/-- zero or more enabled Spec actions -/
def Steps (cfg : Spec.Cfg) (s s' : Spec.State) : Prop := ∃ as, RunL cfg s as s'

theorem Steps.refl (cfg : Spec.Cfg) (s : Spec.State) : Steps cfg s s := ⟨[], .nil s⟩
theorem Steps.trans {cfg : Spec.Cfg} {a b c : Spec.State} (h1 : Steps cfg a b) (h2 : Steps cfg b c) :
    Steps cfg a c := by
  obtain ⟨as, h1⟩ := h1; obtain ⟨bs, h2⟩ := h2; exact ⟨as ++ bs, h1.append h2⟩
theorem Steps.reachable {cfg : Spec.Cfg} {s s' : Spec.State} (h : Steps cfg s s')
    (hs : Spec.Reachable cfg s) : Spec.Reachable cfg s' := by
  obtain ⟨as, h⟩ := h; exact h.reachable hs

/-- invariant of one `RawNode` between environment steps: sync mode, the last `Ready` was advanced -/
structure NodeInv (val : Val) (voters : List Id) (n : Nat) (rn : RawNode) (nd : Spec.Node)
    (msgs : List Spec.Msg) : Prop where
  sync : rn.async = false
  adv : rn.stepsOnAdvance = []
  inv : RaftInv val voters n rn.raft nd msgs

/-- **the simulation relation** between a cluster of model nodes and a Spec state -/
structure R (val : Val) (voters : List Id) (c : Cluster) (s : Spec.State) : Prop where
  reach : Spec.Reachable (cfgOf voters) s
  nodes : ∀ n rn, c.nodes n = some rn → NodeInv val voters n rn (s.nodes n) s.msgs
  net : ∀ m ∈ c.net, NetOK val s.msgs m

/-- **lifting**: a transition of node `n` that is matched by Spec actions of `n` (and emits `out`, justified by the
new soup) keeps `R` -/
theorem R.lift {val : Val} {voters : List Id} {c : Cluster} {s : Spec.State} (hR : R val voters c s)
    (n : Nat) (rn' : RawNode) (out : List Message)
    (hsim : ∃ as s', RunL (cfgOf voters) s as s' ∧ (∀ a ∈ as, a.actor = n) ∧
      NodeInv val voters n rn' (s'.nodes n) s'.msgs ∧ ∀ m ∈ out, NetOK val s'.msgs m) :
    ∃ s', Steps (cfgOf voters) s s' ∧ R val voters { (c.setNode n rn') with net := c.net ++ out } s' := by
  obtain ⟨as, s', hrun, hact, hnode, hout⟩ := hsim
  refine ⟨s', ⟨as, hrun⟩, hrun.reachable hR.reach, ?_, ?_⟩
  · intro k rk hk
    by_cases hkn : k = n
    · subst hkn
      have : rk = rn' := by simpa [Cluster.setNode] using hk.symm
      subst this
      exact hnode
    · have hk' : c.nodes k = some rk := by simpa [Cluster.setNode, hkn] using hk
      have h0 := hR.nodes k rk hk'
      have hnd : s'.nodes k = s.nodes k := hrun.nodes_ne k (fun a ha => by rw [hact a ha]; exact fun h => hkn h.symm)
      rw [hnd]
      refine ⟨h0.sync, h0.adv, h0.inv.frame (fun x hx => hrun.msgs_mono x hx) ?_⟩
      intro t lt li hx
      rcases hrun.reqVote_new t k lt li hx with h1 | ⟨a, ha, hak⟩
      · exact h1
      · exact absurd ((hact a ha).symm.trans hak) (fun h => hkn h.symm)
  · intro m hm
    rcases List.mem_append.1 hm with h | h
    · exact (hR.net m h).mono (fun x hx => hrun.msgs_mono x hx)
    · exact hout m h

end RaftVerif.Sim
