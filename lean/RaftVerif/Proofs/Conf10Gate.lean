import RaftVerif.Proofs.FlowStep
import RaftVerif.Proofs.StepProp
/-!
# Proofs/Conf10Gate — the propose-time gate of `stepLeader` (raft.go:1309-1347) as a pure function

* `ccDecode`      — `decodeCC` without the monad
* `gateRefuses`   — the Boolean `failed` of the Go code (alreadyPending / alreadyJoint / wantsLeaveJoint /
                    `checkConfChange`), as a function of the current `pendingConfIndex`
* `gateStep`/`gate` — one iteration / the whole filtering loop: the list handed to `appendEntry` and the
                    final `pendingConfIndex`
* `stepLeader_prop_gate_run` — run equation: `stepLeader` on MsgProp = `gate`, then `appendEntry`, then
                    `bcastAppend`
Core Lean only.
-/
namespace RaftVerif.Conf10
open Raft

def ccDecode (e : Entry) : Except String (Option ConfChangeV2) :=
  match e.getType with
  | .confChange =>
    match decodeConfChangeV1AsV2 (e.data.getD []) with
    | some c => .ok (some c)
    | none => .error "proto.Unmarshal ConfChange failed"
  | .confChangeV2 =>
    match decodeConfChangeV2 (e.data.getD []) with
    | some c => .ok (some c)
    | none => .error "proto.Unmarshal ConfChangeV2 failed"
  | .normal => .ok none

theorem decodeCC_run (e : Entry) (r : Raft) :
    (decodeCC e).run r = match ccDecode e with | .ok x => .ok (x, r) | .error s => .error s := by
  unfold decodeCC ccDecode
  cases e.getType <;> simp only
  · rfl
  · cases decodeConfChangeV1AsV2 (e.data.getD []) <;> rfl
  · cases decodeConfChangeV2 (e.data.getD []) <;> rfl

/-- the propose-time gate of `stepLeader` -/
def gateRefuses (r : Raft) (pci : Nat) (cc : ConfChangeV2) : Bool :=
  decide (pci > r.log.applied) ||
    decide (r.trk.outgoingL.length > 0) && !cc.changes.length == 0 ||
    !decide (r.trk.outgoingL.length > 0) && cc.changes.length == 0 ||
    !r.checkConfChange cc

/-- the neutral entry that replaces a refused configuration change -/
def neutral : Entry := { typ := some .normal }

def withPCI (r : Raft) (pci : Nat) : Raft := { r with pendingConfIndex := pci }

def gateStep (r : Raft) (pci : Nat) (x : Entry × Nat) : Except String (Entry × Nat) :=
  match ccDecode x.1 with
  | .error s => .error s
  | .ok none => .ok (x.1, pci)
  | .ok (some cc) =>
    if (gateRefuses r pci cc && !r.cfg.disableConfChangeValidation) = true then .ok (neutral, pci)
    else .ok (x.1, r.log.lastIndex + x.2 + 1)

def gate (r : Raft) : Nat → List (Entry × Nat) → Except String (List Entry × Nat)
  | pci, [] => .ok ([], pci)
  | pci, x :: xs =>
    match gateStep r pci x with
    | .error s => .error s
    | .ok (y, pci') =>
      match gate r pci' xs with
      | .error s => .error s
      | .ok (ys, pci'') => .ok (y :: ys, pci'')

theorem propLoop_gate (r : Raft) (body : Entry × Nat → List Entry → M (ForInStep (List Entry)))
    (hbody : ∀ x acc pci, (body x acc).run (withPCI r pci) =
      match gateStep r pci x with
      | .error s => .error s
      | .ok (y, pci') => .ok (ForInStep.yield (acc ++ [y]), withPCI r pci'))
    (xs : List (Entry × Nat)) (acc : List Entry) (pci : Nat) :
    (forIn xs acc body).run (withPCI r pci) =
      match gate r pci xs with
      | .error s => .error s
      | .ok (ys, pci') => .ok (acc ++ ys, withPCI r pci') := by
  induction xs generalizing acc pci with
  | nil => simp [gate]
  | cons x xs ih =>
    rw [List.forIn_cons]
    simp only [StateT.run_bind, hbody x acc pci, gate]
    cases hg : gateStep r pci x with
    | error s => rfl
    | ok p =>
      obtain ⟨y, pci'⟩ := p
      simp only [P_ok_bind, ih]
      cases gate r pci' xs with
      | error s => rfl
      | ok q => simp

theorem stepLeader_prop_gate_run (fuel : Nat) (m : Message) (r : Raft) (hm : m.typ = .prop)
    (hne : m.entries ≠ []) (hself : (r.trk.getProgress r.cfg.id).isNone = false)
    (hlt : r.leadTransferee = 0)  :
    (stepLeader fuel m).run r =
      match gate r r.pendingConfIndex m.entries.zipIdx with
      | .error s => .error s
      | .ok (ents, pci) =>
        (do let ok ← appendEntry ents
            if (!ok) = true then pure (some StepErr.proposalDropped)
            else do
              bcastAppend
              pure none : M (Option StepErr)).run (withPCI r pci) := by
  unfold stepLeader
  simp only [hm]
  have hlen : (m.entries.length == 0) = false := by
    cases h : m.entries with
    | nil => exact absurd h hne
    | cons a t => simp
  have hlt' : (r.leadTransferee != 0) = false := by simp [hlt]
  simp only [StateT.run_bind, StateT.run_get, P_pure_eq, P_ok_bind, hlen, Bool.false_eq_true, ↓reduceIte, hself,
    hlt']
  have hr : r = withPCI r r.pendingConfIndex := rfl
  conv => lhs; rw [hr]
  rw [propLoop_gate r _ ?_ m.entries.zipIdx [] r.pendingConfIndex]
  · cases gate r r.pendingConfIndex m.entries.zipIdx with
    | error s => rfl
    | ok q => simp
  · intro x acc pci
    simp only [StateT.run_bind, decodeCC_run, gateStep]
    cases hd : ccDecode x.1 with
    | error s => rfl
    | ok o =>
      cases o with
      | none => rfl
      | some cc =>
        simp only [P_ok_bind, StateT.run_bind, StateT.run_get, P_pure_eq]
        by_cases hc : (gateRefuses r pci cc && !r.cfg.disableConfChangeValidation) = true
        · rw [if_pos hc]
          have : (gateRefuses (withPCI r pci) (withPCI r pci).pendingConfIndex cc && !(withPCI r pci).cfg.disableConfChangeValidation) = true := hc
          unfold gateRefuses at this
          rw [if_pos this]; rfl
        · rw [if_neg hc]
          have : ¬ (gateRefuses (withPCI r pci) (withPCI r pci).pendingConfIndex cc && !(withPCI r pci).cfg.disableConfChangeValidation) = true := hc
          unfold gateRefuses at this
          rw [if_neg this]; rfl
end RaftVerif.Conf10
