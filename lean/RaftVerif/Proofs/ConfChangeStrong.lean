import RaftVerif.Proofs.ConfChangeProgress
/-!
# Proofs/ConfChangeStrong — the strong invariant `ConfInvStrong` and its preservation by
`Simple`, `EnterJoint`, `LeaveJoint`; exact description of the `LeaveJoint` result
-/
namespace RaftVerif
set_option linter.unusedSimpArgs false
set_option linter.unusedVariables false

/-- **strong invariant**: `ConfInv` (what `checkInvariants` checks), canonical representation, and a
progress map whose keys are strictly ascending (one record per key) and exactly the members, with at
least one incoming voter -/
structure ConfInvStrong (cfg : TrackerConfig) (trk : ProgressMap) : Prop where
  inv : ConfInv cfg trk
  wf : ConfWF cfg
  keysSorted : Sorted (keys trk)
  keysExact : ∀ id, id ∈ keys trk ↔ cfgMember cfg id
  votersNe : cfg.voters ≠ []

theorem ConfInvStrong.sem {cfg : TrackerConfig} {trk : ProgressMap} (h : ConfInvStrong cfg trk) :
    SemInv cfg trk :=
  (semInv_iff cfg trk).mpr ⟨h.inv, fun id hid => (h.keysExact id).mp hid⟩

theorem strong_of_sem {cfg : TrackerConfig} {trk : ProgressMap} (hs : SemInv cfg trk) (hw : ConfWF cfg)
    (hk : Sorted (keys trk)) (hv : cfg.voters ≠ []) : ConfInvStrong cfg trk := by
  obtain ⟨hi, hke⟩ := (semInv_iff cfg trk).mp hs
  refine ⟨hi, hw, hk, fun id => ⟨hke id, fun hm => ?_⟩, hv⟩
  obtain ⟨pr, hpr⟩ := hi.progress id hm
  exact mapGet_some_mem_keys hpr

theorem cfgMember_clone (cfg : TrackerConfig) (id : Id) : cfgMember cfg.clone id ↔ cfgMember cfg id := Iff.rfl

theorem confWF_clone {cfg : TrackerConfig} (h : ConfWF cfg) : ConfWF cfg.clone :=
  ⟨h.voters, h.outgoing, h.learners, h.learnersNext⟩

/-- the state `simple` starts folding from satisfies the fold invariants -/
theorem sem_clone {cfg : TrackerConfig} {trk : ProgressMap}
    (hk : ∀ id, id ∈ keys trk → cfgMember cfg id) (hci : checkInvariants cfg.clone trk = .ok ()) :
    SemInv cfg.clone trk :=
  (semInv_iff _ _).mpr ⟨(checkInvariants_ok_iff _ _).mp hci, hk⟩

theorem simple_strong (c : Changer) (ccs : List ConfChangeSingle) (r : CS)
    (hs : ConfInvStrong c.tracker.cfg c.tracker.progress) (h : c.simple ccs = .ok r) :
    ConfInvStrong r.1 r.2 := by
  obtain ⟨hci, hj, hr, hv, hsd, hci'⟩ := (simple_ok_iff c ccs r).mp h
  have h0 := sem_clone (fun id hid => (hs.keysExact id).mp hid) hci
  have h1 := fold_sem c ccs (c.tracker.cfg.clone, c.tracker.progress) h0
  have h2 := fold_wf c ccs (c.tracker.cfg.clone, c.tracker.progress) ⟨confWF_clone hs.wf, hs.keysSorted⟩
  rw [← hr] at h1 h2
  exact strong_of_sem h1 h2.1 h2.2 hv

/-- entering a joint configuration: the start state of the fold -/
theorem sem_enter {cfg : TrackerConfig} {trk : ProgressMap}
    (hk : ∀ id, id ∈ keys trk → cfgMember cfg id) (hci : checkInvariants cfg.clone trk = .ok ())
    (hj : joint cfg.clone = false) (hv : cfg.voters ≠ []) :
    SemInv { cfg.clone with outgoing := some cfg.clone.voters } trk := by
  have hs := sem_clone hk hci
  obtain ⟨h1, h2, h3, h4, h5, h6, h7, h8⟩ := hs
  have hj' : cfg.clone.outgoing.getD [] = [] := by simpa [joint] using hj
  obtain ⟨a, b, c⟩ := h7 hj'
  refine ⟨?_, ?_, ?_, ?_, ?_, ?_, ?_, ?_⟩
  · intro x hx; apply h1; unfold cfgMember at hx ⊢; simp only [Option.getD_some] at hx; grind
  · intro x hx; simp only [b] at hx; simp at hx
  · intro x hx; simp only [b] at hx; simp at hx
  · intro x hx; simp only [Option.getD_some]; exact h5 x hx
  · exact h5
  · exact h6
  · intro hj2
    simp only [Option.getD_some] at hj2
    exact absurd hj2 hv
  · intro x hx; have := h8 x hx; unfold cfgMember at this ⊢; simp only [Option.getD_some]; grind

theorem semInv_autoLeave {cfg : TrackerConfig} {trk : ProgressMap} (al : Bool) (h : SemInv cfg trk)
    (hne : cfg.outgoing.getD [] ≠ []) : SemInv { cfg with autoLeave := al } trk :=
  ⟨h.prog, h.lnOut, h.lnFlag, h.lOut, h.lVoter, h.lFlag, fun hj => absurd hj hne, h.keys⟩

theorem enterJoint_strong (c : Changer) (al : Bool) (ccs : List ConfChangeSingle) (r : CS)
    (hs : ConfInvStrong c.tracker.cfg c.tracker.progress) (h : c.enterJoint al ccs = .ok r) :
    ConfInvStrong r.1 r.2 := by
  obtain ⟨hci, hj, hv0, hv, hr, hci'⟩ := (enterJoint_ok_iff c al ccs r).mp h
  have h0 := sem_enter (fun id hid => (hs.keysExact id).mp hid) hci hj hv0
  have hw0 : ConfWF { c.tracker.cfg.clone with outgoing := some c.tracker.cfg.clone.voters } :=
    ⟨hs.wf.voters, ⟨by simpa [TrackerConfig.clone] using hv0, hs.wf.voters⟩, hs.wf.learners, hs.wf.learnersNext⟩
  have h1 := fold_sem c ccs
    ({ c.tracker.cfg.clone with outgoing := some c.tracker.cfg.clone.voters }, c.tracker.progress) h0
  have h2 := fold_wf c ccs
    ({ c.tracker.cfg.clone with outgoing := some c.tracker.cfg.clone.voters }, c.tracker.progress)
    ⟨hw0, hs.keysSorted⟩
  have h3 := (fold_outgoing c ccs
    ({ c.tracker.cfg.clone with outgoing := some c.tracker.cfg.clone.voters }, c.tracker.progress)).1
  change SemInv (enterJointFold c ccs).1 (enterJointFold c ccs).2 at h1
  change ConfWF (enterJointFold c ccs).1 ∧ Sorted (keys (enterJointFold c ccs).2) at h2
  change (enterJointFold c ccs).1.outgoing = some c.tracker.cfg.voters at h3
  have hne : (enterJointFold c ccs).1.outgoing.getD [] ≠ [] := by rw [h3]; exact hv0
  subst hr
  exact strong_of_sem (semInv_autoLeave al h1 hne) ⟨h2.1.voters, h2.1.outgoing, h2.1.learners, h2.1.learnersNext⟩
    h2.2 hv

/-! ### LeaveJoint -/

/-- mark a record as learner -/
def setLearner (p : Progress) : Progress := { p with isLearner := true }

theorem setLearner_idem (p : Progress) : setLearner (setLearner p) = setLearner p := rfl

theorem promoteStep_get (s : CS) (id x : Id) :
    mapGet (promoteStep s id).2 x = if x = id then (mapGet s.2 x).map setLearner else mapGet s.2 x := by
  unfold promoteStep
  by_cases e : x = id
  · subst e
    cases h : mapGet s.2 x with
    | none => simp [h]
    | some pr => simp [mapGet_mapInsert, setLearner]
  · cases h : mapGet s.2 id with
    | none => simp [e]
    | some pr => simp [mapGet_mapInsert, e]

theorem promote_fold_get (l : List Id) (s : CS) (x : Id) :
    mapGet (l.foldl promoteStep s).2 x = if x ∈ l then (mapGet s.2 x).map setLearner else mapGet s.2 x := by
  induction l generalizing s with
  | nil => simp
  | cons a t ih =>
    rw [List.foldl_cons, ih, promoteStep_get]
    by_cases h1 : x ∈ t <;> by_cases h2 : x = a <;> simp [h1, h2]
    · cases mapGet s.2 a <;> simp [setLearner_idem]
    · subst h2; simp [h1]

theorem promote_fold_cfg (l : List Id) (s : CS) :
    (l.foldl promoteStep s).1.voters = s.1.voters ∧ (l.foldl promoteStep s).1.outgoing = s.1.outgoing ∧
    (∀ x, x ∈ (l.foldl promoteStep s).1.learners.getD [] ↔ x ∈ l ∨ x ∈ s.1.learners.getD []) ∧
    (OptWF s.1.learners → OptWF (l.foldl promoteStep s).1.learners) := by
  induction l generalizing s with
  | nil => simp
  | cons a t ih =>
    obtain ⟨h1, h2, h3, h4⟩ := ih (promoteStep s a)
    rw [List.foldl_cons]
    refine ⟨h1, h2, ?_, ?_⟩
    · intro x; rw [h3]; simp only [promoteStep, mem_nilAdd, List.mem_cons]; grind
    · intro hw; exact h4 (optWF_nilAdd _ hw)

theorem promote_fold_sorted (l : List Id) (s : CS) (h : Sorted (keys s.2)) :
    Sorted (keys (l.foldl promoteStep s).2) := by
  induction l generalizing s with
  | nil => exact h
  | cons a t ih =>
    apply ih
    unfold promoteStep
    cases mapGet s.2 a with
    | none => exact h
    | some pr => simp only [keys_mapInsert]; exact sorted_setInsert h

theorem dropStep_get (cfg : TrackerConfig) (trk : ProgressMap) (id x : Id) :
    mapGet (dropStep cfg trk id) x =
      if x = id ∧ x ∉ cfg.voters ∧ x ∉ cfg.learners.getD [] then none else mapGet trk x := by
  unfold dropStep
  by_cases hv : id ∈ cfg.voters <;> by_cases hl : id ∈ cfg.learners.getD [] <;>
    by_cases e : x = id <;> simp [optContains, hv, hl, e, mapGet_mapErase]

theorem drop_fold_get (cfg : TrackerConfig) (l : List Id) (trk : ProgressMap) (x : Id) :
    mapGet (l.foldl (dropStep cfg) trk) x =
      if x ∈ l ∧ x ∉ cfg.voters ∧ x ∉ cfg.learners.getD [] then none else mapGet trk x := by
  induction l generalizing trk with
  | nil => simp
  | cons a t ih =>
    rw [List.foldl_cons, ih, dropStep_get]
    simp only [List.mem_cons]
    grind

theorem drop_fold_sorted (cfg : TrackerConfig) (l : List Id) (trk : ProgressMap) (h : Sorted (keys trk)) :
    Sorted (keys (l.foldl (dropStep cfg) trk)) := by
  induction l generalizing trk with
  | nil => exact h
  | cons a t ih =>
    apply ih
    unfold dropStep
    split
    · rw [keys_mapErase]; exact sorted_setErase h
    · exact h

@[simp] theorem clone_voters (cfg : TrackerConfig) : cfg.clone.voters = cfg.voters := rfl
@[simp] theorem clone_outgoing (cfg : TrackerConfig) : cfg.clone.outgoing = cfg.outgoing := rfl
@[simp] theorem clone_learners (cfg : TrackerConfig) : cfg.clone.learners = cfg.learners := rfl
@[simp] theorem clone_learnersNext (cfg : TrackerConfig) : cfg.clone.learnersNext = cfg.learnersNext := rfl
@[simp] theorem clone_autoLeave (cfg : TrackerConfig) : cfg.clone.autoLeave = false := rfl

/-- exact description of the configuration and progress map computed by `LeaveJoint` -/
theorem leaveJointResult_spec (c : Changer) :
    (leaveJointResult c).1.voters = c.tracker.cfg.voters ∧
    (leaveJointResult c).1.outgoing = none ∧
    (leaveJointResult c).1.learnersNext = none ∧
    (leaveJointResult c).1.autoLeave = false ∧
    (∀ x, x ∈ (leaveJointResult c).1.learners.getD [] ↔
        x ∈ c.tracker.cfg.learnersNext.getD [] ∨ x ∈ c.tracker.cfg.learners.getD []) ∧
    (OptWF c.tracker.cfg.learners → OptWF (leaveJointResult c).1.learners) ∧
    (∀ x, mapGet (leaveJointResult c).2 x =
        if x ∈ c.tracker.cfg.outgoing.getD [] ∧ x ∉ c.tracker.cfg.voters ∧
            ¬ (x ∈ c.tracker.cfg.learnersNext.getD [] ∨ x ∈ c.tracker.cfg.learners.getD []) then none
        else if x ∈ c.tracker.cfg.learnersNext.getD [] then (mapGet c.tracker.progress x).map setLearner
        else mapGet c.tracker.progress x) ∧
    (Sorted (keys c.tracker.progress) → Sorted (keys (leaveJointResult c).2)) := by
  obtain ⟨h1, h2, h3, h4⟩ := promote_fold_cfg (c.tracker.cfg.learnersNext.getD [])
    (c.tracker.cfg.clone, c.tracker.progress)
  have h5 := promote_fold_get (c.tracker.cfg.learnersNext.getD [])
    (c.tracker.cfg.clone, c.tracker.progress)
  have h6 := promote_fold_sorted (c.tracker.cfg.learnersNext.getD [])
    (c.tracker.cfg.clone, c.tracker.progress)
  unfold leaveJointResult
  simp only []
  rw [show c.tracker.cfg.clone.learnersNext = c.tracker.cfg.learnersNext from rfl]
  generalize List.foldl promoteStep (c.tracker.cfg.clone, c.tracker.progress)
    (c.tracker.cfg.learnersNext.getD []) = s at *
  simp only [clone_voters, clone_outgoing, clone_learners] at h1 h2 h3 h4 h5 h6
  refine ⟨h1, trivial, trivial, trivial, h3, h4, ?_, ?_⟩
  · intro x
    rw [drop_fold_get, h5 x, h1, h2]
    simp only [h3 x]
  · intro hk
    exact drop_fold_sorted _ _ _ (h6 hk)

theorem leaveJoint_strong (c : Changer) (r : CS)
    (hs : ConfInvStrong c.tracker.cfg c.tracker.progress) (h : c.leaveJoint = .ok r) :
    ConfInvStrong r.1 r.2 := by
  obtain ⟨hci, hj, hr, hci'⟩ := (leaveJoint_ok_iff c r).mp h
  obtain ⟨h1, h2, h3, h4, h5, h6, h7, h8⟩ := leaveJointResult_spec c
  subst hr
  have hi' := (checkInvariants_ok_iff _ _).mp hci'
  refine ⟨hi', ⟨by rw [h1]; exact hs.wf.voters, by rw [h2]; exact optWF_none, h6 hs.wf.learners,
    by rw [h3]; exact optWF_none⟩, h8 hs.keysSorted, ?_, by rw [h1]; exact hs.votersNe⟩
  intro x
  constructor
  · intro hx
    obtain ⟨p, hp⟩ := exists_mapGet_of_mem_keys hx
    rw [h7 x] at hp
    have hk := hs.keysExact x
    unfold cfgMember at hk ⊢
    rw [h1, h2, h3, h5 x]
    by_cases hc : x ∈ c.tracker.cfg.outgoing.getD [] ∧ x ∉ c.tracker.cfg.voters ∧
            ¬ (x ∈ c.tracker.cfg.learnersNext.getD [] ∨ x ∈ c.tracker.cfg.learners.getD [])
    · rw [if_pos hc] at hp; cases hp
    · rw [if_neg hc] at hp
      have hm : x ∈ keys c.tracker.progress := by
        rw [← mapGet_isSome_iff]
        split at hp
        · cases hq : mapGet c.tracker.progress x with
          | none => rw [hq] at hp; cases hp
          | some q => rfl
        · rw [hp]; rfl
      have := hk.mp hm
      simp only [Option.getD_none, List.not_mem_nil, false_or, or_false]
      grind
  · intro hx
    obtain ⟨p, hp⟩ := hi'.progress x hx
    exact mapGet_some_mem_keys hp

end RaftVerif
