import RaftVerif.Proofs.SimCorMore
import RaftVerif.Proofs.SimCorCommitSpec
/-!
# Proofs/SimCorCommit — C06 "committed means durable on a quorum", pulled back to the cluster

`Spec.ver_committed_durable_on_quorum` gives a Spec quorum whose *durable* logs hold the committed prefix of a view;
`DurInv` (through `viewOK … true`) identifies those durable logs with the storages of the model nodes.
-/
namespace RaftVerif.SimCorP
open Sim Refine Simulation

/-- a Spec quorum of the static configuration, cut down to the voter list, is a strict majority of it -/
theorem quorum_filter {voters A : List Nat} (hne : voters ≠ []) (h : (cfgOf voters).isQuorum A = true) :
    voters.length < 2 * (voters.filter (fun v => A.contains v)).length := by
  rw [Spec.jointCfg_isQuorum_iff] at h
  rcases h.1 with h | h
  · exact absurd h hne
  · rwa [List.countP_eq_length_filter] at h

/-- **committed ⇒ durable on a quorum, for the views**: for the view (current or stored) of a live node `a` and an
index `i` at or below the view's commit index there is a strict majority `q` of the voters such that every member
of `q` that is present in the cluster holds in its *storage*, at `i`, the entry of `a` (term, type, data, index) -/
theorem committed_durable_views {voters : List Id} {c0 c : Cluster} (h : Setting voters c0 c)
    {a : Nat} {ra : RawNode} (ha : c.nodes a = some ra) (sa : Bool)
    {i : Nat} (hi : 1 ≤ i) (h1 : i ≤ (hsOf ra sa).commit) :
    ∃ x, (entsOf ra sa)[i - 1]? = some x ∧ x.index = i ∧
    ∃ q : List Nat, q.Sublist voters ∧ voters.length < 2 * q.length ∧
      ∀ v ∈ q, ∀ rv, c.nodes v = some rv →
        ∃ y, rv.raft.log.storage.abs.ents[i - 1]? = some y ∧
          x.term = y.term ∧ x.typ = y.typ ∧ x.data = y.data ∧ y.index = i := by
  have hla := commit_within_views h ha sa
  have hla' : i - 1 < (entsOf ra sa).length := by omega
  obtain ⟨x, hx⟩ : ∃ x, (entsOf ra sa)[i - 1]? = some x := ⟨_, List.getElem?_eq_getElem hla'⟩
  obtain ⟨s, hs, hR⟩ := h.related (valFor x)
  have VA := viewOK hR ha sa
  have ix := ents_index hR ha sa hx
  obtain ⟨A, hA, hall⟩ := Spec.ver_committed_durable_on_quorum h.cfgOK
    (Spec.inv1_reachable _ h.cfgOK s hs) (Spec.inv2_reachable _ h.cfgOK s hs)
    (Spec.inv3_reachable _ h.cfgOK s hs) a _ (verOf_mem (s.nodes a) sa)
    (by rw [VA.commit]; omega)
  refine ⟨x, hx, by omega, voters.filter (fun v => A.contains v), List.filter_sublist,
    quorum_filter h.ne hA, fun v hv rv hrv => ?_⟩
  have hvA : v ∈ A := by
    have := (List.mem_filter.mp hv).2
    simpa using this
  have key := (hall i hi (by rw [VA.commit]; exact h1) v hvA).1
  have VB := viewOK hR hrv true
  have hlogB : (s.nodes v).dur.log = rv.raft.log.storage.abs.ents.map (absEnt (valFor x)) := by
    have := VB.log
    simpa [verOf, entsOf] using this
  rw [hlogB, VA.log, at?_map hi, at?_map hi, hx] at key
  cases hy : rv.raft.log.storage.abs.ents[i - 1]? with
  | none => rw [hy] at key; simp at key
  | some y =>
    rw [hy] at key
    simp only [Option.map_some, Option.some.injEq] at key
    obtain ⟨k1, k2, k3⟩ := valFor_sep key.symm
    have iy := ents_index hR hrv true (k := i - 1) (e := y) (by simpa [entsOf] using hy)
    exact ⟨y, rfl, k1, k2, k3, by omega⟩

end RaftVerif.SimCorP

namespace RaftVerif.SimCorP
open Sim Refine Simulation

/-- nodes never leave the cluster: a node present initially is present (possibly restarted) in every reachable
cluster, and no node appears -/
theorem nodes_persist {voters : List Id} {c0 c : Cluster} (hsorted : voters.Pairwise (· < ·))
    (h0 : 0 ∉ voters) (hne : voters ≠ []) (hc : InitCluster voters c0) (h : CReachable c0 c) (n : Nat) :
    (c.nodes n).isSome = (c0.nodes n).isSome := by
  induction h with
  | init => rfl
  | step hr hstep ih =>
    have S : Setting voters c0 _ := ⟨hsorted, h0, hne, hc, hr⟩
    obtain ⟨s, _, hR⟩ := S.related (fun _ _ => 0)
    obtain ⟨k, rk, rk', hk, hk', hoth, _⟩ := envstep_node hsorted h0 hne hR hstep
    by_cases hnk : n = k
    · subst hnk
      rw [← ih, hk, hk']; rfl
    · rw [hoth n hnk, ih]

end RaftVerif.SimCorP

namespace RaftVerif.SimCorP
open Sim Refine Simulation

theorem termAt_map_some {val : Val} {L : List Entry} {j c : Nat} (hj : 1 ≤ j)
    (h : Spec.Log.termAt (L.map (absEnt val)) j = some c) : ∃ z, L[j - 1]? = some z ∧ z.term = c := by
  rw [Spec.Log.termAt_eq_at? _ hj, at?_map hj] at h
  cases hz : L[j - 1]? with
  | none => rw [hz] at h; simp at h
  | some z =>
    rw [hz] at h
    simp only [Option.map_some, Option.some.injEq, absEnt_term] at h
    exact ⟨z, rfl, h⟩

/-- **the commit rule, for the views**: the commit index of a view of `a` is covered by an index `j` and a term
`t ≤` the view's term such that every present member of a strict majority `q` of the voters is durably at a term
`≥ t`, holds in its storage at `j` an entry of term `t`, and holds at every `1 ≤ i ≤ commit` the entry of `a` -/
theorem committed_own_term_views {voters : List Id} {c0 c : Cluster} (h : Setting voters c0 c)
    {a : Nat} {ra : RawNode} (ha : c.nodes a = some ra) (sa : Bool) (hc : 1 ≤ (hsOf ra sa).commit) :
    ∃ (t j : Nat) (q : List Nat), t ≤ (hsOf ra sa).term ∧ (hsOf ra sa).commit ≤ j ∧
      (∀ x, (entsOf ra sa)[(hsOf ra sa).commit - 1]? = some x → x.term ≤ t) ∧
      q.Sublist voters ∧ voters.length < 2 * q.length ∧
      ∀ v ∈ q, ∀ rv, c.nodes v = some rv →
        t ≤ (rv.raft.log.storage.hardState.getD {}).term ∧
        (∃ z, rv.raft.log.storage.abs.ents[j - 1]? = some z ∧ z.term = t) ∧
        ∀ i, 1 ≤ i → i ≤ (hsOf ra sa).commit →
          ∃ x y, (entsOf ra sa)[i - 1]? = some x ∧ rv.raft.log.storage.abs.ents[i - 1]? = some y ∧
            x.term = y.term := by
  obtain ⟨s, hs, hR⟩ := h.related (fun _ _ => 0)
  have VA := viewOK hR ha sa
  obtain ⟨t, j, A, htw, hcj, hlow, hA, hall⟩ := Spec.ver_committed_own_term_on_quorum h.cfgOK
    (Spec.inv1_reachable _ h.cfgOK s hs) (Spec.inv2_reachable _ h.cfgOK s hs)
    (Spec.inv3_reachable _ h.cfgOK s hs) a _ (verOf_mem (s.nodes a) sa)
    (by rw [VA.commit]; exact hc)
  rw [VA.term] at htw
  rw [VA.commit] at hcj
  refine ⟨t, j, voters.filter (fun v => A.contains v), htw, hcj, fun x hx => ?_, List.filter_sublist,
    quorum_filter h.ne hA, fun v hv rv hrv => ?_⟩
  · refine hlow x.term ?_
    rw [VA.commit, VA.log, termAt_map _ _ hc, hx]
    rfl
  have hvA : v ∈ A := by
    have := (List.mem_filter.mp hv).2
    simpa using this
  obtain ⟨k1, k2, k3⟩ := hall v hvA
  have VB := viewOK hR hrv true
  have hlogB : (s.nodes v).dur.log = rv.raft.log.storage.abs.ents.map (absEnt (fun _ _ => 0)) := by
    have := VB.log
    simpa [verOf, entsOf] using this
  have htermB : (s.nodes v).dur.term = (rv.raft.log.storage.hardState.getD {}).term := by
    have := VB.term
    simpa [verOf, hsOf] using this
  refine ⟨by rw [← htermB]; exact k2, ?_, fun i hi1 him => ?_⟩
  · rw [hlogB] at k1
    exact termAt_map_some (by omega) k1
  · obtain ⟨key, e, he⟩ := k3 i hi1 (by rw [VA.commit]; exact him)
    rw [he, hlogB, at?_map hi1] at key
    rw [VA.log, at?_map hi1] at he
    cases hx : (entsOf ra sa)[i - 1]? with
    | none => rw [hx] at he; simp at he
    | some x =>
      cases hy : rv.raft.log.storage.abs.ents[i - 1]? with
      | none => rw [hy] at key; simp at key
      | some y =>
        rw [hx] at he; rw [hy] at key
        simp only [Option.map_some, Option.some.injEq] at he key
        refine ⟨x, y, rfl, rfl, ?_⟩
        have := congrArg Spec.Ent.term (he.trans key.symm)
        simpa using this

end RaftVerif.SimCorP
