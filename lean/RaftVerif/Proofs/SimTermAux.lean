import RaftVerif.Proofs.SimTerm
import RaftVerif.Proofs.SimAux
/-!
# Proofs/SimTermAux — `becomeFollower` and the auxiliary invariant; `sim_raise_term` with an explicit witness
-/
namespace RaftVerif.Sim
open Refine

/-- `becomeFollower t l` with `t ≥ r.term` (a leader only for `t > r.term`) keeps the auxiliary invariant -/
theorem aux_becomeFollower {n t l : Nat} {r r1 : Raft} (haux : AuxInv n r) (hle : r.term ≤ t)
    (hlead : r.state = .leader → r.term < t)
    (h : (Raft.becomeFollower t l).run r = .ok ((), r1)) : AuxInv n r1 ∧ AuxFrame r r1 := by
  obtain ⟨d, rest, _, rfl⟩ := becomeFollower_run_exact h
  have hf : AuxFrame r ({ Next.resetSt r t d rest with lead := l, state := Role.follower } : Raft) := by
    refine ⟨hle, fun ht hl => ?_, fun _ _ => rfl⟩
    have h1 : t = r.term := ht
    have h2 := hlead hl
    omega
  refine ⟨⟨fun hl => (by cases hl), fun m hm => (haux.self m hm).frame hf, haux.outFrom⟩, hf⟩

/-- a delivered message of a lower term keeps the auxiliary invariant (the answer to a stale leader is not
self-addressed) -/
theorem aux_lower_term {n : Nat} {r r' : Raft} {m : Message} {e : Option StepErr} {fuel : Nat}
    (haux : AuxInv n r) (h0 : m.term ≠ 0) (hlt : m.term < r.term) (hty : Deliverable m.typ)
    (hfrom : m.typ = .app ∨ m.typ = .heartbeat → m.from ≠ n)
    (h : (Raft.step (fuel + 1) m).run r = .ok (e, r')) : AuxInv n r' ∧ AuxFrame r r' := by
  rcases lower_term_cases h0 hlt hty h with rfl | ⟨_, hk, rfl⟩
  · exact ⟨haux, AuxFrame.refl _⟩
  · refine ⟨⟨haux.matchLe, fun x hx => ?_, haux.outFrom⟩, ⟨Nat.le_refl _, fun _ hl => ⟨hl, Nat.le_refl _⟩, fun _ hf => hf⟩⟩
    rcases List.mem_append.1 hx with hx | hx
    · exact haux.self x hx
    · rw [List.mem_singleton.1 hx]
      intro hto
      exact absurd hto (hfrom hk)

/-- the first half of the step of a higher-term message, as a run -/
theorem raise_term_run {val : Val} {voters : List Id} {n : Nat} {s : Spec.State} {r r' : Raft} {m : Message}
    {e : Option StepErr} {fuel : Nat}
    (hinv : RaftInv val voters n r (s.nodes n) s.msgs) (hgt : r.term < m.term) (hty : Deliverable m.typ)
    (h : (Raft.step (fuel + 1) m).run r = .ok (e, r')) :
    r' = r ∨ ∃ r1, (Raft.becomeFollower m.term (leadOf m)).run r = .ok ((), r1) ∧
      (Raft.step (fuel + 1) m).run r1 = .ok (e, r') := by
  rcases raises_or_lease hgt hty h with hk | ⟨_, hk⟩
  case inr => exact Or.inl hk
  right
  obtain ⟨r1, h1, _, _, _, _, _, _, _, _, _, _, hrun⟩ :=
    Refinement.updateTerm_refines val (cfgOf voters) fuel m r r' e s n hinv.abs hk h
  exact ⟨r1, h1, hrun⟩

/-- `becomeFollower t l` to a higher term `t`: Spec `updateTerm` (about *the* result `r1` of the run) -/
theorem sim_raise_term' {val : Val} {voters : List Id} {n : Nat} {s : Spec.State} {r r1 : Raft} {t l : Nat}
    (hinv : RaftInv val voters n r (s.nodes n) s.msgs) (hgt : r.term < t)
    (h1 : (Raft.becomeFollower t l).run r = .ok ((), r1)) :
    ∃ s1, RunL (cfgOf voters) s [.updateTerm n t] s1 ∧ s1.msgs = s.msgs ∧
      (s1.nodes n).dur = (s.nodes n).dur ∧
      RaftInv val voters n r1 (s1.nodes n) s1.msgs ∧ r1.term = t ∧ r1.state = .follower ∧ r1.lead = l ∧
      r1.log = r.log ∧ r1.msgs = r.msgs ∧ r1.msgsAfterAppend = r.msgsAfterAppend := by
  obtain ⟨d, rest, _, hr1⟩ := becomeFollower_run_exact h1
  have hne : r.term ≠ t := Nat.ne_of_lt hgt
  have hen : Spec.enabled (cfgOf voters) s (.updateTerm n t) := by
    show (s.nodes n).vol.term < t
    rw [hinv.abs.term]; exact hgt
  have hn : (Spec.apply s (.updateTerm n t)).nodes n =
      { (s.nodes n) with vol := { (s.nodes n).vol with term := t, vote := 0 }, role := .follower } := by
    simp [Spec.apply, Spec.setNode]
  have habs : Abs val r1 ((Spec.apply s (.updateTerm n t)).nodes n) := by
    rw [hn, hr1]
    exact ⟨rfl, by show (0 : Nat) = (if r.term = t then r.vote else 0); rw [if_neg hne], hinv.abs.commit,
      hinv.abs.log, rfl⟩
  have hI : RaftInv val voters n r1 ((Spec.apply s (.updateTerm n t)).nodes n) s.msgs :=
    hinv.becomeFollower (Nat.le_of_lt hgt) h1 habs (by rw [hn]) (by rw [hn]) (by rw [hn]) (by rw [hn])
  refine ⟨Spec.apply s (.updateTerm n t), .single hen, rfl, by rw [hn], hI, ?_, ?_, ?_, ?_, ?_, ?_⟩ <;>
    rw [hr1] <;> rfl

end RaftVerif.Sim
