import RaftVerif.Proofs.NoPanicCalc
/-!
# Proofs/NoPanicRaw — from `NoErr` of the `Raft` action to the `RawNode` operations

`RawNode.runM` complains ("HARNESS: unused election-timeout draws") when the action did not use up the supplied
election-timeout draws: a harness artefact that can only fire *after* the model action has completed normally.
`Done x`: the call `x` completed without any `throw` of the model proper — it returned `.ok`, or only the harness
complained about unused draws.
-/
namespace RaftVerif.NoPanicP
open Raft C14

/-- the harness complaint about unused draws -/
def unusedMsg : String := "HARNESS: unused election-timeout draws"

/-- the call completed without a `throw` of the model proper -/
def Done {α : Type} (x : Except String α) : Prop := (∃ a, x = .ok a) ∨ x = .error unusedMsg

theorem Done.of_ok {α : Type} {x : Except String α} {a : α} (h : x = .ok a) : Done x := Or.inl ⟨a, h⟩

theorem runM_done {α : Type} (rn : RawNode) (draws : List Nat) (act : M α)
    (h : NoErr act { rn.raft with draws := draws }) : Done (rn.runM draws act) := by
  obtain ⟨a, r', hr⟩ := NoErr.ok h
  unfold RawNode.runM
  simp only [bind, Except.bind, hr]
  by_cases hd : (!r'.draws.isEmpty) = true
  · right; simp only [hd, if_true]; rfl
  · left; simp only [hd]; exact ⟨_, rfl⟩

theorem rstep_done (rn : RawNode) (draws : List Nat) (m : Message)
    (h : NoErr (Raft.step Raft.stepFuel m) { rn.raft with draws := draws }) : Done (rn.rstep draws m) := by
  unfold RawNode.rstep
  rcases runM_done rn draws _ h with ⟨a, ha⟩ | he
  · left; rw [ha]; exact ⟨_, rfl⟩
  · right; rw [he]; rfl

theorem step_done (rn : RawNode) (draws : List Nat) (m : Message)
    (h : NoErr (Raft.step Raft.stepFuel m) { rn.raft with draws := draws }) : Done (rn.step draws m) := by
  unfold RawNode.step
  split
  · exact .of_ok rfl
  · split
    · exact .of_ok rfl
    · exact rstep_done rn draws m h

theorem tick_done (rn : RawNode) (draws : List Nat)
    (h : NoErr Raft.tick { rn.raft with draws := draws }) : Done (rn.tick draws) := by
  unfold RawNode.tick
  rcases runM_done rn draws _ h with ⟨a, ha⟩ | he
  · left; rw [ha]; exact ⟨_, rfl⟩
  · right; rw [he]; rfl

end RaftVerif.NoPanicP
