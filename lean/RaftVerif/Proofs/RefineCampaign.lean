import RaftVerif.Proofs.RefineStep
import RaftVerif.Proofs.NextVotes
/-!
# Proofs/RefineCampaign — `campaign` / MsgHup / MsgTimeoutNow refine the Spec's `campaign` + `sendReqVote`

For **every** model state `s` whose log is well formed and uncompacted:

* `campaign_refine`        — `campaign t` (`t ≠ preElection`) ends in `CampaignPost val t s s'`: candidate of
  `term + 1` that voted for itself, same log, and **exactly** these messages queued: one `MsgVote` per voter
  other than the node itself (in the order of `trk.voterNodes`), each advertising
  `(lastTerm, length)` of the abstract log, and the node's own granting `MsgVoteResp` in `msgsAfterAppend`;
* `step_hup_refine`, `step_timeoutNow_refine`, `step_hup_noop` — the `Step`s that campaign (or do nothing);
* `campaign_abs`           — the connection with `Spec.apply s (.campaign n)` / `(.sendReqVote n)`.
-/
namespace RaftVerif.Refine
open Raft
set_option linter.unusedSimpArgs false

/-! ### a loop rule that remembers the processed prefix -/

/-- `for x in l do body` where every iteration `yield`s: an invariant indexed by the list of elements
processed so far -/
theorem forIn_prefix {γ β : Type} (l : List γ) (body : γ → β → M (ForInStep β))
    (Inv : List γ → β → Raft → Prop)
    (hstep : ∀ pre x b mid, Inv pre b mid →
      Spec (body x b) mid (fun st s' => ∃ b', st = .yield b' ∧ Inv (pre ++ [x]) b' s'))
    (pre : List γ) (init : β) (s : Raft) (h0 : Inv pre init s) :
    Spec (forIn l init body) s (fun b s' => Inv (pre ++ l) b s') := by
  induction l generalizing pre init s with
  | nil => simp only [List.forIn_nil, Spec.pure_iff, List.append_nil]; exact h0
  | cons x xs ih =>
    simp only [List.forIn_cons, Spec.bind_iff]
    refine (hstep pre x init s h0).mono ?_
    rintro st mid ⟨b', rfl, hinv⟩
    have := ih (pre ++ [x]) b' mid hinv
    simpa only [List.append_assoc, List.singleton_append] using this

/-! ### the messages a campaign queues -/

/-- the `MsgVote` a node in state `s` sends to `to` when it campaigns (`t = transfer`: with the
`CampaignTransfer` context that overrides the receiver's leader lease) -/
def voteReq (val : Val) (t : CampaignType) (s : Raft) (to : Id) : Message :=
  { typ := .vote, to := to, «from» := s.cfg.id, term := s.term + 1,
    logTerm := (absLog val s).lastTerm, index := (absLog val s).length,
    context := if t = .transfer then some campaignTransferCtx else none }

/-- the granting `MsgVoteResp` a campaigning node addresses to itself -/
def ownVote (s : Raft) (to : Id) : Message :=
  { typ := .voteResp, to := to, «from» := s.cfg.id, term := s.term + 1 }

/-- all vote requests of a campaign started in `s`, in sending order -/
def voteReqs (val : Val) (t : CampaignType) (s : Raft) : List Message :=
  (s.trk.voterNodes.filter (· ≠ s.cfg.id)).map (voteReq val t s)

/-- the self-addressed vote(s) of a campaign started in `s` (one per occurrence of the node in
`voterNodes`, i.e. exactly one for a voter, none for a non-voter) -/
def ownVotes (s : Raft) : List Message :=
  (s.trk.voterNodes.filter (· = s.cfg.id)).map (ownVote s)

/-- **what `campaign t` (`t ≠ preElection`) does**, exactly on the fields the abstraction looks at and on
both message queues (`becomeCandidate` also consumes an election-timeout draw and resets `trk.progress`,
the timers, `leadTransferee`, `pendingConfIndex`, `uncommittedSize`, `readOnly`) -/
structure CampaignPost (val : Val) (t : CampaignType) (s s' : Raft) : Prop where
  notLeader : s.state ≠ .leader
  term : s'.term = s.term + 1
  vote : s'.vote = s.cfg.id
  state : s'.state = .candidate
  lead : s'.lead = 0
  log : s'.log = s.log
  cfg : s'.cfg = s.cfg
  trkCfg : s'.trk.cfg = s.trk.cfg
  votes : s'.trk.votes = []
  msgs : s'.msgs = s.msgs ++ voteReqs val t s
  maa : s'.msgsAfterAppend = s.msgsAfterAppend ++ ownVotes s

theorem voterNodes_congr {a b : Tracker} (h : a.cfg = b.cfg) : a.voterNodes = b.voterNodes := by
  unfold Tracker.voterNodes Tracker.outgoingL; rw [h]

/-- every queued vote request, field by field -/
theorem mem_voteReqs {val : Val} {t : CampaignType} {s : Raft} {x : Message} (hx : x ∈ voteReqs val t s) :
    x.typ = .vote ∧ x.from = s.cfg.id ∧ x.to ≠ s.cfg.id ∧ x.to ∈ s.trk.voterNodes ∧ x.term = s.term + 1 ∧
    x.logTerm = (absLog val s).lastTerm ∧ x.index = (absLog val s).length ∧ x.reject = false ∧
    x.context = (if t = .transfer then some campaignTransferCtx else none) ∧
    x.entries = [] ∧ x.commit = 0 ∧ x.snapshot = none := by
  unfold voteReqs at hx
  obtain ⟨to, hto, rfl⟩ := List.mem_map.1 hx
  obtain ⟨hmem, hne⟩ := List.mem_filter.1 hto
  have hne' : to ≠ s.cfg.id := by simpa using hne
  exact ⟨rfl, rfl, hne', hmem, rfl, rfl, rfl, rfl, rfl, rfl, rfl, rfl⟩

theorem mem_ownVotes {s : Raft} {x : Message} (hx : x ∈ ownVotes s) :
    x.typ = .voteResp ∧ x.from = s.cfg.id ∧ x.to = s.cfg.id ∧ x.term = s.term + 1 ∧ x.reject = false := by
  unfold ownVotes at hx
  obtain ⟨to, hto, rfl⟩ := List.mem_map.1 hx
  obtain ⟨_, he⟩ := List.mem_filter.1 hto
  have he' : to = s.cfg.id := by simpa using he
  exact ⟨rfl, rfl, he', rfl, rfl⟩

/-- the `∀`-form of the two queues -/
theorem CampaignPost.msgs_all {val : Val} {t : CampaignType} {s s' : Raft} (h : CampaignPost val t s s') :
    ∃ added, s'.msgs = s.msgs ++ added ∧ ∀ x ∈ added,
      x.typ = .vote ∧ x.from = s.cfg.id ∧ x.to ≠ s.cfg.id ∧ x.to ∈ s.trk.voterNodes ∧ x.term = s.term + 1 ∧
      x.logTerm = (absLog val s).lastTerm ∧ x.index = (absLog val s).length ∧ x.reject = false ∧
      x.context = (if t = .transfer then some campaignTransferCtx else none) :=
  ⟨_, h.msgs, fun _ hx => by
    obtain ⟨h1, h2, h3, h4, h5, h6, h7, h8, h9, _⟩ := mem_voteReqs hx
    exact ⟨h1, h2, h3, h4, h5, h6, h7, h8, h9⟩⟩

theorem CampaignPost.maa_all {val : Val} {t : CampaignType} {s s' : Raft} (h : CampaignPost val t s s') :
    ∃ added, s'.msgsAfterAppend = s.msgsAfterAppend ++ added ∧ ∀ x ∈ added,
      x.typ = .voteResp ∧ x.from = s.cfg.id ∧ x.to = s.cfg.id ∧ x.term = s.term + 1 ∧ x.reject = false :=
  ⟨_, h.maa, fun _ hx => mem_ownVotes hx⟩

/-- the voter set the requests were sent to is the one of the resulting state -/
theorem CampaignPost.voterNodes {val : Val} {t : CampaignType} {s s' : Raft} (h : CampaignPost val t s s') :
    s'.trk.voterNodes = s.trk.voterNodes := voterNodes_congr h.trkCfg

/-! ### the loop of `campaign` -/

/-- invariant of the sending loop of a campaign started in `s`, entered in `mid` (the state after
`becomeCandidate`), after the voters `pre` have been handled -/
structure CampLoop (val : Val) (t : CampaignType) (s mid : Raft) (pre : List Id) (s' : Raft) : Prop where
  frame : SendFrame mid s'
  msgs : s'.msgs = mid.msgs ++ (pre.filter (· ≠ s.cfg.id)).map (voteReq val t s)
  maa : s'.msgsAfterAppend = mid.msgsAfterAppend ++ (pre.filter (· = s.cfg.id)).map (ownVote s)

theorem CampLoop.nil (val : Val) (t : CampaignType) (s mid : Raft) : CampLoop val t s mid [] mid :=
  ⟨SendFrame.refl mid, by simp, by simp⟩

theorem becomeCandidate_trkCfg (s : Raft) : Spec becomeCandidate s (fun _ s' => s'.trk.cfg = s.trk.cfg) := by
  unfold becomeCandidate
  simp only [wp]
  refine ⟨fun _ => trivial, fun _ => (reset_spec_st (s.term + 1) s).mono ?_⟩
  intro _ s' ⟨_, _, _, _, _, _, _, _, h, _⟩
  exact h

/-- the self-vote iteration -/
theorem camp_loop_self (val : Val) (t : CampaignType) (s mid cur : Raft) (pre : List Id) (x : Id)
    (hcfg : mid.cfg = s.cfg) (hterm : mid.term = s.term + 1) (hx : x = mid.cfg.id)
    (hinv : CampLoop val t s mid pre cur) :
    Spec (send { typ := voteRespMsgType MsgType.vote, to := x, term := mid.term }) cur
      (fun _ s' => CampLoop val t s mid (pre ++ [x]) s') := by
  have hid : cur.cfg.id = s.cfg.id := by rw [hinv.frame.cfg, hcfg]
  have hxs : x = s.cfg.id := by rw [hx, hcfg]
  refine ((send_spec _ cur).and (send_sf _ cur)).mono ?_
  rintro _ s' ⟨⟨hp, rfl⟩ | ⟨hp, _⟩, hsf⟩
  · refine ⟨hinv.frame.trans hsf, ?_, ?_⟩
    · simp only [List.filter_append, hinv.msgs]
      simp [hxs]
    · simp only [List.filter_append, hinv.maa, List.map_append, List.append_assoc]
      simp [hxs, stamped, ownVote, voteRespMsgType, hid, hterm]
  · simp [isPromise, voteRespMsgType] at hp

/-- the iteration for another voter -/
theorem camp_loop_req (val : Val) (t : CampaignType) (s mid cur : Raft) (pre : List Id) (x : Id)
    (hcfg : mid.cfg = s.cfg) (hterm : mid.term = s.term + 1) (hx : x ≠ mid.cfg.id)
    (hinv : CampLoop val t s mid pre cur) :
    Spec (send { typ := MsgType.vote, to := x, term := mid.term, logTerm := (absLog val s).lastTerm,
                 index := (absLog val s).length,
                 context := if (t == CampaignType.transfer) = true then some campaignTransferCtx else none }) cur
      (fun _ s' => CampLoop val t s mid (pre ++ [x]) s') := by
  have hid : cur.cfg.id = s.cfg.id := by rw [hinv.frame.cfg, hcfg]
  have hxs : x ≠ s.cfg.id := by rw [← hcfg]; exact hx
  refine ((send_spec _ cur).and (send_sf _ cur)).mono ?_
  rintro _ s' ⟨⟨hp, _⟩ | ⟨hp, rfl⟩, hsf⟩
  · simp [isPromise] at hp
  · refine ⟨hinv.frame.trans hsf, ?_, ?_⟩
    · simp only [List.filter_append, hinv.msgs, List.map_append, List.append_assoc]
      simp [hxs, stamped, voteReq, hid, hterm]
    · simp only [List.filter_append, hinv.maa]
      simp [hxs]

/-- **`campaign t`, `t ≠ preElection`, from any state with a well-formed uncompacted log** -/
theorem campaign_refine (val : Val) (t : CampaignType) (ht : t ≠ .preElection) (s : Raft)
    (hwf : s.log.WF) (hu : Uncompacted s.log) :
    Spec (campaign t) s (fun _ s' => CampaignPost val t s s') := by
  unfold campaign
  have hb : (t == CampaignType.preElection) = false := by simpa using ht
  simp only [wp, hb, Bool.false_eq_true, false_implies, true_implies, not_false_eq_true, true_and]
  refine ((becomeCandidate_spec s).and (becomeCandidate_trkCfg s)).mono ?_
  intro _ mid ⟨⟨hnl, h1, h2, h3, h4, h5, h6, h7, h8, h9⟩, h10⟩
  refine (forIn_prefix mid.trk.voterNodes _ (fun pre _ s' => CampLoop val t s mid pre s') ?_ [] PUnit.unit mid
    (CampLoop.nil val t s mid)).mono ?_
  · intro pre x _ cur hinv
    simp only [wp]
    refine ⟨fun hx => ?_, fun hx => ?_⟩
    · have hx' : x = mid.cfg.id := by simpa using hx
      exact (camp_loop_self val t s mid cur pre x h6 h1 hx' hinv).mono (fun _ _ h => ⟨PUnit.unit, trivial, h⟩)
    · have hx' : x ≠ mid.cfg.id := by simpa using hx
      intro last hlast
      have hlog : cur.log = s.log := by rw [hinv.frame.log, h5]
      rw [hlog, lastEntryID_eq val hwf hu] at hlast
      injection hlast with hlast
      subst hlast
      exact (camp_loop_req val t s mid cur pre x h6 h1 hx' hinv).mono (fun _ _ h => ⟨PUnit.unit, trivial, h⟩)
  · intro _ s' h
    have hf := h.frame
    have hvn : mid.trk.voterNodes = s.trk.voterNodes := voterNodes_congr h10
    refine ⟨hnl, hf.term.trans h1, hf.vote.trans h2, hf.state.trans h4, hf.lead.trans h3, hf.log.trans h5,
      hf.cfg.trans h6, hf.trkCfg.trans h10, hf.trkVotes.trans h9, ?_, ?_⟩
    · rw [h.msgs, h7, List.nil_append, hvn]; rfl
    · rw [h.maa, h8, List.nil_append, hvn]; rfl

/-- the same statement with the postcondition spelled out (`∀`-form of the queues) -/
theorem campaign_refine_forall (val : Val) (t : CampaignType) (ht : t ≠ .preElection) (s : Raft)
    (hwf : s.log.WF) (hu : Uncompacted s.log) :
    Spec (campaign t) s (fun _ s' =>
      s.state ≠ .leader ∧ s'.term = s.term + 1 ∧ s'.vote = s.cfg.id ∧ s'.state = .candidate ∧ s'.lead = 0 ∧
      s'.log = s.log ∧ s'.cfg = s.cfg ∧ s'.trk.votes = [] ∧
      (∃ added, s'.msgs = s.msgs ++ added ∧ ∀ x ∈ added,
          x.typ = .vote ∧ x.from = s.cfg.id ∧ x.to ≠ s.cfg.id ∧ x.to ∈ s.trk.voterNodes ∧ x.term = s.term + 1 ∧
          x.logTerm = (absLog val s).lastTerm ∧ x.index = (absLog val s).length ∧ x.reject = false ∧
          x.context = (if t = .transfer then some campaignTransferCtx else none)) ∧
      (∃ added, s'.msgsAfterAppend = s.msgsAfterAppend ++ added ∧ ∀ x ∈ added,
          x.typ = .voteResp ∧ x.from = s.cfg.id ∧ x.to = s.cfg.id ∧ x.term = s.term + 1 ∧ x.reject = false)) :=
  (campaign_refine val t ht s hwf hu).mono fun _ _ h =>
    ⟨h.notLeader, h.term, h.vote, h.state, h.lead, h.log, h.cfg, h.votes, h.msgs_all, h.maa_all⟩

/-! ### the `Step`s that campaign -/

/-- `hup(t)` of a promotable non-leader without unapplied conf change is `campaign(t)` -/
theorem hup_run_campaign (t : CampaignType) (r : Raft) (hnl : r.state ≠ .leader)
    (hp : Live.promotableB r = true) (hu : hasUnappliedConfChanges.run r = .ok (false, r)) :
    (hup t).run r = (campaign t).run r := by
  rw [Live.hup_run, if_neg hnl, if_neg (by rw [hp]; simp), hu]
  simp only [P_ok_bind, Bool.false_eq_true, ↓reduceIte]

/-- `hup(t)` of a leader, of a node that is not promotable, or of one with an unapplied conf change: nothing -/
theorem hup_run_noop (t : CampaignType) (r : Raft)
    (h : r.state = .leader ∨ Live.promotableB r = false ∨ hasUnappliedConfChanges.run r = .ok (true, r)) :
    (hup t).run r = .ok ((), r) := by
  rw [Live.hup_run]
  by_cases hl : r.state = .leader
  · rw [if_pos hl]
  · rw [if_neg hl]
    by_cases hp : Live.promotableB r = false
    · rw [if_pos hp]
    · rw [if_neg hp]
      rcases h with h | h | h
      · exact absurd h hl
      · exact absurd h hp
      · rw [h]; rfl

/-- **MsgHup without PreVote** at a promotable non-leader with no unapplied conf change -/
theorem step_hup_refine (val : Val) (fuel : Nat) (m : Message) (r r' : Raft) (e : Option StepErr)
    (hm : m.typ = .hup) (h0 : m.term = 0) (hpv : r.cfg.preVote = false) (hnl : r.state ≠ .leader)
    (hp : Live.promotableB r = true) (hu : hasUnappliedConfChanges.run r = .ok (false, r))
    (hwf : r.log.WF) (hunc : Uncompacted r.log)
    (h : (step (fuel + 1) m).run r = .ok (e, r')) :
    e = none ∧ CampaignPost val .election r r' := by
  rw [Live.step_hup_run fuel m r hm h0, hpv, if_neg (by simp), hup_run_campaign _ r hnl hp hu] at h
  obtain ⟨p, hc, h'⟩ := bind_eq_ok.1 h
  injection h' with h'; injection h' with e1 e2; subst e2
  exact ⟨e1.symm, (campaign_refine val .election (by simp) r hwf hunc).elim hc⟩

/-- **MsgHup that does nothing** (any PreVote setting) -/
theorem step_hup_noop (fuel : Nat) (m : Message) (r r' : Raft) (e : Option StepErr)
    (hm : m.typ = .hup) (h0 : m.term = 0)
    (hc : r.state = .leader ∨ Live.promotableB r = false ∨ hasUnappliedConfChanges.run r = .ok (true, r))
    (h : (step (fuel + 1) m).run r = .ok (e, r')) : r' = r ∧ e = none := by
  rw [Live.step_hup_run fuel m r hm h0, hup_run_noop _ r hc] at h
  simp only [P_ok_bind] at h
  injection h with h; injection h with e1 e2
  exact ⟨e2.symm, e1.symm⟩

/-- `stepFollower` on MsgTimeoutNow is `hup(campaignTransfer)` -/
theorem stepFollower_timeoutNow_run (fuel : Nat) (m : Message) (r : Raft) (hm : m.typ = .timeoutNow) :
    (stepFollower fuel m).run r = ((hup .transfer).run r >>= fun p => .ok (none, p.2)) := by
  rw [stepFollower]
  simp only [StateT.run_bind, StateT.run_get, P_pure_eq, P_ok_bind, hm, StateT.run_pure]

/-- **MsgTimeoutNow** (local term or the node's own term) at a promotable follower with no unapplied
conf change: a real election even with PreVote (`campaignTransfer`) -/
theorem step_timeoutNow_refine (val : Val) (fuel : Nat) (m : Message) (r r' : Raft) (e : Option StepErr)
    (hm : m.typ = .timeoutNow) (hterm : m.term = 0 ∨ m.term = r.term) (hs : r.state = .follower)
    (hp : Live.promotableB r = true) (hu : hasUnappliedConfChanges.run r = .ok (false, r))
    (hwf : r.log.WF) (hunc : Uncompacted r.log)
    (h : (step (fuel + 1) m).run r = .ok (e, r')) :
    e = none ∧ CampaignPost val .transfer r r' := by
  have hnl : r.state ≠ .leader := by rw [hs]; simp
  have hd : (dispatch fuel m r) = stepFollower fuel m := by unfold dispatch; rw [hs]
  rw [step_same_term_dispatch fuel m r hterm (by rw [hm]; decide), hd, stepFollower_timeoutNow_run fuel m r hm,
    hup_run_campaign _ r hnl hp hu] at h
  obtain ⟨p, hc, h'⟩ := bind_eq_ok.1 h
  injection h' with h'; injection h' with e1 e2; subst e2
  exact ⟨e1.symm, (campaign_refine val .transfer (by simp) r hwf hunc).elim hc⟩

/-! ### the connection with the Spec: `campaign n` followed by `sendReqVote n` -/

/-- the guard of the Spec's `campaign` (`n ≠ 0` is established by `Config.validate`) -/
theorem campaign_enabled (val : Val) (cfg : Spec.Cfg) (st : Spec.State) (n : Nat) (r : Raft)
    (ha : Abs val r (st.nodes n)) (hn : n = r.cfg.id) (hnl : r.state ≠ .leader) (hid : r.cfg.id ≠ 0) :
    Spec.enabled cfg st (.campaign n) := by
  refine ⟨?_, by rw [hn]; exact hid⟩
  rw [ha.role]
  exact absRole_ne_leader hnl

/-- the Spec's `campaign n` touches only node `n` … -/
theorem apply_campaign_other (st : Spec.State) (n k : Nat) (hk : k ≠ n) :
    (Spec.apply st (.campaign n)).nodes k = st.nodes k := by
  simp [Spec.apply, Spec.setNode, hk]

/-- … and neither the soup nor the ghost history -/
theorem apply_campaign_rest (st : Spec.State) (n : Nat) :
    (Spec.apply st (.campaign n)).msgs = st.msgs ∧ (Spec.apply st (.campaign n)).elected = st.elected ∧
    (Spec.apply st (.campaign n)).glog = st.glog ∧ (Spec.apply st (.campaign n)).committed = st.committed := by
  simp [Spec.apply, Spec.setNode]

/-- the model state after `campaign t` is abstracted by node `n` after the Spec's `campaign n` -/
theorem campaign_abs_node (val : Val) (st : Spec.State) (n : Nat) (t : CampaignType) (r r' : Raft)
    (ha : Abs val r (st.nodes n)) (hn : n = r.cfg.id) (hp : CampaignPost val t r r') :
    Abs val r' ((Spec.apply st (.campaign n)).nodes n) := by
  obtain ⟨a1, a2, a3, a4, a5⟩ := ha
  constructor
  · simp only [Spec.apply, Spec.setNode, if_true]; rw [a1, hp.term]
  · simp only [Spec.apply, Spec.setNode, if_true]; rw [hp.vote, hn]
  · simp only [Spec.apply, Spec.setNode, if_true]; rw [a3, hp.log]
  · simp only [Spec.apply, Spec.setNode, if_true]; rw [a4, absLog, absLog, hp.log]
  · simp only [Spec.apply, Spec.setNode, if_true]; rw [hp.state]; rfl

/-- after the Spec's `campaign n` the node may send its vote request -/
theorem sendReqVote_enabled (cfg : Spec.Cfg) (st : Spec.State) (n : Nat) :
    Spec.enabled cfg (Spec.apply st (.campaign n)) (.sendReqVote n) := by
  simp [Spec.enabled, Spec.apply, Spec.setNode]

/-- the request `sendReqVote n` puts at the head of the soup after `campaign n` -/
theorem apply_sendReqVote_msgs (val : Val) (st : Spec.State) (n : Nat) (r : Raft)
    (ha : Abs val r (st.nodes n)) :
    (Spec.apply (Spec.apply st (.campaign n)) (.sendReqVote n)).msgs =
      Spec.Msg.reqVote (r.term + 1) n (absLog val r).lastTerm (absLog val r).length :: st.msgs := by
  simp only [Spec.apply, Spec.setNode, if_true]
  rw [ha.term, ha.log]

/-- `sendReqVote` changes no node -/
theorem apply_sendReqVote_nodes (st : Spec.State) (n k : Nat) :
    (Spec.apply st (.sendReqVote n)).nodes k = st.nodes k := rfl

/-- **`campaign` refines `campaign n ; sendReqVote n`**: with `Abs val r (st.nodes n)`, `n = r.cfg.id` and
the model run `CampaignPost val t r r'`,
* the Spec's `campaign n` is enabled (given `r.cfg.id ≠ 0`, an invariant of construction),
* its result at node `n` abstracts `r'` (and `sendReqVote n`, enabled there, keeps all nodes),
* the soup after `sendReqVote n` is the old one plus
  `reqVote (r.term+1) n (absLog val r).lastTerm (absLog val r).length`,
* **every** `MsgVote` the model queued (`r'.msgs = r.msgs ++ voteReqs val t r`) abstracts to that request. -/
theorem campaign_abs (val : Val) (cfg : Spec.Cfg) (st : Spec.State) (n : Nat) (t : CampaignType) (r r' : Raft)
    (ha : Abs val r (st.nodes n)) (hn : n = r.cfg.id) (hp : CampaignPost val t r r') :
    (r.cfg.id ≠ 0 → Spec.enabled cfg st (.campaign n)) ∧
    Abs val r' ((Spec.apply st (.campaign n)).nodes n) ∧
    Spec.enabled cfg (Spec.apply st (.campaign n)) (.sendReqVote n) ∧
    Abs val r' ((Spec.apply (Spec.apply st (.campaign n)) (.sendReqVote n)).nodes n) ∧
    (Spec.apply (Spec.apply st (.campaign n)) (.sendReqVote n)).msgs =
      Spec.Msg.reqVote (r.term + 1) n (absLog val r).lastTerm (absLog val r).length :: st.msgs ∧
    (∃ added, r'.msgs = r.msgs ++ added ∧ ∀ x ∈ added, x.typ = .vote ∧
      Spec.Msg.reqVote x.term x.from x.logTerm x.index =
        Spec.Msg.reqVote (r.term + 1) n (absLog val r).lastTerm (absLog val r).length) := by
  refine ⟨campaign_enabled val cfg st n r ha hn hp.notLeader, campaign_abs_node val st n t r r' ha hn hp,
    sendReqVote_enabled cfg st n, campaign_abs_node val st n t r r' ha hn hp,
    apply_sendReqVote_msgs val st n r ha, _, hp.msgs, ?_⟩
  intro x hx
  obtain ⟨h1, h2, _, _, h5, h6, h7, _⟩ := mem_voteReqs hx
  rw [h5, h2, h6, h7, hn]
  exact ⟨h1, rfl⟩

/-! ### non-vacuity -/

/-- a promotable follower of term 1 in the group {1, 2, 3} whose (uncompacted) log holds one entry `(1, 1)` -/
def exCamp : Raft :=
  { cfg := { id := 1 }, term := 1, lead := 2,
    log := RaftLog.new { ents := [{}, { term := 1, index := 1 }] } 1000, draws := [0],
    trk := { cfg := { voters := [1, 2, 3] }, maxInflight := 16,
             progress := [(1, { match_ := 0, next := 2 }), (2, { match_ := 0, next := 2 }),
                          (3, { match_ := 0, next := 2 })] } }

/-- the example satisfies every hypothesis of `step_hup_refine` -/
example : exCamp.log.WF ∧ Uncompacted exCamp.log ∧ Live.promotableB exCamp = true ∧
    exCamp.state ≠ .leader ∧ exCamp.cfg.preVote = false ∧ exCamp.cfg.id ≠ 0 ∧
    exCamp.log.committed ≤ exCamp.log.applied := by decide

theorem exCamp_noUnapplied : hasUnappliedConfChanges.run exCamp = .ok (false, exCamp) :=
  Live.hasUnappliedConfChanges_none exCamp (by decide)

/-- its abstract log is one entry of term 1 -/
example (val : Val) : absLog val exCamp = [{ term := 1, val := val none none }] := rfl

/-- MsgHup: candidate of term 2 that voted for itself, two `MsgVote` advertising `(logTerm, index) = (1, 1)`,
its own vote in `msgsAfterAppend` -/
theorem exCamp_hup :
    ((Raft.step 3 { typ := .hup }).run exCamp).toOption.map
      (fun p => p.1 == none && p.2.term == 2 && p.2.state == .candidate && p.2.vote == 1 && p.2.lead == 0 &&
        p.2.msgs.map (fun x => (x.typ, x.from, x.to, x.term, x.logTerm, x.index, x.context)) ==
          [(.vote, 1, 2, 2, 1, 1, none), (.vote, 1, 3, 2, 1, 1, none)] &&
        p.2.msgsAfterAppend.map (fun x => (x.typ, x.from, x.to, x.term, x.reject)) ==
          [(.voteResp, 1, 1, 2, false)]) = some true := by
  rw [Raft.step]; decide +kernel

/-- MsgTimeoutNow from the leader: the same, with the `CampaignTransfer` context -/
theorem exCamp_timeoutNow :
    ((Raft.step 3 { typ := .timeoutNow, «from» := 2, to := 1, term := 1 }).run exCamp).toOption.map
      (fun p => p.1 == none && p.2.term == 2 && p.2.state == .candidate && p.2.vote == 1 &&
        p.2.msgs.map (fun x => (x.typ, x.from, x.to, x.term, x.logTerm, x.index, x.context)) ==
          [(.vote, 1, 2, 2, 1, 1, some campaignTransferCtx), (.vote, 1, 3, 2, 1, 1, some campaignTransferCtx)] &&
        p.2.msgsAfterAppend.map (fun x => (x.typ, x.from, x.to, x.term, x.reject)) ==
          [(.voteResp, 1, 1, 2, false)]) = some true := by
  rw [Raft.step, Raft.stepFollower]; decide +kernel

/-- the general theorem applied to the example: the run exists and ends in `CampaignPost` -/
theorem exCamp_refines (val : Val) :
    ∃ r', (Raft.step 3 { typ := .hup }).run exCamp = .ok (none, r') ∧ CampaignPost val .election exCamp r' := by
  have hrun : ((Raft.step 3 { typ := .hup }).run exCamp).toOption.isSome = true := by
    rw [Raft.step]; decide +kernel
  cases h : (Raft.step 3 { typ := .hup }).run exCamp with
  | error e => rw [h] at hrun; cases hrun
  | ok p =>
    obtain ⟨e, r'⟩ := p
    obtain ⟨he, hp⟩ := step_hup_refine val 2 { typ := .hup } exCamp r' e rfl rfl (by decide) (by decide) (by decide)
      exCamp_noUnapplied (by decide) (by decide) h
    subst he
    exact ⟨r', rfl, hp⟩

end RaftVerif.Refine
