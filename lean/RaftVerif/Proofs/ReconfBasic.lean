import RaftVerif.Spec.ReconfStatements
/-!
# Frame lemmas for `Spec.apply`

`apply s a` is re-expressed component-wise: which node changes (`Action.actor`), what it becomes
(`nodeAfter`), which messages / elections / commit records are added, how `glog` changes.
Every later invariant proof goes through these lemmas instead of unfolding `apply`.
-/
namespace RaftVerif.SpecR

/-- the node an action acts on -/
def Action.actor : Action → NodeId
  | .campaign n => n | .sendReqVote n => n | .updateTerm n _ => n | .grant n _ _ _ => n | .write n => n | .persist n => n
  | .crash n _ => n | .sendVote n _ _ => n | .sendAck n _ _ => n | .becomeLeader n _ => n
  | .stepDown n => n | .leaderAppend n _ => n | .sendApp n _ _ => n | .sendSnap n _ => n
  | .sendHb n _ _ => n | .leaderCommit n _ _ => n | .handleApp n _ _ _ _ _ => n
  | .handleSnap n _ _ => n | .handleHb n _ _ => n | .ackCommit n _ => n
  | .leaderAppendCfg n _ _ => n | .applyTo n _ => n

/-- the volatile version of the acting node after the action -/
def volAfter (s : State) : Action → Ver
  | .campaign n =>
      let v := (s.nodes n).vol
      { v with term := v.term + 1, vote := n, votes := (v.term + 1, n) :: v.votes }
  | .updateTerm n t => { (s.nodes n).vol with term := t, vote := 0 }
  | .grant n c _ _ =>
      let v := (s.nodes n).vol
      { v with vote := c, votes := (v.term, c) :: v.votes }
  | .crash n _ => (s.nodes n).dur
  | .leaderAppend n val =>
      let v := (s.nodes n).vol
      let l := v.log ++ [{ term := v.term, val := val }]
      { v with log := l, acks := (v.term, l.length) :: v.acks }
  | .leaderAppendCfg n val c =>
      let v := (s.nodes n).vol
      let l := v.log ++ [{ term := v.term, val := val, cfg := some c }]
      { v with log := l, acks := (v.term, l.length) :: v.acks }
  | .leaderCommit n c _ => { (s.nodes n).vol with commit := c }
  | .handleApp n t prev prevTerm ents commit =>
      let v := (s.nodes n).vol
      match appendResult v.log prev prevTerm ents with
      | none => v
      | some lnew =>
          { v with log := lnew, commit := max v.commit (min commit (prev + ents.length)),
                   acks := (t, prev + ents.length) :: v.acks }
  | .handleSnap n t pre =>
      let v := (s.nodes n).vol
      if pre.length ≤ v.commit then v
      else if v.log.take pre.length = pre then { v with commit := pre.length }
      else { v with log := pre, commit := pre.length, acks := (t, pre.length) :: v.acks }
  | .handleHb n _ c => { (s.nodes n).vol with commit := max (s.nodes n).vol.commit c }
  | .ackCommit n t =>
      let v := (s.nodes n).vol
      { v with acks := (t, v.commit) :: v.acks }
  | a => (s.nodes a.actor).vol

/-- the role of the acting node after the action -/
def roleAfter (s : State) : Action → Role
  | .campaign _ => .candidate
  | .becomeLeader _ _ => .leader
  | .updateTerm _ _ | .crash _ _ | .stepDown _ | .handleApp .. | .handleSnap .. | .handleHb ..
  | .ackCommit .. => .follower
  | a => (s.nodes a.actor).role

/-- the applied index of the acting node after the action -/
def appliedAfter (s : State) : Action → Nat
  | .crash _ k => k
  | .applyTo _ k => k
  | .handleSnap n _ pre =>
      let nd := s.nodes n
      if pre.length ≤ nd.vol.commit then nd.applied
      else if nd.vol.log.take pre.length = pre then nd.applied else pre.length
  | a => (s.nodes a.actor).applied

/-- `pendingConfIndex` of the acting node after the action -/
def pendingAfter (s : State) : Action → Nat
  | .crash _ _ => 0
  | .becomeLeader n _ => (s.nodes n).vol.log.length
  | .leaderAppendCfg n _ _ => (s.nodes n).vol.log.length + 1
  | a => (s.nodes a.actor).pendingConf

/-- the acting node after the action -/
def nodeAfter (s : State) (a : Action) : Node :=
  let nd := s.nodes a.actor
  match a with
  | .write _ => { nd with pending := nd.pending ++ [nd.vol] }
  | .persist _ =>
      match nd.pending with
      | [] => nd
      | w :: rest => { nd with dur := w, pending := rest }
  | .crash _ k => { nd with vol := nd.dur, pending := [], role := .follower, applied := k,
                            pendingConf := 0 }
  | a => { nd with vol := volAfter s a, role := roleAfter s a, applied := appliedAfter s a,
                   pendingConf := pendingAfter s a }

def newMsgs (s : State) : Action → List Msg
  | .sendReqVote n =>
      let v := (s.nodes n).vol
      [Msg.reqVote v.term n v.log.lastTerm v.log.length]
  | .sendVote n t c => [Msg.vote t n c]
  | .sendAck n t k => [Msg.ack t n k]
  | .sendApp n prev cnt =>
      let v := (s.nodes n).vol
      [Msg.app v.term prev ((v.log.termAt prev).getD 0) ((v.log.drop prev).take cnt) v.commit]
  | .sendSnap n idx => [Msg.snap (s.nodes n).vol.term ((s.nodes n).vol.log.take idx)]
  | .sendHb n to c => [Msg.hb (s.nodes n).vol.term to c]
  | _ => []

def newElected (s : State) : Action → List (Nat × NodeId)
  | .becomeLeader n _ => [((s.nodes n).vol.term, n)]
  | _ => []

def glogAfter (s : State) : Action → Nat → Log
  | .becomeLeader n _ => fun t => if t = (s.nodes n).vol.term then (s.nodes n).vol.log else s.glog t
  | .leaderAppend n val => fun t =>
      if t = (s.nodes n).vol.term then (s.nodes n).vol.log ++ [{ term := (s.nodes n).vol.term, val := val }]
      else s.glog t
  | .leaderAppendCfg n val c => fun t =>
      if t = (s.nodes n).vol.term then
        (s.nodes n).vol.log ++ [{ term := (s.nodes n).vol.term, val := val, cfg := some c }]
      else s.glog t
  | _ => s.glog

/-- commit records added by the action: the entries of the new volatile log between the old and
the new commit index (empty when the commit index does not move) -/
def newCommitted (s : State) (a : Action) : List (Nat × Ent × Nat) :=
  let v := (s.nodes a.actor).vol
  match a with
  | .leaderCommit .. | .handleApp .. | .handleSnap .. | .handleHb .. =>
      commitRange (volAfter s a).log v.commit (volAfter s a).commit v.term
  | _ => []

def newChoices (s : State) : Action → List (Nat × Nat × Nat)
  | .leaderCommit n c _ => [((s.nodes n).vol.term, c, (s.nodes n).applied)]
  | _ => []

theorem commitRange_self (l : Log) (c t : Nat) : commitRange l c c t = [] := by
  simp [commitRange]

theorem apply_nodes (s : State) (a : Action) (m : NodeId) :
    (apply s a).nodes m = if m = a.actor then nodeAfter s a else s.nodes m := by
  cases a <;> simp only [apply, setNode, Action.actor, nodeAfter, volAfter, roleAfter, appliedAfter,
    pendingAfter]
  all_goals try rfl
  case persist n =>
    cases (s.nodes n).pending
    · by_cases h : m = n <;> simp [h]
    · rfl
  case handleApp n t prev pt ents c => cases appendResult (s.nodes n).vol.log prev pt ents <;> rfl
  case handleSnap n t pre =>
    by_cases h1 : pre.length ≤ (s.nodes n).vol.commit
    · simp only [h1, ↓reduceIte]
    · by_cases h2 : List.take pre.length (s.nodes n).vol.log = pre <;> simp only [h1, h2, ↓reduceIte]
  case leaderAppendCfg n v c => simp only [List.length_append, List.length_cons, List.length_nil]
  case sendReqVote n => by_cases h : m = n <;> simp [h]
  case sendVote n t c => by_cases h : m = n <;> simp [h]
  case sendAck n t c => by_cases h : m = n <;> simp [h]
  case sendApp n _ _ => by_cases h : m = n <;> simp [h]
  case sendSnap n _ => by_cases h : m = n <;> simp [h]
  case sendHb n _ _ => by_cases h : m = n <;> simp [h]

theorem apply_msgs (s : State) (a : Action) : (apply s a).msgs = newMsgs s a ++ s.msgs := by
  cases a <;> simp only [apply, setNode, newMsgs, List.nil_append, List.cons_append]
  case persist n => cases (s.nodes n).pending <;> rfl
  case handleApp n t prev pt ents c => cases appendResult (s.nodes n).vol.log prev pt ents <;> rfl
  case handleSnap n t pre =>
    by_cases h1 : pre.length ≤ (s.nodes n).vol.commit
    · simp only [h1, ↓reduceIte]
    · by_cases h2 : List.take pre.length (s.nodes n).vol.log = pre <;> simp only [h1, h2, ↓reduceIte]

theorem apply_elected (s : State) (a : Action) : (apply s a).elected = newElected s a ++ s.elected := by
  cases a <;> simp only [apply, setNode, newElected, List.nil_append, List.cons_append]
  case persist n => cases (s.nodes n).pending <;> rfl
  case handleApp n t prev pt ents c => cases appendResult (s.nodes n).vol.log prev pt ents <;> rfl
  case handleSnap n t pre =>
    by_cases h1 : pre.length ≤ (s.nodes n).vol.commit
    · simp only [h1, ↓reduceIte]
    · by_cases h2 : List.take pre.length (s.nodes n).vol.log = pre <;> simp only [h1, h2, ↓reduceIte]

theorem apply_glog (s : State) (a : Action) : (apply s a).glog = glogAfter s a := by
  cases a <;> simp only [apply, setNode, glogAfter]
  case persist n => cases (s.nodes n).pending <;> rfl
  case handleApp n t prev pt ents c => cases appendResult (s.nodes n).vol.log prev pt ents <;> rfl
  case handleSnap n t pre =>
    by_cases h1 : pre.length ≤ (s.nodes n).vol.commit
    · simp only [h1, ↓reduceIte]
    · by_cases h2 : List.take pre.length (s.nodes n).vol.log = pre <;> simp only [h1, h2, ↓reduceIte]

theorem apply_committed (s : State) (a : Action) :
    (apply s a).committed = newCommitted s a ++ s.committed := by
  cases a <;> simp only [apply, setNode, newCommitted, volAfter, Action.actor, List.nil_append]
  case persist n => cases (s.nodes n).pending <;> rfl
  case handleApp n t prev pt ents c =>
    cases appendResult (s.nodes n).vol.log prev pt ents <;> simp [commitRange_self]
  case handleSnap n t pre =>
    by_cases h1 : pre.length ≤ (s.nodes n).vol.commit
    · simp [h1, commitRange_self]
    · by_cases h2 : List.take pre.length (s.nodes n).vol.log = pre <;> simp only [h1, h2, ↓reduceIte]

theorem apply_choices (s : State) (a : Action) :
    (apply s a).choices = newChoices s a ++ s.choices := by
  cases a <;> simp only [apply, setNode, newChoices, List.nil_append, List.cons_append]
  case persist n => cases (s.nodes n).pending <;> rfl
  case handleApp n t prev pt ents c => cases appendResult (s.nodes n).vol.log prev pt ents <;> rfl
  case handleSnap n t pre =>
    by_cases h1 : pre.length ≤ (s.nodes n).vol.commit
    · simp only [h1, ↓reduceIte]
    · by_cases h2 : List.take pre.length (s.nodes n).vol.log = pre <;> simp only [h1, h2, ↓reduceIte]

def eappAfter (s : State) : Action → Nat → Nat
  | .becomeLeader n _ => fun t => if t = (s.nodes n).vol.term then (s.nodes n).applied else s.eapp t
  | _ => s.eapp

theorem apply_eapp (s : State) (a : Action) : (apply s a).eapp = eappAfter s a := by
  cases a <;> simp only [apply, setNode, eappAfter]
  case persist n => cases (s.nodes n).pending <;> rfl
  case handleApp n t prev pt ents c => cases appendResult (s.nodes n).vol.log prev pt ents <;> rfl
  case handleSnap n t pre =>
    by_cases h1 : pre.length ≤ (s.nodes n).vol.commit
    · simp only [h1, ↓reduceIte]
    · by_cases h2 : List.take pre.length (s.nodes n).vol.log = pre <;> simp only [h1, h2, ↓reduceIte]

def ecommitAfter (s : State) : Action → Nat → Nat
  | .becomeLeader n _ => fun t => if t = (s.nodes n).vol.term then (s.nodes n).vol.commit else s.ecommit t
  | _ => s.ecommit

def elenAfter (s : State) : Action → Nat → Nat
  | .becomeLeader n _ => fun t => if t = (s.nodes n).vol.term then (s.nodes n).vol.log.length else s.elen t
  | _ => s.elen

theorem apply_ecommit (s : State) (a : Action) : (apply s a).ecommit = ecommitAfter s a := by
  cases a <;> simp only [apply, setNode, ecommitAfter]
  case persist n => cases (s.nodes n).pending <;> rfl
  case handleApp n t prev pt ents c => cases appendResult (s.nodes n).vol.log prev pt ents <;> rfl
  case handleSnap n t pre =>
    by_cases h1 : pre.length ≤ (s.nodes n).vol.commit
    · simp only [h1, ↓reduceIte]
    · by_cases h2 : List.take pre.length (s.nodes n).vol.log = pre <;> simp only [h1, h2, ↓reduceIte]

theorem apply_elen (s : State) (a : Action) : (apply s a).elen = elenAfter s a := by
  cases a <;> simp only [apply, setNode, elenAfter]
  case persist n => cases (s.nodes n).pending <;> rfl
  case handleApp n t prev pt ents c => cases appendResult (s.nodes n).vol.log prev pt ents <;> rfl
  case handleSnap n t pre =>
    by_cases h1 : pre.length ≤ (s.nodes n).vol.commit
    · simp only [h1, ↓reduceIte]
    · by_cases h2 : List.take pre.length (s.nodes n).vol.log = pre <;> simp only [h1, h2, ↓reduceIte]

end RaftVerif.SpecR
