import RaftVerif.Proofs.SimInv
import RaftVerif.Proofs.NextSolo
/-!
# Proofs/SimTerm — messages of another term: ignored (lower term), Spec `updateTerm` (higher term);
same-term `becomeFollower`: Spec `stepDown`
-/
namespace RaftVerif.Sim
open Refine
set_option linter.unusedSimpArgs false

/-- the kinds of messages the environment delivers from the network -/
def Deliverable (t : MsgType) : Prop :=
  t = .vote ∨ t = .voteResp ∨ t = .app ∨ t = .appResp ∨ t = .heartbeat ∨ t = .heartbeatResp

/-- the answer of a node (with CheckQuorum or PreVote) to a stale leader's MsgApp / MsgHeartbeat -/
def staleResp (r : Raft) (m : Message) : Message :=
  { to := m.from, typ := .appResp, «from» := r.cfg.id, term := r.term }

/-- `r` with one more message queued behind the storage write -/
def pushMaa (r : Raft) (x : Message) : Raft := { r with msgsAfterAppend := r.msgsAfterAppend ++ [x] }

/-- a message of a lower term is ignored, except that a node with CheckQuorum (or PreVote) answers a stale leader's
MsgApp / MsgHeartbeat with an empty MsgAppResp of its own term -/
theorem lower_term_cases {r r' : Raft} {m : Message} {e : Option StepErr} {fuel : Nat}
    (h0 : m.term ≠ 0) (hlt : m.term < r.term)
    (hty : Deliverable m.typ) (h : (Raft.step (fuel + 1) m).run r = .ok (e, r')) :
    r' = r ∨ ((r.cfg.checkQuorum || r.cfg.preVote) = true ∧ (m.typ = .app ∨ m.typ = .heartbeat) ∧
      r' = pushMaa r (staleResp r m)) := by
  have h0' : (m.term == 0) = false := by simpa using h0
  have h1 : ¬ (m.term > r.term) := by omega
  have ht0 : r.term ≠ 0 := by omega
  cases hq : (r.cfg.checkQuorum || r.cfg.preVote) with
  | false =>
    left
    have hq1 : ¬ (r.cfg.checkQuorum = true ∨ r.cfg.preVote = true) := by simpa using hq
    have key : (Raft.step (fuel + 1) m).run r = .ok (none, r) := by
      rw [Raft.step]
      rcases hty with ht | ht | ht | ht | ht | ht <;>
        simp [StateT.run_bind, StateT.run_get, P_pure_eq, P_ok_bind, h0', h1, hlt, ht, hq1, StateT.run_pure]
    rw [key] at h
    injection h with h; injection h with _ h; exact h.symm
  | true =>
    have hq1 : r.cfg.checkQuorum = true ∨ r.cfg.preVote = true := by simpa using hq
    by_cases hk : m.typ = .app ∨ m.typ = .heartbeat
    · right
      refine ⟨rfl, hk, ?_⟩
      have key : (Raft.step (fuel + 1) m).run r = .ok (none, pushMaa r (staleResp r m)) := by
        rw [Raft.step]
        rcases hk with ht | ht <;>
          simp [StateT.run_bind, StateT.run_get, P_pure_eq, P_ok_bind, h0', h1, hlt, ht, hq1, StateT.run_pure,
            Raft.send, StateT.run_modify, StateT.run_map, pushMaa, staleResp, ht0] <;> rfl
      rw [key] at h
      injection h with h; injection h with _ h; exact h.symm
    · left
      have key : (Raft.step (fuel + 1) m).run r = .ok (none, r) := by
        rw [Raft.step]
        rcases hty with ht | ht | ht | ht | ht | ht <;>
          first
          | (exfalso; simp [ht] at hk; done)
          | simp [StateT.run_bind, StateT.run_get, P_pure_eq, P_ok_bind, h0', h1, hlt, ht, hq1, StateT.run_pure]
      rw [key] at h
      injection h with h; injection h with _ h; exact h.symm

/-- a message of a lower term that is no MsgApp / MsgHeartbeat is ignored -/
theorem sim_lower_term {r r' : Raft} {m : Message}
    {e : Option StepErr} {fuel : Nat} (h0 : m.term ≠ 0) (hlt : m.term < r.term)
    (hty : Deliverable m.typ) (hk : m.typ ≠ .app ∧ m.typ ≠ .heartbeat)
    (h : (Raft.step (fuel + 1) m).run r = .ok (e, r')) : r' = r := by
  rcases lower_term_cases h0 hlt hty h with h | ⟨_, h | h, _⟩
  · exact h
  · exact absurd h hk.1
  · exact absurd h hk.2

/-! ### what `becomeFollower` does, exactly -/

theorem lookup_map_keys {β γ : Type} (f : Id → β → γ) (l : List (Id × β)) (k : Id) :
    Quorum.lookup (l.map fun p => (p.1, f p.1 p.2)) k = (Quorum.lookup l k).map (f k) := by
  induction l with
  | nil => rfl
  | cons a t ih =>
    obtain ⟨i, b⟩ := a
    simp only [List.map_cons, Quorum.lookup]
    by_cases hk : i = k
    · subst hk; simp
    · have : (i == k) = false := by simpa using hk
      simp only [this, Bool.false_eq_true, ↓reduceIte]
      exact ih

/-- `becomeFollower` succeeds only if a draw is left, and then its result is explicit -/
theorem becomeFollower_run_exact {t l : Nat} {r r1 : Raft} (h : (Raft.becomeFollower t l).run r = .ok ((), r1)) :
    ∃ d rest, r.draws = d :: rest ∧ r1 = { Next.resetSt r t d rest with lead := l, state := .follower } := by
  cases hd : r.draws with
  | nil =>
    exfalso
    unfold Raft.becomeFollower Raft.reset Raft.resetRandomizedElectionTimeout at h
    by_cases ht : r.term = t
    · subst ht
      simp [StateT.run_bind, StateT.run_modify, StateT.run_get, StateT.run_set, hd] at h
    · have : (r.term != t) = true := by simpa using ht
      simp [StateT.run_bind, StateT.run_modify, StateT.run_get, StateT.run_set, hd, this, ht] at h
  | cons d rest =>
    refine ⟨d, rest, rfl, ?_⟩
    unfold Raft.becomeFollower at h
    simp only [StateT.run_bind, Next.reset_run t r d rest hd, P_ok_bind, StateT.run_modify, P_pure_eq] at h
    injection h with h; injection h with _ h; exact h.symm

/-- the fresh `Progress` that `reset` installs for peer `id` -/
def resetPr (r : Raft) (id : Id) (pr : Progress) : Progress :=
  { match_ := if id == r.cfg.id then r.log.lastIndex else 0, next := r.log.lastIndex + 1,
    inflights := { size := r.trk.maxInflight, maxBytes := r.trk.maxInflightBytes }, isLearner := pr.isLearner }

/-- **the invariant after `becomeFollower t l`** (`r.term ≤ t`), given the abstraction of the new state by a Spec
node `nd'` that differs from `nd` only in `vol.term`, `vol.vote`, `vol.log`/`vol.commit` (covered by `Abs`), `role` -/
theorem RaftInv.becomeFollower {val : Val} {voters : List Id} {n : Nat} {r r1 : Raft} {nd nd' : Spec.Node}
    {msgs : List Spec.Msg} {t l : Nat} (hinv : RaftInv val voters n r nd msgs) (hle : r.term ≤ t)
    (h : (Raft.becomeFollower t l).run r = .ok ((), r1)) (habs : Abs val r1 nd')
    (hp : nd'.pending = nd.pending) (hd : nd'.dur = nd.dur) (hv : nd'.vol.votes = nd.vol.votes)
    (ha : nd'.vol.acks = nd.vol.acks) : RaftInv val voters n r1 nd' msgs := by
  obtain ⟨d, rest, _, rfl⟩ := becomeFollower_run_exact h
  have hg : ∀ v, Tracker.getProgress
      ({ Next.resetSt r t d rest with lead := l, state := Role.follower } : Raft).trk v =
      (r.trk.getProgress v).map (resetPr r v) := fun v => lookup_map_keys (resetPr r) r.trk.progress v
  exact {
    abs := habs
    st := {
      id := hinv.st.id, idnz := hinv.st.idnz, pv := hinv.st.pv, xfer := rfl
      pri := hinv.st.pri, ro := rfl, tvoters := hinv.st.tvoters, tout := hinv.st.tout, tauto := hinv.st.tauto
      prog := fun v => by rw [hg, Option.isSome_map]; exact hinv.st.prog v
      nolearn := fun v pr hpr => by
        rw [hg] at hpr
        cases hq : r.trk.getProgress v with
        | none => rw [hq] at hpr; cases hpr
        | some pr0 =>
          rw [hq] at hpr
          injection hpr with hpr
          subst hpr
          exact hinv.st.nolearn v pr0 hq
      self := hinv.st.self }
    wf := hinv.wf
    unc := hinv.unc
    leadInv := fun hl => by cases hl
    candVote := fun hl => by cases hl
    termPos := fun hl => absurd rfl hl
    logLe := fun e he => Nat.le_trans (hinv.logLe e he) hle
    candLt := fun hl => by cases hl
    pend := hp.trans hinv.pend
    durV := fun p hp' => by rw [hv]; rw [hd] at hp'; exact hinv.durV p hp'
    durA := fun p hp' => by rw [ha]; rw [hd] at hp'; exact hinv.durA p hp'
    out := hinv.out
    prom := fun m hm => by
      obtain ⟨a, b, c⟩ := hinv.prom m hm
      refine ⟨a, b, ?_⟩
      rw [hv, ha]
      exact c
    rvTerm := fun t' lt li hx => Nat.le_trans (hinv.rvTerm t' lt li hx) hle
    rvCov := fun hl => by cases hl
    votes := fun hl => by cases hl
    selfVote := fun hl => by cases hl
    matchO := fun hl => by cases hl
    matchS := fun hl => by cases hl }

/-- one more recorded promise behind the storage write -/
theorem RaftInv.pushMaa {val : Val} {voters : List Id} {n : Nat} {r : Raft} {nd : Spec.Node}
    {msgs : List Spec.Msg} (hinv : RaftInv val voters n r nd msgs) {x : Message} (hx : PromOK n nd.vol x) :
    RaftInv val voters n (pushMaa r x) nd msgs where
  abs := hinv.abs.congr rfl rfl rfl rfl
  st := hinv.st.congr rfl rfl rfl rfl rfl rfl
  wf := hinv.wf
  unc := hinv.unc
  leadInv := hinv.leadInv
  candVote := hinv.candVote
  termPos := hinv.termPos
  logLe := hinv.logLe
  candLt := hinv.candLt
  pend := hinv.pend
  durV := hinv.durV
  durA := hinv.durA
  out := hinv.out
  prom := fun m hm => by
    rcases List.mem_append.1 hm with h | h
    · exact hinv.prom m h
    · rw [List.mem_singleton.1 h]; exact hx
  rvTerm := hinv.rvTerm
  rvCov := hinv.rvCov
  votes := hinv.votes
  selfVote := hinv.selfVote
  matchO := hinv.matchO
  matchS := hinv.matchS

/-- the answer to a stale leader is no promise of anything -/
theorem staleResp_promOK {n : Nat} {r : Raft} {m : Message} {v : Spec.Ver} (hid : r.cfg.id = n)
    (ht : r.term ≠ 0) : PromOK n v (staleResp r m) :=
  ⟨hid, ht, fun _ => Or.inl rfl⟩

/-- a delivered message of a lower term: the invariant is kept without any Spec action -/
theorem RaftInv.lower_term {val : Val} {voters : List Id} {n : Nat} {r r' : Raft} {nd : Spec.Node}
    {msgs : List Spec.Msg} {m : Message} {e : Option StepErr} {fuel : Nat}
    (hinv : RaftInv val voters n r nd msgs) (h0 : m.term ≠ 0) (hlt : m.term < r.term)
    (hty : Deliverable m.typ) (h : (Raft.step (fuel + 1) m).run r = .ok (e, r')) :
    RaftInv val voters n r' nd msgs := by
  rcases lower_term_cases h0 hlt hty h with rfl | ⟨_, _, rfl⟩
  · exact hinv
  · exact hinv.pushMaa (staleResp_promOK hinv.st.id (by omega))

/-- a delivered message of a higher term either raises the term, or is a MsgVote ignored inside the leader lease
(CheckQuorum) -/
theorem raises_or_lease {r r' : Raft} {m : Message} {e : Option StepErr} {fuel : Nat} (hgt : r.term < m.term)
    (hty : Deliverable m.typ) (h : (Raft.step (fuel + 1) m).run r = .ok (e, r')) :
    RaisesTerm r m ∨ (e = none ∧ r' = r) := by
  by_cases hl : m.typ = .vote ∧ m.context ≠ some campaignTransferCtx ∧ inLease r = true
  · right
    rw [Refinement.inLease_vote_ignored fuel m r (Or.inl hl.1) hgt hl.2.2 hl.2.1] at h
    injection h with h; injection h with h1 h2
    exact ⟨h1.symm, h2.symm⟩
  · left
    refine ⟨hgt, ?_, ?_, fun hv => ?_⟩
    · rcases hty with ht | ht | ht | ht | ht | ht <;> rw [ht] <;> simp
    · rcases hty with ht | ht | ht | ht | ht | ht <;> rw [ht] <;> simp
    · by_cases hc : m.context = some campaignTransferCtx
      · exact Or.inl hc
      · right
        cases hi : inLease r with
        | false => rfl
        | true => exact absurd ⟨hv, hc, hi⟩ hl

/-- a message of a higher term: ignored (a MsgVote inside the leader lease), or Spec `updateTerm`, then the same
message is stepped at its own term -/
theorem sim_raise_term {val : Val} {voters : List Id} {n : Nat} {s : Spec.State} {r r' : Raft} {m : Message}
    {e : Option StepErr} {fuel : Nat}
    (hinv : RaftInv val voters n r (s.nodes n) s.msgs) (hgt : r.term < m.term)
    (hty : Deliverable m.typ) (h : (Raft.step (fuel + 1) m).run r = .ok (e, r')) :
    r' = r ∨ ∃ r1 s1, RunL (cfgOf voters) s [.updateTerm n m.term] s1 ∧ s1.msgs = s.msgs ∧
      (s1.nodes n).dur = (s.nodes n).dur ∧
      RaftInv val voters n r1 (s1.nodes n) s1.msgs ∧ r1.term = m.term ∧ r1.state = .follower ∧
      (Raft.step (fuel + 1) m).run r1 = .ok (e, r') := by
  rcases raises_or_lease hgt hty h with hk | ⟨_, hk⟩
  case inr => exact Or.inl hk
  right
  obtain ⟨r1, h1, hen, habs, _, hst, _, _, _, _, _, hterm, hrun⟩ :=
    Refinement.updateTerm_refines val (cfgOf voters) fuel m r r' e s n hinv.abs hk h
  have hn : (Spec.apply s (.updateTerm n m.term)).nodes n =
      { (s.nodes n) with vol := { (s.nodes n).vol with term := m.term, vote := 0 }, role := .follower } := by
    simp [Spec.apply, Spec.setNode]
  refine ⟨r1, Spec.apply s (.updateTerm n m.term), .single hen, rfl, by rw [hn], ?_, hterm.symm, hst, hrun⟩
  show RaftInv val voters n r1 ((Spec.apply s (.updateTerm n m.term)).nodes n) s.msgs
  exact hinv.becomeFollower (Nat.le_of_lt hgt) h1 habs (by rw [hn]) (by rw [hn]) (by rw [hn]) (by rw [hn])

/-- `becomeFollower r.term l` (same term): Spec `stepDown` -/
theorem sim_stepDown {val : Val} {voters : List Id} {n : Nat} {s : Spec.State} {r : Raft} {l : Nat} {r1 : Raft}
    (hinv : RaftInv val voters n r (s.nodes n) s.msgs)
    (h : (Raft.becomeFollower r.term l).run r = .ok ((), r1)) :
    ∃ s1, RunL (cfgOf voters) s [.stepDown n] s1 ∧ s1.msgs = s.msgs ∧ (s1.nodes n).dur = (s.nodes n).dur ∧
      RaftInv val voters n r1 (s1.nodes n) s1.msgs ∧ r1.term = r.term ∧ r1.state = .follower ∧ r1.lead = l ∧
      r1.vote = r.vote ∧ r1.log = r.log ∧ r1.msgs = r.msgs ∧ r1.msgsAfterAppend = r.msgsAfterAppend := by
  obtain ⟨hen, habs, _, hst, hlead, hmsgs, hmaa⟩ :=
    Refinement.stepDown_refines val (cfgOf voters) l r r1 s n hinv.abs h
  have hn : (Spec.apply s (.stepDown n)).nodes n = { (s.nodes n) with role := .follower } := by
    simp [Spec.apply, Spec.setNode]
  have hI : RaftInv val voters n r1 ((Spec.apply s (.stepDown n)).nodes n) s.msgs :=
    hinv.becomeFollower (Nat.le_refl _) h habs (by rw [hn]) (by rw [hn]) (by rw [hn]) (by rw [hn])
  obtain ⟨d, rest, _, hr1⟩ := becomeFollower_run_exact h
  refine ⟨Spec.apply s (.stepDown n), .single hen, rfl, by rw [hn], hI, ?_, hst, hlead, ?_, ?_, hmsgs, hmaa⟩
  · rw [hr1]; rfl
  · rw [hr1]; show (if r.term = r.term then r.vote else 0) = r.vote; rw [if_pos rfl]
  · rw [hr1]; rfl

end RaftVerif.Sim
