import RaftVerif.Proofs.SimInv
/-!
# Proofs/SimProp — MsgProp (a local proposal, or a forwarded one) is simulated

* candidate / pre-candidate: dropped, nothing changes;
* follower: dropped, or forwarded to the leader (one `MsgProp` of term 0 queued; no Spec action);
* leader: dropped (only `pendingConfIndex` may change), or the entries are appended — one Spec `leaderAppend` per
  entry, then one Spec `sendApp` per `MsgApp` the broadcast queued.
-/
namespace RaftVerif.Sim
open Refine Raft

/-! ### the Spec side: `leaderAppend`s -/

/-- the `leaderAppend`s of `appendAll` form a run -/
theorem appendAll_run (val : Val) (cfg : Spec.Cfg) (n : Nat) (ents : List Entry) (s : Spec.State)
    (hl : (s.nodes n).role = .leader) :
    RunL cfg s (ents.map fun x => Spec.Action.leaderAppend n (val x.typ x.data)) (appendAll val n ents s) := by
  induction ents generalizing s with
  | nil => exact .nil s
  | cons e rest ih =>
    refine .cons hl ?_
    have := ih (Spec.apply s (.leaderAppend n (val e.typ e.data))) (by rw [leaderAppend_nodes]; exact hl)
    simpa only [appendAll, List.foldl_cons] using this

/-- what `appendAll` does to the rest of the Spec node and the soup: only `vol.log` and `vol.acks` of node `n` change;
the acknowledgements grow, and the one of the new last index is recorded -/
theorem appendAll_more (val : Val) (n : Nat) (ents : List Entry) (s : Spec.State) :
    ((appendAll val n ents s).nodes n).dur = (s.nodes n).dur ∧
    ((appendAll val n ents s).nodes n).pending = (s.nodes n).pending ∧
    ((appendAll val n ents s).nodes n).vol.votes = (s.nodes n).vol.votes ∧
    (appendAll val n ents s).msgs = s.msgs ∧
    (∀ p ∈ (s.nodes n).vol.acks, p ∈ ((appendAll val n ents s).nodes n).vol.acks) ∧
    (ents ≠ [] → ((s.nodes n).vol.term, (s.nodes n).vol.log.length + ents.length) ∈
      ((appendAll val n ents s).nodes n).vol.acks) := by
  induction ents generalizing s with
  | nil => simp [appendAll]
  | cons e rest ih =>
    have := ih (Spec.apply s (.leaderAppend n (val e.typ e.data)))
    simp only [appendAll, List.foldl_cons] at this ⊢
    rw [leaderAppend_nodes] at this
    obtain ⟨t1, t2, t3, t4, t5, t6⟩ := this
    refine ⟨t1, t2, t3, t4, fun p hp => t5 p (List.mem_cons_of_mem _ hp), fun _ => ?_⟩
    by_cases hr : rest = []
    · subst hr
      simp only [List.foldl_nil, leaderAppend_nodes, List.length_cons, List.length_nil]
      exact List.mem_cons_self
    · have h6 := t6 hr
      simp only [List.length_append, List.length_cons, List.length_nil] at h6 ⊢
      rw [show (s.nodes n).vol.log.length + (rest.length + 1) = (s.nodes n).vol.log.length + (0 + 1) + rest.length by omega]
      exact h6

/-! ### the Spec side: `sendApp`s -/

/-- the messages a broadcast queued (snapshots, and MsgApp of the current log) are matched by one Spec `sendApp` per
MsgApp: the nodes are untouched, the soup grows by exactly these `absApp`s (in particular by no vote request) -/
theorem sendApps_run (val : Val) (cfg : Spec.Cfg) (n : Nat) (r : Raft) (hs : r.state = .leader)
    (added : List Message) (s : Spec.State) (ha : Abs val r (s.nodes n))
    (hok : ∀ x ∈ added, x.typ = .snap ∨ SendAppOK val r x) :
    ∃ as s', RunL cfg s as s' ∧ (∀ a ∈ as, a.actor = n) ∧ s'.nodes = s.nodes ∧
      (∀ y ∈ s.msgs, y ∈ s'.msgs) ∧ (∀ x ∈ added, x.typ = .app → absApp val x ∈ s'.msgs) ∧
      (∀ t c lt li, Spec.Msg.reqVote t c lt li ∈ s'.msgs → Spec.Msg.reqVote t c lt li ∈ s.msgs) := by
  induction added generalizing s with
  | nil => exact ⟨[], s, .nil s, by simp, rfl, fun _ h => h, by simp, fun _ _ _ _ h => h⟩
  | cons x rest ih =>
    have hrest : ∀ y ∈ rest, y.typ = .snap ∨ SendAppOK val r y := fun y hy => hok y (List.mem_cons_of_mem _ hy)
    rcases hok x List.mem_cons_self with hx | hx
    · obtain ⟨as, s', h1, h2, h3, h4, h5, h6⟩ := ih s ha hrest
      refine ⟨as, s', h1, h2, h3, h4, ?_, h6⟩
      intro y hy hty
      rcases List.mem_cons.1 hy with rfl | hy
      · rw [hx] at hty; cases hty
      · exact h5 y hy hty
    · obtain ⟨he, hm, hn⟩ := sendApp_abs val cfg ha hs hx
      obtain ⟨as, s', h1, h2, h3, h4, h5, h6⟩ :=
        ih (Spec.apply s (.sendApp n x.index x.entries.length x.commit)) (by rw [hn]; exact ha) hrest
      refine ⟨_ :: as, s', .cons he h1, ?_, h3.trans hn, ?_, ?_, ?_⟩
      · intro a ha'
        rcases List.mem_cons.1 ha' with rfl | ha'
        · rfl
        · exact h2 a ha'
      · intro y hy
        exact h4 y (by rw [hm]; exact List.mem_cons_of_mem _ hy)
      · intro y hy hty
        rcases List.mem_cons.1 hy with rfl | hy
        · exact h4 _ (by rw [hm]; exact List.mem_cons_self)
        · exact h5 y hy hty
      · intro t c lt li hx'
        have := h6 t c lt li hx'
        rw [hm] at this
        rcases List.mem_cons.1 this with h | h
        · cases h
        · exact h

/-! ### the model side: what the leader's MsgProp path keeps -/

/-- the progress map keeps its keys, and every `Match` and `IsLearner` -/
def ProgKeep (r r' : Raft) : Prop :=
  ∀ id, (r.trk.getProgress id = none → r'.trk.getProgress id = none) ∧
    ∀ pr, r.trk.getProgress id = some pr → ∃ pr', r'.trk.getProgress id = some pr' ∧
      pr'.match_ = pr.match_ ∧ pr'.isLearner = pr.isLearner

theorem ProgKeep.back {r r' : Raft} (h : ProgKeep r r') {id : Id} {pr' : Progress}
    (hg : r'.trk.getProgress id = some pr') :
    ∃ pr, r.trk.getProgress id = some pr ∧ pr'.match_ = pr.match_ ∧ pr'.isLearner = pr.isLearner := by
  cases hr : r.trk.getProgress id with
  | none => rw [(h id).1 hr] at hg; cases hg
  | some pr =>
    obtain ⟨pr'', h1, h2, h3⟩ := (h id).2 pr hr
    rw [h1] at hg; injection hg with hg; subst hg
    exact ⟨pr, rfl, h2, h3⟩

theorem ProgKeep.isSome {r r' : Raft} (h : ProgKeep r r') (id : Id) :
    (r'.trk.getProgress id).isSome = (r.trk.getProgress id).isSome := by
  cases hr : r.trk.getProgress id with
  | none => rw [(h id).1 hr]
  | some pr =>
    obtain ⟨pr'', h1, _⟩ := (h id).2 pr hr
    rw [h1]; rfl

/-- the fields of `RaftStatic` (and `lead`) are kept -/
structure PropFrame (r r' : Raft) : Prop where
  cfg : r'.cfg = r.cfg
  lead : r'.lead = r.lead
  leadTransferee : r'.leadTransferee = r.leadTransferee
  pri : r'.pendingReadIndexMessages = r.pendingReadIndexMessages
  readOnly : r'.readOnly = r.readOnly
  trkCfg : r'.trk.cfg = r.trk.cfg
  prog : ProgKeep r r'

theorem RaftStatic.propFrame {voters : List Id} {n : Nat} {r r' : Raft} (h : RaftStatic voters n r)
    (f : PropFrame r r') : RaftStatic voters n r' where
  id := by rw [f.cfg]; exact h.id
  idnz := h.idnz
  pv := by rw [f.cfg]; exact h.pv
  xfer := f.leadTransferee.trans h.xfer
  pri := f.pri.trans h.pri
  ro := by rw [f.readOnly]; exact h.ro
  tvoters := by rw [f.trkCfg]; exact h.tvoters
  tout := by rw [f.trkCfg]; exact h.tout
  tauto := by rw [f.trkCfg]; exact h.tauto
  prog := fun v => by rw [f.prog.isSome]; exact h.prog v
  nolearn := fun v pr' hp => by
    obtain ⟨pr, h1, _, h3⟩ := f.prog.back hp
    rw [h3]; exact h.nolearn v pr h1
  self := h.self

/-- an empty MsgProp panics at a leader -/
theorem stepLeader_prop_nonempty (fuel : Nat) (m : Message) (s : Raft) (ht : m.typ = .prop) :
    RaftVerif.Spec (stepLeader fuel m) s (fun _ _ => m.entries ≠ []) := by
  by_cases hlen : m.entries = []
  · obtain ⟨typ, to, frm, term, logTerm, index, entries, commit, vote, snapshot, reject, rejectHint, context, responses⟩ := m
    simp only at ht hlen
    subst ht; subst hlen
    rw [stepLeader]
    simp only [wp]
    exact ⟨fun _ => trivial, fun h => absurd rfl h⟩
  · exact (Spec.trivial _ _).mono (fun _ _ _ => hlen)

/-- a leader's MsgProp: dropped (only `pendingConfIndex` may differ), or accepted (`PropPost`, `PropFrame`) -/
theorem step_prop_leader (val : Val) (fuel : Nat) (m : Message) (r r' : Raft) (e : Option StepErr)
    (ht : m.typ = .prop) (h0 : m.term = 0) (hs : r.state = .leader) (hwf : r.log.WF) (hu : Uncompacted r.log)
    (h : (step (fuel + 1) m).run r = .ok (e, r')) :
    (e = some .proposalDropped ∧ OnlyPCI r r') ∨
    (e = none ∧ m.entries ≠ [] ∧ (∃ ents, PropPost val r m ents r') ∧ PropFrame r r') := by
  refine (step_prop_local fuel m r (fun e r' => (e = some .proposalDropped ∧ OnlyPCI r r') ∨
      (e = none ∧ m.entries ≠ [] ∧ (∃ ents, PropPost val r m ents r') ∧ PropFrame r r')) ht h0 (fun _ => ?_)
    (fun hC => by rw [hs] at hC; rcases hC with hC | hC <;> cases hC)
    (fun hF => by rw [hs] at hF; cases hF)).elim h
  refine (((stepLeader_prop_spec_maa fuel m r ht).and (stepLeader_prop_refine val fuel m r ht hwf hu hs)).and
    (stepLeader_prop_nonempty fuel m r ht)).mono ?_
  rintro e s' ⟨⟨⟨rfl, hp⟩ | ⟨rfl, s1, ents, p, h1, _, _, hsf, _, hbc⟩, hpost⟩, hne⟩
  · exact Or.inl ⟨rfl, hp⟩
  · refine Or.inr ⟨rfl, hne, hpost rfl, ?_⟩
    obtain ⟨_, _, hpk⟩ := (Live.bcastAppend_pk _).elim hbc
    unfold OnlyPCI at h1
    have e1 : (afterAppend s1 ents p).trk = r.trk := by simp only [afterAppend]; rw [h1]
    refine ⟨hsf.cfg.trans (by simp only [afterAppend]; rw [h1]), hsf.lead.trans (by simp only [afterAppend]; rw [h1]),
      hsf.leadTransferee.trans (by simp only [afterAppend]; rw [h1]),
      hsf.pendingReadIndexMessages.trans (by simp only [afterAppend]; rw [h1]),
      hsf.readOnly.trans (by simp only [afterAppend]; rw [h1]), hsf.trkCfg.trans (by rw [e1]), ?_⟩
    intro id
    rw [← e1]
    refine ⟨(hpk id).1, fun pr hpr => ?_⟩
    obtain ⟨pr', g1, g2, _, g4, _⟩ := (hpk id).2 pr hpr
    exact ⟨pr', g1, g2, g4⟩

/-- a non-leader's MsgProp: nothing happens, or (follower) one MsgProp of term 0 is queued -/
theorem step_prop_nonleader (fuel : Nat) (m : Message) (r r' : Raft) (e : Option StepErr)
    (ht : m.typ = .prop) (h0 : m.term = 0) (hs : r.state ≠ .leader)
    (h : (step (fuel + 1) m).run r = .ok (e, r')) :
    r' = r ∨ ∃ x : Message, x.typ = .prop ∧ x.term = 0 ∧ r' = { r with msgs := r.msgs ++ [x] } := by
  refine (step_prop_local fuel m r (fun _ r' => r' = r ∨
      ∃ x : Message, x.typ = .prop ∧ x.term = 0 ∧ r' = { r with msgs := r.msgs ++ [x] }) ht h0
    (fun hL => absurd hL hs) (fun _ => ?_) (fun _ => ?_)).elim h
  · exact (stepCandidate_prop_spec fuel m r ht).mono (fun _ _ h => Or.inl h.2)
  · refine (stepFollower_prop_spec fuel m r ht).mono ?_
    intro e s' hsp
    split at hsp
    · exact Or.inl hsp.2
    · exact Or.inr ⟨{ m with to := r.lead, «from» := if m.from = 0 then r.cfg.id else m.from }, ht, h0, hsp.2.2⟩

/-- queueing a message that is justified by the soup keeps the invariant -/
theorem RaftInv.queue {val : Val} {voters : List Id} {n : Nat} {r : Raft} {nd : Spec.Node} {msgs : List Spec.Msg}
    (hinv : RaftInv val voters n r nd msgs) (x : Message) (hx : NetOK val msgs x) :
    RaftInv val voters n { r with msgs := r.msgs ++ [x] } nd msgs where
  abs := ⟨hinv.abs.term, hinv.abs.vote, hinv.abs.commit, hinv.abs.log, hinv.abs.role⟩
  st := hinv.st.congr rfl rfl rfl rfl rfl rfl
  wf := hinv.wf
  unc := hinv.unc
  leadInv := hinv.leadInv
  candVote := hinv.candVote
  termPos := hinv.termPos
  logLe := hinv.logLe
  candLt := hinv.candLt
  pend := hinv.pend
  durV := hinv.durV
  durA := hinv.durA
  out := by
    intro y hy
    rcases List.mem_append.1 hy with hy | hy
    · exact hinv.out y hy
    · simp only [List.mem_singleton] at hy
      subst hy; exact hx
  prom := hinv.prom
  rvTerm := hinv.rvTerm
  rvCov := hinv.rvCov
  votes := hinv.votes
  selfVote := hinv.selfVote
  matchO := hinv.matchO
  matchS := hinv.matchS

/-! ### the leader accepts the proposal -/

/-- the accepted MsgProp of a leader: Spec `leaderAppend` per entry, then `sendApp` per queued MsgApp.
`hmatch` (the leader's own `Match` does not exceed its last index) is needed to keep `matchS`: it is not part of `RaftInv` -/
theorem sim_prop_accepted {val : Val} {voters : List Id} {n : Nat} {s : Spec.State} {r r' : Raft} {m : Message}
    {ents : List Entry} (hinv : RaftInv val voters n r (s.nodes n) s.msgs) (hs : r.state = .leader)
    (hne : m.entries ≠ []) (hp : PropPost val r m ents r') (hf : PropFrame r r')
    (hmatch : ∀ pr, r.trk.getProgress n = some pr → pr.match_ ≤ (absLog val r).length) :
    RaftSim val voters n s r' := by
  have hents : ents ≠ [] := by
    intro h0
    have := hp.rel.length_eq
    rw [h0] at this
    simp at this
    exact hne this
  have hnf : r.state ≠ .follower := by rw [hs]; intro h; cases h
  obtain ⟨added, hadd, hok⟩ := hp.sends
  have hrole : (s.nodes n).role = .leader := by rw [hinv.abs.role, hs]; rfl
  have hrun1 := appendAll_run val (cfgOf voters) n ents s hrole
  obtain ⟨m1, m2, m3, m4, m5, m6⟩ := appendAll_more val n ents s
  have habs1 := prop_abs (n := n) (s := s) val hp hs hinv.abs
  obtain ⟨as, s2, hrun2, hact2, hn2, hsub2, happ2, hrv2⟩ :=
    sendApps_run val (cfgOf voters) n r' hp.state added (appendAll val n ents s) habs1 hok
  have hsub : ∀ y ∈ s.msgs, y ∈ s2.msgs := fun y hy => hsub2 y (by rw [m4]; exact hy)
  have hlogLe : ∀ e ∈ absLog val r', e.term ≤ r'.term := by
    intro e he
    rw [hp.log] at he
    rw [hp.term]
    rcases List.mem_append.1 he with he | he
    · exact hinv.logLe e he
    · obtain ⟨y, _, rfl⟩ := List.mem_map.1 he
      exact Nat.le_refl _
  refine ⟨_ ++ as, s2, hrun1.append hrun2, ?_, ?_⟩
  · intro a ha
    rcases List.mem_append.1 ha with ha | ha
    · obtain ⟨y, _, rfl⟩ := List.mem_map.1 ha
      rfl
    · exact hact2 a ha
  rw [hn2]
  exact {
    abs := habs1
    st := hinv.st.propFrame hf
    wf := hp.wf
    unc := hp.unc
    leadInv := fun _ => ⟨hf.lead.trans (hinv.leadInv hs).1, hp.vote.trans (hinv.leadInv hs).2⟩
    candVote := fun hc => by rw [hp.state] at hc; cases hc
    termPos := fun _ => by rw [hp.term]; exact hinv.termPos hnf
    logLe := hlogLe
    candLt := fun hc => by rw [hp.state] at hc; cases hc
    pend := m2.trans hinv.pend
    durV := fun p hp' => by rw [m1] at hp'; rw [m3]; exact hinv.durV p hp'
    durA := fun p hp' => by rw [m1] at hp'; exact m5 p (hinv.durA p hp')
    out := by
      intro x hx
      rw [hadd] at hx
      rcases List.mem_append.1 hx with hx | hx
      · exact (hinv.out x hx).mono hsub
      · rcases hok x hx with ht | hk
        · unfold NetOK
          simp only [ht]
        · unfold NetOK
          simp only [hk.typ]
          refine ⟨by rw [hk.term, hp.term]; exact hinv.termPos hnf, happ2 x hx hk.typ, hk.contig, ?_⟩
          intro e he
          rw [hk.term]
          refine hlogLe (absEnt val e) ?_
          have : absEnt val e ∈ x.entries.map (absEnt val) := List.mem_map_of_mem he
          rw [hk.ents] at this
          exact List.mem_of_mem_drop (List.mem_of_mem_take this)
    prom := by
      intro x hx
      rw [hp.maa] at hx
      rcases List.mem_append.1 hx with hx | hx
      · obtain ⟨a, b, c⟩ := hinv.prom x hx
        refine ⟨a, b, ?_⟩
        revert c
        split
        · rw [m3]; exact id
        · exact fun c hr => (c hr).imp id (m5 _)
        · exact id
      · simp only [List.mem_singleton] at hx
        subst hx
        refine ⟨hinv.st.id, hinv.termPos hnf, ?_⟩
        show false = false → _ ∨ _
        intro _
        right
        have := m6 hents
        rw [hinv.abs.term, hinv.abs.log] at this
        exact this
    rvTerm := fun t lt li hx => by
      rw [hp.term]
      have := hrv2 t n lt li hx
      rw [m4] at this
      exact hinv.rvTerm t lt li this
    rvCov := fun hc => by rw [hp.state] at hc; cases hc
    votes := fun hc => by rw [hp.state] at hc; cases hc
    selfVote := fun hc => by rw [hp.state] at hc; cases hc
    matchO := fun _ v pr' c hv hg h0 hc => by
      obtain ⟨pr, g1, g2, _⟩ := hf.prog.back hg
      rw [hp.term]
      exact hasAck_mono hsub (hinv.matchO hs v pr c hv g1 h0 (g2 ▸ hc))
    matchS := fun _ pr' c hg hc hterm => by
      obtain ⟨pr, g1, g2, _⟩ := hf.prog.back hg
      have hc' : c ≤ pr.match_ := g2 ▸ hc
      have hlen := hmatch pr g1
      rw [m1, hp.term]
      refine hinv.matchS hs pr c g1 hc' ?_
      rw [hp.log, Spec.Log.termAt_append_left (Nat.le_trans hc' hlen), hp.term] at hterm
      exact hterm }

/-! ### the step theorem -/

/-- **MsgProp** (a local proposal `RawNode.propose`, or a forwarded one): at a leader the entries are appended
(Spec `leaderAppend` per entry, then `sendApp` per MsgApp broadcast) or the proposal is dropped; a follower forwards it
or drops it; a candidate drops it.

Extra hypothesis `hmatch` (used only when a leader accepts the proposal): the leader's own `Progress.Match` does not
exceed its last index.  It is a true invariant of the model that `RaftInv` does not record; without it `matchS` cannot be
re-established for the indexes of the new entries. -/
theorem sim_prop {val : Val} {voters : List Id} {n : Nat} {s : Spec.State} {r r' : Raft} {m : Message}
    {e : Option StepErr} {fuel : Nat} (hinv : RaftInv val voters n r (s.nodes n) s.msgs)
    (hreach : Spec.Reachable (cfgOf voters) s) (ht : m.typ = .prop) (h0 : m.term = 0)
    (hmatch : ∀ pr, r.trk.getProgress n = some pr → pr.match_ ≤ (absLog val r).length)
    (h : (Raft.step (fuel + 1) m).run r = .ok (e, r')) : RaftSim val voters n s r' := by
  have _ := hreach
  by_cases hs : r.state = .leader
  · rcases step_prop_leader val fuel m r r' e ht h0 hs hinv.wf hinv.unc h with ⟨_, hpci⟩ | ⟨_, hne, ⟨ents, hp⟩, hf⟩
    · unfold OnlyPCI at hpci
      refine RaftSim.refl (hinv.congr ?_ ?_ ?_ ?_ ?_ ?_ ?_ ?_ ?_ ?_ ?_ ?_) <;> rw [hpci]
    · exact sim_prop_accepted hinv hs hne hp hf hmatch
  · rcases step_prop_nonleader fuel m r r' e ht h0 hs h with rfl | ⟨x, hx, hx0, rfl⟩
    · exact RaftSim.refl hinv
    · refine RaftSim.refl (hinv.queue x ?_)
      unfold NetOK
      simp only [hx]
      exact hx0

end RaftVerif.Sim
