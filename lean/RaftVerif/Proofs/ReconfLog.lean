import RaftVerif.Proofs.ReconfElection
import RaftVerif.Proofs.ReconfLogLemmas
/-!
# Stage 2: the log invariant `Inv2`

Every log anywhere (any version of any node, any `glog T`) is well formed with respect to the ghost
logs: the prefix up to an entry of term `t` is the prefix of `glog t`.  Messages of term `T` are
slices / prefixes of `glog T`.  `glog T` only grows, and only while its leader leads.
-/
namespace RaftVerif.SpecR

structure LogWF (g : Nat → Log) (τ : Nat) (L : Log) : Prop where
  ok : LogOK g L
  sorted : (L.map (·.term)).Pairwise (· ≤ ·)
  terms : ∀ e ∈ L, 1 ≤ e.term ∧ e.term ≤ τ

theorem LogWF.nil (g : Nat → Log) (τ : Nat) : LogWF g τ [] :=
  ⟨LogOK.nil g, by simp, by simp⟩

theorem LogWF.take {g : Nat → Log} {τ : Nat} {L : Log} (h : LogWF g τ L) (k : Nat) :
    LogWF g τ (List.take k L) :=
  ⟨h.ok.take k, by rw [List.map_take]; exact h.sorted.sublist (List.take_sublist _ _),
    fun e he => h.terms e (List.mem_of_mem_take he)⟩

theorem LogWF.prefix {g : Nat → Log} {τ : Nat} {L M : Log} (h : LogWF g τ L) (hp : M <+: L) :
    LogWF g τ M := by
  rw [List.prefix_iff_eq_take] at hp
  rw [hp]; exact h.take _

theorem LogWF.mono_term {g : Nat → Log} {τ τ' : Nat} {L : Log} (h : LogWF g τ L) (hτ : τ ≤ τ') :
    LogWF g τ' L :=
  ⟨h.ok, h.sorted, fun e he => ⟨(h.terms e he).1, Nat.le_trans (h.terms e he).2 hτ⟩⟩

theorem LogWF.mono_glog {g g' : Nat → Log} {τ : Nat} {L : Log} (hg : ∀ t, g t <+: g' t)
    (h : LogWF g τ L) : LogWF g' τ L :=
  ⟨h.ok.mono hg, h.sorted, h.terms⟩

theorem LogWF.append_own {g : Nat → Log} {L : Log} {T v : Nat} {c : Option Conf} (h : LogWF g T L) (hT : 1 ≤ T)
    (hg : g T = L ++ [⟨T, v, c⟩]) : LogWF g T (L ++ [⟨T, v, c⟩]) := by
  refine ⟨h.ok.append_own hg, ?_, ?_⟩
  · rw [List.map_append, List.pairwise_append]
    refine ⟨h.sorted, by simp, ?_⟩
    intro a ha b hb
    simp only [List.map_cons, List.map_nil, List.mem_singleton] at hb
    obtain ⟨e, he, rfl⟩ := List.mem_map.mp ha
    subst hb
    exact (h.terms e he).2
  · intro e he
    simp only [List.mem_append, List.mem_singleton] at he
    rcases he with he | rfl
    · exact h.terms e he
    · exact ⟨hT, Nat.le_refl _⟩

theorem sorted_le_getLast (l : List Nat) (h : l.Pairwise (· ≤ ·)) (x : Nat) (hx : x ∈ l) :
    x ≤ (l.getLast?).getD 0 := by
  induction l generalizing x with
  | nil => simp at hx
  | cons a t ih =>
    rw [List.pairwise_cons] at h
    cases t with
    | nil => simp at hx; simp [hx]
    | cons b t' =>
      rw [List.getLast?_cons_cons]
      rcases List.mem_cons.mp hx with rfl | hx
      · exact Nat.le_trans (h.1 b (by simp)) (ih h.2 b (by simp))
      · exact ih h.2 x hx

/-- the last term of a well-formed log bounds every term in it -/
theorem LogWF.le_lastTerm {g : Nat → Log} {τ : Nat} {L : Log} (h : LogWF g τ L) (e : Ent)
    (he : e ∈ L) : e.term ≤ L.lastTerm := by
  have := sorted_le_getLast _ h.sorted e.term (List.mem_map.mpr ⟨e, he, rfl⟩)
  rw [List.getLast?_map] at this
  exact this

structure Inv2 (s : State) : Prop where
  ver_log : ∀ n w, w ∈ versions (s.nodes n) → LogWF s.glog w.term w.log
  ver_commit : ∀ n w, w ∈ versions (s.nodes n) → w.commit ≤ w.log.length
  glog_wf : ∀ T, LogWF s.glog T (s.glog T)
  glog_unelected : ∀ T, (∀ n, (T, n) ∉ s.elected) → s.glog T = []
  app_msg : ∀ t prev pt ents c, Msg.app t prev pt ents c ∈ s.msgs →
    (∃ n, (t, n) ∈ s.elected) ∧ prev ≤ (s.glog t).length ∧ (s.glog t).termAt prev = some pt ∧
      ents <+: List.drop prev (s.glog t)
  snap_msg : ∀ t pre, Msg.snap t pre ∈ s.msgs → (∃ n, (t, n) ∈ s.elected) ∧ pre <+: s.glog t
  leader_log : ∀ n, (s.nodes n).role = .leader → (s.nodes n).vol.log = s.glog (s.nodes n).vol.term

theorem inv2_init : Inv2 State.init := by
  constructor
  · intro n w hw
    simp [versions, State.init] at hw
    subst hw
    exact LogWF.nil _ _
  · intro n w hw
    simp [versions, State.init] at hw
    subst hw
    simp
  · intro T; exact LogWF.nil _ _
  · intro T _; rfl
  · intro t prev pt ents c h; simp [State.init] at h
  · intro t pre h; simp [State.init] at h
  · intro n h; simp [State.init] at h

/-- `glog` only grows -/
theorem glog_ext (c0 : Conf) (s : State) (a : Action) (hf : Fresh s a) (h1 : Inv1 c0 s) (h2 : Inv2 s)
    (he : enabled c0 s a) : ∀ t, s.glog t <+: (apply s a).glog t := by
  intro t
  rw [apply_glog]
  cases a <;> simp only [glogAfter] <;> try exact List.prefix_refl _
  case becomeLeader n q =>
    split
    · rename_i ht
      rw [h2.glog_unelected t (by rw [ht]; exact hf n q rfl)]
      exact List.nil_prefix
    · exact List.prefix_refl _
  case leaderAppend n v =>
    split
    · rename_i ht
      rw [ht, ← h2.leader_log n he]
      exact List.prefix_append _ _
    · exact List.prefix_refl _
  case leaderAppendCfg n v c =>
    split
    · rename_i ht
      rw [ht, ← h2.leader_log n he.1]
      exact List.prefix_append _ _
    · exact List.prefix_refl _


/-- what a successful `handleApp` does to the log, in terms of the sender's ghost log -/
theorem handleApp_result {c0 : Conf} {s : State} (h2 : Inv2 s) {n : NodeId} {t prev pt : Nat}
    {ents : Log} {c : Nat} (he : enabled c0 s (.handleApp n t prev pt ents c)) {lnew : Log}
    (hr : appendResult (s.nodes n).vol.log prev pt ents = some lnew) :
    prev + ents.length ≤ (s.glog t).length ∧
    ((lnew = (s.nodes n).vol.log ∧ prev + ents.length ≤ (s.nodes n).vol.log.length ∧
        List.take (prev + ents.length) (s.nodes n).vol.log = List.take (prev + ents.length) (s.glog t)) ∨
     (lnew = List.take (prev + ents.length) (s.glog t) ∧
        ∃ j, j ≤ prev + ents.length ∧ (s.nodes n).vol.log.termAt j ≠ (s.glog t).termAt j)) := by
  simp only [enabled] at he
  obtain ⟨_, hprev, hpt, hents⟩ := h2.app_msg _ _ _ _ _ he.1
  have hl := (h2.ver_log n _ (show (s.nodes n).vol ∈ versions (s.nodes n) by simp [versions])).ok
  exact (appendResult_spec hl (h2.glog_wf t).ok hprev hpt hents hr).2

theorem volAfter_logwf (c0 : Conf) (s : State) (a : Action) (h1 : Inv1 c0 s) (h2 : Inv2 s)
    (he : enabled c0 s a) (hext : ∀ t, s.glog t <+: (apply s a).glog t) :
    LogWF (apply s a).glog (volAfter s a).term (volAfter s a).log := by
  have hvol : ∀ n, (s.nodes n).vol ∈ versions (s.nodes n) := fun n => by simp [versions]
  have hv := fun n => h2.ver_log n _ (hvol n)
  by_cases hla : (∃ n v, a = .leaderAppend n v) ∨ (∃ n v c, a = .leaderAppendCfg n v c)
  · rcases hla with ⟨n, v, rfl⟩ | ⟨n, v, c, rfl⟩
    · simp only [volAfter]
      apply LogWF.append_own ((hv n).mono_glog hext)
      · exact (h1.nodes n).active_term (by simp only [enabled] at he; rw [he]; simp)
      · rw [apply_glog]; simp [glogAfter]
    · simp only [volAfter]
      apply LogWF.append_own ((hv n).mono_glog hext)
      · exact (h1.nodes n).active_term (by simp only [enabled] at he; rw [he.1]; simp)
      · rw [apply_glog]; simp [glogAfter]
  · apply LogWF.mono_glog hext
    cases a <;> simp only [volAfter, Action.actor]
    case leaderAppend n v => exact absurd (Or.inl ⟨n, v, rfl⟩) hla
    case leaderAppendCfg n v c => exact absurd (Or.inr ⟨n, v, c, rfl⟩) hla
    case campaign n => exact (hv n).mono_term (by simp)
    case updateTerm n t => exact (hv n).mono_term (by simp only [enabled] at he; exact Nat.le_of_lt he)
    case crash n k => exact h2.ver_log n _ (by simp [versions])
    case handleApp n t prev pt ents c =>
      cases hr : appendResult (s.nodes n).vol.log prev pt ents with
      | none => exact hv n
      | some lnew =>
        simp only
        rcases (handleApp_result h2 he hr).2 with ⟨h, _⟩ | ⟨h, _⟩
        · rw [h]; exact hv n
        · rw [h]
          simp only [enabled] at he
          rw [← he.2.1]
          exact (h2.glog_wf t).take _
    case handleSnap n t pre =>
      simp only [enabled] at he
      split
      · exact hv n
      · split
        · exact hv n
        · simp only
          rw [← he.2.1]
          exact (h2.glog_wf t).prefix (h2.snap_msg _ _ he.1).2
    all_goals exact hv _

theorem volAfter_commit_le (c0 : Conf) (s : State) (a : Action) (h2 : Inv2 s)
    (he : enabled c0 s a) : (volAfter s a).commit ≤ (volAfter s a).log.length := by
  have hvol : ∀ n, (s.nodes n).vol ∈ versions (s.nodes n) := fun n => by simp [versions]
  have hv := fun n => h2.ver_commit n _ (hvol n)
  cases a <;> simp only [volAfter, Action.actor]
  case crash n k => exact h2.ver_commit n _ (by simp [versions])
  case leaderAppend n v => have := hv n; simp; omega
  case leaderAppendCfg n v c => have := hv n; simp; omega
  case leaderCommit n c q =>
    simp only [enabled] at he
    exact Log.termAt_le he.2.2.1
  case handleApp n t prev pt ents c =>
    cases hr : appendResult (s.nodes n).vol.log prev pt ents with
    | none => exact hv n
    | some lnew =>
      simp only
      have hk : (s.nodes n).vol.commit ≤ lnew.length := by
        simp only [enabled, keepsCommitted, hr, beq_iff_eq] at he
        have := congrArg List.length he.2.2.2
        rw [List.length_take, List.length_take] at this
        have := hv n
        omega
      obtain ⟨hG, h | h⟩ := handleApp_result h2 he hr
      · rw [h.1]; have := hv n; omega
      · have : lnew.length = prev + ents.length := by rw [h.1, List.length_take]; omega
        omega
  case handleSnap n t pre =>
    split
    · exact hv n
    · split
      · rename_i h
        simp only
        have := congrArg List.length h
        rw [List.length_take] at this
        omega
      · simp
  case handleHb n t c =>
    simp only [enabled] at he
    have := hv n
    omega
  all_goals exact hv _


theorem app_mem_newMsgs (s : State) (a : Action) (t prev pt : Nat) (ents : Log) (c : Nat)
    (h : Msg.app t prev pt ents c ∈ newMsgs s a) :
    ∃ n cnt, a = .sendApp n prev cnt ∧ c = (s.nodes n).vol.commit ∧ t = (s.nodes n).vol.term ∧
      pt = ((s.nodes n).vol.log.termAt prev).getD 0 ∧
      ents = List.take cnt (List.drop prev (s.nodes n).vol.log) := by
  cases a <;> simp [newMsgs] at h
  case sendApp n prev' cnt =>
    obtain ⟨rfl, rfl, rfl, rfl, rfl⟩ := h
    exact ⟨n, cnt, rfl, rfl, rfl, rfl, rfl⟩

theorem snap_mem_newMsgs (s : State) (a : Action) (t : Nat) (pre : Log)
    (h : Msg.snap t pre ∈ newMsgs s a) :
    ∃ n idx, a = .sendSnap n idx ∧ t = (s.nodes n).vol.term ∧
      pre = List.take idx (s.nodes n).vol.log := by
  cases a <;> simp [newMsgs] at h
  case sendSnap n idx =>
    obtain ⟨rfl, rfl⟩ := h
    exact ⟨n, idx, rfl, rfl, rfl⟩

/-- the action is an append by leader `n` of an entry with value `v` and configuration `c` -/
def Action.isAppend (a : Action) (n : NodeId) (v : Nat) (c : Option Conf) : Prop :=
  (a = .leaderAppend n v ∧ c = none) ∨ ∃ c', a = .leaderAppendCfg n v c' ∧ c = some c'

theorem Action.isAppend.leader {c0 : Conf} {s : State} {a : Action} {n : NodeId} {v : Nat}
    {c : Option Conf} (h : a.isAppend n v c) (he : enabled c0 s a) : (s.nodes n).role = .leader := by
  rcases h with ⟨rfl, _⟩ | ⟨c', rfl, _⟩
  · exact he
  · exact he.1

theorem Action.isAppend.actor {a : Action} {n : NodeId} {v : Nat} {c : Option Conf}
    (h : a.isAppend n v c) : a.actor = n := by
  rcases h with ⟨rfl, _⟩ | ⟨c', rfl, _⟩ <;> rfl

theorem Action.isAppend.volAfter {a : Action} {n : NodeId} {v : Nat} {c : Option Conf}
    (h : a.isAppend n v c) (s : State) :
    (volAfter s a).log = (s.nodes n).vol.log ++ [⟨(s.nodes n).vol.term, v, c⟩] ∧
    (volAfter s a).term = (s.nodes n).vol.term ∧ (volAfter s a).commit = (s.nodes n).vol.commit := by
  rcases h with ⟨rfl, rfl⟩ | ⟨c', rfl, rfl⟩ <;> simp [SpecR.volAfter]

theorem glog_step (s : State) (a : Action) (T : Nat) :
    (apply s a).glog T = s.glog T ∨
    (∃ n q, a = .becomeLeader n q ∧ T = (s.nodes n).vol.term ∧
      (apply s a).glog T = (s.nodes n).vol.log) ∨
    (∃ n v c, a.isAppend n v c ∧ T = (s.nodes n).vol.term ∧
      (apply s a).glog T = (s.nodes n).vol.log ++ [⟨T, v, c⟩]) := by
  rw [apply_glog]
  cases a <;> simp only [glogAfter] <;> try exact Or.inl trivial
  case becomeLeader n q =>
    by_cases h : T = (s.nodes n).vol.term
    · exact Or.inr (Or.inl ⟨n, q, rfl, h, by simp [h]⟩)
    · exact Or.inl (by simp [h])
  case leaderAppend n v =>
    by_cases h : T = (s.nodes n).vol.term
    · exact Or.inr (Or.inr ⟨n, v, none, Or.inl ⟨rfl, rfl⟩, h, by simp [h]⟩)
    · exact Or.inl (by simp [h])
  case leaderAppendCfg n v c =>
    by_cases h : T = (s.nodes n).vol.term
    · exact Or.inr (Or.inr ⟨n, v, some c, Or.inr ⟨c, rfl, rfl⟩, h, by simp [h]⟩)
    · exact Or.inl (by simp [h])

/-- a node that is leader after a step was either just elected or was leader before, in the same
term, with the same log unless it appended -/
theorem leader_step (c0 : Conf) (s : State) (a : Action) (m : NodeId) (he : enabled c0 s a)
    (hr : ((apply s a).nodes m).role = .leader) :
    (∃ q, a = .becomeLeader m q) ∨
      ((s.nodes m).role = .leader ∧ ((apply s a).nodes m).vol.term = (s.nodes m).vol.term ∧
        (((apply s a).nodes m).vol.log = (s.nodes m).vol.log ∨ ∃ v c, a.isAppend m v c)) := by
  by_cases hm : m = a.actor
  · rw [hm, apply_nodes_self] at hr
    rw [hm, apply_nodes_self]
    cases a <;> simp only [Action.actor] at hm <;> subst hm <;>
      simp only [nodeAfter, roleAfter, Action.actor, reduceCtorEq] at hr ⊢
    case becomeLeader q => exact Or.inl ⟨q, rfl⟩
    case persist =>
      right
      cases hp : (s.nodes m).pending <;> simp [hp] at hr ⊢ <;> exact hr
    case leaderAppend v => exact Or.inr ⟨hr, by simp [volAfter], Or.inr ⟨v, none, Or.inl ⟨rfl, rfl⟩⟩⟩
    case leaderAppendCfg v c =>
      exact Or.inr ⟨hr, by simp [volAfter], Or.inr ⟨v, some c, Or.inr ⟨c, rfl, rfl⟩⟩⟩
    all_goals
      right
      simp [volAfter, Action.actor, hr]
  · rw [apply_nodes_ne s a m hm] at hr ⊢; exact Or.inr ⟨hr, rfl, Or.inl rfl⟩


theorem elected_mono (s : State) (a : Action) (x : Nat × NodeId) (h : x ∈ s.elected) :
    x ∈ (apply s a).elected := by
  rw [mem_apply_elected]; exact Or.inr h

theorem inv2_step (c0 : Conf) (s : State) (a : Action) (hf : Fresh s a) (hnd : ElectedNodup s)
    (h1 : Inv1 c0 s) (h2 : Inv2 s) (he : enabled c0 s a) : Inv2 (apply s a) := by
  have hext := glog_ext c0 s a hf h1 h2 he
  have hvol : ∀ n, (s.nodes n).vol ∈ versions (s.nodes n) := fun n => by simp [versions]
  constructor
  · -- ver_log
    intro n w hw
    rcases versions_step s a n w hw with hw | ⟨_, _, rfl⟩
    · exact (h2.ver_log n w hw).mono_glog hext
    · exact volAfter_logwf c0 s a h1 h2 he hext
  · -- ver_commit
    intro n w hw
    rcases versions_step s a n w hw with hw | ⟨_, _, rfl⟩
    · exact h2.ver_commit n w hw
    · exact volAfter_commit_le c0 s a h2 he
  · -- glog_wf
    intro T
    rcases glog_step s a T with h | ⟨n, q, rfl, rfl, h⟩ | ⟨n, v, c, happ, rfl, h⟩
    · rw [h]; exact (h2.glog_wf T).mono_glog hext
    · rw [h]; exact (h2.ver_log n _ (hvol n)).mono_glog hext
    · rw [h]
      have := volAfter_logwf c0 s _ h1 h2 he hext
      rw [(happ.volAfter s).1, (happ.volAfter s).2.1] at this
      exact this
  · -- glog_unelected
    intro T hT
    have hT' : ∀ n, (T, n) ∉ s.elected := fun n hn => hT n (elected_mono s a _ hn)
    rcases glog_step s a T with h | ⟨n, q, rfl, rfl, h⟩ | ⟨n, v, c, happ, rfl, h⟩
    · rw [h]; exact h2.glog_unelected T hT'
    · exact absurd (by rw [mem_apply_elected]; simp [newElected]) (hT n)
    · exact absurd (h1.leader_elected n (happ.leader he)) (hT' n)
  · -- app_msg
    intro t prev pt ents c hm
    rw [mem_apply_msgs] at hm
    rcases hm with hm | hm
    · obtain ⟨n, cnt, rfl, rfl, rfl, rfl, rfl⟩ := app_mem_newMsgs s a t prev pt ents c hm
      simp only [enabled] at he
      have hl := h2.leader_log n he.1
      have hg : (apply s (.sendApp n prev cnt)).glog = s.glog := by rw [apply_glog]; rfl
      rw [hg, ← hl]
      have hp : prev ≤ (s.nodes n).vol.log.length := by omega
      refine ⟨⟨n, elected_mono s _ _ (h1.leader_elected n he.1)⟩, hp, ?_, List.take_prefix _ _⟩
      obtain ⟨t', ht'⟩ := Log.termAt_some hp
      rw [ht']; rfl
    · obtain ⟨⟨n, hn⟩, hp, hpt, hents⟩ := h2.app_msg t prev pt ents c hm
      refine ⟨⟨n, elected_mono s a _ hn⟩, ?_, ?_, ?_⟩
      · exact Nat.le_trans hp (hext t).length_le
      · rw [Log.termAt_prefix (hext t) hp]; exact hpt
      · exact hents.trans (drop_prefix_of_prefix (hext t) hp)
  · -- snap_msg
    intro t pre hm
    rw [mem_apply_msgs] at hm
    rcases hm with hm | hm
    · obtain ⟨n, idx, rfl, rfl, rfl⟩ := snap_mem_newMsgs s a t pre hm
      simp only [enabled] at he
      have hl := h2.leader_log n he.1
      have hg : (apply s (.sendSnap n idx)).glog = s.glog := by rw [apply_glog]; rfl
      rw [hg, ← hl]
      exact ⟨⟨n, elected_mono s _ _ (h1.leader_elected n he.1)⟩, List.take_prefix _ _⟩
    · obtain ⟨⟨n, hn⟩, hp⟩ := h2.snap_msg t pre hm
      exact ⟨⟨n, elected_mono s a _ hn⟩, hp.trans (hext t)⟩
  · -- leader_log
    intro m hr
    rcases leader_step c0 s a m he hr with ⟨q, rfl⟩ | ⟨hr0, hterm, hlog⟩
    · simp [apply_nodes, apply_glog, Action.actor, nodeAfter, volAfter, glogAfter]
    · rw [hterm]
      have hel := h1.leader_elected m hr0
      have hl := h2.leader_log m hr0
      rcases glog_step s a (s.nodes m).vol.term with h | ⟨n, q, rfl, hT, h⟩ | ⟨n, v, c, happ, hT, h⟩
      · rw [h]
        rcases hlog with hlog | ⟨v, c, happ⟩
        · rw [hlog]; exact hl
        · rw [apply_glog] at h
          rcases happ with ⟨rfl, _⟩ | ⟨c', rfl, _⟩ <;>
          · simp only [glogAfter, ↓reduceIte] at h
            rw [← hl] at h
            have := congrArg List.length h
            simp at this
      · rw [hT] at hel
        exact absurd hel (hf n q rfl m)
      · -- the appending leader has the same term, hence is `m`
        have hel' := h1.leader_elected n (happ.leader he)
        rw [← hT] at hel'
        have : m = n := hnd.unique hel hel'
        subst this
        rw [h, apply_nodes_at s a m happ.actor, nodeAfter_eq s a (by
          rcases happ with ⟨rfl, _⟩ | ⟨c', rfl, _⟩ <;> rfl)]
        exact (happ.volAfter s).1

end RaftVerif.SpecR
