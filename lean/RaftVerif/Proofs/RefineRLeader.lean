import RaftVerif.Proofs.RefineRCampaign
/-!
# Proofs/RefineRLeader — elections and commit under the active configuration (item 6), and what
`becomeLeader` does to `pendingConfIndex` (item 5, second half)
-/
namespace RaftVerif.RefineR
open RaftVerif.Raft RaftVerif.Refine RaftVerif.Conf10

/-! ### the winning MsgVoteResp, entry level -/

/-- the log after the winning MsgVoteResp: the old entries plus the leader's empty entry; `applied` is
untouched; `pendingConfIndex` is the last index of the log the node won with -/
theorem step_voteResp_leader_entries (fuel : Nat) (m : Message) (r r' : Raft) (e : Option StepErr)
    (ht : m.typ = .voteResp) (hterm : m.term = 0 ∨ m.term = r.term) (hs : r.state = .candidate)
    (hwf : r.log.WF)
    (h : (step (fuel + 1) m).run r = .ok (e, r')) (hl : r'.state = .leader) :
    r'.log.abs.ents = r.log.abs.ents ++ [{ term := r.term, index := r.log.lastIndex + 1 }] ∧
    r'.log.applied = r.log.applied ∧ r'.pendingConfIndex = r.log.lastIndex := by
  rw [step_same_term_dispatch fuel m r hterm (by rw [ht]; decide)] at h
  have hd : dispatch fuel m r = stepCandidate fuel m := by unfold dispatch; rw [hs]
  rw [hd] at h
  obtain ⟨_, _, _, s1, hrun, hsf, _, _⟩ := (stepCandidate_voteResp_leader fuel m r hs ht).elim h hl
  have hwf' : (polled r m).log.WF := hwf
  obtain ⟨h1, _, h3, _, h5, _⟩ := C10.becomeLeader_pendingConfIndex_covers_log (polled r m) s1 hwf' hrun
  rw [hsf.log, hsf.pendingConfIndex]
  exact ⟨h5, h3, h1⟩

/-- the abstract log after the winning MsgVoteResp: one un-annotated entry of the node's term is appended -/
theorem absLogR_becomeLeader (val : Val) (cf : Entry → SpecR.Conf) {r r' : Raft}
    (h : r'.log.abs.ents = r.log.abs.ents ++ [{ term := r.term, index := r.log.lastIndex + 1 }]) :
    absLogR val cf r' = absLogR val cf r ++ [{ term := r.term, val := val none none }] := by
  unfold absLogR absLogLR
  rw [h, List.map_append]
  rfl

/-! ### SpecR side -/

theorem becomeLeader_nodes_R (s : SpecR.State) (n : Nat) (q : List Nat) :
    (SpecR.apply s (.becomeLeader n q)).nodes n =
      { (s.nodes n) with role := .leader, pendingConf := (s.nodes n).vol.log.length } := by
  simp [SpecR.apply, SpecR.setNode]

theorem leaderAppend_nodes_R (s : SpecR.State) (n v : Nat) :
    (SpecR.apply s (.leaderAppend n v)).nodes n =
      { (s.nodes n) with
        vol := { (s.nodes n).vol with
          log := (s.nodes n).vol.log ++ [({ term := (s.nodes n).vol.term, val := v } : SpecR.Ent)],
          acks := ((s.nodes n).vol.term, (s.nodes n).vol.log.length + 1) :: (s.nodes n).vol.acks } } := by
  simp [SpecR.apply, SpecR.setNode]

/-- the new leader is described by SpecR `becomeLeader n q` followed by `leaderAppend n (val none none)`;
in particular SpecR's `pendingConf := log.length` is the model's `pendingConfIndex := lastIndex` -/
theorem becomeLeader_abs_R (val : Val) (cf : Entry → SpecR.Conf) {r r' : Raft} {s : SpecR.State} {n : Nat}
    (q : List Nat) (ha : AbsR val cf r (s.nodes n)) (hwf : r.log.WF) (hu : Uncompacted r.log)
    (hterm : r'.term = r.term) (hvote : r'.vote = r.vote)
    (hcommit : r'.log.committed = r.log.committed) (hstate : r'.state = .leader)
    (hents : r'.log.abs.ents = r.log.abs.ents ++ [{ term := r.term, index := r.log.lastIndex + 1 }])
    (happ : r'.log.applied = r.log.applied) (hpci : r'.pendingConfIndex = r.log.lastIndex) :
    AbsR val cf r'
      ((SpecR.apply (SpecR.apply s (.becomeLeader n q)) (.leaderAppend n (val none none))).nodes n) := by
  rw [leaderAppend_nodes_R, becomeLeader_nodes_R]
  refine ⟨?_, ?_, ?_, ?_, ?_, ?_, ?_⟩
  · simp only; rw [hterm]; exact ha.term
  · simp only; rw [hvote]; exact ha.vote
  · simp only; rw [hcommit]; exact ha.commit
  · simp only; rw [absLogR_becomeLeader val cf hents, ha.log, ha.term]
  · simp only [hstate, absRoleR]
  · simp only; rw [happ]; exact ha.applied
  · intro _
    simp only
    rw [hpci, ha.log, absLogR_length, absLog, absLogL_length_eq val hwf hu]

/-! ### the committing MsgAppResp keeps the configuration -/

theorem stepLeader_appResp_commit_trkCfg (fuel : Nat) (m : Message) (r r' : Raft) (res : Option StepErr)
    (hm : m.typ = .appResp) (h : (stepLeader fuel m).run r = .ok (res, r'))
    (hadv : r.log.committed < r'.log.committed) : r'.trk.cfg = r.trk.cfg := by
  cases hg : r.trk.getProgress m.from with
  | none =>
    rw [Live.stepLeader_noProgress_run fuel m r (Or.inr (Or.inr (Or.inr (Or.inl hm)))) hg] at h
    injection h with h; injection h with _ h; subst h
    omega
  | some pr =>
    cases hrej : m.reject with
    | true =>
      have := (Next.stepLeader_commit fuel m r).elim h
      rcases this with h1 | ⟨_, _, _, _, _, h2⟩
      · unfold CmE at h1; omega
      · rw [hrej] at h2; cases h2
    | false =>
      by_cases hc : Live.ackCond pr m.index
      · obtain ⟨b, mid, hmc, hck⟩ := Next.stepLeader_appResp_ack_commit fuel m r r' res pr hm hg hrej hc h
        rcases (Next.maybeCommit_exact _).elim hmc with ⟨_, rfl⟩ | ⟨_, idx, _, _, _, _, _, rfl⟩
        · exact hck.ls.trkCfg
        · exact hck.ls.trkCfg
      · have := (Live.stepLeader_appResp_ack_inv fuel m r r' res pr hm hg hrej h).2.2 hc
        subst this
        rfl

/-- a leader's `Step` that advances the commit index in its own term leaves the configuration alone -/
theorem step_leaderCommit_trkCfg (fuel : Nat) (m : Message) (r r' : Raft) (e : Option StepErr)
    (hs : r.state = .leader) (h : (step fuel m).run r = .ok (e, r'))
    (hadv : r.log.committed < r'.log.committed) (ht : r'.term = r.term) : r'.trk.cfg = r.trk.cfg := by
  obtain ⟨_, _, _, _, _, htyp, _⟩ := C06L.leader_commit_rule fuel m r r' e hs h hadv ht
  cases fuel with
  | zero => exact (C17Q.fuel_pos h).elim
  | succ fuel =>
    by_cases hterm : m.term = 0 ∨ m.term = r.term
    · rw [Live.step_leader_dispatch fuel m r hs hterm (Or.inr (Or.inr (Or.inl htyp)))] at h
      exact stepLeader_appResp_commit_trkCfg fuel m r r' e htyp h hadv
    · by_cases hlt : m.term < r.term
      · rw [step_stale_appResp_run fuel m r (by omega) hlt htyp] at h
        injection h with h; injection h with _ h; subst h
        omega
      · rw [Live.step_higher_term_resp_run fuel m r (by omega) (Or.inl htyp)] at h
        obtain ⟨p, hp, h⟩ := bind_eq_ok.1 h
        injection h with h; injection h with _ h; subst h
        have := ((becomeFollower_spec m.term 0 r).elim hp).1
        omega

theorem leaderCommit_nodes_R (s : SpecR.State) (n c : Nat) (q : List Nat) :
    (SpecR.apply s (.leaderCommit n c q)).nodes n =
      { (s.nodes n) with vol := { (s.nodes n).vol with commit := c } } := by
  simp [SpecR.apply, SpecR.setNode]

/-- the committing step is SpecR's `leaderCommit n c q` on the abstraction -/
theorem leaderCommit_abs_R (val : Val) (cf : Entry → SpecR.Conf) {r r' : Raft} {m : Message}
    {s : SpecR.State} {n : Nat} (q : List Nat) (hp : CommitPost val r m r') (hpci : r'.pendingConfIndex = r.pendingConfIndex)
    (ha : AbsR val cf r (s.nodes n)) :
    AbsR val cf r' ((SpecR.apply s (.leaderCommit n r'.log.committed q)).nodes n) := by
  rw [leaderCommit_nodes_R]
  have hlog : r'.log.abs = r.log.abs := by rw [hp.logEq]; rfl
  have happ : r'.log.applied = r.log.applied := by rw [hp.logEq]
  refine ⟨?_, ?_, rfl, ?_, ?_, ?_, ?_⟩
  · simp only; rw [hp.term]; exact ha.term
  · simp only; rw [hp.vote]; exact ha.vote
  · simp only; rw [ha.log]; unfold absLogR absLogLR; rw [hlog]
  · simp only; rw [ha.role, hp.state, hp.leader]
  · simp only; rw [happ]; exact ha.applied
  · intro _; simp only; rw [hpci]; exact ha.pendingConf hp.leader

/-! ### the active configuration does not see what happens above `applied` -/

/-- `applied ≤ length` of the abstract log -/
theorem applied_le_length (val : Val) (cf : Entry → SpecR.Conf) (r : Raft) (hwf : r.log.WF)
    (hu : Uncompacted r.log) : r.log.applied ≤ (absLogR val cf r).length := by
  rw [absLogR_length, absLog, absLogL_length_eq val hwf hu]
  exact Nat.le_trans hwf.appliedLeApplying (Nat.le_trans hwf.applyingLeCommitted hwf.committedLeLast)

/-- appending to the log, changing role / commit / `pendingConf`: the active configuration stays -/
theorem active_of_prefix (c0 : SpecR.Conf) (nd nd' : SpecR.Node) (h1 : nd'.applied = nd.applied)
    (h2 : nd.vol.log <+: nd'.vol.log) (h3 : nd.applied ≤ nd.vol.log.length) :
    nd'.active c0 = nd.active c0 := by
  unfold SpecR.Node.active
  rw [h1]
  exact SpecR.cfgAt_prefix c0 h2 h3

/-- if both nodes abstract model states with the same tracker configuration … -/
theorem active_kept (val : Val) (cf : Entry → SpecR.Conf) (c0 : SpecR.Conf) {r r' : Raft}
    {nd nd' : SpecR.Node} (ha : AbsR val cf r nd) (ha' : AbsR val cf r' nd') (hwf : r.log.WF)
    (hu : Uncompacted r.log) (happ : r'.log.applied = r.log.applied)
    (hpre : absLogR val cf r <+: absLogR val cf r') (hcfg : r'.trk.cfg = r.trk.cfg)
    (hact : absConf r.trk = nd.active c0) : absConf r'.trk = nd'.active c0 := by
  rw [active_of_prefix c0 nd nd' (by rw [ha'.applied, ha.applied, happ]) (by rw [ha.log, ha'.log]; exact hpre)
    (by rw [ha.applied, ha.log]; exact applied_le_length val cf r hwf hu), ← hact]
  unfold absConf; rw [hcfg]

end RaftVerif.RefineR
