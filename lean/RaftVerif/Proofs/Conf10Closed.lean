import RaftVerif.Proofs.Conf10Gate
/-!
# Proofs/Conf10Closed — what the propose-time gate computes (validation enabled)

* `gateAccepts` / `gateRefuses_eq_false_iff` — the gate condition as a proposition
* `StepOK`, `gateStep_ok_iff`, `gate_ok_iff_trace` — iteration-by-iteration ("at that point") characterisation
* `neut`, `GateClosed`, `gate_closed` — closed form: only the first configuration change that passes the gate
  is kept, every other one of the batch is neutralised
* `gate_at_most_one`, `gate_isOk_iff`
Core Lean only.
-/
namespace RaftVerif.Conf10
open Raft

/-- the conjunction the Go code tests (negated) before keeping a proposed configuration change -/
def gateAccepts (r : Raft) (pci : Nat) (cc : ConfChangeV2) : Prop :=
  pci ≤ r.log.applied ∧ (0 < r.trk.outgoingL.length ↔ cc.changes = []) ∧ r.checkConfChange cc = true

instance (r : Raft) (pci : Nat) (cc : ConfChangeV2) : Decidable (gateAccepts r pci cc) := by
  unfold gateAccepts; infer_instance

theorem gateRefuses_eq_false_iff (r : Raft) (pci : Nat) (cc : ConfChangeV2) :
    gateRefuses r pci cc = false ↔ gateAccepts r pci cc := by
  unfold gateRefuses gateAccepts
  have hl : (cc.changes.length == 0) = decide (cc.changes = []) := by
    cases cc.changes <;> simp
  rw [hl]
  by_cases h1 : pci ≤ r.log.applied <;> by_cases h2 : 0 < r.trk.outgoingL.length <;>
    by_cases h3 : cc.changes = [] <;> cases h4 : r.checkConfChange cc <;>
    simp [h1, h2, h3, Nat.not_le.mp, Nat.not_lt.mpr] <;> omega

theorem ccDecode_none_iff (e : Entry) : ccDecode e = .ok none ↔ e.getType = .normal := by
  unfold ccDecode
  cases e.getType with
  | normal => simp
  | confChange => cases decodeConfChangeV1AsV2 (e.data.getD []) <;> simp
  | confChangeV2 => cases decodeConfChangeV2 (e.data.getD []) <;> simp

theorem ccDecode_some_ne_normal {e : Entry} {cc : ConfChangeV2} (h : ccDecode e = .ok (some cc)) :
    e.getType ≠ .normal := by
  intro hn
  rw [(ccDecode_none_iff e).2 hn] at h
  cases h

/-- one iteration of the loop with validation enabled -/
def StepOK (r : Raft) (i : Nat) (e : Entry) (pci : Nat) (y : Entry) (pci' : Nat) : Prop :=
  (e.getType = .normal ∧ y = e ∧ pci' = pci) ∨
  (∃ cc, ccDecode e = .ok (some cc) ∧
    ((gateAccepts r pci cc ∧ y = e ∧ pci' = r.log.lastIndex + i + 1) ∨
     (¬ gateAccepts r pci cc ∧ y = neutral ∧ pci' = pci)))

theorem gateStep_ok_iff (r : Raft) (hval : r.cfg.disableConfChangeValidation = false) (pci : Nat)
    (e : Entry) (i : Nat) (y : Entry) (pci' : Nat) :
    gateStep r pci (e, i) = .ok (y, pci') ↔ StepOK r i e pci y pci' := by
  unfold gateStep StepOK
  simp only [hval, Bool.not_false, Bool.and_true]
  cases hd : ccDecode e with
  | error s =>
    have hn : ¬ e.getType = .normal := fun h => by rw [(ccDecode_none_iff e).2 h] at hd; cases hd
    simp [hn]
  | ok o =>
    cases o with
    | none =>
      have hn := (ccDecode_none_iff e).1 hd
      simp [hn, eq_comm]
    | some cc =>
      have hn := ccDecode_some_ne_normal hd
      by_cases hg : gateAccepts r pci cc
      · have := (gateRefuses_eq_false_iff r pci cc).2 hg
        simp [hn, this, hg, eq_comm]
      · have : gateRefuses r pci cc = true := by
          cases h : gateRefuses r pci cc
          · exact absurd ((gateRefuses_eq_false_iff r pci cc).1 h) hg
          · rfl
        simp [hn, this, hg, eq_comm]


theorem gate_length {r : Raft} : ∀ {xs : List (Entry × Nat)} {pci : Nat} {ents : List Entry} {pci' : Nat},
    gate r pci xs = .ok (ents, pci') → ents.length = xs.length := by
  intro xs
  induction xs with
  | nil => intro pci ents pci' h; simp only [gate, Except.ok.injEq, Prod.mk.injEq] at h; obtain ⟨rfl, _⟩ := h; rfl
  | cons x xs ih =>
    intro pci ents pci' h
    simp only [gate] at h
    cases hs : gateStep r pci x with
    | error s => rw [hs] at h; cases h
    | ok q =>
      obtain ⟨y, p1⟩ := q
      rw [hs] at h
      simp only at h
      cases hg : gate r p1 xs with
      | error s => rw [hg] at h; cases h
      | ok q2 =>
        obtain ⟨ys, p2⟩ := q2
        rw [hg] at h
        simp only [Except.ok.injEq, Prod.mk.injEq] at h
        rw [← h.1, List.length_cons, List.length_cons, ih hg]

theorem gate_cons_ok_iff (r : Raft) (pci : Nat) (x : Entry × Nat) (xs : List (Entry × Nat)) (ents : List Entry)
    (pci' : Nat) :
    gate r pci (x :: xs) = .ok (ents, pci') ↔
      ∃ y p1 ys, gateStep r pci x = .ok (y, p1) ∧ gate r p1 xs = .ok (ys, pci') ∧ ents = y :: ys := by
  simp only [gate]
  cases hs : gateStep r pci x with
  | error s =>
    constructor
    · intro h; cases h
    · rintro ⟨_, _, _, h, _⟩; cases h
  | ok q =>
    obtain ⟨y, p1⟩ := q
    simp only
    constructor
    · intro h
      cases hg : gate r p1 xs with
      | error s => rw [hg] at h; cases h
      | ok q2 =>
        obtain ⟨ys, p2⟩ := q2
        rw [hg] at h
        simp only [Except.ok.injEq, Prod.mk.injEq] at h
        obtain ⟨rfl, rfl⟩ := h
        exact ⟨y, p1, ys, rfl, hg, rfl⟩
    · rintro ⟨y', p1', ys', h1, h2, rfl⟩
      simp only [Except.ok.injEq, Prod.mk.injEq] at h1
      obtain ⟨rfl, rfl⟩ := h1
      rw [h2]

/-- **trace form**: the loop succeeds with `(ents, pci')` iff there is a sequence `p 0 … p n` of values of
`pendingConfIndex` (initial `pci`, final `pci'`) such that every iteration is `StepOK` -/
theorem gate_ok_iff_trace (r : Raft) (hval : r.cfg.disableConfChangeValidation = false) :
    ∀ (es : List Entry) (k pci : Nat) (ents : List Entry) (pci' : Nat),
    gate r pci (es.zipIdx k) = .ok (ents, pci') ↔
      ents.length = es.length ∧ ∃ p : Nat → Nat, p 0 = pci ∧ p es.length = pci' ∧
        ∀ i (h1 : i < es.length) (h2 : i < ents.length), StepOK r (k + i) es[i] (p i) ents[i] (p (i + 1)) := by
  intro es
  induction es with
  | nil =>
    intro k pci ents pci'
    simp only [List.zipIdx_nil, gate, Except.ok.injEq, Prod.mk.injEq, List.length_nil]
    constructor
    · rintro ⟨rfl, rfl⟩
      exact ⟨rfl, fun _ => pci, rfl, rfl, fun i h => absurd h (Nat.not_lt_zero i)⟩
    · rintro ⟨h, p, rfl, rfl, _⟩
      exact ⟨(List.length_eq_zero_iff.mp h).symm, rfl⟩
  | cons e es ih =>
    intro k pci ents pci'
    rw [List.zipIdx_cons, gate_cons_ok_iff]
    constructor
    · rintro ⟨y, p1, ys, hs, hg, rfl⟩
      obtain ⟨hlen, p, hp0, hpn, hp⟩ := (ih (k + 1) p1 ys pci').1 hg
      refine ⟨by simp [hlen], fun i => match i with | 0 => pci | j + 1 => p j, rfl, ?_, ?_⟩
      · simpa using hpn
      · intro i h1 h2
        cases i with
        | zero =>
          simp only [List.getElem_cons_zero, Nat.add_zero, hp0]
          exact (gateStep_ok_iff r hval pci e k y p1).1 hs
        | succ j =>
          simp only [List.getElem_cons_succ]
          have := hp j (by simpa using h1) (by simpa using h2)
          have e1 : k + 1 + j = k + (j + 1) := by omega
          rw [e1] at this
          exact this
    · rintro ⟨hlen, p, hp0, hpn, hp⟩
      cases ents with
      | nil => simp at hlen
      | cons y ys =>
        refine ⟨y, p 1, ys, ?_, ?_, rfl⟩
        · have := hp 0 (by simp) (by simp)
          simp only [List.getElem_cons_zero, Nat.add_zero, hp0] at this
          exact (gateStep_ok_iff r hval pci e k y (p 1)).2 this
        · refine (ih (k + 1) (p 1) ys pci').2 ⟨by simpa using hlen, fun i => p (i + 1), rfl, ?_, ?_⟩
          · simpa using hpn
          · intro i h1 h2
            have := hp (i + 1) (by simpa using h1) (by simpa using h2)
            simp only [List.getElem_cons_succ] at this
            have e1 : k + (i + 1) = k + 1 + i := by omega
            rw [e1] at this
            exact this


/-- what the gate does to an entry it does not keep as a configuration change -/
def neut (e : Entry) : Entry := if e.getType = .normal then e else neutral

theorem neut_getType (e : Entry) : (neut e).getType = .normal := by
  unfold neut
  split
  · assumption
  · rfl

theorem neut_of_normal {e : Entry} (h : e.getType = .normal) : neut e = e := by
  unfold neut; rw [if_pos h]

theorem neut_of_cc {e : Entry} (h : e.getType ≠ .normal) : neut e = neutral := by
  unfold neut; rw [if_neg h]

/-- while a configuration change is pending (`pendingConfIndex > applied`) every proposed configuration
change is neutralised and `pendingConfIndex` stays -/
theorem gate_pending (r : Raft) (hval : r.cfg.disableConfChangeValidation = false) (pci : Nat)
    (hp : r.log.applied < pci) :
    ∀ (es : List Entry) (k : Nat) (ents : List Entry) (pci' : Nat),
      gate r pci (es.zipIdx k) = .ok (ents, pci') → ents = es.map neut ∧ pci' = pci := by
  intro es
  induction es with
  | nil =>
    intro k ents pci' h
    simp only [List.zipIdx_nil, gate, Except.ok.injEq, Prod.mk.injEq] at h
    exact ⟨h.1.symm, h.2.symm⟩
  | cons e es ih =>
    intro k ents pci' h
    rw [List.zipIdx_cons, gate_cons_ok_iff] at h
    obtain ⟨y, p1, ys, hs, hg, rfl⟩ := h
    rcases (gateStep_ok_iff r hval pci e k y p1).1 hs with ⟨hn, rfl, rfl⟩ | ⟨cc, hd, ⟨hacc, _, _⟩ | ⟨_, rfl, rfl⟩⟩
    · obtain ⟨rfl, rfl⟩ := ih (k + 1) ys pci' hg
      exact ⟨by rw [List.map_cons, neut_of_normal hn], rfl⟩
    · exact absurd hacc.1 (by omega)
    · obtain ⟨rfl, rfl⟩ := ih (k + 1) ys pci' hg
      exact ⟨by rw [List.map_cons, neut_of_cc (ccDecode_some_ne_normal hd)], rfl⟩

theorem ccDecode_some_inj {e : Entry} {c1 c2 : ConfChangeV2} (h1 : ccDecode e = .ok (some c1))
    (h2 : ccDecode e = .ok (some c2)) : c1 = c2 := by
  rw [h1] at h2
  simpa using h2

/-- **closed form** of the gate (validation enabled, `applied ≤ lastIndex`): either no proposed
configuration change passes the gate evaluated with the initial `pendingConfIndex` — then all of them are
neutralised and `pendingConfIndex` stays — or the first one that passes is kept, every other
configuration change of the batch (before and after it) is neutralised, and `pendingConfIndex` becomes the
index the kept entry gets (`k` = position of `es[0]` in the batch) -/
def GateClosed (r : Raft) (k pci : Nat) (es ents : List Entry) (pci' : Nat) : Prop :=
  ((∀ e ∈ es, ∀ cc, ccDecode e = .ok (some cc) → ¬ gateAccepts r pci cc) ∧ ents = es.map neut ∧ pci' = pci) ∨
  (∃ pre e post cc, es = pre ++ e :: post ∧
    (∀ e' ∈ pre, ∀ cc', ccDecode e' = .ok (some cc') → ¬ gateAccepts r pci cc') ∧
    ccDecode e = .ok (some cc) ∧ gateAccepts r pci cc ∧
    ents = pre.map neut ++ e :: post.map neut ∧ pci' = r.log.lastIndex + k + pre.length + 1)

theorem gate_closed (r : Raft) (hval : r.cfg.disableConfChangeValidation = false)
    (happ : r.log.applied ≤ r.log.lastIndex) :
    ∀ (es : List Entry) (k pci : Nat) (ents : List Entry) (pci' : Nat),
      gate r pci (es.zipIdx k) = .ok (ents, pci') → GateClosed r k pci es ents pci' := by
  intro es
  induction es with
  | nil =>
    intro k pci ents pci' h
    simp only [List.zipIdx_nil, gate, Except.ok.injEq, Prod.mk.injEq] at h
    exact Or.inl ⟨fun e he => (by cases he), h.1.symm, h.2.symm⟩
  | cons e es ih =>
    intro k pci ents pci' h
    rw [List.zipIdx_cons, gate_cons_ok_iff] at h
    obtain ⟨y, p1, ys, hs, hg, rfl⟩ := h
    have hrec : ∀ (hy : y = neut e) (hp1 : p1 = pci)
        (hno : ∀ cc, ccDecode e = .ok (some cc) → ¬ gateAccepts r pci cc),
        GateClosed r k pci (e :: es) (y :: ys) pci' := by
      intro hy hp1 hno
      subst hy hp1
      rcases ih (k + 1) p1 ys pci' hg with ⟨h1, rfl, rfl⟩ | ⟨pre, e1, post, cc, rfl, h1, h2, h3, rfl, rfl⟩
      · refine Or.inl ⟨?_, by rw [List.map_cons], rfl⟩
        intro e' he' cc' hd
        rcases List.mem_cons.1 he' with rfl | he'
        · exact hno cc' hd
        · exact h1 e' he' cc' hd
      · refine Or.inr ⟨e :: pre, e1, post, cc, by simp, ?_, h2, h3, by simp, by simp; omega⟩
        intro e' he' cc' hd
        rcases List.mem_cons.1 he' with rfl | he'
        · exact hno cc' hd
        · exact h1 e' he' cc' hd
    rcases (gateStep_ok_iff r hval pci e k y p1).1 hs with ⟨hn, rfl, rfl⟩ | ⟨cc, hd, ⟨hacc, rfl, rfl⟩ | ⟨hrej, rfl, rfl⟩⟩
    · refine hrec (neut_of_normal hn).symm rfl ?_
      intro cc hd
      exact absurd hn (ccDecode_some_ne_normal hd)
    · obtain ⟨rfl, rfl⟩ := gate_pending r hval _ (by omega) es (k + 1) ys pci' hg
      exact Or.inr ⟨[], y, es, cc, rfl, fun _ h => (by cases h), hd, hacc, rfl, by simp⟩
    · refine hrec (neut_of_cc (ccDecode_some_ne_normal hd)).symm rfl ?_
      intro cc' hd'
      rw [← ccDecode_some_inj hd hd']
      exact hrej

/-- the configuration-change entries among `ents` -/
def ccEntries (ents : List Entry) : List Entry := ents.filter (fun e => decide (e.getType ≠ .normal))

theorem ccEntries_map_neut (es : List Entry) : ccEntries (es.map neut) = [] := by
  unfold ccEntries
  rw [List.filter_eq_nil_iff]
  intro x hx
  obtain ⟨e, _, rfl⟩ := List.mem_map.1 hx
  simp [neut_getType]

/-- **at most one configuration change per accepted batch** -/
theorem gate_at_most_one (r : Raft) (hval : r.cfg.disableConfChangeValidation = false)
    (happ : r.log.applied ≤ r.log.lastIndex) (es : List Entry) (k pci : Nat) (ents : List Entry) (pci' : Nat)
    (h : gate r pci (es.zipIdx k) = .ok (ents, pci')) : (ccEntries ents).length ≤ 1 := by
  rcases gate_closed r hval happ es k pci ents pci' h with ⟨_, rfl, _⟩ | ⟨pre, e, post, cc, _, _, hd, _, rfl, _⟩
  · rw [ccEntries_map_neut]; exact Nat.zero_le _
  · have hne := ccDecode_some_ne_normal hd
    unfold ccEntries
    rw [List.filter_append, List.filter_cons]
    have h1 := ccEntries_map_neut pre
    have h2 := ccEntries_map_neut post
    unfold ccEntries at h1 h2
    rw [h1, h2]
    simp [hne]

/-- the loop fails exactly when some proposed entry cannot be decoded -/
theorem gate_isOk_iff (r : Raft) : ∀ (xs : List (Entry × Nat)) (pci : Nat),
    (∃ q, gate r pci xs = .ok q) ↔ ∀ x ∈ xs, ∃ o, ccDecode x.1 = .ok o := by
  intro xs
  induction xs with
  | nil => intro pci; simp [gate]
  | cons x xs ih =>
    intro pci
    constructor
    · rintro ⟨⟨ents, pci'⟩, h⟩
      obtain ⟨y, p1, ys, hs, hg, _⟩ := (gate_cons_ok_iff r pci x xs ents pci').1 h
      intro x' hx'
      rcases List.mem_cons.1 hx' with rfl | hx'
      · unfold gateStep at hs
        cases hd : ccDecode x'.1 with
        | error s => rw [hd] at hs; cases hs
        | ok o => exact ⟨o, rfl⟩
      · exact (ih p1).1 ⟨_, hg⟩ x' hx'
    · intro h
      obtain ⟨o, ho⟩ := h x (List.mem_cons_self)
      have : ∃ y p1, gateStep r pci x = .ok (y, p1) := by
        unfold gateStep
        rw [ho]
        cases o with
        | none => exact ⟨_, _, rfl⟩
        | some cc =>
          simp only
          split
          · exact ⟨_, _, rfl⟩
          · exact ⟨_, _, rfl⟩
      obtain ⟨y, p1, hs⟩ := this
      obtain ⟨⟨ys, p2⟩, hg⟩ := (ih p1).2 (fun x' hx' => h x' (List.mem_cons_of_mem _ hx'))
      exact ⟨(y :: ys, p2), (gate_cons_ok_iff r pci x xs _ _).2 ⟨y, p1, ys, hs, hg, rfl⟩⟩


/-- with validation disabled the gate keeps every (decodable) entry -/
theorem gate_disabled (r : Raft) (hval : r.cfg.disableConfChangeValidation = true) :
    ∀ (es : List Entry) (k pci : Nat) (ents : List Entry) (pci' : Nat),
      gate r pci (es.zipIdx k) = .ok (ents, pci') → ents = es := by
  intro es
  induction es with
  | nil =>
    intro k pci ents pci' h
    simp only [List.zipIdx_nil, gate, Except.ok.injEq, Prod.mk.injEq] at h
    exact h.1.symm
  | cons e es ih =>
    intro k pci ents pci' h
    rw [List.zipIdx_cons, gate_cons_ok_iff] at h
    obtain ⟨y, p1, ys, hs, hg, rfl⟩ := h
    have hy : y = e := by
      unfold gateStep at hs
      simp only [hval, Bool.not_true, Bool.and_false, Bool.false_eq_true, ↓reduceIte] at hs
      cases hd : ccDecode e with
      | error s => rw [hd] at hs; cases hs
      | ok o =>
        rw [hd] at hs
        cases o with
        | none => simp only [Except.ok.injEq, Prod.mk.injEq] at hs; exact hs.1.symm
        | some cc => simp only [Except.ok.injEq, Prod.mk.injEq] at hs; exact hs.1.symm
    rw [hy, ih (k + 1) p1 ys pci' hg]

end RaftVerif.Conf10
