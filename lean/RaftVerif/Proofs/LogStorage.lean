import RaftVerif.Proofs.LogDefs
/-!
# Proofs/LogStorage — MemoryStorage against the abstract log

Helper lemmas for C18 (storage part).  Core Lean only.
-/
namespace RaftVerif

/-- for a contiguous list, "keep the entries above `b`" is "drop the first `b + 1 - n`" -/
theorem Contig.filter_gt {n : Nat} {es : List Entry} (h : Contig n es) (b : Nat) :
    es.filter (fun e => decide (b < e.index)) = es.drop (b + 1 - n) := by
  induction es generalizing n with
  | nil => simp
  | cons e es ih =>
    obtain ⟨h0, h1⟩ := contig_cons.mp h
    have := ih h1
    by_cases hb : b < n
    · have e1 : b + 1 - n = 0 := by omega
      have e2 : b + 1 - (n + 1) = 0 := by omega
      rw [e2] at this
      rw [e1, List.filter_cons, if_pos (by simp; omega), this]; rfl
    · have e1 : b + 1 - n = (b + 1 - (n + 1)) + 1 := by omega
      rw [e1, List.filter_cons, if_neg (by simp; omega), this]; rfl

namespace MemoryStorage

/-- shape of a well-formed storage -/
theorem WF.shape {ms : MemoryStorage} (h : ms.WF) :
    ∃ d rest, ms.ents = d :: rest ∧ ms.offset = d.index ∧ ms.dummyTerm = d.term ∧
      Contig (d.index + 1) rest ∧ ms.abs = { base := d.index, baseTerm := d.term, ents := rest } ∧
      ms.lastIndex = d.index + rest.length := by
  obtain ⟨hne, hc⟩ := h
  cases hents : ms.ents with
  | nil => exact absurd hents hne
  | cons d rest =>
    have hoff : ms.offset = d.index := by simp [offset, hents]
    refine ⟨d, rest, rfl, hoff, by simp [dummyTerm, hents], ?_, ?_, ?_⟩
    · rw [hents, hoff] at hc; exact (contig_cons.mp hc).2
    · simp [abs, hoff, dummyTerm, hents]
    · simp [lastIndex, hoff, hents]

theorem WF.abs_wf {ms : MemoryStorage} (h : ms.WF) : ms.abs.WF := by
  obtain ⟨d, rest, _, _, _, hc, habs, _⟩ := h.shape
  rw [habs]; exact hc

theorem WF.of_shape {ms : MemoryStorage} {d : Entry} {rest : List Entry} (he : ms.ents = d :: rest)
    (hc : Contig (d.index + 1) rest) : ms.WF := by
  refine ⟨by simp [he], ?_⟩
  have : ms.offset = d.index := by simp [offset, he]
  rw [this, he]; exact contig_cons.mpr ⟨rfl, hc⟩

theorem abs_base (ms : MemoryStorage) : ms.abs.base = ms.offset := rfl

theorem firstIndex_abs (ms : MemoryStorage) : ms.firstIndex = ms.abs.first := rfl

theorem lastIndex_abs {ms : MemoryStorage} (h : ms.WF) : ms.lastIndex = ms.abs.last := by
  obtain ⟨d, rest, _, _, _, _, habs, hl⟩ := h.shape
  rw [hl, habs]; rfl

theorem abs_ents_length {ms : MemoryStorage} (h : ms.WF) : ms.abs.ents.length + 1 = ms.ents.length := by
  obtain ⟨d, rest, he, _, _, _, habs, _⟩ := h.shape
  rw [habs, he]; rfl

/-- the entry stored at position `k + 1` is the abstract entry at index `base + 1 + k` -/
theorem getElem?_succ_abs {ms : MemoryStorage} (h : ms.WF) (k : Nat) :
    ms.ents[k + 1]? = ms.abs.ents[k]? := by
  obtain ⟨d, rest, he, _, _, _, habs, _⟩ := h.shape
  rw [habs, he]; rfl

/-- `Term(i)` in terms of the abstract log: a single equation covering all cases -/
theorem term_eq {ms : MemoryStorage} (h : ms.WF) (i : Nat) :
    ms.term i =
      if i < ms.abs.base then .error .compacted
      else if ms.abs.last < i then .error .unavailable
      else .ok ((ms.abs.term? i).getD 0) := by
  obtain ⟨d, rest, he, ho, _, _, habs, _⟩ := h.shape
  unfold term
  rw [habs, ho, he]
  simp only [ALog.last, ALog.term?, ALog.entry?, List.length_cons]
  by_cases h1 : i < d.index
  · rw [if_pos h1, if_pos h1]
  · rw [if_neg h1, if_neg h1]
    by_cases h2 : d.index + rest.length < i
    · rw [if_pos (by omega), if_pos h2]
    · rw [if_neg (by omega), if_neg h2]
      by_cases h3 : i = d.index
      · subst h3; simp
      · rw [if_neg h3, if_pos (by omega)]
        have e : i - d.index = (i - (d.index + 1)) + 1 := by omega
        rw [e]; simp

theorem term_ok_iff {ms : MemoryStorage} (h : ms.WF) (i t : Nat) :
    ms.term i = .ok t ↔ ms.abs.term? i = some t := by
  rw [term_eq h]
  have hn := ALog.term?_eq_none_iff ms.abs i
  split
  · rw [hn.mpr (by omega)]; simp
  · split
    · rw [hn.mpr (by omega)]; simp
    · cases ht : ms.abs.term? i with
      | none => rw [ht] at hn; have := hn.mp rfl; omega
      | some t' => simp

theorem term_compacted_iff {ms : MemoryStorage} (h : ms.WF) (i : Nat) :
    ms.term i = .error .compacted ↔ i < ms.abs.base := by
  rw [term_eq h]
  split
  · simp [*]
  · split <;> simp [*]

theorem term_unavailable_iff {ms : MemoryStorage} (h : ms.WF) (i : Nat) :
    ms.term i = .error .unavailable ↔ ms.abs.last < i := by
  rw [term_eq h]
  split
  · have : ms.abs.base ≤ ms.abs.last := by simp [ALog.last]
    simp; omega
  · split <;> simp [*]

theorem term_ne_snapOutOfDate {ms : MemoryStorage} (h : ms.WF) (i : Nat) :
    ms.term i ≠ .error .snapOutOfDate := by
  rw [term_eq h]
  split
  · simp
  · split <;> simp

/-- the raw sub-list taken by `Entries` is the abstract slice -/
theorem drop_take_abs {ms : MemoryStorage} (h : ms.WF) {lo hi : Nat} (hlo : ms.offset < lo) :
    (ms.ents.drop (lo - ms.offset)).take (hi - lo) = ms.abs.slice lo hi := by
  obtain ⟨d, rest, he, ho, _, _, habs, _⟩ := h.shape
  rw [habs, he, ho]
  rw [ho] at hlo
  simp only [ALog.slice]
  have e : lo - d.index = (lo - (d.index + 1)) + 1 := by omega
  rw [e, List.drop_succ_cons]

/-- `Entries(lo, hi, maxSize)` in terms of the abstract log: a single equation covering all cases
(including the Go quirk that a storage holding only the dummy entry answers `ErrUnavailable`
whatever `lo > base`, `hi ≤ last + 1` are). -/
theorem entries_eq {ms : MemoryStorage} (h : ms.WF) (lo hi maxSize : Nat) :
    ms.entries lo hi maxSize =
      if lo ≤ ms.abs.base then pure (.error .compacted)
      else if hi > ms.abs.last + 1 then throw "storage.Entries: hi out of bound"
      else if ms.abs.ents = [] then pure (.error .unavailable)
      else if lo > hi then throw "storage.Entries: slice bounds out of range"
      else pure (.ok (limitSize (ms.abs.slice lo hi) maxSize)) := by
  unfold entries
  rw [lastIndex_abs h, abs_base]
  have hl := abs_ents_length h
  by_cases h1 : lo ≤ ms.offset
  · rw [if_pos h1, if_pos h1]
  · rw [if_neg h1, if_neg h1]
    by_cases h2 : hi > ms.abs.last + 1
    · rw [if_pos h2, if_pos h2]
    · rw [if_neg h2, if_neg h2]
      by_cases h3 : ms.abs.ents = []
      · rw [if_pos h3, if_pos (by simp [← hl, h3])]
      · have : ms.abs.ents.length ≠ 0 := fun h0 => h3 (List.length_eq_zero_iff.mp h0)
        rw [if_neg h3, if_neg (by simp; omega)]
        rw [drop_take_abs h (by omega)]

/-! ### Append -/

end MemoryStorage

/-- `Append` on the abstract log: forget the part of `es` that is already compacted; nothing left:
no change; a gap after the last index: panic; otherwise overwrite from the first remaining index. -/
def ALog.storeAppend (a : ALog) (es : List Entry) : P ALog :=
  match es.filter (fun e => decide (a.base < e.index)) with
  | [] => pure a
  | f0 :: rest =>
    if a.last + 1 < f0.index then throw "storage.Append: missing log entry"
    else pure (a.overwrite (f0 :: rest))

namespace MemoryStorage

theorem append_eq {ms : MemoryStorage} (h : ms.WF) {n : Nat} {es : List Entry} (hc : Contig n es) :
    ms.append es =
      match es.filter (fun e => decide (ms.offset < e.index)) with
      | [] => pure ms
      | f0 :: rest =>
        if ms.lastIndex + 1 < f0.index then throw "storage.Append: missing log entry"
        else pure { ms with ents := ms.ents.take (f0.index - ms.offset) ++ (f0 :: rest) } := by
  rw [hc.filter_gt]
  obtain ⟨d, rest, he, ho, _, _, _, hl⟩ := h.shape
  cases es with
  | nil => simp [append]
  | cons e0 es' =>
    have hn : e0.index = n := hc.head_index
    subst hn
    unfold append
    have hfi : ms.firstIndex = d.index + 1 := by simp [firstIndex, ho]
    simp only [hfi]
    rw [hl, he, ho]
    split
    · rename_i h1
      simp only [List.length_cons] at h1
      rw [List.drop_eq_nil_of_le (by simp; omega)]
    · rename_i h1
      simp only [List.length_cons] at h1
      have key : (if d.index + 1 > e0.index then (e0 :: es').drop (d.index + 1 - e0.index) else e0 :: es')
          = (e0 :: es').drop (d.index + 1 - e0.index) := by
        split
        · rfl
        · rename_i h2
          have : d.index + 1 - e0.index = 0 := by omega
          rw [this]; rfl
      rw [key]
      cases hd : (e0 :: es').drop (d.index + 1 - e0.index) with
      | nil =>
        have := List.drop_eq_nil_iff.mp hd
        simp at this; omega
      | cons f0 rest' =>
        simp only
        have hf : f0.index = e0.index + (d.index + 1 - e0.index) := by
          have := (hc.drop (d.index + 1 - e0.index))
          rw [hd] at this; exact this.head_index
        simp only [List.length_cons]
        split
        · rw [if_neg (by omega)]
        · split
          · rename_i h3 h4
            rw [if_neg (by simp at h4; omega)]
            rw [List.take_of_length_le (by simp at h4 ⊢; omega)]
          · rename_i h3 h4
            rw [if_pos (by simp at h4; omega)]

/-- replacing everything from position `k ≥ 1` on -/
theorem splice_abs {ms : MemoryStorage} (h : ms.WF) {k : Nat} (hk : 0 < k) (es' : List Entry) :
    ({ ms with ents := ms.ents.take k ++ es' } : MemoryStorage).abs =
      { ms.abs with ents := ms.abs.ents.take (k - 1) ++ es' } := by
  obtain ⟨d, rest, he, ho, hd, _, habs, _⟩ := h.shape
  rw [habs]
  obtain ⟨k', rfl⟩ : ∃ k', k = k' + 1 := ⟨k - 1, by omega⟩
  simp [abs, offset, dummyTerm, he]

theorem splice_wf {ms : MemoryStorage} (h : ms.WF) {k : Nat} (hk : 0 < k) (hk2 : k ≤ ms.ents.length)
    {es' : List Entry} (hc : Contig (ms.offset + k) es') :
    ({ ms with ents := ms.ents.take k ++ es' } : MemoryStorage).WF := by
  obtain ⟨d, rest, he, ho, hd, hcr, habs, _⟩ := h.shape
  obtain ⟨k', rfl⟩ : ∃ k', k = k' + 1 := ⟨k - 1, by omega⟩
  rw [he] at hk2
  simp only [List.length_cons] at hk2
  apply WF.of_shape (d := d) (rest := rest.take k' ++ es')
  · simp [he]
  · rw [contig_append]
    refine ⟨hcr.take k', ?_⟩
    rw [ho] at hc
    have : d.index + 1 + (rest.take k').length = d.index + (k' + 1) := by
      simp only [List.length_take]; omega
    rw [this]; exact hc

/-- **storage Append**: abstractly `storeAppend`; a panic of the model is a panic of the abstract
operation with the same message -/
theorem append_abs {ms : MemoryStorage} (h : ms.WF) {n : Nat} {es : List Entry} (hc : Contig n es) :
    (ms.append es).map abs = ms.abs.storeAppend es := by
  rw [append_eq h hc, ALog.storeAppend, abs_base, ← lastIndex_abs h]
  have hcf : ∀ f0 rest, es.filter (fun e => decide (ms.offset < e.index)) = f0 :: rest → ms.offset < f0.index := by
    intro f0 rest hf
    have : f0 ∈ es.filter (fun e => decide (ms.offset < e.index)) := by rw [hf]; simp
    simpa using (List.mem_filter.mp this).2
  cases hf : es.filter (fun e => decide (ms.offset < e.index)) with
  | nil => rfl
  | cons f0 rest =>
    have hlt := hcf f0 rest hf
    simp only
    split
    · rfl
    · simp only [pure, Except.pure, Except.map]
      rw [splice_abs h (by omega)]
      simp only [ALog.overwrite, ALog.truncateFrom, ALog.extend, abs_base]
      have : f0.index - ms.offset - 1 = f0.index - (ms.offset + 1) := by omega
      rw [this]

theorem append_wf {ms : MemoryStorage} (h : ms.WF) {n : Nat} {es : List Entry} (hc : Contig n es)
    {ms' : MemoryStorage} (hok : ms.append es = .ok ms') : ms'.WF := by
  rw [append_eq h hc] at hok
  have hcf : es.filter (fun e => decide (ms.offset < e.index)) = es.drop (ms.offset + 1 - n) := hc.filter_gt _
  have hcd := hc.drop (ms.offset + 1 - n)
  rw [← hcf] at hcd
  cases hf : es.filter (fun e => decide (ms.offset < e.index)) with
  | nil =>
    rw [hf] at hok
    cases hok; exact h
  | cons f0 rest =>
    rw [hf] at hok hcd
    have hlt : ms.offset < f0.index := by
      have : f0 ∈ es.filter (fun e => decide (ms.offset < e.index)) := by rw [hf]; simp
      simpa using (List.mem_filter.mp this).2
    simp only at hok
    split at hok
    · cases hok
    · rename_i hgap
      cases hok
      have hl := abs_ents_length h
      have hli := lastIndex_abs h
      simp only [ALog.last, abs_base] at hli
      apply splice_wf h (by omega) (by omega)
      have : ms.offset + (f0.index - ms.offset) = f0.index := by omega
      rw [this]
      have := hcd.head_index
      rw [← this] at hcd
      exact hcd

/-! ### Compact, ApplySnapshot, CreateSnapshot -/

/-- **storage Compact**: the three (exclusive, exhaustive) outcomes -/
theorem compact_spec {ms : MemoryStorage} (h : ms.WF) (ci : Nat) :
    (ci ≤ ms.abs.base ∧ ms.compact ci = .ok (.error .compacted)) ∨
    (ms.abs.base < ci ∧ ms.abs.last < ci ∧ ms.compact ci = .error "storage.Compact: out of bound") ∨
    (ms.abs.base < ci ∧ ci ≤ ms.abs.last ∧ ∃ ms' t, ms.compact ci = .ok (.ok ms') ∧
      ms.abs.term? ci = some t ∧ ms'.abs = ms.abs.compactTo ci t ∧ ms'.WF ∧
      ms'.snapshot = ms.snapshot ∧ ms'.hardState = ms.hardState) := by
  have hli := lastIndex_abs h
  obtain ⟨d, rest, he, ho, hd, hcr, habs, hl⟩ := h.shape
  unfold compact
  rw [hli, abs_base]
  by_cases h1 : ci ≤ ms.offset
  · left; exact ⟨h1, by rw [if_pos h1]; rfl⟩
  · right
    rw [if_neg h1]
    by_cases h2 : ci > ms.abs.last
    · left; exact ⟨by omega, h2, by rw [if_pos h2]; rfl⟩
    · right
      rw [if_neg h2]
      refine ⟨by omega, by omega, ?_⟩
      rw [habs] at h2 ⊢
      simp only [ALog.last] at h2
      rw [ho] at h1 ⊢
      obtain ⟨k, hk⟩ : ∃ k, ci = d.index + 1 + k := ⟨ci - (d.index + 1), by omega⟩
      have hklt : k < rest.length := by omega
      have e1 : ci - d.index = k + 1 := by omega
      have hrk := hcr k hklt
      refine ⟨_, rest[k].term, rfl, ?_, ?_, ?_, rfl, rfl⟩
      · simp only [ALog.term?, ALog.entry?]
        rw [if_neg (by omega), if_pos (by omega)]
        have : ci - (d.index + 1) = k := by omega
        rw [this]; simp [hklt]
      · simp only [abs, offset, dummyTerm, ALog.compactTo, e1, he]
        simp [hklt, hrk, hk]
      · apply WF.of_shape (d := { index := rest[k].index, term := rest[k].term }) (rest := rest.drop (k + 1))
        · simp [he, e1, hklt]
        · have := hcr.drop (k + 1)
          simp only [hrk]
          have e : d.index + 1 + k + 1 = d.index + 1 + (k + 1) := by omega
          rw [e]; exact this

/-- **storage ApplySnapshot**: refused iff the storage's snapshot is at least as recent; otherwise the
abstract log becomes empty with the snapshot as base -/
theorem applySnapshot_spec (ms : MemoryStorage) (snap : Snapshot) :
    ((ms.snapshot.index ≠ 0 ∧ snap.index ≤ ms.snapshot.index) ∧
      ms.applySnapshot snap = .error .snapOutOfDate) ∨
    (¬(ms.snapshot.index ≠ 0 ∧ snap.index ≤ ms.snapshot.index) ∧ ∃ ms', ms.applySnapshot snap = .ok ms' ∧
      ms'.WF ∧ ms'.abs = { base := snap.index, baseTerm := snap.term, ents := [] } ∧
      ms'.snapshot = snap ∧ ms'.hardState = ms.hardState) := by
  unfold applySnapshot
  by_cases hc : ms.snapshot.index ≠ 0 ∧ snap.index ≤ ms.snapshot.index
  · left
    refine ⟨hc, ?_⟩
    rw [if_pos (by simp; exact hc)]
  · right
    refine ⟨hc, ?_⟩
    rw [if_neg (by simp; simpa using hc)]
    refine ⟨_, rfl, ?_, ?_, rfl, rfl⟩
    · exact WF.of_shape (d := { term := snap.term, index := snap.index }) (rest := []) rfl (Contig.nil _)
    · simp [abs, offset, dummyTerm]

/-- **storage CreateSnapshot**: the four (exclusive, exhaustive) outcomes; the log is untouched -/
theorem createSnapshot_spec {ms : MemoryStorage} (h : ms.WF) (i : Nat) (cs : Option ConfState) (data : Option Bytes) :
    (i ≤ ms.snapshot.index ∧ ms.createSnapshot i cs data = .ok (.error .snapOutOfDate)) ∨
    (ms.snapshot.index < i ∧ ms.abs.last < i ∧
      ms.createSnapshot i cs data = .error "storage.CreateSnapshot: out of bound") ∨
    (ms.snapshot.index < i ∧ i ≤ ms.abs.last ∧ i < ms.abs.base ∧
      ms.createSnapshot i cs data = .error "storage.CreateSnapshot: index out of range") ∨
    (ms.snapshot.index < i ∧ i ≤ ms.abs.last ∧ ms.abs.base ≤ i ∧ ∃ ms' s,
      ms.createSnapshot i cs data = .ok (.ok (ms', s)) ∧ ms'.WF ∧ ms'.abs = ms.abs ∧ ms'.ents = ms.ents ∧
      ms'.snapshot = s ∧ s.index = i ∧ ms.abs.term? i = some s.term ∧
      s.conf = cs.getD ms.snapshot.conf ∧ s.data = data ∧ ms'.hardState = ms.hardState) := by
  have hli := lastIndex_abs h
  unfold createSnapshot
  rw [hli, abs_base]
  by_cases h1 : i ≤ ms.snapshot.index
  · left; exact ⟨h1, by rw [if_pos h1]; rfl⟩
  · right; rw [if_neg h1]
    by_cases h2 : i > ms.abs.last
    · left; exact ⟨by omega, h2, by rw [if_pos h2]; rfl⟩
    · right; rw [if_neg h2]
      by_cases h3 : i < ms.offset
      · left; exact ⟨by omega, by omega, h3, by rw [if_pos h3]; rfl⟩
      · right; rw [if_neg h3]
        refine ⟨by omega, by omega, by omega, _, _, rfl, ?_, rfl, rfl, rfl, rfl, ?_, rfl, rfl, rfl⟩
        · exact h
        · have := term_eq h i
          unfold term at this
          rw [abs_base, if_neg h3, if_neg h3, if_neg h2] at this
          have hl := abs_ents_length h
          simp only [ALog.last, abs_base] at h2
          rw [if_neg (by omega)] at this
          have hs : (ms.abs.term? i).isSome := by
            rw [ALog.term?_isSome_iff]; simp only [ALog.last, abs_base]; omega
          obtain ⟨t, ht⟩ := Option.isSome_iff_exists.mp hs
          rw [ht] at this ⊢
          simp only [Option.getD_some] at this
          injection this with this
          simp only [this]

end MemoryStorage
end RaftVerif
