import RaftVerif.Proofs.StepVote
/-!
# Proofs/StepRestore — exact behaviour of `Raft.restore` (C09)
-/
namespace RaftVerif
namespace Raft
set_option linter.unusedSimpArgs false

/-- `switchToConfig` on a node that is not leader only installs the configuration -/
theorem switchToConfig_nonleader_spec (cfg : TrackerConfig) (trk : ProgressMap) (s : Raft)
    (h : s.state ≠ .leader) :
    Spec (switchToConfig cfg trk) s (fun cs s' =>
      s' = { s with trk := { s.trk with cfg := cfg, progress := trk },
                    isLearner := (((({ s.trk with cfg := cfg, progress := trk } : Tracker).getProgress s.cfg.id).map
                      (·.isLearner)).getD false) } ∧
      cs = ({ s.trk with cfg := cfg, progress := trk } : Tracker).confState) := by
  unfold switchToConfig
  have h1 : (s.state == Role.leader) = false := by
    cases hs : s.state <;> simp_all
  have h2 : (s.state != Role.leader) = true := by
    cases hs : s.state <;> simp_all
  simp only [wp, h1, h2, Bool.and_false, Bool.false_eq_true, false_implies, true_and, not_false_eq_true,
    true_implies, Bool.true_or, and_self, implies_true, and_true, not_true_eq_false]

/-- is the node a member (voter, learner or outgoing voter) of the snapshot's configuration? -/
def inConf (cs : ConfState) (id : Id) : Bool :=
  cs.voters.contains id || cs.learners.contains id || cs.votersOutgoing.contains id

/-- what `restore` does, guard by guard -/
def RestorePost (snap : Snapshot) (s : Raft) (ok : Bool) (s' : Raft) : Prop :=
  if snap.index ≤ s.log.committed then ok = false ∧ s' = s
  else if s.state ≠ .follower then
    ok = false ∧ s'.term = s.term + 1 ∧ s'.vote = 0 ∧ s'.lead = 0 ∧ s'.state = .follower ∧ s'.log = s.log
  else if inConf snap.conf s.cfg.id = false then ok = false ∧ s' = s
  else if s.log.matchTerm { term := snap.term, index := snap.index } = true then
    ok = false ∧ s' = { s with log := { s.log with committed := snap.index } } ∧ snap.index ≤ s.log.lastIndex
  else
    ok = true ∧ s'.log = s.log.restore snap ∧ s'.term = s.term ∧ s'.vote = s.vote ∧ s'.lead = s.lead ∧
      s'.state = .follower ∧ s'.msgs = s.msgs ∧ s'.msgsAfterAppend = s.msgsAfterAppend ∧
      snap.conf.equivalent s'.trk.confState = true

theorem restore_spec' (snap : Snapshot) (s : Raft) :
    Spec (restore snap) s (fun ok s' => RestorePost snap s ok s') := by
  unfold restore
  simp only [wp]
  refine ⟨fun h1 => ?_, fun h1 => ⟨fun h2 => ?_, fun h2 => ⟨fun h3 => ?_, fun h3 => ⟨fun h4 l hl => ?_, fun h4 => ?_⟩⟩⟩⟩
  · simp [RestorePost, h1]
  · have h2' : s.state ≠ .follower := by simpa using h2
    refine (becomeFollower_spec (s.term + 1) 0 s).mono ?_
    intro _ mid ⟨t1, t2, t3, t4, t5, _⟩
    have : ¬ s.term = s.term + 1 := by omega
    simp only [this, if_false] at t2
    simp [RestorePost, h1, h2', t1, t2, t3, t4, t5]
  · have h2' : s.state = .follower := by simpa using h2
    have h3' : inConf snap.conf s.cfg.id = false := by simpa [inConf] using h3
    simp [RestorePost, h1, h2', h3']
  · have h2' : s.state = .follower := by simpa using h2
    have h3' : inConf snap.conf s.cfg.id = true := by
      cases hc : inConf snap.conf s.cfg.id
      · simp [inConf] at hc; simp [hc] at h3
      · rfl
    obtain ⟨rfl, hli⟩ := RaftLog.commitTo_spec hl
    have hm : max s.log.committed snap.index = snap.index := by omega
    simp only [RestorePost, h1, h2', h3', h4, if_false, if_true, ne_eq, not_true_eq_false, Bool.true_eq_false, hm,
      true_and]
    exact hli (by omega)
  · have h2' : s.state = .follower := by simpa using h2
    have h3' : inConf snap.conf s.cfg.id = true := by
      cases hc : inConf snap.conf s.cfg.id
      · simp [inConf] at hc; simp [hc] at h3
      · rfl
    split
    · simp only [wp]
    · rename_i cfg trk hrc
      simp only [wp]
      refine (switchToConfig_nonleader_spec cfg trk _ (by simp [h2'])).mono ?_
      rintro cs s' ⟨rfl, rfl⟩
      simp only [wp]
      refine ⟨fun _ => trivial, fun heq => ?_⟩
      simp only [RestorePost, h1, h2', h3', h4, if_false, ne_eq, not_true_eq_false, Bool.true_eq_false,
        true_and, and_true]
      simpa using heq

end Raft
end RaftVerif
