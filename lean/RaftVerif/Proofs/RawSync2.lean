import RaftVerif.Proofs.RawSync
/-!
# Proofs/RawSync2 — C05 sync mode, continued: `MustSync` (and the snapshot finding), self-addressed
acknowledgements wait for `Advance`, non-vacuity examples
-/
namespace RaftVerif.Raw
open RaftVerif Raft RawNode Next Live

/-! ## `MustSync` -/

/-- a current-term acknowledgement of an index that was not yet handed out for writing
(`x.index ≥ unstable.offsetInProgress`) is backed by entries of this very `Ready` -/
theorem sync_entries_when_index_new (rn : RawNode) (rd : Ready) (hrd : rn.readyWithoutAccept = .ok rd)
    (hinv : PromisesWithinLog rn.raft) (hwf : rn.raft.log.WF) (x : Message) (hx : x ∈ rn.raft.msgsAfterAppend)
    (hpa : PendApp x) (hcur : x.term = rn.raft.term)
    (hnew : rn.raft.log.unstable.offsetInProgress ≤ x.index) : rd.entries ≠ [] := by
  obtain ⟨core, _⟩ := readyWithoutAccept_core rn rd hrd
  have hidx := (hinv.app x hx hpa).2 hcur
  rw [RaftLog.lastIndex_abs hwf] at hidx
  have hls := RaftLog.abs_last_succ hwf
  unfold Unstable.next at hls
  have hlo := hwf.unstable.inProgLo
  have hk : x.index - rn.raft.log.unstable.offset < rn.raft.log.unstable.entries.length := by omega
  have hci := hwf.unstable.contig _ hk
  rw [core.entries]
  unfold RaftLog.nextUnstableEnts
  rw [Unstable.nextEntries_eq hwf.unstable]
  intro hnil
  have hmem : rn.raft.log.unstable.entries[x.index - rn.raft.log.unstable.offset] ∈
      rn.raft.log.unstable.entries.filter (fun e => decide (rn.raft.log.unstable.offsetInProgress ≤ e.index)) := by
    rw [List.mem_filter]
    refine ⟨List.getElem_mem hk, ?_⟩
    simp only [decide_eq_true_eq]
    omega
  rw [hnil] at hmem
  cases hmem

/-- **`MustSync` (a)**: sync mode, the unstable entries in progress (if any) are stored.  If the `Ready` carries a current-term
non-reject MsgAppResp whose index is beyond what the storage holds *and which is backed by unstable entries*
(no snapshot pending, or the index lies at/above `unstable.offset`), then the `Ready` has entries and
`MustSync = true`.  The side condition is necessary: see `sync_snapshot_no_mustSync`. -/
theorem sync_mustSync_when_backing_new_app (rn : RawNode) (rd : Ready) (ha : rn.async = false)
    (hrd : rn.readyWithoutAccept = .ok rd) (hinv : PromisesWithinLog rn.raft) (hwf : rn.raft.log.WF)
    (hes : sync_EntsStored rn.raft.log)
    (x : Message) (hx : x ∈ rd.messages) (hpa : PendApp x) (hcur : x.term = rn.raft.term)
    (hnew : rn.raft.log.storage.lastIndex < x.index)
    (hents : rn.raft.log.unstable.snapshot = none ∨ rn.raft.log.unstable.offset ≤ x.index) :
    rd.entries ≠ [] ∧ rd.mustSync = true := by
  rw [C07R.sync_ready_messages rn rd ha hrd, List.mem_append] at hx
  have hx' : x ∈ rn.raft.msgsAfterAppend := by
    rcases hx with hx | hx
    · have hnp := hinv.msgs x hx
      rw [hpa.1] at hnp; cases hnp
    · exact (List.mem_filter.mp hx).1
  obtain ⟨rnone, rsome⟩ := sync_inprogress_reach hwf hes
  have hoip : rn.raft.log.unstable.offsetInProgress ≤ x.index := by
    cases hsn : rn.raft.log.unstable.snapshot with
    | none => have := (rnone hsn).2; omega
    | some s =>
      have := rsome (by rw [hsn]; simp)
      rcases hents with h | h
      · rw [hsn] at h; cases h
      · omega
  have hne := sync_entries_when_index_new rn rd hrd hinv hwf x hx' hpa hcur hoip
  exact ⟨hne, (C07R.mustSync_iff rn rd hrd).2.mpr (Or.inl hne)⟩

/-- **`MustSync` (b)**: the stored term / vote are those handed out last.  If the node's term or vote differs
from the stored one (in particular whenever the `Ready` carries a current-term granted vote that the storage
does not back yet), then `MustSync = true`. -/
theorem sync_mustSync_when_backing_new_vote (rn : RawNode) (rd : Ready)
    (hrd : rn.readyWithoutAccept = .ok rd)
    (hterm : persistTerm rn.raft.log.storage = rn.prevHard.term)
    (hvote : persistVote rn.raft.log.storage = rn.prevHard.vote)
    (hdiff : persistTerm rn.raft.log.storage ≠ rn.raft.term ∨ persistVote rn.raft.log.storage ≠ rn.raft.vote) :
    rd.mustSync = true := by
  apply (C07R.mustSync_iff rn rd hrd).2.mpr
  rcases hdiff with h | h
  · right; left; rw [← hterm]; exact fun e => h e.symm
  · right; right; rw [← hvote]; exact fun e => h e.symm

/-- **`MustSync`, both cases**: under `sync_Stable`, a `Ready` carrying a current-term promise whose backing
state is not yet in the old storage — entries above the stored last index, or a term / vote different from
the stored ones — has `MustSync = true`. -/
theorem sync_mustSync_when_backing_new (rn : RawNode) (rd : Ready) (ha : rn.async = false)
    (hrd : rn.readyWithoutAccept = .ok rd) (hinv : PromisesWithinLog rn.raft) (hwf : rn.raft.log.WF)
    (hst : sync_Stable rn) (x : Message) (hx : x ∈ rd.messages) (hcur : x.term = rn.raft.term)
    (hnew : (PendApp x ∧ rn.raft.log.storage.lastIndex < x.index ∧
              (rn.raft.log.unstable.snapshot = none ∨ rn.raft.log.unstable.offset ≤ x.index)) ∨
            (PendVote x ∧ (persistTerm rn.raft.log.storage ≠ rn.raft.term ∨
              persistVote rn.raft.log.storage ≠ rn.raft.vote))) :
    rd.mustSync = true := by
  rcases hnew with ⟨hpa, h1, h2⟩ | ⟨_, hd⟩
  · exact (sync_mustSync_when_backing_new_app rn rd ha hrd hinv hwf hst.entsStored x hx hpa hcur h1 h2).2
  · exact sync_mustSync_when_backing_new_vote rn rd hrd hst.term hst.vote hd

/-! ### FINDING: a promise backed by a pending *snapshot* does not set `MustSync`

`sync_snapNode`: follower 1 of term 3 (voted for 2) has just restored the snapshot (index 5, term 3) sent by
leader 2 (`Raft.restore`): the snapshot is pending in `unstable`, nothing of it is in storage, and the
acknowledgement `MsgAppResp(index = 5)` is queued.  Term and vote did not change, there are no entries: the
`Ready` carries the snapshot and the acknowledgement with `MustSync = false` (Go: `MustSync(hardState,
prevHardSt, len(rd.Entries))` ignores `rd.Snapshot`).  All hypotheses of `sync_mustSync_when_backing_new`
hold except "backed by entries". -/
instance sync_decAppFine (r : Raft) (x : Message) : Decidable (AppFine r x) := by unfold AppFine; infer_instance
instance sync_decVoteFine (r : Raft) (x : Message) : Decidable (VoteFine r x) := by unfold VoteFine; infer_instance
instance sync_decCL (r : Raft) : Decidable (CL r) := by unfold CL; infer_instance

def sync_snapNode : RawNode :=
  { raft := { cfg := { id := 1 }, term := 3, vote := 2, lead := 2,
              log := { storage := { hardState := some { term := 3, vote := 2, commit := 0 } },
                       unstable := { snapshot := some { index := 5, term := 3 }, offset := 6, offsetInProgress := 6 },
                       committed := 5, maxApplyingEntsSize := 1000 },
              msgsAfterAppend := [{ typ := .appResp, to := 2, «from» := 1, term := 3, index := 5 }] },
    prevHard := { term := 3, vote := 2, commit := 0 } }

theorem sync_snapNode_inv : PromisesWithinLog sync_snapNode.raft ∧ sync_snapNode.raft.log.WF ∧
    sync_Stable sync_snapNode ∧ sync_SnapFresh sync_snapNode.raft.log ∧ sync_snapNode.async = false :=
  ⟨⟨by decide, by decide, by decide, by decide⟩, by decide, by decide,
    by intro s hs; cases hs; decide, rfl⟩

/-- the counterexample: the acknowledgement of index 5 (current term, beyond the stored last index 0) is in
`rd.messages`, the snapshot is in `rd.snapshot`, and `MustSync = false` -/
theorem sync_snapshot_no_mustSync :
    ∃ rd, sync_snapNode.readyWithoutAccept = .ok rd ∧ rd.mustSync = false ∧ rd.entries = [] ∧
      rd.snapshot = some { index := 5, term := 3 } ∧
      ∃ x ∈ rd.messages, PendApp x ∧ x.term = sync_snapNode.raft.term ∧ x.index = 5 ∧
        sync_snapNode.raft.log.storage.lastIndex = 0 :=
  ⟨_, rfl, rfl, rfl, rfl, _, List.mem_singleton.mpr rfl, ⟨rfl, rfl⟩, rfl, rfl, rfl⟩

/-- what `acceptReady` leaves for `Advance` (sync mode): the self-addressed part of `msgsAfterAppend`,
then only local storage acknowledgements -/
def sync_SoaShape (rn rn' : RawNode) : Prop :=
  rn'.raft.msgs = [] ∧ rn'.raft.msgsAfterAppend = [] ∧ rn'.raft.cfg = rn.raft.cfg ∧
  ∃ suf, rn'.stepsOnAdvance = rn.raft.msgsAfterAppend.filter (fun m => m.to == rn.raft.cfg.id) ++ suf ∧
    ∀ y ∈ suf, (y.typ = .storageAppendResp ∨ y.typ = .storageApplyResp) ∧ y.to = rn.raft.cfg.id

theorem sync_acceptReady_soa (rn rn' : RawNode) (rd : Ready) (ha : rn.async = false)
    (h : rn.acceptReady rd = .ok rn') : rn.stepsOnAdvance = [] ∧ sync_SoaShape rn rn' := by
  unfold RawNode.acceptReady at h
  extract_lets +onlyGivenNames rn0 jD jC jB jA at h
  let K : RawNode → Prop := fun x =>
    x.async = false ∧ x.raft.msgsAfterAppend = rn.raft.msgsAfterAppend ∧ x.raft.cfg = rn.raft.cfg ∧
      x.stepsOnAdvance = rn.stepsOnAdvance
  have h1 : ∃ x1, K x1 ∧ jA () x1 = .ok rn' := by
    split at h
    · dsimp only at h
      refine ⟨_, ?_, h⟩
      exact ⟨ha, rfl, rfl, rfl⟩
    · refine ⟨_, ?_, h⟩
      exact ⟨ha, rfl, rfl, rfl⟩
  obtain ⟨x1, hx1, h⟩ := h1
  simp only [jA] at h
  have h2 : ∃ x2, K x2 ∧ jB () x2 = .ok rn' := by
    cases hhs : rd.hardState with
    | none =>
      simp only [hhs] at h
      exact ⟨_, hx1, h⟩
    | some hh =>
      simp only [hhs] at h
      cases hemp : hh.isEmpty with
      | true =>
        simp only [hemp, Bool.not_true, Bool.false_eq_true, ↓reduceIte] at h
        exact ⟨_, hx1, h⟩
      | false =>
        simp only [hemp, Bool.not_false, ↓reduceIte] at h
        refine ⟨_, ?_, h⟩
        exact ⟨hx1.1, hx1.2.1, hx1.2.2.1, hx1.2.2.2⟩
  obtain ⟨x2, hx2, h⟩ := h2
  simp only [jB] at h
  obtain ⟨x3, hx3, h⟩ := ite_same_fn (f := jC ()) K h ⟨hx2.1, hx2.2.1, hx2.2.2.1, hx2.2.2.2⟩ hx2
  have hD : ∀ y, y.raft.cfg = rn.raft.cfg → jD () y = .ok rn' →
      rn'.raft.msgs = [] ∧ rn'.raft.msgsAfterAppend = [] ∧ rn'.raft.cfg = rn.raft.cfg ∧
        rn'.stepsOnAdvance = y.stepsOnAdvance := by
    intro y hy hj
    simp only [jD] at hj
    split at hj
    · obtain ⟨l, hl, hj⟩ := bind_eq_ok.1 hj
      simp only [pure, Except.pure, Except.ok.injEq] at hj
      subst hj
      exact ⟨rfl, rfl, hy, rfl⟩
    · simp only [pure, Except.pure, Except.ok.injEq] at hj
      subst hj
      exact ⟨rfl, rfl, hy, rfl⟩
  simp only [jC] at h
  obtain ⟨k1, k2, k3, k4⟩ := hx3
  rw [k1] at h
  simp only [Bool.not_false, ↓reduceIte] at h
  split at h
  · obtain ⟨_, ht, _⟩ := bind_eq_ok.1 h
    simp [throw, throwThe, MonadExceptOf.throw] at ht
  · rename_i hlen
    have hso : rn.stepsOnAdvance = [] := by
      rw [k4] at hlen
      simpa using hlen
    refine ⟨hso, ?_⟩
    have fin : ∀ (suf : List Message) (y : RawNode), jD () y = .ok rn' → y.raft.cfg = rn.raft.cfg →
        y.stepsOnAdvance = x3.raft.msgsAfterAppend.filter (fun m => m.to == x3.raft.cfg.id) ++ suf →
        (∀ z ∈ suf, (z.typ = .storageAppendResp ∨ z.typ = .storageApplyResp) ∧ z.to = rn.raft.cfg.id) →
        sync_SoaShape rn rn' := by
      intro suf y hj hy hs hz
      obtain ⟨d1, d2, d3, d4⟩ := hD y hy hj
      refine ⟨d1, d2, d3, suf, ?_, hz⟩
      rw [d4, hs, k2, k3]
    have happly : (newStorageApplyRespMsg x3.raft rd.committedEntries).typ = .storageApplyResp ∧
        (newStorageApplyRespMsg x3.raft rd.committedEntries).to = rn.raft.cfg.id := ⟨rfl, by rw [← k3]; rfl⟩
    split at h
    · obtain ⟨resp, hresp, h⟩ := bind_eq_ok.1 h
      obtain ⟨t1, t2⟩ := sync_storageAppendResp_shape _ _ _ hresp
      rw [k3] at t2
      split at h
      · refine fin [resp, newStorageApplyRespMsg x3.raft rd.committedEntries] _ h k3 (by simp) ?_
        intro z hz
        simp only [List.mem_cons, List.not_mem_nil, or_false] at hz
        rcases hz with rfl | rfl
        · exact ⟨Or.inl t1, t2⟩
        · exact ⟨Or.inr happly.1, happly.2⟩
      · refine fin [resp] _ h k3 rfl ?_
        intro z hz
        simp only [List.mem_cons, List.not_mem_nil, or_false] at hz
        subst hz
        exact ⟨Or.inl t1, t2⟩
    · split at h
      · refine fin [newStorageApplyRespMsg x3.raft rd.committedEntries] _ h k3 rfl ?_
        intro z hz
        simp only [List.mem_cons, List.not_mem_nil, or_false] at hz
        subst hz
        exact ⟨Or.inr happly.1, happly.2⟩
      · refine fin [] _ h k3 (by simp) ?_
        intro z hz; cases hz

theorem sync_ready_split (rn rn' : RawNode) (rd : Ready) (h : rn.ready = .ok (rd, rn')) :
    rn.readyWithoutAccept = .ok rd ∧ rn.acceptReady rd = .ok rn' := by
  unfold RawNode.ready at h
  obtain ⟨rd1, h1, h⟩ := bind_eq_ok.1 h
  obtain ⟨rn1, h2, h⟩ := bind_eq_ok.1 h
  simp only [pure, Except.pure, Except.ok.injEq, Prod.mk.injEq] at h
  obtain ⟨rfl, rfl⟩ := h
  exact ⟨h1, h2⟩

/-- **self-addressed acknowledgements wait for `Advance`** (sync mode).  `Ready()` on a node whose `msgs`
holds no self-addressed message (`send` refuses to queue one):

* no message of `rd.messages` is addressed to the node itself;
* the self-addressed pending promises (the leader's own MsgAppResp from `appendEntry`, the candidate's vote
  for itself) are exactly the prefix `msgsAfterAppend.filter (to = id)` of `rn'.stepsOnAdvance`, followed only
  by MsgStorageAppendResp / MsgStorageApplyResp addressed to the node; `msgs` and `msgsAfterAppend` are
  emptied — so these acknowledgements are stepped by `Advance` only, i.e. after the application persisted the
  `Ready`: a leader counts its own entries towards commit only after they are durable;
* the previous `Ready` had been advanced (`stepsOnAdvance = []`), otherwise `Ready()` panics. -/
theorem sync_self_acks_deferred (rn rn' : RawNode) (rd : Ready) (ha : rn.async = false)
    (h : rn.ready = .ok (rd, rn')) (hmsgs : ∀ x ∈ rn.raft.msgs, x.to ≠ rn.raft.cfg.id) :
    (∀ x ∈ rd.messages, x.to ≠ rn.raft.cfg.id) ∧
    (∀ x ∈ rn.raft.msgsAfterAppend, x.to = rn.raft.cfg.id → x ∈ rn'.stepsOnAdvance ∧ x ∉ rd.messages) ∧
    (∀ x ∈ rn.raft.msgsAfterAppend, x.to ≠ rn.raft.cfg.id → x ∈ rd.messages) ∧
    sync_SoaShape rn rn' ∧ rn.stepsOnAdvance = [] := by
  obtain ⟨hrd, hacc⟩ := sync_ready_split rn rn' rd h
  obtain ⟨hso, hshape⟩ := sync_acceptReady_soa rn rn' rd ha hacc
  have hm := C07R.sync_ready_messages rn rd ha hrd
  have hnot : ∀ x ∈ rd.messages, x.to ≠ rn.raft.cfg.id := by
    intro x hx
    rw [hm, List.mem_append] at hx
    rcases hx with hx | hx
    · exact hmsgs x hx
    · simpa using (List.mem_filter.mp hx).2
  refine ⟨hnot, ?_, ?_, hshape, hso⟩
  · intro x hx hto
    obtain ⟨_, _, _, suf, hs, _⟩ := hshape
    refine ⟨?_, fun hin => hnot x hin hto⟩
    rw [hs]
    exact List.mem_append_left _ (List.mem_filter.mpr ⟨hx, by simpa using hto⟩)
  · intro x hx hto
    rw [hm]
    exact List.mem_append_right _ (List.mem_filter.mpr ⟨hx, by simpa using hto⟩)

/-- **the acknowledgements `Advance` will step are covered by the persisted `Ready`**: every message of
`rn'.stepsOnAdvance` is a local storage acknowledgement or a pending promise covered by the storage after the
write (`sync_Covered`) -/
theorem sync_self_acks_covered (rn rn' : RawNode) (rd : Ready) (ha : rn.async = false)
    (h : rn.ready = .ok (rd, rn')) (hinv : PromisesWithinLog rn.raft) (hwf : rn.raft.log.WF)
    (hst : sync_Stable rn) {ms' : MemoryStorage} (hp : persistReady rn.raft.log.storage rd = .ok ms') :
    ∀ x ∈ rn'.stepsOnAdvance,
      (x.typ = .storageAppendResp ∨ x.typ = .storageApplyResp) ∨
      (x ∈ rn.raft.msgsAfterAppend ∧ x.to = rn.raft.cfg.id ∧ sync_Covered rn.raft.log ms' x) := by
  obtain ⟨hrd, hacc⟩ := sync_ready_split rn rn' rd h
  obtain ⟨_, _, _, _, suf, hs, hsuf⟩ := sync_acceptReady_soa rn rn' rd ha hacc
  intro x hx
  rw [hs, List.mem_append] at hx
  rcases hx with hx | hx
  · right
    obtain ⟨h1, h2⟩ := List.mem_filter.mp hx
    exact ⟨h1, by simpa using h2, sync_pending_covered rn rd hrd hinv hwf hst hp x h1⟩
  · left; exact (hsuf x hx).1

/-- `sync_ready_covers_promises` for `Ready()` (= `readyWithoutAccept` + `acceptReady`) -/
theorem sync_ready_covers_promises' (rn rn' : RawNode) (rd : Ready) (ha : rn.async = false)
    (h : rn.ready = .ok (rd, rn')) (hinv : PromisesWithinLog rn.raft) (hwf : rn.raft.log.WF)
    (hst : sync_Stable rn) {ms' : MemoryStorage} (hp : persistReady rn.raft.log.storage rd = .ok ms') :
    ∀ x ∈ rd.messages, sync_Covered rn.raft.log ms' x :=
  sync_ready_covers_promises rn rd ha (sync_ready_split rn rn' rd h).1 hinv hwf hst hp

/-- **the accepted snapshot is on stable storage after the write**: a pending snapshot becomes the storage's
snapshot (otherwise the stored snapshot is untouched) -/
theorem persistReady_snapshot (rn : RawNode) (rd : Ready) (hrd : rn.readyWithoutAccept = .ok rd)
    (hst : sync_Stable rn) {ms' : MemoryStorage} (hp : persistReady rn.raft.log.storage rd = .ok ms') :
    ms'.snapshot = rn.raft.log.unstable.snapshot.getD rn.raft.log.storage.snapshot := by
  obtain ⟨core, _⟩ := readyWithoutAccept_core rn rd hrd
  obtain ⟨ms1, ms2, h1, h2, rfl⟩ := (persistReady_ok_iff _ _ _).mp hp
  rw [core.snap, sync_rdSnap rn hst.snapIdle] at h1
  have e1 : (persistHard ms2 rd.hardState).snapshot = ms2.snapshot := by
    unfold persistHard
    split
    · split <;> rfl
    · rfl
  rw [e1, (persist_append_frame h2).2]
  cases hsn : rn.raft.log.unstable.snapshot with
  | none =>
    rw [hsn] at h1
    simp only [persistSnap, pure, Except.pure] at h1
    cases h1; rfl
  | some s =>
    rw [hsn] at h1
    simp only [persistSnap] at h1
    rw [if_neg (by simpa using hst.snapPos s hsn)] at h1
    rcases MemoryStorage.applySnapshot_spec rn.raft.log.storage s with ⟨_, herr⟩ | ⟨_, m, hm, _, _, hsnap, _⟩
    · rw [herr] at h1; cases h1
    · rw [hm] at h1
      simp only [pure, Except.pure] at h1
      cases h1
      exact hsnap

/-! ## non-vacuity -/

/-- follower 1 has just granted its vote to 2 in term 3 and accepted entries 3, 4 from leader 2: the storage
still holds term 2 / no vote / entries 1, 2; the MsgVoteResp and the MsgAppResp(index 4) are pending -/
def sync_exFollower : RawNode :=
  { raft := { cfg := { id := 1 }, term := 3, vote := 2, lead := 2,
              log := { storage := { hardState := some { term := 2, vote := 0, commit := 0 },
                                    ents := [{}, { term := 1, index := 1 }, { term := 1, index := 2 }] },
                       unstable := { entries := [{ term := 3, index := 3 }, { term := 3, index := 4 }],
                                     offset := 3, offsetInProgress := 3 },
                       committed := 2, applying := 2, applied := 2, maxApplyingEntsSize := 1000 },
              msgsAfterAppend := [{ typ := .voteResp, to := 2, «from» := 1, term := 3 },
                                  { typ := .appResp, to := 2, «from» := 1, term := 3, index := 4 }] },
    prevHard := { term := 2, vote := 0, commit := 0 } }

/-- its `Ready`: hard state (3, 2, 2), entries 3 and 4, both promises, `MustSync` -/
def sync_exRd : Ready :=
  { softState := some (2, .follower), hardState := some { term := 3, vote := 2, commit := 2 },
    entries := [{ term := 3, index := 3 }, { term := 3, index := 4 }],
    messages := [{ typ := .voteResp, to := 2, «from» := 1, term := 3 },
                 { typ := .appResp, to := 2, «from» := 1, term := 3, index := 4 }],
    mustSync := true }

/-- the storage after the write -/
def sync_exMs : MemoryStorage :=
  { hardState := some { term := 3, vote := 2, commit := 2 },
    ents := [{}, { term := 1, index := 1 }, { term := 1, index := 2 }, { term := 3, index := 3 },
             { term := 3, index := 4 }] }

theorem sync_exFollower_hyps : PromisesWithinLog sync_exFollower.raft ∧ sync_exFollower.raft.log.WF ∧
    sync_Stable sync_exFollower ∧ sync_SnapFresh sync_exFollower.raft.log :=
  ⟨⟨by decide, by decide, by decide, by decide⟩, by decide, by decide, by intro s hs; cases hs⟩

theorem sync_exFollower_ready : sync_exFollower.readyWithoutAccept = .ok sync_exRd := rfl
theorem sync_exFollower_persist : persistReady sync_exFollower.raft.log.storage sync_exRd = .ok sync_exMs := rfl

/-- before the write the storage backs neither promise (term 2 < 3, last index 2 < 4) … -/
example : persistTerm sync_exFollower.raft.log.storage = 2 ∧ sync_exFollower.raft.log.storage.lastIndex = 2 :=
  ⟨rfl, rfl⟩

/-- … after it, it backs both (`sync_ready_covers_promises` applies; the promises carry the stored term, so
the second disjunct "durably at a higher term" is not what makes it true) -/
example : (∀ x ∈ sync_exRd.messages, sync_Covered sync_exFollower.raft.log sync_exMs x) ∧
    persistTerm sync_exMs = 3 ∧ persistVote sync_exMs = 2 ∧ sync_exMs.lastIndex = 4 ∧
    sync_exMs.term 4 = .ok 3 ∧ sync_exFollower.raft.log.term 4 = .ok 3 ∧
    (∃ x ∈ sync_exRd.messages, PendApp x ∧ x.term = persistTerm sync_exMs ∧ x.index = 4) ∧
    (∃ x ∈ sync_exRd.messages, PendVote x ∧ x.term = persistTerm sync_exMs ∧ x.to = persistVote sync_exMs) :=
  ⟨sync_ready_covers_promises sync_exFollower sync_exRd rfl sync_exFollower_ready sync_exFollower_hyps.1
      sync_exFollower_hyps.2.1 sync_exFollower_hyps.2.2.1 sync_exFollower_persist,
    rfl, rfl, rfl, rfl, rfl, ⟨_, List.Mem.tail _ (List.Mem.head _), ⟨rfl, rfl⟩, rfl, rfl⟩,
    ⟨_, List.Mem.head _, ⟨rfl, rfl⟩, rfl, rfl⟩⟩

/-- `persistReady_succeeds` and `persistReady_abs` apply -/
example : ∃ ms', persistReady sync_exFollower.raft.log.storage sync_exRd = .ok ms' :=
  persistReady_succeeds _ _ sync_exFollower_ready sync_exFollower_hyps.2.1 sync_exFollower_hyps.2.2.1
    sync_exFollower_hyps.2.2.2
example : sync_exMs.abs = sync_exFollower.raft.log.abs :=
  (persistReady_abs _ _ sync_exFollower_ready sync_exFollower_hyps.2.1 sync_exFollower_hyps.2.2.1
    sync_exFollower_persist).2

/-- `sync_mustSync_when_backing_new`, case (a): the MsgAppResp(index 4) is beyond the stored last index 2 -/
example : sync_exRd.mustSync = true :=
  sync_mustSync_when_backing_new sync_exFollower sync_exRd rfl sync_exFollower_ready sync_exFollower_hyps.1
    sync_exFollower_hyps.2.1 sync_exFollower_hyps.2.2.1
    { typ := .appResp, to := 2, «from» := 1, term := 3, index := 4 } (List.Mem.tail _ (List.Mem.head _)) rfl
    (Or.inl ⟨⟨rfl, rfl⟩, by decide, Or.inl rfl⟩)

/-- case (b): the MsgVoteResp of term 3 while the storage holds term 2 -/
example : sync_exRd.mustSync = true :=
  sync_mustSync_when_backing_new sync_exFollower sync_exRd rfl sync_exFollower_ready sync_exFollower_hyps.1
    sync_exFollower_hyps.2.1 sync_exFollower_hyps.2.2.1
    { typ := .voteResp, to := 2, «from» := 1, term := 3 } (List.Mem.head _) rfl
    (Or.inr ⟨⟨rfl, rfl⟩, Or.inl (by decide)⟩)

/-- leader 1 of term 3 has appended entry 1 (`appendEntry` queued its own MsgAppResp, addressed to itself)
and a MsgApp for peer 2 -/
def sync_exLeader : RawNode :=
  { raft := { cfg := { id := 1 }, term := 3, vote := 1, lead := 1, state := .leader,
              log := { storage := { hardState := some { term := 3, vote := 1, commit := 0 } },
                       unstable := { entries := [{ term := 3, index := 1 }], offset := 1, offsetInProgress := 1 },
                       maxApplyingEntsSize := 1000 },
              msgs := [{ typ := .app, to := 2, «from» := 1, term := 3, entries := [{ term := 3, index := 1 }] }],
              msgsAfterAppend := [{ typ := .appResp, to := 1, «from» := 1, term := 3, index := 1 }] },
    prevSoft := (1, .leader),
    prevHard := { term := 3, vote := 1, commit := 0 } }

def sync_exLeaderOut : Ready × RawNode :=
  match sync_exLeader.ready with | .ok p => p | .error _ => default

theorem sync_exLeader_ready : sync_exLeader.ready = .ok (sync_exLeaderOut.1, sync_exLeaderOut.2) := rfl

theorem sync_exLeader_hyps : PromisesWithinLog sync_exLeader.raft ∧ sync_exLeader.raft.log.WF ∧
    sync_Stable sync_exLeader ∧ ∀ x ∈ sync_exLeader.raft.msgs, x.to ≠ sync_exLeader.raft.cfg.id :=
  ⟨⟨by decide, by decide, by decide, by decide⟩, by decide, by decide, by decide⟩

/-- `sync_self_acks_deferred` applies: the `Ready` carries only the MsgApp for peer 2 (and entry 1, to be
synced); the leader's own acknowledgement of index 1 waits in `stepsOnAdvance`, followed by the
MsgStorageAppendResp -/
example : (∀ x ∈ sync_exLeaderOut.1.messages, x.to ≠ 1) ∧
    sync_exLeaderOut.1.messages.map (fun m => (m.typ, m.to)) = [(.app, 2)] ∧
    sync_exLeaderOut.1.entries = [{ term := 3, index := 1 }] ∧ sync_exLeaderOut.1.mustSync = true ∧
    sync_exLeaderOut.2.stepsOnAdvance.map (fun m => (m.typ, m.to, m.index)) =
      [(.appResp, 1, 1), (.storageAppendResp, 1, 1)] ∧
    sync_exLeaderOut.2.raft.msgsAfterAppend = [] ∧ sync_SoaShape sync_exLeader sync_exLeaderOut.2 :=
  have h := sync_self_acks_deferred sync_exLeader _ _ rfl sync_exLeader_ready sync_exLeader_hyps.2.2.2
  ⟨h.1, rfl, rfl, rfl, rfl, rfl, h.2.2.2.1⟩

/-- `sync_self_acks_covered` applies: what `Advance` will step is covered by the persisted `Ready`; the
storage before the write did not hold entry 1 -/
example : ∃ ms', persistReady sync_exLeader.raft.log.storage sync_exLeaderOut.1 = .ok ms' ∧
    sync_exLeader.raft.log.storage.lastIndex = 0 ∧ ms'.lastIndex = 1 ∧ ms'.term 1 = .ok 3 ∧
    ∀ x ∈ sync_exLeaderOut.2.stepsOnAdvance,
      (x.typ = .storageAppendResp ∨ x.typ = .storageApplyResp) ∨
      (x ∈ sync_exLeader.raft.msgsAfterAppend ∧ x.to = sync_exLeader.raft.cfg.id ∧
        sync_Covered sync_exLeader.raft.log ms' x) :=
  ⟨_, rfl, rfl, rfl, rfl,
    sync_self_acks_covered sync_exLeader _ _ rfl sync_exLeader_ready sync_exLeader_hyps.1 sync_exLeader_hyps.2.1
      sync_exLeader_hyps.2.2.1 rfl⟩

/-- the snapshot case of `sync_ready_covers_promises` (`sync_snapNode`, RawSync.lean): the application installs
the snapshot (index 5, term 3); afterwards the storage backs MsgAppResp(index 5) — although `MustSync` was
`false` (`sync_snapshot_no_mustSync`) -/
example : ∃ rd ms', sync_snapNode.readyWithoutAccept = .ok rd ∧
    persistReady sync_snapNode.raft.log.storage rd = .ok ms' ∧
    (∀ x ∈ rd.messages, sync_Covered sync_snapNode.raft.log ms' x) ∧
    sync_snapNode.raft.log.storage.lastIndex = 0 ∧ ms'.lastIndex = 5 ∧ ms'.term 5 = .ok 3 ∧
    ms'.snapshot.index = 5 ∧ rd.mustSync = false :=
  ⟨_, _, rfl, rfl,
    sync_ready_covers_promises sync_snapNode _ rfl rfl sync_snapNode_inv.1 sync_snapNode_inv.2.1
      sync_snapNode_inv.2.2.1 rfl,
    rfl, rfl, rfl, rfl, rfl⟩

/-- the in-progress case of `sync_Stable`: entry 3 was handed out by an earlier `Ready` and persisted, then
(before `Advance`) a MsgApp appended entry 4: `offsetInProgress = 4 > offset = 3`.  The next `Ready` carries
only entry 4; after its write the storage holds the whole log and backs MsgAppResp(index 4). -/
def sync_exInProgress : RawNode :=
  { raft := { cfg := { id := 1 }, term := 3, vote := 2, lead := 2,
              log := { storage := { hardState := some { term := 3, vote := 2, commit := 2 },
                                    ents := [{}, { term := 1, index := 1 }, { term := 1, index := 2 },
                                             { term := 3, index := 3 }] },
                       unstable := { entries := [{ term := 3, index := 3 }, { term := 3, index := 4 }],
                                     offset := 3, offsetInProgress := 4 },
                       committed := 2, applying := 2, applied := 2, maxApplyingEntsSize := 1000 },
              msgsAfterAppend := [{ typ := .appResp, to := 2, «from» := 1, term := 3, index := 4 }] },
    prevSoft := (2, .follower),
    prevHard := { term := 3, vote := 2, commit := 2 } }

theorem sync_exInProgress_hyps : PromisesWithinLog sync_exInProgress.raft ∧ sync_exInProgress.raft.log.WF ∧
    sync_Stable sync_exInProgress ∧
    sync_exInProgress.raft.log.unstable.offset < sync_exInProgress.raft.log.unstable.offsetInProgress :=
  ⟨⟨by decide, by decide, by decide, by decide⟩, by decide, by decide, by decide⟩

example : ∃ rd ms', sync_exInProgress.readyWithoutAccept = .ok rd ∧
    persistReady sync_exInProgress.raft.log.storage rd = .ok ms' ∧
    rd.entries = [{ term := 3, index := 4 }] ∧ rd.mustSync = true ∧
    (∀ x ∈ rd.messages, sync_Covered sync_exInProgress.raft.log ms' x) ∧
    ms'.abs = sync_exInProgress.raft.log.abs ∧
    sync_exInProgress.raft.log.storage.lastIndex = 3 ∧ ms'.lastIndex = 4 ∧ ms'.term 4 = .ok 3 :=
  ⟨_, _, rfl, rfl, rfl, rfl,
    sync_ready_covers_promises sync_exInProgress _ rfl rfl sync_exInProgress_hyps.1 sync_exInProgress_hyps.2.1
      sync_exInProgress_hyps.2.2.1 rfl,
    (persistReady_abs sync_exInProgress _ rfl sync_exInProgress_hyps.2.1 sync_exInProgress_hyps.2.2.1 rfl).2,
    rfl, rfl, rfl⟩

end RaftVerif.Raw
