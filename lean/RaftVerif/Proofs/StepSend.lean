import RaftVerif.Proofs.StepFrame
/-!
# Proofs/StepSend — frame lemmas for the message-sending primitives of `Model/Raft.lean`

Every function here changes at most `msgs`, `msgsAfterAppend` and `trk.progress` (`SendFrame`), in
particular none of them touches `term`, `vote`, `log`, `lead`, `state`.
-/
namespace RaftVerif
namespace Raft

attribute [wp] setPr setLog abortLeaderTransfer reduceUncommittedSize progressIds sendTimeoutNow sendAppend

@[wp] theorem getPr_iff (id : Id) (s : Raft) (Q : Progress → Raft → Prop) :
    Spec (getPr id) s Q ↔ ∀ pr, s.trk.getProgress id = some pr → Q pr s := by
  unfold getPr
  simp only [wp]
  cases h : s.trk.getProgress id <;> simp [wp]

@[wp] theorem lastEntryID_iff (s : Raft) (Q : EntryID → Raft → Prop) :
    Spec lastEntryID s Q ↔ ∀ e, s.log.lastEntryID = .ok e → Q e s := by
  unfold lastEntryID
  simp only [wp]

/-- registered `SendFrame` call rules -/
syntax "sf_step" : tactic

theorem send_sf (m : Message) (s : Raft) : Spec (send m) s (fun _ s' => SendFrame s s') := by
  refine (send_spec m s).mono ?_
  rintro _ s' (⟨h, rfl⟩ | ⟨h, rfl⟩)
  · exact { SendFrame.refl s with maa := ListExt.snoc _ _ (by rw [stamped_typ]; exact h) }
  · exact { SendFrame.refl s with msgs := ListExt.snoc _ _ (by rw [stamped_typ]; exact h) }

macro_rules | `(tactic| sf_step) => `(tactic| rel_call (send_sf ..))

theorem maybeSendSnapshot_sf (to : Id) (pr : Progress) (s : Raft) :
    Spec (maybeSendSnapshot to pr) s (fun _ s' => SendFrame s s') := by
  unfold maybeSendSnapshot
  rel_start
  wp_auto [sf_step]

macro_rules | `(tactic| sf_step) => `(tactic| rel_call (maybeSendSnapshot_sf ..))

theorem maybeSendAppend_sf (to : Id) (b : Bool) (s : Raft) :
    Spec (maybeSendAppend to b) s (fun _ s' => SendFrame s s') := by
  unfold maybeSendAppend
  rel_start
  wp_auto [sf_step]

macro_rules | `(tactic| sf_step) => `(tactic| rel_call (maybeSendAppend_sf ..))

theorem sendAppendLoop_sf (fuel : Nat) (to : Id) (s : Raft) :
    Spec (sendAppendLoop fuel to) s (fun _ s' => SendFrame s s') := by
  induction fuel generalizing s with
  | zero => unfold sendAppendLoop; rel_start; wp_auto [sf_step]
  | succ n ih =>
    unfold sendAppendLoop
    rel_start
    wp_auto [first | sf_step | rel_call (ih ..)]

macro_rules | `(tactic| sf_step) => `(tactic| rel_call (sendAppendLoop_sf ..))

theorem sendHeartbeat_sf (to : Id) (ctx : Option Bytes) (s : Raft) :
    Spec (sendHeartbeat to ctx) s (fun _ s' => SendFrame s s') := by
  unfold sendHeartbeat
  rel_start
  wp_auto [sf_step]

macro_rules | `(tactic| sf_step) => `(tactic| rel_call (sendHeartbeat_sf ..))

theorem bcastAppend_sf (s : Raft) : Spec bcastAppend s (fun _ s' => SendFrame s s') := by
  unfold bcastAppend
  rel_start
  wp_auto [first | sf_step | rel_loop SendFrame]

macro_rules | `(tactic| sf_step) => `(tactic| rel_call (bcastAppend_sf ..))

theorem bcastHeartbeatWithCtx_sf (ctx : Option Bytes) (s : Raft) :
    Spec (bcastHeartbeatWithCtx ctx) s (fun _ s' => SendFrame s s') := by
  unfold bcastHeartbeatWithCtx
  rel_start
  wp_auto [first | sf_step | rel_loop SendFrame]

macro_rules | `(tactic| sf_step) => `(tactic| rel_call (bcastHeartbeatWithCtx_sf ..))

theorem bcastHeartbeat_sf (s : Raft) : Spec bcastHeartbeat s (fun _ s' => SendFrame s s') := by
  unfold bcastHeartbeat
  rel_start
  wp_auto [sf_step]

macro_rules | `(tactic| sf_step) => `(tactic| rel_call (bcastHeartbeat_sf ..))

end Raft
end RaftVerif
