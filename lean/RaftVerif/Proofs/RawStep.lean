import RaftVerif.Proofs.RawLog
import RaftVerif.Proofs.StepMain
/-!
# Proofs/RawStep — the functions of `Model/Raft.lean` below the message handlers keep `Prom`
-/
namespace RaftVerif.Raw
open RaftVerif Raft

/-- one log operation that neither lowers `committed` nor `lastIndex` and keeps `committed ≤ lastIndex` -/
structure LogGrow (l l' : RaftLog) : Prop where
  commit : l.committed ≤ l'.committed
  last : l.lastIndex ≤ l'.lastIndex
  cl : l.committed ≤ l.lastIndex → l'.committed ≤ l'.lastIndex

theorem LogGrow.refl (l : RaftLog) : LogGrow l l := ⟨Nat.le_refl _, Nat.le_refl _, id⟩
theorem LogGrow.of_commitTo {l l' : RaftLog} {t : Nat} (h : l.commitTo t = .ok l') : LogGrow l l' :=
  ⟨RaftLog.commitTo_committed h, Nat.le_of_eq (commitTo_last h).1.symm, (commitTo_last h).2⟩
theorem LogGrow.of_maybeCommit {l : RaftLog} {a : EntryID} {p : RaftLog × Bool} (h : l.maybeCommit a = .ok p) :
    LogGrow l p.1 :=
  ⟨RaftLog.maybeCommit_committed' h, Nat.le_of_eq (maybeCommit_last h).1.symm, (maybeCommit_last h).2⟩
theorem LogGrow.of_appliedTo {l l' : RaftLog} {i sz : Nat} (h : l.appliedTo i sz = .ok l') : LogGrow l l' :=
  ⟨RaftLog.appliedTo_committed' h, Nat.le_of_eq (appliedTo_last h).1.symm, (appliedTo_last h).2⟩

theorem added_of_eq {s x : Raft} (h : x.msgsAfterAppend = s.msgsAfterAppend) : added s x = [] := by
  simp [added, h]

/-- a state that differs from `s` in the log (by a `LogGrow` step) and in fields `Prom` does not mention -/
theorem Prom.of_log {s x : Raft} (h1 : x.cfg = s.cfg) (h2 : x.term = s.term) (h3 : x.vote = s.vote)
    (h5 : x.msgs = s.msgs) (h6 : x.msgsAfterAppend = s.msgsAfterAppend) (hl : LogGrow s.log x.log) :
    Prom s x := by
  refine ⟨Good.of_commit h1 h2 h3 hl.commit h5 h6, hl.cl, ?_, ?_, ?_⟩
  · intro _ y _ _ _ hy; exact Nat.le_trans hy hl.last
  · intro _ y hy; rw [added_of_eq h6] at hy; cases hy
  · intro y hy; rw [added_of_eq h6] at hy; cases hy

macro "loggrow_tac" : tactic => `(tactic| first
  | exact LogGrow.refl _
  | exact LogGrow.of_commitTo (by assumption)
  | exact LogGrow.of_maybeCommit (by assumption)
  | exact LogGrow.of_appliedTo (by assumption))

macro_rules | `(tactic| rel_fields) => `(tactic| exact Prom.of_log rfl rfl rfl rfl rfl (by loggrow_tac))

/-- registered `Prom` call rules -/
syntax "prom_step" : tactic

/-! ### `send` -/

theorem stamped_fields (s : Raft) (m : Message) :
    (stamped s m).typ = m.typ ∧ (stamped s m).reject = m.reject ∧ (stamped s m).index = m.index ∧
    (stamped s m).to = m.to ∧
    ((m.typ = .voteResp ∨ m.typ = .vote ∨ m.typ = .preVote ∨ m.typ = .preVoteResp) → (stamped s m).term = m.term) ∧
    (m.typ = .appResp → (stamped s m).term = s.term) := by
  obtain ⟨typ, to, frm, term, logTerm, index, entries, commit, vote, snapshot, reject, rejectHint, context, responses⟩ := m
  by_cases hf : frm = 0 <;> cases typ <;> simp [stamped, hf]

/-- `send m` keeps `Prom` provided a promise `m` is fine in the current state -/
theorem send_prom (m : Message) (s : Raft)
    (ha : CL s → m.typ = .appResp → m.reject = false → m.index ≤ s.log.lastIndex)
    (hv : m.typ = .voteResp → m.reject = false →
      m.term ≤ s.term ∧ (m.term = s.term → m.to = s.vote ∨ m.to = 0)) :
    Spec (send m) s (fun _ s' => Prom s s') := by
  refine ((send_spec m s).and (send_good m s)).mono ?_
  rintro _ s' ⟨(⟨_, rfl⟩ | ⟨_, rfl⟩), hg⟩
  · obtain ⟨f1, f2, f3, f4, f5, f6⟩ := stamped_fields s m
    have hadd : added s { s with msgsAfterAppend := s.msgsAfterAppend ++ [stamped s m] } = [stamped s m] := by
      simp [added]
    refine ⟨hg, id, fun _ _ _ _ _ h => h, ?_, ?_⟩
    · intro hcl x hx ⟨hx1, hx2⟩
      rw [hadd] at hx
      obtain rfl := List.mem_singleton.1 hx
      rw [f1] at hx1; rw [f2] at hx2
      refine ⟨Nat.le_of_eq (f6 hx1), fun _ => ?_⟩
      rw [f3]; exact ha hcl hx1 hx2
    · intro x hx ⟨hx1, hx2⟩
      rw [hadd] at hx
      obtain rfl := List.mem_singleton.1 hx
      rw [f1] at hx1; rw [f2] at hx2
      have h0 := hv hx1 hx2
      unfold VoteFine
      rw [f5 (Or.inl hx1), f4]
      exact h0
  · refine ⟨hg, id, fun _ _ _ _ _ h => h, ?_, ?_⟩
    · intro _ x hx; simp [added] at hx
    · intro x hx; simp [added] at hx

theorem typ_ne_of {t t' u : MsgType} (h : t = t') (hne : t' ≠ u) : t ≠ u := h ▸ hne

/-- side conditions of `send_prom` for a message whose type is a literal (or known from the context) -/
macro "send_side" : tactic => `(tactic| with_unfolding_all first
  | (intro h; exact MsgType.noConfusion h)
  | (intro _ h; exact MsgType.noConfusion h)
  | (intro h; simp only [*] at h; first | done | exact MsgType.noConfusion h)
  | (intro _ h; simp only [*] at h; first | done | exact MsgType.noConfusion h)
  | (intro _ h; exact Bool.noConfusion h)
  | (intro _ _ h; exact Bool.noConfusion h)
  | (intro hcl _ _; exact hcl)
  | (intro _ _ _; exact Nat.le_refl _)
  | (intro _ _ _; exact Nat.zero_le _))

macro_rules | `(tactic| prom_step) => `(tactic| rel_call (send_prom _ _ (by send_side) (by send_side)))
macro_rules | `(tactic| prom_step) => `(tactic| same_call (hasUnappliedConfChanges_same ..))
macro_rules | `(tactic| prom_step) => `(tactic| same_call (decodeCC_same ..))

theorem maybeSendSnapshot_prom (to : Id) (pr : Progress) (s : Raft) :
    Spec (maybeSendSnapshot to pr) s (fun _ s' => Prom s s') := by
  unfold maybeSendSnapshot
  rel_start
  wp_auto [prom_step]
macro_rules | `(tactic| prom_step) => `(tactic| rel_call (maybeSendSnapshot_prom ..))

theorem maybeSendAppend_prom (to : Id) (b : Bool) (s : Raft) :
    Spec (maybeSendAppend to b) s (fun _ s' => Prom s s') := by
  unfold maybeSendAppend
  rel_start
  wp_auto [prom_step]
macro_rules | `(tactic| prom_step) => `(tactic| rel_call (maybeSendAppend_prom ..))


theorem sendAppendLoop_prom (fuel : Nat) (to : Id) (s : Raft) :
    Spec (sendAppendLoop fuel to) s (fun _ s' => Prom s s') := by
  induction fuel generalizing s with
  | zero => unfold sendAppendLoop; rel_start; wp_auto [prom_step]
  | succ n ih =>
    unfold sendAppendLoop
    rel_start
    wp_auto [first | prom_step | rel_call (ih ..)]
macro_rules | `(tactic| prom_step) => `(tactic| rel_call (sendAppendLoop_prom ..))

theorem sendHeartbeat_prom (to : Id) (ctx : Option Bytes) (s : Raft) :
    Spec (sendHeartbeat to ctx) s (fun _ s' => Prom s s') := by
  unfold sendHeartbeat
  rel_start
  wp_auto [prom_step]
macro_rules | `(tactic| prom_step) => `(tactic| rel_call (sendHeartbeat_prom ..))

theorem bcastAppend_prom (s : Raft) : Spec bcastAppend s (fun _ s' => Prom s s') := by
  unfold bcastAppend
  rel_start
  wp_auto [first | prom_step | rel_loop Prom]
macro_rules | `(tactic| prom_step) => `(tactic| rel_call (bcastAppend_prom ..))

theorem bcastHeartbeatWithCtx_prom (ctx : Option Bytes) (s : Raft) :
    Spec (bcastHeartbeatWithCtx ctx) s (fun _ s' => Prom s s') := by
  unfold bcastHeartbeatWithCtx
  rel_start
  wp_auto [first | prom_step | rel_loop Prom]
macro_rules | `(tactic| prom_step) => `(tactic| rel_call (bcastHeartbeatWithCtx_prom ..))

theorem bcastHeartbeat_prom (s : Raft) : Spec bcastHeartbeat s (fun _ s' => Prom s s') := by
  unfold bcastHeartbeat
  rel_start
  wp_auto [prom_step]
macro_rules | `(tactic| prom_step) => `(tactic| rel_call (bcastHeartbeat_prom ..))

theorem maybeCommit_prom (s : Raft) : Spec maybeCommit s (fun _ s' => Prom s s') := by
  unfold maybeCommit
  rel_start
  wp_auto [prom_step]
macro_rules | `(tactic| prom_step) => `(tactic| rel_call (maybeCommit_prom ..))

theorem increaseUncommittedSize_prom (es : List Entry) (s : Raft) :
    Spec (increaseUncommittedSize es) s (fun _ s' => Prom s s') := by
  unfold increaseUncommittedSize
  rel_start
  wp_auto [prom_step]
macro_rules | `(tactic| prom_step) => `(tactic| rel_call (increaseUncommittedSize_prom ..))

theorem appliedToLog_prom (i sz : Nat) (s : Raft) : Spec (appliedToLog i sz) s (fun _ s' => Prom s s') := by
  unfold appliedToLog
  rel_start
  wp_auto [prom_step]
macro_rules | `(tactic| prom_step) => `(tactic| rel_call (appliedToLog_prom ..))

/-! ### term changes: nothing is queued, the log is untouched -/

/-- `Good`, same log, same `msgsAfterAppend` -/
theorem Prom.of_good {s x : Raft} (hg : Good s x) (hl : x.log = s.log)
    (h6 : x.msgsAfterAppend = s.msgsAfterAppend) : Prom s x := by
  refine ⟨hg, fun h => by unfold CL; rw [hl]; exact h, ?_, ?_, ?_⟩
  · intro _ y _ _ _ hy; rw [hl]; exact hy
  · intro _ y hy; rw [added_of_eq h6] at hy; cases hy
  · intro y hy; rw [added_of_eq h6] at hy; cases hy

theorem reset_prom (t : Nat) (s : Raft) (ht : s.term ≤ t) : Spec (reset t) s (fun _ s' => Prom s s') :=
  (reset_spec_st t s).mono fun _ _ ⟨h1, h2, _, _, h3, h4, h5, h6, _⟩ =>
    Prom.of_good (Good.of_reset ht h1 h2 h3 h4 h5 h6) h3 h6

/-- `becomeFollower` keeps `Prom`; the log and `msgsAfterAppend` are untouched -/
theorem becomeFollower_prom (t l : Nat) (s : Raft) (ht : s.term ≤ t) :
    Spec (becomeFollower t l) s (fun _ s' => Prom s s' ∧
      (s'.term = t ∧ s'.state = .follower ∧ s'.log = s.log ∧ s'.msgsAfterAppend = s.msgsAfterAppend)) :=
  (becomeFollower_spec t l s).mono fun _ _ ⟨h1, h2, _, hs, h3, h4, h5, h6⟩ =>
    ⟨Prom.of_good (Good.of_reset ht h1 h2 h3 h4 h5 h6) h3 h6, h1, hs, h3, h6⟩

theorem becomeCandidate_prom (s : Raft) :
    Spec becomeCandidate s (fun _ s' => Prom s s' ∧ (s'.term = s.term + 1 ∧ s'.vote = s.cfg.id)) :=
  ((becomeCandidate_spec s).and (becomeCandidate_good s)).mono
    fun _ _ ⟨⟨_, h1, h2, _, _, h3, _, _, h6, _⟩, hg⟩ => ⟨Prom.of_good hg h3 h6, h1, h2⟩

theorem becomePreCandidate_prom (s : Raft) : Spec becomePreCandidate s (fun _ s' => Prom s s') :=
  (becomePreCandidate_spec s).mono fun _ s' ⟨_, h⟩ => by subst h; rel_fields

macro_rules | `(tactic| prom_step) => `(tactic| rel_call (becomePreCandidate_prom ..))
macro_rules | `(tactic| prom_step) => `(tactic| rel_call (reset_prom _ _ (by pre_tac)))
macro_rules | `(tactic| prom_step) => `(tactic| rel_call' (becomeFollower_prom _ _ _ (by pre_tac)))
macro_rules | `(tactic| prom_step) => `(tactic| rel_call' (becomeCandidate_prom ..))


/-! ### the leader appends -/

theorem cloned_cases (s : Raft) (es : List Entry) :
    cloned s es = [] ∨ ∃ e0 rest, cloned s es = e0 :: rest ∧ e0.index = s.log.lastIndex + 1 := by
  cases es with
  | nil => left; simp [cloned]
  | cons a as => right; simp [cloned, List.zipIdx_cons]

/-- appending right after the last index -/
theorem append_grow {l : RaftLog} {ents : List Entry} {p : RaftLog × Nat} (h : l.append ents = .ok p)
    (h0 : ents = [] ∨ ∃ e0 rest, ents = e0 :: rest ∧ e0.index = l.lastIndex + 1) :
    LogGrow l p.1 ∧ p.2 = p.1.lastIndex := by
  rcases h0 with rfl | ⟨e0, rest, rfl, hi⟩
  · have h' : (.ok (l, l.lastIndex) : P (RaftLog × Nat)) = .ok p := h
    simp only [Except.ok.injEq] at h'
    have h := h'
    subst h
    exact ⟨LogGrow.refl _, rfl⟩
  · obtain ⟨a1, a2, _, a4⟩ := append_last h
    refine ⟨⟨Nat.le_of_eq a4.symm, by omega, fun hc => by omega⟩, by omega⟩

theorem appendEntry_prom (es : List Entry) (s : Raft) : Spec (appendEntry es) s (fun _ s' => Prom s s') := by
  refine ((appendEntry_spec_st es s).and (appendEntry_good es s)).mono ?_
  rintro ok s' ⟨(⟨_, rfl⟩ | ⟨_, p, hp, rfl⟩), hg⟩
  · exact Prom.refl _
  · obtain ⟨hl, hp2⟩ := append_grow hp (cloned_cases s es)
    obtain ⟨f1, f2, f3, f4, f5, f6⟩ := stamped_fields s { to := s.cfg.id, typ := .appResp, index := p.2 }
    refine ⟨hg, hl.cl, ?_, ?_, ?_⟩
    · intro _ y _ _ _ hy; exact Nat.le_trans hy hl.last
    · intro _ x hx _
      simp only [added, List.drop_left, List.mem_singleton] at hx
      subst hx
      refine ⟨Nat.le_of_eq (f6 rfl), fun _ => ?_⟩
      rw [f3]; exact Nat.le_of_eq hp2
    · intro x hx ⟨hx1, _⟩
      simp only [added, List.drop_left, List.mem_singleton] at hx
      subst hx
      rw [f1] at hx1; cases hx1
macro_rules | `(tactic| prom_step) => `(tactic| rel_call (appendEntry_prom ..))

theorem becomeLeader_prom (s : Raft) : Spec becomeLeader s (fun _ s' => Prom s s') := by
  unfold becomeLeader
  rel_start
  wp_auto [prom_step]
macro_rules | `(tactic| prom_step) => `(tactic| rel_call (becomeLeader_prom ..))


/-! ### campaigning: the candidate's vote for itself is queued after `vote := id` -/

structure PromTV (s s' : Raft) : Prop where
  prom : Prom s s'
  term : s'.term = s.term
  vote : s'.vote = s.vote
  cfg : s'.cfg = s.cfg

instance : RelOK PromTV :=
  ⟨fun s => ⟨Prom.refl s, rfl, rfl, rfl⟩,
   fun h1 h2 => ⟨h1.prom.trans h2.prom, h2.term.trans h1.term, h2.vote.trans h1.vote, h2.cfg.trans h1.cfg⟩⟩

theorem send_promTV (m : Message) (s : Raft)
    (ha : CL s → m.typ = .appResp → m.reject = false → m.index ≤ s.log.lastIndex)
    (hv : m.typ = .voteResp → m.reject = false →
      m.term ≤ s.term ∧ (m.term = s.term → m.to = s.vote ∨ m.to = 0)) :
    Spec (send m) s (fun _ s' => PromTV s s') :=
  ((send_prom m s ha hv).and (send_sf m s)).mono fun _ _ ⟨h1, h2⟩ => ⟨h1, h2.term, h2.vote, h2.cfg⟩

theorem campaign_prom (t : CampaignType) (s : Raft) : Spec (campaign t) s (fun _ s' => Prom s s') := by
  unfold campaign
  rel_start
  by_cases ht : t = .preElection
  · subst ht
    simp (config := {zeta := false}) only [wp, beq_self_eq_true, if_true]
    spec_zeta
    wp_auto [first | prom_step | rel_loop Prom]
  · have ht' : (t == CampaignType.preElection) = false := by simpa using ht
    simp (config := {zeta := false}) only [wp, ht', Bool.false_eq_true, if_false]
    spec_zeta
    rw [Spec.bind_iff]
    rel_call' (becomeCandidate_prom ..)
    simp (config := {zeta := false}) only [wp]
    rename_i mid hP hF
    obtain ⟨hF1, hF2⟩ := hF
    have hcfg : mid.cfg = s.cfg := hP.good.cfg
    refine (Spec.forIn_list _ _ _ (fun _ cur => PromTV mid cur) mid (RelOK.refl mid) ?_).mono
      (fun _ s' h => hP.trans h.prom)
    intro id _ _ cur hcur
    have e1 := hcur.term
    have e2 := hcur.vote
    simp (config := {zeta := false}) only [wp]
    refine ⟨fun hid => ?_, fun _ => ?_⟩
    · have hid' : id = mid.cfg.id := by simpa using hid
      rel_call (send_promTV _ _ (by send_side) (by
          intro _ _
          exact ⟨Nat.le_of_eq e1.symm, fun _ => Or.inl (by rw [e2, hF2, hid', hcfg])⟩))
      wp_auto [fail]
    · wp_auto [rel_call (send_promTV _ _ (by send_side) (by send_side))]
macro_rules | `(tactic| prom_step) => `(tactic| rel_call (campaign_prom ..))

theorem hup_prom (t : CampaignType) (s : Raft) : Spec (hup t) s (fun _ s' => Prom s s') := by
  unfold hup
  rel_start
  wp_auto [prom_step]
macro_rules | `(tactic| prom_step) => `(tactic| rel_call (hup_prom ..))

theorem responseToReadIndexReq_prom (req : Message) (i : Nat) (s : Raft) :
    Spec (responseToReadIndexReq req i) s (fun _ s' => Prom s s') := by
  unfold responseToReadIndexReq
  rel_start
  wp_auto [prom_step]
macro_rules | `(tactic| prom_step) => `(tactic| rel_call (responseToReadIndexReq_prom ..))

theorem responseToReadIndexReq_typ (req : Message) (i : Nat) (s : Raft) :
    Spec (responseToReadIndexReq req i) s (fun res _ => ∀ resp, res = some resp → resp.typ = .readIndexResp) := by
  unfold responseToReadIndexReq
  simp only [wp]
  split
  · simp only [wp]
  · simp only [wp]
    refine ⟨fun _ => by simp, fun _ => ?_⟩
    intro resp h
    simp only [Option.some.injEq] at h
    subst h; rfl

theorem sendReadIndexResp_prom (req : Message) (i : Nat) (s : Raft) :
    Spec (sendReadIndexResp req i) s (fun _ s' => Prom s s') := by
  unfold sendReadIndexResp
  rel_start
  simp (config := {zeta := false}) only [wp]
  rel_call' ((responseToReadIndexReq_prom req i _).and (responseToReadIndexReq_typ req i _))
  rename_i res mid hP hF
  cases res with
  | none => wp_auto [fail]
  | some resp =>
    have ht := hF resp rfl
    wp_auto [rel_call (send_prom _ _ (by intro _ h; rw [ht] at h; cases h) (by intro h; rw [ht] at h; cases h))]
macro_rules | `(tactic| prom_step) => `(tactic| rel_call (sendReadIndexResp_prom ..))

theorem sendMsgReadIndexResponse_prom (m : Message) (s : Raft) :
    Spec (sendMsgReadIndexResponse m) s (fun _ s' => Prom s s') := by
  unfold sendMsgReadIndexResponse
  rel_start
  wp_auto [prom_step]
macro_rules | `(tactic| prom_step) => `(tactic| rel_call (sendMsgReadIndexResponse_prom ..))

theorem releasePendingReadIndexMessages_prom (s : Raft) :
    Spec releasePendingReadIndexMessages s (fun _ s' => Prom s s') := by
  unfold releasePendingReadIndexMessages
  rel_start
  wp_auto [first | prom_step | rel_loop Prom]
macro_rules | `(tactic| prom_step) => `(tactic| rel_call (releasePendingReadIndexMessages_prom ..))

theorem handleHeartbeat_prom (m : Message) (s : Raft) : Spec (handleHeartbeat m) s (fun _ s' => Prom s s') := by
  unfold handleHeartbeat
  rel_start
  wp_auto [prom_step]
macro_rules | `(tactic| prom_step) => `(tactic| rel_call (handleHeartbeat_prom ..))

theorem switchToConfig_prom (cfg : TrackerConfig) (trk : ProgressMap) (s : Raft) :
    Spec (switchToConfig cfg trk) s (fun _ s' => Prom s s') := by
  unfold switchToConfig
  rel_start
  wp_auto [first | prom_step | rel_loop Prom]
macro_rules | `(tactic| prom_step) => `(tactic| rel_call (switchToConfig_prom ..))

theorem applyConfChange_prom (cc : ConfChangeV2) (s : Raft) :
    Spec (applyConfChange cc) s (fun _ s' => Prom s s') := by
  unfold applyConfChange
  rel_start
  wp_auto [prom_step]

end RaftVerif.Raw
