import RaftVerif.Proofs.SimHb
import RaftVerif.Proofs.SimDur
/-!
# Proofs/SimHbD — the heartbeat steps with the durable frame exposed (`RaftSimD`): copies of the Spec-side
theorems of `SimHb.lean` with the stronger conclusion
-/
namespace RaftVerif.Sim
open Refine Raft Live
set_option linter.unusedSimpArgs false

/-- **MsgHeartbeat at the node's own term**: ignored by a leader; Spec `handleHb` otherwise -/
theorem simD_hb_same {val : Val} {voters : List Id} {n : Nat} {s : Spec.State} {r r' : Raft} {m : Message}
    {e : Option StepErr} {fuel : Nat}
    (hinv : RaftInv val voters n r (s.nodes n) s.msgs) (hreach : Spec.Reachable (cfgOf voters) s)
    (ht : m.typ = .heartbeat) (hterm : m.term = r.term) (hto : m.to = n) (hin : NetOK val s.msgs m)
    (h : (Raft.step (fuel + 1) m).run r = .ok (e, r')) : RaftSimD val voters n s r' := by
  have _ := hreach
  unfold NetOK at hin
  simp only [ht] at hin
  obtain ⟨ht0, hctx, hsoup⟩ := hin
  by_cases hs : r.state = .leader
  · have : r' = r := by
      rw [step_same_term_dispatch fuel m r (Or.inr hterm) (by rw [ht]; decide)] at h
      unfold dispatch at h
      rw [hs] at h
      simp only at h
      rw [hb_stepLeader_run fuel m r ht] at h
      injection h with h; injection h with _ h; exact h.symm
    subst this
    exact RaftSimD.refl hinv
  · obtain ⟨mid, hstm, hlog, hrun⟩ := hb_step_mid hinv.st ht hterm hs h
    have hwf' : mid.log.WF := by rw [hlog]; exact hinv.wf
    obtain ⟨_, hr'⟩ := (handleHeartbeat_refine m mid hwf').elim hrun
    have hst' : RaftStatic voters n r' := by rw [hr']; exact hstm.congr rfl rfl rfl rfl rfl rfl
    obtain ⟨_, hf, hle, hl, hmsgs, hmaa⟩ := step_hb_refine fuel m r r' e ht hterm hs hinv.wf h
    have hen := handleHb_enabled (m := m) val (cfgOf voters) hinv.abs hs hinv.wf hinv.unc hle
      (by rw [← hterm, ← hto]; exact hsoup)
    have habs := hb_abs val hinv.abs hf hl
    refine ⟨[.handleHb n r.term m.commit], _, .single hen, by simp [Spec.Action.actor], ?_⟩
    have hm : (Spec.apply s (.handleHb n r.term m.commit)).msgs = s.msgs := rfl
    have hn := handleHb_nodes s n r.term m.commit
    rw [hn] at habs
    rw [hm, hn]
    refine ⟨?_, rfl, fun _ _ _ hx => hx⟩
    have hl' : absLog val r' = absLog val r := by unfold absLog; rw [hl]; rfl
    have hnl : r'.state ≠ .leader := by rw [hf.state]; intro hh; cases hh
    have hnc : r'.state ≠ .candidate := by rw [hf.state]; intro hh; cases hh
    exact {
      abs := habs
      st := hst'
      wf := by
        rw [hl]
        exact wf_commit hinv.wf (Nat.le_max_left _ _) (Nat.max_le.2 ⟨hinv.wf.committedLeLast, hle⟩)
      unc := by rw [hl]; exact hinv.unc.of_abs rfl rfl
      leadInv := fun hh => absurd hh hnl
      candVote := fun hh => absurd hh hnc
      termPos := fun hh => absurd hf.state hh
      logLe := by rw [hl', hf.term]; exact hinv.logLe
      candLt := fun hh => absurd hh hnc
      pend := hinv.pend
      durV := hinv.durV
      durA := hinv.durA
      out := by
        rw [hmsgs]
        intro x hx
        rcases List.mem_append.1 hx with hx | hx
        · exact hinv.out x hx
        · simp only [List.mem_singleton] at hx
          subst hx
          simp only [NetOK, hbRespMsg]
          exact ⟨by rw [← hterm]; exact ht0, hctx⟩
      prom := by rw [hmaa]; exact hinv.prom
      rvTerm := by rw [hf.term]; exact hinv.rvTerm
      rvCov := fun hh => absurd hh hnc
      votes := fun hh => absurd hh hnc
      selfVote := fun hh => absurd hh hnc
      matchO := fun hh => absurd hh hnl
      matchS := fun hh => absurd hh hnl }

/-- **one `maybeSendAppend` of a leader** is simulated by at most one Spec `sendApp` -/
theorem simD_maybeSendAppend {val : Val} {voters : List Id} {n : Nat} {s : Spec.State} {r r' : Raft} {to : Id}
    {b res : Bool} (hinv : RaftInv val voters n r (s.nodes n) s.msgs) (hs : r.state = .leader)
    (h : (Raft.maybeSendAppend to b).run r = .ok (res, r')) : RaftSimD val voters n s r' := by
  have hsf := (maybeSendAppend_sf to b r).elim h
  have hpk := (maybeSendAppend_pk to b r).elim h
  have hso := (maybeSendAppend_sendsOK val to b r hinv.wf hinv.unc).elim h
  have f : HbFrame r r' := HbFrame.of_sf hsf hpk hso.maa
  rcases maybeSendAppend_refine val to b r r' res hinv.wf hinv.unc h with hm | ⟨x, hm, hx⟩ | ⟨x, hm, _, _, hx⟩
  · exact RaftSimD.refl (hinv.of_hbFrame f (by rw [hm]; exact hinv.out))
  · refine RaftSimD.refl (hinv.of_hbFrame f ?_)
    rw [hm]; intro y hy
    rcases List.mem_append.1 hy with hy | hy
    · exact hinv.out y hy
    · simp only [List.mem_singleton] at hy; subst hy
      simp only [NetOK, hx]
  · obtain ⟨hen, hmsgs, hnodes⟩ := sendApp_abs val (cfgOf voters) hinv.abs hs hx
    refine ⟨[.sendApp n x.index x.entries.length x.commit], _, .single hen, by simp [Spec.Action.actor], ?_⟩
    rw [hmsgs, hnodes]
    have hrv : ∀ t lt li, Spec.Msg.reqVote t n lt li ∈ absApp val x :: s.msgs →
        Spec.Msg.reqVote t n lt li ∈ s.msgs := by
      intro t lt li hy
      rcases List.mem_cons.1 hy with hy | hy
      · unfold absApp at hy; cases hy
      · exact hy
    refine ⟨?_, rfl, hrv⟩
    have hinv1 : RaftInv val voters n r (s.nodes n) (absApp val x :: s.msgs) :=
      hinv.frame (fun y hy => List.mem_cons_of_mem _ hy) (by
        intro t lt li hy
        rcases List.mem_cons.1 hy with hy | hy
        · unfold absApp at hy; cases hy
        · exact hy)
    refine hinv1.of_hbFrame f ?_
    rw [hm]; intro y hy
    rcases List.mem_append.1 hy with hy | hy
    · exact hinv1.out y hy
    · rw [List.mem_singleton.1 hy]
      simp only [NetOK, hx.typ]
      refine ⟨?_, List.mem_cons_self, hx.contig, ?_⟩
      · rw [hx.term]; exact hinv.termPos (by rw [hs]; intro hh; cases hh)
      · intro e he
        have h1 : absEnt val e ∈ x.entries.map (absEnt val) := List.mem_map_of_mem he
        rw [hx.ents] at h1
        have h2 := hinv.logLe _ (List.mem_of_mem_drop (List.mem_of_mem_take h1))
        rw [hx.term]; exact h2

/-- **MsgHeartbeatResp at the node's own term**: ignored by a non-leader and from an unknown peer; a leader
un-pauses the sender and possibly sends it one MsgApp (Spec `sendApp`) -/
theorem simD_hbResp_same {val : Val} {voters : List Id} {n : Nat} {s : Spec.State} {r r' : Raft} {m : Message}
    {e : Option StepErr} {fuel : Nat}
    (hinv : RaftInv val voters n r (s.nodes n) s.msgs) (hreach : Spec.Reachable (cfgOf voters) s)
    (ht : m.typ = .heartbeatResp) (hterm : m.term = r.term) (hin : NetOK val s.msgs m)
    (h : (Raft.step (fuel + 1) m).run r = .ok (e, r')) : RaftSimD val voters n s r' := by
  have _ := hreach
  unfold NetOK at hin
  simp only [ht] at hin
  obtain ⟨_, hctx⟩ := hin
  have hign : ∀ {x : Option StepErr}, .ok (x, r) = (Except.ok (e, r') : Except String _) →
      RaftSimD val voters n s r' := by
    intro x hx
    injection hx with hx; injection hx with _ hx; subst hx
    exact RaftSimD.refl hinv
  by_cases hs : r.state = .leader
  · rw [step_leader_dispatch fuel m r hs (Or.inr hterm) (Or.inr (Or.inr (Or.inr (Or.inl ht))))] at h
    cases hg : r.trk.getProgress m.from with
    | none =>
      rw [stepLeader_noProgress_run fuel m r (Or.inr (Or.inr (Or.inl ht))) hg] at h
      exact hign h
    | some pr =>
      have f : HbFrame r (hbMid r m pr) :=
        ⟨rfl, rfl, rfl, rfl, rfl, rfl, rfl, rfl, rfl, rfl, rfl, rfl, PrM.setProgress r m.from pr _ hg rfl rfl⟩
      have hmid : RaftInv val voters n (hbMid r m pr) (s.nodes n) s.msgs := hinv.of_hbFrame f hinv.out
      rcases hbResp_stepLeader_inv fuel m r r' e pr ht hctx hg h with rfl | ⟨b, hb⟩
      · exact RaftSimD.refl hmid
      · exact simD_maybeSendAppend hmid hs hb
  · rw [step_same_term_dispatch fuel m r (Or.inr hterm) (by rw [ht]; decide)] at h
    unfold dispatch at h
    cases hstt : r.state with
    | leader => exact absurd hstt hs
    | candidate => rw [hstt] at h; simp only at h; rw [hbResp_stepCandidate_run fuel m r ht] at h; exact hign h
    | preCandidate => rw [hstt] at h; simp only at h; rw [hbResp_stepCandidate_run fuel m r ht] at h; exact hign h
    | follower => rw [hstt] at h; simp only at h; rw [hbResp_stepFollower_run fuel m r ht] at h; exact hign h

/-- **one `sendHeartbeat` of a leader** to another node is Spec `sendHb` -/
theorem simD_sendHeartbeat {val : Val} {voters : List Id} {n : Nat} {s : Spec.State} {r r' : Raft} {to : Id}
    (hinv : RaftInv val voters n r (s.nodes n) s.msgs) (hs : r.state = .leader) (hto : to ≠ n)
    (h : (Raft.sendHeartbeat to none).run r = .ok ((), r')) :
    RaftSimD val voters n s r' ∧ r'.state = .leader ∧ r'.cfg = r.cfg := by
  obtain ⟨pr, hg, rfl⟩ := sendHeartbeat_exact h
  refine ⟨?_, hs, rfl⟩
  generalize hc : min pr.match_ r.log.committed = c
  have hc1 : c ≤ pr.match_ := by rw [← hc]; exact Nat.min_le_left _ _
  have hc2 : c ≤ r.log.committed := by rw [← hc]; exact Nat.min_le_right _ _
  have hen : Spec.enabled (cfgOf voters) s (.sendHb n to c) := by
    refine ⟨by rw [hinv.abs.role, hs]; rfl, by rw [hinv.abs.commit]; exact hc2, ?_⟩
    by_cases h0 : c = 0
    · exact Or.inl h0
    · right
      rw [hinv.abs.term]
      exact hinv.matchO hs to pr c hto hg (Nat.pos_of_ne_zero h0) hc1
  refine ⟨[.sendHb n to c], _, .single hen, by simp [Spec.Action.actor], ?_⟩
  have hm : (Spec.apply s (.sendHb n to c)).msgs = Spec.Msg.hb r.term to c :: s.msgs := by
    show Spec.Msg.hb (s.nodes n).vol.term to c :: s.msgs = _
    rw [hinv.abs.term]
  have hn : (Spec.apply s (.sendHb n to c)).nodes = s.nodes := rfl
  rw [hm, hn]
  have hrv : ∀ t lt li, Spec.Msg.reqVote t n lt li ∈ Spec.Msg.hb r.term to c :: s.msgs →
      Spec.Msg.reqVote t n lt li ∈ s.msgs := by
    intro t lt li hy
    rcases List.mem_cons.1 hy with hy | hy
    · cases hy
    · exact hy
  refine ⟨?_, rfl, hrv⟩
  have hinv1 : RaftInv val voters n r (s.nodes n) (Spec.Msg.hb r.term to c :: s.msgs) :=
    hinv.frame (fun y hy => List.mem_cons_of_mem _ hy) (by
      intro t lt li hy
      rcases List.mem_cons.1 hy with hy | hy
      · cases hy
      · exact hy)
  have f : HbFrame r { r with msgs := r.msgs ++ [hbMsgOut r to c],
                              trk := r.trk.setProgress to { pr with sentCommit := c } } :=
    ⟨rfl, rfl, rfl, rfl, rfl, rfl, rfl, rfl, rfl, rfl, rfl, rfl,
     (PrM.setProgress r to pr { pr with sentCommit := c } hg rfl rfl).congr rfl⟩
  refine hinv1.of_hbFrame f ?_
  intro y hy
  rcases List.mem_append.1 hy with hy | hy
  · exact hinv1.out y hy
  · rw [List.mem_singleton.1 hy]
    simp only [NetOK, hbMsgOut]
    exact ⟨hinv.termPos (by rw [hs]; intro hh; cases hh), trivial, List.mem_cons_self⟩

/-- **a round of heartbeats** is one Spec `sendHb` per peer -/
theorem simD_bcastHeartbeat {val : Val} {voters : List Id} {n : Nat} {s : Spec.State} {r : Raft}
    (hinv : RaftInv val voters n r (s.nodes n) s.msgs) (hs : r.state = .leader) :
    Spec Raft.bcastHeartbeat r (fun _ r' => RaftSimD val voters n s r') := by
  have hctx : r.readOnly.heartbeatCtx = none := by simp [ReadOnly.heartbeatCtx, hinv.st.ro]
  unfold Raft.bcastHeartbeat Raft.bcastHeartbeatWithCtx Raft.progressIds
  simp only [wp]
  rw [hctx]
  refine (Spec.forIn_list _ _ _ (fun _ r1 => RaftSimD val voters n s r1 ∧ r1.state = .leader ∧ r1.cfg = r.cfg) r
    ⟨RaftSimD.refl hinv, hs, rfl⟩ ?_).mono (fun _ _ h => h.1)
  intro id _ u mid ⟨hsim, hsl, hcfg⟩
  simp only [wp]
  refine ⟨fun hne => ?_, fun _ => ⟨hsim, hsl, hcfg⟩⟩
  have hidn : id ≠ n := by
    rw [← hinv.st.id]
    simpa using hne
  obtain ⟨as, s1, hrun, hact, hinv1, hd1, hrv1⟩ := hsim
  rw [Spec.iff_runs]
  intro u' r2 hr2
  obtain ⟨h1, h2, h3⟩ := simD_sendHeartbeat hinv1 hsl hidn hr2
  exact ⟨RaftSimD.trans hrun hact hd1 hrv1 h1, h2, h3.trans hcfg⟩

/-- **tick of a leader** (`tickHeartbeat`): the timers advance; when the heartbeat timeout fires, one Spec
`sendHb` per peer -/
theorem simD_tick_leader {val : Val} {voters : List Id} {n : Nat} {s : Spec.State} {r r' : Raft}
    (hinv : RaftInv val voters n r (s.nodes n) s.msgs) (hreach : Spec.Reachable (cfgOf voters) s)
    (hs : r.state = .leader) (h : Raft.tick.run r = .ok ((), r')) : RaftSimD val voters n s r' := by
  have _ := hreach
  rw [tick_leader_run r hs] at h
  obtain ⟨ra, ⟨he, ee, rfl⟩, hcase⟩ := tickHeartbeat_leader_inv r r' hs hinv.st.xfer h
  have hra : RaftInv val voters n { r with heartbeatElapsed := he, electionElapsed := ee } (s.nodes n) s.msgs :=
    hinv.congr rfl rfl rfl rfl rfl rfl rfl rfl rfl rfl rfl rfl
  rcases hcase with ⟨rb, hrb, hcase⟩ | ⟨r1, hbf, rfl⟩
  · have hrb' : RaftInv val voters n rb (s.nodes n) s.msgs ∧ rb.state = .leader := by
      rcases hrb with rfl | rfl
      · exact ⟨hra, hs⟩
      · exact ⟨hra.clearRA, hs⟩
    rcases hcase with rfl | ⟨res, hb⟩
    · exact RaftSimD.refl hrb'.1
    · obtain ⟨u, hu⟩ := stepLeader_beat_bcast _ _ _ _ _ rfl hb
      exact (simD_bcastHeartbeat hrb'.1 hrb'.2).elim hu
  · obtain ⟨s1, hrun, hmsgs, hdur, hinv1, _⟩ := sim_stepDown hra hbf
    exact RaftSimD.trans hrun (by simp [Spec.Action.actor]) hdur
      (fun t lt li hx => by rw [hmsgs] at hx; exact hx) (RaftSimD.refl hinv1.clearRA)

end RaftVerif.Sim
