import RaftVerif.Proofs.LogInv
/-!
# Proofs/LogUnstable — `unstable` (log_unstable.go)

Helper lemmas for C18 (unstable part).  Core Lean only.
-/
namespace RaftVerif
theorem Contig.filter_ge {n : Nat} {es : List Entry} (h : Contig n es) (b : Nat) :
    es.filter (fun e => decide (b ≤ e.index)) = es.drop (b - n) := by
  induction es generalizing n with
  | nil => simp
  | cons e es ih =>
    obtain ⟨h0, h1⟩ := contig_cons.mp h
    have := ih h1
    by_cases hb : b ≤ n
    · have e1 : b - n = 0 := by omega
      have e2 : b - (n + 1) = 0 := by omega
      rw [e2] at this
      rw [e1, List.filter_cons, if_pos (by simp; omega), this]; rfl
    · have e1 : b - n = (b - (n + 1)) + 1 := by omega
      rw [e1, List.filter_cons, if_neg (by simp; omega), this]; rfl

namespace Unstable

/-- the unstable entry at index `i` -/
def entry? (u : Unstable) (i : Nat) : Option Entry :=
  if u.offset ≤ i then u.entries[i - u.offset]? else none

theorem entry?_eq_some_iff {u : Unstable} (h : u.WF) (i : Nat) (e : Entry) :
    u.entry? i = some e ↔ e ∈ u.entries ∧ e.index = i := by
  unfold entry?
  constructor
  · intro he
    split at he
    · have := h.contig.getElem? he
      exact ⟨List.mem_of_getElem? he, by omega⟩
    · cases he
  · rintro ⟨hm, hi⟩
    obtain ⟨k, hk, rfl⟩ := List.getElem_of_mem hm
    have := h.contig k hk
    rw [if_pos (by omega)]
    have : i - u.offset = k := by omega
    rw [this]; simp [hk]

theorem maybeTerm_of_ge {u : Unstable} (h : u.WF) {i : Nat} (hi : u.offset ≤ i) :
    u.maybeTerm i = (u.entry? i).map (·.term) := by
  unfold maybeTerm maybeLastIndex entry?
  rw [if_neg (by omega), if_pos hi]
  by_cases hl : u.entries.length = 0
  · have hnone : u.entries[i - u.offset]? = none := by
      rw [List.getElem?_eq_none_iff]; omega
    rw [hnone]
    have hs := h.snap
    cases hsn : u.snapshot with
    | none => simp [hl]
    | some s =>
      rw [hsn] at hs
      simp only at hs
      simp only [hl, bne_self_eq_false, Bool.false_eq_true, ↓reduceIte, Option.map_some, Option.map_none]
      rw [if_pos (by omega)]
  · simp only [bne_iff_ne, ne_eq, hl, not_false_eq_true, ↓reduceIte]
    split
    · rename_i hgt
      have hnone : u.entries[i - u.offset]? = none := by
        rw [List.getElem?_eq_none_iff]; omega
      rw [hnone]; rfl
    · rfl

theorem maybeTerm_of_lt (u : Unstable) {i : Nat} (hi : i < u.offset) :
    u.maybeTerm i = match u.snapshot with
      | some s => if s.index = i then some s.term else none
      | none => none := by
  unfold maybeTerm
  rw [if_pos hi]
  cases u.snapshot with
  | none => rfl
  | some s => simp only [beq_iff_eq]

/-! ### truncateAndAppend -/

/-- the state after `truncateAndAppend` of entries starting at `fromIndex ≤ next`: everything at
`fromIndex` and above is replaced; `offset` and `offsetInProgress` are lowered to `fromIndex` if they
were above it -/
def overwritten (u : Unstable) (ents : List Entry) (fromIndex : Nat) : Unstable :=
  { u with offset := min u.offset fromIndex,
           entries := u.entries.take (fromIndex - u.offset) ++ ents,
           offsetInProgress := min u.offsetInProgress fromIndex }

/-- **truncateAndAppend**: the three Go cases are one abstract operation "truncate from `fromIndex`,
then append"; a gap after the last unstable index panics; an empty argument panics -/
theorem truncateAndAppend_spec {u : Unstable} (h : u.WF) (e0 : Entry) (rest : List Entry) :
    (e0.index ≤ u.next ∧ u.truncateAndAppend (e0 :: rest) = .ok (u.overwritten (e0 :: rest) e0.index)) ∨
    (u.next < e0.index ∧ u.truncateAndAppend (e0 :: rest) = .error "unstable.slice: out of bound") := by
  have h1 := h.inProgLo
  have h2 := h.inProgHi
  unfold truncateAndAppend Unstable.slice next overwritten
  simp only []
  by_cases hA : e0.index = u.offset + u.entries.length
  · left
    refine ⟨by omega, ?_⟩
    rw [if_pos (by simp [hA])]
    have e1 : min u.offset e0.index = u.offset := by omega
    have e2 : min u.offsetInProgress e0.index = u.offsetInProgress := by omega
    have e3 : e0.index - u.offset = u.entries.length := by omega
    rw [e1, e2, e3, List.take_length]; rfl
  · rw [if_neg (by simp [hA])]
    by_cases hB : e0.index ≤ u.offset
    · left
      refine ⟨by omega, ?_⟩
      rw [if_pos hB]
      have e1 : min u.offset e0.index = e0.index := by omega
      have e2 : min u.offsetInProgress e0.index = e0.index := by omega
      have e3 : e0.index - u.offset = 0 := by omega
      rw [e1, e2, e3]; rfl
    · rw [if_neg hB, if_neg (by omega)]
      by_cases hC : e0.index > u.offset + u.entries.length
      · right
        refine ⟨hC, ?_⟩
        rw [if_pos (by simp [hC])]; rfl
      · left
        refine ⟨by omega, ?_⟩
        rw [if_neg (by simp; omega)]
        have e1 : min u.offset e0.index = u.offset := by omega
        rw [e1]
        simp [bind, Except.bind, pure, Except.pure]

theorem truncateAndAppend_nil (u : Unstable) :
    u.truncateAndAppend [] = .error "unstable.truncateAndAppend: empty" := rfl

/-- the invariant is kept when the new entries are contiguous and do not reach below a pending snapshot -/
theorem overwritten_wf {u : Unstable} (h : u.WF) {e0 : Entry} {rest : List Entry}
    (hc : Contig e0.index (e0 :: rest)) (hle : e0.index ≤ u.next)
    (hs : u.snapshot.isSome → u.offset ≤ e0.index) : (u.overwritten (e0 :: rest) e0.index).WF := by
  have h1 := h.inProgLo
  have h2 := h.inProgHi
  unfold next at hle
  refine ⟨?_, ?_, ?_, ?_⟩
  · simp only [overwritten]
    rw [contig_append]
    by_cases hB : e0.index ≤ u.offset
    · have e1 : min u.offset e0.index = e0.index := by omega
      have e3 : e0.index - u.offset = 0 := by omega
      rw [e1, e3]
      exact ⟨by simp [Contig.nil], by simpa using hc⟩
    · have e1 : min u.offset e0.index = u.offset := by omega
      rw [e1]
      refine ⟨h.contig.take _, ?_⟩
      have : u.offset + (u.entries.take (e0.index - u.offset)).length = e0.index := by
        simp only [List.length_take]; omega
      rw [this]; exact hc
  · simp only [overwritten]; omega
  · simp only [overwritten, List.length_append, List.length_take, List.length_cons]; omega
  · have hsn := h.snap
    simp only [overwritten]
    cases hsnap : u.snapshot with
    | none => trivial
    | some s =>
      rw [hsnap] at hsn
      simp only at hsn ⊢
      have := hs (by simp [hsnap])
      omega

/-- no old entry at or above `fromIndex` survives `truncateAndAppend` -/
theorem overwritten_entries_spec {u : Unstable} (h : u.WF) {e0 : Entry} {rest : List Entry}
    (e : Entry) (he : e ∈ (u.overwritten (e0 :: rest) e0.index).entries) :
    (e ∈ u.entries ∧ e.index < e0.index) ∨ e ∈ e0 :: rest := by
  simp only [overwritten, List.mem_append] at he
  rcases he with he | he
  · left
    refine ⟨List.mem_of_mem_take he, ?_⟩
    have := (h.contig.take (e0.index - u.offset)).mem he
    simp only [List.length_take] at this
    omega
  · right; exact he

/-! ### stableTo -/

/-- the acknowledgement `(index, term)` matches an entry that is currently unstable -/
def Matches (u : Unstable) (id : EntryID) : Prop := ∃ e ∈ u.entries, e.index = id.index ∧ e.term = id.term

instance (u : Unstable) (id : EntryID) : Decidable (u.Matches id) := by unfold Matches; infer_instance

theorem matches_iff {u : Unstable} (h : u.WF) (id : EntryID) :
    u.Matches id ↔ u.offset ≤ id.index ∧ u.maybeTerm id.index = some id.term := by
  unfold Matches
  constructor
  · rintro ⟨e, hm, hi, ht⟩
    have hge : u.offset ≤ id.index := by have := h.contig.mem hm; omega
    refine ⟨hge, ?_⟩
    rw [maybeTerm_of_ge h hge, ((entry?_eq_some_iff h id.index e).mpr ⟨hm, hi⟩)]
    simp [ht]
  · rintro ⟨hge, hmt⟩
    rw [maybeTerm_of_ge h hge] at hmt
    cases he : u.entry? id.index with
    | none => rw [he] at hmt; cases hmt
    | some e =>
      rw [he] at hmt
      obtain ⟨hm, hi⟩ := (entry?_eq_some_iff h id.index e).mp he
      exact ⟨e, hm, hi, by simpa using hmt⟩

/-- **stableTo (match)**: exactly the entries at indexes `≤ index` leave `unstable` -/
theorem stableTo_of_matches {u : Unstable} (h : u.WF) {id : EntryID} (hm : u.Matches id) :
    u.stableTo id = { u with entries := u.entries.filter (fun e => decide (id.index < e.index)),
                             offset := id.index + 1,
                             offsetInProgress := max u.offsetInProgress (id.index + 1) } := by
  obtain ⟨hge, hmt⟩ := (matches_iff h id).mp hm
  unfold stableTo
  rw [hmt]
  simp only
  rw [if_neg (by omega), if_neg (by simp)]
  rw [h.contig.filter_gt]

/-- **stableTo (no match)**: nothing changes.  This covers acknowledgements for indexes that are not
unstable (any more) and the ABA case: an acknowledgement for `(index, oldTerm)` whose entry was since
overwritten by an entry with another term. -/
theorem stableTo_of_not_matches {u : Unstable} (h : u.WF) {id : EntryID} (hm : ¬ u.Matches id) :
    u.stableTo id = u := by
  rw [matches_iff h] at hm
  unfold stableTo
  cases hmt : u.maybeTerm id.index with
  | none => rfl
  | some gt =>
    simp only
    by_cases hlt : id.index < u.offset
    · rw [if_pos hlt]
    · rw [if_neg hlt]
      have : gt ≠ id.term := by
        intro heq; subst heq; exact hm ⟨by omega, hmt⟩
      rw [if_pos (by simpa using this)]

theorem stableTo_wf {u : Unstable} (h : u.WF) (id : EntryID) (hs : u.Matches id → u.snapshot = none) :
    (u.stableTo id).WF := by
  by_cases hm : u.Matches id
  · rw [stableTo_of_matches h hm]
    obtain ⟨hge, hmt⟩ := (matches_iff h id).mp hm
    have h1 := h.inProgLo
    have h2 := h.inProgHi
    have hlt : id.index < u.offset + u.entries.length := by
      obtain ⟨e, hmem, hi, _⟩ := hm
      have := h.contig.mem hmem; omega
    refine ⟨?_, ?_, ?_, ?_⟩
    · simp only
      rw [h.contig.filter_gt]
      have := h.contig.drop (id.index + 1 - u.offset)
      have e : u.offset + (id.index + 1 - u.offset) = id.index + 1 := by omega
      rw [e] at this; exact this
    · simp only; omega
    · simp only
      rw [h.contig.filter_gt, List.length_drop]; omega
    · simp only [hs hm]
  · rw [stableTo_of_not_matches h hm]; exact h

/-- **ABA**: after index `i` was overwritten by an entry of term `t'`, a (late) acknowledgement for
`(i, t)` with `t ≠ t'` changes nothing. -/
theorem stableTo_stale_after_overwrite {u : Unstable} (h : u.WF) {e0 : Entry} {rest : List Entry}
    (hc : Contig e0.index (e0 :: rest)) (hle : e0.index ≤ u.next)
    (hs : u.snapshot.isSome → u.offset ≤ e0.index)
    (id : EntryID) (e : Entry) (he : e ∈ e0 :: rest) (hi : e.index = id.index) (ht : e.term ≠ id.term) :
    (u.overwritten (e0 :: rest) e0.index).stableTo id = u.overwritten (e0 :: rest) e0.index := by
  have hwf := overwritten_wf h hc hle hs
  apply stableTo_of_not_matches hwf
  rintro ⟨e', hm', hi', ht'⟩
  -- both `e` and `e'` are entries of the new unstable log at the same index, hence equal
  have hm : e ∈ (u.overwritten (e0 :: rest) e0.index).entries := by
    simp only [overwritten, List.mem_append]; right; exact he
  have h1 := (entry?_eq_some_iff hwf id.index e).mpr ⟨hm, hi⟩
  have h2 := (entry?_eq_some_iff hwf id.index e').mpr ⟨hm', hi'⟩
  rw [h1] at h2
  injection h2 with h2
  subst h2
  exact ht ht'

/-! ### acceptInProgress, nextEntries, restore, stableSnapTo -/

theorem acceptInProgress_eq {u : Unstable} (h : u.WF) :
    u.acceptInProgress = { u with offsetInProgress := u.next,
                                  snapshotInProgress := u.snapshotInProgress || u.snapshot.isSome } := by
  have h1 := h.inProgLo
  have h2 := h.inProgHi
  have hc := h.contig
  obtain ⟨snap, ents, off, sip, oip⟩ := u
  simp only at h1 h2 hc
  unfold acceptInProgress next
  simp only
  cases hl : ents.getLast? with
  | none =>
    have : ents = [] := List.getLast?_eq_none_iff.mp hl
    have e : oip = off + ents.length := by simp [this] at h2 ⊢; omega
    cases snap <;> simp [← e]
  | some e =>
    have := hc.getLast?_index hl
    cases snap <;> simp [this]

theorem acceptInProgress_wf {u : Unstable} (h : u.WF) : u.acceptInProgress.WF := by
  rw [acceptInProgress_eq h]
  exact ⟨h.contig, by simp [next], by simp [next], h.snap⟩

/-- **nextEntries**: the unstable entries not yet handed to storage, i.e. those at `offsetInProgress`
and above -/
theorem nextEntries_eq {u : Unstable} (h : u.WF) :
    u.nextEntries = u.entries.filter (fun e => decide (u.offsetInProgress ≤ e.index)) := by
  have h1 := h.inProgLo
  have h2 := h.inProgHi
  unfold nextEntries
  simp only
  rw [h.contig.filter_ge]
  split
  · rename_i hl
    rw [List.drop_eq_nil_of_le (by simp at hl; omega)]
  · rfl

theorem acceptInProgress_nextEntries {u : Unstable} (h : u.WF) : u.acceptInProgress.nextEntries = [] := by
  rw [acceptInProgress_eq h]
  unfold nextEntries next
  simp

theorem acceptInProgress_nextSnapshot {u : Unstable} (h : u.WF) : u.acceptInProgress.nextSnapshot = none := by
  rw [acceptInProgress_eq h]
  unfold nextSnapshot
  cases hs : u.snapshot <;> simp

theorem restore_wf (u : Unstable) (s : Snapshot) : (u.restore s).WF :=
  ⟨Contig.nil _, Nat.le_refl _, by simp [restore], by simp [restore]⟩

theorem stableSnapTo_eq (u : Unstable) (i : Nat) :
    u.stableSnapTo i =
      if (∃ s, u.snapshot = some s ∧ s.index = i) then { u with snapshot := none, snapshotInProgress := false }
      else u := by
  unfold stableSnapTo
  cases hs : u.snapshot with
  | none => simp
  | some s =>
    simp only [beq_iff_eq, Option.some.injEq, exists_eq_left']

theorem stableSnapTo_wf {u : Unstable} (h : u.WF) (i : Nat) : (u.stableSnapTo i).WF := by
  rw [stableSnapTo_eq]
  split
  · exact ⟨h.contig, h.inProgLo, h.inProgHi, trivial⟩
  · exact h

/-- an acknowledgement carrying both a snapshot and entries is processed by Go as `stableTo` then
`stableSnapTo`; the two commute, so it can be analysed as `stableSnapTo` then `stableTo`, for which the
invariant holds at every step -/
theorem stableTo_stableSnapTo_comm {u : Unstable} (h : u.WF) (id : EntryID) (i : Nat) :
    (u.stableTo id).stableSnapTo i = (u.stableSnapTo i).stableTo id := by
  have hw := stableSnapTo_wf h i
  have hmm : (u.stableSnapTo i).Matches id ↔ u.Matches id := by
    unfold Matches
    rw [stableSnapTo_eq]; split <;> rfl
  by_cases hm : u.Matches id
  · rw [stableTo_of_matches h hm, stableTo_of_matches hw (hmm.mpr hm)]
    rw [stableSnapTo_eq, stableSnapTo_eq]
    split <;> rfl
  · rw [stableTo_of_not_matches h hm, stableTo_of_not_matches hw (fun x => hm (hmm.mp x))]

end Unstable
end RaftVerif
