import RaftVerif.Proofs.LogMutate
/-!
# Proofs/LogStorageOps — storage-side operations seen from `raftLog`

The application appends entries of the log to storage and compacts storage; these change `l.storage`
under the feet of `raftLog`.  Core Lean only.
-/
namespace RaftVerif
namespace RaftLog

theorem lastIndex_of_storage {l : RaftLog} {ms' : MemoryStorage} (hl : ms'.lastIndex = l.storage.lastIndex) :
    ({ l with storage := ms' } : RaftLog).lastIndex = l.lastIndex := by
  unfold lastIndex
  simp only [hl]

/-- **storage Append of entries of the log** (no snapshot pending): the application writes a contiguous
run `es` of entries that are in the log, without leaving a gap after storage's last index and without
cutting storage below `unstable.offset`.  Then `Append` succeeds, and the combined view is unchanged:
same abstract log, invariant kept. -/
theorem storage_append_log {l : RaftLog} (h : l.WF) (hsn : l.unstable.snapshot = none) {n : Nat} {es : List Entry}
    (hc : Contig n es) (hne : es ≠ []) (hin : ∀ e ∈ es, l.abs.entry? e.index = some e)
    (hn : n ≤ l.storage.lastIndex + 1) (hreach : l.unstable.offset ≤ n + es.length) :
    ∃ ms', l.storage.append es = .ok ms' ∧ ({ l with storage := ms' } : RaftLog).WF ∧
      ({ l with storage := ms' } : RaftLog).abs = l.abs ∧ ms'.lastIndex + 1 = n + es.length := by
  obtain ⟨pre, he, hlen, hnn, _⟩ := h.shape
  obtain ⟨hp, hb, hbt⟩ := hnn hsn
  have hso := h.snapOK
  unfold SnapOK at hso
  rw [hsn] at hso
  simp only at hso
  obtain ⟨hs1, hs2, hs3, hs4⟩ := hso
  have hsl := MemoryStorage.lastIndex_abs h.storage
  have hsb : l.storage.abs.base = l.storage.offset := rfl
  simp only [ALog.last, hsb] at hsl
  have hsel := MemoryStorage.abs_ents_length h.storage
  have hls := abs_last_succ h
  unfold Unstable.next at hls
  -- every entry of `es` lies above the storage's compaction point
  have hgt : ∀ e ∈ es, l.storage.offset < e.index := by
    intro e hem
    have := (ALog.entry?_isSome_iff l.abs e.index).mp (by rw [hin e hem]; rfl)
    omega
  have hle : ∀ e ∈ es, e.index ≤ l.abs.last := by
    intro e hem
    have := (ALog.entry?_isSome_iff l.abs e.index).mp (by rw [hin e hem]; rfl)
    omega
  cases es with
  | nil => exact absurd rfl hne
  | cons e0 rest =>
    have h0 : e0.index = n := hc.head_index
    have hn0 : l.storage.offset < n := by rw [← h0]; exact hgt e0 (by simp)
    have hfilter : (e0 :: rest).filter (fun e => decide (l.storage.offset < e.index)) = e0 :: rest := by
      rw [List.filter_eq_self]
      intro e hem; simpa using hgt e hem
    have happ := MemoryStorage.append_eq h.storage hc
    rw [hfilter] at happ
    simp only at happ
    rw [h0, if_neg (by omega)] at happ
    obtain ⟨ms', hms'⟩ : ∃ ms', l.storage.append (e0 :: rest) = .ok ms' := ⟨_, happ⟩
    clear happ
    have hwfm := MemoryStorage.append_wf h.storage hc hms'
    have habsm : ms'.abs = l.storage.abs.overwrite (e0 :: rest) := by
      have habs0 := MemoryStorage.append_abs h.storage hc
      rw [hms'] at habs0
      have hfilter' : (e0 :: rest).filter (fun e => decide (l.storage.abs.base < e.index)) = e0 :: rest := hfilter
      simp only [Except.map, ALog.storeAppend, hfilter'] at habs0
      rw [if_neg (by simp only [ALog.last, hsb]; omega)] at habs0
      injection habs0
    have hoffm : ms'.offset = l.storage.offset := by
      have := congrArg ALog.base habsm
      rw [(ALog.overwrite_base _ _).1] at this; exact this
    have hentsm : ms'.abs.ents = l.storage.abs.ents.take (n - (l.storage.offset + 1)) ++ e0 :: rest := by
      have := congrArg ALog.ents habsm
      rw [ALog.overwrite_ents, h0, hsb] at this; exact this
    have hdtm : ms'.dummyTerm = l.storage.dummyTerm := by
      have := congrArg ALog.baseTerm habsm
      rw [(ALog.overwrite_base _ _).2] at this; exact this
    have hlastm : ms'.lastIndex + 1 = n + (e0 :: rest).length := by
      rw [MemoryStorage.lastIndex_abs hwfm]
      simp only [ALog.last, MemoryStorage.abs_base, hoffm, hentsm, List.length_append, List.length_take,
        List.length_cons]
      omega
    -- the last written entry is in the log
    have hlastle : n + (e0 :: rest).length ≤ l.abs.last + 1 := by
      cases hg : (e0 :: rest).getLast? with
      | none => simp at hg
      | some last =>
        have := hc.getLast?_index hg
        have := hle last (List.mem_of_getLast? hg)
        omega
    refine ⟨ms', hms', ?_, ?_, hlastm⟩
    · have hli : ({ l with storage := ms' } : RaftLog).lastIndex = l.lastIndex := by
        unfold lastIndex Unstable.maybeLastIndex
        simp only [hsn]
        by_cases hl0 : l.unstable.entries.length = 0
        · have hnil := List.length_eq_zero_iff.mp hl0
          have := hs3 hnil
          simp only [hl0, bne_self_eq_false, Bool.false_eq_true, ↓reduceIte, Option.map_none, Option.getD_none]
          simp only [List.length_cons] at hlastm hlastle hreach
          omega
        · simp [hl0]
      refine ⟨hwfm, h.unstable, ?_, h.appliedLeApplying, h.applyingLeCommitted, ?_, h.budget⟩
      · unfold SnapOK
        simp only [hsn, hoffm]
        simp only [List.length_cons] at hlastm hlastle hreach
        refine ⟨hs1, by omega, ?_, hs4⟩
        intro hnil
        have hl0 : l.unstable.entries.length = 0 := by rw [hnil]; rfl
        omega
      · rw [hli]; exact h.committedLeLast
    · unfold abs
      simp only [hsn]
      simp only [ALog.extend, ALog.truncateFrom, MemoryStorage.abs_base, hoffm]
      have hbt' : ms'.abs.baseTerm = l.storage.abs.baseTerm := hdtm
      rw [hbt']
      congr 1
      congr 1
      rw [hentsm]
      apply List.ext_getElem?
      intro k
      rw [List.getElem?_take, List.getElem?_take]
      by_cases hk : k < l.unstable.offset - (l.storage.offset + 1)
      · rw [if_pos hk, if_pos hk]
        by_cases hk1 : k < n - (l.storage.offset + 1)
        · rw [List.getElem?_append_left (by rw [List.length_take]; omega), List.getElem?_take, if_pos hk1]
        · have hlenT : (l.storage.abs.ents.take (n - (l.storage.offset + 1))).length = n - (l.storage.offset + 1) := by
            rw [List.length_take]; omega
          rw [List.getElem?_append_right (by omega), hlenT]
          have hj : k - (n - (l.storage.offset + 1)) < (e0 :: rest).length := by
            simp only [List.length_cons] at hreach ⊢; omega
          have hidx := hc _ hj
          have hmem : (e0 :: rest)[k - (n - (l.storage.offset + 1))] ∈ e0 :: rest := List.getElem_mem hj
          have := hin _ hmem
          rw [abs_entry?_of_lt h hsn (by omega)] at this
          unfold ALog.entry? at this
          rw [hsb, if_pos (by omega), hidx] at this
          have e2 : n + (k - (n - (l.storage.offset + 1))) - (l.storage.offset + 1) = k := by omega
          rw [e2] at this
          rw [this, List.getElem?_eq_getElem hj]
      · rw [if_neg hk, if_neg hk]

/-- **storage Compact seen from the log** (no snapshot pending): compacting at an index that is applied
and no longer unstable (`storage.offset < ci ≤ applied`, `ci < unstable.offset`) succeeds; the combined
view is the abstract log compacted at `ci`, and the invariant is kept. -/
theorem storage_compact_log {l : RaftLog} (h : l.WF) (hsn : l.unstable.snapshot = none) (ci : Nat)
    (hlo : l.storage.offset < ci) (happ : ci ≤ l.applied) (hst : ci < l.unstable.offset) :
    ∃ ms' t, l.storage.compact ci = .ok (.ok ms') ∧ l.abs.term? ci = some t ∧
      ({ l with storage := ms' } : RaftLog).WF ∧
      ({ l with storage := ms' } : RaftLog).abs = l.abs.compactTo ci t := by
  obtain ⟨pre, he, hlen, hnn, _⟩ := h.shape
  obtain ⟨hp, hb, hbt⟩ := hnn hsn
  have hso := h.snapOK
  unfold SnapOK at hso
  rw [hsn] at hso
  simp only at hso
  obtain ⟨hs1, hs2, hs3, hs4⟩ := hso
  have hsl := MemoryStorage.lastIndex_abs h.storage
  have hsb : l.storage.abs.base = l.storage.offset := rfl
  simp only [ALog.last, hsb] at hsl
  rcases MemoryStorage.compact_spec h.storage ci with ⟨hc1, _⟩ | ⟨_, hc2, _⟩ | ⟨_, _, ms', t, hok, hterm, habsm, hwfm, _, _⟩
  · rw [hsb] at hc1; omega
  · simp only [ALog.last, hsb] at hc2; omega
  · have hoffm : ms'.offset = ci := by have := congrArg ALog.base habsm; exact this
    have hentsm : ms'.abs.ents = l.storage.abs.ents.drop (ci - l.storage.offset) := by
      have := congrArg ALog.ents habsm; exact this
    have hlastm : ms'.lastIndex = l.storage.lastIndex := by
      rw [MemoryStorage.lastIndex_abs hwfm, hsl]
      simp only [ALog.last, MemoryStorage.abs_base, hoffm, hentsm, List.length_drop]
      omega
    refine ⟨ms', t, hok, ?_, ?_, ?_⟩
    · rw [abs_term?_of_lt h hsn hst]; exact hterm
    · refine ⟨hwfm, h.unstable, ?_, h.appliedLeApplying, h.applyingLeCommitted, ?_, h.budget⟩
      · unfold SnapOK
        simp only [hsn, hoffm, hlastm]
        exact ⟨hst, hs2, hs3, happ⟩
      · rw [lastIndex_of_storage hlastm]; exact h.committedLeLast
    · unfold abs
      simp only [hsn]
      simp only [ALog.extend, ALog.truncateFrom, ALog.compactTo, MemoryStorage.abs_base, hoffm]
      have hbt' : ms'.abs.baseTerm = t := by have := congrArg ALog.baseTerm habsm; exact this
      rw [hbt']
      congr 1
      rw [hentsm, List.drop_append_of_le_length (by rw [List.length_take]; omega), List.drop_take]
      congr 2
      omega

end RaftLog
end RaftVerif
