import RaftVerif.Proofs.StepSpecs
import RaftVerif.Proofs.StepRestore
import RaftVerif.Proofs.ConfChangeReachable
import RaftVerif.Proofs.FlowMonad
/-!
# Proofs/Conf10Apply — `applyConfChange` = `confchange.Changer` + `switchToConfig` (raft.go:1951-2035)

* `applyConfChange_run`, `checkConfChange_iff`
* `switchToConfig_leader_stays`, `switchToConfig_leader_removed` (and `switchToConfig_nonleader_spec` of
  StepRestore): what `switchToConfig` does in each role
* `Sim`, `applyV2_accepts_transfer`: whether the Changer accepts a change depends only on the
  configuration and on the `isLearner` flags of the progress map — not on `lastIndex`, `match`, `next`, …
* `gated_cc_applies`: a change that passed the propose-time gate is accepted at apply time
Core Lean only.
-/
namespace RaftVerif.Conf10
open Raft

/-- the `Changer` the node uses for a configuration change in state `r` -/
def changerOf (r : Raft) : Changer := { tracker := r.trk, lastIndex := r.log.lastIndex }

/-- **`applyConfChange` is the Changer followed by `switchToConfig`**; a Changer error panics -/
theorem applyConfChange_run (cc : ConfChangeV2) (r : Raft) :
    (applyConfChange cc).run r =
      match applyV2 (changerOf r) cc with
      | .error e => .error s!"applyConfChange: {e}"
      | .ok (cfg, trk) => (switchToConfig cfg trk).run r := by
  unfold applyConfChange
  simp only [StateT.run_bind, StateT.run_get, P_pure_eq, P_ok_bind]
  change StateT.run (match applyV2 (changerOf r) cc with
    | .error e => throw s!"applyConfChange: {e}"
    | .ok (cfg, trk) => switchToConfig cfg trk) r = _
  cases applyV2 (changerOf r) cc with
  | error e => rfl
  | ok p => rfl

/-- `checkConfChange` (the dry run at propose time) is "the Changer accepts" -/
theorem checkConfChange_iff (r : Raft) (cc : ConfChangeV2) :
    r.checkConfChange cc = true ↔ ∃ p, applyV2 (changerOf r) cc = .ok p := by
  have h : r.checkConfChange cc =
      (match applyV2 (changerOf r) cc with | .ok _ => true | .error _ => false) := rfl
  rw [h]
  cases applyV2 (changerOf r) cc with
  | error e => simp
  | ok p => simp

/-- the tracker after installing `(cfg, trk)` -/
def installed (s : Raft) (cfg : TrackerConfig) (trk : ProgressMap) : Tracker :=
  { s.trk with cfg := cfg, progress := trk }

/-- is the node itself a learner in the installed configuration? (`false` when it has no progress entry) -/
def selfLearner (s : Raft) (trk : ProgressMap) : Bool := ((mapGet trk s.cfg.id).map (·.isLearner)).getD false

/-- the state right after `switchToConfig` installed the configuration and refreshed `isLearner` -/
def switched (s : Raft) (cfg : TrackerConfig) (trk : ProgressMap) : Raft :=
  { s with trk := installed s cfg trk, isLearner := selfLearner s trk }

/-- what the sending part of `switchToConfig` keeps -/
structure CfgKept (a b : Raft) : Prop where
  trkCfg : b.trk.cfg = a.trk.cfg
  state : b.state = a.state
  term : b.term = a.term
  isLearner : b.isLearner = a.isLearner
  cfg : b.cfg = a.cfg
  commit : a.log.committed ≤ b.log.committed
  lead : b.lead = a.lead

theorem CfgKept.of_sf {a b : Raft} (h : SendFrame a b) : CfgKept a b :=
  ⟨h.trkCfg, h.state, h.term, h.isLearner, h.cfg, by rw [h.log]; exact Nat.le_refl _, h.lead⟩

theorem CfgKept.trans {a b c : Raft} (h1 : CfgKept a b) (h2 : CfgKept b c) : CfgKept a c :=
  ⟨h2.trkCfg.trans h1.trkCfg, h2.state.trans h1.state, h2.term.trans h1.term, h2.isLearner.trans h1.isLearner,
   h2.cfg.trans h1.cfg, Nat.le_trans h1.commit h2.commit, h2.lead.trans h1.lead⟩

/-- a leader that stays a voter (or has no voters at all): the configuration is installed, then commit
index and followers are brought up to date; role, term, `lead` stay, the commit index does not go back -/
theorem switchToConfig_leader_stays (cfg : TrackerConfig) (trk : ProgressMap) (s : Raft)
    (hl : s.state = .leader) (hpr : (mapGet trk s.cfg.id).isSome = true) (hnl : selfLearner s trk = false) :
    Spec (switchToConfig cfg trk) s (fun cs s' =>
      cs = (installed s cfg trk).confState ∧ CfgKept (switched s cfg trk) s') := by
  unfold switchToConfig
  have c1 : ((({ s.trk with cfg := cfg, progress := trk } : Tracker).getProgress s.cfg.id).isNone ||
      ((({ s.trk with cfg := cfg, progress := trk } : Tracker).getProgress s.cfg.id).map (·.isLearner)).getD false) = false := by
    have : ({ s.trk with cfg := cfg, progress := trk } : Tracker).getProgress s.cfg.id = mapGet trk s.cfg.id := rfl
    rw [this]
    have h2 : ((mapGet trk s.cfg.id).map (·.isLearner)).getD false = false := hnl
    rw [h2]
    cases h : mapGet trk s.cfg.id <;> simp_all
  simp only [wp, c1, Bool.false_and, Bool.false_eq_true, false_implies, true_and, not_false_eq_true, true_implies,
    hl, bne_self_eq_false, Bool.false_or]
  have hsw : ∀ c, s.log.committed ≤ c → CfgKept (switched s cfg trk)
      { switched s cfg trk with state := Role.leader, log := { s.log with committed := c } } := by
    intro c hc
    exact ⟨rfl, hl.symm, rfl, rfl, rfl, hc, rfl⟩
  have fin : ∀ x : Raft, CfgKept (switched s cfg trk) x →
      CfgKept (switched s cfg trk) { x with leadTransferee := 0 } := by
    intro x hx
    exact ⟨hx.trkCfg, hx.state, hx.term, hx.isLearner, hx.cfg, hx.commit, hx.lead⟩
  refine ⟨fun _ => ⟨rfl, hsw _ (Nat.le_refl _)⟩, fun _ => ?_⟩
  refine (maybeCommit_spec _).mono ?_
  rintro b mid ⟨c, hc, rfl⟩
  have hm := hsw c hc
  refine ⟨fun _ => ?_, fun _ => ?_⟩
  · refine (bcastAppend_sf _).mono ?_
    intro _ m2 hsf
    have h2 := hm.trans (CfgKept.of_sf hsf)
    exact ⟨fun _ => ⟨rfl, fin m2 h2⟩, fun _ => ⟨rfl, h2⟩⟩
  · refine (Spec.forIn_rel SendFrame _ _ _ _ ?_).mono ?_
    · intro id _ m1
      simp only [wp]
      refine ⟨fun _ => ?_, fun _ => SendFrame.refl _⟩
      exact (maybeSendAppend_sf id false m1).mono fun _ _ h => h
    · intro _ m2 hsf
      have h2 := hm.trans (CfgKept.of_sf hsf)
      exact ⟨fun _ => ⟨rfl, fin m2 h2⟩, fun _ => ⟨rfl, h2⟩⟩


/-- a leader that is no longer a voter (removed, or demoted to learner): without `StepDownOnRemoval` it
only installs the configuration (and keeps leading); with it, it becomes follower of the same term
without a leader -/
theorem switchToConfig_leader_removed (cfg : TrackerConfig) (trk : ProgressMap) (s : Raft)
    (hl : s.state = .leader) (hrm : mapGet trk s.cfg.id = none ∨ selfLearner s trk = true) :
    Spec (switchToConfig cfg trk) s (fun cs s' =>
      cs = (installed s cfg trk).confState ∧
      (s.cfg.stepDownOnRemoval = false → s' = switched s cfg trk) ∧
      (s.cfg.stepDownOnRemoval = true →
        s'.state = .follower ∧ s'.term = s.term ∧ s'.vote = s.vote ∧ s'.lead = 0 ∧ s'.log = s.log ∧
        s'.trk.cfg = cfg ∧ s'.isLearner = selfLearner s trk ∧ s'.cfg = s.cfg)) := by
  unfold switchToConfig
  have c1 : ((({ s.trk with cfg := cfg, progress := trk } : Tracker).getProgress s.cfg.id).isNone ||
      ((({ s.trk with cfg := cfg, progress := trk } : Tracker).getProgress s.cfg.id).map (·.isLearner)).getD false) = true := by
    have : ({ s.trk with cfg := cfg, progress := trk } : Tracker).getProgress s.cfg.id = mapGet trk s.cfg.id := rfl
    rw [this]
    rcases hrm with h | h
    · rw [h]; rfl
    · have h2 : ((mapGet trk s.cfg.id).map (·.isLearner)).getD false = true := h
      rw [h2, Bool.or_true]
  simp only [wp, c1, hl, beq_self_eq_true, Bool.and_self, true_implies, not_true_eq_false, false_implies, and_true]
  refine ⟨fun hsd => ?_, fun hsd => ?_⟩
  · unfold becomeFollower
    simp only [wp]
    refine (reset_spec_st s.term _).mono ?_
    intro _ mid ⟨h1, h2, _, _, h3, h4, _, _, h5, _, _, h6, _⟩
    simp only [if_true] at h2
    refine ⟨rfl, fun h => ?_, fun _ => ⟨trivial, h1, h2, trivial, h3, h5, h6, h4⟩⟩
    rw [hsd] at h; cases h
  · have hsd' : s.cfg.stepDownOnRemoval = false := by simpa using hsd
    refine ⟨rfl, fun _ => ?_, fun h => ?_⟩
    · unfold switched installed selfLearner
      rw [hl]
      rfl
    · rw [hsd'] at h; cases h



/-- two progress maps with the same keys and the same `isLearner` flags -/
def Sim (t t' : ProgressMap) : Prop :=
  ∀ id, (mapGet t id).map (·.isLearner) = (mapGet t' id).map (·.isLearner)

theorem Sim.refl (t : ProgressMap) : Sim t t := fun _ => rfl

theorem Sim.insert {t t' : ProgressMap} (h : Sim t t') (k : Id) {p p' : Progress}
    (hp : p.isLearner = p'.isLearner) : Sim (mapInsert k p t) (mapInsert k p' t') := by
  intro id
  rw [mapGet_mapInsert, mapGet_mapInsert]
  split
  · simp [hp]
  · exact h id

theorem Sim.erase {t t' : ProgressMap} (h : Sim t t') (k : Id) : Sim (mapErase k t) (mapErase k t') := by
  intro id
  rw [mapGet_mapErase, mapGet_mapErase]
  split
  · rfl
  · exact h id

theorem Sim.cases {t t' : ProgressMap} (h : Sim t t') (id : Id) :
    (mapGet t id = none ∧ mapGet t' id = none) ∨
    ∃ p p', mapGet t id = some p ∧ mapGet t' id = some p' ∧ p.isLearner = p'.isLearner := by
  have := h id
  cases h1 : mapGet t id with
  | none =>
    cases h2 : mapGet t' id with
    | none => exact Or.inl ⟨rfl, rfl⟩
    | some p' => rw [h1, h2] at this; cases this
  | some p =>
    cases h2 : mapGet t' id with
    | none => rw [h1, h2] at this; cases this
    | some p' =>
      rw [h1, h2] at this
      exact Or.inr ⟨p, p', rfl, rfl, by simpa using this⟩

/-- same configuration, similar progress maps -/
def StepRel (s s' : CS) : Prop := s.1 = s'.1 ∧ Sim s.2 s'.2

theorem initProgress_rel (c c' : Changer) (cfg : TrackerConfig) {t t' : ProgressMap} (h : Sim t t') (id : Id)
    (b : Bool) : StepRel (c.initProgress cfg t id b) (c'.initProgress cfg t' id b) := by
  unfold Changer.initProgress StepRel
  exact ⟨rfl, h.insert id rfl⟩

theorem remove_rel (c c' : Changer) (cfg : TrackerConfig) {t t' : ProgressMap} (h : Sim t t') (id : Id) :
    StepRel (c.remove cfg t id) (c'.remove cfg t' id) := by
  unfold Changer.remove StepRel
  rcases h.cases id with ⟨h1, h2⟩ | ⟨p, p', h1, h2, _⟩
  · rw [h1, h2]; exact ⟨rfl, h⟩
  · rw [h1, h2]
    simp only
    split
    · exact ⟨rfl, h.erase id⟩
    · exact ⟨rfl, h⟩

theorem makeVoter_rel (c c' : Changer) (cfg : TrackerConfig) {t t' : ProgressMap} (h : Sim t t') (id : Id) :
    StepRel (c.makeVoter cfg t id) (c'.makeVoter cfg t' id) := by
  unfold Changer.makeVoter
  rcases h.cases id with ⟨h1, h2⟩ | ⟨p, p', h1, h2, _⟩
  · rw [h1, h2]; exact initProgress_rel c c' cfg h id false
  · rw [h1, h2]; exact ⟨rfl, h.insert id rfl⟩

theorem makeLearner_rel (c c' : Changer) (cfg : TrackerConfig) {t t' : ProgressMap} (h : Sim t t') (id : Id) :
    StepRel (c.makeLearner cfg t id) (c'.makeLearner cfg t' id) := by
  unfold Changer.makeLearner
  rcases h.cases id with ⟨h1, h2⟩ | ⟨p, p', h1, h2, hp⟩
  · rw [h1, h2]; exact initProgress_rel c c' cfg h id true
  · rw [h1, h2]
    simp only
    rw [← hp]
    split
    · exact ⟨rfl, h⟩
    · obtain ⟨e1, e2⟩ := remove_rel c c' cfg h id
      generalize c.remove cfg t id = a at e1 e2
      generalize c'.remove cfg t' id = a' at e1 e2
      obtain ⟨a1, a2⟩ := a
      obtain ⟨b1, b2⟩ := a'
      simp only at e1 e2
      subst e1
      simp only
      split
      · exact ⟨rfl, e2.insert id hp⟩
      · exact ⟨rfl, e2.insert id rfl⟩

theorem applyStep_rel (c c' : Changer) {s s' : CS} (h : StepRel s s') (cc : ConfChangeSingle) :
    StepRel (applyStep c s cc) (applyStep c' s' cc) := by
  obtain ⟨s1, s2⟩ := s
  obtain ⟨t1, t2⟩ := s'
  obtain ⟨e1, e2⟩ := h
  simp only at e1 e2
  subst e1
  unfold applyStep
  split
  · exact ⟨rfl, e2⟩
  · cases cc.typ with
    | addNode => exact makeVoter_rel c c' s1 e2 _
    | addLearnerNode => exact makeLearner_rel c c' s1 e2 _
    | removeNode => exact remove_rel c c' s1 e2 _
    | updateNode => exact ⟨rfl, e2⟩

theorem fold_rel (c c' : Changer) (ccs : List ConfChangeSingle) {s s' : CS} (h : StepRel s s') :
    StepRel (ccs.foldl (applyStep c) s) (ccs.foldl (applyStep c') s') := by
  induction ccs generalizing s s' with
  | nil => exact h
  | cons cc ccs ih => exact ih (applyStep_rel c c' h cc)


/-- **acceptance of a configuration change does not depend on the last index nor on anything in the
progress records but `isLearner`**: if the Changer accepts `cc` for `c`, it accepts it for every `c'` with
the same configuration, a similar progress map and a valid (`ConfReach`) configuration; the resulting
configurations are equal -/
theorem applyV2_accepts_transfer (c c' : Changer) (cc : ConfChangeV2)
    (hcfg : c'.tracker.cfg = c.tracker.cfg) (hsim : Sim c.tracker.progress c'.tracker.progress)
    (hs' : ConfReach c'.tracker.cfg c'.tracker.progress) {p : CS} (h : applyV2 c cc = .ok p) :
    ∃ p', applyV2 c' cc = .ok p' ∧ p'.1 = p.1 ∧ Sim p.2 p'.2 := by
  have hst := hs'.strong
  unfold applyV2 at h ⊢
  have hclone : c'.tracker.cfg.clone = c.tracker.cfg.clone := by rw [hcfg]
  by_cases hlj : cc.leaveJoint = true
  · rw [if_pos hlj] at h ⊢
    obtain ⟨_, hj, rfl, _⟩ := (leaveJoint_ok_iff c p).mp h
    have hne : c'.tracker.cfg.outgoing ≠ none := by
      intro h0
      rw [hcfg] at h0
      simp [joint, TrackerConfig.clone, h0] at hj
    refine ⟨leaveJointResult c', (leaveJoint_accepts_iff_aux c' _ hst hs'.staged).mpr ⟨hne, rfl⟩, ?_⟩
    -- `leaveJointResult` : promote the staged learners, then drop the outgoing-only voters
    unfold leaveJointResult
    rw [hclone]
    have hprom : ∀ (l : List Id) (s s' : CS), StepRel s s' →
        StepRel (l.foldl promoteStep s) (l.foldl promoteStep s') := by
      intro l
      induction l with
      | nil => intro s s' h; exact h
      | cons id l ih =>
        intro s s' h
        refine ih _ _ ?_
        obtain ⟨e1, e2⟩ := h
        unfold promoteStep
        refine ⟨by rw [e1], ?_⟩
        rcases e2.cases id with ⟨h1, h2⟩ | ⟨q, q', h1, h2, _⟩
        · rw [h1, h2]; exact e2
        · rw [h1, h2]; exact e2.insert id rfl
    have h1 := hprom (c.tracker.cfg.clone.learnersNext.getD []) (c.tracker.cfg.clone, c.tracker.progress)
      (c.tracker.cfg.clone, c'.tracker.progress) ⟨rfl, hsim⟩
    generalize (c.tracker.cfg.clone.learnersNext.getD []).foldl promoteStep (c.tracker.cfg.clone, c.tracker.progress) = a at h1
    generalize (c.tracker.cfg.clone.learnersNext.getD []).foldl promoteStep (c.tracker.cfg.clone, c'.tracker.progress) = a' at h1
    obtain ⟨e1, e2⟩ := h1
    simp only
    rw [← e1]
    refine ⟨rfl, ?_⟩
    have hdrop : ∀ (l : List Id) (t t' : ProgressMap), Sim t t' →
        Sim (l.foldl (dropStep a.1) t) (l.foldl (dropStep a.1) t') := by
      intro l
      induction l with
      | nil => intro t t' h; exact h
      | cons id l ih =>
        intro t t' h
        refine ih _ _ ?_
        unfold dropStep
        split
        · exact h.erase id
        · exact h
    exact hdrop _ _ _ e2
  · rw [if_neg hlj] at h ⊢
    have hjn : ∀ hj : joint c.tracker.cfg.clone = false, c'.tracker.cfg.outgoing = none := by
      intro hj
      have : joint c'.tracker.cfg.clone = false := by rw [hclone]; exact hj
      rw [joint_eq_false_iff, clone_outgoing] at this
      exact (outgoing_none_iff hst.wf.outgoing).mpr this
    cases hej : cc.enterJoint with
    | some al =>
      rw [hej] at h
      simp only at h ⊢
      obtain ⟨_, hj, _, hv, rfl, _⟩ := (enterJoint_ok_iff c al cc.changes p).mp h
      have hrel : StepRel (enterJointFold c cc.changes) (enterJointFold c' cc.changes) := by
        unfold enterJointFold
        rw [hclone]
        exact fold_rel c c' cc.changes ⟨rfl, hsim⟩
      refine ⟨_, (enterJoint_accepts_iff_aux c' al cc.changes _ hst).mpr ⟨hjn hj, ?_, rfl⟩, ?_, hrel.2⟩
      · rw [← hrel.1]; exact hv
      · simp only; rw [hrel.1]
    | none =>
      rw [hej] at h
      simp only at h ⊢
      obtain ⟨_, hj, rfl, hv, hsd, _⟩ := (simple_ok_iff c cc.changes p).mp h
      have hrel : StepRel (cc.changes.foldl (applyStep c) (c.tracker.cfg.clone, c.tracker.progress))
          (cc.changes.foldl (applyStep c') (c'.tracker.cfg.clone, c'.tracker.progress)) := by
        rw [hclone]
        exact fold_rel c c' cc.changes ⟨rfl, hsim⟩
      refine ⟨_, (simple_accepts_iff_aux c' cc.changes _ hst).mpr ⟨hjn hj, rfl, ?_, ?_⟩, hrel.1.symm, hrel.2⟩
      · rw [← hrel.1]; exact hv
      · rw [← hrel.1, hcfg]; exact hsd


/-- **a configuration change that passed the propose-time gate does not panic in the Changer when it is
applied**: `r` is the leader's state at propose time, `r2` any node's state at apply time with the same
configuration (progress records may differ in everything but `isLearner`; the log may have grown) -/
theorem gated_cc_applies (r r2 : Raft) (cc : ConfChangeV2) (hgate : r.checkConfChange cc = true)
    (hcfg : r2.trk.cfg = r.trk.cfg) (hsim : Sim r.trk.progress r2.trk.progress)
    (hreach : ConfReach r2.trk.cfg r2.trk.progress) :
    ∃ cfg trk, applyV2 (changerOf r2) cc = .ok (cfg, trk) ∧ ConfReach cfg trk ∧
      (applyConfChange cc).run r2 = (switchToConfig cfg trk).run r2 := by
  obtain ⟨p, hp⟩ := (checkConfChange_iff r cc).mp hgate
  obtain ⟨p', hp', _, _⟩ := applyV2_accepts_transfer (changerOf r) (changerOf r2) cc hcfg hsim hreach hp
  obtain ⟨cfg, trk⟩ := p'
  refine ⟨cfg, trk, hp', applyV2_reach (changerOf r2) cc (cfg, trk) hreach hp', ?_⟩
  rw [applyConfChange_run, hp']


/-- on a node that is not leader `switchToConfig` cannot panic: it installs the configuration and
refreshes `isLearner` -/
theorem switchToConfig_nonleader_run (cfg : TrackerConfig) (trk : ProgressMap) (s : Raft)
    (h : s.state ≠ .leader) :
    (switchToConfig cfg trk).run s = .ok ((installed s cfg trk).confState, switched s cfg trk) := by
  have h1 : (s.state == Role.leader) = false := by
    cases hs : s.state <;> simp_all
  have h2 : (s.state != Role.leader) = true := by
    cases hs : s.state <;> simp_all
  unfold switchToConfig
  simp only [StateT.run_bind, StateT.run_get, P_pure_eq, P_ok_bind, StateT.run_modify, StateT.run_set, h1,
    Bool.and_false, Bool.false_eq_true, ↓reduceIte, h2, Bool.true_or]
  rfl

/-- **effects of `applyConfChange`**, whenever it returns -/
theorem applyConfChange_effects (cc : ConfChangeV2) (r r' : Raft) (cs : ConfState)
    (h : (applyConfChange cc).run r = .ok (cs, r')) :
    ∃ cfg trk, applyV2 (changerOf r) cc = .ok (cfg, trk) ∧
      cs = (installed r cfg trk).confState ∧ r'.trk.cfg = cfg ∧ r'.isLearner = selfLearner r trk ∧
      r'.term = r.term ∧ r'.cfg = r.cfg ∧
      (r.state ≠ .leader → r' = switched r cfg trk) ∧
      (r.state = .leader → (mapGet trk r.cfg.id = none ∨ selfLearner r trk = true) →
        (r.cfg.stepDownOnRemoval = false → r' = switched r cfg trk) ∧
        (r.cfg.stepDownOnRemoval = true →
          r'.state = .follower ∧ r'.vote = r.vote ∧ r'.lead = 0 ∧ r'.log = r.log)) ∧
      (r.state = .leader → (mapGet trk r.cfg.id).isSome = true → selfLearner r trk = false →
        r'.state = .leader ∧ r'.lead = r.lead ∧ r.log.committed ≤ r'.log.committed) := by
  rw [applyConfChange_run] at h
  cases hc : applyV2 (changerOf r) cc with
  | error e => rw [hc] at h; cases h
  | ok p =>
    obtain ⟨cfg, trk⟩ := p
    rw [hc] at h
    simp only at h
    refine ⟨cfg, trk, rfl, ?_⟩
    by_cases hl : r.state = .leader
    · by_cases hrm : mapGet trk r.cfg.id = none ∨ selfLearner r trk = true
      · obtain ⟨h1, h2, h3⟩ := (switchToConfig_leader_removed cfg trk r hl hrm).elim h
        cases hsd : r.cfg.stepDownOnRemoval with
        | false =>
          have := h2 hsd
          subst this
          refine ⟨h1, rfl, rfl, rfl, rfl, fun hn => absurd hl hn, fun _ _ => ⟨fun _ => rfl, fun hh => (by cases hh)⟩, ?_⟩
          intro _ hs hnl
          rcases hrm with hm | hm
          · rw [hm] at hs; cases hs
          · rw [hm] at hnl; cases hnl
        | true =>
          obtain ⟨a1, a2, a3, a4, a5, a6, a7, a8⟩ := h3 hsd
          refine ⟨h1, a6, a7, a2, a8, fun hn => absurd hl hn,
            fun _ _ => ⟨fun hh => (by cases hh), fun _ => ⟨a1, a3, a4, a5⟩⟩, ?_⟩
          intro _ hs hnl
          rcases hrm with hm | hm
          · rw [hm] at hs; cases hs
          · rw [hm] at hnl; cases hnl
      · have hs : (mapGet trk r.cfg.id).isSome = true := by
          cases hm : mapGet trk r.cfg.id with
          | none => exact absurd (Or.inl hm) hrm
          | some _ => rfl
        have hnl : selfLearner r trk = false := by
          cases hm : selfLearner r trk with
          | false => rfl
          | true => exact absurd (Or.inr hm) hrm
        obtain ⟨h1, hk⟩ := (switchToConfig_leader_stays cfg trk r hl hs hnl).elim h
        refine ⟨h1, hk.trkCfg, hk.isLearner, hk.term, hk.cfg, fun hn => absurd hl hn,
          fun _ hh => absurd hh hrm, fun _ _ _ => ⟨hk.state.trans hl, hk.lead, hk.commit⟩⟩
    · rw [switchToConfig_nonleader_run cfg trk r hl] at h
      simp only [Except.ok.injEq, Prod.mk.injEq] at h
      obtain ⟨rfl, rfl⟩ := h
      exact ⟨rfl, rfl, rfl, rfl, rfl, fun _ => rfl, fun hh => absurd hh hl, fun hh => absurd hh hl⟩

end RaftVerif.Conf10
