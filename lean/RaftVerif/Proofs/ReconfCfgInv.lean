import RaftVerif.Proofs.ReconfLog
import RaftVerif.Proofs.ReconfConf
/-!
# Stage 2c: the configuration invariant `InvC`

Structural facts about configuration entries, applied indexes and `pendingConfIndex` that do not
need any quorum argument:
* `applied ≤ commit` everywhere;
* `p2`: two configuration entries in one log (any version) — the lower one is committed in that
  version (every `MsgApp` carries the leader's commit index);
* every configuration entry of a ghost log is an allowed transition from the one before;
* a leader has no configuration entry above `pendingConfIndex`, at most one above its applied index;
* what the winner of a term looked like at its election (`eapp ≤ ecommit ≤ elen`, …);
* the structural part of the record of every `leaderCommit`.
-/
namespace RaftVerif.SpecR

/-- a well-formed log inherits the chain property of the ghost logs -/
theorem chain_of_logwf {c0 : Conf} {g : Nat → Log} {τ : Nat} {L : Log} (hg : ∀ T, CfgChain c0 (g T))
    (h : LogWF g τ L) : CfgChain c0 L := by
  intro k hk c hc
  have ht : L.termAt (k + 1) = some (L[k]).term := by
    rw [Log.termAt_pos _ (by omega)]; simp [hk]
  have htk := h.ok (k + 1) _ (by omega) ht
  have hlen : k < (g (L[k]).term).length := by
    have := congrArg List.length htk
    rw [List.length_take, List.length_take] at this
    omega
  have he : (g (L[k]).term)[k] = L[k] := by
    have h1 : (List.take (k + 1) L)[k]? = (List.take (k + 1) (g (L[k]).term))[k]? := by rw [htk]
    rw [List.getElem?_take, List.getElem?_take, if_pos (by omega), if_pos (by omega),
      List.getElem?_eq_getElem hk, List.getElem?_eq_getElem hlen] at h1
    exact (Option.some.inj h1).symm
  have hcfg : L.cfgAt c0 k = (g (L[k]).term).cfgAt c0 k := by
    apply cfgAt_congr
    have := congrArg (List.take k) htk
    rwa [List.take_take, List.take_take, Nat.min_eq_left (by omega)] at this
  rw [hcfg]
  exact hg _ k hlen c (by rw [he]; exact hc)

theorem isCfg_append_left {l m : Log} {i : Nat} (hi : i ≤ l.length) : (l ++ m).isCfg i ↔ l.isCfg i :=
  isCfg_congr (List.take_append_of_le_length hi)

theorem isCfg_prefix {l m : Log} (h : l <+: m) {i : Nat} (hi : i ≤ l.length) : m.isCfg i ↔ l.isCfg i := by
  obtain ⟨r, rfl⟩ := h; exact isCfg_append_left hi

theorem isCfg_snoc {l : Log} {e : Ent} {i : Nat} (h : (l ++ [e]).isCfg i) :
    (i ≤ l.length ∧ l.isCfg i) ∨ (i = l.length + 1 ∧ e.cfg.isSome = true) := by
  have hb := isCfg_le h
  simp only [List.length_append, List.length_cons, List.length_nil] at hb
  by_cases hi : i ≤ l.length
  · exact Or.inl ⟨hi, (isCfg_append_left hi).mp h⟩
  · right
    have hi' : i = l.length + 1 := by omega
    refine ⟨hi', ?_⟩
    obtain ⟨e', he', hc⟩ := h
    subst hi'
    simp [Log.at?] at he'
    rw [he']; exact hc

theorem isCfg_take {l : Log} {m i : Nat} (h : Log.isCfg (l.take m) i) : i ≤ m ∧ l.isCfg i := by
  have hb := isCfg_le h
  rw [List.length_take] at hb
  have him : i ≤ m := by omega
  refine ⟨him, ?_⟩
  obtain ⟨e, he, hc⟩ := h
  rw [Log.at?_take him] at he
  exact ⟨e, he, hc⟩

/-- what the winner of term `T` looked like when it was elected -/
structure ElectOK (s : State) (T : Nat) : Prop where
  pos : 1 ≤ T
  app_le : s.eapp T ≤ s.ecommit T
  commit_le : s.ecommit T ≤ s.elen T
  len_le : s.elen T ≤ (s.glog T).length
  no_cfg : NoCfgIn (s.glog T) (s.eapp T) (s.ecommit T)
  one_cfg : AtMostOneCfg (s.glog T) (s.ecommit T) (s.elen T)
  terms : ∀ i, 1 ≤ i → i ≤ s.elen T → (s.glog T).termAt i ≠ some T
  own : ∀ i, s.elen T < i → i ≤ (s.glog T).length → (s.glog T).termAt i = some T

/-- the structural part of the record `(c, j, k)` of a `leaderCommit` -/
structure ChoiceOK (s : State) (c j k : Nat) : Prop where
  elected : ∃ n, (c, n) ∈ s.elected
  term : (s.glog c).termAt j = some c
  app_le : s.eapp c ≤ k
  lt : k < j
  one_cfg : AtMostOneCfg (s.glog c) k j
  src : k ≤ s.ecommit c ∨ ∃ j' k', (c, j', k') ∈ s.choices ∧ k ≤ j' ∧ j' < j

structure InvC (c0 : Conf) (s : State) : Prop where
  applied_le : ∀ n, (s.nodes n).applied ≤ (s.nodes n).vol.commit
  p2 : ∀ n w, w ∈ versions (s.nodes n) → ∀ i j, i < j → w.log.isCfg i → w.log.isCfg j → i ≤ w.commit
  app_p2 : ∀ t prev pt ents cm, Msg.app t prev pt ents cm ∈ s.msgs → ∀ i j, i < j →
    j ≤ prev + ents.length → (s.glog t).isCfg i → (s.glog t).isCfg j → i ≤ cm
  glog_chain : ∀ T, CfgChain c0 (s.glog T)
  leader_pending : ∀ n, (s.nodes n).role = .leader →
    NoCfgIn (s.nodes n).vol.log (s.nodes n).pendingConf (s.nodes n).vol.log.length
  leader_one : ∀ n, (s.nodes n).role = .leader →
    AtMostOneCfg (s.nodes n).vol.log (s.nodes n).applied (s.nodes n).vol.log.length
  leader_eapp : ∀ n, (s.nodes n).role = .leader → s.eapp (s.nodes n).vol.term ≤ (s.nodes n).applied
  leader_commit : ∀ n, (s.nodes n).role = .leader →
    (s.nodes n).vol.commit = s.ecommit (s.nodes n).vol.term ∨
      ∃ k, ((s.nodes n).vol.term, (s.nodes n).vol.commit, k) ∈ s.choices
  cand_guard : ∀ n, (s.nodes n).role = .candidate →
    NoCfgIn (s.nodes n).vol.log (s.nodes n).applied (s.nodes n).vol.commit
  cand_terms : ∀ n, (s.nodes n).role = .candidate →
    ∀ e ∈ (s.nodes n).vol.log, e.term < (s.nodes n).vol.term
  elect : ∀ T n, (T, n) ∈ s.elected → ElectOK s T
  choice : ∀ c j k, (c, j, k) ∈ s.choices → ChoiceOK s c j k

theorem invC_init (c0 : Conf) : InvC c0 State.init := by
  constructor
  · intro n; simp [State.init]
  · intro n w hw i j _ hi
    simp [versions, State.init] at hw
    subst hw
    have := isCfg_le hi
    simp at this; omega
  · intro t prev pt ents cm h; simp [State.init] at h
  · intro T k hk; simp [State.init] at hk
  all_goals simp [State.init]

/-- a node that is leader after a step: either just elected, or it was leader and at most one of
log / commit / applied changed, by the corresponding leader action -/
theorem leader_cases (c0 : Conf) (s : State) (a : Action) (m : NodeId) (he : enabled c0 s a)
    (hr : ((apply s a).nodes m).role = .leader) :
    (∃ q, a = .becomeLeader m q) ∨
    ((s.nodes m).role = .leader ∧ ((apply s a).nodes m).vol.term = (s.nodes m).vol.term ∧
      ((((apply s a).nodes m).vol.log = (s.nodes m).vol.log ∧
          ((apply s a).nodes m).pendingConf = (s.nodes m).pendingConf) ∨
        (∃ v, a = .leaderAppend m v) ∨ (∃ v c, a = .leaderAppendCfg m v c)) ∧
      (((apply s a).nodes m).vol.commit = (s.nodes m).vol.commit ∨ ∃ c q, a = .leaderCommit m c q) ∧
      (((apply s a).nodes m).applied = (s.nodes m).applied ∨ ∃ k, a = .applyTo m k)) := by
  by_cases hm : m = a.actor
  · rw [hm, apply_nodes_self] at hr
    rw [hm, apply_nodes_self]
    cases a <;> simp only [Action.actor] at hm <;> subst hm <;>
      simp only [nodeAfter, roleAfter, Action.actor, reduceCtorEq] at hr ⊢
    case becomeLeader q => exact Or.inl ⟨q, rfl⟩
    case persist =>
      right
      cases hp : (s.nodes m).pending <;> simp [hp] at hr ⊢ <;> exact hr
    case leaderAppend v => exact Or.inr ⟨hr, by simp [volAfter, Action.actor], Or.inr (Or.inl ⟨v, rfl⟩), by simp [volAfter, Action.actor], by simp [appliedAfter, Action.actor]⟩
    case leaderAppendCfg v c => exact Or.inr ⟨hr, by simp [volAfter, Action.actor], Or.inr (Or.inr ⟨v, c, rfl⟩), by simp [volAfter, Action.actor], by simp [appliedAfter, Action.actor]⟩
    case leaderCommit c q => exact Or.inr ⟨hr, by simp [volAfter, Action.actor], Or.inl (by simp [volAfter, pendingAfter, Action.actor]), Or.inr ⟨c, q, rfl⟩, by simp [appliedAfter, Action.actor]⟩
    case applyTo k => exact Or.inr ⟨hr, by simp [volAfter, Action.actor], Or.inl (by simp [volAfter, pendingAfter, Action.actor]), by simp [volAfter, Action.actor], Or.inr ⟨k, rfl⟩⟩
    all_goals
      right
      simp [volAfter, appliedAfter, pendingAfter, Action.actor, hr]
  · rw [apply_nodes_ne s a m hm] at hr ⊢
    exact Or.inr ⟨hr, rfl, Or.inl ⟨rfl, rfl⟩, Or.inl rfl, Or.inl rfl⟩

theorem volAfter_commit_ge (s : State) (a : Action) (c0 : Conf) (he : enabled c0 s a)
    (h : a.isCrash = false) : (s.nodes a.actor).vol.commit ≤ (volAfter s a).commit := by
  cases a <;> simp only [Action.isCrash, Bool.true_eq_false] at h <;>
    simp only [volAfter, Action.actor, Nat.le_refl]
  case leaderCommit n c q => simp only [enabled] at he; omega
  case handleApp n t prev pt ents c => split <;> simp only [Nat.le_refl]; omega
  case handleSnap n t pre => (repeat' split) <;> simp only [Nat.le_refl] <;> omega
  case handleHb n t c => omega

theorem applied_le_step (c0 : Conf) (s : State) (a : Action) (he : enabled c0 s a)
    (h : ∀ n, (s.nodes n).applied ≤ (s.nodes n).vol.commit) :
    ∀ n, ((apply s a).nodes n).applied ≤ ((apply s a).nodes n).vol.commit := by
  intro n
  by_cases hn : n = a.actor
  · subst hn
    rw [apply_nodes_self]
    have h0 := h a.actor
    by_cases hst : a.isStorage = false
    · rw [nodeAfter_eq s a hst]
      have hcr : a.isCrash = false := by cases a <;> simp_all [Action.isStorage, Action.isCrash]
      have hge := volAfter_commit_ge s a c0 he hcr
      show appliedAfter s a ≤ (volAfter s a).commit
      cases a <;> simp only [appliedAfter, Action.actor] at h0 hge ⊢ <;> try omega
      case crash => simp [Action.isStorage] at hst
      case applyTo n k => simp only [enabled] at he; simp only [volAfter, Action.actor]; omega
      case handleSnap n t pre =>
        simp only [volAfter]
        (repeat' split) <;> (try simp only) <;> omega
    · cases a <;> simp [Action.isStorage] at hst <;> simp only [nodeAfter, Action.actor] at h0 ⊢
      case write n => exact h0
      case persist n => cases (s.nodes n).pending <;> exact h0
      case crash n k => exact he
  · rw [apply_nodes_ne _ _ _ hn]; exact h n

/-- a node that is candidate after a step: it just campaigned, or it was candidate with the same log
and commit index (only the applied index may have advanced) -/
theorem cand_cases (c0 : Conf) (s : State) (a : Action) (m : NodeId) (he : enabled c0 s a)
    (hr : ((apply s a).nodes m).role = .candidate) :
    a = .campaign m ∨
    ((s.nodes m).role = .candidate ∧ ((apply s a).nodes m).vol.log = (s.nodes m).vol.log ∧
      ((apply s a).nodes m).vol.term = (s.nodes m).vol.term ∧
      ((apply s a).nodes m).vol.commit = (s.nodes m).vol.commit ∧
      (((apply s a).nodes m).applied = (s.nodes m).applied ∨ ∃ k, a = .applyTo m k)) := by
  by_cases hm : m = a.actor
  · rw [hm, apply_nodes_self] at hr
    rw [hm, apply_nodes_self]
    cases a <;> simp only [Action.actor] at hm <;> subst hm <;>
      simp only [nodeAfter, roleAfter, Action.actor, reduceCtorEq] at hr ⊢
    case campaign => exact Or.inl trivial
    case persist =>
      right
      cases hp : (s.nodes m).pending <;> simp [hp] at hr ⊢ <;> exact hr
    case applyTo k => exact Or.inr ⟨hr, by simp [volAfter, Action.actor], by simp [volAfter, Action.actor], by simp [volAfter, Action.actor], Or.inr ⟨k, rfl⟩⟩
    case leaderAppend v => simp only [enabled] at he; rw [he] at hr; simp at hr
    case leaderAppendCfg v c => simp only [enabled] at he; rw [he.1] at hr; simp at hr
    case leaderCommit c q => simp only [enabled] at he; rw [he.1] at hr; simp at hr
    all_goals
      right
      simp [volAfter, appliedAfter, Action.actor, hr]
  · rw [apply_nodes_ne s a m hm] at hr ⊢
    exact Or.inr ⟨hr, rfl, rfl, rfl, Or.inl rfl⟩

set_option linter.unusedSectionVars false
set_option linter.unusedVariables false

section Step
variable {c0 : Conf} {s : State} {a : Action}
  (h1 : Inv1 c0 s) (h2 : Inv2 s) (hC : InvC c0 s) (he : enabled c0 s a) (hf : Fresh s a)
  (hnd : ElectedNodup s)
include h1 h2 hC he hf hnd

theorem p2_step : ∀ n w, w ∈ versions ((apply s a).nodes n) → ∀ i j, i < j → w.log.isCfg i →
    w.log.isCfg j → i ≤ w.commit := by
  have hvol : ∀ n, (s.nodes n).vol ∈ versions (s.nodes n) := fun n => by simp [versions]
  intro n w hw
  rcases versions_step s a n w hw with hw | ⟨rfl, hst, rfl⟩
  · exact hC.p2 n w hw
  · have hold := hC.p2 _ _ (hvol a.actor)
    have hcr : a.isCrash = false := by cases a <;> simp_all [Action.isStorage, Action.isCrash]
    have hge := volAfter_commit_ge s a c0 he hcr
    intro i j hij hi hj
    -- log unchanged: the commit index only grew
    have same : (volAfter s a).log = (s.nodes a.actor).vol.log → i ≤ (volAfter s a).commit := by
      intro hl; rw [hl] at hi hj
      exact Nat.le_trans (hold i j hij hi hj) hge
    cases a <;> simp only [Action.actor] at hold hge same <;> try exact same rfl
    case crash => simp [Action.isStorage] at hst
    case leaderAppend n v =>
      simp only [volAfter] at hi hj ⊢
      rcases isCfg_snoc hj with ⟨hjl, hj'⟩ | ⟨_, hc⟩
      · exact hold i j hij ((isCfg_append_left (by omega)).mp hi) hj'
      · simp at hc
    case leaderAppendCfg n v c =>
      simp only [volAfter] at hi hj ⊢
      simp only [enabled] at he
      rcases isCfg_snoc hj with ⟨hjl, hj'⟩ | ⟨hjl, _⟩
      · exact hold i j hij ((isCfg_append_left (by omega)).mp hi) hj'
      · have hi' := (isCfg_append_left (by omega)).mp hi
        have hb := isCfg_le hi'
        have := hC.leader_pending n he.1
        have hap := hC.applied_le n
        rcases Nat.lt_or_ge (s.nodes n).pendingConf i with hlt | hge'
        · exact absurd hi' (this i hlt hb.2)
        · omega
    case handleApp n t prev pt ents cm =>
      cases hr : appendResult (s.nodes n).vol.log prev pt ents with
      | none => simp only [volAfter, hr] at same ⊢; exact same trivial
      | some lnew =>
        simp only [volAfter, hr] at hi hj same ⊢
        obtain ⟨hlen, hres⟩ := handleApp_result h2 he hr
        rcases hres with ⟨rfl, _, _⟩ | ⟨rfl, _⟩
        · exact same rfl
        · obtain ⟨hjm, hj'⟩ := isCfg_take hj
          obtain ⟨_, hi'⟩ := isCfg_take hi
          simp only [enabled] at he
          have := hC.app_p2 _ _ _ _ _ he.1 i j hij hjm hi' hj'
          omega
    case handleSnap n t pre =>
      simp only [volAfter] at hi hj same ⊢
      split
      · rename_i h; simp only [h, ↓reduceIte] at same; exact same trivial
      · rename_i h
        simp only [h, ↓reduceIte] at hi hj same
        split
        · rename_i h'; simp only [h', ↓reduceIte] at same; exact same trivial
        · rename_i h'
          simp only [h', ↓reduceIte] at hj ⊢
          have := isCfg_le hj
          omega

theorem app_p2_step : ∀ t prev pt ents cm, Msg.app t prev pt ents cm ∈ (apply s a).msgs →
    ∀ i j, i < j → j ≤ prev + ents.length → ((apply s a).glog t).isCfg i →
      ((apply s a).glog t).isCfg j → i ≤ cm := by
  have hext := glog_ext c0 s a hf h1 h2 he
  intro t prev pt ents cm hm i j hij hjl hi hj
  rw [mem_apply_msgs] at hm
  rcases hm with hm | hm
  · obtain ⟨n, cnt, rfl, rfl, rfl, rfl, rfl⟩ := app_mem_newMsgs s a t prev pt ents cm hm
    simp only [enabled] at he
    have hl := h2.leader_log n he.1
    have hg : (apply s (.sendApp n prev cnt)).glog = s.glog := by rw [apply_glog]; rfl
    rw [hg, ← hl] at hi hj
    exact hC.p2 n _ (by simp [versions]) i j hij hi hj
  · obtain ⟨_, hp, _, hents⟩ := h2.app_msg t prev pt ents cm hm
    have hlen : prev + ents.length ≤ (s.glog t).length := by
      have := hents.length_le
      rw [List.length_drop] at this
      omega
    rw [isCfg_prefix (hext t) (by omega)] at hi hj
    exact hC.app_p2 t prev pt ents cm hm i j hij hjl hi hj

theorem glog_chain_step : ∀ T, CfgChain c0 ((apply s a).glog T) := by
  intro T
  rcases glog_step s a T with h | ⟨n, q, rfl, rfl, h⟩ | ⟨n, v, c, happ, rfl, h⟩
  · rw [h]; exact hC.glog_chain T
  · rw [h]; exact chain_of_logwf hC.glog_chain (h2.ver_log n _ (by simp [versions]))
  · rw [h]
    have hl := h2.leader_log n (happ.leader he)
    have hch : CfgChain c0 (s.nodes n).vol.log := hl ▸ hC.glog_chain _
    intro k hk c' hc'
    simp only [List.length_append, List.length_cons, List.length_nil] at hk
    by_cases hkl : k < (s.nodes n).vol.log.length
    · rw [cfgAt_prefix c0 (List.prefix_append _ _) (Nat.le_of_lt hkl)]
      rw [List.getElem_append_left hkl] at hc'
      exact hch k hkl c' hc'
    · have hk' : k = (s.nodes n).vol.log.length := by omega
      subst hk'
      rw [cfgAt_prefix c0 (List.prefix_append _ _) (Nat.le_refl _)]
      simp only [List.getElem_append_right (Nat.le_refl _), Nat.sub_self, List.getElem_cons_zero] at hc'
      rcases happ with ⟨rfl, rfl⟩ | ⟨c'', rfl, rfl⟩
      · simp at hc'
      · simp only [Option.some.injEq] at hc'
        subst hc'
        simp only [enabled] at he
        have hno := (hC.leader_pending n he.1).mono he.2.1 (Nat.le_refl _)
        have hb := Nat.le_trans (hC.applied_le n) (h2.ver_commit n _ (by simp [versions]))
        rw [cfgAt_eq_of_noCfg c0 _ hb hno]
        exact he.2.2

theorem leader_pending_step : ∀ m, ((apply s a).nodes m).role = .leader →
    NoCfgIn ((apply s a).nodes m).vol.log ((apply s a).nodes m).pendingConf
      ((apply s a).nodes m).vol.log.length := by
  intro m hr
  rcases leader_cases c0 s a m he hr with ⟨q, rfl⟩ | ⟨hr0, _, hlog, _, _⟩
  · intro i hi1 hi2
    simp [apply_nodes, Action.actor, nodeAfter, volAfter, pendingAfter] at hi1 hi2
    omega
  · have hold := hC.leader_pending m hr0
    rcases hlog with ⟨hl, hp⟩ | ⟨v, rfl⟩ | ⟨v, c, rfl⟩
    · rw [hl, hp]; exact hold
    · intro i hi1 hi2 hc
      simp [apply_nodes, Action.actor, nodeAfter, volAfter, pendingAfter] at hi1 hi2 hc
      rcases isCfg_snoc hc with ⟨hil, hc'⟩ | ⟨_, hc'⟩
      · exact hold i hi1 hil hc'
      · simp at hc'
    · intro i hi1 hi2
      simp [apply_nodes, Action.actor, nodeAfter, volAfter, pendingAfter] at hi1 hi2
      omega

theorem leader_one_step : ∀ m, ((apply s a).nodes m).role = .leader →
    AtMostOneCfg ((apply s a).nodes m).vol.log ((apply s a).nodes m).applied
      ((apply s a).nodes m).vol.log.length := by
  intro m hr
  rcases leader_cases c0 s a m he hr with ⟨q, rfl⟩ | ⟨hr0, _, hlog, _, happ⟩
  · simp only [enabled] at he
    have hg := hC.cand_guard m he.1
    have hp2 := hC.p2 m _ (show (s.nodes m).vol ∈ versions (s.nodes m) by simp [versions])
    intro i j hi1 hij hj2 hi hj
    simp [apply_nodes, Action.actor, nodeAfter, volAfter, appliedAfter] at hi1 hj2 hi hj
    exact hg i hi1 (hp2 i j hij hi hj) hi
  · have hold := hC.leader_one m hr0
    have hge : (s.nodes m).applied ≤ ((apply s a).nodes m).applied := by
      rcases happ with h | ⟨k, rfl⟩
      · omega
      · simp only [enabled] at he
        simp [apply_nodes, Action.actor, nodeAfter, appliedAfter]; omega
    rcases hlog with ⟨hl, _⟩ | ⟨v, rfl⟩ | ⟨v, c, rfl⟩
    · rw [hl]; exact hold.mono hge (Nat.le_refl _)
    · intro i j hi1 hij hj2 hi hj
      simp [apply_nodes, Action.actor, nodeAfter, volAfter, appliedAfter] at hi1 hj2 hi hj
      rcases isCfg_snoc hj with ⟨hjl, hj'⟩ | ⟨_, hc'⟩
      · exact hold i j hi1 hij hjl ((isCfg_append_left (by omega)).mp hi) hj'
      · simp at hc'
    · intro i j hi1 hij hj2 hi hj
      simp [apply_nodes, Action.actor, nodeAfter, volAfter, appliedAfter] at hi1 hj2 hi hj
      simp only [enabled] at he
      have hno := (hC.leader_pending m he.1).mono he.2.1 (Nat.le_refl _)
      have hi' := (isCfg_append_left (by omega)).mp hi
      exact hno i hi1 (isCfg_le hi').2 hi'

omit h1 h2 hC he hnd in
/-- the election ghosts of a term somebody was elected in never change -/
theorem ghost_keep {T : Nat} {n : NodeId} (hel : (T, n) ∈ s.elected) :
    (apply s a).eapp T = s.eapp T ∧ (apply s a).ecommit T = s.ecommit T ∧
      (apply s a).elen T = s.elen T := by
  rw [apply_eapp, apply_ecommit, apply_elen]
  cases a <;> simp only [eappAfter, ecommitAfter, elenAfter, and_self]
  case becomeLeader m q =>
    have : T ≠ (s.nodes m).vol.term := fun h => hf m q rfl n (h ▸ hel)
    simp [this]

theorem leader_eapp_step : ∀ m, ((apply s a).nodes m).role = .leader →
    (apply s a).eapp ((apply s a).nodes m).vol.term ≤ ((apply s a).nodes m).applied := by
  intro m hr
  rcases leader_cases c0 s a m he hr with ⟨q, rfl⟩ | ⟨hr0, hterm, _, _, happ⟩
  · simp [apply_nodes, Action.actor, nodeAfter, volAfter, appliedAfter, apply_eapp, eappAfter]
  · rw [hterm, (ghost_keep hf (h1.leader_elected m hr0)).1]
    have hold := hC.leader_eapp m hr0
    rcases happ with h | ⟨k, rfl⟩
    · omega
    · simp only [enabled] at he
      simp [apply_nodes, Action.actor, nodeAfter, appliedAfter]; omega

theorem leader_commit_step : ∀ m, ((apply s a).nodes m).role = .leader →
    ((apply s a).nodes m).vol.commit = (apply s a).ecommit ((apply s a).nodes m).vol.term ∨
      ∃ k, (((apply s a).nodes m).vol.term, ((apply s a).nodes m).vol.commit, k) ∈
        (apply s a).choices := by
  intro m hr
  rcases leader_cases c0 s a m he hr with ⟨q, rfl⟩ | ⟨hr0, hterm, _, hcommit, _⟩
  · left
    simp [apply_nodes, Action.actor, nodeAfter, volAfter, apply_ecommit, ecommitAfter]
  · rw [hterm, (ghost_keep hf (h1.leader_elected m hr0)).2.1, apply_choices]
    rcases hcommit with h | ⟨c, q, rfl⟩
    · rw [h]
      rcases hC.leader_commit m hr0 with h' | ⟨k, hk⟩
      · exact Or.inl h'
      · exact Or.inr ⟨k, List.mem_append_right _ hk⟩
    · right
      refine ⟨(s.nodes m).applied, List.mem_append_left _ ?_⟩
      simp [newChoices, apply_nodes, Action.actor, nodeAfter, volAfter]

theorem cand_guard_step : ∀ m, ((apply s a).nodes m).role = .candidate →
    NoCfgIn ((apply s a).nodes m).vol.log ((apply s a).nodes m).applied
      ((apply s a).nodes m).vol.commit := by
  intro m hr
  rcases cand_cases c0 s a m he hr with rfl | ⟨hr0, hl, _, hc, happ⟩
  · simp only [enabled] at he
    have := hasCfgIn_false he.2.2
    simpa [apply_nodes, Action.actor, nodeAfter, volAfter, appliedAfter] using this
  · rw [hl, hc]
    have hold := hC.cand_guard m hr0
    rcases happ with h | ⟨k, rfl⟩
    · rw [h]; exact hold
    · simp only [enabled] at he
      apply hold.mono _ (Nat.le_refl _)
      simp [apply_nodes, Action.actor, nodeAfter, appliedAfter]; omega

theorem elect_step : ∀ T n, (T, n) ∈ (apply s a).elected → ElectOK (apply s a) T := by
  have hext := glog_ext c0 s a hf h1 h2 he
  intro T n hel
  rw [mem_apply_elected] at hel
  rcases hel with hel | hel
  · obtain ⟨q, rfl, rfl⟩ := mem_newElected s _ T n hel
    have hvol : (s.nodes n).vol ∈ versions (s.nodes n) := by simp [versions]
    have hg : (apply s (.becomeLeader n q)).glog (s.nodes n).vol.term = (s.nodes n).vol.log := by
      rw [apply_glog]; simp [glogAfter]
    have hcand : (s.nodes n).role = .candidate := by simp only [enabled] at he; exact he.1
    constructor
    · exact (h1.nodes n).active_term (by rw [hcand]; simp)
    · simp [apply_eapp, apply_ecommit, eappAfter, ecommitAfter]; exact hC.applied_le n
    · simp [apply_elen, apply_ecommit, elenAfter, ecommitAfter]; exact h2.ver_commit n _ hvol
    · rw [hg]; simp [apply_elen, elenAfter]
    · rw [hg]; simp [apply_eapp, apply_ecommit, eappAfter, ecommitAfter]; exact hC.cand_guard n hcand
    · rw [hg]; simp [apply_elen, apply_ecommit, elenAfter, ecommitAfter]
      intro i j hi1 hij _ hi hj
      have := hC.p2 n _ hvol i j hij hi hj
      omega
    · rw [hg]
      intro i hi1 _ ht
      have hg0 : s.glog (s.nodes n).vol.term = [] := h2.glog_unelected _ (hf n q rfl)
      have := (h2.ver_log n _ hvol).ok i _ hi1 ht
      have hl := Log.termAt_le ht
      have := congrArg List.length this
      rw [hg0, List.length_take] at this
      simp only [List.take_nil, List.length_nil] at this
      omega
    · rw [hg]; simp only [apply_elen, elenAfter, ↓reduceIte]
      intro i hi1 hi2; omega
  · obtain ⟨e1, e2, e3⟩ := ghost_keep hf hel
    have hold := hC.elect T n hel
    have hle := hold.len_le
    have hcl := hold.commit_le
    constructor
    · exact hold.pos
    · rw [e1, e2]; exact hold.app_le
    · rw [e2, e3]; exact hold.commit_le
    · rw [e3]; exact Nat.le_trans hold.len_le (hext T).length_le
    · rw [e1, e2]
      intro i hi1 hi2 hc
      exact hold.no_cfg i hi1 hi2 ((isCfg_prefix (hext T) (by omega)).mp hc)
    · rw [e2, e3]
      intro i j hi1 hij hj2 hi hj
      exact hold.one_cfg i j hi1 hij hj2 ((isCfg_prefix (hext T) (by omega)).mp hi)
        ((isCfg_prefix (hext T) (by omega)).mp hj)
    · rw [e3]
      intro i hi1 hi2
      rw [Log.termAt_prefix (hext T) (by omega)]
      exact hold.terms i hi1 hi2
    · rw [e3]
      intro i hi1 hi2
      rcases glog_step s a T with h | ⟨m, q, rfl, rfl, h⟩ | ⟨m, v, c, happ, rfl, h⟩
      · rw [h] at hi2 ⊢; exact hold.own i hi1 hi2
      · exact absurd hel (hf m q rfl n)
      · rw [h] at hi2 ⊢
        have hl := h2.leader_log m (happ.leader he)
        simp only [List.length_append, List.length_cons, List.length_nil] at hi2
        by_cases hil : i ≤ (s.nodes m).vol.log.length
        · rw [Log.termAt_append_left hil, hl]
          exact hold.own i hi1 (by rw [← hl]; exact hil)
        · have : i = (s.nodes m).vol.log.length + 1 := by omega
          subst this
          rw [Log.termAt_pos _ (by omega)]
          simp

theorem choice_step : ∀ c j k, (c, j, k) ∈ (apply s a).choices → ChoiceOK (apply s a) c j k := by
  have hext := glog_ext c0 s a hf h1 h2 he
  intro c j k hch
  rw [apply_choices, List.mem_append] at hch
  rcases hch with hch | hch
  · cases a <;> simp only [newChoices, List.not_mem_nil] at hch
    case leaderCommit n cc q =>
      simp only [List.mem_cons, Prod.mk.injEq, List.not_mem_nil, or_false] at hch
      obtain ⟨rfl, rfl, rfl⟩ := hch
      simp only [enabled] at he
      obtain ⟨hr, hlt, hterm, _, _⟩ := he
      have hl := h2.leader_log n hr
      have hg : (apply s (.leaderCommit n j q)).glog = s.glog := by rw [apply_glog]; rfl
      have e1 : (apply s (.leaderCommit n j q)).eapp = s.eapp := by rw [apply_eapp]; rfl
      have e2 : (apply s (.leaderCommit n j q)).ecommit = s.ecommit := by rw [apply_ecommit]; rfl
      have hap := hC.applied_le n
      constructor
      · exact ⟨n, elected_mono s _ _ (h1.leader_elected n hr)⟩
      · rw [hg, ← hl]; exact hterm
      · rw [e1]; exact hC.leader_eapp n hr
      · omega
      · rw [hg, ← hl]
        exact (hC.leader_one n hr).mono (Nat.le_refl _) (Log.termAt_le hterm)
      · rw [e2, apply_choices]
        rcases hC.leader_commit n hr with h | ⟨k', hk'⟩
        · left; omega
        · exact Or.inr ⟨_, k', List.mem_append_right _ hk', hap, hlt⟩
  · have hold := hC.choice c j k hch
    obtain ⟨n, hn⟩ := hold.elected
    obtain ⟨e1, e2, _⟩ := ghost_keep hf hn
    have hj : j ≤ (s.glog c).length := Log.termAt_le hold.term
    constructor
    · exact ⟨n, elected_mono s a _ hn⟩
    · rw [Log.termAt_prefix (hext c) hj]; exact hold.term
    · rw [e1]; exact hold.app_le
    · exact hold.lt
    · intro i i' hi1 hii hi2 hi hi'
      exact hold.one_cfg i i' hi1 hii hi2 ((isCfg_prefix (hext c) (by omega)).mp hi)
        ((isCfg_prefix (hext c) (by omega)).mp hi')
    · rw [e2, apply_choices]
      rcases hold.src with h | ⟨j', k', hm, hle, hlt⟩
      · exact Or.inl h
      · exact Or.inr ⟨j', k', List.mem_append_right _ hm, hle, hlt⟩

theorem cand_terms_step : ∀ m, ((apply s a).nodes m).role = .candidate →
    ∀ e ∈ ((apply s a).nodes m).vol.log, e.term < ((apply s a).nodes m).vol.term := by
  intro m hr
  rcases cand_cases c0 s a m he hr with rfl | ⟨hr0, hl, ht, _, _⟩
  · intro e hm
    simp [apply_nodes, Action.actor, nodeAfter, volAfter] at hm ⊢
    have := ((h2.ver_log m _ (show (s.nodes m).vol ∈ versions (s.nodes m) by simp [versions])).terms e hm).2
    omega
  · rw [hl, ht]; exact hC.cand_terms m hr0

theorem invC_step : InvC c0 (apply s a) :=
  ⟨applied_le_step c0 s a he hC.applied_le, p2_step h1 h2 hC he hf hnd, app_p2_step h1 h2 hC he hf hnd,
   glog_chain_step h1 h2 hC he hf hnd, leader_pending_step h1 h2 hC he hf hnd,
   leader_one_step h1 h2 hC he hf hnd, leader_eapp_step h1 h2 hC he hf hnd,
   leader_commit_step h1 h2 hC he hf hnd, cand_guard_step h1 h2 hC he hf hnd,
   cand_terms_step h1 h2 hC he hf hnd, elect_step h1 h2 hC he hf hnd, choice_step h1 h2 hC he hf hnd⟩

end Step

end RaftVerif.SpecR
