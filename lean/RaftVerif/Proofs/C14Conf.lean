import RaftVerif.Props.C13
/-!
# Proofs/C14Conf — the error sites of `Model/ConfChange.lean` (Go `error` values, which `raft.go` turns
into panics in `applyConfChange`, `restore` and `newRaft`): full case analysis of `Changer.apply`, `simple`,
`enterJoint`, `leaveJoint`.  Helper lemmas for `Props/C14.lean`.  Core Lean only.
-/
set_option linter.unusedSimpArgs false
namespace RaftVerif.C14

theorem checkInvariants_error_iff (cfg : TrackerConfig) (trk : ProgressMap) :
    (∃ e, checkInvariants cfg trk = .error e) ↔ ¬ ConfInv cfg trk := by
  rw [← checkInvariants_ok_iff]
  cases checkInvariants cfg trk with
  | error e => simp
  | ok u => cases u; simp

theorem apply_error_iff (c : Changer) (cfg : TrackerConfig) (trk : ProgressMap) (ccs : List ConfChangeSingle)
    (e : String) :
    c.apply cfg trk ccs = .error e ↔
      e = "removed all voters" ∧ (ccs.foldl (applyStep c) (cfg, trk)).1.voters = [] := by
  rw [apply_eq]
  by_cases h : (ccs.foldl (applyStep c) (cfg, trk)).1.voters.length = 0
  · rw [if_pos h]
    have := List.length_eq_zero_iff.mp h
    simp only [Except.error.injEq, this, and_true]
    exact eq_comm
  · rw [if_neg h]
    have : (ccs.foldl (applyStep c) (cfg, trk)).1.voters ≠ [] := fun hx => h (by rw [hx]; rfl)
    simp [this]

/-- full case analysis of `Changer.simple` -/
theorem simple_eq (c : Changer) (ccs : List ConfChangeSingle) :
    c.simple ccs =
      match checkInvariants c.tracker.cfg.clone c.tracker.progress with
      | .error e => .error e
      | .ok _ =>
        if joint c.tracker.cfg.clone = true then .error "can't apply simple config change in joint config"
        else if (ccs.foldl (applyStep c) (c.tracker.cfg.clone, c.tracker.progress)).1.voters.length = 0 then
          .error "removed all voters"
        else if symdiff c.tracker.cfg.voters
            (ccs.foldl (applyStep c) (c.tracker.cfg.clone, c.tracker.progress)).1.voters > 1 then
          .error "more than one voter changed without entering joint config"
        else
          match checkInvariants (ccs.foldl (applyStep c) (c.tracker.cfg.clone, c.tracker.progress)).1
                  (ccs.foldl (applyStep c) (c.tracker.cfg.clone, c.tracker.progress)).2 with
          | .error e => .error e
          | .ok _ => .ok (ccs.foldl (applyStep c) (c.tracker.cfg.clone, c.tracker.progress)) := by
  unfold Changer.simple Changer.checkAndCopy checkAndReturn
  cases hci : checkInvariants c.tracker.cfg.clone c.tracker.progress with
  | error e => rfl
  | ok u =>
    cases u
    simp only [pure_eq, ok_bind]
    by_cases hj : joint c.tracker.cfg.clone = true
    · rw [if_pos hj, if_pos hj]; rfl
    · rw [if_neg hj, if_neg hj, apply_eq]
      generalize ccs.foldl (applyStep c) (c.tracker.cfg.clone, c.tracker.progress) = s
      by_cases h0 : s.1.voters.length = 0
      · rw [if_pos h0, if_pos h0]; rfl
      · rw [if_neg h0, if_neg h0, ok_bind]
        by_cases hsd : symdiff c.tracker.cfg.voters s.1.voters > 1
        · rw [if_pos hsd, if_pos hsd]; rfl
        · rw [if_neg hsd, if_neg hsd]
          cases checkInvariants s.1 s.2 with
          | error e => rfl
          | ok u => cases u; rfl

/-- full case analysis of `Changer.enterJoint` -/
theorem enterJoint_eq (c : Changer) (al : Bool) (ccs : List ConfChangeSingle) :
    c.enterJoint al ccs =
      match checkInvariants c.tracker.cfg.clone c.tracker.progress with
      | .error e => .error e
      | .ok _ =>
        if joint c.tracker.cfg.clone = true then .error "config is already joint"
        else if c.tracker.cfg.clone.voters.length = 0 then .error "can't make a zero-voter config joint"
        else if (enterJointFold c ccs).1.voters.length = 0 then .error "removed all voters"
        else
          match checkInvariants { (enterJointFold c ccs).1 with autoLeave := al } (enterJointFold c ccs).2 with
          | .error e => .error e
          | .ok _ => .ok ({ (enterJointFold c ccs).1 with autoLeave := al }, (enterJointFold c ccs).2) := by
  unfold Changer.enterJoint Changer.checkAndCopy checkAndReturn
  cases hci : checkInvariants c.tracker.cfg.clone c.tracker.progress with
  | error e => rfl
  | ok u =>
    cases u
    simp only [pure_eq, ok_bind]
    by_cases hj : joint c.tracker.cfg.clone = true
    · rw [if_pos hj, if_pos hj]; rfl
    · rw [if_neg hj, if_neg hj]
      by_cases hv : c.tracker.cfg.clone.voters.length = 0
      · rw [if_pos (by simpa using hv), if_pos hv]; rfl
      · rw [if_neg (by simpa using hv), if_neg hv, apply_eq]
        unfold enterJointFold
        generalize List.foldl (applyStep c) _ ccs = s
        by_cases h0 : s.1.voters.length = 0
        · rw [if_pos h0, if_pos h0]; rfl
        · rw [if_neg h0, if_neg h0, ok_bind]
          cases checkInvariants { s.1 with autoLeave := al } s.2 with
          | error e => rfl
          | ok u => cases u; rfl

/-- full case analysis of `Changer.leaveJoint`; the "nil progress in LeaveJoint" site contributes no case: it
is excluded by the initial `checkInvariants` -/
theorem leaveJoint_eq (c : Changer) :
    c.leaveJoint =
      match checkInvariants c.tracker.cfg.clone c.tracker.progress with
      | .error e => .error e
      | .ok _ =>
        if joint c.tracker.cfg.clone = false then .error "can't leave a non-joint config"
        else
          match checkInvariants (leaveJointResult c).1 (leaveJointResult c).2 with
          | .error e => .error e
          | .ok _ => .ok (leaveJointResult c) := by
  unfold Changer.leaveJoint Changer.checkAndCopy checkAndReturn
  cases hci : checkInvariants c.tracker.cfg.clone c.tracker.progress with
  | error e => rfl
  | ok u =>
    cases u
    have hprog : ∀ id ∈ c.tracker.cfg.learnersNext.getD [], id ∈ keys c.tracker.progress := by
      intro id hid
      obtain ⟨pr, hpr⟩ := ((checkInvariants_ok_iff _ _).mp hci).progress id (Or.inr (Or.inr (Or.inr hid)))
      exact mapGet_some_mem_keys hpr
    simp only [pure_eq, ok_bind]
    by_cases hj : joint c.tracker.cfg.clone = false
    · rw [if_pos (by simp [hj]), if_pos hj]; rfl
    · rw [if_neg (by simpa using hj), if_neg hj]
      rw [forIn_inv_yield (c.tracker.cfg.clone.learnersNext.getD []) promoteStep
            (fun s => ∀ id ∈ c.tracker.cfg.learnersNext.getD [], id ∈ keys s.2)]
      · rw [ok_bind]
        unfold leaveJointResult
        simp only []
        generalize List.foldl promoteStep (c.tracker.cfg.clone, c.tracker.progress)
            (c.tracker.cfg.clone.learnersNext.getD []) = s1
        rw [forIn_pure_yield _ (dropStep s1.1)]
        · rw [ok_bind]
          cases checkInvariants _ _ with
          | error e => rfl
          | ok u => cases u; rfl
        · intro id s
          unfold dropStep
          split <;> rfl
      · exact hprog
      · intro a ha s hs
        obtain ⟨pr, hpr⟩ := exists_mapGet_of_mem_keys (hs a ha)
        constructor
        · unfold promoteStep; simp only [hpr]
        · intro id hid
          unfold promoteStep
          simp only [hpr, keys_mapInsert, mem_setInsert]
          exact Or.inr (hs id hid)

end RaftVerif.C14
