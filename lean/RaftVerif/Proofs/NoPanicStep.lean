import RaftVerif.Proofs.NoPanicInv
/-!
# Proofs/NoPanicStep — `NPC` is preserved by every environment step, given the per-operation preservation lemmas
(`NPKeeps`, model level)
-/
set_option linter.unusedSimpArgs false
namespace RaftVerif.NoPanicP
open Raft C14 Sim Refine Simulation

/-- the per-operation preservation lemmas for `NPInv`, at the level of the `Raft` state monad -/
structure NPKeeps (val : Val) (voters : List Id) : Prop where
  deliver : ∀ {n : Nat} {s : Spec.State} {r r' : Raft} {m : Message} {e : Option StepErr},
    RaftInv val voters n r (s.nodes n) s.msgs → Spec.Reachable (cfgOf voters) s → Covered m.typ →
    NetOK val s.msgs m → m.to = n → NetFrom m → PropEntries m → HbRespFrom m → NPInv n r →
    (Raft.step Raft.stepFuel m).run r = .ok (e, r') → NPInv n r'
  hup : ∀ {n : Nat} {s : Spec.State} {r r' : Raft} {e : Option StepErr},
    RaftInv val voters n r (s.nodes n) s.msgs → NPInv n r →
    (Raft.step Raft.stepFuel { typ := .hup }).run r = .ok (e, r') → NPInv n r'
  tick : ∀ {n : Nat} {s : Spec.State} {r r' : Raft},
    RaftInv val voters n r (s.nodes n) s.msgs → NPInv n r → Raft.tick.run r = .ok ((), r') → NPInv n r'
  propose : ∀ {n : Nat} {s : Spec.State} {r r' : Raft} {e : Option StepErr} (data : Option Bytes),
    RaftInv val voters n r (s.nodes n) s.msgs → NPInv n r →
    (Raft.step Raft.stepFuel { typ := .prop, «from» := r.cfg.id, entries := [{ data := data }] }).run r =
      .ok (e, r') → NPInv n r'
  sync : ∀ {n : Nat} {s : Spec.State} {rn rn' : RawNode} {rd : Ready} {draws : List Nat},
    NodeInv val voters n rn (s.nodes n) s.msgs → AuxInv n rn.raft → Settled rn.raft → MaaProm rn.raft →
    Spec.Reachable (cfgOf voters) s → NPInv n rn.raft → syncRound rn draws = .ok (rd, rn') →
    NPInv n rn'.raft ∧ ∀ x ∈ rd.messages, PropEntries x ∧ HbRespFrom x

/-- **`NPC` is preserved by every environment step** -/
theorem npc_step {val : Val} {voters : List Id} {c c' : Cluster} {s : Spec.State} (K : NPKeeps val voters)
    (hsorted : voters.Pairwise (· < ·)) (h0 : 0 ∉ voters) (hR : RSD val voters c s) (hN : NPC c)
    (hstep : EnvStep c c') : NPC c' := by
  have reach := hR.rs.ra.base.reach
  cases hstep with
  | deliver n rn rn' draws m e hn hm hto hc hrun =>
    have hnode := hR.rs.ra.base.nodes n rn hn
    rcases step_inv hrun with rfl | ⟨e0, r', hr, rfl⟩
    · rw [setNode_self hn]; exact hN
    · exact hN.lift0 n _ (K.deliver (hnode.inv.withDraws draws) reach hc (hR.rs.ra.base.net m hm) hto
        (hR.rs.ra.netFrom m hm) (hN.2 m hm).1 (hN.2 m hm).2 ((hN.1 n rn hn).withDraws draws) hr)
  | campaign n rn rn' draws e hn hrun =>
    have hnode := hR.rs.ra.base.nodes n rn hn
    obtain ⟨e0, r', hr, rfl⟩ := rstep_inv hrun
    exact hN.lift0 n _ (K.hup (hnode.inv.withDraws draws) ((hN.1 n rn hn).withDraws draws) hr)
  | tick n rn rn' draws hn hrun =>
    have hnode := hR.rs.ra.base.nodes n rn hn
    obtain ⟨r', hr, rfl⟩ := tick_inv hrun
    exact hN.lift0 n _ (K.tick (hnode.inv.withDraws draws) ((hN.1 n rn hn).withDraws draws) hr)
  | propose n rn rn' draws data e hn hrun =>
    have hnode := hR.rs.ra.base.nodes n rn hn
    obtain ⟨e0, r', hr, rfl⟩ := rstep_inv hrun
    exact hN.lift0 n _ (K.propose data (hnode.inv.withDraws draws) ((hN.1 n rn hn).withDraws draws) hr)
  | sync n rn rn' draws rd hn hrun =>
    have hnode := hR.rs.ra.base.nodes n rn hn
    obtain ⟨h1, h2⟩ := K.sync hnode (hR.rs.ra.aux n rn hn) (hR.rs.settled n rn hn) (hR.rs.prom n rn hn) reach
      (hN.1 n rn hn) hrun
    exact hN.lift n rn' rd.messages h1 h2
  | crash n rn rn' cfg draws hn hnv hid hpv has happ hnew =>
    have hnode := hR.rs.ra.base.nodes n rn hn
    exact hN.lift0 n rn' (npinv_restart hnode (hR.rs.settled n rn hn) (hR.dur n rn hn) hsorted h0 happ hnew)

/-- the initial cluster satisfies `NPC` -/
theorem npc_init {voters : List Id} {c0 : Cluster} (hsorted : voters.Pairwise (· < ·)) (h0 : 0 ∉ voters)
    (hc : InitCluster voters c0) : NPC c0 := by
  refine ⟨fun n rn hn => ?_, fun x hx => by rw [hc.1] at hx; cases hx⟩
  obtain ⟨hmem, cfg, draws, _, _, _, happ, hnew⟩ := hc.2 n rn hn
  exact npinv_init (fun hz => h0 (hz ▸ hmem)) hsorted h0 happ hnew

/-- every reachable cluster is related to a reachable Spec state and satisfies `NPC` -/
theorem reachable_rsd_npc {val : Val} {voters : List Id} {c0 c : Cluster} (K : NPKeeps val voters)
    (hsorted : voters.Pairwise (· < ·)) (hv0 : 0 ∉ voters) (hc : InitCluster voters c0) (h : CReachable c0 c) :
    ∃ s, RSD val voters c s ∧ NPC c := by
  induction h with
  | init => exact ⟨_, init_related hsorted hv0 hc, npc_init hsorted hv0 hc⟩
  | step _ hstep ih =>
    obtain ⟨s, hR, hN⟩ := ih
    obtain ⟨s', _, hR'⟩ := cluster_simulates hsorted hv0 hR hstep
    exact ⟨s', hR', npc_step K hsorted hv0 hR hN hstep⟩

end RaftVerif.NoPanicP
