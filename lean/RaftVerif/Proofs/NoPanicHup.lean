import RaftVerif.Proofs.NoPanicRaw
import RaftVerif.Proofs.SimCluster
/-!
# Proofs/NoPanicHup — `Raft.tick` and a stepped `MsgHup` never throw (given an election-timeout draw)

* `noErr_step_hup'` / `noErr_step_hup`: a local `MsgHup` on a well-formed log (PreVote or not).
* `noErr_tick'` / `noErr_tick`: the tick of a leader (heartbeat, `MsgCheckQuorum`) and of a non-leader (election).
* `campaign_done`, `tick_done_inv`: the `RawNode` operations under the node invariant of the simulation.
-/
set_option linter.unusedSimpArgs false
namespace RaftVerif.NoPanicP
open Raft C14 Sim Refine

/-- a stepped local `MsgHup` on a well-formed log, with a draw available, never throws -/
theorem noErr_step_hup' {r : Raft} (hwf : r.log.WF) (fuel : Nat) (m : Message)
    (hm : m.typ = .hup) (h0 : m.term = 0) (hd : r.draws ≠ []) : NoErr (Raft.step (fuel + 1) m) r := by
  intro e he
  rw [Live.step_hup_run fuel m r hm h0] at he
  cases hh : (hup (if r.cfg.preVote = true then .preElection else .election)).run r with
  | error e' => exact hd (panic_hup_only_harness _ r hwf e' hh).2.1
  | ok p => rw [hh] at he; cases he

/-- the election tick of a non-leader -/
theorem noErr_tickElection {r : Raft} (hwf : r.log.WF) (hd : r.draws ≠ []) : NoErr tickElection r := by
  by_cases hc : Live.promotableB r = true ∧ r.randomizedElectionTimeout ≤ r.electionElapsed + 1
  · intro e he
    rw [Live.tickElection_run_fire r hc.1 hc.2] at he
    have h := noErr_step_hup' (r := { r with electionElapsed := 0 }) hwf 2 (Live.hupMsg r) rfl rfl hd
    obtain ⟨a, s', hs⟩ := NoErr.ok h
    rw [show stepFuel = 2 + 1 from rfl, hs] at he
    cases he
  · refine NoErr.of_ok (Live.tickElection_run_idle r ?_)
    by_cases hp : Live.promotableB r = true
    · right; exact Nat.lt_of_not_le fun h => hc ⟨hp, h⟩
    · left; simpa using hp

/-- the `MsgBeat` a leader's tick steps never throws -/
theorem noErr_step_beat {r : Raft} (hs : r.state = .leader) (i : Id) :
    NoErr (step stepFuel { typ := .beat, «from» := i }) r := by
  intro e he
  rw [show stepFuel = 2 + 1 from rfl,
    Live.step_leader_dispatch 2 _ r hs (Or.inl rfl) (Or.inr (Or.inl rfl))] at he
  exact no_panic_stepLeader_beat 2 _ r rfl e he

/-- the `MsgCheckQuorum` a leader's tick steps (CheckQuorum) never throws, given a draw; it leaves a follower, or a
leader -/
theorem noErr_step_checkQuorum {r : Raft} (hs : r.state = .leader) (hd : r.draws ≠ []) (i : Id) :
    NoErr (step stepFuel { typ := .checkQuorum, «from» := i }) r := by
  intro e he
  rw [show stepFuel = 2 + 1 from rfl,
    Live.step_leader_dispatch 2 _ r hs (Or.inl rfl) (Or.inl rfl), Live.stepLeader_checkQuorum_run _ _ _ rfl] at he
  split at he
  · cases he
  · cases hdr : r.draws with
    | nil => exact hd hdr
    | cons d rest =>
      rw [becomeFollower_run r.term 0 r, hdr] at he
      cases he

/-- the heartbeat tick of a leader -/
theorem noErr_tickHeartbeat {r : Raft} (hs : r.state = .leader) (hd : r.draws ≠ []) :
    NoErr tickHeartbeat r := by
  unfold tickHeartbeat
  cases hcq : r.cfg.checkQuorum with
  | false =>
    simp only [np, wp, hcq, hs, Spec.trivial, Bool.false_eq_true, false_implies, true_and, and_true, implies_true]
    exact ⟨fun _ _ => ⟨fun _ _ _ => noErr_step_beat rfl _, fun _ _ _ => noErr_step_beat rfl _⟩,
      fun _ _ _ => noErr_step_beat rfl _⟩
  | true =>
    simp only [np, wp, hcq, hs, Spec.trivial, Bool.false_eq_true, false_implies, true_and, and_true, implies_true]
    have B : ∀ (x : Raft), x.state = .leader → ∀ i, NoErr (step stepFuel { typ := .beat, «from» := i }) x :=
      fun x hx i => noErr_step_beat hx i
    have C : ∀ (x : Raft), x.state = .leader → x.draws ≠ [] → ∀ i,
        NoErr (step stepFuel { typ := .checkQuorum, «from» := i }) x :=
      fun x hx hdx i => noErr_step_checkQuorum hx hdx i
    have L : ∀ x : Raft, ¬ (x.state != Role.leader) = true → x.state = .leader := by
      intro x h; simpa using h
    refine ⟨fun _ => ⟨fun _ => ⟨?_, ?_⟩, fun h => absurd trivial h⟩,
      fun _ _ _ => B _ rfl _⟩
    · apply C
      · rfl
      · exact hd
    rw [Spec.iff_runs]
    intro b mid _
    refine ⟨fun _ h _ => ?_, fun _ h _ => ?_⟩ <;> (apply B; exact L mid h)

/-- **`Raft.tick` never throws** on a well-formed log, with a draw available -/
theorem noErr_tick' {r : Raft} (hwf : r.log.WF) (hd : r.draws ≠ []) :
    NoErr Raft.tick r := by
  unfold Raft.tick
  simp only [np, wp, true_and]
  constructor
  · intro hs; exact noErr_tickHeartbeat (by simpa using hs) hd
  · intro _; exact noErr_tickElection hwf hd

/-- a stepped local `MsgHup` in a state of the simulation invariant -/
theorem noErr_step_hup {val : Val} {voters : List Id} {n : Nat} {r : Raft} {nd : Spec.Node} {msgs : List Spec.Msg}
    (hinv : RaftInv val voters n r nd msgs) (fuel : Nat) (m : Message) (hm : m.typ = .hup) (h0 : m.term = 0)
    (hd : r.draws ≠ []) : NoErr (Raft.step (fuel + 1) m) r :=
  noErr_step_hup' hinv.wf fuel m hm h0 hd

/-- `Raft.tick` in a state of the simulation invariant -/
theorem noErr_tick {val : Val} {voters : List Id} {n : Nat} {r : Raft} {nd : Spec.Node} {msgs : List Spec.Msg}
    (hinv : RaftInv val voters n r nd msgs) (hd : r.draws ≠ []) : NoErr Raft.tick r :=
  noErr_tick' hinv.wf hd

/-- **`RawNode.campaign` completes** under the node invariant, given a draw -/
theorem campaign_done {val : Val} {voters : List Id} {n : Nat} {rn : RawNode} {nd : Spec.Node} {msgs : List Spec.Msg}
    (hnode : NodeInv val voters n rn nd msgs) (draws : List Nat) (hd : draws ≠ []) : Done (rn.campaign draws) :=
  rstep_done rn draws _ (noErr_step_hup (hnode.inv.withDraws draws) 2 _ rfl rfl hd)

/-- **`RawNode.tick` completes** under the node invariant, given a draw -/
theorem tick_done_inv {val : Val} {voters : List Id} {n : Nat} {rn : RawNode} {nd : Spec.Node} {msgs : List Spec.Msg}
    (hnode : NodeInv val voters n rn nd msgs) (draws : List Nat) (hd : draws ≠ []) : Done (rn.tick draws) :=
  tick_done rn draws (noErr_tick (hnode.inv.withDraws draws) hd)

end RaftVerif.NoPanicP
