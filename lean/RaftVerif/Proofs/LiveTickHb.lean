import RaftVerif.Proofs.LiveTick
/-!
# Proofs/LiveTickHb — a leader's tick once `electionTimeout` ticks have elapsed (C15)

`tickHeartbeat_timeout_inv`: the election-timeout block of `tickHeartbeat` (raft.go:861-885) for a leader:
`MsgCheckQuorum` (if enabled) — step down, or mark all peers inactive —, abort a pending leadership
transfer, then the heartbeat part (`BeatTail`).
-/
namespace RaftVerif.Live
open Raft
set_option linter.unusedSimpArgs false

theorem leadTransferee_eta (x : Raft) (h : x.leadTransferee = 0) : { x with leadTransferee := 0 } = x := by
  cases x
  simp only at h
  subst h
  rfl

/-- a leader's tick right after both timers advanced and the election timer wrapped -/
def hbWrapped (r : Raft) : Raft :=
  { r with heartbeatElapsed := r.heartbeatElapsed + 1, electionElapsed := 0 }

/-- the heartbeat part of a leader's tick: nothing, or `heartbeatElapsed` is reset and a `MsgBeat` is
stepped, which only sends (`SendFrame`) and keeps every peer's `Match`/`RecentActive` (`PrKeep`) -/
def BeatTail (ra r' : Raft) : Prop :=
  ∃ r5, (r5 = ra ∨ r5 = { ra with heartbeatElapsed := 0 }) ∧ SendFrame r5 r' ∧ PrKeep r5 r'

theorem tickHeartbeat_timeout_inv (r r' : Raft) (hs : r.state = .leader)
    (ht : r.cfg.electionTimeout ≤ r.electionElapsed + 1)
    (h : tickHeartbeat.run r = .ok ((), r')) :
    (r.cfg.checkQuorum = false → BeatTail { hbWrapped r with leadTransferee := 0 } r') ∧
    (r.cfg.checkQuorum = true → r.trk.quorumActive = true →
       BeatTail { clearRA (hbWrapped r) with leadTransferee := 0 } r') ∧
    (r.cfg.checkQuorum = true → r.trk.quorumActive = false →
       ∃ rf, (becomeFollower r.term 0).run (hbWrapped r) = .ok ((), rf) ∧ r' = clearRA rf) := by
  unfold tickHeartbeat at h
  obtain ⟨u0, r0, h0, hA⟩ := bind_ok h
  have e := modify_ok h0; subst r0
  obtain ⟨r0, r1, h1, hB⟩ := bind_ok hA
  obtain ⟨e0, e1⟩ := get_ok h1; subst r0 r1
  extract_lets jTail jMid at hB
  have hTailL : ∀ (x : Unit) (ra : Raft), ra.state = .leader → (jTail x).run ra = .ok ((), r') →
      BeatTail ra r' := by
    intro x ra hsa hx
    simp only [jTail] at hx
    obtain ⟨r0, r6, h6, hH⟩ := bind_ok hx
    obtain ⟨e0, e1⟩ := get_ok h6; subst r0 r6
    rw [if_neg (by simp [hsa])] at hH
    obtain ⟨r0, r7, h7, hI⟩ := bind_ok hH
    obtain ⟨e0, e1⟩ := get_ok h7; subst r0 r7
    split at hI
    · obtain ⟨u8, r8, h8, hJ⟩ := bind_ok hI
      have e := modify_ok h8; subst r8
      obtain ⟨y, r9, h9, hK⟩ := bind_ok hJ
      obtain ⟨_, e⟩ := pure_ok hK; subst r9
      have h9' := (step_leader_dispatch 2 { «from» := ra.cfg.id, typ := .beat } { ra with heartbeatElapsed := 0 }
        hsa (Or.inl rfl) (Or.inr (Or.inl rfl))).symm.trans h9
      obtain ⟨f1, f2⟩ := stepLeader_beat_frames _ _ _ _ _ rfl h9'
      exact ⟨_, Or.inr rfl, f1, f2⟩
    · obtain ⟨_, e⟩ := pure_ok hI; subst e
      exact ⟨_, Or.inl rfl, SendFrame.refl _, PrKeep.refl _⟩
  have hTailF : ∀ (x : Unit) (ra : Raft), ra.state ≠ .leader → (jTail x).run ra = .ok ((), r') → r' = ra := by
    intro x ra hsa hx
    simp only [jTail] at hx
    obtain ⟨r0, r6, h6, hH⟩ := bind_ok hx
    obtain ⟨e0, e1⟩ := get_ok h6; subst r0 r6
    rw [if_pos (by simpa using hsa)] at hH
    exact (pure_ok hH).2
  have hMidL : ∀ (x : Unit) (ra : Raft), ra.state = .leader → (jMid x).run ra = .ok ((), r') →
      BeatTail { ra with leadTransferee := 0 } r' := by
    intro x ra hsa hx
    simp only [jMid] at hx
    obtain ⟨r0, r5, h5, hG⟩ := bind_ok hx
    obtain ⟨e0, e1⟩ := get_ok h5; subst r0 r5
    split at hG
    · obtain ⟨u6, r6, h6, hH⟩ := bind_ok hG
      unfold abortLeaderTransfer at h6
      have e := modify_ok h6; subst r6
      exact hTailL () _ hsa hH
    · rename_i hc
      have hz : ra.leadTransferee = 0 := by simpa [hsa] using hc
      rw [leadTransferee_eta ra hz]
      exact hTailL () _ hsa hG
  have hMidF : ∀ (x : Unit) (ra : Raft), ra.state ≠ .leader → (jMid x).run ra = .ok ((), r') → r' = ra := by
    intro x ra hsa hx
    simp only [jMid] at hx
    obtain ⟨r0, r5, h5, hG⟩ := bind_ok hx
    obtain ⟨e0, e1⟩ := get_ok h5; subst r0 r5
    rw [if_neg (by simp [hsa])] at hG
    exact hTailF () _ hsa hG
  split at hB
  · obtain ⟨u2, r2, h2, hC⟩ := bind_ok hB
    have e := modify_ok h2; subst r2
    split at hC
    · rename_i hcq
      obtain ⟨y, r4, h4, hF⟩ := bind_ok hC
      have h4' := (step_leader_dispatch 2 { «from» := r.cfg.id, typ := .checkQuorum } (hbWrapped r)
        hs (Or.inl rfl) (Or.inl rfl)).symm.trans h4
      rw [stepLeader_checkQuorum_run _ _ _ rfl] at h4'
      replace h4 := h4'
      clear h4'
      refine ⟨fun hq0 => ?_, fun _ hqa => ?_, fun _ hqa => ?_⟩
      · rw [hq0] at hcq; cases hcq
      · rw [if_pos (show (hbWrapped r).trk.quorumActive = true from hqa)] at h4
        injection h4 with h4; injection h4 with _ h4; subst h4
        exact hMidL () _ hs hF
      · rw [if_neg (show ¬ (hbWrapped r).trk.quorumActive = true from by rw [show (hbWrapped r).trk = r.trk from rfl, hqa]; simp)] at h4
        obtain ⟨p, hb, h4'⟩ := bind_eq_ok.1 h4
        injection h4' with h4'; injection h4' with _ h4'; subst h4'
        obtain ⟨u, rf⟩ := p
        have hf : rf.state = .follower := ((becomeFollower_spec _ _ _).elim hb).2.2.2.1
        have hne : (clearRA rf).state ≠ .leader := by
          show rf.state ≠ .leader
          rw [hf]; intro hh; cases hh
        exact ⟨rf, hb, hMidF () _ hne hF⟩
    · rename_i hcq
      have hcq' : r.cfg.checkQuorum = false := by simpa using hcq
      refine ⟨fun _ => hMidL () _ hs hC, fun h1 => ?_, fun h1 => ?_⟩
      · rw [hcq'] at h1; cases h1
      · rw [hcq'] at h1; cases h1
  · rename_i hc
    exfalso; apply hc
    show r.electionElapsed + 1 ≥ r.cfg.electionTimeout
    exact ht

end RaftVerif.Live
