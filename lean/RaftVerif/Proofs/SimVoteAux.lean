import RaftVerif.Proofs.SimVote
import RaftVerif.Proofs.SimAux
/-!
# Proofs/SimVoteAux — a same-term MsgVote keeps the auxiliary invariant
-/
namespace RaftVerif.Sim
open Refine

theorem aux_vote_same {val : Val} {voters : List Id} {n : Nat} {s : Spec.State} {r r' : Raft} {m : Message}
    {e : Option StepErr} {fuel : Nat} (hinv : RaftInv val voters n r (s.nodes n) s.msgs) (haux : AuxInv n r)
    (ht : m.typ = .vote) (hterm : m.term = r.term) (hfrom : m.from ≠ n)
    (h : (Raft.step (fuel + 1) m).run r = .ok (e, r')) : AuxInv n r' ∧ AuxFrame r r' := by
  have key : ∀ b, AuxInv n { r with msgsAfterAppend := r.msgsAfterAppend ++ [voteRespMsg r m b] } := by
    intro b
    refine ⟨haux.matchLe, ?_, haux.outFrom⟩
    intro x hx
    rcases List.mem_append.1 hx with hx | hx
    · exact haux.self x hx
    · simp only [List.mem_singleton] at hx
      subst hx
      intro hto
      exact absurd hto hfrom
  obtain ⟨_, ⟨_, _, rfl⟩ | ⟨_, rfl⟩⟩ := step_vote_refine val fuel m r r' e ht hterm hinv.wf hinv.unc h
  · refine ⟨⟨(key false).matchLe, (key false).self, (key false).outFrom⟩, Nat.le_refl _, fun _ hl => ⟨hl, Nat.le_refl _⟩, fun _ hf => hf⟩
  · exact ⟨key true, Nat.le_refl _, fun _ hl => ⟨hl, Nat.le_refl _⟩, fun _ hf => hf⟩

end RaftVerif.Sim
