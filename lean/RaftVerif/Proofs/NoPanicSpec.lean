import RaftVerif.Props.SpecSafety
/-!
# Consequences of the Spec invariants used by the no-panic proof (S1–S3)

* `hb_within_log` (S1): a heartbeat's commit index is within the log of a receiver whose term is not newer.
* `ack_within_leader_log`, `durAck_within_leader_log` (S2): acknowledgements of the leader's own term are within its log.
* `app_keeps_commit` (S3): an append of the receiver's term agrees with the receiver's committed prefix.
* `app_agrees_below_commit` (S3'): the list-level consequence.
-/
set_option linter.unusedSimpArgs false
namespace RaftVerif.Spec

/-- if two logs agree up to `k` and `k` is within the second, it is within the first -/
theorem le_length_of_take_eq {L G : Log} {k : Nat} (h : L.take k = G.take k) (hk : k ≤ G.length) :
    k ≤ L.length := by
  have := congrArg List.length h
  simp only [List.length_take] at this
  omega

/-- an acknowledgement of the current term held by the volatile version is within the volatile log -/
theorem vol_ack_within_log {cfg : Cfg} {s : State} (h3 : Inv3 cfg s) {n k : Nat}
    (hk : ((s.nodes n).vol.term, k) ∈ (s.nodes n).vol.acks) : k ≤ (s.nodes n).vol.log.length :=
  le_length_of_take_eq (h3.ack_same n _ (by simp [versions]) k hk)
    (h3.ack_bound n _ (by simp [versions]) _ k hk)

/-- **S1** the commit index of a heartbeat is within the log of a receiver whose term is at most the
heartbeat's -/
theorem hb_within_log {cfg : Cfg} (hcfg : cfg.OK) {s : State} (h : Reachable cfg s) {t n c : Nat}
    (hm : Msg.hb t n c ∈ s.msgs) (hle : (s.nodes n).vol.term ≤ t) :
    c ≤ (s.nodes n).vol.log.length := by
  have h1 := inv1_reachable cfg hcfg s h
  have h3 := inv3_reachable cfg hcfg s h
  rcases h3.hb_commit t n c hm with rfl | ⟨_, k, hck, hk⟩
  · exact Nat.zero_le _
  · have hn := h1.nodes n
    have hd := (hn.vers _ (by simp [versions])).acks_le t k hk
    have hdv := hn.dur_le_vol
    have ht : (s.nodes n).vol.term = t := by have := hdv.term_le; omega
    have hkv := hdv.acks_sub _ hk
    rw [← ht] at hkv
    exact Nat.le_trans hck (vol_ack_within_log h3 hkv)

/-- **S2** (durable promise) -/
theorem durAck_within_leader_log {cfg : Cfg} (hcfg : cfg.OK) {s : State} (h : Reachable cfg s)
    {n c : Nat}
    (ha : hasDurAck (s.nodes n).dur.acks (s.nodes n).vol.term c = true) :
    c ≤ (s.nodes n).vol.log.length := by
  have h1 := inv1_reachable cfg hcfg s h
  have h3 := inv3_reachable cfg hcfg s h
  obtain ⟨k, hk, hck⟩ := hasDurAck_spec ha
  exact Nat.le_trans hck (vol_ack_within_log h3 ((h1.nodes n).dur_le_vol.acks_sub _ hk))

/-- **S2** a released acknowledgement (of any node) for the term of a leader is within the leader's log -/
theorem ack_within_leader_log {cfg : Cfg} (hcfg : cfg.OK) {s : State} (h : Reachable cfg s)
    {n v c : Nat} (hl : (s.nodes n).role = .leader)
    (ha : hasAck s.msgs (s.nodes n).vol.term v c = true) : c ≤ (s.nodes n).vol.log.length := by
  have h2 := inv2_reachable cfg hcfg s h
  have h3 := inv3_reachable cfg hcfg s h
  obtain ⟨k, hk, hck⟩ := hasAck_spec ha
  rw [h2.leader_log n hl]
  rcases h3.ack_msg _ v k hk with rfl | hd
  · omega
  · exact Nat.le_trans hck (h3.ack_bound v _ (by simp [versions]) _ k hd)

/-- the committed prefix of every node of term `t` is a prefix of the log of the elected leader of `t` -/
theorem commit_prefix_of_glog {cfg : Cfg} (hcfg : cfg.OK) {s : State} (h : Reachable cfg s)
    {n t l : Nat} (hel : (t, l) ∈ s.elected) (ht : (s.nodes n).vol.term = t) :
    (s.nodes n).vol.log.take (s.nodes n).vol.commit = (s.glog t).take (s.nodes n).vol.commit := by
  have h3 := inv3_reachable cfg hcfg s h
  rcases h3.ver_commit n _ (show (s.nodes n).vol ∈ versions (s.nodes n) by simp [versions]) with
    h0 | ⟨c, j, hct, hcj, hch, heq⟩
  · rw [h0]; simp
  · rw [ht] at hct
    by_cases hc : c = t
    · rw [heq, hc]
    · rcases h3.safe_at t l hel c j (by omega) hch.2.1 with hs | hd
      · have := congrArg (List.take (s.nodes n).vol.commit) hs
        rw [List.take_take, List.take_take, Nat.min_eq_left hcj] at this
        rw [heq, this]
      · exact (chosen_not_dead hcfg hch (Nat.le_refl _) hd).elim

/-- **S3** an append of the receiver's current term: its entries lie in the sender's ghost log, with
which the receiver's committed prefix agrees -/
theorem app_keeps_commit {cfg : Cfg} (hcfg : cfg.OK) {s : State} (h : Reachable cfg s)
    {n t prev pt : Nat} {ents : Log} {cm : Nat}
    (hm : Msg.app t prev pt ents cm ∈ s.msgs) (ht : (s.nodes n).vol.term = t) :
    ents <+: (s.glog t).drop prev ∧ (s.glog t).termAt prev = some pt ∧
    (s.nodes n).vol.log.take (s.nodes n).vol.commit = (s.glog t).take (s.nodes n).vol.commit ∧
    (s.nodes n).vol.commit ≤ (s.nodes n).vol.log.length := by
  have h2 := inv2_reachable cfg hcfg s h
  obtain ⟨⟨l, hel⟩, _, hpt, hpre⟩ := h2.app_msg t prev pt ents cm hm
  exact ⟨hpre, hpt, commit_prefix_of_glog hcfg h hel ht,
    h2.ver_commit n _ (by simp [versions])⟩

/-- the entries of a message taken from `G` after `prev` have the terms of `G` -/
theorem prefix_drop_termAt {G ents : Log} {prev : Nat} (hpre : ents <+: G.drop prev) {i : Nat}
    (hi : i < ents.length) : G.termAt (prev + i + 1) = some (ents[i]).term := by
  obtain ⟨r, hr⟩ := hpre
  have h1 : (G.drop prev)[i]? = some ents[i] := by
    rw [← hr, List.getElem?_append_left hi, List.getElem?_eq_getElem hi]
  rw [List.getElem?_drop] at h1
  rw [Log.termAt_pos _ (by omega)]
  simp only [Nat.add_sub_cancel, h1, Option.map_some]

/-- **S3'** the entries of an append agree with the receiver's log at all indexes up to its commit
index `c` (so `findConflict` reports no conflict at or below `c`) -/
theorem app_agrees_below_commit {L G ents : Log} {c prev : Nat} (_hc : c ≤ L.length)
    (htake : L.take c = G.take c) (hpre : ents <+: G.drop prev) {i : Nat} (hi : i < ents.length)
    (hic : prev + i + 1 ≤ c) : L.termAt (prev + i + 1) = some (ents[i]).term := by
  rw [← prefix_drop_termAt hpre hi]
  apply Log.termAt_congr
  have := congrArg (List.take (prev + i + 1)) htake
  rwa [List.take_take, List.take_take, Nat.min_eq_left hic] at this

end RaftVerif.Spec
