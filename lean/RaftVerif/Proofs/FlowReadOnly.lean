import RaftVerif.Model.Raft
import RaftVerif.Props.C12
import RaftVerif.Proofs.FlowTracker
/-!
# Proofs/FlowReadOnly — helpers for the `readOnly` bookkeeping (read_only.go).  Core Lean only.
-/
namespace RaftVerif

theorem range8 : List.range 8 = [0,1,2,3,4,5,6,7] := by decide

theorem leUint64_eq (n : Nat) : leUint64 n =
    [UInt8.ofNat (n % 256), UInt8.ofNat (n / 2^8 % 256), UInt8.ofNat (n / 2^16 % 256),
     UInt8.ofNat (n / 2^24 % 256), UInt8.ofNat (n / 2^32 % 256), UInt8.ofNat (n / 2^40 % 256),
     UInt8.ofNat (n / 2^48 % 256), UInt8.ofNat (n / 2^56 % 256)] := by
  unfold leUint64
  rw [range8]
  simp only [List.map_cons, List.map_nil, Nat.shiftRight_eq_div_pow, Nat.mul_zero, Nat.pow_zero, Nat.div_one]


theorem decLeUint64_eight (a0 a1 a2 a3 a4 a5 a6 a7 : UInt8) :
    decLeUint64 [a0, a1, a2, a3, a4, a5, a6, a7] =
      some (a0.toNat <<< 0 + (a1.toNat <<< 8 + (a2.toNat <<< 16 + (a3.toNat <<< 24 + (a4.toNat <<< 32 +
        (a5.toNat <<< 40 + (a6.toNat <<< 48 + (a7.toNat <<< 56 + 0)))))))) := rfl

theorem toNat_ofNat_mod (x : Nat) : (UInt8.ofNat (x % 256)).toNat = x % 256 := by
  rw [UInt8.toNat_ofNat']
  omega

theorem decLeUint64_leUint64 (n : Nat) (h : n < 2^64) : decLeUint64 (leUint64 n) = some n := by
  rw [leUint64_eq, decLeUint64_eight]
  simp only [toNat_ofNat_mod, Nat.shiftLeft_eq]
  congr 1
  omega

section
open Quorum

theorem ackedAtLeast_anti (c : List Id) (ack : Id → Option Nat) (a b : Nat) (hab : a ≤ b) :
    ackedAtLeast c ack b ≤ ackedAtLeast c ack a := by
  unfold ackedAtLeast
  apply List.countP_mono_left
  intro x _ hx
  simp only [decide_eq_true_eq] at *
  omega

theorem jointCommitted_isSome (c0 c1 : List Id) (ack : Id → Option Nat) (h : c0 ≠ [] ∨ c1 ≠ []) :
    ∃ r, jointCommitted c0 c1 ack = some r := by
  unfold jointCommitted
  rcases h with h | h
  · obtain ⟨r, hr, _⟩ := majority_committed_spec c0 ack h
    rw [hr]
    cases majorityCommitted c1 ack with
    | none => exact ⟨r, rfl⟩
    | some b => exact ⟨_, rfl⟩
  · obtain ⟨r, hr, _⟩ := majority_committed_spec c1 ack h
    rw [hr]
    cases majorityCommitted c0 ack with
    | none => exact ⟨r, rfl⟩
    | some b => exact ⟨_, rfl⟩

/-- nothing beyond the joint index is backed by both halves -/
theorem joint_committed_maximal (c0 c1 : List Id) (ack : Id → Option Nat) (r : Nat)
    (h : jointCommitted c0 c1 ack = some r) (k : Nat) (hk : r < k) :
    (c0 ≠ [] ∧ 2 * ackedAtLeast c0 ack k ≤ c0.length) ∨
    (c1 ≠ [] ∧ 2 * ackedAtLeast c1 ack k ≤ c1.length) := by
  unfold jointCommitted at h
  by_cases h0 : c0 = []
  · subst h0
    by_cases h1 : c1 = []
    · subst h1; simp [majorityCommitted, minIdx] at h
    · obtain ⟨r1, hr1, _, hmax⟩ := majority_committed_spec c1 ack h1
      rw [hr1] at h
      simp [majorityCommitted, minIdx] at h
      subst h
      exact Or.inr ⟨h1, hmax k hk⟩
  · obtain ⟨r0, hr0, _, hmax0⟩ := majority_committed_spec c0 ack h0
    rw [hr0] at h
    by_cases h1 : c1 = []
    · subst h1
      simp [majorityCommitted, minIdx] at h
      subst h
      exact Or.inl ⟨h0, hmax0 k hk⟩
    · obtain ⟨r1, hr1, _, hmax1⟩ := majority_committed_spec c1 ack h1
      rw [hr1] at h
      simp only [minIdx, Option.some.injEq] at h
      split at h
      · subst h; exact Or.inl ⟨h0, hmax0 k hk⟩
      · subst h; exact Or.inr ⟨h1, hmax1 k hk⟩

/-- a backed index is acknowledged by some voter -/
theorem exists_acked_of_majority (c : List Id) (ack : Id → Option Nat) (k : Nat)
    (h : c.length < 2 * ackedAtLeast c ack k) : ∃ v ∈ c, k ≤ ackOr0 ack v := by
  have hpos : 0 < ackedAtLeast c ack k := by omega
  unfold ackedAtLeast at hpos
  obtain ⟨v, hv, hp⟩ := List.countP_pos_iff.mp hpos
  exact ⟨v, hv, by simpa using hp⟩

end

namespace ReadOnly

/-- the read position: number of requests ever received (`confirmedReads + len(unconfirmed)`) -/
def pos (ro : ReadOnly) : Nat := ro.confirmedReads + ro.unconfirmed.length

/-- no peer has acknowledged a position that was not handed out yet -/
def Inv (ro : ReadOnly) : Prop := ∀ id v, mapGet ro.acks id = some v → v ≤ ro.pos

/-- the acknowledged position of a peer (0 when it never acknowledged) -/
def acked (ro : ReadOnly) (id : Id) : Nat := (mapGet ro.acks id).getD 0

open Quorum

/-- run equation of `maybeAdvance` -/
theorem maybeAdvance_eq (ro : ReadOnly) (c0 c1 : List Id) (nc : Nat)
    (h : jointCommitted c0 c1 (mapGet ro.acks) = some nc) :
    ro.maybeAdvance c0 c1 =
      if nc ≤ ro.confirmedReads then .ok (ro, [])
      else if nc - ro.confirmedReads > ro.unconfirmed.length then
        .error "readOnly.maybeAdvance: slice bounds out of range"
      else .ok ({ ro with unconfirmed := ro.unconfirmed.drop (nc - ro.confirmedReads), confirmedReads := nc },
                ro.unconfirmed.take (nc - ro.confirmedReads)) := by
  unfold maybeAdvance
  rw [h]
  rfl

/-- under the invariant the joint index never exceeds the current position -/
theorem jointCommitted_le_pos (ro : ReadOnly) (c0 c1 : List Id) (nc : Nat) (hinv : ro.Inv)
    (h : jointCommitted c0 c1 (mapGet ro.acks) = some nc) (hne : c0 ≠ [] ∨ c1 ≠ []) : nc ≤ ro.pos := by
  obtain ⟨b0, b1⟩ := joint_committed_backed c0 c1 _ nc h
  have key : ∀ c : List Id, c.length < 2 * ackedAtLeast c (mapGet ro.acks) nc → nc ≤ ro.pos := by
    intro c hc
    obtain ⟨v, _, hv⟩ := exists_acked_of_majority c _ nc hc
    unfold ackOr0 at hv
    cases hg : mapGet ro.acks v with
    | none => rw [hg] at hv; simp at hv; omega
    | some u => rw [hg] at hv; have := hinv v u hg; simp at hv; omega
  rcases hne with h0 | h1
  · exact key c0 (b0 h0)
  · exact key c1 (b1 h1)

end ReadOnly

end RaftVerif
