import RaftVerif.Proofs.RawAsync
/-!
# Proofs/RawAsync2 — the self-acknowledgement is the last response; what `acceptReady` leaves behind
in async mode; non-vacuity examples for `Proofs/RawAsync.lean`
-/
set_option linter.unusedSimpArgs false
namespace RaftVerif.Raw
open RaftVerif Raft RawNode

/-! ## D. `acceptReady` in async mode -/

/-- what `acceptReady` does to the raft state in async mode: queues emptied, every unstable entry and
the pending snapshot marked in progress; storage, commit index, term, vote, configuration untouched;
only the `applying` bookkeeping of the log moves (`acceptApplying`) -/
structure async_Accepted (rn rn' : RawNode) : Prop where
  msgs : rn'.raft.msgs = []
  maa : rn'.raft.msgsAfterAppend = []
  unstable : rn'.raft.log.unstable = rn.raft.log.unstable.acceptInProgress
  storage : rn'.raft.log.storage = rn.raft.log.storage
  committed : rn'.raft.log.committed = rn.raft.log.committed
  applied : rn'.raft.log.applied = rn.raft.log.applied
  term : rn'.raft.term = rn.raft.term
  vote : rn'.raft.vote = rn.raft.vote
  cfg : rn'.raft.cfg = rn.raft.cfg
  async : rn'.async = rn.async
  soa : rn'.stepsOnAdvance = rn.stepsOnAdvance

theorem async_arPrefix_frame (rn : RawNode) (rd : Ready) :
    (C14.arPrefix rn rd).async = rn.async ∧ (C14.arPrefix rn rd).stepsOnAdvance = rn.stepsOnAdvance ∧
    (C14.arPrefix rn rd).raft.log = rn.raft.log ∧ (C14.arPrefix rn rd).raft.term = rn.raft.term ∧
    (C14.arPrefix rn rd).raft.vote = rn.raft.vote ∧ (C14.arPrefix rn rd).raft.cfg = rn.raft.cfg := by
  unfold C14.arPrefix
  simp only []
  repeat' split
  all_goals exact ⟨rfl, rfl, rfl, rfl, rfl, rfl⟩

theorem async_arSoa (rn : RawNode) (rd : Ready) (ha : rn.async = true) : C14.arSoa rn rd = .ok rn := by
  unfold C14.arSoa
  simp only [ha, Bool.not_true, Bool.false_eq_true, ↓reduceIte]
  rfl

theorem async_arApply (rn rn' : RawNode) (rd : Ready) (h : C14.arApply rn rd = .ok rn') :
    async_Accepted rn rn' := by
  unfold C14.arApply at h
  cases hg : rd.committedEntries.getLast? with
  | none =>
    simp only [hg, bind, Except.bind, pure, Except.pure] at h
    injection h with h
    subst h
    exact ⟨rfl, rfl, rfl, rfl, rfl, rfl, rfl, rfl, rfl, rfl, rfl⟩
  | some last =>
    simp only [hg, RaftLog.acceptApplying_eq] at h
    split at h
    · simp [bind, Except.bind] at h
    · simp only [bind, Except.bind, pure, Except.pure] at h
      injection h with h
      subst h
      exact ⟨rfl, rfl, rfl, rfl, rfl, rfl, rfl, rfl, rfl, rfl, rfl⟩

theorem async_acceptReady (rn rn' : RawNode) (rd : Ready) (ha : rn.async = true)
    (h : rn.acceptReady rd = .ok rn') : async_Accepted rn rn' := by
  rw [C14.acceptReady_eq] at h
  obtain ⟨f1, f2, f3, f4, f5, f6⟩ := async_arPrefix_frame rn rd
  rw [async_arSoa _ _ (f1.trans ha)] at h
  have k := async_arApply _ _ _ h
  exact ⟨k.msgs, k.maa, by rw [k.unstable, f3], by rw [k.storage, f3], by rw [k.committed, f3],
    by rw [k.applied, f3], k.term.trans f4, k.vote.trans f5, k.cfg.trans f6, k.async.trans f1, k.soa.trans f2⟩

theorem async_ready_split (rn rn' : RawNode) (rd : Ready) (h : rn.ready = .ok (rd, rn')) :
    rn.readyWithoutAccept = .ok rd ∧ rn.acceptReady rd = .ok rn' := by
  unfold RawNode.ready at h
  obtain ⟨rd1, h1, h⟩ := bind_eq_ok.1 h
  obtain ⟨rn1, h2, h⟩ := bind_eq_ok.1 h
  simp only [pure, Except.pure, Except.ok.injEq, Prod.mk.injEq] at h
  obtain ⟨rfl, rfl⟩ := h
  exact ⟨h1, h2⟩

theorem async_getLast_snoc {α : Type} (l : List α) (a : α) :
    (l ++ [a]).getLast? = some a ∧ (l ++ [a]).dropLast = l := by
  simp

/-- **async_self_ack_is_last_response**.  In async mode, when the `MsgStorageAppend` is emitted and an
acknowledgement is needed, the **last** response of the `MsgStorageAppend` is the self-acknowledgement of
`sar_spec` and everything before it is exactly `msgsAfterAppend`: the append thread delivers the
promises to the peers no later than it reports the write back to the node.  `acceptReady` then empties
both queues and marks every unstable entry (and the pending snapshot) in progress, so that — on a
well-formed unstable log — the next `Ready` hands out no entry and no snapshot a second time. -/
theorem async_self_ack_is_last_response (rn rn' : RawNode) (rd : Ready) (ha : rn.async = true)
    (h : rn.ready = .ok (rd, rn')) :
    (async_needApp rn.raft rd = true → needStorageAppendRespMsg rn.raft rd = true →
      ∃ resp applyPart, newStorageAppendRespMsg rn.raft rd = .ok resp ∧
        async_ApplyPart rn.raft rd applyPart ∧
        rd.messages = rn.raft.msgs ++ [async_appendMsg rn.raft rd [resp]] ++ applyPart ∧
        (async_appendMsg rn.raft rd [resp]).responses.getLast? = some resp ∧
        (async_appendMsg rn.raft rd [resp]).responses.dropLast = rn.raft.msgsAfterAppend ∧
        (∀ x ∈ (async_appendMsg rn.raft rd [resp]).responses.dropLast, x ∈ rn.raft.msgsAfterAppend)) ∧
    async_Accepted rn rn' ∧
    (rn.raft.log.unstable.WF →
      rn'.raft.log.unstable.WF ∧ rn'.raft.log.nextUnstableEnts = [] ∧
      rn'.raft.log.hasNextUnstableSnapshot = false ∧
      rn'.raft.log.unstable.entries = rn.raft.log.unstable.entries ∧
      ∀ rd', rn'.readyWithoutAccept = .ok rd' → rd'.entries = [] ∧ rd'.snapshot = none) := by
  obtain ⟨h1, h2⟩ := async_ready_split rn rn' rd h
  have hacc := async_acceptReady rn rn' rd ha h2
  refine ⟨fun hn hnr => ?_, hacc, fun hwf => ?_⟩
  · obtain ⟨ap, bp, hm, hap, hbp⟩ := async_ready_shape rn rd ha h1
    obtain ⟨sa, hsa, hap'⟩ := hap.2 hn
    obtain ⟨resp, hr, hs⟩ := hsa.1 hnr
    subst hs
    obtain ⟨g1, g2⟩ := async_getLast_snoc rn.raft.msgsAfterAppend resp
    refine ⟨resp, bp, hr, hbp, by rw [hm, hap'], g1, g2, fun x hx => ?_⟩
    have g2' : (async_appendMsg rn.raft rd [resp]).responses.dropLast = rn.raft.msgsAfterAppend := g2
    rw [g2'] at hx; exact hx
  · obtain ⟨e1, e2, e3, e4⟩ := C18.unstable_acceptInProgress hwf
    have hu := hacc.unstable
    have hne : rn'.raft.log.nextUnstableEnts = [] := by
      unfold RaftLog.nextUnstableEnts; rw [hu]; exact e3
    have hns : rn'.raft.log.unstable.nextSnapshot = none := by rw [hu]; exact e4
    refine ⟨by rw [hu]; exact e2, hne, ?_, by rw [hu, e1], fun rd' hrd' => ?_⟩
    · unfold RaftLog.hasNextUnstableSnapshot; rw [hns]; rfl
    · obtain ⟨f1, f2, _⟩ := async_ready_fields rn' rd' hrd'
      exact ⟨f1.trans hne, f2.trans hns⟩

/-- … and therefore a second `Ready` taken right away contains **no** `MsgStorageAppend` at all (nothing
is written twice, no response is released twice): its messages are at most the one `MsgStorageApply` -/
theorem async_ready_twice_no_append (rn rn' : RawNode) (rd rd' : Ready) (ha : rn.async = true)
    (hwf : rn.raft.log.unstable.WF) (h : rn.ready = .ok (rd, rn')) (h' : rn'.readyWithoutAccept = .ok rd') :
    async_needApp rn'.raft rd' = false ∧
    ∃ applyPart, async_ApplyPart rn'.raft rd' applyPart ∧ rd'.messages = applyPart := by
  obtain ⟨_, hacc, hnext⟩ := async_self_ack_is_last_response rn rn' rd ha h
  obtain ⟨_, hne, _, _, _⟩ := hnext hwf
  obtain ⟨hsame, hrec, _⟩ := C07R.ready_records_hardstate rn rn' rd h
  have hns : rn'.raft.log.unstable.nextSnapshot = none := by
    rw [hacc.unstable]; exact (C18.unstable_acceptInProgress hwf).2.2.2
  have hn : async_needApp rn'.raft rd' = false := by
    cases hx : async_needApp rn'.raft rd' with
    | false => rfl
    | true =>
      exfalso
      rcases (async_needApp_iff_node rn' rd' h').mp hx with hc | ⟨hc1, hc2⟩ | ⟨_, hc, _⟩ | hc
      · exact hc hne
      · exact hc1 (hrec (by rw [← hsame]; exact hc2)).symm
      · rw [hns] at hc; cases hc
      · exact hc hacc.maa
  refine ⟨hn, ?_⟩
  obtain ⟨ap, bp, hm, hap, hbp⟩ := async_ready_shape rn' rd' (hacc.async.trans ha) h'
  refine ⟨bp, hbp, ?_⟩
  rw [hm, hap.1 hn, hacc.msgs]
  rfl

/-- the converse of `async_ready_shape`'s append part, in terms of the node: nothing to write and no
pending response ⇒ the `Ready` emits **no** `MsgStorageAppend` (only `raft.msgs` and maybe the apply message) -/
theorem async_no_append_when_idle (rn : RawNode) (rd : Ready) (ha : rn.async = true)
    (h : rn.readyWithoutAccept = .ok rd) (h1 : rn.raft.log.nextUnstableEnts = [])
    (h2 : hardState rn.raft = rn.prevHard ∨ (hardState rn.raft).isEmpty = true)
    (h3 : ∀ sn, rn.raft.log.unstable.nextSnapshot = some sn → sn.index = 0)
    (h4 : rn.raft.msgsAfterAppend = []) :
    ∃ applyPart, async_ApplyPart rn.raft rd applyPart ∧ rd.messages = rn.raft.msgs ++ applyPart := by
  have hn : async_needApp rn.raft rd = false := by
    cases hx : async_needApp rn.raft rd with
    | false => rfl
    | true =>
      exfalso
      rcases (async_needApp_iff_node rn rd h).mp hx with hc | ⟨hc1, hc2⟩ | ⟨sn, hc, hc'⟩ | hc
      · exact hc h1
      · rcases h2 with h2 | h2
        · exact hc1 h2
        · rw [h2] at hc2; cases hc2
      · exact hc' (h3 sn hc)
      · exact hc h4
  obtain ⟨ap, bp, hm, hap, hbp⟩ := async_ready_shape rn rd ha h
  refine ⟨bp, hbp, ?_⟩
  rw [hm, hap.1 hn, List.append_nil]

/-! ## E. non-vacuity on a concrete node

`async_exNode`: the async term-2 leader `C15.exAsyncNode` (id 1, entry 4 of term 2 unstable and not yet handed
out, commit 2) with a heartbeat queued in `msgs`, the leader's own `MsgAppResp` for entry 4 pending in
`msgsAfterAppend`, and commit 1 in the last hard state handed out. -/

def async_exNode : RawNode :=
  { C15.exAsyncNode with
    raft := { C15.exAsyncNode.raft with
      msgs := [{ typ := .heartbeat, to := 2, «from» := 1, term := 2 }],
      msgsAfterAppend := [{ typ := .appResp, to := 1, «from» := 1, term := 2, index := 4 }] },
    prevHard := { term := 2, vote := 0, commit := 1 } }

def async_exAck : Message :=
  { typ := .storageAppendResp, to := 1, «from» := localAppendThread, term := 2, index := 4, logTerm := 2 }

def async_exApp : Message :=
  { typ := .storageAppend, to := localAppendThread, «from» := 1, term := 2, vote := 0, commit := 2,
    entries := [{ term := 2, index := 4 }],
    responses := [{ typ := .appResp, to := 1, «from» := 1, term := 2, index := 4 }, async_exAck] }

def async_exRd : Ready :=
  { hardState := some { term := 2, vote := 0, commit := 2 }, entries := [{ term := 2, index := 4 }],
    messages := [{ typ := .heartbeat, to := 2, «from» := 1, term := 2 }, async_exApp], mustSync := true }

theorem async_ex_ready : async_exNode.readyWithoutAccept = .ok async_exRd := by rfl
theorem async_ex_ack : newStorageAppendRespMsg async_exNode.raft async_exRd = .ok async_exAck := by rfl
theorem async_ex_wf : async_exNode.raft.log.unstable.WF := by decide
theorem async_ex_msgs : ∀ x ∈ async_exNode.raft.msgs, isPromise x.typ = false := by
  intro x hx
  have : x = { typ := .heartbeat, to := 2, «from» := 1, term := 2 } := by simpa [async_exNode] using hx
  rw [this]; rfl

/-- `sar_spec` / `sar_total`: the acknowledgement of (4, term 2) at term 2; the log is well-formed -/
example : async_exAck.term = async_exNode.raft.term ∧ async_exAck.index = async_exNode.raft.log.lastIndex ∧
    async_exNode.raft.log.term async_exNode.raft.log.lastIndex = .ok async_exAck.logTerm ∧
    async_exNode.raft.log.hasNextOrInProgressUnstableEnts = true := ⟨rfl, rfl, rfl, rfl⟩
example : (sar_spec _ _ _ async_ex_ack).2.2.2.1 = (rfl : async_exAck.term = 2) := rfl

example : async_exNode.raft.log.WF := by decide
example : ∃ m, newStorageAppendRespMsg async_exNode.raft async_exRd = .ok m := sar_total _ _ (by decide)
example : ∃ rn', async_exNode.ready = .ok (async_exRd, rn') := ⟨_, rfl⟩
example : ∀ x ∈ async_exNode.raft.msgs, isLocalMsgTarget x.to = false := by
  intro x hx
  have : x = { typ := .heartbeat, to := 2, «from» := 1, term := 2 } := by simpa [async_exNode] using hx
  rw [this]; decide

/-- `async_ready_shape`: the hypotheses hold, the append part is the one message, no apply part -/
example : async_Shape async_exNode async_exRd := async_ready_shape _ _ rfl async_ex_ready
example : async_needApp async_exNode.raft async_exRd = true ∧ needStorageAppendRespMsg async_exNode.raft async_exRd = true ∧
    async_exRd.committedEntries = [] := by decide
example : async_exRd.messages = async_exNode.raft.msgs ++ [async_appendMsg async_exNode.raft async_exRd [async_exAck]] ++ [] := rfl
example : async_appendMsg async_exNode.raft async_exRd [async_exAck] = async_exApp := rfl

/-- `async_promises_only_via_storage_append`: hypotheses hold (pending promise, no promise in `msgs`, no
local target in `msgs`) -/
example : async_exNode.raft.msgsAfterAppend ≠ [] := by decide
example : ∀ x ∈ async_exRd.messages, isPromise x.typ = false :=
  (async_promises_only_via_storage_append _ _ rfl async_ex_ready async_ex_msgs).1
example : async_exRd.messages.filter (fun x => x.to == localAppendThread) = [async_exApp] := by rfl
example : async_exApp.responses.map (·.typ) = [.appResp, .storageAppendResp] := by decide

/-- `async_self_ack_is_last_response` and `async_ready_twice_no_append` -/
example : (async_exNode.ready).toOption.map (fun p => (p.2.raft.msgs.length, p.2.raft.msgsAfterAppend.length,
    p.2.raft.log.unstable.offsetInProgress, p.2.raft.log.nextUnstableEnts.length, p.2.prevHard.commit)) =
    some (0, 0, 5, 0, 2) := by decide +kernel
example : async_exApp.responses.getLast?.map (fun x => (x.typ, x.index, x.logTerm, x.term)) =
    some (.storageAppendResp, 4, 2, 2) := by decide
example : ((async_exNode.ready).toOption.bind (fun p => p.2.readyWithoutAccept.toOption)).map
    (fun rd' => (rd'.messages.length, rd'.entries.length)) = some (0, 0) := by decide +kernel

/-- the negative side of `async_ready_shape`: unstable entries all in progress, nothing else to write, no
pending response ⇒ **no** `MsgStorageAppend` although `needStorageAppendRespMsg` holds -/
def async_exIdle : RawNode :=
  { C15.exAsyncNode with
    raft := { C15.exAsyncNode.raft with log := { C15.exAsyncNode.raft.log with
      unstable := { C15.exAsyncNode.raft.log.unstable with offsetInProgress := 5 } } } }
example : (async_exIdle.readyWithoutAccept).toOption.map (fun rd =>
    (rd.messages.length, async_needApp async_exIdle.raft rd, needStorageAppendRespMsg async_exIdle.raft rd)) =
    some (0, false, true) := by decide +kernel

end RaftVerif.Raw
