import RaftVerif.Proofs.StepSend
/-!
# Proofs/StepGood — every function of `Model/Raft.lean` below `step` keeps `Good`
(term / commit never go back, one vote per term, queues only grow with messages of their own kind),
and exact "spec equations" for `reset` and the `become*` transitions.
-/
namespace RaftVerif
namespace Raft

/-- registered `Good` call rules -/
syntax "good_step" : tactic

theorem Good.of_commit {s x : Raft} (h1 : x.cfg = s.cfg) (h2 : x.term = s.term) (h3 : x.vote = s.vote)
    (h4 : s.log.committed ≤ x.log.committed) (h5 : x.msgs = s.msgs)
    (h6 : x.msgsAfterAppend = s.msgsAfterAppend) : Good s x :=
  ⟨h1, Nat.le_of_eq h2.symm, fun _ => Or.inl h3, h4, h5 ▸ ListExt.refl _, h6 ▸ ListExt.refl _⟩

/-- `committed` of the new log is not below the old one, from a hypothesis about the `Log` function used -/
macro "commit_tac" : tactic => `(tactic| first
  | exact Nat.le_refl _
  | exact RaftLog.append_committed' (by assumption)
  | exact RaftLog.maybeAppend_committed' (by assumption)
  | exact RaftLog.maybeCommit_committed' (by assumption)
  | exact RaftLog.appliedTo_committed' (by assumption)
  | exact RaftLog.commitTo_committed (by assumption)
  | exact Nat.le_of_lt (Nat.lt_of_not_le (by assumption)))

macro_rules | `(tactic| rel_fields) => `(tactic| exact Good.of_commit rfl rfl rfl (by commit_tac) rfl rfl)

/-- side conditions `cur.term ≤ t` of `reset` / `becomeFollower` -/
macro "pre_tac" : tactic => `(tactic| first
  | exact Nat.le_refl _ | assumption | omega | (dsimp only; omega) | (simp only [] at *; omega))

/-! ### the sending primitives -/

theorem send_good (m : Message) (s : Raft) : Spec (send m) s (fun _ s' => Good s s') :=
  (send_sf m s).mono fun _ _ h => h.good
theorem maybeSendAppend_good (to : Id) (b : Bool) (s : Raft) :
    Spec (maybeSendAppend to b) s (fun _ s' => Good s s') := (maybeSendAppend_sf to b s).mono fun _ _ h => h.good
theorem sendAppendLoop_good (n : Nat) (to : Id) (s : Raft) :
    Spec (sendAppendLoop n to) s (fun _ s' => Good s s') := (sendAppendLoop_sf n to s).mono fun _ _ h => h.good
theorem sendHeartbeat_good (to : Id) (c : Option Bytes) (s : Raft) :
    Spec (sendHeartbeat to c) s (fun _ s' => Good s s') := (sendHeartbeat_sf to c s).mono fun _ _ h => h.good
theorem bcastAppend_good (s : Raft) : Spec bcastAppend s (fun _ s' => Good s s') :=
  (bcastAppend_sf s).mono fun _ _ h => h.good
theorem bcastHeartbeat_good (s : Raft) : Spec bcastHeartbeat s (fun _ s' => Good s s') :=
  (bcastHeartbeat_sf s).mono fun _ _ h => h.good

macro_rules | `(tactic| good_step) => `(tactic| rel_call (send_good ..))
macro_rules | `(tactic| good_step) => `(tactic| rel_call (maybeSendAppend_good ..))
macro_rules | `(tactic| good_step) => `(tactic| rel_call (sendAppendLoop_good ..))
macro_rules | `(tactic| good_step) => `(tactic| rel_call (sendHeartbeat_good ..))
macro_rules | `(tactic| good_step) => `(tactic| rel_call (bcastAppend_good ..))
macro_rules | `(tactic| good_step) => `(tactic| rel_call (bcastHeartbeat_good ..))

/-! ### state-reading helpers -/

attribute [wp] poll promotable pastElectionTimeout committedEntryInCurrentTerm

theorem hasUnappliedConfChanges_same (s : Raft) : Spec hasUnappliedConfChanges s (fun _ s' => s' = s) := by
  unfold hasUnappliedConfChanges
  wp_auto [fail]

theorem decodeCC_same (e : Entry) (s : Raft) : Spec (decodeCC e) s (fun _ s' => s' = s) := by
  unfold decodeCC
  wp_auto [fail]

macro_rules | `(tactic| good_step) => `(tactic| same_call (hasUnappliedConfChanges_same ..))
macro_rules | `(tactic| good_step) => `(tactic| same_call (decodeCC_same ..))

/-! ### log / size primitives -/

theorem maybeCommit_good (s : Raft) : Spec maybeCommit s (fun _ s' => Good s s') := by
  unfold maybeCommit
  rel_start
  wp_auto [good_step]
macro_rules | `(tactic| good_step) => `(tactic| rel_call (maybeCommit_good ..))

theorem increaseUncommittedSize_good (es : List Entry) (s : Raft) :
    Spec (increaseUncommittedSize es) s (fun _ s' => Good s s') := by
  unfold increaseUncommittedSize
  rel_start
  wp_auto [good_step]
macro_rules | `(tactic| good_step) => `(tactic| rel_call (increaseUncommittedSize_good ..))

theorem appendEntry_good (es : List Entry) (s : Raft) : Spec (appendEntry es) s (fun _ s' => Good s s') := by
  unfold appendEntry
  rel_start
  wp_auto [good_step]
macro_rules | `(tactic| good_step) => `(tactic| rel_call (appendEntry_good ..))

theorem appliedToLog_good (i sz : Nat) (s : Raft) : Spec (appliedToLog i sz) s (fun _ s' => Good s s') := by
  unfold appliedToLog
  rel_start
  wp_auto [good_step]
macro_rules | `(tactic| good_step) => `(tactic| rel_call (appliedToLog_good ..))

/-! ### `reset` and the role transitions: spec equations -/

@[wp] theorem resetRandomizedElectionTimeout_iff (s : Raft) (Q : Unit → Raft → Prop) :
    Spec resetRandomizedElectionTimeout s Q ↔
      ∀ d rest, s.draws = d :: rest →
        Q () { s with randomizedElectionTimeout := s.cfg.electionTimeout + d, draws := rest } := by
  unfold resetRandomizedElectionTimeout
  simp only [wp]
  cases h : s.draws <;> simp [wp]

/-- `reset(term)`: the vote is cleared exactly when the term changes; the leader is forgotten -/
theorem reset_spec_st (t : Nat) (s : Raft) :
    Spec (reset t) s (fun _ s' =>
      s'.term = t ∧ s'.vote = (if s.term = t then s.vote else 0) ∧ s'.lead = 0 ∧ s'.state = s.state ∧
      s'.log = s.log ∧ s'.cfg = s.cfg ∧ s'.msgs = s.msgs ∧ s'.msgsAfterAppend = s.msgsAfterAppend ∧
      s'.trk.cfg = s.trk.cfg ∧ s'.trk.votes = [] ∧ s'.leadTransferee = 0 ∧ s'.isLearner = s.isLearner ∧
      s'.electionElapsed = 0) := by
  unfold reset
  simp only [wp]
  intro d rest _
  by_cases h : s.term = t <;> simp [h, Tracker.resetVotes]

theorem Good.of_reset {s s' : Raft} {t : Nat} (ht : s.term ≤ t) (h1 : s'.term = t)
    (h2 : s'.vote = (if s.term = t then s.vote else 0)) (h3 : s'.log = s.log) (h4 : s'.cfg = s.cfg)
    (h5 : s'.msgs = s.msgs) (h6 : s'.msgsAfterAppend = s.msgsAfterAppend) : Good s s' := by
  refine ⟨h4, by omega, ?_, by rw [h3]; exact Nat.le_refl _, h5 ▸ ListExt.refl _, h6 ▸ ListExt.refl _⟩
  intro e
  rw [h1] at e
  rw [h2, if_pos e.symm]
  exact Or.inl rfl

theorem reset_good (t : Nat) (s : Raft) (ht : s.term ≤ t) : Spec (reset t) s (fun _ s' => Good s s') :=
  (reset_spec_st t s).mono fun _ _ ⟨h1, h2, _, _, h3, h4, h5, h6, _⟩ => Good.of_reset ht h1 h2 h3 h4 h5 h6

/-- `becomeFollower(term, lead)` -/
theorem becomeFollower_spec (t l : Nat) (s : Raft) :
    Spec (becomeFollower t l) s (fun _ s' =>
      s'.term = t ∧ s'.vote = (if s.term = t then s.vote else 0) ∧ s'.lead = l ∧ s'.state = .follower ∧
      s'.log = s.log ∧ s'.cfg = s.cfg ∧ s'.msgs = s.msgs ∧ s'.msgsAfterAppend = s.msgsAfterAppend) := by
  unfold becomeFollower
  simp only [wp]
  refine (reset_spec_st t s).mono ?_
  intro _ s' ⟨h1, h2, _, _, h3, h4, h5, h6, _⟩
  exact ⟨h1, h2, trivial, trivial, h3, h4, h5, h6⟩

theorem becomeFollower_good (t l : Nat) (s : Raft) (ht : s.term ≤ t) :
    Spec (becomeFollower t l) s (fun _ s' => Good s s' ∧ s'.term = t ∧ s'.state = .follower) :=
  (becomeFollower_spec t l s).mono fun _ _ ⟨h1, h2, _, hs, h3, h4, h5, h6⟩ =>
    ⟨Good.of_reset ht h1 h2 h3 h4 h5 h6, h1, hs⟩

/-- `becomeCandidate()`: a new term, voted for itself; never from leader -/
theorem becomeCandidate_spec (s : Raft) :
    Spec becomeCandidate s (fun _ s' =>
      s.state ≠ .leader ∧ s'.term = s.term + 1 ∧ s'.vote = s.cfg.id ∧ s'.lead = 0 ∧ s'.state = .candidate ∧
      s'.log = s.log ∧ s'.cfg = s.cfg ∧ s'.msgs = s.msgs ∧ s'.msgsAfterAppend = s.msgsAfterAppend ∧
      s'.trk.votes = []) := by
  unfold becomeCandidate
  simp only [wp]
  refine ⟨fun _ => trivial, fun hne => ?_⟩
  refine (reset_spec_st (s.term + 1) s).mono ?_
  intro _ s' ⟨h1, _, h2, _, h3, h4, h5, h6, _, h7, _⟩
  refine ⟨?_, h1, by rw [h4], h2, trivial, h3, h4, h5, h6, h7⟩
  intro h; rw [h] at hne; exact hne rfl

theorem becomeCandidate_good (s : Raft) : Spec becomeCandidate s (fun _ s' => Good s s') :=
  (becomeCandidate_spec s).mono fun _ _ ⟨_, h1, _, _, _, h3, h4, h5, h6, _⟩ =>
    ⟨h4, by omega, fun e => by omega, by rw [h3]; exact Nat.le_refl _, h5 ▸ ListExt.refl _, h6 ▸ ListExt.refl _⟩

/-- `becomePreCandidate()` changes nothing but the role, the (forgotten) leader and the vote tally -/
theorem becomePreCandidate_spec (s : Raft) :
    Spec becomePreCandidate s (fun _ s' =>
      s.state ≠ .leader ∧ s' = { s with trk := s.trk.resetVotes, lead := 0, state := .preCandidate }) := by
  unfold becomePreCandidate
  simp only [wp]
  refine ⟨fun _ => trivial, fun hne => ⟨?_, trivial⟩⟩
  intro h; rw [h] at hne; exact hne rfl

theorem becomePreCandidate_good (s : Raft) : Spec becomePreCandidate s (fun _ s' => Good s s') :=
  (becomePreCandidate_spec s).mono fun _ s' ⟨_, h⟩ => by subst h; rel_fields

macro_rules | `(tactic| good_step) => `(tactic| rel_call (becomeCandidate_good ..))
macro_rules | `(tactic| good_step) => `(tactic| rel_call (becomePreCandidate_good ..))
macro_rules | `(tactic| good_step) => `(tactic| rel_call (reset_good _ _ (by pre_tac)))
macro_rules | `(tactic| good_step) => `(tactic| rel_call' (becomeFollower_good _ _ _ (by pre_tac)))

/-- `becomeLeader()` -/
theorem becomeLeader_good (s : Raft) : Spec becomeLeader s (fun _ s' => Good s s') := by
  unfold becomeLeader
  rel_start
  wp_auto [good_step]
macro_rules | `(tactic| good_step) => `(tactic| rel_call (becomeLeader_good ..))

/-! ### campaigning -/

theorem campaign_good (t : CampaignType) (s : Raft) : Spec (campaign t) s (fun _ s' => Good s s') := by
  unfold campaign
  rel_start
  wp_auto [first | good_step | rel_loop Good]
macro_rules | `(tactic| good_step) => `(tactic| rel_call (campaign_good ..))

theorem hup_good (t : CampaignType) (s : Raft) : Spec (hup t) s (fun _ s' => Good s s') := by
  unfold hup
  rel_start
  wp_auto [good_step]
macro_rules | `(tactic| good_step) => `(tactic| rel_call (hup_good ..))

/-! ### read index -/

theorem responseToReadIndexReq_good (req : Message) (i : Nat) (s : Raft) :
    Spec (responseToReadIndexReq req i) s (fun _ s' => Good s s') := by
  unfold responseToReadIndexReq
  rel_start
  wp_auto [good_step]
macro_rules | `(tactic| good_step) => `(tactic| rel_call (responseToReadIndexReq_good ..))

theorem sendReadIndexResp_good (req : Message) (i : Nat) (s : Raft) :
    Spec (sendReadIndexResp req i) s (fun _ s' => Good s s') := by
  unfold sendReadIndexResp
  rel_start
  wp_auto [good_step]
macro_rules | `(tactic| good_step) => `(tactic| rel_call (sendReadIndexResp_good ..))

theorem sendMsgReadIndexResponse_good (m : Message) (s : Raft) :
    Spec (sendMsgReadIndexResponse m) s (fun _ s' => Good s s') := by
  unfold sendMsgReadIndexResponse
  rel_start
  wp_auto [good_step]
macro_rules | `(tactic| good_step) => `(tactic| rel_call (sendMsgReadIndexResponse_good ..))

theorem releasePendingReadIndexMessages_good (s : Raft) :
    Spec releasePendingReadIndexMessages s (fun _ s' => Good s s') := by
  unfold releasePendingReadIndexMessages
  rel_start
  wp_auto [first | good_step | rel_loop Good]
macro_rules | `(tactic| good_step) => `(tactic| rel_call (releasePendingReadIndexMessages_good ..))

/-! ### handlers -/

theorem handleAppendEntries_good (m : Message) (s : Raft) :
    Spec (handleAppendEntries m) s (fun _ s' => Good s s') := by
  unfold handleAppendEntries
  rel_start
  wp_auto [good_step]
macro_rules | `(tactic| good_step) => `(tactic| rel_call (handleAppendEntries_good ..))

theorem handleHeartbeat_good (m : Message) (s : Raft) :
    Spec (handleHeartbeat m) s (fun _ s' => Good s s') := by
  unfold handleHeartbeat
  rel_start
  wp_auto [good_step]
macro_rules | `(tactic| good_step) => `(tactic| rel_call (handleHeartbeat_good ..))

theorem switchToConfig_good (cfg : TrackerConfig) (trk : ProgressMap) (s : Raft) :
    Spec (switchToConfig cfg trk) s (fun _ s' => Good s s') := by
  unfold switchToConfig
  rel_start
  wp_auto [first | good_step | rel_loop Good]
macro_rules | `(tactic| good_step) => `(tactic| rel_call (switchToConfig_good ..))

theorem restore_good (snap : Snapshot) (s : Raft) : Spec (restore snap) s (fun _ s' => Good s s') := by
  unfold restore
  rel_start
  wp_auto [good_step]
macro_rules | `(tactic| good_step) => `(tactic| rel_call (restore_good ..))

theorem handleSnapshot_good (m : Message) (s : Raft) :
    Spec (handleSnapshot m) s (fun _ s' => Good s s') := by
  unfold handleSnapshot
  rel_start
  wp_auto [good_step]
macro_rules | `(tactic| good_step) => `(tactic| rel_call (handleSnapshot_good ..))

end Raft
end RaftVerif
