import RaftVerif.Proofs.NoPanicSync
import RaftVerif.Proofs.NoPanicCond
import RaftVerif.Proofs.NoPanicVoteRespDraws
/-!
# Proofs/NoPanicSelf — stepping a node's own durable promise never throws and keeps `KeepsProg` (`SelfStepNP`),
hence the sync round is total under `NPInv`
-/
set_option linter.unusedSimpArgs false
namespace RaftVerif.NoPanicP
open Raft C14 Sim Refine Simulation

theorem selfStepNP_keepsProg (val : Val) (voters : List Id) (n : Nat) (hcfg : (cfgOf voters).OK) :
    SelfStepNP val voters n KeepsProg := by
  intro s r m hinv hreach hty _ _ hrej hin hle haux _ hJ hd
  have h0 : m.term ≠ 0 := inOK_term_ne hty hin
  have hdel : Deliverable m.typ := by
    unfold Deliverable; rcases hty with h | h <;> simp [h]
  rcases Nat.lt_or_eq_of_le hle with hlt | heq
  · have key := step_lower_run 2 m r h0 hlt hdel (by rcases hty with h | h <;> simp [h])
    refine ⟨NoErr.of_ok key, ?_⟩
    rw [Spec.iff_runs]
    intro e r' hr
    unfold Runs at hr
    rw [show Raft.stepFuel = 2 + 1 from rfl, key] at hr
    injection hr with hr; injection hr with _ hr
    subst hr
    exact ⟨hJ, hd⟩
  · rcases hty with ht | ht
    · refine ⟨noErr_step_voteResp_same hinv 2 m ht heq h0 hd, ?_⟩
      refine ((voteResp_keeps_prog hinv 2 m ht heq hJ).and (voteResp_cand_draws 2 m r ht heq)).mono ?_
      intro _ r' ⟨a, b⟩
      refine ⟨a, fun hc => ?_⟩
      obtain ⟨hs, hdr⟩ := b hc
      rw [hdr]; exact hd (hs ▸ hc)
    · have hne : ∀ hl : r.state = .leader, m.reject = true → m.from ≠ n := by
        intro _ hr; rw [hrej] at hr; cases hr
      refine ⟨noErr_step_appResp_same hinv 2 m ht heq h0 hJ
        (fun hl hr => inOK_ack_le hinv hreach hcfg ht hin heq hl hr) hne, ?_⟩
      refine (appResp_keeps_prog hinv 2 m ht heq h0 hJ
        (fun hl hr => inOK_ack_le hinv hreach hcfg ht hin heq hl hr) hne).and ?_ |>.mono
        (fun _ r' ⟨a, b⟩ => ⟨a, b⟩)
      rw [Spec.iff_runs]
      intro e r' hr hc
      unfold Runs at hr
      by_cases hl : r.state = .leader
      · exfalso
        have hdis := Live.step_leader_dispatch 2 m r hl (Or.inr heq) (Or.inr (Or.inr (Or.inl ht)))
        rw [hdis] at hr
        have hte := (Next.stepLeader_te 2 m r).elim hr
        have hb := selfStepOK2 val voters n s r r' m e hinv haux hreach (Or.inr ht) ‹_› ‹_› hin ‹_›
          (by rw [show Raft.stepFuel = 2 + 1 from rfl, hdis]; exact hr)
        have := (hb.2.2.lead hte.term hl).1
        rw [this] at hc; cases hc
      · rw [step_appResp_nonleader_run 2 m r ht heq hl] at hr
        injection hr with hr; injection hr with _ hr
        subst hr
        exact hd hc

theorem keepsProg_frame (r r' : Raft) (hs : r'.state = r.state) (ht : r'.trk = r.trk)
    (hl : r'.log.lastIndex = r.log.lastIndex) (h : KeepsProg r) : KeepsProg r' := by
  intro hlead
  exact ProgWF.congr (h (by rw [← hs]; exact hlead)) (by rw [ht]) (by rw [hl]; exact Nat.le_refl _)

/-- **the sync round (`Ready`; persist; `Advance`) completes** at a node that satisfies `NPInv` -/
theorem syncRound_done_np {val : Val} {voters : List Id} {n : Nat} {s : Spec.State} {rn : RawNode}
    (hcfg : (cfgOf voters).OK) (hnode : NodeInv val voters n rn (s.nodes n) s.msgs) (haux : AuxInv n rn.raft)
    (hset : Settled rn.raft) (hprom : MaaProm rn.raft) (hreach : Spec.Reachable (cfgOf voters) s)
    (hnp : NPInv n rn.raft) (draws : List Nat) (hd : draws ≠ []) : Done (syncRound rn draws) :=
  syncRound_done KeepsProg (selfStepNP_keepsProg val voters n hcfg) hnode haux hset hprom hreach
    (fun r2 hs ht _ _ _ _ _ hli => keepsProg_frame rn.raft r2 hs ht hli hnp.prog)
    keepsProg_frame draws hd

/-- … and keeps `KeepsProg` -/
theorem syncRound_keepsProg {val : Val} {voters : List Id} {n : Nat} {s : Spec.State} {rn rn' : RawNode}
    {rd : Ready} (hcfg : (cfgOf voters).OK) (hnode : NodeInv val voters n rn (s.nodes n) s.msgs)
    (haux : AuxInv n rn.raft) (hset : Settled rn.raft) (hprom : MaaProm rn.raft)
    (hreach : Spec.Reachable (cfgOf voters) s) (hnp : NPInv n rn.raft) (draws : List Nat) (hd : draws ≠ [])
    (h : syncRound rn draws = .ok (rd, rn')) : KeepsProg rn'.raft :=
  syncRound_keeps KeepsProg (selfStepNP_keepsProg val voters n hcfg) hnode haux hset hprom hreach
    (fun r2 hs ht _ _ _ _ _ hli => keepsProg_frame rn.raft r2 hs ht hli hnp.prog)
    keepsProg_frame draws hd h

end RaftVerif.NoPanicP
