import RaftVerif.Proofs.StepRouted
/-!
# Proofs/StepProp — MsgProp handling (C20): dropped means dropped, forwarding is verbatim, a leader
appends exactly the stamped proposal
-/
namespace RaftVerif
set_option linter.unusedSimpArgs false

/-- element-wise relation between two lists of the same length -/
inductive Pairwise2 {α β : Type} (R : α → β → Prop) : List α → List β → Prop
  | nil : Pairwise2 R [] []
  | cons {a b as bs} : R a b → Pairwise2 R as bs → Pairwise2 R (a :: as) (b :: bs)

theorem Pairwise2.length_eq {α β : Type} {R : α → β → Prop} {l : List α} {l' : List β} (h : Pairwise2 R l l') :
    l.length = l'.length := by
  induction h with
  | nil => rfl
  | cons _ _ ih => simp [ih]

/-- a loop that appends exactly one element per iteration -/
theorem Spec.forIn_acc {γ δ : Type} (R : Raft → Raft → Prop) [RelOK R] (Rel : γ → δ → Prop) (l : List γ)
    (init : List δ) (body : γ → List δ → M (ForInStep (List δ))) (s : Raft)
    (hstep : ∀ x acc mid, Spec (body x acc) mid
      (fun st s' => R mid s' ∧ ∃ y, st = ForInStep.yield (acc ++ [y]) ∧ Rel x y)) :
    Spec (forIn l init body) s (fun acc s' => R s s' ∧ ∃ ys, acc = init ++ ys ∧ Pairwise2 Rel l ys) := by
  induction l generalizing init s with
  | nil =>
    simp only [List.forIn_nil, Spec.pure_iff]
    exact ⟨RelOK.refl s, [], by simp, Pairwise2.nil⟩
  | cons x xs ih =>
    simp only [List.forIn_cons, Spec.bind_iff]
    refine (hstep x init s).mono ?_
    rintro st mid ⟨hR, y, rfl, hy⟩
    refine (ih (init ++ [y]) mid).mono ?_
    rintro acc s' ⟨hR', ys, rfl, hys⟩
    exact ⟨RelOK.trans hR hR', y :: ys, by simp, Pairwise2.cons hy hys⟩

/-! ### relations -/

/-- nothing but `pendingConfIndex` changed -/
def OnlyPCI (s s' : Raft) : Prop := s' = { s with pendingConfIndex := s'.pendingConfIndex }

instance : RelOK OnlyPCI where
  refl _ := rfl
  trans := by
    intro a b c h1 h2
    unfold OnlyPCI at *
    rw [h2, h1]

/-- log and both queues unchanged -/
structure Quiet (s s' : Raft) : Prop where
  log : s'.log = s.log
  msgs : s'.msgs = s.msgs
  maa : s'.msgsAfterAppend = s.msgsAfterAppend

instance : RelOK Quiet where
  refl _ := ⟨rfl, rfl, rfl⟩
  trans h1 h2 := ⟨h2.log.trans h1.log, h2.msgs.trans h1.msgs, h2.maa.trans h1.maa⟩

theorem OnlyPCI.quiet {s s' : Raft} (h : OnlyPCI s s') : Quiet s s' := by
  unfold OnlyPCI at h; rw [h]; exact ⟨rfl, rfl, rfl⟩

macro_rules | `(tactic| rel_fields) => `(tactic| exact (rfl : OnlyPCI _ _))
macro_rules | `(tactic| rel_fields) => `(tactic| exact Quiet.mk rfl rfl rfl)

namespace Raft

/-! ### `appendEntry` -/

/-- the entries `appendEntry es` hands to the log: stamped with the term and consecutive indexes -/
def cloned (s : Raft) (es : List Entry) : List Entry :=
  es.zipIdx.map fun (e, i) => { e with term := s.term, index := s.log.lastIndex + 1 + i }

theorem appendEntry_spec_st (es : List Entry) (s : Raft) :
    Spec (appendEntry es) s (fun ok s' =>
      (ok = false ∧ s' = s) ∨
      (ok = true ∧ ∃ p, s.log.append (cloned s es) = .ok p ∧
        s' = { s with uncommittedSize := s.uncommittedSize + payloadsSize (cloned s es), log := p.1,
                      msgsAfterAppend := s.msgsAfterAppend ++
                        [stamped s { to := s.cfg.id, typ := .appResp, index := p.2 }] })) := by
  unfold appendEntry increaseUncommittedSize
  simp only [wp, Bool.not_false, Bool.not_true, Bool.false_eq_true, if_true, if_false, true_implies,
    false_implies, not_true_eq_false, not_false_eq_true, and_true, true_and, implies_true, true_or]
  intro _ p hp
  refine (send_spec _ _).mono ?_
  rintro _ s' (⟨_, rfl⟩ | ⟨h, _⟩)
  · exact Or.inr ⟨p, hp, rfl⟩
  · simp [isPromise] at h

/-! ### the leader's MsgProp path -/

theorem decodeCC_spec (e : Entry) (s : Raft) :
    Spec (decodeCC e) s (fun r s' => s' = s ∧ (r.isSome → e.getType ≠ .normal)) := by
  unfold decodeCC
  cases h : e.getType <;> simp only [wp]
  · simp
  · cases decodeConfChangeV1AsV2 (e.data.getD []) <;> simp [wp]
  · cases decodeConfChangeV2 (e.data.getD []) <;> simp [wp]

/-- what the leader may do to a proposed entry: keep it, or neutralize a configuration change -/
def PropRel (x : Entry × Nat) (y : Entry) : Prop :=
  y = x.1 ∨ (x.1.getType ≠ .normal ∧ y = { typ := some .normal })

/-- the state right after a successful `appendEntry ents` from `s1` -/
def afterAppend (s1 : Raft) (ents : List Entry) (p : RaftLog × Nat) : Raft :=
  { s1 with uncommittedSize := s1.uncommittedSize + payloadsSize (cloned s1 ents), log := p.1,
            msgsAfterAppend := s1.msgsAfterAppend ++ [stamped s1 { to := s1.cfg.id, typ := .appResp, index := p.2 }] }

theorem stepLeader_prop_spec (fuel : Nat) (m : Message) (s : Raft) (ht : m.typ = .prop) :
    Spec (stepLeader fuel m) s (fun e s' =>
      (e = some .proposalDropped ∧ OnlyPCI s s') ∨
      (e = none ∧ ∃ s1 ents p, OnlyPCI s s1 ∧ Pairwise2 PropRel m.entries.zipIdx ents ∧
        s1.log.append (cloned s1 ents) = .ok p ∧ SendFrame (afterAppend s1 ents p) s')) := by
  obtain ⟨typ, to, frm, term, logTerm, index, entries, commit, vote, snapshot, reject, rejectHint, context, responses⟩ := m
  simp only at ht
  subst ht
  rw [stepLeader]
  simp only [wp]
  refine ⟨fun _ => trivial, fun _ => ⟨fun _ => Or.inl ⟨trivial, rfl⟩, fun _ => ⟨fun _ => Or.inl ⟨trivial, rfl⟩, fun _ => ?_⟩⟩⟩
  refine (Spec.forIn_acc OnlyPCI PropRel _ _ _ _ ?_).mono ?_
  · intro x acc mid
    simp only [wp]
    refine (decodeCC_spec x.1 mid).mono ?_
    rintro r _ ⟨rfl, hr⟩
    cases r with
    | none =>
      simp only [wp]
      exact ⟨rfl, x.1, rfl, Or.inl rfl⟩
    | some cc =>
      have hne := hr rfl
      simp only [wp]
      refine ⟨fun _ => ⟨rfl, _, rfl, Or.inr ⟨hne, rfl⟩⟩, fun _ => ⟨rfl, x.1, rfl, Or.inl rfl⟩⟩
  · rintro _ s1 ⟨h1, ys, rfl, hys⟩
    refine (appendEntry_spec_st _ s1).mono ?_
    rintro ok s2 (⟨rfl, rfl⟩ | ⟨rfl, p, hp, rfl⟩)
    · simp only [Bool.not_false, true_implies, Bool.false_eq_true, not_true_eq_false, false_implies, and_true,
        true_and]
      exact Or.inl h1
    · simp only [Bool.not_true, Bool.false_eq_true, false_implies, not_false_eq_true, true_implies, true_and]
      refine (bcastAppend_sf _).mono ?_
      intro _ s' hsf
      exact Or.inr ⟨s1, _, p, h1, hys, hp, hsf⟩

/-! ### candidate and follower -/

/-- `send` panics on a non-vote message that already carries a term -/
theorem send_term_zero (m : Message) (s : Raft)
    (h : m.typ ≠ .vote ∧ m.typ ≠ .voteResp ∧ m.typ ≠ .preVote ∧ m.typ ≠ .preVoteResp) :
    Spec (send m) s (fun _ _ => m.term = 0) := by
  unfold send
  simp only [wp]
  obtain ⟨typ, to, frm, term, logTerm, index, entries, commit, vote, snapshot, reject, rejectHint, context, responses⟩ := m
  by_cases hf : frm = 0 <;> cases typ <;> simp_all

theorem stepCandidate_prop_spec (fuel : Nat) (m : Message) (s : Raft) (ht : m.typ = .prop) :
    Spec (stepCandidate fuel m) s (fun e s' => e = some .proposalDropped ∧ s' = s) := by
  obtain ⟨typ, to, frm, term, logTerm, index, entries, commit, vote, snapshot, reject, rejectHint, context, responses⟩ := m
  simp only at ht
  subst ht
  rw [stepCandidate]
  simp only [wp]
  exact ⟨trivial, trivial⟩

/-- a follower drops a proposal when it knows no leader or forwarding is disabled, and otherwise
forwards the message to the leader: exactly one message, `m` with only `to` (and an empty `from`) filled in -/
theorem stepFollower_prop_spec (fuel : Nat) (m : Message) (s : Raft) (ht : m.typ = .prop) :
    Spec (stepFollower fuel m) s (fun e s' =>
      if s.lead = 0 ∨ s.cfg.disableProposalForwarding = true then e = some .proposalDropped ∧ s' = s
      else e = none ∧ m.term = 0 ∧
        s' = { s with msgs := s.msgs ++ [{ m with to := s.lead, «from» := if m.from = 0 then s.cfg.id else m.from }] }) := by
  obtain ⟨typ, to, frm, term, logTerm, index, entries, commit, vote, snapshot, reject, rejectHint, context, responses⟩ := m
  simp only at ht
  subst ht
  rw [stepFollower]
  simp only [wp]
  refine ⟨fun h => ?_, fun h => ⟨fun h2 => ?_, fun h2 => ?_⟩⟩
  · have : s.lead = 0 := by simpa using h
    simp [this]
  · simp [h2]
  · have h1 : ¬ s.lead = 0 := by simpa using h
    have h2' : s.cfg.disableProposalForwarding = false := by simpa using h2
    refine ((send_spec _ s).and (send_term_zero _ s (by simp))).mono ?_
    rintro _ s' ⟨(⟨hp, _⟩ | ⟨_, rfl⟩), ht0⟩
    · simp [isPromise] at hp
    · simp only at ht0
      subst ht0
      have hst : stamped s ⟨.prop, s.lead, frm, 0, logTerm, index, entries, commit, vote, snapshot, reject,
          rejectHint, context, responses⟩ =
          ⟨.prop, s.lead, if frm = 0 then s.cfg.id else frm, 0, logTerm, index, entries, commit, vote, snapshot,
            reject, rejectHint, context, responses⟩ := by
        unfold stamped
        by_cases hf : frm = 0 <;> simp [hf]
      simp [h1, h2', hst]

/-! ### through `Step` -/

/-- a MsgProp with term 0 (every locally proposed or forwarded proposal) goes straight to the role's step function -/
theorem step_prop_local (fuel : Nat) (m : Message) (s : Raft) (Q : Option StepErr → Raft → Prop)
    (ht : m.typ = .prop) (h0 : m.term = 0)
    (hL : s.state = .leader → Spec (stepLeader fuel m) s Q)
    (hC : s.state = .candidate ∨ s.state = .preCandidate → Spec (stepCandidate fuel m) s Q)
    (hF : s.state = .follower → Spec (stepFollower fuel m) s Q) :
    Spec (step (fuel + 1) m) s Q := by
  obtain ⟨typ, to, frm, term, logTerm, index, entries, commit, vote, snapshot, reject, rejectHint, context, responses⟩ := m
  simp only at ht h0
  subst ht; subst h0
  rw [step]
  simp (config := {decide := true}) only [wp, beq_iff_eq, true_implies, not_true_eq_false, false_implies, and_true]
  split
  · exact hL (by assumption)
  · exact hC (Or.inl (by assumption))
  · exact hC (Or.inr (by assumption))
  · exact hF (by assumption)

/-- **dropped means dropped**: whenever `Step` of a MsgProp (any term, any role) reports
`ErrProposalDropped`, the log and both message queues are what they were -/
theorem step_prop_dropped (fuel : Nat) (m : Message) (s : Raft) (ht : m.typ = .prop) :
    Spec (step (fuel + 1) m) s (fun e s' => e = some .proposalDropped → Quiet s s') := by
  have hbody : ∀ cur, Quiet s cur →
      (cur.state = .leader → Spec (stepLeader fuel m) cur (fun e s' => e = some .proposalDropped → Quiet s s')) ∧
      (cur.state = .candidate ∨ cur.state = .preCandidate →
        Spec (stepCandidate fuel m) cur (fun e s' => e = some .proposalDropped → Quiet s s')) ∧
      (cur.state = .follower → Spec (stepFollower fuel m) cur (fun e s' => e = some .proposalDropped → Quiet s s')) := by
    intro cur hq
    refine ⟨fun _ => ?_, fun _ => ?_, fun _ => ?_⟩
    · refine (stepLeader_prop_spec fuel m cur ht).mono ?_
      rintro e s' (⟨_, h⟩ | ⟨rfl, _⟩)
      · exact fun _ => RelOK.trans hq h.quiet
      · intro h; cases h
    · refine (stepCandidate_prop_spec fuel m cur ht).mono ?_
      rintro e s' ⟨_, rfl⟩ _
      exact hq
    · refine (stepFollower_prop_spec fuel m cur ht).mono ?_
      intro e s' h
      split at h
      · obtain ⟨_, rfl⟩ := h; exact fun _ => hq
      · obtain ⟨rfl, _⟩ := h; intro h; cases h
  obtain ⟨typ, to, frm, term, logTerm, index, entries, commit, vote, snapshot, reject, rejectHint, context, responses⟩ := m
  simp only at ht
  subst ht
  rw [step]
  simp (config := {decide := true}) only [wp, beq_iff_eq, true_implies, not_true_eq_false, false_implies, and_true,
    reduceCtorEq, false_or, or_false, Bool.or_eq_true, Bool.and_eq_true, false_and, and_false, true_and,
    not_false_eq_true, implies_true]
  refine ⟨fun _ => ?_, fun _ => ⟨fun _ => ?_, fun _ _ => ?_⟩⟩
  · obtain ⟨h1, h2, h3⟩ := hbody s (RelOK.refl s)
    split
    · exact h1 (by assumption)
    · exact h2 (Or.inl (by assumption))
    · exact h2 (Or.inr (by assumption))
    · exact h3 (by assumption)
  · refine (becomeFollower_spec term 0 s).mono ?_
    intro _ mid ⟨_, _, _, _, hlog, _, hmsgs, hmaa⟩
    obtain ⟨h1, h2, h3⟩ := hbody mid ⟨hlog, hmsgs, hmaa⟩
    split
    · exact h1 (by assumption)
    · exact h2 (Or.inl (by assumption))
    · exact h2 (Or.inr (by assumption))
    · exact h3 (by assumption)
  · obtain ⟨h1, h2, h3⟩ := hbody s (RelOK.refl s)
    split
    · exact h1 (by assumption)
    · exact h2 (Or.inl (by assumption))
    · exact h2 (Or.inr (by assumption))
    · exact h3 (by assumption)

/-! ### the log side of an accepted proposal -/

/-- appending entries that start right after the last index of a well-formed log extends the unstable
part and touches nothing else -/
theorem append_extends {l : RaftLog} {ents : List Entry} {p : RaftLog × Nat} (h : l.append ents = .ok p)
    (hidx : ∀ e0, ents.head? = some e0 → e0.index = l.lastIndex + 1)
    (hwf : l.lastIndex + 1 = l.unstable.offset + l.unstable.entries.length) :
    p.1 = { l with unstable := { l.unstable with entries := l.unstable.entries ++ ents } } := by
  unfold RaftLog.append at h
  cases ents with
  | nil =>
    simp only [pure, Except.pure, Except.ok.injEq] at h
    subst h
    simp
  | cons e0 rest =>
    have hi := hidx e0 rfl
    simp only at h
    split at h
    · simp [throw, throwThe, MonadExceptOf.throw] at h
    · obtain ⟨u, hu, h⟩ := bind_eq_ok.1 h
      simp only [pure, Except.pure, Except.ok.injEq] at h
      subst h
      unfold Unstable.truncateAndAppend at hu
      have hc : (e0.index == l.unstable.offset + l.unstable.entries.length) = true := by
        simp; omega
      simp only [hc, if_true, pure, Except.pure, Except.ok.injEq] at hu
      subst hu
      rfl

theorem cloned_head (s : Raft) (ents : List Entry) :
    ∀ e0, (cloned s ents).head? = some e0 → e0.index = s.log.lastIndex + 1 := by
  intro e0 h
  cases ents with
  | nil => simp [cloned] at h
  | cons e rest =>
    simp [cloned, List.zipIdx_cons] at h
    subst h
    rfl

/-- a leader that accepts a term-0 MsgProp appends exactly the proposal's entries (configuration changes
possibly neutralized), stamped with its term and consecutive indexes, to the unstable log -/
theorem stepLeader_prop_accept (fuel : Nat) (m : Message) (s : Raft) (ht : m.typ = .prop)
    (hwf : s.log.lastIndex + 1 = s.log.unstable.offset + s.log.unstable.entries.length) :
    Spec (stepLeader fuel m) s (fun e s' => e = none →
      ∃ ents, Pairwise2 PropRel m.entries.zipIdx ents ∧
        s'.log = { s.log with unstable := { s.log.unstable with
          entries := s.log.unstable.entries ++ cloned s ents } } ∧
        s'.term = s.term ∧ s'.vote = s.vote ∧ s'.state = s.state) := by
  refine (stepLeader_prop_spec fuel m s ht).mono ?_
  rintro e s' (⟨rfl, _⟩ | ⟨_, s1, ents, p, h1, hp, happ, hsf⟩)
  · intro h; cases h
  · intro _
    unfold OnlyPCI at h1
    have hlog : s1.log = s.log := by rw [h1]
    have hterm : s1.term = s.term := by rw [h1]
    have hcl : cloned s1 ents = cloned s ents := by unfold cloned; rw [hlog, hterm]
    rw [hcl, hlog] at happ
    have := append_extends happ (cloned_head s ents) hwf
    refine ⟨ents, hp, ?_, ?_, ?_, ?_⟩
    · rw [hsf.log]; exact this
    · rw [hsf.term]; exact hterm
    · rw [hsf.vote, h1]; rfl
    · rw [hsf.state, h1]; rfl

end Raft
end RaftVerif
