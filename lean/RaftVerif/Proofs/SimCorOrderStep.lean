import RaftVerif.Proofs.SimCorOrderRaw
import RaftVerif.Proofs.SimStorage
/-!
# Proofs/SimCorOrderStep — the two storage acknowledgements and the apply cursors
-/
namespace RaftVerif.Sim
open Raft

theorem snap_contra {m : Message} {x : Snapshot} (h : m.snapshot = none) (h' : m.snapshot = some x) : False := by
  rw [h] at h'; cases h'

theorem typ_contra {m : Message} {a b : MsgType} (h : m.typ = a) (hab : a ≠ b) (h' : m.typ = b) : False :=
  hab (h.symm.trans h')

/-- **MsgStorageAppendResp without a snapshot** keeps the apply cursors (any term, any fuel) -/
theorem step_appendResp_cue (fuel : Nat) (m : Message) (s : Raft) (ht : m.typ = .storageAppendResp)
    (hs : m.snapshot = none) : Spec (step fuel m) s (fun _ s' => CurE s s') := by
  cases fuel with
  | zero => rw [step]; simp only [wp]
  | succ fuel =>
    rw [step]
    rel_start
    wp_auto [first
      | exact (snap_contra hs (by assumption)).elim
      | exact (typ_contra (b := .storageApplyResp) ht (by decide) (by assumption)).elim
      | cue_step]

/-- `appliedTo`: the cursors are those `RaftLog.appliedTo` sets (the auto-leave proposal keeps them) -/
theorem appliedTo_cursors (fuel i sz : Nat) (r r' : Raft) (u : Unit)
    (h : (appliedTo fuel i sz).run r = .ok (u, r')) :
    ∃ l, r.log.appliedTo (max i r.log.applied) sz = .ok l ∧ r'.log.cur = l.cur := by
  rw [appliedTo] at h
  unfold appliedToLog at h
  simp only [StateT.run_bind, StateT.run_get, P_pure_eq, P_ok_bind, liftP_run] at h
  cases hl : r.log.appliedTo (max i r.log.applied) sz with
  | error err => simp only [hl, P_error_bind] at h; cases h
  | ok l =>
    refine ⟨l, rfl, ?_⟩
    simp only [hl, P_ok_bind, setLog_run, StateT.run_pure, P_pure_eq] at h
    split at h
    · simp only [StateT.run_bind] at h
      obtain ⟨⟨e, r2⟩, hs, h⟩ := bind_eq_ok.1 h
      simp only [StateT.run_pure, P_pure_eq, Except.ok.injEq, Prod.mk.injEq] at h
      obtain ⟨_, rfl⟩ := h
      exact (step_cue' fuel _ _ (by simp) (by simp)).elim hs
    · simp only [StateT.run_pure, P_pure_eq, Except.ok.injEq, Prod.mk.injEq] at h
      obtain ⟨_, rfl⟩ := h
      rfl

end RaftVerif.Sim
