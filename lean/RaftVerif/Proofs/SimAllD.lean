import RaftVerif.Proofs.SimAll
import RaftVerif.Proofs.SimVoteD
import RaftVerif.Proofs.SimAppD
import RaftVerif.Proofs.SimAppRespD
import RaftVerif.Proofs.SimVoteRespD
import RaftVerif.Proofs.SimHbD
import RaftVerif.Proofs.SimCampaignD
import RaftVerif.Proofs.SimPropD
import RaftVerif.Proofs.SimStoreFrame
import RaftVerif.Proofs.SimRestart
import RaftVerif.Proofs.SimReadyDurAll
/-!
# Proofs/SimAllD — the step results with the durable frame exposed, for a delivered message of any term; the
relation `RSD` (= `RS` + `DurInv` + `CampInv`) used for crash / restart
-/
namespace RaftVerif.Sim
open Refine

/-- prefix a `RaftSimC` with a run that keeps `dur` and adds no vote request of `n` -/
theorem RaftSimC.transL {val : Val} {voters : List Id} {n : Nat} {s s1 : Spec.State} {r' : Raft}
    {as : List Spec.Action} (h1 : RunL (cfgOf voters) s as s1) (ha : ∀ a ∈ as, a.actor = n)
    (hd : (s1.nodes n).dur = (s.nodes n).dur)
    (hrv : ∀ t lt li, Spec.Msg.reqVote t n lt li ∈ s1.msgs → Spec.Msg.reqVote t n lt li ∈ s.msgs)
    (h2 : RaftSimC val voters n s1 r') : RaftSimC val voters n s r' := by
  obtain ⟨bs, s2, hr, hb, hi, hd2, hrv2⟩ := h2
  refine ⟨as ++ bs, s2, h1.append hr, ?_, hi, hd2.trans hd, fun t lt li hx => ?_⟩
  · intro a ha'
    rcases List.mem_append.1 ha' with h | h
    · exact ha a h
    · exact hb a h
  · rcases hrv2 t lt li hx with h | h
    · exact Or.inl (hrv t lt li h)
    · exact Or.inr h

/-- a delivered message at the node's own term, with the durable frame exposed -/
theorem simD_same {val : Val} {voters : List Id} {n : Nat} {s : Spec.State} {r r' : Raft} {m : Message}
    {e : Option StepErr} {fuel : Nat} (hinv : RaftInv val voters n r (s.nodes n) s.msgs)
    (hreach : Spec.Reachable (cfgOf voters) s) (hty : Deliverable m.typ) (hterm : m.term = r.term)
    (hto : m.to = n) (hin : InOK val n (s.nodes n) s.msgs m)
    (hself : m.typ = .voteResp → m.from = n → m.reject = false)
    (h : (Raft.step (fuel + 1) m).run r = .ok (e, r')) : RaftSimD val voters n s r' := by
  have hnet : m.typ ≠ .voteResp → m.typ ≠ .appResp → NetOK val s.msgs m := by
    intro h1 h2
    unfold InOK at hin
    split at hin
    · rename_i hh; exact absurd hh h1
    · rename_i hh; exact absurd hh h2
    · exact hin
  rcases hty with ht | ht | ht | ht | ht | ht
  · exact simD_vote_same hinv ht hterm hto (hnet (by simp [ht]) (by simp [ht])) h
  · exact simD_voteResp_same hinv hreach ht hterm hin (hself ht) h
  · exact simD_app_same hinv hreach ht hterm (hnet (by simp [ht]) (by simp [ht])) h
  · exact simD_appResp_same hinv hreach ht hterm hin h
  · exact simD_hb_same hinv hreach ht hterm hto (hnet (by simp [ht]) (by simp [ht])) h
  · exact simD_hbResp_same hinv hreach ht hterm (hnet (by simp [ht]) (by simp [ht])) h

/-- a delivered message of any term, with the durable frame exposed -/
theorem simD_deliver {val : Val} {voters : List Id} {n : Nat} {s : Spec.State} {r r' : Raft} {m : Message}
    {e : Option StepErr} {fuel : Nat} (hinv : RaftInv val voters n r (s.nodes n) s.msgs)
    (hreach : Spec.Reachable (cfgOf voters) s) (hty : Deliverable m.typ) (h0 : m.term ≠ 0)
    (hto : m.to = n) (hin : InOK val n (s.nodes n) s.msgs m)
    (hself : m.typ = .voteResp → m.from = n → m.reject = false)
    (h : (Raft.step (fuel + 1) m).run r = .ok (e, r')) : RaftSimD val voters n s r' := by
  rcases Nat.lt_trichotomy m.term r.term with hlt | heq | hgt
  · exact RaftSimD.refl (hinv.lower_term h0 hlt hty h)
  · exact simD_same hinv hreach hty heq hto hin hself h
  · rcases raise_term_run hinv hgt hty h with rfl | ⟨r1, hbf, h1⟩
    · exact RaftSimD.refl hinv
    obtain ⟨s1, hrun, hmsgs, hdur, hinv1, ht1, _⟩ := sim_raise_term' hinv hgt hbf
    have hact : ∀ a ∈ [Spec.Action.updateTerm n m.term], a.actor = n := by simp [Spec.Action.actor]
    refine RaftSimD.trans hrun hact hdur (fun t lt li hx => by rw [hmsgs] at hx; exact hx) ?_
    exact simD_same hinv1 (hrun.reachable hreach) hty ht1.symm hto (by rw [hmsgs]; exact hin.congr hdur) hself h1

/-! ### the relation with the durable invariants -/

/-- **the simulation relation with crash support**: `RS`, the durable Spec version of every node describes its
storage (`DurInv`), and every vote request of a node is covered by its durable term or still queued (`CampInv`) -/
structure RSD (val : Val) (voters : List Id) (c : Cluster) (s : Spec.State) : Prop where
  rs : RS val voters c s
  dur : ∀ n rn, c.nodes n = some rn → DurInv val voters rn (s.nodes n)
  camp : ∀ n rn, c.nodes n = some rn → CampInv n rn.raft (s.nodes n) s.msgs

/-- lifting with explicit witnesses -/
theorem RSD.lift {val : Val} {voters : List Id} {c : Cluster} {s s' : Spec.State} (hR : RSD val voters c s)
    (n : Nat) (rn' : RawNode) (out : List Message) (as : List Spec.Action)
    (hrun : RunL (cfgOf voters) s as s') (hact : ∀ a ∈ as, a.actor = n)
    (hnode : NodeInv val voters n rn' (s'.nodes n) s'.msgs) (hout : ∀ m ∈ out, NetOK val s'.msgs m)
    (haux : AuxInv n rn'.raft) (hfrom : ∀ m ∈ out, NetFrom m) (hset : Settled rn'.raft)
    (hprom : MaaProm rn'.raft) (hdur : DurInv val voters rn' (s'.nodes n))
    (hcamp : CampInv n rn'.raft (s'.nodes n) s'.msgs) :
    Steps (cfgOf voters) s s' ∧ RSD val voters { (c.setNode n rn') with net := c.net ++ out } s' := by
  have hother : ∀ k, k ≠ n → s'.nodes k = s.nodes k := fun k hk =>
    hrun.nodes_ne k (fun a ha => by rw [hact a ha]; exact fun h => hk h.symm)
  have hnew : ∀ k, k ≠ n → ∀ t lt li, Spec.Msg.reqVote t k lt li ∈ s'.msgs → Spec.Msg.reqVote t k lt li ∈ s.msgs := by
    intro k hk t lt li hx
    rcases hrun.reqVote_new t k lt li hx with h1 | ⟨a, ha, hak⟩
    · exact h1
    · exact absurd ((hact a ha).symm.trans hak) (fun h => hk h.symm)
  have hget : ∀ k rk, ({ (c.setNode n rn') with net := c.net ++ out } : Cluster).nodes k = some rk →
      (k = n ∧ rk = rn') ∨ (k ≠ n ∧ c.nodes k = some rk) := by
    intro k rk hk
    by_cases hkn : k = n
    · subst hkn
      left
      exact ⟨rfl, by simpa [Cluster.setNode] using hk.symm⟩
    · right
      exact ⟨hkn, by simpa [Cluster.setNode, hkn] using hk⟩
  refine ⟨⟨as, hrun⟩, ⟨⟨⟨hrun.reachable hR.rs.ra.base.reach, ?_, ?_⟩, ?_, ?_⟩, ?_, ?_⟩, ?_, ?_⟩
  · intro k rk hk
    rcases hget k rk hk with ⟨rfl, rfl⟩ | ⟨hkn, hk'⟩
    · exact hnode
    · have h0 := hR.rs.ra.base.nodes k rk hk'
      rw [hother k hkn]
      exact ⟨h0.sync, h0.adv, h0.inv.frame (fun x hx => hrun.msgs_mono x hx) (hnew k hkn)⟩
  · intro m hm
    rcases List.mem_append.1 hm with h | h
    · exact (hR.rs.ra.base.net m h).mono (fun x hx => hrun.msgs_mono x hx)
    · exact hout m h
  · intro k rk hk
    rcases hget k rk hk with ⟨rfl, rfl⟩ | ⟨_, hk'⟩
    · exact haux
    · exact hR.rs.ra.aux k rk hk'
  · intro m hm
    rcases List.mem_append.1 hm with h | h
    · exact hR.rs.ra.netFrom m h
    · exact hfrom m h
  · intro k rk hk
    rcases hget k rk hk with ⟨rfl, rfl⟩ | ⟨_, hk'⟩
    · exact hset
    · exact hR.rs.settled k rk hk'
  · intro k rk hk
    rcases hget k rk hk with ⟨rfl, rfl⟩ | ⟨_, hk'⟩
    · exact hprom
    · exact hR.rs.prom k rk hk'
  · intro k rk hk
    rcases hget k rk hk with ⟨rfl, rfl⟩ | ⟨hkn, hk'⟩
    · exact hdur
    · rw [hother k hkn]; exact hR.dur k rk hk'
  · intro k rk hk
    rcases hget k rk hk with ⟨rfl, rfl⟩ | ⟨hkn, hk'⟩
    · exact hcamp
    · rw [hother k hkn]; exact (hR.camp k rk hk').frame (hnew k hkn)

/-- a step of node `n` that replaces its raft state, given with the durable frame exposed -/
theorem RSD.stepC {val : Val} {voters : List Id} {c : Cluster} {s : Spec.State} (hR : RSD val voters c s)
    {n : Nat} {rn : RawNode} (hn : c.nodes n = some rn) {r' : Raft}
    (hC : RaftSimC val voters n s r') (haux : AuxInv n r') (hset : Settled r') (hprom : MaaProm r')
    (hsto : r'.log.storage = rn.raft.log.storage) (hsub : ∀ m ∈ rn.raft.msgs, m ∈ r'.msgs) :
    ∃ s', Steps (cfgOf voters) s s' ∧ RSD val voters (c.setNode n { rn with raft := r' }) s' := by
  obtain ⟨as, s', hrun, hact, hinv, hd, hrv⟩ := hC
  have hnode := hR.rs.ra.base.nodes n rn hn
  have hdur0 := hR.dur n rn hn
  have hdur : DurInv val voters { rn with raft := r' } (s'.nodes n) :=
    ⟨by rw [hd]; show _ = (r'.log.storage.hardState.getD {}).term; rw [hsto]; exact hdur0.term,
     by rw [hd]; show _ = (r'.log.storage.hardState.getD {}).vote; rw [hsto]; exact hdur0.vote,
     by rw [hd]; show _ = (r'.log.storage.hardState.getD {}).commit; rw [hsto]; exact hdur0.commit,
     by rw [hd]; show _ = r'.log.storage.abs.ents.map (absEnt val); rw [hsto]; exact hdur0.log,
     by show rn.prevHard = r'.log.storage.hardState.getD {}; rw [hsto]; exact hdur0.prev,
     by show r'.log.storage.snapshot = _; rw [hsto]; exact hdur0.snap⟩
  have hcamp : CampInv n r' (s'.nodes n) s'.msgs := (hR.camp n rn hn).step hd hsub hrv
  obtain ⟨h1, h2⟩ := hR.lift n { rn with raft := r' } [] as hrun hact ⟨hnode.sync, hnode.adv, hinv⟩ (by simp)
    haux (by simp) hset hprom hdur hcamp
  refine ⟨s', h1, ?_⟩
  have e : ({ (c.setNode n { rn with raft := r' }) with net := c.net ++ [] } : Cluster) =
      c.setNode n { rn with raft := r' } := by simp [Cluster.setNode]
  rw [e] at h2
  exact h2

/-- what `Routed` says about `msgs`: old messages stay -/
theorem routed_msgs_sub {r r' : Raft} (h : Routed r r') : ∀ m ∈ r.msgs, m ∈ r'.msgs := by
  obtain ⟨suf, hs, _⟩ := h.msgs
  intro m hm
  rw [hs]
  exact List.mem_append_left _ hm

end RaftVerif.Sim
