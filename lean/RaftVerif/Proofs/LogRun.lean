import RaftVerif.Proofs.LogStorageOps
import RaftVerif.Proofs.LogStream
/-!
# Proofs/LogRun — the invariant over arbitrary sequences of log operations

Every operation is guarded by the (decidable) precondition of its specification lemma; an operation
whose guard fails, or that panics, ends the run (`none`).  Core Lean only.
-/
namespace RaftVerif

/-- operations on the log layer: what `raft` does to `raftLog`, what the application / storage thread
does to storage, and the apply-cursor operations of `ApplyOp` -/
inductive LogOp where
  /-- `raftLog.append(ents)` (leader appends; contiguous entries with index > 0) -/
  | append (ents : List Entry)
  /-- `raftLog.maybeAppend(prev, ents, mc)` (follower handles MsgApp; `ents` contiguous from `prev.index+1`) -/
  | maybeAppend (prev : EntryID) (ents : List Entry) (mc : Nat)
  /-- `raftLog.stableTo(index, term)`: any acknowledgement, also stale / reordered / ABA ones; a matching
  one requires that storage holds the acknowledged entries and no snapshot is pending -/
  | stableTo (id : EntryID)
  /-- `raftLog.acceptUnstable()` -/
  | acceptUnstable
  /-- storage `Append(es)` of entries of the log -/
  | storageAppend (es : List Entry)
  /-- storage `Compact(ci)` at an applied, stable index -/
  | storageCompact (ci : Nat)
  /-- `commitTo`, `nextCommittedEnts`+`acceptApplying`, `appliedTo`, `restore`, snapshot installation -/
  | cursor (op : ApplyOp)

namespace RaftLog

/-- the guard of `storageAppend` -/
def StorageAppendOK (l : RaftLog) (es : List Entry) : Prop :=
  match es with
  | [] => False
  | e0 :: rest =>
    l.unstable.snapshot = none ∧ Contig e0.index (e0 :: rest) ∧
    (∀ e ∈ e0 :: rest, l.abs.entry? e.index = some e) ∧
    e0.index ≤ l.storage.lastIndex + 1 ∧ l.unstable.offset ≤ e0.index + (e0 :: rest).length

instance (l : RaftLog) (es : List Entry) : Decidable (l.StorageAppendOK es) := by
  unfold StorageAppendOK; split <;> infer_instance

/-- the guard of `storageCompact` -/
def StorageCompactOK (l : RaftLog) (ci : Nat) : Prop :=
  l.unstable.snapshot = none ∧ l.storage.offset < ci ∧ ci ≤ l.applied ∧ ci < l.unstable.offset

instance (l : RaftLog) (ci : Nat) : Decidable (l.StorageCompactOK ci) := by
  unfold StorageCompactOK; infer_instance

/-- one guarded operation -/
def logStep (l : RaftLog) : LogOp → Option RaftLog
  | .append ents =>
    match ents with
    | [] => some l
    | e0 :: rest =>
      if Contig e0.index (e0 :: rest) ∧ 0 < e0.index then (l.append (e0 :: rest)).toOption.map (·.1) else none
  | .maybeAppend prev ents mc =>
    if Contig (prev.index + 1) ents then (l.maybeAppend prev ents mc).toOption.map (·.1) else none
  | .stableTo id =>
    if ¬ l.unstable.Matches id ∨ (l.unstable.snapshot = none ∧ l.StorageHolds id.index) then some (l.stableTo id)
    else none
  | .acceptUnstable => some l.acceptUnstable
  | .storageAppend es =>
    if l.StorageAppendOK es then (l.storage.append es).toOption.map (fun ms => { l with storage := ms }) else none
  | .storageCompact ci =>
    if l.StorageCompactOK ci then
      match l.storage.compact ci with
      | .ok (.ok ms) => some { l with storage := ms }
      | _ => none
    else none
  | .cursor op => (l.applyStep op).toOption.map (·.1)

/-- a sequence of guarded operations -/
def logRun (l : RaftLog) : List LogOp → Option RaftLog
  | [] => some l
  | op :: ops => (l.logStep op).bind (fun l1 => l1.logRun ops)

theorem toOption_map_eq_some {α β : Type} {x : Except String α} {f : α → β} {b : β}
    (h : x.toOption.map f = some b) : ∃ a, x = .ok a ∧ f a = b := by
  cases x with
  | error e => simp [Except.toOption] at h
  | ok a => exact ⟨a, rfl, by simpa [Except.toOption] using h⟩

/-- every guarded operation keeps the invariant -/
theorem logStep_wf {l : RaftLog} (h : l.WF) (op : LogOp) {l' : RaftLog} (hs : l.logStep op = some l') : l'.WF := by
  cases op with
  | append ents =>
    cases ents with
    | nil => simp only [logStep, Option.some.injEq] at hs; subst hs; exact h
    | cons e0 rest =>
      simp only [logStep] at hs
      split at hs
      · rename_i hg
        obtain ⟨r, hr, rfl⟩ := toOption_map_eq_some hs
        rcases append_spec h e0 rest hg.1 hg.2 with ⟨_, he⟩ | ⟨_, _, he⟩ | ⟨_, _, l1, hok, hwf, _⟩
        · rw [he] at hr; cases hr
        · rw [he] at hr; cases hr
        · rw [hok] at hr; injection hr with hr; subst hr; exact hwf
      · cases hs
  | maybeAppend prev ents mc =>
    simp only [logStep] at hs
    split at hs
    · rename_i hg
      obtain ⟨r, hr, rfl⟩ := toOption_map_eq_some hs
      rcases maybeAppend_spec h prev ents mc hg with ⟨_, he⟩ | ⟨_, ⟨_, he, hle⟩ | ⟨pre, e, post, _, _, _, ⟨_, he⟩ | ⟨_, l1, he, hwf, _⟩⟩⟩
      · rw [he] at hr; injection hr with hr; subst hr; exact h
      · rw [he] at hr; injection hr with hr; subst hr
        have hli := lastIndex_abs h
        exact (commitTo_wf h (commitTo_ok_of_le (c := min mc (prev.index + ents.length)) (by rw [hli]; omega))).1
      · rw [he] at hr; cases hr
      · rw [he] at hr; injection hr with hr; subst hr; exact hwf
    · cases hs
  | stableTo id =>
    simp only [logStep] at hs
    split at hs
    · rename_i hg
      injection hs with hs; subst hs
      by_cases hm : l.unstable.Matches id
      · rcases hg with hg | ⟨hsn, hh⟩
        · exact absurd hm hg
        · exact ((stableTo_spec h id).2 hm hsn hh).1
      · rw [(stableTo_spec h id).1 hm]; exact h
    · cases hs
  | acceptUnstable =>
    simp only [logStep, Option.some.injEq] at hs; subst hs
    exact (acceptUnstable_spec h).1
  | storageAppend es =>
    simp only [logStep] at hs
    split at hs
    · rename_i hg
      obtain ⟨ms, hr, rfl⟩ := toOption_map_eq_some hs
      cases es with
      | nil => exact absurd hg (by simp [StorageAppendOK])
      | cons e0 rest =>
        obtain ⟨hsn, hc, hin, hn, hreach⟩ := hg
        obtain ⟨ms', hok, hwf, _⟩ := storage_append_log h hsn hc (by simp) hin hn hreach
        rw [hok] at hr; injection hr with hr; subst hr; exact hwf
    · cases hs
  | storageCompact ci =>
    simp only [logStep] at hs
    split at hs
    · rename_i hg
      obtain ⟨hsn, hlo, happ, hst⟩ := hg
      obtain ⟨ms', t, hok, _, hwf, _⟩ := storage_compact_log h hsn ci hlo happ hst
      rw [hok] at hs
      simp only [Option.some.injEq] at hs
      subst hs; exact hwf
    · cases hs
  | cursor op =>
    simp only [logStep] at hs
    obtain ⟨r, hr, rfl⟩ := toOption_map_eq_some hs
    obtain ⟨l1, b⟩ := r
    exact (applyStep_spec h op hr).1

/-- **the invariant holds after every sequence of guarded operations** -/
theorem logRun_wf {l : RaftLog} (h : l.WF) (ops : List LogOp) {l' : RaftLog} (hr : l.logRun ops = some l') :
    l'.WF := by
  induction ops generalizing l with
  | nil => simp only [logRun, Option.some.injEq] at hr; subst hr; exact h
  | cons op ops ih =>
    simp only [logRun] at hr
    cases hs : l.logStep op with
    | none => rw [hs] at hr; cases hr
    | some l1 =>
      rw [hs] at hr
      exact ih (logStep_wf h op hs) hr

end RaftLog
end RaftVerif
