import RaftVerif.Proofs.SimInv
/-!
# Proofs/SimApp — a MsgApp of the node's own term: ignored (leader), Spec `ackCommit` / `handleApp` (others)
-/
namespace RaftVerif.Sim
open Refine
set_option linter.unusedSimpArgs false

/-! ### leader: a MsgApp of its own term is ignored -/

theorem app_stepLeader_run (fuel : Nat) (m : Message) (r : Raft) (ht : m.typ = .app) :
    (Raft.stepLeader fuel m).run r = .ok (none, r) := by
  unfold Raft.stepLeader
  cases hg : r.trk.getProgress m.from <;>
    simp only [ht, hg, StateT.run_bind, StateT.run_get, P_pure_eq, P_ok_bind, StateT.run_pure]

theorem app_leader_ignored {fuel : Nat} {m : Message} {r r' : Raft} {e : Option StepErr}
    (ht : m.typ = .app) (hterm : m.term = r.term) (hs : r.state = .leader)
    (h : (Raft.step (fuel + 1) m).run r = .ok (e, r')) : r' = r := by
  rw [step_same_term_dispatch fuel m r (Or.inr hterm) (by rw [ht]; decide)] at h
  unfold dispatch at h
  rw [hs] at h
  simp only at h
  rw [app_stepLeader_run fuel m r ht] at h
  injection h with h; injection h with _ h; exact h.symm

/-! ### `becomeFollower` keeps the static part -/

theorem app_lookup_map_keys {β γ : Type} (f : Id → β → γ) (l : List (Id × β)) (k : Id) :
    Quorum.lookup (l.map fun p => (p.1, f p.1 p.2)) k = (Quorum.lookup l k).map (f k) := by
  induction l with
  | nil => rfl
  | cons a t ih =>
    obtain ⟨i, b⟩ := a
    simp only [List.map_cons, Quorum.lookup]
    by_cases hk : i = k
    · subst hk; simp
    · have : (i == k) = false := by simpa using hk
      simp only [this, Bool.false_eq_true, ↓reduceIte]
      exact ih

/-- what `reset` leaves of the fields `RaftStatic` looks at -/
def AppResetFrame (s s' : Raft) : Prop :=
  s'.cfg = s.cfg ∧ s'.leadTransferee = 0 ∧ s'.pendingReadIndexMessages = s.pendingReadIndexMessages ∧
  s'.readOnly.unconfirmed = [] ∧ s'.trk.cfg = s.trk.cfg ∧
  ∃ f : Id → Progress → Progress, (∀ i p, (f i p).isLearner = p.isLearner) ∧
    s'.trk.progress = s.trk.progress.map fun p => (p.1, f p.1 p.2)

theorem app_reset_spec (t : Nat) (s : Raft) : Spec (Raft.reset t) s (fun _ s' => AppResetFrame s s') := by
  unfold Raft.reset
  simp only [wp]
  intro d rest _
  unfold AppResetFrame
  by_cases h : s.term = t <;> simp [h, Tracker.resetVotes]
  all_goals
    exact ⟨fun a b =>
      { match_ := if a = s.cfg.id then s.log.lastIndex else 0, next := s.log.lastIndex + 1,
        inflights := { size := s.trk.maxInflight, maxBytes := s.trk.maxInflightBytes },
        isLearner := b.isLearner }, fun _ _ => rfl, fun a b _ => rfl⟩

theorem app_becomeFollower_spec (t l : Nat) (s : Raft) :
    Spec (Raft.becomeFollower t l) s (fun _ s' => AppResetFrame s s') := by
  unfold Raft.becomeFollower
  simp only [wp]
  refine (app_reset_spec t s).mono ?_
  intro _ s' h
  exact h

theorem RaftStatic.of_resetFrame {voters : List Id} {n : Nat} {s s' : Raft} (h : RaftStatic voters n s)
    (hf : AppResetFrame s s') : RaftStatic voters n s' := by
  obtain ⟨h1, h2, h3, h4, h5, f, hf1, hf2⟩ := hf
  have hg : ∀ v, s'.trk.getProgress v = (s.trk.getProgress v).map (f v) := fun v => by
    unfold Tracker.getProgress mapGet
    rw [hf2, app_lookup_map_keys]
  refine ⟨by rw [h1]; exact h.id, h.idnz, by rw [h1]; exact h.pv, h2,
    h3.trans h.pri, h4, by rw [h5]; exact h.tvoters, by rw [h5]; exact h.tout, by rw [h5]; exact h.tauto,
    fun v => by rw [hg, Option.isSome_map]; exact h.prog v, ?_, h.self⟩
  intro v pr hp
  rw [hg] at hp
  cases hq : s.trk.getProgress v with
  | none => rw [hq] at hp; cases hp
  | some p =>
    rw [hq] at hp
    simp only [Option.map_some] at hp
    injection hp with hp
    rw [← hp, hf1]
    exact h.nolearn v p hq

/-! ### the static part survives a same-term MsgApp at a non-leader -/

theorem app_handle_static {voters : List Id} {n : Nat} {m : Message} {mid r' : Raft}
    (hst : RaftStatic voters n mid) (hwf : mid.log.WF) (hu : Uncompacted mid.log)
    (hc : Contig (m.index + 1) m.entries) (h : (Raft.handleAppendEntries m).run mid = .ok ((), r')) :
    RaftStatic voters n r' ∧ r'.trk = mid.trk := by
  obtain ⟨hol, _⟩ := (handleAppendEntries_refine (fun _ _ => 0) m mid hwf hu hc).elim h
  unfold OnlyLogMaa at hol
  refine ⟨hst.congr ?_ ?_ ?_ ?_ ?_ ?_, ?_⟩ <;> rw [hol]

theorem app_static {voters : List Id} {n : Nat} {fuel : Nat} {m : Message} {r r' : Raft} {e : Option StepErr}
    (hst : RaftStatic voters n r) (ht : m.typ = .app) (hterm : m.term = r.term) (hs : r.state ≠ .leader)
    (hwf : r.log.WF) (hu : Uncompacted r.log) (hc : Contig (m.index + 1) m.entries)
    (h : (Raft.step (fuel + 1) m).run r = .ok (e, r')) :
    RaftStatic voters n r' ∧ (r.state = .follower → r'.trk = r.trk) := by
  rw [step_same_term_dispatch fuel m r (Or.inr hterm) (by rw [ht]; decide)] at h
  have hcand : (Raft.stepCandidate fuel m).run r = .ok (e, r') → RaftStatic voters n r' := by
    intro h
    rw [stepCandidate_app_run fuel m ht] at h
    obtain ⟨_, mid, h1, h2⟩ := bind_ok h
    obtain ⟨_, r2, h3, h4⟩ := bind_ok h2
    obtain ⟨rfl, rfl⟩ := pure_ok h4
    have hfr := (app_becomeFollower_spec _ _ r).elim h1
    obtain ⟨_, _, _, _, a5, _⟩ := (Raft.becomeFollower_spec _ _ r).elim h1
    exact (app_handle_static (hst.of_resetFrame hfr) (by rw [a5]; exact hwf) (by rw [a5]; exact hu) hc h3).1
  unfold dispatch at h
  cases hstt : r.state with
  | leader => exact absurd hstt hs
  | candidate => rw [hstt] at h; exact ⟨hcand h, fun h => by cases h⟩
  | preCandidate => rw [hstt] at h; exact ⟨hcand h, fun h => by cases h⟩
  | follower =>
    rw [hstt] at h
    simp only at h
    rw [stepFollower_app_run fuel m ht] at h
    obtain ⟨_, mid, h1, h2⟩ := bind_ok h
    obtain ⟨_, r2, h3, h4⟩ := bind_ok h2
    obtain ⟨rfl, rfl⟩ := pure_ok h4
    have := set_ok h1
    subst this
    have := app_handle_static (mid := { r with electionElapsed := 0, lead := m.from })
      (hst.congr rfl rfl rfl rfl rfl rfl) hwf hu hc h3
    exact ⟨this.1, fun _ => this.2⟩

/-! ### building the invariant of the new follower -/

/-- promises stay recorded when only acknowledgements are added -/
theorem PromOK.mono_acks {n : Nat} {v v' : Spec.Ver} {x : Message} (h : PromOK n v x)
    (hv : v'.votes = v.votes) (ha : ∀ q ∈ v.acks, q ∈ v'.acks) : PromOK n v' x := by
  obtain ⟨a, b, c⟩ := h
  refine ⟨a, b, ?_⟩
  revert c
  split
  · rw [hv]; exact id
  · exact fun c hr => (c hr).imp id (ha _)
  · exact id

/-- the invariant of a node that handled a same-term MsgApp: it is a follower, term and `msgs` kept, the Spec
node lost no ack promise -/
theorem app_inv_build {val : Val} {voters : List Id} {n : Nat} {r r' : Raft} {nd nd' : Spec.Node}
    {msgs : List Spec.Msg} (hinv : RaftInv val voters n r nd msgs)
    (habs : Abs val r' nd') (hst : RaftStatic voters n r') (hwf : r'.log.WF) (hunc : Uncompacted r'.log)
    (hstate : r'.state = .follower) (hterm : r'.term = r.term)
    (hlogLe : ∀ e ∈ absLog val r', e.term ≤ r.term)
    (hpend : nd'.pending = nd.pending) (hdur : nd'.dur = nd.dur) (hvotes : nd'.vol.votes = nd.vol.votes)
    (hacks : ∀ q ∈ nd.vol.acks, q ∈ nd'.vol.acks) (hmsgs : r'.msgs = r.msgs)
    (hprom : ∀ x ∈ r'.msgsAfterAppend, PromOK n nd'.vol x) : RaftInv val voters n r' nd' msgs where
  abs := habs
  st := hst
  wf := hwf
  unc := hunc
  leadInv := fun h => by rw [hstate] at h; cases h
  candVote := fun h => by rw [hstate] at h; cases h
  termPos := fun h => absurd hstate h
  logLe := by rw [hterm]; exact hlogLe
  candLt := fun h => by rw [hstate] at h; cases h
  pend := hpend.trans hinv.pend
  durV := by rw [hdur, hvotes]; exact hinv.durV
  durA := by rw [hdur]; exact fun p hp => hacks _ (hinv.durA p hp)
  out := by rw [hmsgs]; exact hinv.out
  prom := hprom
  rvTerm := by rw [hterm]; exact hinv.rvTerm
  rvCov := fun h => by rw [hstate] at h; cases h
  votes := fun h => by rw [hstate] at h; cases h
  selfVote := fun h => by rw [hstate] at h; cases h
  matchO := fun h => by rw [hstate] at h; cases h
  matchS := fun h => by rw [hstate] at h; cases h

/-- every entry of the log after an append is an old entry or one of the appended entries -/
theorem app_appendResult_mem {l ents l' : Spec.Log} {prev pt : Nat}
    (h : Spec.appendResult l prev pt ents = some l') (e : Spec.Ent) (he : e ∈ l') : e ∈ l ∨ e ∈ ents := by
  unfold Spec.appendResult at h
  split at h
  · cases h
  · simp only at h
    split at h
    · injection h with h; subst h; exact Or.inl he
    · injection h with h; subst h
      rcases List.mem_append.1 he with h1 | h1
      · exact Or.inl (List.mem_of_mem_take h1)
      · exact Or.inr (List.mem_of_mem_drop h1)

/-- the promises queued after a MsgAppResp was appended -/
theorem app_prom {n : Nat} {r r' : Raft} {v v' : Spec.Ver} {to idx hint lt : Nat} {rej : Bool}
    (hold : ∀ x ∈ r.msgsAfterAppend, PromOK n v x) (hid : r.cfg.id = n) (h0 : r.term ≠ 0)
    (hv : v'.votes = v.votes) (ha : ∀ q ∈ v.acks, q ∈ v'.acks)
    (hmaa : r'.msgsAfterAppend = r.msgsAfterAppend ++ [appRespMsg r to idx rej hint lt])
    (hp : rej = false → (r.term, idx) ∈ v'.acks) : ∀ x ∈ r'.msgsAfterAppend, PromOK n v' x := by
  intro x hx
  rw [hmaa] at hx
  rcases List.mem_append.1 hx with hx | hx
  · exact (hold x hx).mono_acks hv ha
  · simp only [List.mem_singleton] at hx
    subst hx
    refine ⟨hid, h0, ?_⟩
    show rej = false → idx = 0 ∨ (r.term, idx) ∈ v'.acks
    exact fun hr => Or.inr (hp hr)

theorem app_hasAppOrSnap {msgs : List Spec.Msg} {t prev pt c : Nat} {ents : Spec.Log}
    (h : Spec.Msg.app t prev pt ents c ∈ msgs) : Spec.hasAppOrSnap msgs t = true := by
  unfold Spec.hasAppOrSnap
  rw [List.any_eq_true]
  exact ⟨_, h, by simp⟩

/-! ### the non-leader case -/

/-- **MsgApp at the own term of a non-leader** (follower, candidate or pre-candidate): Spec `ackCommit`
(append below the commit index) or Spec `handleApp` (accepted or rejected) -/
theorem sim_app_nonleader {val : Val} {voters : List Id} {n : Nat} {s : Spec.State} {r r' : Raft} {m : Message}
    {e : Option StepErr} {fuel : Nat} (hinv : RaftInv val voters n r (s.nodes n) s.msgs)
    (ht : m.typ = .app) (hterm : m.term = r.term) (hin : NetOK val s.msgs m) (hs : r.state ≠ .leader)
    (h : (Raft.step (fuel + 1) m).run r = .ok (e, r')) : RaftSim val voters n s r' := by
  unfold NetOK at hin
  simp only [ht] at hin
  obtain ⟨ht0, hsoup, hcontig, hle⟩ := hin
  have hsoup' : Spec.Msg.app r.term m.index m.logTerm (m.entries.map (absEnt val)) m.commit ∈ s.msgs := by
    rw [← hterm]; exact hsoup
  obtain ⟨_, hf, hmsgs, hcase⟩ := step_app_refine val fuel m r r' e ht hterm hs hinv.wf hinv.unc hcontig h
  obtain ⟨hst', _⟩ := app_static hinv.st ht hterm hs hinv.wf hinv.unc hcontig h
  have hr0 : r.term ≠ 0 := hterm ▸ ht0
  rcases hcase with hc | hc | hc
  · -- stale: `ackCommit`
    have hen := ackCommit_enabled val (cfgOf voters) hinv.abs hs (app_hasAppOrSnap hsoup')
    refine ⟨[.ackCommit n r.term], _, .single hen, by simp [Spec.Action.actor], ?_⟩
    have hm : (Spec.apply s (.ackCommit n r.term)).msgs = s.msgs := rfl
    have habs := appStale_abs val hinv.abs hf hc
    have hnd := ackCommit_nodes s n r.term
    obtain ⟨_, hl, hmaa⟩ := hc
    have hlog : absLog val r' = absLog val r := by unfold absLog; rw [hl]
    rw [hm]
    refine app_inv_build hinv habs hst' (by rw [hl]; exact hinv.wf) (by rw [hl]; exact hinv.unc) hf.state hf.term
      (by rw [hlog]; exact hinv.logLe) (by rw [hnd]) (by rw [hnd]) (by rw [hnd]) ?_ hmsgs ?_
    · rw [hnd]; exact fun q hq => List.mem_cons_of_mem _ hq
    · refine app_prom hinv.prom hinv.st.id hr0 (by rw [hnd]) ?_ hmaa ?_
      · rw [hnd]; exact fun q hq => List.mem_cons_of_mem _ hq
      · intro _
        rw [hnd, ← hinv.abs.commit]
        exact List.mem_cons_self
  · -- rejected: `handleApp` with `appendResult = none`
    have hen := handleApp_enabled val (cfgOf voters) hinv.abs hs (Or.inl hc) hsoup'
    refine ⟨[.handleApp n r.term m.index m.logTerm (m.entries.map (absEnt val)) m.commit], _, .single hen,
      by simp [Spec.Action.actor], ?_⟩
    have hm : (Spec.apply s (.handleApp n r.term m.index m.logTerm (m.entries.map (absEnt val)) m.commit)).msgs
        = s.msgs := by rw [Spec.apply_msgs]; rfl
    have habs := appReject_abs val hinv.abs hf hc
    obtain ⟨_, _, hl, hnone, hmaa⟩ := hc
    have hnd := handleApp_nodes_none s n r.term m.index m.logTerm (m.entries.map (absEnt val)) m.commit
      (by rw [hinv.abs.log]; exact hnone)
    have hlog : absLog val r' = absLog val r := by unfold absLog; rw [hl]
    rw [hm]
    refine app_inv_build hinv habs hst' (by rw [hl]; exact hinv.wf) (by rw [hl]; exact hinv.unc) hf.state hf.term
      (by rw [hlog]; exact hinv.logLe) (by rw [hnd]) (by rw [hnd]) (by rw [hnd]) ?_ hmsgs ?_
    · rw [hnd]; exact fun q hq => hq
    · refine app_prom hinv.prom hinv.st.id hr0 (by rw [hnd]) ?_ hmaa (fun h => by cases h)
      rw [hnd]; exact fun q hq => hq
  · -- accepted: `handleApp` with `appendResult = some (absLog val r')`
    have hen := handleApp_enabled val (cfgOf voters) hinv.abs hs (Or.inr hc) hsoup'
    refine ⟨[.handleApp n r.term m.index m.logTerm (m.entries.map (absEnt val)) m.commit], _, .single hen,
      by simp [Spec.Action.actor], ?_⟩
    have hm : (Spec.apply s (.handleApp n r.term m.index m.logTerm (m.entries.map (absEnt val)) m.commit)).msgs
        = s.msgs := by rw [Spec.apply_msgs]; rfl
    have habs := appAccept_abs val hinv.abs hf hc
    obtain ⟨_, _, hres, _, _, hwf', hunc', hmaa⟩ := hc
    have hnd := handleApp_nodes_some s n r.term m.index m.logTerm (m.entries.map (absEnt val)) m.commit _
      (by rw [hinv.abs.log]; exact hres)
    rw [hm]
    refine app_inv_build hinv habs hst' hwf' hunc' hf.state hf.term ?_ (by rw [hnd]) (by rw [hnd]) (by rw [hnd])
      ?_ hmsgs ?_
    · intro x hx
      rcases app_appendResult_mem hres x hx with h1 | h1
      · exact hinv.logLe x h1
      · obtain ⟨e0, he0, rfl⟩ := List.mem_map.1 h1
        rw [← hterm]
        exact hle e0 he0
    · rw [hnd]; exact fun q hq => List.mem_cons_of_mem _ hq
    · refine app_prom hinv.prom hinv.st.id hr0 (by rw [hnd]) ?_ hmaa ?_
      · rw [hnd]; exact fun q hq => List.mem_cons_of_mem _ hq
      · intro _
        rw [hnd]
        show (r.term, m.index + m.entries.length) ∈
          (r.term, m.index + (m.entries.map (absEnt val)).length) :: (s.nodes n).vol.acks
        rw [List.length_map]
        exact List.mem_cons_self

/-- **MsgApp at the node's own term**: ignored by a leader (no Spec action); at a follower, candidate or
pre-candidate it is Spec `ackCommit` (stale append) or Spec `handleApp` (accepted / rejected) — these Spec actions
set `role := follower` themselves, so no separate `stepDown` is needed for a candidate.
`hreach` is not used. -/
theorem sim_app_same {val : Val} {voters : List Id} {n : Nat} {s : Spec.State} {r r' : Raft} {m : Message}
    {e : Option StepErr} {fuel : Nat} (hinv : RaftInv val voters n r (s.nodes n) s.msgs)
    (_hreach : Spec.Reachable (cfgOf voters) s)
    (ht : m.typ = .app) (hterm : m.term = r.term) (hin : NetOK val s.msgs m)
    (h : (Raft.step (fuel + 1) m).run r = .ok (e, r')) : RaftSim val voters n s r' := by
  by_cases hs : r.state = .leader
  · rw [app_leader_ignored ht hterm hs h]
    exact RaftSim.refl hinv
  · exact sim_app_nonleader hinv ht hterm hin hs h

end RaftVerif.Sim
