import RaftVerif.Proofs.RawNodeInv
/-!
# Proofs/RawDecide — `Decidable` instances for the C05 predicates (used by the concrete examples of
`Props/C05Raw.lean`) and the evaluation lemma `step_outcome`
-/
namespace RaftVerif.Raw
open RaftVerif Raft

instance (r : Raft) (x : Message) : Decidable (AppFine r x) := by unfold AppFine; infer_instance
instance (r : Raft) (x : Message) : Decidable (VoteFine r x) := by unfold VoteFine; infer_instance
instance (r : Raft) : Decidable (CL r) := by unfold CL; infer_instance

instance (r : Raft) : Decidable (PromisesWithinLog r) :=
  decidable_of_iff
    ((∀ x ∈ r.msgsAfterAppend, PendApp x → AppFine r x) ∧ (∀ x ∈ r.msgsAfterAppend, PendVote x → VoteFine r x) ∧
      (∀ x ∈ r.msgs, isPromise x.typ = false) ∧ CL r)
    ⟨fun ⟨a, b, c, d⟩ => ⟨a, b, c, d⟩, fun ⟨a, b, c, d⟩ => ⟨a, b, c, d⟩⟩

/-- outcome of a `Step` checked by evaluation -/
theorem step_outcome {P : Raft → Prop} [DecidablePred P] {x : Except String (Option StepErr × Raft)}
    (h : (match x with | .ok p => decide (P p.2) | .error _ => false) = true) :
    ∃ e r', x = .ok (e, r') ∧ P r' := by
  cases x with
  | error _ => simp at h
  | ok p => exact ⟨p.1, p.2, rfl, of_decide_eq_true h⟩

instance (l : RaftLog) (maa : List Message) (m : Message) : Decidable (AppAgrees l maa m) :=
  decidable_of_iff
    (Contig (m.index + 1) m.entries ∧ ∀ x ∈ maa, PendApp x → x.term = m.term → x.index ≤ l.lastIndex →
      ∀ e ∈ m.entries, e.index ≤ x.index → l.matchTerm ⟨e.term, e.index⟩ = true)
    ⟨fun ⟨a, b⟩ => ⟨a, b⟩, fun ⟨a, b⟩ => ⟨a, b⟩⟩

instance (l : RaftLog) (m : Message) : Decidable (AckOK l m) :=
  match h : m.snapshot with
  | none =>
    decidable_of_iff ((l.stableTo ⟨m.logTerm, m.index⟩).lastIndex = l.lastIndex)
      ⟨fun a => ⟨a, fun sn hs => by rw [h] at hs; cases hs⟩, fun a => a.ents⟩
  | some s =>
    decidable_of_iff ((l.stableTo ⟨m.logTerm, m.index⟩).lastIndex = l.lastIndex ∧
        (l.stableSnapTo s.index).lastIndex = l.lastIndex ∧
        ((l.stableTo ⟨m.logTerm, m.index⟩).stableSnapTo s.index).lastIndex = l.lastIndex)
      ⟨fun ⟨a, b⟩ => ⟨a, fun sn hs => by rw [h] at hs; cases hs; exact b⟩, fun a => ⟨a.ents, a.snap s h⟩⟩

end RaftVerif.Raw
