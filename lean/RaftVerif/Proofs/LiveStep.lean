import RaftVerif.Proofs.LiveTick
/-!
# Proofs/LiveStep — term handling in `Step` that frees a node stuck at a higher term (C15)

* a MsgApp / MsgHeartbeat of a *lower* term is answered with an empty MsgAppResp carrying the node's
  term when CheckQuorum or PreVote is on (raft.go:1133-1156), and ignored otherwise;
* a MsgAppResp / MsgHeartbeatResp of a *higher* term makes the receiver a follower of that term.
-/
namespace RaftVerif.Live
open Raft
set_option linter.unusedSimpArgs false

/-- the response sent to a stale leader -/
def staleResp (r : Raft) (m : Message) : Message :=
  { to := m.from, «from» := r.cfg.id, typ := .appResp, term := r.term }

theorem step_stale_app_run (fuel : Nat) (m : Message) (r : Raft) (h0 : m.term ≠ 0) (hlt : m.term < r.term)
    (ht : m.typ = .app ∨ m.typ = .heartbeat)
    (hq : r.cfg.checkQuorum = true ∨ r.cfg.preVote = true) :
    (step (fuel + 1) m).run r =
      .ok (none, { r with msgsAfterAppend := r.msgsAfterAppend ++ [staleResp r m] }) := by
  rw [step]
  have h0' : (m.term == 0) = false := by simpa using h0
  have h1 : ¬ (m.term > r.term) := by omega
  have hc : ((r.cfg.checkQuorum || r.cfg.preVote) && (m.typ == .heartbeat || m.typ == .app)) = true := by
    rcases hq with hq | hq <;> rcases ht with ht | ht <;> simp [hq, ht]
  simp only [StateT.run_bind, StateT.run_get, P_pure_eq, P_ok_bind, h0', h1, hlt, hc, Bool.false_eq_true,
    ↓reduceIte, StateT.run_pure]
  rw [send_run_nonvote _ _ (by simp) (by simp) (by simp) (by simp) rfl]
  simp only [↓reduceIte, P_ok_bind]
  rfl

theorem step_stale_app_ignored (fuel : Nat) (m : Message) (r : Raft) (h0 : m.term ≠ 0) (hlt : m.term < r.term)
    (ht : m.typ = .app ∨ m.typ = .heartbeat)
    (hq : r.cfg.checkQuorum = false) (hp : r.cfg.preVote = false) :
    (step (fuel + 1) m).run r = .ok (none, r) := by
  rw [step]
  have h0' : (m.term == 0) = false := by simpa using h0
  have h1 : ¬ (m.term > r.term) := by omega
  simp only [StateT.run_bind, StateT.run_get, P_pure_eq, P_ok_bind, h0', h1, hlt, hq, hp, Bool.false_eq_true,
    ↓reduceIte, StateT.run_pure, Bool.or_self, Bool.false_and]
  rcases ht with ht | ht <;>
    simp only [ht, beq_iff_eq, reduceCtorEq, ↓reduceIte, StateT.run_pure, P_pure_eq, Bool.false_eq_true]

/-- a response of a higher term: `becomeFollower(m.Term, None)`, then the message is dropped by
`stepFollower` -/
theorem step_higher_term_resp_run (fuel : Nat) (m : Message) (r : Raft) (hgt : r.term < m.term)
    (ht : m.typ = .appResp ∨ m.typ = .heartbeatResp) :
    (step (fuel + 1) m).run r = ((becomeFollower m.term 0).run r >>= fun p => .ok (none, p.2)) := by
  rw [step]
  have h0' : (m.term == 0) = false := by
    have : m.term ≠ 0 := by omega
    simpa using this
  have hgt' : m.term > r.term := hgt
  simp only [StateT.run_bind, StateT.run_get, P_pure_eq, P_ok_bind, h0', hgt', Bool.false_eq_true, ↓reduceIte,
    StateT.run_pure]
  cases hb : (becomeFollower m.term 0).run r with
  | error e =>
    rcases ht with ht | ht <;>
      simp only [ht, Bool.or_eq_true, Bool.and_eq_true, beq_iff_eq, reduceCtorEq, or_self, or_false, false_or,
        false_and, and_false, Bool.false_eq_true, ↓reduceIte, StateT.run_bind, hb, P_error_bind]
  | ok p =>
    have hf : p.2.state = .follower := ((becomeFollower_spec m.term 0 r).elim hb).2.2.2.1
    rcases ht with ht | ht <;>
      simp only [ht, Bool.or_eq_true, Bool.and_eq_true, beq_iff_eq, reduceCtorEq, or_self, or_false, false_or,
        false_and, and_false, Bool.false_eq_true, ↓reduceIte, StateT.run_bind, hb, P_ok_bind, StateT.run_get,
        P_pure_eq, hf, stepFollower, StateT.run_pure]

end RaftVerif.Live
