import RaftVerif.Proofs.RawInv
import RaftVerif.Props.C07Ready
import RaftVerif.Proofs.C14Restore
import RaftVerif.Props.C18
import RaftVerif.Props.C15
/-!
# Proofs/RawAsync — the exact shape of an async-storage-writes `Ready` (C05)

* `sar_spec`, `sar_total`               — `newStorageAppendRespMsg` field by field; total under `RaftLog.WF`
* `async_ready_shape`                   — `rd.messages = raft.msgs ++ appendPart ++ applyPart`, exactly
* `async_promises_only_via_storage_append` — promises leave only inside the one `MsgStorageAppend`
* `async_self_ack_is_last_response`     — the self-acknowledgement is the last response; `acceptReady`
  empties the queues and marks every unstable entry in progress
-/
set_option linter.unusedSimpArgs false
namespace RaftVerif.Raw
open RaftVerif Raft RawNode

/-! ## C. `newStorageAppendRespMsg` -/

/-- `newStorageAppendRespMsg` looks only at the snapshot of the `Ready` -/
theorem sar_congr (r : Raft) (rd rd' : Ready) (h : rd.snapshot = rd'.snapshot) :
    newStorageAppendRespMsg r rd = newStorageAppendRespMsg r rd' := by
  unfold newStorageAppendRespMsg; rw [h]

theorem sar_need_congr (r : Raft) (rd rd' : Ready) (h : rd.snapshot = rd'.snapshot) :
    needStorageAppendRespMsg r rd = needStorageAppendRespMsg r rd' := by
  unfold needStorageAppendRespMsg; rw [h]

/-- **`newStorageAppendRespMsg_spec`**: every field of the acknowledgement.  `term` is the node's term
when the `Ready` was built (the ABA guard of `stableTo`); `(index, logTerm)` is the id of the last log
entry iff unstable entries exist (handed out or in progress), else `(0, 0)`; the snapshot is the one
of the `Ready` iff that is non-empty. -/
theorem sar_spec (r : Raft) (rd : Ready) (m : Message) (h : newStorageAppendRespMsg r rd = .ok m) :
    m.typ = .storageAppendResp ∧ m.to = r.cfg.id ∧ m.from = localAppendThread ∧ m.term = r.term ∧
    (r.log.hasNextOrInProgressUnstableEnts = true →
      ∃ t, r.log.term r.log.lastIndex = .ok t ∧ m.index = r.log.lastIndex ∧ m.logTerm = t) ∧
    (r.log.hasNextOrInProgressUnstableEnts = false → m.index = 0 ∧ m.logTerm = 0) ∧
    (isEmptySnap rd.snapshot = false → m.snapshot = rd.snapshot) ∧
    (isEmptySnap rd.snapshot = true → m.snapshot = none) ∧
    m.reject = false ∧ m.entries = [] ∧ m.responses = [] ∧
    m.commit = 0 ∧ m.vote = 0 ∧ m.rejectHint = 0 ∧ m.context = none := by
  unfold newStorageAppendRespMsg at h
  cases hn : r.log.hasNextOrInProgressUnstableEnts with
  | false =>
    simp only [hn, Bool.false_eq_true, ↓reduceIte, bind, Except.bind, pure, Except.pure] at h
    injection h with h
    subst h
    cases hs : isEmptySnap rd.snapshot <;> simp [hs]
  | true =>
    simp only [hn, ↓reduceIte, bind, Except.bind, pure, Except.pure] at h
    unfold RaftLog.lastEntryID at h
    cases ht : r.log.term r.log.lastIndex with
    | error e => simp [ht, throw, throwThe, MonadExceptOf.throw] at h
    | ok t =>
      simp only [ht, pure, Except.pure] at h
      injection h with h
      subst h
      cases hs : isEmptySnap rd.snapshot <;> simp [hs]

/-- totality: on a well-formed log the acknowledgement can always be built -/
theorem sar_total (r : Raft) (rd : Ready) (h : r.log.WF) : ∃ m, newStorageAppendRespMsg r rd = .ok m :=
  C14.newStorageAppendRespMsg_ok' r rd h

/-- the acknowledgement is never a promise and is addressed to the node itself -/
theorem sar_not_promise (r : Raft) (rd : Ready) (m : Message) (h : newStorageAppendRespMsg r rd = .ok m) :
    isPromise m.typ = false := by
  rw [(sar_spec r rd m h).1]; rfl

/-! ## A. the shape of an async `Ready` -/

/-- `needStorageAppendMsg` (rawnode.go:218-224), on the `Ready` under construction -/
def async_needApp (r : Raft) (rd : Ready) : Bool :=
  decide (rd.entries.length > 0) || !isEmptyHS rd.hardState || !isEmptySnap rd.snapshot ||
    decide (r.msgsAfterAppend.length > 0)

/-- the `(term, vote, commit)` a `MsgStorageAppend` carries: those of a non-empty `HardState`, else zeros -/
def async_hs : Option HardState → HardState
  | some h => if h.isEmpty then {} else h
  | none => {}

/-- the snapshot a `MsgStorageAppend` / its acknowledgement carries: only a non-empty one -/
def async_snap (s : Option Snapshot) : Option Snapshot := if isEmptySnap s then none else s

/-- the `MsgStorageAppend` of a `Ready` whose self-acknowledgement part is `selfAck` -/
def async_appendMsg (r : Raft) (rd : Ready) (selfAck : List Message) : Message :=
  { typ := .storageAppend, to := localAppendThread, «from» := r.cfg.id, entries := rd.entries,
    term := (async_hs rd.hardState).term, vote := (async_hs rd.hardState).vote,
    commit := (async_hs rd.hardState).commit, snapshot := async_snap rd.snapshot,
    responses := r.msgsAfterAppend ++ selfAck }

/-- the `MsgStorageApply` of a `Ready` -/
def async_applyMsg (r : Raft) (rd : Ready) : Message :=
  { typ := .storageApply, to := localApplyThread, «from» := r.cfg.id, term := 0,
    entries := rd.committedEntries, responses := [newStorageApplyRespMsg r rd.committedEntries] }

/-- `selfAck` is `[resp]` with `resp` the acknowledgement of `sar_spec` iff one is needed, else `[]` -/
def async_IsSelfAck (r : Raft) (rd : Ready) (selfAck : List Message) : Prop :=
  (needStorageAppendRespMsg r rd = true → ∃ resp, newStorageAppendRespMsg r rd = .ok resp ∧ selfAck = [resp]) ∧
  (needStorageAppendRespMsg r rd = false → selfAck = [])

/-- the append part of `rd.messages` -/
def async_AppendPart (r : Raft) (rd : Ready) (ap : List Message) : Prop :=
  (async_needApp r rd = false → ap = []) ∧
  (async_needApp r rd = true → ∃ selfAck, async_IsSelfAck r rd selfAck ∧ ap = [async_appendMsg r rd selfAck])

/-- the apply part of `rd.messages` -/
def async_ApplyPart (r : Raft) (rd : Ready) (ap : List Message) : Prop :=
  (rd.committedEntries = [] → ap = []) ∧ (rd.committedEntries ≠ [] → ap = [async_applyMsg r rd])

/-- **the shape**: `rd.messages = raft.msgs ++ appendPart ++ applyPart` -/
def async_Shape (rn : RawNode) (rd : Ready) : Prop :=
  ∃ appendPart applyPart, rd.messages = rn.raft.msgs ++ appendPart ++ applyPart ∧
    async_AppendPart rn.raft rd appendPart ∧ async_ApplyPart rn.raft rd applyPart

theorem async_appendPart_intro (r : Raft) (y : Ready) (m : Message) (selfAck : List Message)
    (hc : async_needApp r y = true) (hs : async_IsSelfAck r y selfAck) (hm : m = async_appendMsg r y selfAck) :
    async_AppendPart r y [m] :=
  ⟨fun hf => (by rw [hc] at hf; cases hf), fun _ => ⟨selfAck, hs, by rw [hm]⟩⟩

theorem async_selfAck_some (r : Raft) (y : Ready) (resp : Message) (hn : needStorageAppendRespMsg r y = true)
    (hr : newStorageAppendRespMsg r y = .ok resp) : async_IsSelfAck r y [resp] :=
  ⟨fun _ => ⟨resp, hr, rfl⟩, fun hf => (by rw [hn] at hf; cases hf)⟩

theorem async_selfAck_none (r : Raft) (y : Ready) (hn : needStorageAppendRespMsg r y = false) :
    async_IsSelfAck r y [] :=
  ⟨fun hf => (by rw [hn] at hf; cases hf), fun _ => rfl⟩

/-- **async_ready_shape** (`RawNode.readyWithoutAccept`, async storage writes): the messages of a
`Ready` are the queued `raft.msgs`, then **at most one** `MsgStorageAppend` — present iff
`async_needApp` (entries, or a changed non-empty hard state, or a non-empty snapshot, or pending
responses; see `async_needApp_iff`) and then exactly `async_appendMsg` with the self-acknowledgement
attached iff `needStorageAppendRespMsg` — then **at most one** `MsgStorageApply`, present iff there are
committed entries to apply.  Nothing else. -/
theorem async_ready_shape (rn : RawNode) (rd : Ready) (ha : rn.async = true)
    (h : rn.readyWithoutAccept = .ok rd) : async_Shape rn rd := by
  unfold RawNode.readyWithoutAccept at h
  obtain ⟨cents, hc, h⟩ := bind_eq_ok.1 h
  extract_lets rd0 jEnd jApply jAsync jRS jSnap jHard at h
  obtain ⟨x1, hx1, h⟩ := Live.ite_same_fn (f := jHard ()) (fun x => x.messages = rn.raft.msgs) h rfl rfl
  simp only [jHard] at h
  obtain ⟨x2, hx2, h⟩ := Live.ite_same_fn (f := jSnap ()) (fun x => x.messages = rn.raft.msgs) h hx1 hx1
  simp only [jSnap] at h
  obtain ⟨x3, hx3, h⟩ := Live.ite_same_fn (f := jRS ()) (fun x => x.messages = rn.raft.msgs) h hx2 hx2
  simp only [jRS] at h
  obtain ⟨x4, hx4, h⟩ := Live.ite_same_fn (f := jAsync ()) (fun x => x.messages = rn.raft.msgs) h hx3 hx3
  -- the last join point: maybe a MsgStorageApply is appended
  have hfin : ∀ (y : Ready) (ap : List Message), y.messages = rn.raft.msgs ++ ap →
      async_AppendPart rn.raft y ap → jApply () y = .ok rd → async_Shape rn rd := by
    intro y ap hy hap hj
    simp only [jApply, jEnd] at hj
    split at hj
    · rename_i hlen
      injection hj with hj
      subst hj
      refine ⟨ap, [async_applyMsg rn.raft y], ?_, hap, ?_, fun _ => rfl⟩
      · show y.messages ++ _ = _
        rw [hy]; rfl
      · intro he
        have he' : y.committedEntries = [] := he
        rw [he'] at hlen; simp at hlen
    · rename_i hlen
      injection hj with hj
      subst hj
      refine ⟨ap, [], ?_, hap, fun _ => rfl, fun hne => ?_⟩
      · rw [hy, List.append_nil]
      · exfalso; apply hlen
        simpa using List.length_pos_iff.mpr hne
  simp only [jAsync, ha, ↓reduceIte] at h
  have e1 : needStorageAppendRespMsg rn.raft
      { x4 with mustSync := mustSync (hardState rn.raft) rn.prevHard x4.entries.length } =
      needStorageAppendRespMsg rn.raft x4 := rfl
  have e2 : newStorageAppendRespMsg rn.raft
      { x4 with mustSync := mustSync (hardState rn.raft) rn.prevHard x4.entries.length } =
      newStorageAppendRespMsg rn.raft x4 := rfl
  simp only [e1, e2] at h
  split at h
  · rename_i hcond
    have hcond' : ∀ ms sy, async_needApp rn.raft { x4 with messages := ms, mustSync := sy } = true :=
      fun _ _ => hcond
    cases hH : x4.hardState with
    | none =>
      have hcond2 := hcond
      simp only [hH] at h hcond2
      cases hsn : isEmptySnap x4.snapshot <;> cases hnr : needStorageAppendRespMsg rn.raft x4 <;>
        simp only [hsn, hnr, Bool.not_true, Bool.not_false, Bool.false_eq_true, ↓reduceIte] at h
      all_goals first
        | (obtain ⟨resp, hresp, h⟩ := bind_eq_ok.1 h
           refine hfin _ _ (by exact congrArg (· ++ [_]) hx4) ?_ h
           refine async_appendPart_intro _ _ _ [resp] hcond2 (async_selfAck_some _ _ resp hnr hresp) ?_
           simp only [async_appendMsg, async_hs, async_snap, hsn, Bool.false_eq_true, ↓reduceIte])
        | (refine hfin _ _ (by exact congrArg (· ++ [_]) hx4) ?_ h
           refine async_appendPart_intro _ _ _ [] hcond2 (async_selfAck_none _ _ hnr) ?_
           simp only [async_appendMsg, async_hs, async_snap, hsn, Bool.false_eq_true, ↓reduceIte,
             List.append_nil])
    | some hh =>
      have hcond2 := hcond
      simp only [hH] at h hcond2
      cases hemp : hh.isEmpty <;> cases hsn : isEmptySnap x4.snapshot <;>
        cases hnr : needStorageAppendRespMsg rn.raft x4 <;>
        simp only [hemp, hsn, hnr, Bool.not_true, Bool.not_false, Bool.false_eq_true, ↓reduceIte] at h
      all_goals first
        | (obtain ⟨resp, hresp, h⟩ := bind_eq_ok.1 h
           refine hfin _ _ (by exact congrArg (· ++ [_]) hx4) ?_ h
           refine async_appendPart_intro _ _ _ [resp] hcond2 (async_selfAck_some _ _ resp hnr hresp) ?_
           simp only [async_appendMsg, async_hs, async_snap, hemp, hsn, Bool.false_eq_true, ↓reduceIte])
        | (refine hfin _ _ (by exact congrArg (· ++ [_]) hx4) ?_ h
           refine async_appendPart_intro _ _ _ [] hcond2 (async_selfAck_none _ _ hnr) ?_
           simp only [async_appendMsg, async_hs, async_snap, hemp, hsn, Bool.false_eq_true, ↓reduceIte,
             List.append_nil])
  · rename_i hcond
    refine hfin _ [] (by show x4.messages = _; rw [hx4, List.append_nil]) ⟨fun _ => rfl, fun hf => ?_⟩ h
    exact absurd hf hcond

/-! ### reading the shape -/

theorem async_isEmptyHS_false_iff (h : Option HardState) :
    isEmptyHS h = false ↔ ∃ hs, h = some hs ∧ hs.isEmpty = false := by
  cases h with
  | none => simp [isEmptyHS]
  | some hs => simp [isEmptyHS]

theorem async_isEmptySnap_false_iff (s : Option Snapshot) :
    isEmptySnap s = false ↔ ∃ sn, s = some sn ∧ sn.index ≠ 0 := by
  cases s with
  | none => simp [isEmptySnap]
  | some sn => simp [isEmptySnap]

/-- `needStorageAppendMsg` **exactly**: something to write (entries / non-empty hard state / non-empty
snapshot) or responses waiting for the next write -/
theorem async_needApp_iff (r : Raft) (rd : Ready) :
    async_needApp r rd = true ↔
      rd.entries ≠ [] ∨ (∃ hs, rd.hardState = some hs ∧ hs.isEmpty = false) ∨
      (∃ sn, rd.snapshot = some sn ∧ sn.index ≠ 0) ∨ r.msgsAfterAppend ≠ [] := by
  rw [← async_isEmptyHS_false_iff, ← async_isEmptySnap_false_iff]
  unfold async_needApp
  simp only [Bool.or_eq_true, decide_eq_true_eq, Bool.not_eq_true', List.length_pos_iff, or_assoc]

/-- every field of the `MsgStorageAppend` -/
theorem async_appendMsg_spec (r : Raft) (rd : Ready) (selfAck : List Message) :
    (async_appendMsg r rd selfAck).typ = .storageAppend ∧
    (async_appendMsg r rd selfAck).to = localAppendThread ∧
    (async_appendMsg r rd selfAck).from = r.cfg.id ∧
    (async_appendMsg r rd selfAck).entries = rd.entries ∧
    (∀ hs, rd.hardState = some hs → hs.isEmpty = false →
      (async_appendMsg r rd selfAck).term = hs.term ∧ (async_appendMsg r rd selfAck).vote = hs.vote ∧
      (async_appendMsg r rd selfAck).commit = hs.commit) ∧
    (isEmptyHS rd.hardState = true →
      (async_appendMsg r rd selfAck).term = 0 ∧ (async_appendMsg r rd selfAck).vote = 0 ∧
      (async_appendMsg r rd selfAck).commit = 0) ∧
    (isEmptySnap rd.snapshot = false → (async_appendMsg r rd selfAck).snapshot = rd.snapshot) ∧
    (isEmptySnap rd.snapshot = true → (async_appendMsg r rd selfAck).snapshot = none) ∧
    (async_appendMsg r rd selfAck).responses = r.msgsAfterAppend ++ selfAck ∧
    (async_appendMsg r rd selfAck).index = 0 ∧ (async_appendMsg r rd selfAck).logTerm = 0 ∧
    (async_appendMsg r rd selfAck).reject = false ∧ (async_appendMsg r rd selfAck).rejectHint = 0 ∧
    (async_appendMsg r rd selfAck).context = none := by
  refine ⟨rfl, rfl, rfl, rfl, ?_, ?_, ?_, ?_, rfl, rfl, rfl, rfl, rfl, rfl⟩
  · intro hs hh hne
    simp only [async_appendMsg, async_hs, hh, hne, Bool.false_eq_true, ↓reduceIte, and_self]
  · intro he
    cases hh : rd.hardState with
    | none => simp only [async_appendMsg, async_hs, hh, and_self]
    | some hs =>
      have : hs.isEmpty = true := by simpa [isEmptyHS, hh] using he
      simp only [async_appendMsg, async_hs, hh, this, ↓reduceIte, and_self]
  · intro he
    simp only [async_appendMsg, async_snap, he, Bool.false_eq_true, ↓reduceIte]
  · intro he
    simp only [async_appendMsg, async_snap, he, ↓reduceIte]

/-- the content fields of a `Ready` in terms of the node: **every** unstable entry not yet handed out, the
pending snapshot not yet handed out, the **current** hard state iff it differs from the last one handed out -/
theorem async_ready_fields (rn : RawNode) (rd : Ready) (h : rn.readyWithoutAccept = .ok rd) :
    rd.entries = rn.raft.log.nextUnstableEnts ∧
    rd.snapshot = rn.raft.log.unstable.nextSnapshot ∧
    (hardState rn.raft ≠ rn.prevHard → rd.hardState = some (hardState rn.raft)) ∧
    (hardState rn.raft = rn.prevHard → rd.hardState = none) := by
  obtain ⟨hc, _⟩ := Next.readyWithoutAccept_core rn rd h
  refine ⟨hc.entries, ?_, ?_, ?_⟩
  · rw [hc.snap]
    unfold Next.rdSnap RaftLog.hasNextUnstableSnapshot
    cases rn.raft.log.unstable.nextSnapshot <;> simp
  · intro hne
    rw [C07R.ready_hardstate_is_current rn rd h, if_pos hne]
  · intro he
    rw [C07R.ready_hardstate_is_current rn rd h, if_neg (fun hne => hne he)]

/-- the `MsgStorageAppend` carries every unstable entry not yet handed out and, when the hard state
changed (and is not all-zero), the node's **current** `(term, vote, commit)`; when it did not change, zeros -/
theorem async_appendMsg_current (rn : RawNode) (rd : Ready) (h : rn.readyWithoutAccept = .ok rd)
    (selfAck : List Message) :
    (async_appendMsg rn.raft rd selfAck).entries = rn.raft.log.nextUnstableEnts ∧
    (hardState rn.raft ≠ rn.prevHard → (hardState rn.raft).isEmpty = false →
      (async_appendMsg rn.raft rd selfAck).term = rn.raft.term ∧
      (async_appendMsg rn.raft rd selfAck).vote = rn.raft.vote ∧
      (async_appendMsg rn.raft rd selfAck).commit = rn.raft.log.committed) ∧
    (hardState rn.raft = rn.prevHard →
      (async_appendMsg rn.raft rd selfAck).term = 0 ∧ (async_appendMsg rn.raft rd selfAck).vote = 0 ∧
      (async_appendMsg rn.raft rd selfAck).commit = 0) := by
  obtain ⟨he, _, hch, hsame⟩ := async_ready_fields rn rd h
  obtain ⟨_, _, _, s4, s5, s6, _⟩ := async_appendMsg_spec rn.raft rd selfAck
  refine ⟨s4.trans he, fun hne hnz => s5 _ (hch hne) hnz, fun heq => s6 ?_⟩
  rw [hsame heq]; rfl

/-- `needStorageAppendMsg` in terms of the node -/
theorem async_needApp_iff_node (rn : RawNode) (rd : Ready) (h : rn.readyWithoutAccept = .ok rd) :
    async_needApp rn.raft rd = true ↔
      rn.raft.log.nextUnstableEnts ≠ [] ∨
      (hardState rn.raft ≠ rn.prevHard ∧ (hardState rn.raft).isEmpty = false) ∨
      (∃ sn, rn.raft.log.unstable.nextSnapshot = some sn ∧ sn.index ≠ 0) ∨ rn.raft.msgsAfterAppend ≠ [] := by
  obtain ⟨he, hs, hch, hsame⟩ := async_ready_fields rn rd h
  rw [async_needApp_iff, he, hs]
  have hhs : (∃ hs, rd.hardState = some hs ∧ hs.isEmpty = false) ↔
      (hardState rn.raft ≠ rn.prevHard ∧ (hardState rn.raft).isEmpty = false) := by
    by_cases hq : hardState rn.raft = rn.prevHard
    · rw [hsame hq]
      constructor
      · rintro ⟨_, hx, _⟩; cases hx
      · rintro ⟨hx, _⟩; exact absurd hq hx
    · rw [hch hq]
      constructor
      · rintro ⟨_, hx, hy⟩; injection hx with hx; subst hx; exact ⟨hq, hy⟩
      · rintro ⟨_, hy⟩; exact ⟨_, rfl, hy⟩
  rw [hhs]

/-! ## B. promises leave only inside the `MsgStorageAppend` -/

theorem async_local_ne : localAppendThread ≠ localApplyThread := by decide

theorem async_appendPart_mem {r : Raft} {rd : Ready} {ap : List Message} (h : async_AppendPart r rd ap)
    {x : Message} (hx : x ∈ ap) :
    async_needApp r rd = true ∧ ∃ selfAck, async_IsSelfAck r rd selfAck ∧ ap = [async_appendMsg r rd selfAck] ∧
      x = async_appendMsg r rd selfAck := by
  cases hn : async_needApp r rd with
  | false => rw [h.1 hn] at hx; cases hx
  | true =>
    obtain ⟨sa, hsa, hap⟩ := h.2 hn
    refine ⟨rfl, sa, hsa, hap, ?_⟩
    rw [hap] at hx
    exact List.mem_singleton.mp hx

theorem async_applyPart_mem {r : Raft} {rd : Ready} {ap : List Message} (h : async_ApplyPart r rd ap)
    {x : Message} (hx : x ∈ ap) : rd.committedEntries ≠ [] ∧ ap = [async_applyMsg r rd] ∧ x = async_applyMsg r rd := by
  by_cases hn : rd.committedEntries = []
  · rw [h.1 hn] at hx; cases hx
  · refine ⟨hn, h.2 hn, ?_⟩
    rw [h.2 hn] at hx
    exact List.mem_singleton.mp hx

/-- the two storage parts are addressed to the local threads and are not promises -/
theorem async_parts_local {r : Raft} {rd : Ready} {ap bp : List Message} (ha : async_AppendPart r rd ap)
    (hb : async_ApplyPart r rd bp) :
    (∀ x ∈ ap, x.to = localAppendThread ∧ x.typ = .storageAppend) ∧
    (∀ x ∈ bp, x.to = localApplyThread ∧ x.typ = .storageApply) := by
  refine ⟨fun x hx => ?_, fun x hx => ?_⟩
  · obtain ⟨_, sa, _, _, rfl⟩ := async_appendPart_mem ha hx
    exact ⟨rfl, rfl⟩
  · obtain ⟨_, _, rfl⟩ := async_applyPart_mem hb hx
    exact ⟨rfl, rfl⟩

theorem async_filter_all {α : Type} (p : α → Bool) (l : List α) (h : ∀ x ∈ l, p x = true) : l.filter p = l :=
  List.filter_eq_self.mpr h

theorem async_filter_none {α : Type} (p : α → Bool) (l : List α) (h : ∀ x ∈ l, p x = false) : l.filter p = [] :=
  List.filter_eq_nil_iff.mpr (fun x hx => by rw [h x hx]; exact Bool.false_ne_true)

/-- the local-thread messages of an async `Ready` are exactly the append part and the apply part, provided
nothing in `raft.msgs` is addressed to a local thread (`send` does not check this: a message *from* the id
of a local thread would be answered *to* it; no peer has such an id) -/
theorem async_local_messages_exact (rn : RawNode) (rd : Ready) (ha : rn.async = true)
    (h : rn.readyWithoutAccept = .ok rd) (hloc : ∀ x ∈ rn.raft.msgs, isLocalMsgTarget x.to = false) :
    ∃ appendPart applyPart, async_AppendPart rn.raft rd appendPart ∧ async_ApplyPart rn.raft rd applyPart ∧
      rd.messages = rn.raft.msgs ++ appendPart ++ applyPart ∧
      rd.messages.filter (fun x => x.to == localAppendThread) = appendPart ∧
      rd.messages.filter (fun x => x.to == localApplyThread) = applyPart ∧
      rd.messages.filter (fun x => !isLocalMsgTarget x.to) = rn.raft.msgs := by
  obtain ⟨ap, bp, hm, hap, hbp⟩ := async_ready_shape rn rd ha h
  obtain ⟨la, lb⟩ := async_parts_local hap hbp
  have hl : ∀ x ∈ rn.raft.msgs, x.to ≠ localAppendThread ∧ x.to ≠ localApplyThread := by
    intro x hx
    have := hloc x hx
    simpa [isLocalMsgTarget] using this
  refine ⟨ap, bp, hap, hbp, hm, ?_, ?_, ?_⟩
  · rw [hm, List.filter_append, List.filter_append,
      async_filter_none _ _ (fun x hx => by simpa using (hl x hx).1),
      async_filter_all _ _ (fun x hx => by simpa using (la x hx).1),
      async_filter_none _ _ (fun x hx => by rw [(lb x hx).1]; simpa using async_local_ne.symm)]
    simp
  · rw [hm, List.filter_append, List.filter_append,
      async_filter_none _ _ (fun x hx => by simpa using (hl x hx).2),
      async_filter_none _ _ (fun x hx => by rw [(la x hx).1]; simpa using async_local_ne),
      async_filter_all _ _ (fun x hx => by simpa using (lb x hx).1)]
    simp
  · rw [hm, List.filter_append, List.filter_append,
      async_filter_all _ _ (fun x hx => by simp [hloc x hx]),
      async_filter_none _ _ (fun x hx => by simp [isLocalMsgTarget, (la x hx).1]),
      async_filter_none _ _ (fun x hx => by simp [isLocalMsgTarget, (lb x hx).1])]
    simp

/-- **async_promises_only_via_storage_append** (C05, async storage writes).  If `raft.msgs` holds no
promise (`PromisesWithinLog.msgs`) then
1. no message of the `Ready` is a promise (`MsgAppResp` / `MsgVoteResp` / `MsgPreVoteResp`) — in
   particular none that is addressed to a peer;
2. everything not addressed to a local storage thread comes from `raft.msgs`;
3. when promises are pending (`msgsAfterAppend ≠ []`) the `Ready` contains **the** `MsgStorageAppend`,
   directly after `raft.msgs`; its `responses` are exactly `msgsAfterAppend`, in creation order, followed
   by the self-acknowledgement (a `MsgStorageAppendResp` to the node itself, iff one is needed); it
   carries every unstable entry not yet handed out and the current hard state when that changed. -/
theorem async_promises_only_via_storage_append (rn : RawNode) (rd : Ready) (ha : rn.async = true)
    (h : rn.readyWithoutAccept = .ok rd) (hmsgs : ∀ x ∈ rn.raft.msgs, isPromise x.typ = false) :
    (∀ x ∈ rd.messages, isPromise x.typ = false) ∧
    (∀ x ∈ rd.messages, x.to ≠ localAppendThread → x.to ≠ localApplyThread → x ∈ rn.raft.msgs) ∧
    (rn.raft.msgsAfterAppend ≠ [] →
      ∃ selfAck applyPart, async_IsSelfAck rn.raft rd selfAck ∧ async_ApplyPart rn.raft rd applyPart ∧
        rd.messages = rn.raft.msgs ++ [async_appendMsg rn.raft rd selfAck] ++ applyPart ∧
        (async_appendMsg rn.raft rd selfAck).responses = rn.raft.msgsAfterAppend ++ selfAck ∧
        (∀ x ∈ selfAck, x.typ = .storageAppendResp ∧ x.to = rn.raft.cfg.id ∧ x.from = localAppendThread ∧
          x.term = rn.raft.term) ∧
        (async_appendMsg rn.raft rd selfAck).entries = rn.raft.log.nextUnstableEnts ∧
        (hardState rn.raft ≠ rn.prevHard → (hardState rn.raft).isEmpty = false →
          (async_appendMsg rn.raft rd selfAck).term = rn.raft.term ∧
          (async_appendMsg rn.raft rd selfAck).vote = rn.raft.vote ∧
          (async_appendMsg rn.raft rd selfAck).commit = rn.raft.log.committed)) := by
  obtain ⟨ap, bp, hm, hap, hbp⟩ := async_ready_shape rn rd ha h
  obtain ⟨la, lb⟩ := async_parts_local hap hbp
  have hmem : ∀ x ∈ rd.messages, x ∈ rn.raft.msgs ∨ x ∈ ap ∨ x ∈ bp := by
    intro x hx
    rw [hm] at hx
    simpa [List.mem_append, or_assoc] using hx
  refine ⟨fun x hx => ?_, fun x hx h1 h2 => ?_, fun hne => ?_⟩
  · rcases hmem x hx with hx | hx | hx
    · exact hmsgs x hx
    · rw [(la x hx).2]; rfl
    · rw [(lb x hx).2]; rfl
  · rcases hmem x hx with hx | hx | hx
    · exact hx
    · exact absurd (la x hx).1 h1
    · exact absurd (lb x hx).1 h2
  · have hn : async_needApp rn.raft rd = true := (async_needApp_iff _ _).mpr (Or.inr (Or.inr (Or.inr hne)))
    obtain ⟨sa, hsa, hap'⟩ := hap.2 hn
    obtain ⟨c1, c2, _⟩ := async_appendMsg_current rn rd h sa
    refine ⟨sa, bp, hsa, hbp, by rw [hm, hap'], rfl, fun x hx => ?_, c1, c2⟩
    cases hnr : needStorageAppendRespMsg rn.raft rd with
    | false => rw [hsa.2 hnr] at hx; cases hx
    | true =>
      obtain ⟨resp, hr, hs⟩ := hsa.1 hnr
      rw [hs] at hx
      rw [List.mem_singleton.mp hx]
      obtain ⟨s1, s2, s3, s4, _⟩ := sar_spec _ _ _ hr
      exact ⟨s1, s2, s3, s4⟩

/-- in particular no granted vote and no positive append acknowledgement is visible outside the
`MsgStorageAppend` -/
theorem async_no_pending_promise_visible (rn : RawNode) (rd : Ready) (ha : rn.async = true)
    (h : rn.readyWithoutAccept = .ok rd) (hinv : PromisesWithinLog rn.raft) :
    ∀ x ∈ rd.messages, ¬ PendApp x ∧ ¬ PendVote x ∧ x.typ ≠ .preVoteResp := by
  intro x hx
  have := (async_promises_only_via_storage_append rn rd ha h hinv.msgs).1 x hx
  refine ⟨fun hp => ?_, fun hp => ?_, fun hp => ?_⟩
  · rw [hp.1] at this; cases this
  · rw [hp.1] at this; cases this
  · rw [hp] at this; cases this

end RaftVerif.Raw
