import RaftVerif.Proofs.SimTerm
import RaftVerif.Proofs.SimVote
import RaftVerif.Proofs.SimApp
import RaftVerif.Proofs.SimAppResp
import RaftVerif.Proofs.SimCluster
/-!
# Proofs/SimDeliver — a delivered message of any term: lower term ignored, higher term = `updateTerm` first
-/
namespace RaftVerif.Sim
open Refine

/-- a handler for messages `m` at the node's own term -/
def SameTermOK (val : Val) (voters : List Id) (n : Nat) (m : Message) (e : Option StepErr) (r' : Raft)
    (fuel : Nat) : Prop :=
  ∀ (s : Spec.State) (r : Raft), RaftInv val voters n r (s.nodes n) s.msgs → Spec.Reachable (cfgOf voters) s →
    m.term = r.term → InOK val n (s.nodes n) s.msgs m →
    (Raft.step (fuel + 1) m).run r = .ok (e, r') → RaftSim val voters n s r'

/-- **term case split**: from a same-term handler to every term -/
theorem sim_by_term {val : Val} {voters : List Id} {n : Nat} {s : Spec.State} {r r' : Raft} {m : Message}
    {e : Option StepErr} {fuel : Nat} (H : SameTermOK val voters n m e r' fuel)
    (hinv : RaftInv val voters n r (s.nodes n) s.msgs) (hreach : Spec.Reachable (cfgOf voters) s)
    (hty : Deliverable m.typ) (h0 : m.term ≠ 0) (hin : InOK val n (s.nodes n) s.msgs m)
    (h : (Raft.step (fuel + 1) m).run r = .ok (e, r')) : RaftSim val voters n s r' := by
  rcases Nat.lt_trichotomy m.term r.term with hlt | heq | hgt
  · exact RaftSim.refl (hinv.lower_term h0 hlt hty h)
  · exact H s r hinv hreach heq hin h
  · rcases sim_raise_term hinv hgt hty h with rfl | ⟨r1, s1, hrun, hmsgs, hdur, hinv1, ht1, _, h1⟩
    · exact RaftSim.refl hinv
    have hact : ∀ a ∈ [Spec.Action.updateTerm n m.term], a.actor = n := by simp [Spec.Action.actor]
    refine RaftSim.trans hrun hact ?_
    refine H s1 r1 hinv1 (hrun.reachable hreach) ht1.symm ?_ h1
    rw [hmsgs]
    exact hin.congr hdur

/-- the same-term handler for MsgVote -/
theorem sameTerm_vote {val : Val} {voters : List Id} {n : Nat} {m : Message} {e : Option StepErr} {r' : Raft}
    {fuel : Nat} (ht : m.typ = .vote) (hto : m.to = n) : SameTermOK val voters n m e r' fuel := by
  intro s r hinv _ hterm hin h
  have hin' : NetOK val s.msgs m := by
    unfold InOK at hin
    simpa only [ht] using hin
  exact sim_vote_same hinv ht hterm hto hin' h

/-- the same-term handler for MsgApp -/
theorem sameTerm_app {val : Val} {voters : List Id} {n : Nat} {m : Message} {e : Option StepErr} {r' : Raft}
    {fuel : Nat} (ht : m.typ = .app) : SameTermOK val voters n m e r' fuel := by
  intro s r hinv hreach hterm hin h
  have hin' : NetOK val s.msgs m := by
    unfold InOK at hin
    simpa only [ht] using hin
  exact sim_app_same hinv hreach ht hterm hin' h

/-- the same-term handler for MsgAppResp -/
theorem sameTerm_appResp {val : Val} {voters : List Id} {n : Nat} {m : Message} {e : Option StepErr} {r' : Raft}
    {fuel : Nat} (ht : m.typ = .appResp) : SameTermOK val voters n m e r' fuel := by
  intro s r hinv hreach hterm hin h
  exact sim_appResp_same hinv hreach ht hterm hin h

end RaftVerif.Sim
