import RaftVerif.Proofs.LiveFrame
import RaftVerif.Proofs.LiveProgress
/-!
# Proofs/LiveLeader — `stepLeader` on the per-peer messages that un-stick replication (C15)

Run equations (no success hypothesis needed) for `MsgSnapStatus`, `MsgUnreachable`, a rejecting
`MsgAppResp`; inversion lemmas for `MsgHeartbeatResp` and an acknowledging `MsgAppResp`.
-/
namespace RaftVerif.Live
open Raft
set_option linter.unusedSimpArgs false

/-! ### association lists: overwriting twice -/

theorem mapInsert_mapInsert {β : Type} (k : Id) (v w : β) (l : List (Id × β)) :
    mapInsert k v (mapInsert k w l) = mapInsert k v l := by
  induction l with
  | nil => simp [mapInsert]
  | cons a t ih =>
    obtain ⟨k', v'⟩ := a
    by_cases h1 : k < k'
    · simp [mapInsert, h1]
    · by_cases h2 : k = k'
      · subst h2; simp [mapInsert]
      · have h2' : (k == k') = false := by simpa using h2
        simp only [mapInsert, h1, h2', ↓reduceIte, Bool.false_eq_true, ih]

theorem setProgress_setProgress (t : Tracker) (id : Id) (a b : Progress) :
    (t.setProgress id a).setProgress id b = t.setProgress id b := by
  simp only [Tracker.setProgress, mapInsert_mapInsert]

/-! ### `MsgSnapStatus`, `MsgUnreachable` -/

/-- the progress installed by `MsgSnapStatus` for a follower in `StateSnapshot` -/
def snapResume (pr : Progress) (reject : Bool) : Progress :=
  { (if !reject then pr.becomeProbe else ({ pr with pendingSnapshot := 0 } : Progress).becomeProbe) with
    msgAppFlowPaused := true }

theorem stepLeader_snapStatus_run (fuel : Nat) (m : Message) (r : Raft) (pr : Progress)
    (hm : m.typ = .snapStatus) (hg : r.trk.getProgress m.from = some pr) :
    (stepLeader fuel m).run r =
      if pr.state = .snapshot then
        .ok (none, { r with trk := r.trk.setProgress m.from (snapResume pr m.reject) })
      else .ok (none, r) := by
  unfold stepLeader
  simp only [hm, StateT.run_bind, StateT.run_get, P_pure_eq, P_ok_bind, hg, StateT.run_pure]
  by_cases hs : pr.state = .snapshot
  · have hs' : (pr.state != ProgressState.snapshot) = false := by simp [hs]
    rw [if_pos hs]
    simp only [hs', Bool.false_eq_true, ↓reduceIte, StateT.run_bind, setPr_run, P_ok_bind,
      StateT.run_pure, P_pure_eq]
    rfl
  · have hs' : (pr.state != ProgressState.snapshot) = true := by simpa using hs
    simp only [hs, hs', ↓reduceIte, StateT.run_pure, P_pure_eq]

theorem snapResume_spec (pr : Progress) (reject : Bool) (hs : pr.state = .snapshot) :
    (snapResume pr reject).state = .probe ∧ (snapResume pr reject).isPaused = true ∧
    (snapResume pr reject).msgAppFlowPaused = true ∧
    (snapResume pr reject).match_ = pr.match_ ∧ (snapResume pr reject).pendingSnapshot = 0 ∧
    (snapResume pr reject).recentActive = pr.recentActive ∧
    (snapResume pr reject).inflights.count = 0 ∧
    (reject = false → (snapResume pr reject).next = max (pr.match_ + 1) (pr.pendingSnapshot + 1)) ∧
    (reject = true → (snapResume pr reject).next = pr.match_ + 1) ∧
    pr.match_ < (snapResume pr reject).next := by
  cases reject <;>
    simp [snapResume, Progress.becomeProbe, Progress.resetState, hs, Progress.isPaused, Inflights.reset,
      Inflights.count] <;> omega

theorem stepLeader_unreachable_run (fuel : Nat) (m : Message) (r : Raft) (pr : Progress)
    (hm : m.typ = .unreachable) (hg : r.trk.getProgress m.from = some pr) :
    (stepLeader fuel m).run r =
      if pr.state = .replicate then
        .ok (none, { r with trk := r.trk.setProgress m.from pr.becomeProbe })
      else .ok (none, r) := by
  unfold stepLeader
  simp only [hm, StateT.run_bind, StateT.run_get, P_pure_eq, P_ok_bind, hg, StateT.run_pure]
  by_cases hs : pr.state = .replicate
  · simp only [hs, beq_self_eq_true, ↓reduceIte, StateT.run_bind, setPr_run, P_ok_bind,
      StateT.run_pure, P_pure_eq]
  · have hs' : (pr.state == ProgressState.replicate) = false := by simpa using hs
    simp only [hs, hs', Bool.false_eq_true, ↓reduceIte, StateT.run_pure, P_pure_eq]

/-- a per-peer message from a peer without `Progress` is ignored -/
theorem stepLeader_noProgress_run (fuel : Nat) (m : Message) (r : Raft)
    (hm : m.typ = .snapStatus ∨ m.typ = .unreachable ∨ m.typ = .heartbeatResp ∨ m.typ = .appResp ∨
      m.typ = .transferLeader)
    (hg : r.trk.getProgress m.from = none) :
    (stepLeader fuel m).run r = .ok (none, r) := by
  unfold stepLeader
  rcases hm with hm | hm | hm | hm | hm <;>
  simp only [hm, StateT.run_bind, StateT.run_get, P_pure_eq, P_ok_bind, hg, StateT.run_pure]

/-! ### `maybeSendAppend(to, sendIfEmpty = true)` to an un-paused, recently active peer sends -/

theorem maybeSendSnapshot_active (to : Id) (pr : Progress) (r r' : Raft) (res : Bool)
    (hra : pr.recentActive = true) (h : (maybeSendSnapshot to pr).run r = .ok (res, r')) : res = true := by
  rw [maybeSendSnapshot_run] at h
  rw [if_neg (by simp [hra])] at h
  split at h
  · cases h
  · split at h
    · cases h
    · injection h with h; injection h with h1 _; exact h1.symm

theorem maybeSendAppend_sends (to : Id) (r r' : Raft) (res : Bool) (pr : Progress)
    (hg : r.trk.getProgress to = some pr) (hp : pr.isPaused = false) (hra : pr.recentActive = true)
    (h : (maybeSendAppend to true).run r = .ok (res, r')) : res = true := by
  rw [maybeSendAppend_run, hg] at h
  simp only [hp, Bool.false_eq_true, ↓reduceIte] at h
  have htail : ∀ pt ents err, appTail to true r pr pt ents err = .ok (res, r') → res = true := by
    intro pt ents err ht
    unfold appTail at ht
    simp only [Bool.not_true, Bool.and_false, Bool.false_eq_true, ↓reduceIte] at ht
    split at ht
    · exact maybeSendSnapshot_active to pr r r' res hra ht
    · split at ht
      · cases ht
      · cases hs : pr.sentEntries ents.length (payloadsSize ents) with
        | error e => rw [hs] at ht; cases ht
        | ok pr' => rw [hs] at ht; injection ht with ht; injection ht with h1 _; exact h1.symm
  cases ht : r.log.term (usub pr.next 1) with
  | error e => rw [ht] at h; exact maybeSendSnapshot_active to pr r r' res hra h
  | ok pt =>
    rw [ht] at h
    simp only at h
    split at h
    · cases he : r.log.entries pr.next r.cfg.maxMsgSize with
      | error e => rw [he] at h; cases h
      | ok v =>
        rw [he] at h
        cases v with
        | error e => exact htail _ _ _ h
        | ok es => exact htail _ _ _ h
    · exact htail _ _ _ h

/-- hence exactly one message — a `MsgApp` or a `MsgSnap` for `to` — is appended to `msgs` -/
theorem maybeSendAppend_sends_msg (to : Id) (r r' : Raft) (res : Bool) (pr : Progress)
    (hg : r.trk.getProgress to = some pr) (hp : pr.isPaused = false) (hra : pr.recentActive = true)
    (h : (maybeSendAppend to true).run r = .ok (res, r')) :
    ∃ x, r'.msgs = r.msgs ++ [x] ∧ x.to = to ∧ (x.typ = .app ∨ x.typ = .snap) := by
  have hres := maybeSendAppend_sends to r r' res pr hg hp hra h
  obtain ⟨_, h1 | ⟨_, x, hx, hto, _, hk⟩⟩ := maybeSendAppend_msgs to true r r' res h
  · rw [hres] at h1; cases h1.1
  · exact ⟨x, hx, hto, by rcases hk with ⟨h, _⟩ | ⟨h, _⟩ <;> simp [h]⟩

/-! ### `MsgHeartbeatResp` -/

/-- only the read-index bookkeeping changes: `readOnly`, `readStates`, and `msgs` grows by
`MsgReadIndexResp` messages -/
structure ROOnly (s s' : Raft) : Prop where
  trk : s'.trk = s.trk
  log : s'.log = s.log
  term : s'.term = s.term
  state : s'.state = s.state
  lead : s'.lead = s.lead
  leadTransferee : s'.leadTransferee = s.leadTransferee
  maa : s'.msgsAfterAppend = s.msgsAfterAppend
  msgs : ∃ extra, s'.msgs = s.msgs ++ extra ∧ ∀ x ∈ extra, x.typ = .readIndexResp

theorem ROOnly.refl (s : Raft) : ROOnly s s := ⟨rfl, rfl, rfl, rfl, rfl, rfl, rfl, [], by simp, by simp⟩

theorem ROOnly.of_eq {s x : Raft} (h1 : x.trk = s.trk) (h2 : x.log = s.log) (h3 : x.term = s.term)
    (h4 : x.state = s.state) (h5 : x.lead = s.lead) (h6 : x.leadTransferee = s.leadTransferee)
    (h7 : x.msgsAfterAppend = s.msgsAfterAppend) (h8 : x.msgs = s.msgs) : ROOnly s x :=
  ⟨h1, h2, h3, h4, h5, h6, h7, [], by rw [h8, List.append_nil], by simp⟩

theorem ROOnly.trans {a b c : Raft} (h1 : ROOnly a b) (h2 : ROOnly b c) : ROOnly a c := by
  obtain ⟨x1, m1, p1⟩ := h1.msgs
  obtain ⟨x2, m2, p2⟩ := h2.msgs
  refine ⟨h2.trk.trans h1.trk, h2.log.trans h1.log, h2.term.trans h1.term, h2.state.trans h1.state,
    h2.lead.trans h1.lead, h2.leadTransferee.trans h1.leadTransferee, h2.maa.trans h1.maa,
    x1 ++ x2, by rw [m2, m1, List.append_assoc], ?_⟩
  intro x hx
  rcases List.mem_append.mp hx with h | h
  · exact p1 x h
  · exact p2 x h

theorem sendReadIndexResp_ro (req : Message) (idx : Nat) (r r' : Raft) (u : Unit)
    (h : (sendReadIndexResp req idx).run r = .ok (u, r')) : ROOnly r r' := by
  unfold sendReadIndexResp responseToReadIndexReq at h
  obtain ⟨resp, r1, h1, hA⟩ := bind_ok h
  obtain ⟨r0, r2, h2, hB⟩ := bind_ok h1
  obtain ⟨e0, e1⟩ := get_ok h2; subst e0 e1
  split at hB
  · exact (throw_ok hB).elim
  · split at hB
    · obtain ⟨u3, r3, h3, hC⟩ := bind_ok hB
      have e := set_ok h3; subst e
      obtain ⟨e1, e2⟩ := pure_ok hC; subst e1 e2
      simp only at hA
      obtain ⟨_, e⟩ := pure_ok hA; subst e
      exact ⟨rfl, rfl, rfl, rfl, rfl, rfl, rfl, [], by simp, by simp⟩
    · obtain ⟨e1, e2⟩ := pure_ok hB; subst e1 e2
      simp only at hA
      split at hA
      · rw [send_run_nonvote _ _ (by simp) (by simp) (by simp) (by simp) rfl] at hA
        simp only [reduceCtorEq, ↓reduceIte] at hA
        split at hA
        · cases hA
        · injection hA with hA; injection hA with _ hA; subst hA
          exact ⟨rfl, rfl, rfl, rfl, rfl, rfl, rfl, [_], rfl, by simp⟩
      · obtain ⟨_, e⟩ := pure_ok hA; subst e; exact ROOnly.refl _

/-- the state in which `MsgHeartbeatResp` from `m.from` (progress `pr`) continues after un-pausing -/
def hbMid (r : Raft) (m : Message) (pr : Progress) : Raft :=
  { r with trk := r.trk.setProgress m.from { pr with recentActive := true, msgAppFlowPaused := false } }

/-- tail of the `MsgHeartbeatResp` handler: read-only bookkeeping -/
macro "ro_tail " h:ident : tactic => `(tactic| (
  split at $h:ident
  · obtain ⟨eq3a, eq3⟩ := pure_ok $h; subst eq3; exact ⟨eq3a, ROOnly.refl _⟩
  · obtain ⟨_, _, hq4, hqF⟩ := bind_ok $h
    obtain ⟨eq0, eq1⟩ := get_ok hq4; subst eq0 eq1
    obtain ⟨_, _, hq5, hqG⟩ := bind_ok hqF
    obtain ⟨_, eq2⟩ := liftP_ok hq5; subst eq2
    obtain ⟨_, _, hq6, hqH⟩ := bind_ok hqG
    obtain ⟨eq4, eq5⟩ := get_ok hq6; subst eq4 eq5
    obtain ⟨_, _, hq7, hqI⟩ := bind_ok hqH
    obtain ⟨_, eq6⟩ := liftP_ok hq7; subst eq6
    obtain ⟨_, _, hq8, hqJ⟩ := bind_ok hqI
    have eq7 := set_ok hq8; subst eq7
    obtain ⟨_, _, hq9, hqK⟩ := bind_ok hqJ
    obtain ⟨eq8a, eq8⟩ := pure_ok hqK; subst eq8
    refine ⟨eq8a, ROOnly.trans ?_ (forIn_run_rel ROOnly ROOnly.refl (fun _ _ _ => ROOnly.trans) _ ?_ _ _ _ _ hq9)⟩
    · exact ROOnly.of_eq rfl rfl rfl rfl rfl rfl rfl rfl
    · intro rs ra s rb hs
      obtain ⟨_, _, hq10, hqL⟩ := bind_ok hs
      obtain ⟨_, eq9⟩ := pure_ok hqL; subst eq9
      exact sendReadIndexResp_ro _ _ _ _ _ hq10))

/-- **`MsgHeartbeatResp`**: the sender is marked active and un-paused (`hbMid`); iff
`Match < lastIndex ∨ state = probe`, `maybeSendAppend(from, sendIfEmpty = true)` runs next; the rest of
the handler touches only the read-index bookkeeping -/
theorem stepLeader_heartbeatResp_inv (fuel : Nat) (m : Message) (r r' : Raft) (res : Option StepErr)
    (pr : Progress) (hm : m.typ = .heartbeatResp) (hg : r.trk.getProgress m.from = some pr)
    (h : (stepLeader fuel m).run r = .ok (res, r')) :
    res = none ∧ ∃ r2, ROOnly r2 r' ∧
      ((pr.match_ < r.log.lastIndex ∨ pr.state = .probe) →
        ∃ b, (maybeSendAppend m.from true).run (hbMid r m pr) = .ok (b, r2)) ∧
      (¬ (pr.match_ < r.log.lastIndex ∨ pr.state = .probe) → r2 = hbMid r m pr) := by
  unfold stepLeader at h
  simp only [hm] at h
  obtain ⟨r0, r1, h1, hA⟩ := bind_ok h
  obtain ⟨e0, e1⟩ := get_ok h1; subst r0 r1
  split at hA
  case h_2 hnone => rw [hg] at hnone; cases hnone
  rename_i pr' hg'
  have epr : pr' = pr := by rw [hg] at hg'; injection hg' with hg'; exact hg'.symm
  subst pr'
  obtain ⟨pr'', r2, h2, hB⟩ := bind_ok hA
  obtain ⟨e0, e1⟩ := pure_ok h2; subst pr'' r2
  obtain ⟨u3, r3, h3, hC⟩ := bind_ok hB
  have e := setPr_ok h3; subst r3
  obtain ⟨r0, r4, h4, hD⟩ := bind_ok hC
  obtain ⟨e0, e1⟩ := get_ok h4; subst r0 r4
  split at hD
  · rename_i hc
    have hc' : pr.match_ < r.log.lastIndex ∨ pr.state = .probe := by simpa using hc
    obtain ⟨u5, r5, h5, hE⟩ := bind_ok hD
    unfold sendAppend at h5
    obtain ⟨b, r6, h6, hF⟩ := bind_ok h5
    obtain ⟨_, e⟩ := pure_ok hF; subst r5
    have ht : res = none ∧ ROOnly r6 r' := by ro_tail hE
    exact ⟨ht.1, r6, ht.2, fun _ => ⟨b, h6⟩, fun hn => absurd hc' hn⟩
  · rename_i hc
    have hc' : ¬ (pr.match_ < r.log.lastIndex ∨ pr.state = .probe) := by simpa using hc
    have ht : res = none ∧ ROOnly (hbMid r m pr) r' := by ro_tail hD
    exact ⟨ht.1, _, ht.2, fun hp => absurd hp hc', fun _ => rfl⟩

end RaftVerif.Live
