import RaftVerif.Proofs.SimCampaignAux
import RaftVerif.Proofs.SimLog
/-!
# Proofs/SimCampaignLog — `Settled` across MsgHup / a non-leader tick (a campaign does not touch the log)
-/
namespace RaftVerif.Sim
open Refine Raft

theorem settled_hup {val : Val} {voters : List Id} {n : Nat} {s : Spec.State} {r r' : Raft} {m : Message}
    {e : Option StepErr} {fuel : Nat} (hinv : RaftInv val voters n r (s.nodes n) s.msgs) (hs : Settled r)
    (ht : m.typ = .hup) (h0 : m.term = 0)
    (h : (Raft.step (fuel + 1) m).run r = .ok (e, r')) : Settled r' := by
  by_cases hl : r.state = .leader
  · obtain ⟨rfl, _⟩ := step_hup_noop fuel m r r' e ht h0 (Or.inl hl) h
    exact hs
  cases hpb : Live.promotableB r with
  | false =>
    obtain ⟨rfl, _⟩ := step_hup_noop fuel m r r' e ht h0 (Or.inr (Or.inl hpb)) h
    exact hs
  | true =>
    cases hu : hasUnappliedConfChanges.run r with
    | error err =>
      rw [Live.step_hup_run fuel m r ht h0, Live.hup_run, if_neg hl, if_neg (by rw [hpb]; simp), hu] at h
      simp [bind, Except.bind] at h
    | ok p =>
      obtain ⟨b, r1⟩ := p
      have hr1 : r1 = r := (hasUnappliedConfChanges_same r).elim hu
      subst hr1
      cases b with
      | true =>
        obtain ⟨rfl, _⟩ := step_hup_noop fuel m r1 r' e ht h0 (Or.inr (Or.inr hu)) h
        exact hs
      | false =>
        obtain ⟨_, hp⟩ := step_hup_refine val fuel m r1 r' e ht h0 hinv.st.pv hl hpb hu hinv.wf hinv.unc h
        exact hs.congr (by rw [hp.log])

theorem settled_tick_nonleader {val : Val} {voters : List Id} {n : Nat} {s : Spec.State} {r r' : Raft}
    (hinv : RaftInv val voters n r (s.nodes n) s.msgs) (hs : Settled r) (hnl : r.state ≠ .leader)
    (h : Raft.tick.run r = .ok ((), r')) : Settled r' := by
  rw [Next.tick_run_nonleader r hnl] at h
  by_cases hf : Live.promotableB r = true ∧ r.randomizedElectionTimeout ≤ r.electionElapsed + 1
  · rw [Live.tickElection_run_fire r hf.1 hf.2] at h
    obtain ⟨p, hc, h'⟩ := bind_eq_ok.1 h
    obtain ⟨e, r2⟩ := p
    injection h' with h'
    injection h' with _ e2
    subst e2
    have hinv0 : RaftInv val voters n { r with electionElapsed := 0 } (s.nodes n) s.msgs :=
      hinv.congr rfl rfl rfl rfl rfl rfl rfl rfl rfl rfl rfl rfl
    exact settled_hup (fuel := 2) hinv0 (hs.congr rfl) rfl rfl hc
  · have hidle : Live.promotableB r = false ∨ r.electionElapsed + 1 < r.randomizedElectionTimeout := by
      cases hpb : Live.promotableB r with
      | false => exact Or.inl rfl
      | true =>
        right
        have : ¬ r.randomizedElectionTimeout ≤ r.electionElapsed + 1 := fun h2 => hf ⟨hpb, h2⟩
        omega
    rw [Live.tickElection_run_idle r hidle] at h
    injection h with h
    injection h with _ e2
    subst e2
    exact hs.congr rfl

end RaftVerif.Sim
