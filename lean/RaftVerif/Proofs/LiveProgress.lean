import RaftVerif.Props.C16
/-!
# Proofs/LiveProgress — escape lemmas for `tracker.Progress` / `tracker.Inflights` (C15, pure part)

Every lemma has the shape "from a stuck shape, the one fault-free event strictly improves a measure
or clears the pause flag".  No truncated subtraction is used in a conclusion; `usub` is guarded by
`rejected + 1 = next`.
-/
namespace RaftVerif.Live

/-- `MaybeDecrTo` outside the replicate state, for the rejection of the probe that is actually
outstanding (`rejected = Next - 1`): accepted, `Next` becomes exactly
`max (min rejected (hint+1)) (Match+1)`, never above the old `Next`, still above `Match`, the flow is
un-paused; `Match`, state and window are untouched -/
theorem maybeDecrTo_nonrepl (pr : Progress) (rejected hint : Nat)
    (hs : pr.state ≠ .replicate) (hr : rejected + 1 = pr.next) :
    (pr.maybeDecrTo rejected hint).2 = true ∧
    (pr.maybeDecrTo rejected hint).1.next = max (min rejected (hint + 1)) (pr.match_ + 1) ∧
    (pr.maybeDecrTo rejected hint).1.msgAppFlowPaused = false ∧
    (pr.maybeDecrTo rejected hint).1.match_ = pr.match_ ∧
    (pr.maybeDecrTo rejected hint).1.state = pr.state ∧
    (pr.maybeDecrTo rejected hint).1.inflights = pr.inflights ∧
    (pr.maybeDecrTo rejected hint).1.recentActive = pr.recentActive ∧
    (pr.maybeDecrTo rejected hint).1.pendingSnapshot = pr.pendingSnapshot := by
  have hus : usub pr.next 1 = rejected := by
    rw [usub_one_of_pos _ (by omega)]; omega
  have hs' : (pr.state == ProgressState.replicate) = false := by simpa using hs
  unfold Progress.maybeDecrTo
  simp only [hs', hus, bne_self_eq_false, Bool.false_eq_true, ↓reduceIte, and_self]

/-- the measure `Next - Match` strictly decreases when the rejected index is above `Match` -/
theorem maybeDecrTo_nonrepl_lt (pr : Progress) (rejected hint : Nat)
    (hs : pr.state ≠ .replicate) (hr : rejected + 1 = pr.next) (hm : pr.match_ < rejected) :
    (pr.maybeDecrTo rejected hint).1.next < pr.next ∧
    pr.match_ < (pr.maybeDecrTo rejected hint).1.next := by
  rw [(maybeDecrTo_nonrepl pr rejected hint hs hr).2.1]
  omega

/-- in the replicate state a rejection above `Match` resets `Next` to `Match + 1` -/
theorem maybeDecrTo_repl (pr : Progress) (rejected hint : Nat)
    (hs : pr.state = .replicate) (hm : pr.match_ < rejected) :
    (pr.maybeDecrTo rejected hint).2 = true ∧
    (pr.maybeDecrTo rejected hint).1.next = pr.match_ + 1 ∧
    (pr.maybeDecrTo rejected hint).1.match_ = pr.match_ ∧
    (pr.maybeDecrTo rejected hint).1.state = .replicate := by
  unfold Progress.maybeDecrTo
  have : ¬ rejected ≤ pr.match_ := by omega
  simp only [hs, beq_self_eq_true, ↓reduceIte, this, and_self]

/-- `MaybeUpdate(n)` for a new index: accepted, `Match = n`, `Next = max Next (n+1)`, un-paused -/
theorem maybeUpdate_new (pr : Progress) (n : Nat) (hn : pr.match_ < n) :
    (pr.maybeUpdate n).2 = true ∧
    (pr.maybeUpdate n).1.match_ = n ∧
    (pr.maybeUpdate n).1.next = max pr.next (n + 1) ∧
    (pr.maybeUpdate n).1.msgAppFlowPaused = false ∧
    (pr.maybeUpdate n).1.state = pr.state ∧
    (pr.maybeUpdate n).1.inflights = pr.inflights ∧
    (pr.maybeUpdate n).1.recentActive = pr.recentActive ∧
    (pr.maybeUpdate n).1.pendingSnapshot = pr.pendingSnapshot := by
  unfold Progress.maybeUpdate
  have : ¬ n ≤ pr.match_ := by omega
  simp only [this, ↓reduceIte, and_self]

theorem sum_dropWhile_le (p : Nat × Nat → Bool) (l : List (Nat × Nat)) :
    ((l.dropWhile p).map (·.2)).sum ≤ (l.map (·.2)).sum := by
  induction l with
  | nil => simp
  | cons a t ih =>
    rw [List.dropWhile_cons]
    split
    · simp only [List.map_cons, List.sum_cons]; omega
    · exact Nat.le_refl _

/-- `FreeLE(to)` when the oldest inflight message is covered by `to`: at least that message is freed -/
theorem freeLE_head (i : Inflights) (to idx b : Nat) (rest : List (Nat × Nat))
    (hq : i.q = (idx, b) :: rest) (hle : idx ≤ to) :
    (i.freeLE to).count < i.count ∧ (i.freeLE to).bytes + b ≤ i.bytes ∧
    (i.freeLE to).size = i.size ∧ (i.freeLE to).maxBytes = i.maxBytes := by
  obtain ⟨freed, hsplit, _, _, hbytes, hcount, hsz, hmb⟩ := Inflights.freeLE_spec i to
  have hq' : (i.freeLE to).q = rest.dropWhile (fun p => decide (p.1 ≤ to)) := by
    simp [Inflights.freeLE, hq, hle]
  have hlen : (i.freeLE to).count ≤ rest.length := by
    unfold Inflights.count; rw [hq']
    exact (List.dropWhile_sublist _).length_le
  have hc : i.count = rest.length + 1 := by simp [Inflights.count, hq]
  refine ⟨by omega, ?_, hsz, hmb⟩
  -- bytes
  have hb1 : (i.freeLE to).bytes ≤ (rest.map (·.2)).sum := by
    unfold Inflights.bytes; rw [hq']
    exact sum_dropWhile_le _ _
  have hb2 : i.bytes = b + (rest.map (·.2)).sum := by simp [Inflights.bytes, hq]
  omega

end RaftVerif.Live
