import RaftVerif.Proofs.RefineStep
import RaftVerif.Proofs.StepVote
/-!
# Proofs/RefineVote — MsgVote at the node's own term refines Spec `grant` (or nothing)

`Step` handles MsgVote before the role dispatch (raft.go:1214-1252): the vote is granted iff
`canVote ∧ isUpToDate`, `canVote = (Vote == m.From) ∨ (Vote == None ∧ lead == None)`.
-/
namespace RaftVerif.Refine
open Raft
set_option linter.unusedSimpArgs false

/-- the MsgVoteResp that answers the request `m` -/
def voteRespMsg (r : Raft) (m : Message) (reject : Bool) : Message :=
  { typ := .voteResp, to := m.from, «from» := r.cfg.id, term := r.term, reject := reject }

theorem voteResp_eq (r : Raft) (m : Message) (b : Bool) (hterm : m.term = r.term) :
    Raft.voteResp r m b = voteRespMsg r m b := by
  unfold Raft.voteResp voteRespMsg
  cases b <;> simp [stamped, hterm]

/-- the model's `canVote` for a real vote request of the node's own term -/
def canVote (r : Raft) (m : Message) : Prop := r.vote = m.from ∨ (r.vote = 0 ∧ r.lead = 0)

instance (r : Raft) (m : Message) : Decidable (canVote r m) := by unfold canVote; infer_instance

/-- the state after granting -/
def granted (r : Raft) (m : Message) : Raft :=
  { r with msgsAfterAppend := r.msgsAfterAppend ++ [voteRespMsg r m false], electionElapsed := 0, vote := m.from }

/-- the state after rejecting -/
def rejected (r : Raft) (m : Message) : Raft :=
  { r with msgsAfterAppend := r.msgsAfterAppend ++ [voteRespMsg r m true] }

/-- **MsgVote at the node's own term, exactly**: granted (vote recorded, election timer reset, the grant
queued in `msgsAfterAppend`) iff `canVote` and the candidate's log is up to date in the Spec's sense;
otherwise a rejection is queued and nothing else changes -/
theorem step_vote_refine (val : Val) (fuel : Nat) (m : Message) (r r' : Raft) (e : Option StepErr)
    (ht : m.typ = .vote) (hterm : m.term = r.term) (hwf : r.log.WF) (hu : Uncompacted r.log)
    (h : (step (fuel + 1) m).run r = .ok (e, r')) :
    e = none ∧
    ((canVote r m ∧ Spec.upToDate m.logTerm m.index (absLog val r) = true ∧ r' = granted r m) ∨
     (¬ (canVote r m ∧ Spec.upToDate m.logTerm m.index (absLog val r) = true) ∧ r' = rejected r m)) := by
  obtain ⟨he, b, hb, hcase⟩ := (step_vote_same_term_spec fuel m r ht hterm).elim h
  refine ⟨he, ?_⟩
  rw [isUpToDate_eq val hwf hu] at hb
  injection hb with hb
  simp only at hb
  rw [voteResp_eq r m _ hterm, voteResp_eq r m _ hterm] at hcase
  rcases hcase with ⟨hc, rfl⟩ | ⟨hc, rfl⟩
  · left
    simp only [Bool.and_eq_true, Bool.or_eq_true, beq_iff_eq] at hc
    exact ⟨hc.1, by rw [absLog, hb]; exact hc.2, rfl⟩
  · right
    refine ⟨?_, rfl⟩
    rintro ⟨h1, h2⟩
    rw [absLog, hb] at h2
    have : ((r.vote == m.from || r.vote == 0 && r.lead == 0) && b) = true := by
      simp only [Bool.and_eq_true, Bool.or_eq_true, beq_iff_eq]
      exact ⟨h1, h2⟩
    rw [this] at hc
    cases hc

/-! ### the Spec side -/

theorem grant_nodes (s : Spec.State) (n c lt li : Nat) :
    (Spec.apply s (.grant n c lt li)).nodes n =
      { (s.nodes n) with
        vol := { (s.nodes n).vol with vote := c, votes := ((s.nodes n).vol.term, c) :: (s.nodes n).vol.votes } } := by
  simp [Spec.apply, Spec.setNode]

/-- the granting state is described by the effect of Spec `grant` -/
theorem granted_abs (val : Val) {r : Raft} {m : Message} {s : Spec.State} {n : Nat}
    (ha : Abs val r (s.nodes n)) :
    Abs val (granted r m) ((Spec.apply s (.grant n m.from m.logTerm m.index)).nodes n) := by
  rw [grant_nodes]
  exact ⟨ha.term, rfl, ha.commit, ha.log, ha.role⟩

/-- the local conjuncts of the guard of Spec `grant`; `m.from ≠ 0` and "the request is in the soup" are
facts about the environment -/
theorem grant_enabled (val : Val) (cfg : Spec.Cfg) {r : Raft} {m : Message} {s : Spec.State} {n : Nat}
    (ha : Abs val r (s.nodes n)) (hterm : m.term = r.term) (hs : r.state ≠ .leader) (hcv : canVote r m)
    (hup : Spec.upToDate m.logTerm m.index (absLog val r) = true)
    (hfrom : m.from ≠ 0) (hsoup : Spec.Msg.reqVote m.term m.from m.logTerm m.index ∈ s.msgs) :
    Spec.enabled cfg s (.grant n m.from m.logTerm m.index) := by
  refine ⟨hfrom, ?_, ?_, ?_, ?_⟩
  · rw [ha.term, ← hterm]; exact hsoup
  · rw [ha.vote]
    rcases hcv with h | h
    · exact Or.inr h
    · exact Or.inl h.1
  · rw [ha.log]; exact hup
  · rw [ha.role]; exact absRole_ne_leader hs

/-- a rejection leaves the abstract state alone -/
theorem rejected_abs (val : Val) {r : Raft} {m : Message} {nd : Spec.Node} (ha : Abs val r nd) :
    Abs val (rejected r m) nd := ha.congr rfl rfl rfl rfl

/-- the Spec's `role ≠ leader` conjunct follows from the grant itself for a node satisfying the leader
invariant "a leader knows itself as leader (`lead = id ≠ 0`) and voted for itself" unless the request
comes from the node itself -/
theorem canVote_not_leader {r : Raft} {m : Message} (hcv : canVote r m)
    (hinv : r.state = .leader → r.lead = r.cfg.id ∧ r.vote = r.cfg.id ∧ r.cfg.id ≠ 0)
    (hne : m.from ≠ r.cfg.id) : r.state ≠ .leader := by
  intro hl
  obtain ⟨h1, h2, h3⟩ := hinv hl
  rcases hcv with h | h
  · exact hne (by rw [← h, h2])
  · exact h3 (by rw [← h1, h.2])

end RaftVerif.Refine
