import RaftVerif.Proofs.SimApp
import RaftVerif.Proofs.SimAux
/-!
# Proofs/SimAppAux — a same-term MsgApp from another node keeps the auxiliary invariant `AuxInv`
-/
namespace RaftVerif.Sim
open Refine
set_option linter.unusedSimpArgs false

/-- `handleAppendEntries`, weakly (no assumption on the log or the entries): only the log changes, and one
MsgAppResp to the sender is queued in `msgsAfterAppend` -/
theorem app_handle_weak (m : Message) (s : Raft) :
    Spec (Raft.handleAppendEntries m) s (fun _ s' => ∃ idx rej hint lt,
      s' = { s with log := s'.log,
                    msgsAfterAppend := s.msgsAfterAppend ++ [appRespMsg s m.from idx rej hint lt] }) := by
  unfold Raft.handleAppendEntries
  simp only [wp]
  refine ⟨fun _ => ?_, fun _ p _ => ?_⟩
  · refine (send_appResp_spec s _ _ _ _ _).mono ?_
    rintro _ s' rfl
    exact ⟨_, _, _, _, rfl⟩
  · obtain ⟨l', res⟩ := p
    cases res with
    | some li =>
      simp only [wp]
      refine (send_appResp_spec _ _ _ _ _ _).mono ?_
      rintro _ s' rfl
      exact ⟨_, _, _, _, rfl⟩
    | none =>
      simp only [wp]
      refine (send_appResp_spec _ _ _ _ _ _).mono ?_
      rintro _ s' rfl
      exact ⟨_, _, _, _, rfl⟩

set_option linter.unusedVariables false in
/-- a same-term MsgApp from another node keeps the auxiliary invariant (`hinv` is not used) -/
theorem aux_app_same {val : Val} {voters : List Id} {n : Nat} {s : Spec.State} {r r' : Raft} {m : Message}
    {e : Option StepErr} {fuel : Nat} (hinv : RaftInv val voters n r (s.nodes n) s.msgs) (haux : AuxInv n r)
    (ht : m.typ = .app) (hterm : m.term = r.term) (hfrom : m.from ≠ n)
    (h : (Raft.step (fuel + 1) m).run r = .ok (e, r')) : AuxInv n r' ∧ AuxFrame r r' := by
  by_cases hs : r.state = .leader
  · rw [app_leader_ignored ht hterm hs h]
    exact ⟨haux, AuxFrame.refl r⟩
  · obtain ⟨_, mid, hv, hrun⟩ := step_applike_factors fuel m r r' e Raft.handleAppendEntries
      (stepFollower_app_run fuel m ht) (stepCandidate_app_run fuel m ht) (by rw [ht]; decide) hterm hs h
    obtain ⟨idx, rej, hint, lt, heq⟩ := (app_handle_weak m mid).elim hrun
    have hT : r'.term = r.term := by rw [heq]; exact hv.term
    have hS : r'.state = .follower := by rw [heq]; exact hv.state
    have hM : r'.msgs = r.msgs := by rw [heq]; exact hv.msgs
    have hA : r'.msgsAfterAppend = r.msgsAfterAppend ++ [appRespMsg mid m.from idx rej hint lt] := by
      rw [heq]; show mid.msgsAfterAppend ++ _ = _; rw [hv.maa]
    have hframe : AuxFrame r r' := ⟨Nat.le_of_eq hT.symm, fun _ hl => absurd hl hs, fun _ _ => hS⟩
    refine ⟨⟨fun hl => (by rw [hS] at hl; cases hl), ?_, (by rw [hM]; exact haux.outFrom)⟩, hframe⟩
    intro x hx
    rw [hA] at hx
    rcases List.mem_append.1 hx with hx | hx
    · exact (haux.self x hx).frame hframe
    · simp only [List.mem_singleton] at hx
      subst hx
      intro hto
      exact absurd hto hfrom

end RaftVerif.Sim
