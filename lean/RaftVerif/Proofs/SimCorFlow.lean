import RaftVerif.Props.C16Leader
import RaftVerif.Proofs.NoPanicSyncKeep
import RaftVerif.Proofs.C14RawNode
/-!
# Proofs/SimCorFlow — the inflight-window invariant (`Raft.WindowsOK`) is kept by every `RawNode` operation of
`Simulation.EnvStep` that runs on an existing node (`step`, `tick`, `propose`, `campaign`, `syncRound`)
-/
namespace RaftVerif.SimCorFlow
open Raft Sim Refine

theorem runM_win {α : Type} {rn rn' : RawNode} {draws : List Nat} {act : M α} {a : α}
    (hact : ∀ r r' b, act.run r = .ok (b, r') → Flow r r')
    (h : rn.runM draws act = .ok (a, rn')) (hw : WindowsOK rn.raft) : WindowsOK rn'.raft := by
  obtain ⟨r', hrun, rfl⟩ := runM_inv h
  exact (hact _ _ _ hrun).2 hw

theorem rstep_win {rn rn' : RawNode} {draws : List Nat} {m : Message} {e : Option ApiErr}
    (h : rn.rstep draws m = .ok (e, rn')) (hw : WindowsOK rn.raft) : WindowsOK rn'.raft := by
  obtain ⟨e0, r', hrun, rfl⟩ := rstep_inv h
  exact (step_flow _ _ _ _ _ hrun).2 hw

theorem step_win {rn rn' : RawNode} {draws : List Nat} {m : Message} {e : Option ApiErr}
    (h : rn.step draws m = .ok (e, rn')) (hw : WindowsOK rn.raft) : WindowsOK rn'.raft := by
  rcases step_inv h with rfl | ⟨e0, r', hrun, rfl⟩
  · exact hw
  · exact (step_flow _ _ _ _ _ hrun).2 hw

theorem tick_win {rn rn' : RawNode} {draws : List Nat}
    (h : rn.tick draws = .ok rn') (hw : WindowsOK rn.raft) : WindowsOK rn'.raft := by
  unfold RawNode.tick at h
  obtain ⟨⟨u, rn1⟩, hrun, h⟩ := bind_eq_ok.1 h
  simp only [pure, Except.pure, Except.ok.injEq] at h
  subst h
  exact runM_win (fun r r' b hb => tick_keeps_limits r r' b hb) hrun hw

theorem runSteps_win (ms : List Message) : ∀ (r r' : Raft), Next.runSteps ms r = .ok r' →
    WindowsOK r → WindowsOK r' := by
  induction ms with
  | nil => intro r r' h hw; simp only [Next.runSteps, Except.ok.injEq] at h; exact h ▸ hw
  | cons m ms ih =>
    intro r r' h hw
    simp only [Next.runSteps] at h
    obtain ⟨⟨e, r1⟩, h1, h2⟩ := bind_eq_ok.1 h
    exact ih r1 r' h2 ((step_flow _ _ _ _ _ h1).2 hw)

theorem advance_win {rn rn' : RawNode} {draws : List Nat}
    (h : rn.advance draws = .ok rn') (hw : WindowsOK rn.raft) : WindowsOK rn'.raft := by
  obtain ⟨r', hr', rfl⟩ := advance_inv h
  exact runSteps_win _ _ _ hr' hw

/-! ### `Ready` / persist / `Advance` -/

theorem arPrefix_trk (rn : RawNode) (rd : Ready) : (C14.arPrefix rn rd).raft.trk = rn.raft.trk := by
  unfold C14.arPrefix
  cases rd.softState <;> cases rd.hardState <;> simp only []
  all_goals (repeat' split)
  all_goals rfl

theorem arSoa_trk {rn rn' : RawNode} {rd : Ready} (h : C14.arSoa rn rd = .ok rn') :
    rn'.raft.trk = rn.raft.trk := by
  unfold C14.arSoa at h
  by_cases ha : rn.async = true
  · simp [ha, pure, Except.pure] at h; rw [← h]
  · simp only [ha, Bool.not_false, if_true] at h
    have fin : ∀ {x : RawNode}, (pure x : P RawNode) = .ok rn' → x.raft = rn.raft → rn'.raft.trk = rn.raft.trk := by
      intro x hx hr
      simp only [pure, Except.pure, Except.ok.injEq] at hx
      rw [← hx, hr]
    split at h
    · exact absurd h (by simp [throw, throwThe, MonadExceptOf.throw, bind, Except.bind])
    · split at h
      · obtain ⟨m, _, h⟩ := bind_eq_ok.1 h
        split at h <;> exact fin h rfl
      · split at h <;> exact fin h rfl

theorem arApply_trk {rn rn' : RawNode} {rd : Ready} (h : C14.arApply rn rd = .ok rn') :
    rn'.raft.trk = rn.raft.trk := by
  unfold C14.arApply at h
  split at h
  · obtain ⟨l, _, h⟩ := bind_eq_ok.1 h
    simp only [pure, Except.pure, Except.ok.injEq] at h
    rw [← h]
  · simp only [pure, Except.pure, Except.ok.injEq] at h
    rw [← h]

theorem acceptReady_trk {rn rn' : RawNode} {rd : Ready} (h : rn.acceptReady rd = .ok rn') :
    rn'.raft.trk = rn.raft.trk := by
  rw [C14.acceptReady_eq] at h
  obtain ⟨rn1, h1, h2⟩ := bind_eq_ok.1 h
  rw [arApply_trk h2, arSoa_trk h1, arPrefix_trk]

theorem ready_trk {rn rn' : RawNode} {rd : Ready} (h : rn.ready = .ok (rd, rn')) :
    rn'.raft.trk = rn.raft.trk := by
  unfold RawNode.ready at h
  obtain ⟨rd1, _, h⟩ := bind_eq_ok.1 h
  obtain ⟨rn1, h1, h⟩ := bind_eq_ok.1 h
  simp only [pure, Except.pure, Except.ok.injEq, Prod.mk.injEq] at h
  obtain ⟨rfl, rfl⟩ := h
  exact acceptReady_trk h1

theorem persistReady_trk {rn rn' : RawNode} {rd : Ready} (h : persistReady rn rd = .ok rn') :
    rn'.raft.trk = rn.raft.trk := by
  unfold persistReady at h
  obtain ⟨ms, _, h⟩ := bind_eq_ok.1 h
  simp only [pure, Except.pure, Except.ok.injEq] at h
  rw [← h]

theorem syncRound_win {rn rn' : RawNode} {rd : Ready} {draws : List Nat}
    (h : syncRound rn draws = .ok (rd, rn')) (hw : WindowsOK rn.raft) : WindowsOK rn'.raft := by
  unfold syncRound at h
  obtain ⟨⟨rd1, rn1⟩, h1, h⟩ := bind_eq_ok.1 h
  obtain ⟨rn2, h2, h⟩ := bind_eq_ok.1 h
  obtain ⟨rn3, h3, h⟩ := bind_eq_ok.1 h
  simp only [pure, Except.pure, Except.ok.injEq, Prod.mk.injEq] at h
  obtain ⟨_, rfl⟩ := h
  refine advance_win h3 ?_
  have e : rn2.raft.trk = rn.raft.trk := by rw [persistReady_trk h2, ready_trk h1]
  intro id pr hp
  rw [e] at hp
  exact hw id pr hp

end RaftVerif.SimCorFlow
