import RaftVerif.Proofs.LogQueries
/-!
# Proofs/LogSlice — `raftLog.slice` / `entries` against the abstract log

Core Lean only.
-/
namespace RaftVerif

theorem limitSizeAux_all (m s : Nat) (es : List Entry) (h : s + entsSize es ≤ m) :
    limitSizeAux m s es = es := by
  induction es generalizing s with
  | nil => rfl
  | cons e es ih =>
    simp only [entsSize_cons] at h
    simp only [limitSizeAux]
    rw [if_neg (by omega), ih _ (by omega)]

/-- everything fits: nothing is cut -/
theorem limitSize_all (es : List Entry) (m : Nat) (h : entsSize es ≤ m) : limitSize es m = es := by
  cases es with
  | nil => rfl
  | cons e es =>
    simp only [entsSize_cons] at h
    simp only [limitSize]
    rw [limitSizeAux_all _ _ _ h]

/-- the storage+unstable merge rule of `raftLog.slice` computes `limitSize` of the concatenation
(including the rule that a single unstable entry that does not fit is not added) -/
theorem limitSize_merge (A B : List Entry) (m : Nat) (hA : A ≠ []) (hB : B ≠ []) :
    (if (limitSize A m).length < A.length then limitSize A m
     else if entsSize (limitSize A m) ≥ m then limitSize A m
     else if ((limitSize B (m - entsSize (limitSize A m))).length == 1 &&
              decide (entsSize (limitSize A m) + entsSize (limitSize B (m - entsSize (limitSize A m))) > m)) = true
       then limitSize A m
     else limitSize A m ++ limitSize B (m - entsSize (limitSize A m))) = limitSize (A ++ B) m := by
  rw [limitSize_append A B m hA]
  by_cases h1 : (limitSize A m).length < A.length
  · rw [if_pos h1]
    by_cases h2 : entsSize A ≤ m
    · rw [limitSize_all A m h2] at h1; omega
    · rw [if_neg h2]
  · rw [if_neg h1]
    have hAeq : limitSize A m = A := by
      have hp := limitSize_prefix A m
      exact hp.eq_of_length (by have := hp.length_le; omega)
    rw [hAeq]
    by_cases h2 : entsSize A ≥ m
    · rw [if_pos h2]
      by_cases h3 : entsSize A ≤ m
      · rw [if_pos h3]
        cases B with
        | nil => simp [limitSizeAux]
        | cons b B =>
          have := entrySize_pos b
          simp only [limitSizeAux]
          rw [if_pos (by omega)]; simp
      · rw [if_neg h3]
    · have hle : entsSize A ≤ m := by omega
      rw [if_neg h2, if_pos hle]
      cases B with
      | nil => exact absurd rfl hB
      | cons b B =>
        have hU : limitSize (b :: B) (m - entsSize A) =
            b :: limitSizeAux m (entsSize A + entrySize b) B := by
          simp only [limitSize]
          rw [limitSizeAux_shift m (entsSize A) (entrySize b) B (by omega)]
        generalize limitSize (b :: B) (m - entsSize A) = U at hU ⊢
        subst hU
        simp only [limitSizeAux]
        by_cases h3 : entsSize A + entrySize b > m
        · rw [if_pos h3, limitSizeAux_over _ _ _ (by omega)]
          simp only [List.length_cons, List.length_nil, Nat.zero_add, beq_self_eq_true, entsSize_cons,
            entsSize_nil, Nat.add_zero, Bool.true_and, decide_eq_true_eq]
          rw [if_pos h3]; simp
        · rw [if_neg h3]
          have hsz := limitSizeAux_size m (entsSize A + entrySize b) B (by omega)
          rw [if_neg]
          simp only [entsSize_cons, Bool.and_eq_true, decide_eq_true_eq, not_and]
          intro _; omega

/-- the answer of a `slice(lo, hi, maxSize)` query on an abstract log -/
def ALog.sliceResult (a : ALog) (lo hi maxSize : Nat) : P (Except StorageErr (List Entry)) :=
  if lo > hi then throw "slice: invalid lo > hi"
  else if lo < a.first then pure (.error .compacted)
  else if hi > a.last + 1 then throw "slice: out of bound"
  else pure (.ok (limitSize (a.slice lo hi) maxSize))

namespace RaftLog

theorem abs_slice_of_ge {l : RaftLog} (h : l.WF) {lo : Nat} (hi : Nat) (hlo : l.unstable.offset ≤ lo) :
    l.abs.slice lo hi = (l.unstable.entries.drop (lo - l.unstable.offset)).take (hi - lo) := by
  obtain ⟨pre, he, hlen, _, _⟩ := h.shape
  unfold ALog.slice
  rw [he]
  have : lo - (l.abs.base + 1) = pre.length + (lo - l.unstable.offset) := by omega
  rw [this, List.drop_append, List.drop_eq_nil_of_le (by omega)]
  simp

theorem abs_slice_of_le {l : RaftLog} (h : l.WF) (hsn : l.unstable.snapshot = none) {lo hi : Nat}
    (hlo : l.abs.first ≤ lo) (hhi : hi ≤ l.unstable.offset) :
    l.abs.slice lo hi = l.storage.abs.slice lo hi := by
  obtain ⟨pre, he, hlen, hn, _⟩ := h.shape
  obtain ⟨hp, hb, _⟩ := hn hsn
  unfold ALog.slice
  unfold ALog.first at hlo
  rw [he, hb, MemoryStorage.abs_base, hp]
  rw [hb] at hlen hlo
  by_cases hlh : lo < hi
  · rw [List.drop_append_of_le_length (by rw [← hp]; omega)]
    rw [List.take_append_of_le_length (by rw [List.length_drop, ← hp]; omega)]
    rw [List.drop_take]
    rw [List.take_take]
    congr 1
    omega
  · have : hi - lo = 0 := by omega
    rw [this]; simp

theorem mustCheckOutOfBounds_eq {l : RaftLog} (h : l.WF) (lo hi : Nat) :
    l.mustCheckOutOfBounds lo hi =
      if lo > hi then throw "slice: invalid lo > hi"
      else if lo < l.abs.first then pure (some .compacted)
      else if hi > l.abs.last + 1 then throw "slice: out of bound"
      else pure none := by
  unfold mustCheckOutOfBounds
  rw [firstIndex_abs h, lastIndex_abs h]

/-- **slice**: `slice(lo, hi, maxSize)` in terms of the abstract log: one equation for all arguments,
covering the unstable-only path, the storage-only path and the storage+unstable merge path -/
theorem slice_eq {l : RaftLog} (h : l.WF) (lo hi maxSize : Nat) :
    l.slice lo hi maxSize = l.abs.sliceResult lo hi maxSize := by
  unfold slice ALog.sliceResult
  rw [mustCheckOutOfBounds_eq h]
  by_cases h1 : lo > hi
  · rw [if_pos h1, if_pos h1]; rfl
  rw [if_neg h1, if_neg h1]
  by_cases h2 : lo < l.abs.first
  · rw [if_pos h2, if_pos h2]; rfl
  rw [if_neg h2, if_neg h2]
  by_cases h3 : hi > l.abs.last + 1
  · rw [if_pos h3, if_pos h3]; rfl
  rw [if_neg h3, if_neg h3]
  simp only [pure, Except.pure, bind, Except.bind]
  have hls := abs_last_succ h
  have hbo := abs_base_lt_offset h
  unfold Unstable.next at hls
  unfold ALog.first at h2
  by_cases h4 : lo = hi
  · subst h4
    rw [if_pos (by simp), ALog.slice_self]; rfl
  rw [if_neg (by simpa using h4)]
  by_cases h5 : lo ≥ l.unstable.offset
  · rw [if_pos h5]
    unfold Unstable.slice
    rw [if_neg h1, if_neg (by simp; omega)]
    simp only [pure, Except.pure]
    rw [abs_slice_of_ge h hi h5]
  rw [if_neg h5]
  -- below `offset`: no snapshot can be pending
  obtain ⟨pre, he, hlen, hn, hs⟩ := h.shape
  cases hsn : l.unstable.snapshot with
  | some s =>
    exfalso
    have := (hs s hsn).1
    subst this
    simp at hlen; omega
  | none =>
    obtain ⟨hp, hb, _⟩ := hn hsn
    have hso := h.snapOK
    unfold SnapOK at hso
    rw [hsn] at hso
    simp only at hso
    have hsl := MemoryStorage.lastIndex_abs h.storage
    have hsb : l.storage.abs.base = l.storage.offset := rfl
    have hsne : l.storage.abs.ents ≠ [] := by
      intro h0
      have : l.storage.abs.last = l.storage.offset := by simp [ALog.last, h0, hsb]
      omega
    rw [MemoryStorage.entries_eq h.storage]
    rw [if_neg (by omega), if_neg (by omega), if_neg hsne, if_neg (by omega)]
    simp only [pure, Except.pure]
    by_cases h6 : hi ≤ l.unstable.offset
    · rw [if_pos h6]
      have : min hi l.unstable.offset = hi := by omega
      rw [this, abs_slice_of_le h hsn (by unfold ALog.first; omega) h6]
    · rw [if_neg h6]
      have hcut : min hi l.unstable.offset = l.unstable.offset := by omega
      rw [hcut, ← abs_slice_of_le h hsn (by unfold ALog.first; omega) (Nat.le_refl _)]
      have hA : (l.abs.slice lo l.unstable.offset).length = l.unstable.offset - lo :=
        ALog.slice_length _ (by unfold ALog.first; omega) (by omega) (by omega)
      have hB : (l.abs.slice l.unstable.offset hi).length = hi - l.unstable.offset :=
        ALog.slice_length _ (by unfold ALog.first; omega) (by omega) (by omega)
      have hAne : l.abs.slice lo l.unstable.offset ≠ [] := by
        intro h0; rw [h0] at hA; simp at hA; omega
      have hBne : l.abs.slice l.unstable.offset hi ≠ [] := by
        intro h0; rw [h0] at hB; simp at hB; omega
      have hAB := ALog.slice_append l.abs (lo := lo) (mid := l.unstable.offset) (hi := hi)
        (by unfold ALog.first; omega) (by omega) (by omega)
      have hus : l.unstable.slice l.unstable.offset hi = .ok (l.abs.slice l.unstable.offset hi) := by
        unfold Unstable.slice
        rw [if_neg (by omega), if_neg (by simp; omega)]
        simp only [pure, Except.pure]
        rw [abs_slice_of_ge h hi (Nat.le_refl _)]
      rw [hus, ← hAB, ← limitSize_merge _ _ maxSize hAne hBne, hA]
      generalize limitSize (l.abs.slice lo l.unstable.offset) maxSize = E
      generalize l.abs.slice l.unstable.offset hi = B
      by_cases c1 : E.length < l.unstable.offset - lo
      · rw [if_pos c1, if_pos c1]
      · rw [if_neg c1, if_neg c1]
        by_cases c2 : entsSize E ≥ maxSize
        · rw [if_pos c2, if_pos c2]
        · rw [if_neg c2, if_neg c2]
          dsimp only
          split <;> rfl

/-- **entries** -/
theorem entries_eq {l : RaftLog} (h : l.WF) (i maxSize : Nat) :
    l.entries i maxSize =
      if i > l.abs.last then pure (.ok [])
      else if i < l.abs.first then pure (.error .compacted)
      else pure (.ok (limitSize (l.abs.slice i (l.abs.last + 1)) maxSize)) := by
  unfold entries
  rw [lastIndex_abs h, slice_eq h]
  unfold ALog.sliceResult
  by_cases h1 : i > l.abs.last
  · rw [if_pos h1, if_pos h1]
  · rw [if_neg h1, if_neg h1, if_neg (by omega)]
    by_cases h2 : i < l.abs.first
    · rw [if_pos h2, if_pos h2]
    · rw [if_neg h2, if_neg h2, if_neg (by omega)]

end RaftLog
end RaftVerif
