import RaftVerif.Proofs.SimProp
import RaftVerif.Proofs.SimAux
/-!
# Proofs/SimPropAux — MsgProp keeps the auxiliary invariant `AuxInv`; `sim_prop` without `hmatch`
-/
namespace RaftVerif.Sim
open Refine Raft

/-! ### nothing queued in `msgs` is self-addressed -/

/-- `cfg` is kept and every message appended to `msgs` is addressed to another node -/
structure PropNS (s s' : Raft) : Prop where
  cfg : s'.cfg = s.cfg
  msgs : ListExt (fun x => x.to ≠ s.cfg.id) s.msgs s'.msgs

theorem PropNS.refl (s : Raft) : PropNS s s := ⟨rfl, ListExt.refl _⟩

theorem PropNS.trans {a b c : Raft} (h1 : PropNS a b) (h2 : PropNS b c) : PropNS a c := by
  obtain ⟨c1, l1⟩ := h1
  obtain ⟨c2, l2⟩ := h2
  rw [c1] at l2
  exact ⟨c2.trans c1, l1.trans l2⟩

instance : RelOK PropNS := ⟨PropNS.refl, PropNS.trans⟩

theorem PropNS.of_eq {s x : Raft} (h1 : x.cfg = s.cfg) (h2 : x.msgs = s.msgs) : PropNS s x :=
  ⟨h1, h2 ▸ ListExt.refl _⟩

macro_rules | `(tactic| rel_fields) => `(tactic| exact PropNS.of_eq rfl rfl)

theorem prop_stamped_to (s : Raft) (m : Message) : (stamped s m).to = m.to := by
  unfold stamped
  simp only
  split <;> split <;> (try split) <;> rfl

/-- `send` panics on a self-addressed non-promise -/
theorem prop_send_to (m : Message) (s : Raft) :
    RaftVerif.Spec (send m) s (fun _ _ => isPromise m.typ = false → m.to ≠ s.cfg.id) := by
  unfold send
  simp only [wp]
  obtain ⟨typ, to, frm, term, logTerm, index, entries, commit, vote, snapshot, reject, rejectHint, context, responses⟩ := m
  by_cases hf : frm = 0 <;> cases typ <;> simp_all [isPromise]

syntax "prop_ns_step" : tactic

theorem prop_send_ns (m : Message) (s : Raft) : RaftVerif.Spec (send m) s (fun _ s' => PropNS s s') := by
  refine ((send_spec m s).and (prop_send_to m s)).mono ?_
  rintro _ s' ⟨⟨_, rfl⟩ | ⟨hp, rfl⟩, hto⟩
  · exact PropNS.of_eq rfl rfl
  · exact ⟨rfl, ListExt.snoc _ _ (by rw [prop_stamped_to]; exact hto hp)⟩
macro_rules | `(tactic| prop_ns_step) => `(tactic| rel_call (prop_send_ns ..))

theorem prop_maybeSendSnapshot_ns (to : Id) (pr : Progress) (s : Raft) :
    RaftVerif.Spec (maybeSendSnapshot to pr) s (fun _ s' => PropNS s s') := by
  unfold maybeSendSnapshot
  rel_start
  wp_auto [prop_ns_step]
macro_rules | `(tactic| prop_ns_step) => `(tactic| rel_call (prop_maybeSendSnapshot_ns ..))

theorem prop_maybeSendAppend_ns (to : Id) (b : Bool) (s : Raft) :
    RaftVerif.Spec (maybeSendAppend to b) s (fun _ s' => PropNS s s') := by
  unfold maybeSendAppend
  rel_start
  wp_auto [prop_ns_step]
macro_rules | `(tactic| prop_ns_step) => `(tactic| rel_call (prop_maybeSendAppend_ns ..))

theorem prop_bcastAppend_ns (s : Raft) : RaftVerif.Spec bcastAppend s (fun _ s' => PropNS s s') := by
  unfold bcastAppend
  rel_start
  wp_auto [first | prop_ns_step | rel_loop PropNS]

/-- an accepted MsgProp of a leader queues nothing self-addressed in `msgs` -/
theorem prop_step_leader_ns (fuel : Nat) (m : Message) (r r' : Raft) (e : Option StepErr)
    (ht : m.typ = .prop) (h0 : m.term = 0) (hs : r.state = .leader)
    (h : (step (fuel + 1) m).run r = .ok (e, r')) : e = none → PropNS r r' := by
  refine (step_prop_local fuel m r (fun e r' => e = none → PropNS r r') ht h0 (fun _ => ?_)
    (fun hC => by rw [hs] at hC; rcases hC with hC | hC <;> cases hC)
    (fun hF => by rw [hs] at hF; cases hF)).elim h
  refine (stepLeader_prop_spec_maa fuel m r ht).mono ?_
  rintro e s' (⟨rfl, _⟩ | ⟨rfl, s1, ents, p, h1, _, _, _, _, hbc⟩)
  · intro h; cases h
  · intro _
    obtain ⟨c, l⟩ := (prop_bcastAppend_ns _).elim hbc
    unfold OnlyPCI at h1
    have e1 : (afterAppend s1 ents p).cfg = r.cfg := by simp only [afterAppend]; rw [h1]
    have e2 : (afterAppend s1 ents p).msgs = r.msgs := by simp only [afterAppend]; rw [h1]
    rw [e1, e2] at l
    exact ⟨c.trans e1, l⟩

/-! ### the auxiliary invariant -/

/-- a step that keeps state, term, log, tracker and `msgsAfterAppend`, and queues at most MsgProp -/
theorem prop_aux_congr {n : Nat} {r r' : Raft} (haux : AuxInv n r) (h1 : r'.state = r.state)
    (h2 : r'.term = r.term) (h3 : r'.log = r.log) (h4 : r'.trk = r.trk)
    (h5 : r'.msgsAfterAppend = r.msgsAfterAppend) (h6 : ∀ x ∈ r'.msgs, x ∈ r.msgs ∨ x.typ = .prop) :
    AuxInv n r' ∧ AuxFrame r r' := by
  have hfr : AuxFrame r r' :=
    ⟨Nat.le_of_eq h2.symm, fun _ hl => ⟨h1.trans hl, by rw [h3]; exact Nat.le_refl _⟩, fun _ hf => h1.trans hf⟩
  refine ⟨⟨?_, ?_, ?_⟩, hfr⟩
  · rw [h1, h4, h3]; exact haux.matchLe
  · rw [h5]; exact fun m hm => (haux.self m hm).frame hfr
  · intro x hx ht
    rcases h6 x hx with h | h
    · exact haux.outFrom x h ht
    · rw [h] at ht
      rcases ht with ht | ht | ht <;> cases ht

/-- the leader accepts the proposal -/
theorem prop_aux_accepted {val : Val} {voters : List Id} {n : Nat} {nd : Spec.Node} {msgs : List Spec.Msg}
    {r r' : Raft} {m : Message} {ents : List Entry} (hinv : RaftInv val voters n r nd msgs) (haux : AuxInv n r)
    (hs : r.state = .leader) (hp : PropPost val r m ents r') (hf : PropFrame r r') (hns : PropNS r r') :
    AuxInv n r' ∧ AuxFrame r r' := by
  have hfr : AuxFrame r r' :=
    ⟨Nat.le_of_eq hp.term.symm, fun _ _ => ⟨hp.state, by rw [hp.lastIndex]; exact Nat.le_add_right _ _⟩,
      fun _ hf => by rw [hs] at hf; cases hf⟩
  refine ⟨⟨?_, ?_, ?_⟩, hfr⟩
  · intro _ pr' hg
    obtain ⟨pr, g1, g2, _⟩ := hf.prog.back hg
    rw [g2, hp.lastIndex]
    exact Nat.le_trans (haux.matchLe hs pr g1) (Nat.le_add_right _ _)
  · intro x hx
    rw [hp.maa] at hx
    rcases List.mem_append.1 hx with hx | hx
    · exact (haux.self x hx).frame hfr
    · simp only [List.mem_singleton] at hx
      subst hx
      intro _
      refine ⟨Or.inr rfl, rfl, hinv.st.id, Nat.le_of_eq hp.term.symm, fun _ _ => Or.inr ⟨hp.state, ?_⟩⟩
      show (absLog val r).length + ents.length ≤ r'.log.lastIndex
      rw [hp.lastIndex]
      unfold absLog
      rw [absLogL_length_eq val hinv.wf hinv.unc]
      exact Nat.le_refl _
  · intro x hx ht
    obtain ⟨added, hadd, hok⟩ := hp.sends
    obtain ⟨suf, hsuf, hto⟩ := hns.msgs
    have heq : added = suf := List.append_cancel_left (hadd.symm.trans hsuf)
    rw [hadd] at hx
    rcases List.mem_append.1 hx with hx | hx
    · exact haux.outFrom x hx ht
    · have hton := hto x (heq ▸ hx)
      rw [hinv.st.id] at hton
      rcases hok x hx with hk | hk
      · rw [hk] at ht
        rcases ht with ht | ht | ht <;> cases ht
      · exact ⟨by rw [hk.frm, hf.cfg]; exact hinv.st.id, hton⟩

/-- MsgProp keeps the auxiliary invariant -/
theorem aux_prop {val : Val} {voters : List Id} {n : Nat} {s : Spec.State} {r r' : Raft} {m : Message}
    {e : Option StepErr} {fuel : Nat} (hinv : RaftInv val voters n r (s.nodes n) s.msgs) (haux : AuxInv n r)
    (ht : m.typ = .prop) (h0 : m.term = 0)
    (h : (Raft.step (fuel + 1) m).run r = .ok (e, r')) : AuxInv n r' ∧ AuxFrame r r' := by
  by_cases hs : r.state = .leader
  · rcases step_prop_leader val fuel m r r' e ht h0 hs hinv.wf hinv.unc h with ⟨_, hpci⟩ | ⟨he, _, ⟨ents, hp⟩, hf⟩
    · unfold OnlyPCI at hpci
      refine prop_aux_congr haux ?_ ?_ ?_ ?_ ?_ (fun x hx => Or.inl ?_) <;> first | rw [hpci] | skip
      rw [hpci] at hx; exact hx
    · exact prop_aux_accepted hinv haux hs hp hf (prop_step_leader_ns fuel m r r' e ht h0 hs h he)
  · rcases step_prop_nonleader fuel m r r' e ht h0 hs h with rfl | ⟨x, hx, _, rfl⟩
    · exact ⟨haux, AuxFrame.refl _⟩
    · refine prop_aux_congr haux rfl rfl rfl rfl rfl (fun y hy => ?_)
      rcases List.mem_append.1 hy with hy | hy
      · exact Or.inl hy
      · simp only [List.mem_singleton] at hy
        subst hy; exact Or.inr hx

/-- `sim_prop` with `hmatch` discharged from the auxiliary invariant -/
theorem sim_prop' {val : Val} {voters : List Id} {n : Nat} {s : Spec.State} {r r' : Raft} {m : Message}
    {e : Option StepErr} {fuel : Nat} (hinv : RaftInv val voters n r (s.nodes n) s.msgs) (haux : AuxInv n r)
    (hreach : Spec.Reachable (cfgOf voters) s) (ht : m.typ = .prop) (h0 : m.term = 0)
    (h : (Raft.step (fuel + 1) m).run r = .ok (e, r')) : RaftSim val voters n s r' := by
  by_cases hs : r.state = .leader
  · refine sim_prop hinv hreach ht h0 (fun pr hg => ?_) h
    unfold absLog
    rw [absLogL_length_eq val hinv.wf hinv.unc]
    exact haux.matchLe hs pr hg
  · rcases step_prop_nonleader fuel m r r' e ht h0 hs h with rfl | ⟨x, hx, hx0, rfl⟩
    · exact RaftSim.refl hinv
    · refine RaftSim.refl (hinv.queue x ?_)
      unfold NetOK
      simp only [hx]
      exact hx0

end RaftVerif.Sim
