import RaftVerif.Proofs.StepTick
/-!
# Proofs/StepRouted — the part of `Good` that needs no hypothesis on the message

`Routed s s'`: `cfg` fixed, `committed` never goes back, `msgs` only grows by non-promise messages,
`msgsAfterAppend` only grows by promise messages (MsgAppResp / MsgVoteResp / MsgPreVoteResp).
Every function of `Model/Raft.lean`, `Raft.step` for *every* message included, keeps it (C05, and the
commit part of C07 without `TermOK`).  Same proof scripts as for `Good`.
-/
namespace RaftVerif

structure Routed (s s' : Raft) : Prop where
  cfg : s'.cfg = s.cfg
  commit : s.log.committed ≤ s'.log.committed
  msgs : ListExt (fun x => isPromise x.typ = false) s.msgs s'.msgs
  maa : ListExt (fun x => isPromise x.typ = true) s.msgsAfterAppend s'.msgsAfterAppend

theorem Routed.refl (s : Raft) : Routed s s := ⟨rfl, Nat.le_refl _, ListExt.refl _, ListExt.refl _⟩
theorem Routed.trans {a b c : Raft} (h1 : Routed a b) (h2 : Routed b c) : Routed a c :=
  ⟨h2.cfg.trans h1.cfg, Nat.le_trans h1.commit h2.commit, h1.msgs.trans h2.msgs, h1.maa.trans h2.maa⟩
instance : RelOK Routed := ⟨Routed.refl, Routed.trans⟩

theorem Good.routed {s s' : Raft} (h : Good s s') : Routed s s' := ⟨h.cfg, h.commit, h.msgs, h.maa⟩
theorem SendFrame.routed {s s' : Raft} (h : SendFrame s s') : Routed s s' := h.good.routed

theorem Routed.of_commit {s x : Raft} (h1 : x.cfg = s.cfg) (h4 : s.log.committed ≤ x.log.committed)
    (h5 : x.msgs = s.msgs) (h6 : x.msgsAfterAppend = s.msgsAfterAppend) : Routed s x :=
  ⟨h1, h4, h5 ▸ ListExt.refl _, h6 ▸ ListExt.refl _⟩

macro_rules | `(tactic| rel_fields) => `(tactic| exact Routed.of_commit rfl (by commit_tac) rfl rfl)

namespace Raft

/-- registered `Routed` call rules -/
syntax "routed_step" : tactic

theorem send_routed (m : Message) (s : Raft) : Spec (send m) s (fun _ s' => Routed s s') :=
  (send_sf m s).mono fun _ _ h => h.routed
theorem maybeSendAppend_routed (to : Id) (b : Bool) (s : Raft) :
    Spec (maybeSendAppend to b) s (fun _ s' => Routed s s') := (maybeSendAppend_sf to b s).mono fun _ _ h => h.routed
theorem sendAppendLoop_routed (n : Nat) (to : Id) (s : Raft) :
    Spec (sendAppendLoop n to) s (fun _ s' => Routed s s') := (sendAppendLoop_sf n to s).mono fun _ _ h => h.routed
theorem sendHeartbeat_routed (to : Id) (c : Option Bytes) (s : Raft) :
    Spec (sendHeartbeat to c) s (fun _ s' => Routed s s') := (sendHeartbeat_sf to c s).mono fun _ _ h => h.routed
theorem bcastAppend_routed (s : Raft) : Spec bcastAppend s (fun _ s' => Routed s s') :=
  (bcastAppend_sf s).mono fun _ _ h => h.routed
theorem bcastHeartbeat_routed (s : Raft) : Spec bcastHeartbeat s (fun _ s' => Routed s s') :=
  (bcastHeartbeat_sf s).mono fun _ _ h => h.routed

macro_rules | `(tactic| routed_step) => `(tactic| rel_call (send_routed ..))
macro_rules | `(tactic| routed_step) => `(tactic| rel_call (maybeSendAppend_routed ..))
macro_rules | `(tactic| routed_step) => `(tactic| rel_call (sendAppendLoop_routed ..))
macro_rules | `(tactic| routed_step) => `(tactic| rel_call (sendHeartbeat_routed ..))
macro_rules | `(tactic| routed_step) => `(tactic| rel_call (bcastAppend_routed ..))
macro_rules | `(tactic| routed_step) => `(tactic| rel_call (bcastHeartbeat_routed ..))
macro_rules | `(tactic| routed_step) => `(tactic| same_call (hasUnappliedConfChanges_same ..))
macro_rules | `(tactic| routed_step) => `(tactic| same_call (decodeCC_same ..))

theorem reset_routed (t : Nat) (s : Raft) : Spec (reset t) s (fun _ s' => Routed s s') :=
  (reset_spec_st t s).mono fun _ _ ⟨_, _, _, _, h3, h4, h5, h6, _⟩ =>
    ⟨h4, by rw [h3]; exact Nat.le_refl _, h5 ▸ ListExt.refl _, h6 ▸ ListExt.refl _⟩
theorem becomeFollower_routed (t l : Nat) (s : Raft) : Spec (becomeFollower t l) s (fun _ s' => Routed s s') :=
  (becomeFollower_spec t l s).mono fun _ _ ⟨_, _, _, _, h3, h4, h5, h6⟩ =>
    ⟨h4, by rw [h3]; exact Nat.le_refl _, h5 ▸ ListExt.refl _, h6 ▸ ListExt.refl _⟩
theorem becomeCandidate_routed (s : Raft) : Spec becomeCandidate s (fun _ s' => Routed s s') :=
  (becomeCandidate_good s).mono fun _ _ h => h.routed
theorem becomePreCandidate_routed (s : Raft) : Spec becomePreCandidate s (fun _ s' => Routed s s') :=
  (becomePreCandidate_good s).mono fun _ _ h => h.routed

macro_rules | `(tactic| routed_step) => `(tactic| rel_call (reset_routed ..))
macro_rules | `(tactic| routed_step) => `(tactic| rel_call (becomeFollower_routed ..))
macro_rules | `(tactic| routed_step) => `(tactic| rel_call (becomeCandidate_routed ..))
macro_rules | `(tactic| routed_step) => `(tactic| rel_call (becomePreCandidate_routed ..))

theorem maybeCommit_routed (s : Raft) : Spec maybeCommit s (fun _ s' => Routed s s') := by
  unfold maybeCommit
  rel_start
  wp_auto [routed_step]
macro_rules | `(tactic| routed_step) => `(tactic| rel_call (maybeCommit_routed ..))

theorem increaseUncommittedSize_routed (es : List Entry) (s : Raft) : Spec (increaseUncommittedSize es) s (fun _ s' => Routed s s') := by
  unfold increaseUncommittedSize
  rel_start
  wp_auto [routed_step]
macro_rules | `(tactic| routed_step) => `(tactic| rel_call (increaseUncommittedSize_routed ..))

theorem appendEntry_routed (es : List Entry) (s : Raft) : Spec (appendEntry es) s (fun _ s' => Routed s s') := by
  unfold appendEntry
  rel_start
  wp_auto [routed_step]
macro_rules | `(tactic| routed_step) => `(tactic| rel_call (appendEntry_routed ..))

theorem appliedToLog_routed (i sz : Nat) (s : Raft) : Spec (appliedToLog i sz) s (fun _ s' => Routed s s') := by
  unfold appliedToLog
  rel_start
  wp_auto [routed_step]
macro_rules | `(tactic| routed_step) => `(tactic| rel_call (appliedToLog_routed ..))

theorem becomeLeader_routed (s : Raft) : Spec becomeLeader s (fun _ s' => Routed s s') := by
  unfold becomeLeader
  rel_start
  wp_auto [routed_step]
macro_rules | `(tactic| routed_step) => `(tactic| rel_call (becomeLeader_routed ..))

theorem campaign_routed (t : CampaignType) (s : Raft) : Spec (campaign t) s (fun _ s' => Routed s s') := by
  unfold campaign
  rel_start
  wp_auto [first | routed_step | rel_loop Routed]
macro_rules | `(tactic| routed_step) => `(tactic| rel_call (campaign_routed ..))

theorem hup_routed (t : CampaignType) (s : Raft) : Spec (hup t) s (fun _ s' => Routed s s') := by
  unfold hup
  rel_start
  wp_auto [routed_step]
macro_rules | `(tactic| routed_step) => `(tactic| rel_call (hup_routed ..))

theorem responseToReadIndexReq_routed (req : Message) (i : Nat) (s : Raft) : Spec (responseToReadIndexReq req i) s (fun _ s' => Routed s s') := by
  unfold responseToReadIndexReq
  rel_start
  wp_auto [routed_step]
macro_rules | `(tactic| routed_step) => `(tactic| rel_call (responseToReadIndexReq_routed ..))

theorem sendReadIndexResp_routed (req : Message) (i : Nat) (s : Raft) : Spec (sendReadIndexResp req i) s (fun _ s' => Routed s s') := by
  unfold sendReadIndexResp
  rel_start
  wp_auto [routed_step]
macro_rules | `(tactic| routed_step) => `(tactic| rel_call (sendReadIndexResp_routed ..))

theorem sendMsgReadIndexResponse_routed (m : Message) (s : Raft) : Spec (sendMsgReadIndexResponse m) s (fun _ s' => Routed s s') := by
  unfold sendMsgReadIndexResponse
  rel_start
  wp_auto [routed_step]
macro_rules | `(tactic| routed_step) => `(tactic| rel_call (sendMsgReadIndexResponse_routed ..))

theorem releasePendingReadIndexMessages_routed (s : Raft) : Spec releasePendingReadIndexMessages s (fun _ s' => Routed s s') := by
  unfold releasePendingReadIndexMessages
  rel_start
  wp_auto [first | routed_step | rel_loop Routed]
macro_rules | `(tactic| routed_step) => `(tactic| rel_call (releasePendingReadIndexMessages_routed ..))

theorem handleAppendEntries_routed (m : Message) (s : Raft) : Spec (handleAppendEntries m) s (fun _ s' => Routed s s') := by
  unfold handleAppendEntries
  rel_start
  wp_auto [routed_step]
macro_rules | `(tactic| routed_step) => `(tactic| rel_call (handleAppendEntries_routed ..))

theorem handleHeartbeat_routed (m : Message) (s : Raft) : Spec (handleHeartbeat m) s (fun _ s' => Routed s s') := by
  unfold handleHeartbeat
  rel_start
  wp_auto [routed_step]
macro_rules | `(tactic| routed_step) => `(tactic| rel_call (handleHeartbeat_routed ..))

theorem switchToConfig_routed (cfg : TrackerConfig) (trk : ProgressMap) (s : Raft) : Spec (switchToConfig cfg trk) s (fun _ s' => Routed s s') := by
  unfold switchToConfig
  rel_start
  wp_auto [first | routed_step | rel_loop Routed]
macro_rules | `(tactic| routed_step) => `(tactic| rel_call (switchToConfig_routed ..))

theorem restore_routed (snap : Snapshot) (s : Raft) : Spec (restore snap) s (fun _ s' => Routed s s') := by
  unfold restore
  rel_start
  wp_auto [routed_step]
macro_rules | `(tactic| routed_step) => `(tactic| rel_call (restore_routed ..))

theorem handleSnapshot_routed (m : Message) (s : Raft) : Spec (handleSnapshot m) s (fun _ s' => Routed s s') := by
  unfold handleSnapshot
  rel_start
  wp_auto [routed_step]
macro_rules | `(tactic| routed_step) => `(tactic| rel_call (handleSnapshot_routed ..))

theorem applyConfChange_routed (cc : ConfChangeV2) (s : Raft) : Spec (applyConfChange cc) s (fun _ s' => Routed s s') := by
  unfold applyConfChange
  rel_start
  wp_auto [routed_step]
macro_rules | `(tactic| routed_step) => `(tactic| rel_call (applyConfChange_routed ..))

theorem stepFollower_routed (fuel : Nat) (m : Message) (s : Raft) : Spec (stepFollower fuel m) s (fun _ s' => Routed s s') := by
  rw [stepFollower]
  rel_start
  wp_auto [routed_step]
macro_rules | `(tactic| routed_step) => `(tactic| rel_call (stepFollower_routed ..))

theorem stepCandidate_routed (fuel : Nat) (m : Message) (s : Raft) : Spec (stepCandidate fuel m) s (fun _ s' => Routed s s') := by
  rw [stepCandidate]
  rel_start
  wp_auto [routed_step]
macro_rules | `(tactic| routed_step) => `(tactic| rel_call (stepCandidate_routed ..))

theorem stepLeader_routed (fuel : Nat) (m : Message) (s : Raft) : Spec (stepLeader fuel m) s (fun _ s' => Routed s s') := by
  rw [stepLeader]
  rel_start
  wp_auto [first | routed_step | rel_loop Routed]
macro_rules | `(tactic| routed_step) => `(tactic| rel_call (stepLeader_routed ..))

abbrev StepRoutedAt (fuel : Nat) : Prop :=
  ∀ (m : Message) (s : Raft), Spec (step fuel m) s (fun _ s' => Routed s s')

theorem appliedTo_routed (fuel : Nat) (ih : StepRoutedAt fuel) (i sz : Nat) (s : Raft) :
    Spec (appliedTo fuel i sz) s (fun _ s' => Routed s s') := by
  rw [appliedTo]
  rel_start
  wp_auto [first | routed_step | rel_call (ih ..)]

theorem appliedSnap_routed (fuel : Nat) (ih : StepRoutedAt fuel) (snap : Snapshot) (s : Raft) :
    Spec (appliedSnap fuel snap) s (fun _ s' => Routed s s') := by
  rw [appliedSnap]
  rel_start
  wp_auto [first | routed_step | rel_call (appliedTo_routed _ ih ..)]

theorem step_routed_succ (fuel : Nat) (ih : StepRoutedAt fuel) : StepRoutedAt (fuel + 1) := by
  intro m s
  rw [step]
  rel_start
  wp_auto [first
    | rel_call (appliedTo_routed _ ih ..)
    | rel_call (appliedSnap_routed _ ih ..)
    | routed_step]

/-- **`Step` keeps `Routed`** for every fuel, state and message -/
theorem step_routed : ∀ fuel, StepRoutedAt fuel
  | 0 => by
    intro m s
    rw [step]
    simp only [wp]
  | fuel + 1 => step_routed_succ fuel (step_routed fuel)

theorem step_routed' (fuel : Nat) (m : Message) (s : Raft) :
    Spec (step fuel m) s (fun _ s' => Routed s s') := step_routed fuel m s

theorem tickElection_routed (s : Raft) : Spec tickElection s (fun _ s' => Routed s s') := by
  unfold tickElection
  rel_start
  wp_auto [first | rel_call (step_routed' ..) | routed_step]

theorem tickHeartbeat_routed (s : Raft) : Spec tickHeartbeat s (fun _ s' => Routed s s') := by
  unfold tickHeartbeat
  rel_start
  wp_auto [first | rel_call (step_routed' ..) | routed_step]

theorem tick_routed (s : Raft) : Spec tick s (fun _ s' => Routed s s') := by
  unfold tick
  rel_start
  wp_auto [first | rel_call (tickElection_routed ..) | rel_call (tickHeartbeat_routed ..)]

end Raft

namespace RawNode

theorem runM_routed {α : Type} (rn rn' : RawNode) (draws : List Nat) (act : M α) (a : α)
    (hact : ∀ s, Spec act s (fun _ s' => Routed s s')) (h : rn.runM draws act = .ok (a, rn')) :
    Routed rn.raft rn'.raft := by
  unfold runM at h
  obtain ⟨⟨a', r'⟩, hrun, h⟩ := bind_eq_ok.1 h
  have hg : Routed { rn.raft with draws := draws } r' := (hact _).elim hrun
  have h0 : Routed rn.raft { rn.raft with draws := draws } := Routed.of_commit rfl (Nat.le_refl _) rfl rfl
  by_cases hd : (!r'.draws.isEmpty) = true
  · simp [hd, throw, throwThe, MonadExceptOf.throw, bind, Except.bind] at h
  · simp only [hd, bind, Except.bind, pure, Except.pure] at h
    simp only [Bool.false_eq_true, if_false, Except.ok.injEq, Prod.mk.injEq] at h
    obtain ⟨_, rfl⟩ := h
    exact h0.trans hg

theorem advance_routed (rn rn' : RawNode) (draws : List Nat) (h : rn.advance draws = .ok rn') :
    Routed rn.raft rn'.raft := by
  unfold advance at h
  by_cases ha : rn.async = true
  · simp [ha, throw, throwThe, MonadExceptOf.throw, bind, Except.bind] at h
  · simp only [ha, Bool.false_eq_true, if_false] at h
    obtain ⟨⟨u, rn1⟩, hrun, h⟩ := bind_eq_ok.1 h
    simp only [pure, Except.pure, Except.ok.injEq] at h
    subst h
    refine runM_routed rn rn1 draws _ u ?_ hrun
    intro s
    clear hrun
    rel_start
    simp (config := {zeta := false}) only [wp]
    refine Spec.call (Spec.forIn_rel Routed _ _ _ _ ?_) (by rel_acc) ?_
    · intro m _ mid
      rel_start
      simp (config := {zeta := false}) only [wp]
      rel_call (Raft.step_routed' ..)
      rel_acc
    · intro _ _ _
      wp_auto [fail]

end RawNode
end RaftVerif
