import RaftVerif.Proofs.FlowFrame
import RaftVerif.Props.C16
/-!
# Proofs/FlowLeader — `stepLeader`, one lemma per message type: the frame relation `Flow` holds
between the state before and after.  Core Lean only.
-/
namespace RaftVerif

theorem lookup_map_inv {β : Type} (f : Id × β → Id × β) (hf : ∀ p, (f p).1 = p.1)
    (l : List (Id × β)) (k : Id) (v : β) (h : Quorum.lookup (l.map f) k = some v) :
    ∃ v0, Quorum.lookup l k = some v0 ∧ v = (f (k, v0)).2 := by
  induction l with
  | nil => simp [Quorum.lookup] at h
  | cons a t ih =>
    obtain ⟨ka, va⟩ := a
    rw [List.map_cons] at h
    have hfa : f (ka, va) = (ka, (f (ka, va)).2) := by
      have := hf (ka, va)
      cases hx : f (ka, va) with
      | mk x y => rw [hx] at this; simp at this; subst this; rfl
    rw [hfa, Quorum.lookup] at h
    rw [Quorum.lookup]
    split at h
    · rename_i heq
      have : ka = k := by simpa using heq
      subst this
      injection h with h
      exact ⟨va, by simp, h.symm⟩
    · rename_i hne
      simp only [hne, Bool.false_eq_true, ↓reduceIte]
      exact ih h

/-- general `for` loop with an accumulator -/
theorem forIn_run_rel' {α β : Type} (R : Raft → Raft → Prop) (hrefl : ∀ r, R r r)
    (htrans : ∀ r1 r2 r3, R r1 r2 → R r2 r3 → R r1 r3)
    (f : α → β → M (ForInStep β))
    (hstep : ∀ a b r s r', (f a b).run r = .ok (s, r') → R r r')
    (l : List α) (b : β) (r r' : Raft) (u : β)
    (h : (forIn l b f).run r = .ok (u, r')) : R r r' := by
  induction l generalizing r b with
  | nil =>
    simp only [List.forIn_nil, StateT.run_pure, P_pure_eq] at h
    injection h with h; injection h with _ h; subst h
    exact hrefl r
  | cons a t ih =>
    rw [List.forIn_cons] at h
    obtain ⟨s, r'', hf, h⟩ := bind_ok h
    have h1 := hstep a b r s r'' hf
    cases s with
    | done b' =>
      obtain ⟨_, e⟩ := pure_ok h; subst e
      exact h1
    | yield b' =>
      exact htrans _ _ _ h1 (ih b' r'' h)

namespace Raft

theorem stepLeader_beat_flow (fuel : Nat) (m : Message) (hm : m.typ = .beat) (r r' : Raft)
    (res : Option StepErr) (h : (stepLeader fuel m).run r = .ok (res, r')) : Flow r r' := by
  unfold stepLeader at h
  simp only [hm] at h
  obtain ⟨u1, r1, h1, hA⟩ := bind_ok h
  obtain ⟨_, e⟩ := pure_ok hA; subst e
  exact bcastHeartbeat_flow _ _ _ h1

theorem stepLeader_forgetLeader_flow (fuel : Nat) (m : Message) (hm : m.typ = .forgetLeader) (r r' : Raft)
    (res : Option StepErr) (h : (stepLeader fuel m).run r = .ok (res, r')) : Flow r r' := by
  unfold stepLeader at h
  simp only [hm] at h
  obtain ⟨_, e⟩ := pure_ok h; subst e
  exact Flow.refl _

theorem stepLeader_readIndex_flow (fuel : Nat) (m : Message) (hm : m.typ = .readIndex) (r r' : Raft)
    (res : Option StepErr) (h : (stepLeader fuel m).run r = .ok (res, r')) : Flow r r' := by
  unfold stepLeader at h
  simp only [hm] at h
  obtain ⟨r0, r1, h1, hA⟩ := bind_ok h
  obtain ⟨e0, e1⟩ := get_ok h1; subst e0 e1
  obtain ⟨b, r2, h2, hB⟩ := bind_ok hA
  have e := committedEntryInCurrentTerm_ok h2; subst e
  split at hB
  · obtain ⟨u3, r3, h3, hC⟩ := bind_ok hB
    have e := set_ok h3; subst e
    obtain ⟨_, e⟩ := pure_ok hC; subst e
    exact Flow.frame rfl rfl rfl
  · obtain ⟨u3, r3, h3, hC⟩ := bind_ok hB
    obtain ⟨_, e⟩ := pure_ok hC; subst e
    exact sendMsgReadIndexResponse_flow _ _ _ _ h3


/-- marking every peer inactive (end of a `CheckQuorum` round) does not touch any window -/
theorem markInactive_flow (r : Raft) :
    Flow r { r with trk := { r.trk with progress := r.trk.progress.map fun (id, pr) =>
            if id != r.cfg.id then (id, { pr with recentActive := false }) else (id, pr) } } := by
  refine ⟨⟨rfl, [], by simp, by simp⟩, ?_⟩
  intro hw id pr hg
  unfold Tracker.getProgress mapGet at hg
  obtain ⟨pr0, hg0, hpr⟩ := lookup_map_inv _ (by intro p; obtain ⟨a, b⟩ := p; simp only; split <;> rfl) _ _ _ hg
  have := hw id pr0 hg0
  rw [hpr]
  simp only
  split <;> exact this

theorem stepLeader_checkQuorum_flow (fuel : Nat) (m : Message) (hm : m.typ = .checkQuorum) (r r' : Raft)
    (res : Option StepErr) (h : (stepLeader fuel m).run r = .ok (res, r')) : Flow r r' := by
  unfold stepLeader at h
  simp only [hm] at h
  obtain ⟨r0, r1, h1, hA⟩ := bind_ok h
  obtain ⟨e0, e1⟩ := get_ok h1; subst e0 e1
  split at hA
  · obtain ⟨r0, r3, h3, hC⟩ := bind_ok hA
    obtain ⟨e0, e1⟩ := get_ok h3; subst e0 e1
    obtain ⟨u4, r4, h4, hD⟩ := bind_ok hC
    have f4 := becomeFollower_flow _ _ _ _ _ h4
    obtain ⟨u5, r5, h5, hE⟩ := bind_ok hD
    obtain ⟨_, e⟩ := pure_ok hE; subst e
    have e := modify_ok h5; subst e
    exact f4.trans (markInactive_flow _)
  · obtain ⟨u5, r5, h5, hE⟩ := bind_ok hA
    obtain ⟨_, e⟩ := pure_ok hE; subst e
    have e := modify_ok h5; subst e
    exact markInactive_flow _

theorem stepLeader_prop_flow (fuel : Nat) (m : Message) (hm : m.typ = .prop) (r r' : Raft)
    (res : Option StepErr) (h : (stepLeader fuel m).run r = .ok (res, r')) : Flow r r' := by
  unfold stepLeader at h
  simp only [hm] at h
  obtain ⟨r0, r1, h1, hA⟩ := bind_ok h
  obtain ⟨e0, e1⟩ := get_ok h1; subst e0 e1
  split at hA
  · obtain ⟨u2, r2, h2, hB⟩ := bind_ok hA
    exact (throw_ok h2).elim
  · split at hA
    · obtain ⟨_, e⟩ := pure_ok hA; subst e; exact Flow.refl _
    · split at hA
      · obtain ⟨_, e⟩ := pure_ok hA; subst e; exact Flow.refl _
      · obtain ⟨ents, r2, h2, hB⟩ := bind_ok hA
        have f2 : Flow r1 r2 := by
          refine forIn_run_rel' Flow Flow.refl (fun _ _ _ => Flow.trans) _ ?_ _ _ _ _ _ h2
          intro x s ra st rb hs
          obtain ⟨d, r3, h3, hC⟩ := bind_ok hs
          have e3 : r3 = ra := by
            unfold decodeCC at h3
            split at h3
            · split at h3
              · exact (pure_ok h3).2
              · exact (throw_ok h3).elim
            · split at h3
              · exact (pure_ok h3).2
              · exact (throw_ok h3).elim
            · exact (pure_ok h3).2
          subst e3
          split at hC
          · obtain ⟨_, e⟩ := pure_ok hC; subst e; exact Flow.refl _
          · obtain ⟨r0, r4, h4, hD⟩ := bind_ok hC
            obtain ⟨e0, e1⟩ := get_ok h4; subst e0 e1
            split at hD
            · obtain ⟨_, e⟩ := pure_ok hD; subst e; exact Flow.refl _
            · obtain ⟨u5, r5, h5, hE⟩ := bind_ok hD
              have e := set_ok h5; subst e
              obtain ⟨_, e⟩ := pure_ok hE; subst e
              exact Flow.frame rfl rfl rfl
        obtain ⟨b, r3, h3, hC⟩ := bind_ok hB
        have f3 := appendEntry_flow _ _ _ _ h3
        split at hC
        · obtain ⟨_, e⟩ := pure_ok hC; subst e; exact f2.trans f3
        · obtain ⟨u4, r4, h4, hD⟩ := bind_ok hC
          obtain ⟨_, e⟩ := pure_ok hD; subst e
          exact (f2.trans f3).trans (bcastAppend_appStep _ _ _ h4).toFlow


theorem Flow.setProgress' (r : Raft) (id : Id) (pr0 X : Progress)
    (hg : r.trk.getProgress id = some pr0) (hX : pr0.inflights.WF → X.inflights.WF) :
    Flow r { r with trk := r.trk.setProgress id X } :=
  Flow.setProgress r id X (fun hw => hX (hw id pr0 hg))

theorem wf_becomeProbe (p : Progress) : p.becomeProbe.inflights.WF := by
  exact Inflights.WF_of_count_zero _ (Progress.becomeProbe_spec p).2.2.2.2.1

theorem wf_becomeReplicate (p : Progress) : p.becomeReplicate.inflights.WF := by
  exact Inflights.WF_of_count_zero _ (Progress.becomeReplicate_spec p).2.2.2.2.2.1

theorem maybeDecrTo_inflights (p : Progress) (a b : Nat) : (p.maybeDecrTo a b).1.inflights = p.inflights := by
  unfold Progress.maybeDecrTo
  split
  · split <;> rfl
  · split <;> rfl

theorem maybeUpdate_inflights (p : Progress) (n : Nat) : (p.maybeUpdate n).1.inflights = p.inflights := by
  unfold Progress.maybeUpdate
  split <;> rfl

/-- the common tail of the `MsgAppResp` handler: maybe tell the transferee to campaign -/
macro "tl1 " h:ident : tactic => `(tactic| (
  obtain ⟨_, _, hq1, hq2⟩ := bind_ok $h
  obtain ⟨eq0, eq1⟩ := get_ok hq1; subst eq0 eq1
  obtain ⟨_, _, hq3, hq4⟩ := bind_ok hq2
  obtain ⟨eq2, _⟩ := getPr_ok hq3; subst eq2
  split at hq4
  · obtain ⟨_, _, hq5, hq6⟩ := bind_ok hq4
    obtain ⟨_, eq3⟩ := pure_ok hq6; subst eq3
    exact sendTimeoutNow_flow _ _ _ _ hq5
  · obtain ⟨_, eq3⟩ := pure_ok hq4; subst eq3; exact Flow.refl _))

/-- `for maybeSendAppend {}` followed by `tl1`, or just `tl1` -/
macro "tl2 " h:ident : tactic => `(tactic| (
  split at $h:ident
  · obtain ⟨_, _, hp1, hp2⟩ := bind_ok $h
    obtain ⟨ep0, ep1⟩ := get_ok hp1; subst ep0 ep1
    obtain ⟨_, _, hp3, hp4⟩ := bind_ok hp2
    refine Flow.trans (sendAppendLoop_appStep _ _ _ _ _ hp3).toFlow ?_
    tl1 hp4
  · tl1 $h))

theorem setPr_bind_flow {β : Type} {id : Id} {X : Progress} {f : Unit → M β} {r r' : Raft} {a : β}
    (pr0 : Progress) (h : (setPr id X >>= f).run r = .ok (a, r'))
    (hg : r.trk.getProgress id = some pr0) (hX : pr0.inflights.WF → X.inflights.WF)
    (k : (f ()).run { r with trk := r.trk.setProgress id X } = .ok (a, r') →
      Flow { r with trk := r.trk.setProgress id X } r') : Flow r r' := by
  obtain ⟨u, r1, h1, hA⟩ := bind_ok h
  have e := setPr_ok h1; subst e
  exact (Flow.setProgress' _ id pr0 X hg hX).trans (k hA)

theorem stepLeader_appResp_flow (fuel : Nat) (m : Message) (hm : m.typ = .appResp) (r r' : Raft)
    (res : Option StepErr) (h : (stepLeader fuel m).run r = .ok (res, r')) : Flow r r' := by
  unfold stepLeader at h
  simp only [hm] at h
  obtain ⟨r0, r1, h1, hA⟩ := bind_ok h
  obtain ⟨e0, e1⟩ := get_ok h1; subst e0 e1
  split at hA
  case h_2 => obtain ⟨_, e⟩ := pure_ok hA; subst e; exact Flow.refl _
  rename_i pr hg
  obtain ⟨pr', r2, h2, hB⟩ := bind_ok hA
  obtain ⟨e0, e1⟩ := pure_ok h2; subst e0 e1
  refine setPr_bind_flow pr' hB hg (fun hw => hw) ?_
  intro hC
  split at hC
  · -- rejection
    obtain ⟨r0, r4, h4, hD⟩ := bind_ok hC
    obtain ⟨e0, e1⟩ := get_ok h4; subst e0 e1
    split at hD
    all_goals
      split at hD
      · refine setPr_bind_flow { pr' with recentActive := true } hD (by simp [getProgress_setProgress]) ?_ ?_
        · intro hwf
          split
          · exact wf_becomeProbe _
          · rw [maybeDecrTo_inflights]; exact hwf
        · intro hE
          obtain ⟨u6, r6, h6, hF⟩ := bind_ok hE
          obtain ⟨_, e⟩ := pure_ok hF; subst e
          exact (sendAppend_appStep _ _ _ _ h6).toFlow
      · obtain ⟨_, e⟩ := pure_ok hD; subst e; exact Flow.refl _
  · -- acknowledgement
    refine setPr_bind_flow { pr' with recentActive := true } hC (by simp [getProgress_setProgress]) ?_ ?_
    · intro hwf; rw [maybeUpdate_inflights]; exact hwf
    intro hD
    split at hD
    case isFalse => obtain ⟨_, e⟩ := pure_ok hD; subst e; exact Flow.refl _
    obtain ⟨r0, r5, h5, hE⟩ := bind_ok hD
    obtain ⟨e0, e1⟩ := get_ok h5; subst e0 e1
    refine setPr_bind_flow (({ pr' with recentActive := true } : Progress).maybeUpdate m.index).1 hE
      (by simp [getProgress_setProgress]) ?_ ?_
    · intro hwf
      split
      · exact wf_becomeReplicate _
      · split
        · exact wf_becomeReplicate _
        · split
          · exact Inflights.freeLE_WF _ _ hwf
          · exact hwf
    intro hF
    obtain ⟨b7, r7, h7, hG⟩ := bind_ok hF
    refine Flow.trans (maybeCommit_flow _ _ _ h7) ?_
    split at hG
    · obtain ⟨u8, r8, h8, hH⟩ := bind_ok hG
      refine Flow.trans (releasePendingReadIndexMessages_flow _ _ _ h8) ?_
      obtain ⟨u9, r9, h9, hI⟩ := bind_ok hH
      refine Flow.trans (bcastAppend_appStep _ _ _ h9).toFlow ?_
      tl2 hI
    · obtain ⟨pr8, r8, h8, hH⟩ := bind_ok hG
      obtain ⟨e8, _⟩ := getPr_ok h8; subst e8
      obtain ⟨r0, r9, h9, hI⟩ := bind_ok hH
      obtain ⟨e0, e1⟩ := get_ok h9; subst e0 e1
      split at hI
      · obtain ⟨u10, r10, h10, hJ⟩ := bind_ok hI
        refine Flow.trans (sendAppend_appStep _ _ _ _ h10).toFlow ?_
        tl2 hJ
      · tl2 hI


theorem stepLeader_unreachable_flow (fuel : Nat) (m : Message) (hm : m.typ = .unreachable) (r r' : Raft)
    (res : Option StepErr) (h : (stepLeader fuel m).run r = .ok (res, r')) : Flow r r' := by
  unfold stepLeader at h
  simp only [hm] at h
  obtain ⟨r0, r1, h1, hA⟩ := bind_ok h
  obtain ⟨e0, e1⟩ := get_ok h1; subst e0 e1
  split at hA
  case h_2 => obtain ⟨_, e⟩ := pure_ok hA; subst e; exact Flow.refl _
  rename_i pr hg
  obtain ⟨pr', r2, h2, hB⟩ := bind_ok hA
  obtain ⟨e0, e1⟩ := pure_ok h2; subst e0 e1
  split at hB
  · refine setPr_bind_flow pr' hB hg (fun _ => wf_becomeProbe _) ?_
    intro hC
    obtain ⟨_, e⟩ := pure_ok hC; subst e; exact Flow.refl _
  · obtain ⟨_, e⟩ := pure_ok hB; subst e; exact Flow.refl _

theorem stepLeader_snapStatus_flow (fuel : Nat) (m : Message) (hm : m.typ = .snapStatus) (r r' : Raft)
    (res : Option StepErr) (h : (stepLeader fuel m).run r = .ok (res, r')) : Flow r r' := by
  unfold stepLeader at h
  simp only [hm] at h
  obtain ⟨r0, r1, h1, hA⟩ := bind_ok h
  obtain ⟨e0, e1⟩ := get_ok h1; subst e0 e1
  split at hA
  case h_2 => obtain ⟨_, e⟩ := pure_ok hA; subst e; exact Flow.refl _
  rename_i pr hg
  obtain ⟨pr', r2, h2, hB⟩ := bind_ok hA
  obtain ⟨e0, e1⟩ := pure_ok h2; subst e0 e1
  split at hB
  · obtain ⟨_, e⟩ := pure_ok hB; subst e; exact Flow.refl _
  · refine setPr_bind_flow pr' hB hg ?_ ?_
    · intro _
      split <;> exact wf_becomeProbe _
    · intro hC
      obtain ⟨_, e⟩ := pure_ok hC; subst e; exact Flow.refl _


/-- tail of the `MsgTransferLeader` handler -/
macro "tl3 " h:ident : tactic => `(tactic| (
  split at $h:ident
  · obtain ⟨_, eq3⟩ := pure_ok $h; subst eq3; exact Flow.refl _
  · obtain ⟨_, _, hq1, hq2⟩ := bind_ok $h
    have eq1 := modify_ok hq1; subst eq1
    split at hq2
    · obtain ⟨_, _, hq5, hq6⟩ := bind_ok hq2
      obtain ⟨_, eq3⟩ := pure_ok hq6; subst eq3
      refine Flow.trans ?_ (sendTimeoutNow_flow _ _ _ _ hq5)
      exact Flow.frame rfl rfl rfl
    · obtain ⟨_, _, hq5, hq6⟩ := bind_ok hq2
      obtain ⟨_, eq3⟩ := pure_ok hq6; subst eq3
      refine Flow.trans ?_ (sendAppend_appStep _ _ _ _ hq5).toFlow
      exact Flow.frame rfl rfl rfl))

theorem stepLeader_transferLeader_flow (fuel : Nat) (m : Message) (hm : m.typ = .transferLeader) (r r' : Raft)
    (res : Option StepErr) (h : (stepLeader fuel m).run r = .ok (res, r')) : Flow r r' := by
  unfold stepLeader at h
  simp only [hm] at h
  obtain ⟨r0, r1, h1, hA⟩ := bind_ok h
  obtain ⟨e0, e1⟩ := get_ok h1; subst e0 e1
  split at hA
  case h_2 => obtain ⟨_, e⟩ := pure_ok hA; subst e; exact Flow.refl _
  rename_i pr hg
  obtain ⟨pr', r2, h2, hB⟩ := bind_ok hA
  obtain ⟨e0, e1⟩ := pure_ok h2; subst e0 e1
  split at hB
  · obtain ⟨_, e⟩ := pure_ok hB; subst e; exact Flow.refl _
  · obtain ⟨r0, r3, h3, hC⟩ := bind_ok hB
    obtain ⟨e0, e1⟩ := get_ok h3; subst e0 e1
    split at hC
    · split at hC
      · obtain ⟨_, e⟩ := pure_ok hC; subst e; exact Flow.refl _
      · obtain ⟨u4, r4, h4, hD⟩ := bind_ok hC
        unfold abortLeaderTransfer at h4
        have e := modify_ok h4; subst e
        have ftl : Flow { r3 with leadTransferee := 0 } r' := by tl3 hD
        exact Flow.trans (Flow.frame rfl rfl rfl) ftl
    · tl3 hC

/-- tail of the `MsgHeartbeatResp` handler: read-only bookkeeping -/
macro "tl4 " h:ident : tactic => `(tactic| (
  split at $h:ident
  · obtain ⟨_, eq3⟩ := pure_ok $h; subst eq3; exact Flow.refl _
  · obtain ⟨_, _, hq4, hqF⟩ := bind_ok $h
    obtain ⟨eq0, eq1⟩ := get_ok hq4; subst eq0 eq1
    obtain ⟨_, _, hq5, hqG⟩ := bind_ok hqF
    obtain ⟨_, eq2⟩ := liftP_ok hq5; subst eq2
    obtain ⟨_, _, hq6, hqH⟩ := bind_ok hqG
    obtain ⟨eq4, eq5⟩ := get_ok hq6; subst eq4 eq5
    obtain ⟨_, _, hq7, hqI⟩ := bind_ok hqH
    obtain ⟨_, eq6⟩ := liftP_ok hq7; subst eq6
    obtain ⟨_, _, hq8, hqJ⟩ := bind_ok hqI
    have eq7 := set_ok hq8; subst eq7
    obtain ⟨_, _, hq9, hqK⟩ := bind_ok hqJ
    obtain ⟨_, eq8⟩ := pure_ok hqK; subst eq8
    refine Flow.trans ?_ (forIn_flow _ ?_ _ _ _ _ hq9)
    · exact Flow.frame rfl rfl rfl
    · intro rs ra s rb hs
      obtain ⟨_, _, hq10, hqL⟩ := bind_ok hs
      obtain ⟨_, eq9⟩ := pure_ok hqL; subst eq9
      exact sendReadIndexResp_flow _ _ _ _ _ hq10))

theorem stepLeader_heartbeatResp_flow (fuel : Nat) (m : Message) (hm : m.typ = .heartbeatResp) (r r' : Raft)
    (res : Option StepErr) (h : (stepLeader fuel m).run r = .ok (res, r')) : Flow r r' := by
  unfold stepLeader at h
  simp only [hm] at h
  obtain ⟨r0, r1, h1, hA⟩ := bind_ok h
  obtain ⟨e0, e1⟩ := get_ok h1; subst e0 e1
  split at hA
  case h_2 => obtain ⟨_, e⟩ := pure_ok hA; subst e; exact Flow.refl _
  rename_i pr hg
  obtain ⟨pr', r2, h2, hB⟩ := bind_ok hA
  obtain ⟨e0, e1⟩ := pure_ok h2; subst e0 e1
  refine setPr_bind_flow pr' hB hg (fun hw => hw) ?_
  intro hC
  obtain ⟨r0, r3, h3, hD⟩ := bind_ok hC
  obtain ⟨e0, e1⟩ := get_ok h3; subst e0 e1
  split at hD
  · obtain ⟨u4, r4, h4, hE⟩ := bind_ok hD
    refine Flow.trans (sendAppend_appStep _ _ _ _ h4).toFlow ?_
    tl4 hE
  · tl4 hD


/-- message types `stepLeader` ignores (after looking up the sender's progress) -/
macro "other_tac " h:ident hm:ident : tactic => `(tactic| (
  unfold stepLeader at $h:ident
  simp only [$hm:ident] at $h:ident
  obtain ⟨_, _, hq1, hqA⟩ := bind_ok $h
  obtain ⟨eq0, eq1⟩ := get_ok hq1; subst eq0 eq1
  split at hqA
  · obtain ⟨_, _, hq2, hqB⟩ := bind_ok hqA
    obtain ⟨eq2, eq3⟩ := pure_ok hq2; subst eq2 eq3
    obtain ⟨_, eq4⟩ := pure_ok hqB; subst eq4; exact Flow.refl _
  · obtain ⟨_, eq4⟩ := pure_ok hqA; subst eq4; exact Flow.refl _))

/-- **every** message stepped by a leader keeps the flow-control limits: the configuration is
untouched, `msgs` is only appended to, every appended `MsgApp` carries at most `MaxSizePerMsg` bytes
of entries (or a single entry), and all inflight windows keep `count ≤ size` -/
theorem stepLeader_flow (fuel : Nat) (m : Message) (r r' : Raft) (res : Option StepErr)
    (h : (stepLeader fuel m).run r = .ok (res, r')) : Flow r r' := by
  cases hm : m.typ with
  | beat => exact stepLeader_beat_flow fuel m hm r r' res h
  | checkQuorum => exact stepLeader_checkQuorum_flow fuel m hm r r' res h
  | prop => exact stepLeader_prop_flow fuel m hm r r' res h
  | readIndex => exact stepLeader_readIndex_flow fuel m hm r r' res h
  | forgetLeader => exact stepLeader_forgetLeader_flow fuel m hm r r' res h
  | appResp => exact stepLeader_appResp_flow fuel m hm r r' res h
  | heartbeatResp => exact stepLeader_heartbeatResp_flow fuel m hm r r' res h
  | snapStatus => exact stepLeader_snapStatus_flow fuel m hm r r' res h
  | unreachable => exact stepLeader_unreachable_flow fuel m hm r r' res h
  | transferLeader => exact stepLeader_transferLeader_flow fuel m hm r r' res h
  | hup => other_tac h hm
  | app => other_tac h hm
  | vote => other_tac h hm
  | voteResp => other_tac h hm
  | snap => other_tac h hm
  | heartbeat => other_tac h hm
  | timeoutNow => other_tac h hm
  | readIndexResp => other_tac h hm
  | preVote => other_tac h hm
  | preVoteResp => other_tac h hm
  | storageAppend => other_tac h hm
  | storageAppendResp => other_tac h hm
  | storageApply => other_tac h hm
  | storageApplyResp => other_tac h hm


end Raft
end RaftVerif
