import RaftVerif.Model.Raft
import RaftVerif.Proofs.StepLog
/-!
# Proofs/SimLog — `Settled`: between two rounds of the sync-mode application loop nothing is pending in `unstable`
-/
namespace RaftVerif.Sim

/-- no pending snapshot, and no unstable entry has been handed out without having been acknowledged
(`offsetInProgress = offset`).  Holds between `syncRound`s; kept by every `Step` that is not a MsgSnap or a
storage acknowledgement (`unstable` is only touched by `truncateAndAppend`, which keeps it). -/
def Settled (r : Raft) : Prop :=
  r.log.unstable.snapshot = none ∧ r.log.unstable.offsetInProgress = r.log.unstable.offset

theorem Settled.congr {r r' : Raft} (h : Settled r) (hu : r'.log.unstable = r.log.unstable) : Settled r' := by
  unfold Settled; rw [hu]; exact h

/-- `truncateAndAppend` keeps the shape -/
theorem truncateAndAppend_settled {u u' : Unstable} {ents : List Entry} (h1 : u.snapshot = none)
    (h2 : u.offsetInProgress = u.offset) (h : u.truncateAndAppend ents = .ok u') :
    u'.snapshot = none ∧ u'.offsetInProgress = u'.offset := by
  unfold Unstable.truncateAndAppend at h
  cases ents with
  | nil => cases h
  | cons e0 rest =>
    simp only at h
    split at h
    · injection h with h; subst h; exact ⟨h1, h2⟩
    · split at h
      · injection h with h; subst h; exact ⟨h1, rfl⟩
      · rename_i hne hgt
        cases hk : u.slice u.offset e0.index with
        | error e => rw [hk] at h; cases h
        | ok keep =>
          rw [hk] at h
          injection h with h; subst h
          refine ⟨h1, ?_⟩
          show min u.offsetInProgress e0.index = u.offset
          rw [h2]
          have : u.offset ≤ e0.index := by omega
          exact Nat.min_eq_left this

/-- the `Settled` shape of a `raftLog` -/
def LSettled (l : RaftLog) : Prop :=
  l.unstable.snapshot = none ∧ l.unstable.offsetInProgress = l.unstable.offset

theorem commitTo_unstable' {l l' : RaftLog} {c : Nat} (h : l.commitTo c = .ok l') : l'.unstable = l.unstable := by
  unfold RaftLog.commitTo at h
  split at h
  · split at h
    · cases h
    · injection h with h; subst h; rfl
  · injection h with h; subst h; rfl

theorem append_settled {l l' : RaftLog} {ents : List Entry} {li : Nat} (hs : LSettled l)
    (h : l.append ents = .ok (l', li)) : LSettled l' := by
  unfold RaftLog.append at h
  cases ents with
  | nil => injection h with h; injection h with h1 _; subst h1; exact hs
  | cons e0 rest =>
    simp only at h
    split at h
    · cases h
    · cases hk : l.unstable.truncateAndAppend (e0 :: rest) with
      | error e => simp [hk, bind, Except.bind] at h
      | ok u =>
        simp only [hk, bind, Except.bind, pure, Except.pure, Except.ok.injEq, Prod.mk.injEq] at h
        obtain ⟨rfl, _⟩ := h
        exact truncateAndAppend_settled hs.1 hs.2 hk

theorem maybeAppend_settled {l l' : RaftLog} {prev : EntryID} {ents : List Entry} {c : Nat} {res : Option Nat}
    (hs : LSettled l) (h : l.maybeAppend prev ents c = .ok (l', res)) : LSettled l' := by
  unfold RaftLog.maybeAppend at h
  by_cases hm : (!l.matchTerm prev) = true
  · simp only [hm, if_true, pure, Except.pure, Except.ok.injEq, Prod.mk.injEq] at h
    rw [← h.1]; exact hs
  · rw [if_neg hm] at h
    by_cases hc : (l.findConflict ents == 0) = true
    · rw [if_pos hc] at h
      obtain ⟨l1, hl1, h⟩ := bind_eq_ok.1 h
      obtain ⟨l2, hl2, h⟩ := bind_eq_ok.1 h
      simp only [pure, Except.pure, Except.ok.injEq, Prod.mk.injEq] at h hl1
      rw [← h.1]
      unfold LSettled
      rw [commitTo_unstable' hl2, ← hl1]
      exact hs
    · rw [if_neg hc] at h
      by_cases hc2 : l.findConflict ents ≤ l.committed
      · rw [if_pos hc2] at h
        obtain ⟨l1, hl1, h⟩ := bind_eq_ok.1 h
        simp [throw, throwThe, MonadExceptOf.throw] at hl1
      · rw [if_neg hc2] at h
        by_cases hc3 : usub (l.findConflict ents) (prev.index + 1) > ents.length
        · rw [if_pos hc3] at h
          obtain ⟨l1, hl1, h⟩ := bind_eq_ok.1 h
          simp [throw, throwThe, MonadExceptOf.throw] at hl1
        · rw [if_neg hc3] at h
          obtain ⟨⟨l3, li⟩, hp, h⟩ := bind_eq_ok.1 h
          obtain ⟨l1, hl1, h⟩ := bind_eq_ok.1 h
          obtain ⟨l2, hl2, h⟩ := bind_eq_ok.1 h
          simp only [pure, Except.pure, Except.ok.injEq, Prod.mk.injEq] at h hl1
          rw [← h.1]
          unfold LSettled
          rw [commitTo_unstable' hl2, ← hl1]
          exact append_settled hs hp

end RaftVerif.Sim
