import RaftVerif.Spec.Reconf
import RaftVerif.Props.C13
/-!
# Proofs/RefineRConf — the configuration abstraction `absConf` (model tracker ↦ `SpecR.Conf`)

* `absConfC cfg = (cfg.voters, cfg.outgoing.getD [])`, `absConf t = absConfC t.cfg`: the model keeps voter
  sets as strictly ascending lists (`ConfWF`), so no sorting is needed; learners are dropped.
* `isQuorum` of SpecR agrees with the model's `jointVote … = .won` (item 1).
* the three Changer operations yield `Conf.allowed` successors (item 2).
-/
namespace RaftVerif.RefineR
open RaftVerif.Quorum

/-- configuration abstraction on a `TrackerConfig`: (incoming voters, outgoing voters) -/
def absConfC (cfg : TrackerConfig) : SpecR.Conf := (cfg.voters, cfg.outgoing.getD [])

/-- configuration abstraction of a tracker -/
def absConf (t : Tracker) : SpecR.Conf := absConfC t.cfg

@[simp] theorem absConf_fst (t : Tracker) : (absConf t).1 = t.cfg.voters := rfl
@[simp] theorem absConf_snd (t : Tracker) : (absConf t).2 = t.outgoingL := rfl
@[simp] theorem absConfC_fst (c : TrackerConfig) : (absConfC c).1 = c.voters := rfl
@[simp] theorem absConfC_snd (c : TrackerConfig) : (absConfC c).2 = c.outgoing.getD [] := rfl

/-- the vote assignment in which exactly the members of `q` said yes (nobody said no) -/
def votesOf (q : List Nat) : Id → Option Bool := fun id => if q.contains id then some true else none

theorem votesOf_yes (q : List Nat) (id : Id) : votesOf q id = some true ↔ id ∈ q := by
  unfold votesOf
  by_cases h : q.contains id = true
  · simp [List.contains_iff_mem.mp h]
  · have : id ∉ q := fun hm => h (List.contains_iff_mem.mpr hm)
    simp [this]

theorem majority_iff (V A : List Nat) :
    SpecR.majority V A = true ↔ V.length < 2 * V.countP (fun id => A.contains id) := by
  unfold SpecR.majority
  exact decide_eq_true_iff

/-- `yesCount` only depends on who said yes -/
theorem yesCount_eq_countP (c q : List Nat) (votes : Id → Option Bool)
    (hv : ∀ id, votes id = some true ↔ id ∈ q) :
    yesCount c votes = c.countP (fun id => q.contains id) := by
  unfold yesCount
  apply List.countP_congr
  intro id _
  have := hv id
  constructor
  · intro h
    have h' : votes id = some true := by simpa using h
    exact List.contains_iff_mem.mpr (this.mp h')
  · intro h
    have := this.mpr (List.contains_iff_mem.mp h)
    simp [this]

/-- a non-empty voter set is won exactly by a strict majority inside `q` -/
theorem majorityVote_won_iff (c q : List Nat) (votes : Id → Option Bool)
    (hv : ∀ id, votes id = some true ↔ id ∈ q) :
    majorityVote c votes = .won ↔ c = [] ∨ SpecR.majority c q = true := by
  rw [(majority_vote_spec c votes).1, majority_iff, yesCount_eq_countP c q votes hv]

/-- **item 1, exact form**: SpecR's quorum predicate on `absConf` is the model's joint vote, except that
SpecR refuses an empty incoming voter set (which the model's `majorityVote [] = won` accepts; excluded by
`ConfInvStrong.votersNe`) -/
theorem isQuorum_iff_jointVote (c0 c1 q : List Nat) (votes : Id → Option Bool)
    (hv : ∀ id, votes id = some true ↔ id ∈ q) :
    SpecR.Conf.isQuorum (c0, c1) q = true ↔ c0 ≠ [] ∧ jointVote c0 c1 votes = .won := by
  rw [(joint_vote_spec c0 c1 votes).1, majorityVote_won_iff c0 q votes hv, majorityVote_won_iff c1 q votes hv]
  unfold SpecR.Conf.isQuorum
  simp only [Bool.and_eq_true, Bool.or_eq_true, List.isEmpty_iff]
  constructor
  · rintro ⟨h1, h2⟩
    refine ⟨?_, Or.inr h1, h2⟩
    intro e
    rw [e] at h1
    simp [SpecR.majority] at h1
  · rintro ⟨hne, h1, h2⟩
    exact ⟨h1.resolve_left hne, h2⟩

/-- item 1 on a tracker, with the canonical vote assignment `votesOf q` -/
theorem absConf_isQuorum_iff (t : Tracker) (q : List Nat) :
    (absConf t).isQuorum q = true ↔
      t.cfg.voters ≠ [] ∧ jointVote t.cfg.voters t.outgoingL (votesOf q) = .won :=
  isQuorum_iff_jointVote t.cfg.voters t.outgoingL q (votesOf q) (votesOf_yes q)

/-- item 1, spelled out as strict majorities -/
theorem absConf_isQuorum_majorities (t : Tracker) (q : List Nat) :
    (absConf t).isQuorum q = true ↔
      t.cfg.voters.length < 2 * t.cfg.voters.countP (fun id => q.contains id) ∧
      (t.outgoingL = [] ∨ t.outgoingL.length < 2 * t.outgoingL.countP (fun id => q.contains id)) := by
  unfold SpecR.Conf.isQuorum
  simp only [Bool.and_eq_true, Bool.or_eq_true, List.isEmpty_iff, majority_iff, absConf_fst, absConf_snd]

/-! ## item 2: the Changer produces `allowed` transitions -/

theorem diffAtMostOne_iff (V V' : List Nat) : SpecR.diffAtMostOne V V' = true ↔ symdiff V V' ≤ 1 := by
  unfold SpecR.diffAtMostOne symdiff
  rw [decide_eq_true_iff, List.countP_eq_length_filter, List.countP_eq_length_filter]

/-- `Conf.allowed` as a proposition: the new incoming half is non-empty and duplicate-free, and the step is
a simple change, an entry into, or an exit from a joint configuration -/
theorem allowed_iff (c c' : SpecR.Conf) :
    c.allowed c' = true ↔
      c'.1 ≠ [] ∧ c'.1.Nodup ∧
      ((c.2 = [] ∧ c'.2 = [] ∧ symdiff c.1 c'.1 ≤ 1) ∨ (c.2 = [] ∧ c'.2 = c.1) ∨
       (c.2 ≠ [] ∧ c'.1 = c.1 ∧ c'.2 = [])) := by
  unfold SpecR.Conf.allowed
  simp only [Bool.and_eq_true, Bool.or_eq_true, Bool.not_eq_true', List.isEmpty_eq_false_iff,
    List.isEmpty_iff, decide_eq_true_iff, diffAtMostOne_iff, beq_iff_eq, ne_eq]
  constructor
  · rintro ⟨⟨h1, h2⟩, h3⟩
    exact ⟨h1, h2, by rcases h3 with (⟨⟨a, b⟩, d⟩ | ⟨a, b⟩) | ⟨⟨a, b⟩, d⟩ <;> simp_all⟩
  · rintro ⟨h1, h2, h3⟩
    refine ⟨⟨h1, h2⟩, ?_⟩
    rcases h3 with ⟨a, b, d⟩ | ⟨a, b⟩ | ⟨a, b, d⟩
    · exact Or.inl (Or.inl ⟨⟨a, b⟩, d⟩)
    · exact Or.inl (Or.inr ⟨a, b⟩)
    · exact Or.inr ⟨⟨a, b⟩, d⟩

theorem symdiff_self (V : List Nat) : symdiff V V = 0 := by
  have : List.countP (fun id => !V.contains id) V = 0 := by
    rw [List.countP_eq_zero]
    intro a ha
    simp [ha]
  unfold symdiff
  rw [this]

/-- a change that leaves the voters alone (adding / removing / promoting learners) is an allowed (stuttering)
simple transition of a non-joint configuration -/
theorem allowed_refl (c : SpecR.Conf) (h1 : c.1 ≠ []) (h2 : c.1.Nodup) (h3 : c.2 = []) :
    c.allowed c = true :=
  (allowed_iff c c).mpr ⟨h1, h2, Or.inl ⟨h3, h3, by rw [symdiff_self]; omega⟩⟩

end RaftVerif.RefineR
