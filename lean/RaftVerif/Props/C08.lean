import RaftVerif.Proofs.LogStream
import RaftVerif.Proofs.LogRawNode
import RaftVerif.Props.C18
/-!
# C08  Apply stream is gap-free, ordered, exactly-once and within commit

Property theorems only (helpers in `Proofs/LogApply.lean`, `Proofs/LogStream.lean`; the invariant
`RaftLog.WF` and the abstraction `RaftLog.abs` in `Proofs/LogInv.lean`).

`RaftLog.WF` contains `budget : applyingEntsPaused = false → applyingEntsSize < maxApplyingEntsSize`,
which holds for a fresh log iff `0 < maxApplyingEntsSize` (`newLog_wf`) and is kept by every operation.
-/
namespace RaftVerif.C08
open RaftVerif.C18 (ent exStorage exLog exLogSnap)

/-- a fresh `raftLog` over a well-formed storage satisfies the invariant iff the size limit is positive -/
theorem newLog_wf {ms : MemoryStorage} (h : ms.WF) (maxSize : Nat) :
    (RaftLog.new ms maxSize).WF ↔ 0 < maxSize := by
  have hl := MemoryStorage.lastIndex_abs h
  have hb : ms.abs.base ≤ ms.abs.last := by simp [ALog.last]
  rw [MemoryStorage.abs_base] at hb
  constructor
  · intro hw; exact hw.budget rfl
  · intro hpos
    have hli : (RaftLog.new ms maxSize).lastIndex = ms.lastIndex := by
      simp [RaftLog.new, RaftLog.lastIndex, Unstable.maybeLastIndex]
    refine ⟨h, ⟨Contig.nil _, Nat.le_refl _, Nat.le_refl _, trivial⟩, ?_, Nat.le_refl _, Nat.le_refl _, ?_,
      fun _ => hpos⟩
    · simp only [RaftLog.SnapOK, RaftLog.new, MemoryStorage.firstIndex]
      exact ⟨by omega, Nat.le_refl _, by first | trivial | (intro _; rfl), by omega⟩
    · rw [hli]; simp only [RaftLog.new, MemoryStorage.firstIndex]; omega

/-- **never panics**: under the invariant `nextCommittedEnts` returns `nextBatch` (defined from the
abstract log).  Which hypothesis excludes which panic site is listed at
`RaftLog.nextCommittedEnts_eq`: `budget` ↦ "applying entry size not positive"; `snapOK` +
`appliedLeApplying` ↦ `ErrCompacted` ("unexpected error when getting unapplied entries");
`committedLeLast` ↦ `slice` "out of bound"; `unstable`, `storage`, `snapOK` ↦ the panics inside
`unstable.slice` / `storage.Entries`. -/
theorem nextCommittedEnts_total {l : RaftLog} (h : l.WF) (allowUnstable : Bool) :
    l.nextCommittedEnts allowUnstable = .ok (l.nextBatch allowUnstable) :=
  RaftLog.nextCommittedEnts_eq h allowUnstable

/-- the `budget` clause of the invariant is exactly what keeps the first panic site silent: without
remaining budget (and not paused, no snapshot pending, something appliable) Go panics -/
theorem nextCommittedEnts_panics_without_budget (l : RaftLog) (allowUnstable : Bool)
    (hp : l.applyingEntsPaused = false) (hs : l.unstable.snapshot = none)
    (hlt : l.applying < l.maxAppliableIndex allowUnstable)
    (hb : l.applyingEntsSize = l.maxApplyingEntsSize) :
    l.nextCommittedEnts allowUnstable = .error "nextCommittedEnts: applying entry size not positive" := by
  unfold RaftLog.nextCommittedEnts RaftLog.hasNextOrInProgressSnapshot
  rw [if_neg (by simp [hp]), if_neg (by simp [hs])]
  simp only
  rw [if_neg (by omega)]
  have : usub l.maxApplyingEntsSize l.applyingEntsSize = 0 := by
    unfold usub; rw [hb, if_pos (Nat.le_refl _)]; omega
  rw [this]
  rfl

/-- **empty exactly when** applying is paused, a snapshot is pending (next or in progress), or nothing
appliable lies beyond `applying`; `hasNextCommittedEnts` says exactly that -/
theorem nextCommittedEnts_empty_iff {l : RaftLog} (h : l.WF) (allowUnstable : Bool) :
    (l.nextCommittedEnts allowUnstable = .ok [] ↔
      (l.applyingEntsPaused = true ∨ l.unstable.snapshot.isSome = true ∨
        l.maxAppliableIndex allowUnstable ≤ l.applying)) ∧
    (l.hasNextCommittedEnts allowUnstable = true ↔ l.nextCommittedEnts allowUnstable ≠ .ok []) := by
  rw [RaftLog.nextCommittedEnts_eq h, RaftLog.hasNextCommittedEnts_iff h]
  constructor
  · rw [← RaftLog.nextBatch_eq_nil_iff h]
    constructor
    · intro hh; injection hh
    · intro hh; rw [hh]
  · constructor
    · intro hh hc; injection hc with hc; exact hh hc
    · intro hh hc; apply hh; rw [hc]

/-- **the batch**: if not empty it is exactly the entries of the log at indexes `applying+1 … k` for
`k = applying + length`, with `k ≤ maxAppliableIndex ≤ committed`: contiguous, ascending, starting right
after `applying`, nothing beyond commit -/
theorem nextCommittedEnts_batch {l : RaftLog} (h : l.WF) (allowUnstable : Bool) {es : List Entry}
    (hok : l.nextCommittedEnts allowUnstable = .ok es) (hne : es ≠ []) :
    l.applying + es.length ≤ l.maxAppliableIndex allowUnstable ∧
    l.maxAppliableIndex allowUnstable ≤ l.committed ∧
    es = l.abs.slice (l.applying + 1) (l.applying + es.length + 1) ∧
    Contig (l.applying + 1) es ∧
    l.abs.first ≤ l.applying + 1 ∧ l.applying + es.length ≤ l.abs.last := by
  rw [RaftLog.nextCommittedEnts_eq h] at hok
  injection hok with hok
  subst hok
  obtain ⟨h1, h2⟩ := RaftLog.nextBatch_slice h allowUnstable hne
  have hm := RaftLog.maxAppliableIndex_le_committed l allowUnstable
  have hcl := h.committedLeLast
  rw [RaftLog.lastIndex_abs h] at hcl
  have hc := (not_congr (RaftLog.nextBatch_eq_nil_iff h allowUnstable)).mp hne
  have hsn : l.unstable.snapshot = none := by
    cases hs : l.unstable.snapshot with
    | none => rfl
    | some s => exfalso; apply hc; right; left; simp [hs]
  have hba := RaftLog.abs_base_le_applying h hsn
  exact ⟨h1, hm, h2, RaftLog.nextBatch_contig h allowUnstable, by unfold ALog.first; omega, by omega⟩

/-- **size limit**: the batch is within the remaining budget `maxApplyingEntsSize - applyingEntsSize`
or is a single entry; and it is maximal: if an appliable entry was left out, including the next one
would exceed the budget -/
theorem nextCommittedEnts_size {l : RaftLog} (h : l.WF) (allowUnstable : Bool) {es : List Entry}
    (hok : l.nextCommittedEnts allowUnstable = .ok es) :
    (entsSize es ≤ l.maxApplyingEntsSize - l.applyingEntsSize ∨ es.length = 1) ∧
    (es ≠ [] → l.applying + es.length < l.maxAppliableIndex allowUnstable →
      l.maxApplyingEntsSize - l.applyingEntsSize <
        entsSize (l.abs.slice (l.applying + 1) (l.applying + es.length + 2))) := by
  rw [RaftLog.nextCommittedEnts_eq h] at hok
  injection hok with hok
  subst hok
  exact ⟨RaftLog.nextBatch_size l allowUnstable, fun hne hlt => RaftLog.nextBatch_maximal h allowUnstable hne hlt⟩

/-- **only durable entries** with `allowUnstable = false` (asynchronous storage writes): every returned
index is below `unstable.offset`, i.e. the entry is in stable storage -/
theorem nextCommittedEnts_stable_only {l : RaftLog} (h : l.WF) {es : List Entry}
    (hok : l.nextCommittedEnts false = .ok es) (e : Entry) (he : e ∈ es) :
    e.index < l.unstable.offset ∧ l.storage.abs.entry? e.index = some e := by
  rw [RaftLog.nextCommittedEnts_eq h] at hok
  injection hok with hok
  subst hok
  have hlt := RaftLog.nextBatch_stable h e he
  refine ⟨hlt, ?_⟩
  have hne : l.nextBatch false ≠ [] := by intro h0; rw [h0] at he; simp at he
  have hc := (not_congr (RaftLog.nextBatch_eq_nil_iff h false)).mp hne
  have hsn : l.unstable.snapshot = none := by
    cases hs : l.unstable.snapshot with
    | none => rfl
    | some s => exfalso; apply hc; right; left; simp [hs]
  have hba := RaftLog.abs_base_le_applying h hsn
  obtain ⟨h1, h2⟩ := RaftLog.nextBatch_slice h false hne
  have hcont := RaftLog.nextBatch_contig h false
  obtain ⟨k, hk, rfl⟩ := List.getElem_of_mem he
  have hidx := hcont k hk
  have hget : (l.nextBatch false)[k]? = some (l.nextBatch false)[k] := List.getElem?_eq_getElem hk
  rw [← RaftLog.abs_entry?_of_lt h hsn hlt, hidx]
  have := ALog.slice_getElem? l.abs (lo := l.applying + 1) (hi := l.applying + (l.nextBatch false).length + 1)
    (by unfold ALog.first; omega) k (by omega)
  rw [← this, ← h2, hget]

/-- no entries are handed out while a snapshot is pending (not yet handed out, or being installed) -/
theorem nextCommittedEnts_snapshot_pending {l : RaftLog} (h : l.WF) (allowUnstable : Bool)
    (hs : l.unstable.snapshot.isSome = true) : l.nextCommittedEnts allowUnstable = .ok [] :=
  ((nextCommittedEnts_empty_iff h allowUnstable).1).mpr (Or.inr (Or.inl hs))

/-- no entries are handed out while applying is paused -/
theorem nextCommittedEnts_paused {l : RaftLog} (h : l.WF) (allowUnstable : Bool)
    (hp : l.applyingEntsPaused = true) : l.nextCommittedEnts allowUnstable = .ok [] :=
  ((nextCommittedEnts_empty_iff h allowUnstable).1).mpr (Or.inl hp)

/-- **acceptApplying** with the last index of the batch (as `RawNode.acceptReady` calls it) does not
panic, moves `applying` exactly there and keeps the invariant -/
theorem acceptApplying_batch {l : RaftLog} (h : l.WF) (allowUnstable : Bool) {es : List Entry} {last : Entry}
    (hok : l.nextCommittedEnts allowUnstable = .ok es) (hl : es.getLast? = some last) :
    ∃ l', l.acceptApplying last.index (entsSize es) allowUnstable = .ok l' ∧ l'.WF ∧
      l'.applying = l.applying + es.length ∧ l'.applying = last.index ∧
      l'.applied = l.applied ∧ l'.committed = l.committed ∧
      l'.storage = l.storage ∧ l'.unstable = l.unstable ∧
      l'.applyingEntsSize = l.applyingEntsSize + entsSize es ∧
      (l'.applyingEntsPaused = true ↔
        (l.maxApplyingEntsSize ≤ l.applyingEntsSize + entsSize es ∨ last.index < l.maxAppliableIndex allowUnstable)) := by
  rw [RaftLog.nextCommittedEnts_eq h] at hok
  injection hok with hok
  subst hok
  have hne : l.nextBatch allowUnstable ≠ [] := by intro h0; rw [h0] at hl; cases hl
  have hli := RaftLog.nextBatch_getLast h allowUnstable hl
  have hk := (RaftLog.nextBatch_slice h allowUnstable hne).1
  have hm := RaftLog.maxAppliableIndex_le_committed l allowUnstable
  have haa := h.appliedLeApplying
  cases hacc : l.acceptApplying last.index (entsSize (l.nextBatch allowUnstable)) allowUnstable with
  | error m =>
    exfalso
    have := (RaftLog.acceptApplying_panics_iff l _ _ allowUnstable).mp ⟨m, hacc⟩
    omega
  | ok l1 =>
    obtain ⟨hwf, ha, hap, hc, hs, hu⟩ := RaftLog.acceptApplying_wf h (by omega) hacc
    refine ⟨l1, rfl, hwf, by omega, ha, hap, hc, hs, hu, ?_, ?_⟩
    · rw [RaftLog.acceptApplying_eq, if_neg (by omega)] at hacc
      injection hacc with hacc; subst hacc; rfl
    · rw [RaftLog.acceptApplying_eq, if_neg (by omega)] at hacc
      injection hacc with hacc; subst hacc
      simp

/-- `acceptApplying` in general: panics iff `i > committed`; keeps the invariant for `applied ≤ i` -/
theorem acceptApplying_spec {l : RaftLog} (h : l.WF) (i size : Nat) (allowUnstable : Bool) :
    ((∃ m, l.acceptApplying i size allowUnstable = .error m) ↔ l.committed < i) ∧
    (∀ l', l.applied ≤ i → l.acceptApplying i size allowUnstable = .ok l' → l'.WF ∧ l'.applying = i) :=
  ⟨RaftLog.acceptApplying_panics_iff l i size allowUnstable,
   fun _ hi hok => ⟨(RaftLog.acceptApplying_wf h hi hok).1, (RaftLog.acceptApplying_wf h hi hok).2.1⟩⟩

/-- **appliedTo**: panics iff `i` is outside `[applied, committed]`; otherwise keeps the invariant,
sets `applied := i`, never moves `applying` backwards (`applying := max applying i`), decreases the
in-flight size (saturating at 0) and pauses/un-pauses exactly as Go does:
`applyingEntsPaused := applyingEntsSize ≥ maxApplyingEntsSize` for the new size -/
theorem appliedTo_spec {l : RaftLog} (h : l.WF) (i size : Nat) :
    ((∃ m, l.appliedTo i size = .error m) ↔ (l.committed < i ∨ i < l.applied)) ∧
    (∀ l', l.appliedTo i size = .ok l' →
      l'.WF ∧ l'.applied = i ∧ l'.applying = max l.applying i ∧ l.applying ≤ l'.applying ∧
      l'.committed = l.committed ∧ l'.storage = l.storage ∧ l'.unstable = l.unstable ∧
      l'.applyingEntsSize = l.applyingEntsSize - size ∧
      (l'.applyingEntsPaused = true ↔ l.maxApplyingEntsSize ≤ l.applyingEntsSize - size)) :=
  ⟨RaftLog.appliedTo_panics_iff l i size, fun _ hok => RaftLog.appliedTo_wf h hok⟩

/-- `maxAppliableIndex`: `committed` when unstable entries may be applied, otherwise additionally
capped strictly below `unstable.offset` -/
theorem maxAppliableIndex_spec {l : RaftLog} (h : l.WF) :
    l.maxAppliableIndex true = l.committed ∧
    l.maxAppliableIndex false = min l.committed (l.unstable.offset - 1) ∧
    0 < l.unstable.offset :=
  ⟨rfl, RaftLog.maxAppliableIndex_false h, by have := RaftLog.abs_base_lt_offset h; omega⟩

/-! ## the stream over a sequence of operations

`ApplyOp.ready au` is `nextCommittedEnts(au)` followed by `acceptApplying(last.index, size, au)` when the
batch is non-empty (exactly what `RawNode.readyWithoutAccept`/`acceptReady` do with
`au = !asyncStorageWrites`); `ApplyOp.applied i size` is `appliedTo`; `ApplyOp.commit c` is `commitTo`;
`ApplyOp.restore s` is a snapshot arriving (`raftLog.restore(s)` if `s.index > committed`, else ignored);
`ApplyOp.snapInstalled` is the pending snapshot being installed (storage `ApplySnapshot`, then
`stableSnapTo(s.index); appliedTo(s.index, 0)` as `raft.appliedSnap` does).
`RaftLog.applyRun l ops` runs a list of them and returns the final log and the concatenation of the
batches. -/

/-- `Ready`+accept never panics under the invariant -/
theorem applyStep_ready_total {l : RaftLog} (h : l.WF) (au : Bool) :
    ∃ l1, l.applyStep (.ready au) = .ok (l1, l.nextBatch au) ∧ l1.WF ∧
      l1.applying = l.applying + (l.nextBatch au).length ∧ l1.committed = l.committed ∧
      l1.applied = l.applied ∧ l1.storage = l.storage ∧ l1.unstable = l.unstable :=
  RaftLog.applyStep_ready h au

/-- **applyStream (ordered, exactly-once, within commit)**: for every sequence of operations that does
not panic, the invariant holds at the end, `applying` and `committed` only moved forward, and the
concatenation of all batches is strictly ascending in index (so no index is delivered twice), lies in
`(applying₀, applying']`, and `applying' ≤ committed'`.  `appliedTo(i)` with `i > applying` (snapshot
installed) is allowed here: it makes the stream skip to `i + 1`. -/
theorem applyStream {l : RaftLog} (h : l.WF) (ops : List ApplyOp) {l' : RaftLog} {stream : List Entry}
    (hok : l.applyRun ops = .ok (l', stream)) :
    l'.WF ∧ l.applying ≤ l'.applying ∧ l.committed ≤ l'.committed ∧
      stream.Pairwise (fun a b => a.index < b.index) ∧
      (∀ e ∈ stream, l.applying < e.index ∧ e.index ≤ l'.applying) ∧ l'.applying ≤ l'.committed :=
  RaftLog.applyRun_spec h ops hok

/-- **snapshots between batches**: a snapshot arriving or being installed hands out nothing, keeps the
invariant, and only moves cursors forward; installing the pending snapshot `s` makes
`applied = s.index`, `applying = max applying s.index` — so the next batch starts right after the
installed snapshot — and until then `nextCommittedEnts` returns nothing
(`nextCommittedEnts_snapshot_pending`). -/
theorem applyStep_snapshot {l : RaftLog} (h : l.WF) (op : ApplyOp)
    (hop : (∃ s, op = .restore s) ∨ op = .snapInstalled) {l1 : RaftLog} {b : List Entry}
    (hok : l.applyStep op = .ok (l1, b)) :
    l1.WF ∧ b = [] ∧ l.applying ≤ l1.applying ∧ l.committed ≤ l1.committed ∧
    (op = .snapInstalled → (l1 = l ∨ ∃ s, l.unstable.snapshot = some s ∧ l1.applying = max l.applying s.index ∧
      l1.unstable.snapshot = none ∧ l1.applied = s.index)) :=
  RaftLog.applyStep_snap h op hop hok

/-- **restart**: a node restarted on storage `ms` with `HardState.Commit = c` and `Config.Applied = a`
(`newLog`, `commitTo(c)`, `appliedTo(a, 0)`, as `newRaft` does) never hands out an index `≤ a`, and
whatever it hands out afterwards is ordered, exactly-once and within commit. -/
theorem applyStream_restart {ms : MemoryStorage} (h : ms.WF) (maxSize : Nat) (hpos : 0 < maxSize) (c a : Nat)
    (ops : List ApplyOp) {l' : RaftLog} {stream : List Entry}
    (hok : (RaftLog.new ms maxSize).applyRun (.commit c :: .applied a 0 :: ops) = .ok (l', stream)) :
    l'.WF ∧ stream.Pairwise (fun x y => x.index < y.index) ∧
    (∀ e ∈ stream, a < e.index ∧ e.index ≤ l'.applying) ∧ l'.applying ≤ l'.committed := by
  have hw0 := (newLog_wf h maxSize).mpr hpos
  obtain ⟨l1, b1, bs1, hs1, hr1, rfl⟩ := RaftLog.applyRun_cons hok
  obtain ⟨hw1, hc1, _, _, _, _⟩ := RaftLog.applyStep_spec hw0 _ hs1
  obtain ⟨l2, b2, bs2, hs2, hr2, rfl⟩ := RaftLog.applyRun_cons hr1
  obtain ⟨hw2, hc2, _, _, _, ha2⟩ := RaftLog.applyStep_spec hw1 _ hs2
  simp only at ha2
  obtain ⟨hw', _, _, hpw, hrange, hac⟩ := RaftLog.applyRun_spec hw2 ops hr2
  have hb1 : b1 = [] := by
    simp only [RaftLog.applyStep, bind, Except.bind] at hs1
    cases hx : (RaftLog.new ms maxSize).commitTo c with
    | error m => rw [hx] at hs1; cases hs1
    | ok x =>
      rw [hx] at hs1
      simp only [pure, Except.pure, Except.ok.injEq, Prod.mk.injEq] at hs1
      exact hs1.2.symm
  have hb2 : b2 = [] := by
    simp only [RaftLog.applyStep, bind, Except.bind] at hs2
    cases hx : l1.appliedTo a 0 with
    | error m => rw [hx] at hs2; cases hs2
    | ok x =>
      rw [hx] at hs2
      simp only [pure, Except.pure, Except.ok.injEq, Prod.mk.injEq] at hs2
      exact hs2.2.symm
  subst hb1 hb2
  simp only [List.nil_append]
  refine ⟨hw', hpw, ?_, hac⟩
  intro e he
  have := hrange e he
  omega

/-- **applyStream (gap-free)**: if moreover no acknowledgement jumps ahead of what was handed out
(`RaftLog.NoJump`: every `appliedTo(i)` has `i ≤ applying` at that moment and no snapshot is installed
on the way), the concatenation of all
batches is exactly `applying₀+1, applying₀+2, …, applying'`: each batch starts right after the previous
one, without gaps or repeats. -/
theorem applyStream_gapfree {l : RaftLog} (h : l.WF) (ops : List ApplyOp) (hnj : l.NoJump ops)
    {l' : RaftLog} {stream : List Entry} (hok : l.applyRun ops = .ok (l', stream)) :
    Contig (l.applying + 1) stream ∧ l'.applying = l.applying + stream.length :=
  RaftLog.applyRun_gapfree h ops hnj hok

/-! ## use in RawNode -/

/-- **RawNode.Ready()** (`readyWithoutAccept` followed by `acceptReady`, whatever else the `Ready`
contains) on a node whose log satisfies the invariant: `CommittedEntries` is exactly
`nextCommittedEnts(!asyncStorageWrites)` of the log (so all the batch theorems above apply: contiguous
from `applying + 1`, within commit, only stable entries when async, nothing while a snapshot is pending),
`Entries` is `nextUnstableEnts`, and accepting moves `applying` exactly to the end of the batch
(this is `ApplyOp.ready (!async)` of the stream theorems), keeps the invariant and the abstract log,
and leaves `committed`, `applied` and storage alone. -/
theorem rawnode_ready (rn rn' : RawNode) (rd : Ready) (hwf : rn.raft.log.WF) (h : rn.ready = .ok (rd, rn')) :
    rn.raft.log.nextCommittedEnts (!rn.async) = .ok rd.committedEntries ∧
    rd.entries = rn.raft.log.nextUnstableEnts ∧
    rn'.raft.log.WF ∧
    rn'.raft.log.applying = rn.raft.log.applying + rd.committedEntries.length ∧
    rn'.raft.log.committed = rn.raft.log.committed ∧ rn'.raft.log.applied = rn.raft.log.applied ∧
    rn'.raft.log.storage = rn.raft.log.storage ∧ rn'.raft.log.abs = rn.raft.log.abs ∧
    rn'.raft.log.nextUnstableEnts = [] := by
  obtain ⟨h1, h2⟩ := RawNode.ready_apply rn rn' rd hwf h
  exact ⟨by rw [RaftLog.nextCommittedEnts_eq hwf, h1], h2⟩

/-- the two halves separately, without any assumption on the node -/
theorem rawnode_readyWithoutAccept (rn : RawNode) (rd : Ready) (h : rn.readyWithoutAccept = .ok rd) :
    rn.raft.log.nextCommittedEnts (!rn.async) = .ok rd.committedEntries ∧
    rd.entries = rn.raft.log.nextUnstableEnts :=
  ⟨RawNode.readyWithoutAccept_committed rn rd h, RawNode.readyWithoutAccept_entries rn rd h⟩

theorem rawnode_acceptReady (rn rn' : RawNode) (rd : Ready) (h : rn.acceptReady rd = .ok rn') :
    (match rd.committedEntries.getLast? with
     | some last => rn.raft.log.acceptUnstable.acceptApplying last.index (entsSize rd.committedEntries) (!rn.async)
     | none => .ok rn.raft.log.acceptUnstable) = .ok rn'.raft.log :=
  RawNode.acceptReady_log rn rn' rd h

/-! ## non-vacuity on a concrete state

`exLog` (from `Props/C18.lean`): storage compacted up to 3 holding 4,5,6; unstable 6,7,8 from offset 6
with 6 in progress; `applied = 3`, `applying = 4`, `committed = 7`, limit 1000 bytes. -/

example : exLog.WF := by decide

/-- allowing unstable entries: 5, 6 (from storage and unstable) and 7 (unstable only) -/
example : exLog.nextCommittedEnts true = .ok [ent 2 5, ent 2 6, ent 3 7] := by
  rw [nextCommittedEnts_total (by decide)]
  simp [RaftLog.nextBatch, exLog, exStorage, RaftLog.maxAppliableIndex, RaftLog.abs, RaftLog.applyBudget,
    ALog.slice, ALog.extend, ALog.truncateFrom, MemoryStorage.abs, MemoryStorage.offset, limitSize,
    limitSizeAux, entSize_small, ent]

/-- not allowing unstable entries: only 5 (6 is still unstable) -/
example : exLog.nextCommittedEnts false = .ok [ent 2 5] := by
  rw [nextCommittedEnts_total (by decide)]
  simp [RaftLog.nextBatch, exLog, exStorage, RaftLog.maxAppliableIndex, RaftLog.abs,
    ALog.slice, ALog.extend, ALog.truncateFrom, MemoryStorage.abs, MemoryStorage.offset, limitSize,
    limitSizeAux, ent, usub]

/-- pagination: with a 5-byte limit only one (4-byte) entry is returned -/
example : ({ exLog with maxApplyingEntsSize := 5 } : RaftLog).nextCommittedEnts true = .ok [ent 2 5] := by
  rw [nextCommittedEnts_total (by decide)]
  simp [RaftLog.nextBatch, exLog, exStorage, RaftLog.maxAppliableIndex, RaftLog.abs, RaftLog.applyBudget,
    ALog.slice, ALog.extend, ALog.truncateFrom, MemoryStorage.abs, MemoryStorage.offset, limitSize,
    limitSizeAux, entSize_small, ent]

/-- a pending snapshot blocks the stream -/
example : exLogSnap.WF ∧ exLogSnap.nextCommittedEnts true = .ok [] :=
  ⟨by decide, nextCommittedEnts_snapshot_pending (by decide) true rfl⟩

/-- a run: Ready (5,6,7), ack up to 6, commit 8, Ready (8): the stream is 5,6,7,8 -/
example : (exLog.applyRun [.ready true, .applied 6 8, .commit 8, .ready true]).map (fun r => (r.2, r.1.applying)) =
    .ok ([ent 2 5, ent 2 6, ent 3 7, ent 3 8], 8) := by
  simp [RaftLog.applyRun, RaftLog.applyStep, RaftLog.nextCommittedEnts, RaftLog.hasNextOrInProgressSnapshot,
    RaftLog.maxAppliableIndex, exLog, usub, RaftLog.slice, RaftLog.mustCheckOutOfBounds, RaftLog.firstIndex,
    RaftLog.lastIndex, Unstable.maybeFirstIndex, Unstable.maybeLastIndex, exStorage, MemoryStorage.firstIndex,
    MemoryStorage.offset, MemoryStorage.entries, MemoryStorage.lastIndex, Unstable.slice, limitSize,
    limitSizeAux, entSize_small, ent, RaftLog.acceptApplying, RaftLog.appliedTo, RaftLog.commitTo, bind,
    Except.bind, pure, Except.pure, Except.map, entsSize]

/-- a snapshot at 20 arrives, nothing is handed out while it is pending, it is installed, and the cursor
sits right after it -/
example : (exLog.applyRun [.restore { index := 20, term := 9 }, .ready true, .snapInstalled, .ready true]).map
    (fun r => (r.2, r.1.applying, r.1.applied, r.1.committed, r.1.storage.ents)) =
    .ok ([], 20, 20, 20, [ent 9 20]) := rfl

end RaftVerif.C08
