import RaftVerif.Props.ReconfAgreement
import RaftVerif.Props.ReconfTraces
/-!
# Non-vacuity of the agreement theorems: they apply to the executable run of `Props/ReconfTraces`
-/
namespace RaftVerif.SpecR

set_option maxRecDepth 100000

/-- the theorems apply to the run that adds node 4 through a joint configuration and removes node 1 -/
example : ∀ s, run c3 State.init reconfTrace = some s →
    CommittedPrefixAgree s ∧ SameAppliedSameConfiguration c3 s ∧ ConfigurationHistoryIsChain c3 s ∧
    ActiveIsFoldOfCommitted c3 s := by
  intro s hs
  have hr := reachable_of_run c3 _ s _ Reachable.init hs
  exact ⟨committed_prefix_agree_versions c3 c3_wf s hr, same_applied_same_configuration c3 c3_wf s hr,
    configuration_history_is_chain c3 c3_wf s hr, active_is_fold_of_committed c3 c3_wf s hr⟩

/-- what they say there: nodes 1, 2, 4 have applied index 4 and decide with `{2,3,4}`; the applied
configuration entries are enter-joint, leave-joint, remove 1 -/
example : (run c3 State.init reconfTrace).map (fun s =>
    ((s.nodes 1).applied, (s.nodes 2).applied, (s.nodes 4).applied, (s.nodes 4).active c3)) =
    some (4, 4, 4, ([2, 3, 4], [])) := by decide

example : (run c3 State.init reconfTrace).map (fun s => (s.nodes 2).vol.log.cfgsIn 0 4) =
    some [([1, 2, 3, 4], [1, 2, 3]), ([1, 2, 3, 4], []), ([2, 3, 4], [])] := by decide

end RaftVerif.SpecR
