import RaftVerif.Proofs.SimCorCommit
/-!
# Props/SimulationCommit — C06 "committed means durable on a quorum" for clusters of model nodes

Setting and conventions as in `Props/SimulationCorollaries.lean` (static membership: the only voter set is `voters`;
sync storage writes; nothing compacted: the entry with index `i` is `ents[i - 1]?`).  The protocol-level statements
are `Spec.committed_durable_on_quorum`, `Spec.ver_committed_own_term_on_quorum` (`Proofs/SimCorCommitSpec.lean`).

A *strict majority* is a sublist `q` of the (strictly ascending) voter list with `voters.length < 2 * q.length`.
`InitCluster` does not force every voter to be present in the cluster, and the simulation relation says nothing
about absent voters; so the statements speak about the members of `q` *that are present* (`c.nodes v = some rv`).
Nodes never join or leave (`cluster_nodes_persist`), hence if every voter is present initially every member of `q`
is present: `cluster_committed_durable_on_quorum_full`.
-/
namespace RaftVerif.SimCor
open Sim Refine Simulation SimCorP

/-- the set of present nodes never changes (a crashed node is replaced by its restarted self) -/
theorem cluster_nodes_persist {voters : List Id} {c0 c : Cluster} (hsorted : voters.Pairwise (· < ·))
    (h0 : 0 ∉ voters) (hne : voters ≠ []) (hc : InitCluster voters c0) (h : CReachable c0 c) (n : Nat) :
    (c.nodes n).isSome = (c0.nodes n).isSome :=
  nodes_persist hsorted h0 hne hc h n

/-- **C06 committed ⇒ durable on a quorum (present state)**: for a live node `a` and `1 ≤ i ≤` its commit index, the
log of `a` has an entry `x` at `i`, and there is a strict majority `q` of the voters such that every present member
of `q` holds in its *stable storage*, at index `i`, an entry equal to `x` in term, type and data -/
theorem cluster_committed_durable_on_quorum {voters : List Id} {c0 c : Cluster} (hsorted : voters.Pairwise (· < ·))
    (h0 : 0 ∉ voters) (hne : voters ≠ []) (hc : InitCluster voters c0) (h : CReachable c0 c)
    {a : Nat} {ra : RawNode} (ha : c.nodes a = some ra) {i : Nat} (hi : 1 ≤ i) (hic : i ≤ ra.raft.log.committed) :
    ∃ x, ra.raft.log.abs.ents[i - 1]? = some x ∧ x.index = i ∧
    ∃ q : List Nat, q.Sublist voters ∧ voters.length < 2 * q.length ∧
      ∀ v ∈ q, ∀ rv, c.nodes v = some rv →
        ∃ y, rv.raft.log.storage.abs.ents[i - 1]? = some y ∧
          x.term = y.term ∧ x.typ = y.typ ∧ x.data = y.data ∧ y.index = i :=
  committed_durable_views ⟨hsorted, h0, hne, hc, h⟩ ha false hi hic

/-- **C06, for the stored commit index**: the same for what `a` would resume from after a crash -/
theorem cluster_stored_committed_durable_on_quorum {voters : List Id} {c0 c : Cluster}
    (hsorted : voters.Pairwise (· < ·))
    (h0 : 0 ∉ voters) (hne : voters ≠ []) (hc : InitCluster voters c0) (h : CReachable c0 c)
    {a : Nat} {ra : RawNode} (ha : c.nodes a = some ra) {i : Nat} (hi : 1 ≤ i)
    (hic : i ≤ (ra.raft.log.storage.hardState.getD {}).commit) :
    ∃ x, ra.raft.log.storage.abs.ents[i - 1]? = some x ∧ x.index = i ∧
    ∃ q : List Nat, q.Sublist voters ∧ voters.length < 2 * q.length ∧
      ∀ v ∈ q, ∀ rv, c.nodes v = some rv →
        ∃ y, rv.raft.log.storage.abs.ents[i - 1]? = some y ∧
          x.term = y.term ∧ x.typ = y.typ ∧ x.data = y.data ∧ y.index = i :=
  committed_durable_views ⟨hsorted, h0, hne, hc, h⟩ ha true hi hic

/-- **C06 with all voters present**: if every voter is a node of the initial cluster, every member of the majority is
present and holds the entry in its storage -/
theorem cluster_committed_durable_on_quorum_full {voters : List Id} {c0 c : Cluster}
    (hsorted : voters.Pairwise (· < ·))
    (h0 : 0 ∉ voters) (hne : voters ≠ []) (hc : InitCluster voters c0) (h : CReachable c0 c)
    (hfull : ∀ v ∈ voters, (c0.nodes v).isSome = true)
    {a : Nat} {ra : RawNode} (ha : c.nodes a = some ra) {i : Nat} (hi : 1 ≤ i) (hic : i ≤ ra.raft.log.committed) :
    ∃ x, ra.raft.log.abs.ents[i - 1]? = some x ∧ x.index = i ∧
    ∃ q : List Nat, q.Sublist voters ∧ voters.length < 2 * q.length ∧
      ∀ v ∈ q, ∃ rv y, c.nodes v = some rv ∧ rv.raft.log.storage.abs.ents[i - 1]? = some y ∧
          x.term = y.term ∧ x.typ = y.typ ∧ x.data = y.data ∧ y.index = i := by
  obtain ⟨x, hx, ix, q, hq, hmaj, hall⟩ := cluster_committed_durable_on_quorum hsorted h0 hne hc h ha hi hic
  refine ⟨x, hx, ix, q, hq, hmaj, fun v hv => ?_⟩
  have hp := nodes_persist hsorted h0 hne hc h v
  rw [hfull v (hq.subset hv)] at hp
  obtain ⟨rv, hrv⟩ := Option.isSome_iff_exists.mp hp
  obtain ⟨y, hy⟩ := hall v hv rv hrv
  exact ⟨rv, y, hrv, hy⟩

/-- **C06 the commit rule (present state)**: the commit index of a live node `a` (if `≥ 1`) is covered by an index
`j ≥ commit` and a term `t` — the term of the leader that committed `j` — between the term of `a`'s entry at its
commit index and the term of `a` (so `t` *is* the term of `a` when that entry is of `a`'s own term), such that every present
member of a strict majority `q` of the voters: is durably at a term `≥ t`; holds in its *storage* at `j` an entry of
term `t` (a leader commits only through an entry of its own term that is stored on a majority); and holds in its
storage, at every `1 ≤ i ≤ commit`, the entry that `a` has there (term, type, data, index).  One majority serves the
whole committed prefix. -/
theorem cluster_commit_rule {voters : List Id} {c0 c : Cluster} (hsorted : voters.Pairwise (· < ·))
    (h0 : 0 ∉ voters) (hne : voters ≠ []) (hc : InitCluster voters c0) (h : CReachable c0 c)
    {a : Nat} {ra : RawNode} (ha : c.nodes a = some ra) (hcm : 1 ≤ ra.raft.log.committed) :
    ∃ (t j : Nat) (q : List Nat), t ≤ ra.raft.term ∧ ra.raft.log.committed ≤ j ∧
      (∀ x, ra.raft.log.abs.ents[ra.raft.log.committed - 1]? = some x → x.term ≤ t) ∧
      q.Sublist voters ∧ voters.length < 2 * q.length ∧
      ∀ v ∈ q, ∀ rv, c.nodes v = some rv →
        t ≤ (rv.raft.log.storage.hardState.getD {}).term ∧
        (∃ z, rv.raft.log.storage.abs.ents[j - 1]? = some z ∧ z.term = t) ∧
        ∀ i, 1 ≤ i → i ≤ ra.raft.log.committed →
          ∃ x y, ra.raft.log.abs.ents[i - 1]? = some x ∧ rv.raft.log.storage.abs.ents[i - 1]? = some y ∧
            x.term = y.term ∧ x.typ = y.typ ∧ x.data = y.data ∧ x.index = i ∧ y.index = i := by
  have S : Setting voters c0 c := ⟨hsorted, h0, hne, hc, h⟩
  obtain ⟨t, j, q, h1, h2, hlow, h3, h4, hall⟩ := committed_own_term_views S ha false hcm
  refine ⟨t, j, q, h1, h2, hlow, h3, h4, fun v hv rv hrv => ?_⟩
  obtain ⟨k1, k2, k3⟩ := hall v hv rv hrv
  refine ⟨k1, k2, fun i hi1 him => ?_⟩
  obtain ⟨x, y, hx, hy, hxy⟩ := k3 i hi1 him
  exact log_matching_views S ha hrv false true hi1 hx hy hxy hi1 (Nat.le_refl i)

/-- **C06 the commit rule, leader's view**: a live node `l` (in particular a leader) whose entry at its commit index
is of its own term: a strict majority of the voters is (as far as present) durably at a term `≥` the term of `l` and
holds in its storage every entry of `l` up to the commit index of `l` (term, type, data, index) -/
theorem cluster_own_term_commit_on_quorum {voters : List Id} {c0 c : Cluster} (hsorted : voters.Pairwise (· < ·))
    (h0 : 0 ∉ voters) (hne : voters ≠ []) (hc : InitCluster voters c0) (h : CReachable c0 c)
    {l : Nat} {rl : RawNode} (hl : c.nodes l = some rl) {x : Entry}
    (hx : rl.raft.log.abs.ents[rl.raft.log.committed - 1]? = some x) (hcm : 1 ≤ rl.raft.log.committed)
    (hown : x.term = rl.raft.term) :
    ∃ q : List Nat, q.Sublist voters ∧ voters.length < 2 * q.length ∧
      ∀ v ∈ q, ∀ rv, c.nodes v = some rv →
        rl.raft.term ≤ (rv.raft.log.storage.hardState.getD {}).term ∧
        ∀ i, 1 ≤ i → i ≤ rl.raft.log.committed →
          ∃ x y, rl.raft.log.abs.ents[i - 1]? = some x ∧ rv.raft.log.storage.abs.ents[i - 1]? = some y ∧
            x.term = y.term ∧ x.typ = y.typ ∧ x.data = y.data ∧ x.index = i ∧ y.index = i := by
  obtain ⟨t, j, q, h1, _, hlow, h3, h4, hall⟩ := cluster_commit_rule hsorted h0 hne hc h hl hcm
  have ht : t = rl.raft.term := by
    have := hlow x hx
    omega
  subst ht
  exact ⟨q, h3, h4, fun v hv rv hrv => ⟨(hall v hv rv hrv).1, (hall v hv rv hrv).2.2⟩⟩

/-- **C06 the commit rule, for the stored commit index** (what a node resumes from after a crash) -/
theorem cluster_stored_commit_rule {voters : List Id} {c0 c : Cluster} (hsorted : voters.Pairwise (· < ·))
    (h0 : 0 ∉ voters) (hne : voters ≠ []) (hc : InitCluster voters c0) (h : CReachable c0 c)
    {a : Nat} {ra : RawNode} (ha : c.nodes a = some ra)
    (hcm : 1 ≤ (ra.raft.log.storage.hardState.getD {}).commit) :
    ∃ (t j : Nat) (q : List Nat), t ≤ (ra.raft.log.storage.hardState.getD {}).term ∧
      (ra.raft.log.storage.hardState.getD {}).commit ≤ j ∧
      q.Sublist voters ∧ voters.length < 2 * q.length ∧
      ∀ v ∈ q, ∀ rv, c.nodes v = some rv →
        t ≤ (rv.raft.log.storage.hardState.getD {}).term ∧
        (∃ z, rv.raft.log.storage.abs.ents[j - 1]? = some z ∧ z.term = t) ∧
        ∀ i, 1 ≤ i → i ≤ (ra.raft.log.storage.hardState.getD {}).commit →
          ∃ x y, ra.raft.log.storage.abs.ents[i - 1]? = some x ∧
            rv.raft.log.storage.abs.ents[i - 1]? = some y ∧
            x.term = y.term ∧ x.typ = y.typ ∧ x.data = y.data ∧ x.index = i ∧ y.index = i := by
  have S : Setting voters c0 c := ⟨hsorted, h0, hne, hc, h⟩
  obtain ⟨t, j, q, h1, h2, _, h3, h4, hall⟩ := committed_own_term_views S ha true hcm
  refine ⟨t, j, q, h1, h2, h3, h4, fun v hv rv hrv => ?_⟩
  obtain ⟨k1, k2, k3⟩ := hall v hv rv hrv
  refine ⟨k1, k2, fun i hi1 him => ?_⟩
  obtain ⟨x, y, hx, hy, hxy⟩ := k3 i hi1 him
  exact log_matching_views S ha hrv true true hi1 hx hy hxy hi1 (Nat.le_refl i)

end RaftVerif.SimCor
