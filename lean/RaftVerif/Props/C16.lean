import RaftVerif.Proofs.FlowSize
import RaftVerif.Proofs.FlowTracker
import RaftVerif.Proofs.FlowMonad
import RaftVerif.Proofs.FlowSend
import RaftVerif.Proofs.FlowStep
/-!
# C16  Flow-control and size limits are respected

Property theorems only (helpers live in `Proofs/Flow*.lean`).  Statements hold for every limit
setting (0, 1, unlimited), every entry size and every list length.
-/
namespace RaftVerif

/-! ## 1. `limitSize` (util.go) and the size functions -/

/-- encoded size is additive over concatenation -/
theorem entsSize_append_flow (a b : List Entry) : entsSize (a ++ b) = entsSize a + entsSize b :=
  entsSize_append' a b

/-- payload size is additive over concatenation -/
theorem payloadsSize_append (a b : List Entry) :
    payloadsSize (a ++ b) = payloadsSize a + payloadsSize b :=
  payloadsSize_append' a b

/-- `limitSize` returns a prefix of its input -/
theorem limitSize_prefix_flow (ents : List Entry) (maxSize : Nat) : limitSize ents maxSize <+: ents := by
  cases ents with
  | nil => simp [limitSize]
  | cons e rest =>
    simp only [limitSize]
    exact (List.prefix_cons_inj e).mpr (limitSizeAux_prefix_flow _ _ _)

/-- `limitSize` never returns an empty slice for a non-empty input (and only then) -/
theorem limitSize_eq_nil_iff (ents : List Entry) (maxSize : Nat) :
    limitSize ents maxSize = [] ↔ ents = [] := by
  cases ents <;> simp [limitSize]

/-- the result fits the budget unless it is a single entry -/
theorem limitSize_size_flow (ents : List Entry) (maxSize : Nat) :
    entsSize (limitSize ents maxSize) ≤ maxSize ∨ (limitSize ents maxSize).length = 1 := by
  cases ents with
  | nil => simp [limitSize]
  | cons e rest =>
    simp only [limitSize]
    rcases limitSizeAux_size_flow maxSize (entrySize e) rest with h | h
    · right; rw [h]; rfl
    · left; rw [entsSize_cons_flow]; exact h

/-- maximality: if `limitSize` cut the input short, then the next entry would not have fitted -/
theorem limitSize_maximal_flow (ents : List Entry) (maxSize : Nat) (e : Entry) (rest : List Entry)
    (h : ents = limitSize ents maxSize ++ e :: rest) :
    maxSize < entsSize (limitSize ents maxSize) + entrySize e := by
  cases ents with
  | nil => simp [limitSize] at h
  | cons a t =>
    simp only [limitSize] at h ⊢
    simp only [List.cons_append, List.cons.injEq, true_and] at h
    have := limitSizeAux_maximal_flow maxSize (entrySize a) t e rest h
    rw [entsSize_cons_flow]; exact this

/-- hence `limitSize` is the *longest* non-empty prefix within the budget: any prefix of the input
that fits the budget is no longer than the result -/
theorem limitSize_longest (ents : List Entry) (maxSize : Nat) (p : List Entry)
    (hp : p <+: ents) (hsz : entsSize p ≤ maxSize) : p.length ≤ (limitSize ents maxSize).length := by
  apply Decidable.byContradiction
  intro hlt
  have hlt : (limitSize ents maxSize).length < p.length := by omega
  -- the result is a strict prefix of `p`
  have hpre : limitSize ents maxSize <+: p :=
    List.prefix_of_prefix_length_le (limitSize_prefix_flow ents maxSize) hp (by omega)
  obtain ⟨s, hs⟩ := hpre
  obtain ⟨t, ht⟩ := hp
  cases s with
  | nil => simp at hs; rw [← hs] at hlt; omega
  | cons e s' =>
    have hents : ents = limitSize ents maxSize ++ e :: (s' ++ t) :=
      calc ents = p ++ t := ht.symm
        _ = (limitSize ents maxSize ++ e :: s') ++ t := by rw [hs]
        _ = _ := by simp
    have hmax := limitSize_maximal_flow ents maxSize e (s' ++ t) hents
    rw [← hs, entsSize_append_flow, entsSize_cons_flow] at hsz
    omega

/-! non-vacuity on concrete inputs: sizes 4,4,4 ; limits 0 (one entry), 8 (two), unlimited -/
example : entsSize [{ term := 1, index := 1 }, { term := 1, index := 2 }, { term := 1, index := 3 }] = 12 := by
  simp [entrySize, varintLen_small_flow]
example : limitSize [{ term := 1, index := 1 }, { term := 1, index := 2 }, { term := 1, index := 3 }] 0
    = [{ term := 1, index := 1 }] := by
  simp [limitSize, limitSizeAux, entrySize, varintLen_small_flow]
example : limitSize [{ term := 1, index := 1 }, { term := 1, index := 2 }, { term := 1, index := 3 }] 8
    = [{ term := 1, index := 1 }, { term := 1, index := 2 }] := by
  simp [limitSize, limitSizeAux, entrySize, varintLen_small_flow]
example : (limitSize [{ term := 1, index := 1 }, { term := 1, index := 2 }, { term := 1, index := 3 }] noLimit).length = 3 := by
  simp [limitSize, limitSizeAux, entrySize, varintLen_small_flow, noLimit, maxUint64]

/-! ## 2. `Inflights` (tracker/inflights.go) -/
namespace Inflights

/-- `Full()`: the window is full when the message budget is used up, or a byte budget is set and
reached -/
theorem full_iff (i : Inflights) :
    i.full = true ↔ i.count = i.size ∨ (i.maxBytes ≠ 0 ∧ i.maxBytes ≤ i.bytes) := by
  simp [full]

/-- `Add` panics exactly when the window is full -/
theorem add_error_iff (i : Inflights) (idx b : Nat) :
    (∃ e, i.add idx b = .error e) ↔ i.full = true := by
  unfold add
  cases h : i.full <;> simp [throw, throwThe, MonadExceptOf.throw, pure, Except.pure]

/-- a successful `Add` (window not full) appends `(idx, b)` at the tail, keeps `count ≤ size`, and
the bytes in flight *before* the added message were below the byte budget: only the one message
that crosses `maxBytes` may exceed it -/
theorem add_spec (i i' : Inflights) (idx b : Nat) (hwf : i.WF) (h : i.add idx b = .ok i') :
    i.full = false ∧ i'.q = i.q ++ [(idx, b)] ∧ i'.size = i.size ∧ i'.maxBytes = i.maxBytes ∧
    i'.count = i.count + 1 ∧ i'.bytes = i.bytes + b ∧ i'.WF ∧
    (i.maxBytes ≠ 0 → i.bytes < i.maxBytes) := by
  cases hf : i.full with
  | true => simp [add, hf, throw, throwThe, MonadExceptOf.throw] at h
  | false =>
    rw [add_ok i idx b hf] at h
    injection h with h
    subst h
    have hnf : ¬ (i.count = i.size ∨ (i.maxBytes ≠ 0 ∧ i.maxBytes ≤ i.bytes)) := by
      rw [← full_iff]; simp [hf]
    obtain ⟨hcnt, _⟩ := hwf
    have hcount : ({ i with q := i.q ++ [(idx, b)] } : Inflights).count = i.count + 1 := by simp [count]
    have hbytes : ({ i with q := i.q ++ [(idx, b)] } : Inflights).bytes = i.bytes + b := by
      simp [Inflights.bytes, List.sum_append]
    have hlt : i.maxBytes ≠ 0 → i.bytes < i.maxBytes := by intro hm; omega
    refine ⟨rfl, rfl, rfl, rfl, hcount, hbytes, ⟨?_, ?_⟩, hlt⟩
    · rw [hcount]; show i.count + 1 ≤ i.size; omega
    · intro hmb _
      show ((i.q ++ [(idx, b)]).dropLast.map (·.2)).sum < i.maxBytes
      rw [List.dropLast_concat]
      exact hlt hmb

/-- `FreeLE(to)` removes exactly the maximal prefix of messages with `index ≤ to`; `bytes` and
`count` stay the sums over what remains -/
theorem freeLE_spec (i : Inflights) (to : Nat) :
    ∃ freed, i.q = freed ++ (i.freeLE to).q ∧ (∀ p ∈ freed, p.1 ≤ to) ∧
      (∀ p, (i.freeLE to).q.head? = some p → to < p.1) ∧
      i.bytes = (freed.map (·.2)).sum + (i.freeLE to).bytes ∧
      i.count = freed.length + (i.freeLE to).count ∧
      (i.freeLE to).size = i.size ∧ (i.freeLE to).maxBytes = i.maxBytes := by
  obtain ⟨pre, h1, h2, h3⟩ := dropWhile_split (fun p : Nat × Nat => decide (p.1 ≤ to)) i.q
  refine ⟨pre, h1, ?_, ?_, ?_, ?_, rfl, rfl⟩
  · intro p hp; simpa using h2 p hp
  · intro p hp; have := h3 p hp; simpa using this
  · simp only [Inflights.bytes, freeLE]
    rw [← List.sum_append, ← List.map_append, ← h1]
  · simp only [count, freeLE]
    rw [← List.length_append, ← h1]

theorem freeLE_WF (i : Inflights) (to : Nat) (h : i.WF) : (i.freeLE to).WF := by
  obtain ⟨freed, hq, _, _, _, hc, hs, hmb⟩ := freeLE_spec i to
  obtain ⟨hcnt, hb⟩ := h
  refine ⟨by omega, ?_⟩
  intro hm hne
  rw [hmb] at hm ⊢
  have hqne : i.q ≠ [] := by rw [hq]; simp [hne]
  have := hb hm hqne
  rw [hq, List.dropLast_append_of_ne_nil hne, List.map_append, List.sum_append] at this
  omega

/-- `FreeLE` of an index below the first inflight is a no-op -/
theorem freeLE_noop (i : Inflights) (to : Nat) (p : Nat × Nat) (h : i.q.head? = some p) (hlt : to < p.1) :
    i.freeLE to = i := by
  cases i with
  | mk s m q =>
    cases q with
    | nil => simp at h
    | cons a t =>
      simp at h; subst h
      simp [freeLE, List.dropWhile_cons]; omega

theorem reset_spec (i : Inflights) :
    i.reset.count = 0 ∧ i.reset.bytes = 0 ∧ i.reset.size = i.size ∧ i.reset.maxBytes = i.maxBytes ∧
    i.reset.WF := by
  refine ⟨?_, ?_, rfl, rfl, WF_of_empty _ rfl⟩ <;> simp [reset, count, Inflights.bytes]

end Inflights

/-! ## 3. `Progress` state machine (tracker/progress.go) -/
namespace Progress

/-- `IsPaused`: a follower is paused iff a snapshot is pending or the append flow is paused -/
theorem isPaused_iff (pr : Progress) :
    pr.isPaused = true ↔ pr.state = .snapshot ∨ pr.msgAppFlowPaused = true := by
  unfold isPaused
  cases pr.state <;> simp

theorem isPaused_of_snapshot (pr : Progress) (h : pr.state = .snapshot) : pr.isPaused = true :=
  (isPaused_iff pr).mpr (Or.inl h)

/-- `ResetState` keeps `Match`/`Next`, empties the inflight window and clears the pause flag and
the pending snapshot -/
theorem resetState_spec (pr : Progress) (st : ProgressState) :
    (pr.resetState st).match_ = pr.match_ ∧ (pr.resetState st).next = pr.next ∧
    (pr.resetState st).state = st ∧ (pr.resetState st).msgAppFlowPaused = false ∧
    (pr.resetState st).pendingSnapshot = 0 ∧ (pr.resetState st).inflights.count = 0 ∧
    (pr.resetState st).inflights.size = pr.inflights.size ∧
    (pr.resetState st).inflights.maxBytes = pr.inflights.maxBytes ∧
    (pr.WF → (pr.resetState st).WF) := by
  simp [resetState, Inflights.reset, Inflights.count, WF]

/-- `BecomeProbe` establishes `Match < Next` unconditionally, lands in an unpaused probe state with
an empty window; coming from a snapshot, `Next` is past the pending snapshot -/
theorem becomeProbe_spec (pr : Progress) :
    pr.becomeProbe.WF ∧ pr.becomeProbe.state = .probe ∧ pr.becomeProbe.isPaused = false ∧
    pr.becomeProbe.match_ = pr.match_ ∧ pr.becomeProbe.inflights.count = 0 ∧
    pr.becomeProbe.pendingSnapshot = 0 ∧
    (pr.state = .snapshot → pr.becomeProbe.next = max (pr.match_ + 1) (pr.pendingSnapshot + 1)) ∧
    (pr.state ≠ .snapshot → pr.becomeProbe.next = pr.match_ + 1) ∧
    pr.becomeProbe.SnapInv := by
  unfold becomeProbe
  by_cases h : pr.state = .snapshot
  · simp [h, resetState, WF, isPaused, Inflights.reset, Inflights.count, SnapInv]; omega
  · simp [h, resetState, WF, isPaused, Inflights.reset, Inflights.count, SnapInv]

/-- `BecomeReplicate`: `Next = Match + 1`, unpaused, empty window -/
theorem becomeReplicate_spec (pr : Progress) :
    pr.becomeReplicate.WF ∧ pr.becomeReplicate.state = .replicate ∧
    pr.becomeReplicate.isPaused = false ∧ pr.becomeReplicate.match_ = pr.match_ ∧
    pr.becomeReplicate.next = pr.match_ + 1 ∧ pr.becomeReplicate.inflights.count = 0 ∧
    pr.becomeReplicate.inflights.size = pr.inflights.size ∧
    pr.becomeReplicate.inflights.maxBytes = pr.inflights.maxBytes ∧
    pr.becomeReplicate.SnapInv := by
  simp [becomeReplicate, resetState, WF, isPaused, Inflights.reset, Inflights.count, SnapInv]

/-- `BecomeSnapshot(i)`: paused, `Next = PendingSnapshot + 1 = i + 1`; `Match < Next` exactly when
the snapshot is not behind what the follower already has -/
theorem becomeSnapshot_spec (pr : Progress) (snapshoti : Nat) :
    (pr.becomeSnapshot snapshoti).state = .snapshot ∧
    (pr.becomeSnapshot snapshoti).isPaused = true ∧
    (pr.becomeSnapshot snapshoti).pendingSnapshot = snapshoti ∧
    (pr.becomeSnapshot snapshoti).next = snapshoti + 1 ∧
    (pr.becomeSnapshot snapshoti).SnapInv ∧
    (pr.becomeSnapshot snapshoti).match_ = pr.match_ ∧
    (pr.becomeSnapshot snapshoti).inflights.count = 0 ∧
    ((pr.becomeSnapshot snapshoti).WF ↔ pr.match_ ≤ snapshoti) := by
  simp [becomeSnapshot, resetState, WF, isPaused, Inflights.reset, Inflights.count, SnapInv]
  omega

/-- `MaybeUpdate(n)`: reports an update iff `n` is new; `Match` becomes `max Match n` (monotone),
`Next` never decreases and stays above `Match`; an update un-pauses the flow -/
theorem maybeUpdate_spec (pr : Progress) (n : Nat) :
    ((pr.maybeUpdate n).2 = true ↔ pr.match_ < n) ∧
    (pr.maybeUpdate n).1.match_ = max pr.match_ n ∧
    pr.match_ ≤ (pr.maybeUpdate n).1.match_ ∧
    pr.next ≤ (pr.maybeUpdate n).1.next ∧
    (pr.WF → (pr.maybeUpdate n).1.WF) ∧
    ((pr.maybeUpdate n).2 = false → (pr.maybeUpdate n).1 = pr) ∧
    ((pr.maybeUpdate n).2 = true → (pr.maybeUpdate n).1.next = max pr.next (n + 1) ∧
      (pr.maybeUpdate n).1.msgAppFlowPaused = false) ∧
    (pr.maybeUpdate n).1.state = pr.state ∧ (pr.maybeUpdate n).1.inflights = pr.inflights := by
  unfold maybeUpdate WF
  by_cases h : n ≤ pr.match_
  · simp only [h, ↓reduceIte]
    and_intros <;> (try simp only [Bool.false_eq_true, false_iff, false_imp_iff, imp_self]) <;> (try omega)
  · simp only [h, ↓reduceIte]
    and_intros <;> (try simp only [true_iff, Bool.true_eq_false, false_imp_iff]) <;> (try omega)
    · intro _; exact ⟨trivial, trivial⟩
/-- `MaybeDecrTo`: under `Match < Next`, a stale rejection changes nothing; a genuine one never
raises `Next`, never lowers it to `Match` or below, and un-pauses a probing follower -/
theorem maybeDecrTo_spec (pr : Progress) (rejected matchHint : Nat) (hwf : pr.WF) :
    ((pr.maybeDecrTo rejected matchHint).2 = false → (pr.maybeDecrTo rejected matchHint).1 = pr) ∧
    ((pr.maybeDecrTo rejected matchHint).2 = true ↔
      (pr.state = .replicate ∧ pr.match_ < rejected) ∨ (pr.state ≠ .replicate ∧ pr.next = rejected + 1)) ∧
    (pr.maybeDecrTo rejected matchHint).1.WF ∧
    (pr.maybeDecrTo rejected matchHint).1.next ≤ pr.next ∧
    (pr.maybeDecrTo rejected matchHint).1.match_ = pr.match_ ∧
    (pr.maybeDecrTo rejected matchHint).1.state = pr.state ∧
    (pr.maybeDecrTo rejected matchHint).1.inflights = pr.inflights ∧
    (pr.state = .replicate → (pr.maybeDecrTo rejected matchHint).2 = true →
      (pr.maybeDecrTo rejected matchHint).1.next = pr.match_ + 1) ∧
    (pr.state ≠ .replicate → (pr.maybeDecrTo rejected matchHint).2 = true →
      (pr.maybeDecrTo rejected matchHint).1.next = max (min rejected (matchHint + 1)) (pr.match_ + 1) ∧
      (pr.maybeDecrTo rejected matchHint).1.msgAppFlowPaused = false) := by
  unfold WF at hwf
  have hus : usub pr.next 1 = pr.next - 1 := usub_one_of_pos _ (by omega)
  unfold maybeDecrTo WF
  rw [hus]
  by_cases hs : pr.state = .replicate
  · by_cases h : rejected ≤ pr.match_
    · simp only [hs, h, beq_self_eq_true, ↓reduceIte]
      and_intros <;> (try simp) <;> (try omega)
    · simp only [hs, h, beq_self_eq_true, ↓reduceIte]
      and_intros <;> (try simp) <;> (try omega)
  · have hs' : (pr.state == ProgressState.replicate) = false := by simpa using hs
    by_cases h : pr.next - 1 = rejected
    · simp only [hs, hs', h, bne_self_eq_false, Bool.false_eq_true, ↓reduceIte]
      and_intros <;> (try simp) <;> (try omega)
      · exact ⟨hs, by omega⟩
    · have h' : (pr.next - 1 != rejected) = true := by simpa using h
      simp only [hs, hs', h', Bool.false_eq_true, ↓reduceIte]
      and_intros <;> (try simp) <;> (try omega)
end Progress

namespace Progress

/-- `SentEntries` panics exactly when a snapshot is pending, or when entries are sent to a streaming
follower whose inflight window is full -/
theorem sentEntries_error_iff (pr : Progress) (entries b : Nat) :
    (∃ e, pr.sentEntries entries b = .error e) ↔
      pr.state = .snapshot ∨ (pr.state = .replicate ∧ 0 < entries ∧ pr.inflights.full = true) := by
  cases hs : pr.state with
  | snapshot => simp [sentEntries_snapshot pr entries b hs]
  | probe => simp [sentEntries_probe pr entries b hs]
  | replicate =>
    rcases Nat.eq_zero_or_pos entries with h0 | hpos
    · subst h0; simp [sentEntries_replicate_zero pr b hs]
    · rw [sentEntries_replicate_pos pr entries b hs hpos]
      have := Inflights.add_error_iff pr.inflights (pr.next + entries - 1) b
      simp only [reduceCtorEq, true_and, false_or, hpos, ← this]
      cases pr.inflights.add (pr.next + entries - 1) b <;> simp [Except.map]

/-- sending `entries > 0` to a streaming follower: exactly one inflight `(Next+entries-1, bytes)` is
added at the tail, `Next` advances by `entries`, the window invariant `count ≤ size` is kept, only
the one message that crosses `maxBytes` may exceed it, and the flow is paused iff the window is
now full -/
theorem sentEntries_replicate_spec (pr pr' : Progress) (entries b : Nat)
    (hs : pr.state = .replicate) (hpos : 0 < entries) (hwf : pr.inflights.WF)
    (h : pr.sentEntries entries b = .ok pr') :
    pr.inflights.full = false ∧
    pr'.next = pr.next + entries ∧
    (∃ idx, idx + 1 = pr.next + entries ∧ pr'.inflights.q = pr.inflights.q ++ [(idx, b)]) ∧
    pr'.inflights.count = pr.inflights.count + 1 ∧
    pr'.inflights.bytes = pr.inflights.bytes + b ∧
    pr'.inflights.WF ∧
    (pr.inflights.maxBytes ≠ 0 → pr.inflights.bytes < pr.inflights.maxBytes) ∧
    pr'.inflights.size = pr.inflights.size ∧ pr'.inflights.maxBytes = pr.inflights.maxBytes ∧
    pr'.msgAppFlowPaused = pr'.inflights.full ∧
    pr'.match_ = pr.match_ ∧ pr'.state = .replicate ∧ (pr.WF → pr'.WF) := by
  rw [sentEntries_replicate_pos pr entries b hs hpos] at h
  cases ha : pr.inflights.add (pr.next + entries - 1) b with
  | error e => rw [ha] at h; cases h
  | ok infl =>
    rw [ha] at h
    simp only [Except.map] at h
    injection h with h
    subst h
    obtain ⟨h1, h2, h3, h4, h5, h6, h7, h8⟩ := Inflights.add_spec _ _ _ _ hwf ha
    refine ⟨h1, rfl, ⟨pr.next + entries - 1, by omega, h2⟩, h5, h6, h7, h8, h3, h4, rfl, rfl, hs, ?_⟩
    unfold WF; simp only; omega

/-- an empty append to a streaming follower only refreshes the pause flag -/
theorem sentEntries_replicate_empty (pr : Progress) (b : Nat) (hs : pr.state = .replicate) :
    pr.sentEntries 0 b = .ok { pr with msgAppFlowPaused := pr.inflights.full } :=
  sentEntries_replicate_zero pr b hs

/-- a probing follower is paused after one non-empty append; nothing is tracked in flight -/
theorem sentEntries_probe_spec (pr pr' : Progress) (entries b : Nat) (hs : pr.state = .probe)
    (h : pr.sentEntries entries b = .ok pr') :
    pr'.inflights = pr.inflights ∧ pr'.next = pr.next ∧ pr'.match_ = pr.match_ ∧ pr'.state = .probe ∧
    (0 < entries → pr'.isPaused = true) ∧ (entries = 0 → pr' = pr) := by
  rw [sentEntries_probe pr entries b hs] at h
  injection h with h
  subst h
  rcases Nat.eq_zero_or_pos entries with h0 | hpos
  · subst h0; simp [hs]
  · simp [hpos, hs, isPaused]; omega

end Progress

namespace Raft

/-! ## 5. uncommitted-size accounting (raft.go `increaseUncommittedSize`, `reduceUncommittedSize`,
`appendEntry`, `reset`) -/

/-- the acceptance condition of raft.go:2098: an empty log tail, an empty payload, or a payload that
still fits the budget -/
def accepts (r : Raft) (s : Nat) : Prop :=
  r.uncommittedSize = 0 ∨ s = 0 ∨ r.uncommittedSize + s ≤ r.cfg.maxUncommittedSize

instance (r : Raft) (s : Nat) : Decidable (accepts r s) := by unfold accepts; infer_instance

/-- exact specification of `increaseUncommittedSize`: never panics; accepts iff `accepts`; on
acceptance exactly the payload size is added, on refusal the state is unchanged -/
theorem increaseUncommittedSize_spec (r : Raft) (ents : List Entry) :
    (accepts r (payloadsSize ents) →
      (increaseUncommittedSize ents).run r =
        .ok (true, { r with uncommittedSize := r.uncommittedSize + payloadsSize ents })) ∧
    (¬ accepts r (payloadsSize ents) → (increaseUncommittedSize ents).run r = .ok (false, r)) := by
  rw [increaseUncommittedSize_run]
  unfold accepts
  constructor
  · intro h; rw [if_neg (by omega)]
  · intro h; rw [if_pos (by omega)]

/-- an empty payload (e.g. the empty entry of a new leader, or a leave-joint proposal) is never
refused and leaves the state unchanged -/
theorem increaseUncommittedSize_empty (r : Raft) (ents : List Entry) (h : payloadsSize ents = 0) :
    (increaseUncommittedSize ents).run r = .ok (true, r) := by
  rw [(increaseUncommittedSize_spec r ents).1 (Or.inr (Or.inl h)), h]
  rfl

/-- once the budget is exhausted, every non-empty proposal is refused -/
theorem increaseUncommittedSize_refuses (r : Raft) (ents : List Entry)
    (hu : 0 < r.uncommittedSize) (hfull : r.cfg.maxUncommittedSize ≤ r.uncommittedSize)
    (hs : 0 < payloadsSize ents) :
    (increaseUncommittedSize ents).run r = .ok (false, r) :=
  (increaseUncommittedSize_spec r ents).2 (by unfold accepts; omega)

/-- "at most `MaxUncommittedEntriesSize` bytes plus one proposal": if no single proposal is larger
than `B`, the uncommitted size never exceeds `max + B` -/
theorem increaseUncommittedSize_bound (r r' : Raft) (ents : List Entry) (b : Bool) (B : Nat)
    (hinv : r.uncommittedSize ≤ r.cfg.maxUncommittedSize + B) (hB : payloadsSize ents ≤ B)
    (h : (increaseUncommittedSize ents).run r = .ok (b, r')) :
    r'.uncommittedSize ≤ r'.cfg.maxUncommittedSize + B ∧ r'.cfg = r.cfg := by
  rw [increaseUncommittedSize_run] at h
  split at h <;> (injection h with h; injection h with _ h; subst h)
  · exact ⟨hinv, rfl⟩
  · refine ⟨?_, rfl⟩; show r.uncommittedSize + payloadsSize ents ≤ r.cfg.maxUncommittedSize + B; omega

/-- `reduceUncommittedSize s`: saturating subtraction, stated without truncation -/
theorem reduceUncommittedSize_spec (r : Raft) (s : Nat) :
    ∃ r', (reduceUncommittedSize s).run r = .ok ((), r') ∧
      (s ≤ r.uncommittedSize → r'.uncommittedSize + s = r.uncommittedSize) ∧
      (r.uncommittedSize < s → r'.uncommittedSize = 0) ∧
      r' = { r with uncommittedSize := r'.uncommittedSize } := by
  refine ⟨_, reduceUncommittedSize_run r s, ?_, ?_, rfl⟩
  · intro h; simp only; split <;> omega
  · intro h; simp only; rw [if_pos h]

/-- exact specification of `appendEntry`: refused iff `¬ accepts` (state unchanged, returns
`false`); otherwise the re-stamped entries are appended, the payload size is charged, and the
leader acknowledges to itself -/
theorem appendEntry_spec (r : Raft) (es : List Entry) :
    (¬ accepts r (payloadsSize es) → (appendEntry es).run r = .ok (false, r)) ∧
    (accepts r (payloadsSize es) → ∀ b r', (appendEntry es).run r = .ok (b, r') →
      b = true ∧ r'.uncommittedSize = r.uncommittedSize + payloadsSize es ∧
      ∃ li, r.log.append (cloneEntries r es) = .ok (r'.log, li) ∧
        r'.msgsAfterAppend = r.msgsAfterAppend ++
          [{ to := r.cfg.id, «from» := r.cfg.id, typ := .appResp, index := li, term := r.term }] ∧
        r'.msgs = r.msgs ∧ r'.trk = r.trk) := by
  rw [appendEntry_run]
  unfold accepts
  constructor
  · intro h; rw [if_pos (by omega)]
  · intro h b r' hrun
    rw [if_neg (by omega)] at hrun
    cases ha : r.log.append (cloneEntries r es) with
    | error e => rw [ha] at hrun; cases hrun
    | ok p =>
      rw [ha] at hrun
      obtain ⟨l, li⟩ := p
      injection hrun with hrun
      injection hrun with hb hr
      subst hr
      exact ⟨hb.symm, rfl, li, rfl, rfl, rfl, rfl⟩

/-- an empty payload is never dropped by `appendEntry` -/
theorem appendEntry_empty_not_dropped (r r' : Raft) (es : List Entry) (b : Bool)
    (h0 : payloadsSize es = 0) (h : (appendEntry es).run r = .ok (b, r')) : b = true :=
  ((appendEntry_spec r es).2 (Or.inr (Or.inl h0)) b r' h).1

/-- `reset` (raft.go:809) zeroes the uncommitted size, empties the read-only bookkeeping and gives
every follower a fresh progress with an empty inflight window of the configured limits -/
theorem reset_spec (term : Nat) (r r' : Raft) (h : (reset term).run r = .ok ((), r')) :
    r'.uncommittedSize = 0 ∧
    r'.readOnly.unconfirmed = [] ∧ r'.readOnly.acks = [] ∧ r'.readOnly.confirmedReads = 0 ∧
    r'.readOnly.option = r.readOnly.option ∧
    r'.cfg = r.cfg ∧ r'.term = term ∧
    (∀ id pr, (id, pr) ∈ r'.trk.progress →
      pr.inflights = { size := r.trk.maxInflight, maxBytes := r.trk.maxInflightBytes, q := [] } ∧
      pr.state = .probe ∧ pr.msgAppFlowPaused = false ∧ pr.match_ < pr.next) := by
  unfold reset resetRandomizedElectionTimeout abortLeaderTransfer at h
  simp only [StateT.run_bind, StateT.run_modify, StateT.run_get, P_pure_eq, P_ok_bind] at h
  by_cases ht : (r.term != term) = true
  all_goals
    simp only [ht, ↓reduceIte] at h
    split at h
    · cases h
    · simp only [StateT.run_set, P_pure_eq, P_ok_bind] at h
      injection h with h
      injection h with _ h
      subst h
      refine ⟨rfl, rfl, rfl, rfl, rfl, rfl, ?_, ?_⟩
      · first | rfl | (simp at ht; exact ht)
      · intro id pr hmem
        simp only [List.mem_map] at hmem
        obtain ⟨⟨id0, pr0⟩, _, heq⟩ := hmem
        injection heq with _ heq
        subst heq
        refine ⟨rfl, rfl, rfl, ?_⟩
        have hle : ∀ (c : Prop) [Decidable c] (a : Nat), (if c then a else 0) ≤ a := by
          intro c _ a; split <;> omega
        exact Nat.lt_succ_of_le (hle _ _)

end Raft

/-- whatever is sent, the inflight window keeps `count ≤ size` and its limits -/
theorem Progress.sentEntries_window (pr pr' : Progress) (n b : Nat) (hwf : pr.inflights.WF)
    (h : pr.sentEntries n b = .ok pr') :
    pr'.inflights.WF ∧ pr'.inflights.size = pr.inflights.size ∧
    pr'.inflights.maxBytes = pr.inflights.maxBytes ∧ pr'.state = pr.state := by
  cases hs : pr.state with
  | snapshot =>
    obtain ⟨e, he⟩ := Progress.sentEntries_snapshot pr n b hs
    rw [he] at h; cases h
  | probe =>
    obtain ⟨h1, _, _, h4, _⟩ := Progress.sentEntries_probe_spec pr pr' n b hs h
    rw [h1]; exact ⟨hwf, rfl, rfl, h4⟩
  | replicate =>
    rcases Nat.eq_zero_or_pos n with h0 | hpos
    · subst h0
      rw [Progress.sentEntries_replicate_zero pr b hs] at h
      injection h with h; subst h
      exact ⟨hwf, rfl, rfl, hs⟩
    · obtain ⟨_, _, _, _, _, h6, _, h8, h9, _, _, h12, _⟩ :=
        Progress.sentEntries_replicate_spec pr pr' n b hs hpos hwf h
      exact ⟨h6, h8, h9, h12⟩

namespace Raft

/-! ## 4. `maybeSendAppend` (raft.go) -/

/-- (a) a paused follower gets nothing: `maybeSendAppend` returns `false` and the state is unchanged -/
theorem maybeSendAppend_paused (to : Id) (b : Bool) (r : Raft) (pr : Progress)
    (hg : r.trk.getProgress to = some pr) (hp : pr.isPaused = true) :
    (maybeSendAppend to b).run r = .ok (false, r) := by
  rw [maybeSendAppend_run, hg]
  simp only [hp, ↓reduceIte]

/-- (a') in particular no `MsgApp` is ever created for a follower whose snapshot is pending -/
theorem maybeSendAppend_snapshot_pending (to : Id) (b : Bool) (r : Raft) (pr : Progress)
    (hg : r.trk.getProgress to = some pr) (hs : pr.state = .snapshot) :
    (maybeSendAppend to b).run r = .ok (false, r) :=
  maybeSendAppend_paused to b r pr hg (Progress.isPaused_of_snapshot pr hs)

/-- `maybeSendAppend` emits at most one message, addressed to `to` (never to the leader itself):
either a snapshot, or a `MsgApp` whose entries respect `MaxSizePerMsg` unless it is a single entry;
`msgsAfterAppend` is untouched -/
theorem maybeSendAppend_msgs (to : Id) (b : Bool) (r r' : Raft) (res : Bool)
    (h : (maybeSendAppend to b).run r = .ok (res, r')) :
    r'.msgsAfterAppend = r.msgsAfterAppend ∧
    ((res = false ∧ r'.msgs = r.msgs) ∨
     (res = true ∧ ∃ m, r'.msgs = r.msgs ++ [m] ∧ m.to = to ∧ to ≠ r.cfg.id ∧
      ((m.typ = .snap ∧ m.entries = []) ∨
       (m.typ = .app ∧ (entsSize m.entries ≤ r.cfg.maxMsgSize ∨ m.entries.length ≤ 1))))) := by
  obtain ⟨pr, _, h1 | ⟨h1, _, hto, h2⟩ | ⟨h1, _, hto, pt, ents, pr', _, hsz, _, _, _, h2⟩⟩ :=
    maybeSendAppend_outcome to b r r' res h
  · obtain ⟨h1, h2⟩ := h1; subst h2; exact ⟨rfl, Or.inl ⟨h1, rfl⟩⟩
  · subst h2
    refine ⟨rfl, Or.inr ⟨h1, _, rfl, by simp, hto, Or.inl ⟨by simp, by simp⟩⟩⟩
  · subst h2
    refine ⟨rfl, Or.inr ⟨h1, _, rfl, by simp [appMsg], hto, Or.inr ⟨by simp [appMsg], ?_⟩⟩⟩
    simpa [appMsg, SizeOK] using hsz

/-- (b) every `MsgApp` that `maybeSendAppend` adds to `msgs` carries entries of encoded size at most
`MaxSizePerMsg`, unless it carries a single entry -/
theorem maybeSendAppend_app_size (to : Id) (b : Bool) (r r' : Raft) (res : Bool)
    (h : (maybeSendAppend to b).run r = .ok (res, r')) (m : Message) (pre : List Message)
    (hm : r'.msgs = r.msgs ++ pre ++ [m]) (happ : m.typ = .app) :
    entsSize m.entries ≤ r.cfg.maxMsgSize ∨ m.entries.length ≤ 1 := by
  obtain ⟨_, h1 | ⟨_, m', hm', _, _, h2⟩⟩ := maybeSendAppend_msgs to b r r' res h
  · rw [h1.2] at hm
    have := congrArg List.length hm
    simp at this
  · rw [hm', List.append_assoc] at hm
    have hm := List.append_cancel_left hm
    have hlen := congrArg List.length hm
    simp only [List.length_cons, List.length_nil, List.length_append] at hlen
    have hpre : pre = [] := List.eq_nil_of_length_eq_zero (by omega)
    subst hpre
    simp only [List.nil_append, List.cons.injEq, and_true] at hm
    subst hm
    rcases h2 with ⟨hsn, _⟩ | ⟨_, hsz⟩
    · rw [hsn] at happ; cases happ
    · exact hsz

/-- (c) with a full inflight window a streaming follower is sent no entries: any `MsgApp` produced
is empty, and none is produced at all unless an empty one was asked for (`sendIfEmpty`) -/
theorem maybeSendAppend_full_window (to : Id) (b : Bool) (r r' : Raft) (res : Bool) (pr : Progress)
    (hg : r.trk.getProgress to = some pr) (hs : pr.state = .replicate)
    (hf : pr.inflights.full = true) (h : (maybeSendAppend to b).run r = .ok (res, r'))
    (m : Message) (hm : r'.msgs = r.msgs ++ [m]) (happ : m.typ = .app) :
    m.entries = [] ∧ b = true := by
  obtain ⟨pr0, hg0, h1 | ⟨_, _, _, h2⟩ | ⟨_, _, _, pt, ents, pr', _, _, hfull, hb, _, h2⟩⟩ :=
    maybeSendAppend_outcome to b r r' res h
  · obtain ⟨_, h2⟩ := h1; subst h2
    have := congrArg List.length hm
    simp at this
  · subst h2
    have hm := List.append_cancel_left hm
    simp only [List.cons.injEq, and_true] at hm
    rw [← hm] at happ
    simp at happ
  · rw [hg] at hg0; injection hg0 with hg0; subst hg0
    subst h2
    have hm := List.append_cancel_left hm
    simp only [List.cons.injEq, and_true] at hm
    have he := hfull hs hf
    subst he
    rw [← hm]
    exact ⟨by simp [appMsg], hb rfl⟩

/-- (d) after entries were sent to a streaming follower, its inflight window holds exactly one more
message, still `count ≤ size`; the bytes in flight before this message were below `maxBytes`
(only the one message crossing the byte limit may exceed it) -/
theorem maybeSendAppend_inflight_bound (to : Id) (b : Bool) (r r' : Raft) (res : Bool) (pr : Progress)
    (hg : r.trk.getProgress to = some pr) (hs : pr.state = .replicate) (hwf : pr.inflights.WF)
    (h : (maybeSendAppend to b).run r = .ok (res, r'))
    (m : Message) (hm : r'.msgs = r.msgs ++ [m]) (happ : m.typ = .app) (hne : m.entries ≠ []) :
    ∃ pr'', r'.trk.getProgress to = some pr'' ∧ pr''.state = .replicate ∧
      pr.inflights.full = false ∧
      pr''.inflights.WF ∧ pr''.inflights.count = pr.inflights.count + 1 ∧
      pr''.inflights.size = pr.inflights.size ∧ pr''.inflights.maxBytes = pr.inflights.maxBytes ∧
      pr''.inflights.bytes = pr.inflights.bytes + payloadsSize m.entries ∧
      (pr.inflights.maxBytes ≠ 0 → pr.inflights.bytes < pr.inflights.maxBytes) ∧
      pr''.next = pr.next + m.entries.length ∧
      pr''.msgAppFlowPaused = pr''.inflights.full := by
  obtain ⟨pr0, hg0, h1 | ⟨_, _, _, h2⟩ | ⟨_, _, _, pt, ents, pr', _, _, _, _, hsent, h2⟩⟩ :=
    maybeSendAppend_outcome to b r r' res h
  · obtain ⟨_, h2⟩ := h1; subst h2
    have := congrArg List.length hm
    simp at this
  · subst h2
    have hm := List.append_cancel_left hm
    simp only [List.cons.injEq, and_true] at hm
    rw [← hm] at happ
    simp at happ
  · rw [hg] at hg0; injection hg0 with hg0; subst hg0
    subst h2
    have hm := List.append_cancel_left hm
    simp only [List.cons.injEq, and_true] at hm
    have hents : m.entries = ents := by rw [← hm]; simp [appMsg]
    rw [hents] at hne ⊢
    have hpos : 0 < ents.length := List.length_pos_iff.mpr hne
    obtain ⟨h1, h2, _, h4, h5, h6, h7, h8, h9, h10, _, h12, _⟩ :=
      Progress.sentEntries_replicate_spec pr pr' ents.length (payloadsSize ents) hs hpos hwf hsent
    refine ⟨{ pr' with sentCommit := r.log.committed }, ?_, h12, h1, h6, h4, h8, h9, h5, h7, h2, h10⟩
    simp [afterApp, getProgress_setProgress]

/-- the window invariant of every follower (`Inflights.WF`: `count ≤ size`, and at most `maxBytes`
bytes beyond the one message that crossed the limit) survives `maybeSendAppend`: a leader never has
more than `MaxInflightMsgs` entry-bearing appends outstanding, nor more than `MaxInflightBytes`
beyond the one message that crosses the limit -/
theorem maybeSendAppend_preserves_window (to : Id) (b : Bool) (r r' : Raft) (res : Bool)
    (h : (maybeSendAppend to b).run r = .ok (res, r'))
    (hinv : ∀ id pr, r.trk.getProgress id = some pr → pr.inflights.WF) :
    ∀ id pr, r'.trk.getProgress id = some pr → pr.inflights.WF := by
  obtain ⟨pr0, hg0, h1 | ⟨_, _, _, h2⟩ | ⟨_, _, _, pt, ents, pr', _, _, _, _, hsent, h2⟩⟩ :=
    maybeSendAppend_outcome to b r r' res h
  · obtain ⟨_, h2⟩ := h1; subst h2; exact hinv
  · subst h2
    intro id pr hpr
    simp only [afterSnap, getProgress_setProgress] at hpr
    split at hpr
    · injection hpr with hpr; subst hpr
      exact Inflights.WF_of_count_zero _ (Progress.becomeSnapshot_spec pr0 r.log.snapshot.index).2.2.2.2.2.2.1
    · exact hinv id pr hpr
  · subst h2
    intro id pr hpr
    simp only [afterApp, getProgress_setProgress] at hpr
    split at hpr
    · injection hpr with hpr; subst hpr
      exact (Progress.sentEntries_window pr0 pr' _ _ (hinv to pr0 hg0) hsent).1
    · exact hinv id pr hpr

end Raft

namespace Raft

/-! ## 6. the limits survive the loops around `maybeSendAppend` (`sendAppend`, the `for
maybeSendAppend {}` loop, `bcastAppend`): configuration, log, term and uncommitted size are
untouched, messages are only appended, every appended `MsgApp` respects `MaxSizePerMsg` (or carries
one entry), and every inflight window stays well-formed (`Inflights.WF`) -/

theorem maybeSendAppend_appStep (to : Id) (b : Bool) (r r' : Raft) (res : Bool)
    (h : (maybeSendAppend to b).run r = .ok (res, r')) : AppStep r r' := by
  refine ⟨?_, ?_, maybeSendAppend_preserves_window to b r r' res h⟩
  · obtain ⟨pr, _, h1 | ⟨_, _, _, h2⟩ | ⟨_, _, _, _, _, _, _, _, _, _, _, h2⟩⟩ :=
      maybeSendAppend_outcome to b r r' res h
    · rw [h1.2]; exact ⟨rfl, rfl, rfl, rfl, rfl⟩
    · rw [h2]; exact ⟨rfl, rfl, rfl, rfl, rfl⟩
    · rw [h2]; exact ⟨rfl, rfl, rfl, rfl, rfl⟩
  · obtain ⟨_, h1 | ⟨_, m, hm, _, _, h2⟩⟩ := maybeSendAppend_msgs to b r r' res h
    · exact ⟨[], by simp [h1.2], by simp⟩
    · refine ⟨[m], hm, ?_⟩
      intro m' hm' happ
      simp only [List.mem_singleton] at hm'
      subst hm'
      rcases h2 with ⟨hs, _⟩ | ⟨_, hsz⟩
      · rw [hs] at happ; cases happ
      · exact hsz

theorem sendAppend_appStep (to : Id) (r r' : Raft) (u : Unit)
    (h : (sendAppend to).run r = .ok (u, r')) : AppStep r r' := by
  unfold sendAppend at h
  simp only [StateT.run_bind] at h
  cases hm : (maybeSendAppend to true).run r with
  | error e => rw [hm] at h; cases h
  | ok p =>
    rw [hm] at h
    obtain ⟨res, r''⟩ := p
    simp only [P_ok_bind, StateT.run_pure, P_pure_eq] at h
    injection h with h; injection h with _ h; subst h
    exact maybeSendAppend_appStep to true r r'' res hm

theorem sendAppendLoop_appStep (fuel : Nat) (to : Id) (r r' : Raft) (u : Unit)
    (h : (sendAppendLoop fuel to).run r = .ok (u, r')) : AppStep r r' := by
  induction fuel generalizing r with
  | zero =>
    simp only [sendAppendLoop, StateT.run_pure, P_pure_eq] at h
    injection h with h; injection h with _ h; subst h
    exact AppStep.refl r
  | succ n ih =>
    simp only [sendAppendLoop, StateT.run_bind] at h
    cases hm : (maybeSendAppend to false).run r with
    | error e => rw [hm] at h; cases h
    | ok p =>
      rw [hm] at h
      obtain ⟨res, r''⟩ := p
      simp only [P_ok_bind] at h
      have h1 := maybeSendAppend_appStep to false r r'' res hm
      cases res with
      | true =>
        simp only [↓reduceIte] at h
        exact h1.trans (ih r'' h)
      | false =>
        simp only [Bool.false_eq_true, ↓reduceIte, StateT.run_pure, P_pure_eq] at h
        injection h with h; injection h with _ h; subst h
        exact h1


theorem bcastAppend_appStep (r r' : Raft) (u : Unit) (h : bcastAppend.run r = .ok (u, r')) :
    AppStep r r' := by
  unfold bcastAppend progressIds at h
  simp only [StateT.run_bind, StateT.run_get, P_pure_eq, P_ok_bind, StateT.run_pure] at h
  cases hl : (forIn (List.map (fun x => x.fst) r.trk.progress) PUnit.unit fun id __s =>
              if (id != r.cfg.id) = true then do
                sendAppend id
                pure (ForInStep.yield PUnit.unit)
              else (pure (ForInStep.yield PUnit.unit) : M _)).run r with
  | error e => rw [hl] at h; cases h
  | ok p =>
    rw [hl] at h
    obtain ⟨u', r''⟩ := p
    injection h with h; injection h with _ h
    simp only at h
    subst h
    refine forIn_run_rel AppStep AppStep.refl (fun _ _ _ => AppStep.trans) _ ?_ _ r r'' u' hl
    intro id r1 s r2 hstep
    by_cases hid : (id != r.cfg.id) = true
    · simp only [hid, ↓reduceIte, StateT.run_bind] at hstep
      cases hs : (sendAppend id).run r1 with
      | error e => rw [hs] at hstep; cases hstep
      | ok q =>
        rw [hs] at hstep
        obtain ⟨u1, r1'⟩ := q
        simp only [P_ok_bind, StateT.run_pure, P_pure_eq] at hstep
        injection hstep with hstep; injection hstep with _ hstep; subst hstep
        exact sendAppend_appStep id r1 r1' u1 hs
    · simp only [hid, Bool.false_eq_true, ↓reduceIte, StateT.run_pure, P_pure_eq] at hstep
      injection hstep with hstep; injection hstep with _ hstep; subst hstep
      exact AppStep.refl r1

end Raft

namespace Raft

/-! ## 7. `stepLeader` on `MsgProp` (raft.go:1262-1330), for proposals of normal entries -/

/-- a leader whose uncommitted tail is over budget reports every non-empty proposal (of normal
entries) as dropped and does not change its state at all -/
theorem stepLeader_prop_dropped (fuel : Nat) (m : Message) (r : Raft) (hm : m.typ = .prop)
    (hne : m.entries ≠ []) (hself : (r.trk.getProgress r.cfg.id).isNone = false)
    (hlt : r.leadTransferee = 0) (hnorm : ∀ e ∈ m.entries, e.getType = .normal)
    (hrefuse : ¬ accepts r (payloadsSize m.entries)) :
    (stepLeader fuel m).run r = .ok (some .proposalDropped, r) := by
  rw [stepLeader_prop_run fuel m r hm hne hself hlt hnorm]
  simp only [StateT.run_bind, (appendEntry_spec r m.entries).1 hrefuse, P_ok_bind, Bool.not_false, ↓reduceIte,
    StateT.run_pure, P_pure_eq]

/-- in particular once `uncommittedSize ≥ MaxUncommittedEntriesSize` (and something is uncommitted)
every further non-empty proposal is dropped -/
theorem stepLeader_prop_dropped_over_budget (fuel : Nat) (m : Message) (r : Raft) (hm : m.typ = .prop)
    (hne : m.entries ≠ []) (hself : (r.trk.getProgress r.cfg.id).isNone = false)
    (hlt : r.leadTransferee = 0) (hnorm : ∀ e ∈ m.entries, e.getType = .normal)
    (hu : 0 < r.uncommittedSize) (hfull : r.cfg.maxUncommittedSize ≤ r.uncommittedSize)
    (hs : 0 < payloadsSize m.entries) :
    (stepLeader fuel m).run r = .ok (some .proposalDropped, r) :=
  stepLeader_prop_dropped fuel m r hm hne hself hlt hnorm (by unfold accepts; omega)

/-- an accepted proposal is never reported as dropped; exactly its payload is charged, and the
appends broadcast afterwards respect the size and window limits -/
theorem stepLeader_prop_accepted (fuel : Nat) (m : Message) (r r' : Raft) (res : Option StepErr)
    (hm : m.typ = .prop) (hne : m.entries ≠ [])
    (hself : (r.trk.getProgress r.cfg.id).isNone = false)
    (hlt : r.leadTransferee = 0) (hnorm : ∀ e ∈ m.entries, e.getType = .normal)
    (hacc : accepts r (payloadsSize m.entries))
    (h : (stepLeader fuel m).run r = .ok (res, r')) :
    res = none ∧ r'.uncommittedSize = r.uncommittedSize + payloadsSize m.entries ∧ r'.cfg = r.cfg ∧
    (∃ new, r'.msgs = r.msgs ++ new ∧
      ∀ m' ∈ new, m'.typ = .app → entsSize m'.entries ≤ r.cfg.maxMsgSize ∨ m'.entries.length ≤ 1) ∧
    (WindowsOK r → WindowsOK r') := by
  rw [stepLeader_prop_run fuel m r hm hne hself hlt hnorm] at h
  simp only [StateT.run_bind] at h
  rw [appendEntry_run, if_neg (by unfold accepts at hacc; omega)] at h
  cases ha : r.log.append (cloneEntries r m.entries) with
  | error e => rw [ha] at h; cases h
  | ok p =>
    rw [ha] at h
    obtain ⟨l, li⟩ := p
    simp only [P_ok_bind, Bool.not_true, Bool.false_eq_true, ↓reduceIte, StateT.run_bind] at h
    cases hb : bcastAppend.run { r with
        uncommittedSize := r.uncommittedSize + payloadsSize m.entries, log := l,
        msgsAfterAppend := r.msgsAfterAppend ++
          [{ to := r.cfg.id, «from» := r.cfg.id, typ := .appResp, index := li, term := r.term }] } with
    | error e => rw [hb] at h; cases h
    | ok q =>
      rw [hb] at h
      obtain ⟨u, r2⟩ := q
      simp only [P_ok_bind, StateT.run_pure, P_pure_eq] at h
      injection h with h; injection h with h1 h2; subst h2
      obtain ⟨⟨c1, _, _, c4, _⟩, hmsgs, hw⟩ := bcastAppend_appStep _ _ u hb
      exact ⟨h1.symm, c4, c1, hmsgs, hw⟩

end Raft

/-! ### non-vacuity on concrete states -/

/-- window of 2 messages / 10 bytes holding one 8-byte message -/
def exInfl : Inflights := { size := 2, maxBytes := 10, q := [(5, 8)] }

example : exInfl.WF := ⟨by decide, by intro _ _; decide⟩
example : exInfl.full = false := by decide
example : (exInfl.add 6 7).toOption = some { size := 2, maxBytes := 10, q := [(5, 8), (6, 7)] } := by decide
-- the message that crosses the byte limit is accepted, then the window is full (15 ≥ 10)
example : ((exInfl.add 6 7).toOption.map fun i => (i.bytes, i.full)) = some (15, true) := by decide
example : ((exInfl.add 6 7).toOption.bind fun i => (i.add 7 1).toOption) = none := by decide
example : (({ size := 3, q := [(5, 8), (6, 7), (9, 1)] } : Inflights).freeLE 6).q = [(9, 1)] := by decide

/-- a streaming follower with `Match = 4`, `Next = 6` -/
def exPr : Progress := { match_ := 4, next := 6, state := .replicate, inflights := exInfl }

example : exPr.WF := by unfold Progress.WF; decide
example : ((exPr.sentEntries 3 7).toOption.map fun p => (p.next, p.inflights.q, p.msgAppFlowPaused))
    = some (9, [(5, 8), (8, 7)], true) := by decide
example : (exPr.becomeSnapshot 20).isPaused = true ∧ (exPr.becomeSnapshot 20).next = 21 := by decide
example : (exPr.maybeDecrTo 5 2).1.next = 5 ∧ (exPr.maybeDecrTo 5 2).2 = true := by decide
example : (exPr.maybeDecrTo 4 2).2 = false := by decide
example : (exPr.maybeUpdate 7).1.match_ = 7 ∧ (exPr.maybeUpdate 7).1.next = 8 := by decide

/-- a leader with 10 uncommitted bytes and a budget of 12 -/
def exRaft : Raft := { cfg := { id := 1, maxUncommittedSize := 12 }, uncommittedSize := 10 }

example : ((Raft.increaseUncommittedSize [{ data := some [1, 2] }]).run exRaft).toOption.map
    (fun p => (p.1, p.2.uncommittedSize)) = some (true, 12) := by decide
example : ((Raft.increaseUncommittedSize [{ data := some [1, 2, 3] }]).run exRaft).toOption.map
    (fun p => (p.1, p.2.uncommittedSize)) = some (false, 10) := by decide
example : ((Raft.increaseUncommittedSize [{ data := none }]).run exRaft).toOption.map
    (fun p => (p.1, p.2.uncommittedSize)) = some (true, 10) := by decide
-- an oversized proposal is accepted when nothing is uncommitted ("plus one proposal")
example : ((Raft.increaseUncommittedSize [{ data := some (List.replicate 20 0) }]).run
    { exRaft with uncommittedSize := 0 }).toOption.map (fun p => (p.1, p.2.uncommittedSize)) = some (true, 20) := by decide

/-- a term-2 leader (id 1) with log [1.1, 2.2, 2.3] (committed 2) and one follower (id 2) -/
def exLeader (pr2 : Progress) : Raft :=
  { cfg := { id := 1, maxMsgSize := 8 }, term := 2, state := .leader,
    log := { storage := { ents := [{}, { term := 1, index := 1 }, { term := 2, index := 2 }, { term := 2, index := 3 }] },
             unstable := { offset := 4, offsetInProgress := 4 }, committed := 2 },
    trk := { cfg := { voters := [1, 2] }, maxInflight := 1,
             progress := [(1, { match_ := 3, next := 4, state := .replicate, inflights := { size := 1 } }), (2, pr2)] } }

/-- follower 2 streaming, window of one message already used up -/
def exFullPr : Progress :=
  { match_ := 1, next := 3, state := .replicate, recentActive := true, msgAppFlowPaused := false,
    inflights := { size := 1, q := [(2, 0)] } }


example : ((Raft.maybeSendAppend 2 true).run (exLeader exFullPr)).toOption.map
    (fun p => p.1) = some true := by decide
example : ((Raft.maybeSendAppend 2 true).run (exLeader exFullPr)).toOption.map
    (fun p => p.2.msgs.map (fun m => [m.typ.toNat, m.to, m.from, m.term, m.index, m.logTerm, m.entries.length, m.commit]))
    = some [[3, 2, 1, 2, 2, 2, 0, 2]] := by decide
example : ((Raft.maybeSendAppend 2 true).run (exLeader exFullPr)).toOption.map
    (fun p => (p.2.trk.getProgress 2).map (fun pr => (pr.next, pr.inflights.q, pr.msgAppFlowPaused)))
    = some (some (3, [(2, 0)], true)) := by decide
-- full window, `sendIfEmpty = false`: nothing happens
example : ((Raft.maybeSendAppend 2 false).run (exLeader exFullPr)).toOption.map
    (fun p => (p.1, p.2.msgs.length)) = some (false, 0) := by decide
-- snapshot pending: nothing happens
example : ((Raft.maybeSendAppend 2 true).run
      (exLeader { exFullPr with state := .snapshot, pendingSnapshot := 3, next := 4 })).toOption.map
    (fun p => (p.1, p.2.msgs.length)) = some (false, 0) := by decide


def exStreamPr : Progress :=
  { match_ := 1, next := 2, state := .replicate, recentActive := true, inflights := { size := 1 } }

def exStreamPr' : Progress :=
  { match_ := 1, next := 4, state := .replicate, recentActive := true, msgAppFlowPaused := true,
    inflights := { size := 1, q := [(3, 0)] } }

-- streaming follower with room in the window: two entries (4+4 bytes ≤ MaxSizePerMsg = 8) go out,
-- one inflight (3, 0 payload bytes) is recorded, the window (size 1) is now full and the flow paused
example : ∃ r', (Raft.maybeSendAppend 2 false).run (exLeader exStreamPr) = .ok (true, r') ∧
    r'.msgs.map (fun m => (m.index, m.entries.length)) = [(1, 2)] ∧
    (r'.trk.getProgress 2).map (fun pr => (pr.next, pr.inflights.q, pr.msgAppFlowPaused))
      = some (4, [(3, 0)], true) := by
  have hg : (exLeader exStreamPr).trk.getProgress 2 = some exStreamPr := by decide
  have hp : exStreamPr.isPaused = false := by decide
  have ht : (exLeader exStreamPr).log.term (usub exStreamPr.next 1) = .ok 1 := by rfl
  have hc : (exStreamPr.state != .replicate || !exStreamPr.inflights.full) = true := by decide
  have hents : (exLeader exStreamPr).log.entries exStreamPr.next (exLeader exStreamPr).cfg.maxMsgSize
      = .ok (.ok [{ term := 2, index := 2 }, { term := 2, index := 3 }]) := by
    show (exLeader exStreamPr).log.entries 2 8 = _
    simp [exLeader, RaftLog.entries, RaftLog.lastIndex, Unstable.maybeLastIndex, MemoryStorage.lastIndex,
      MemoryStorage.offset, RaftLog.slice, RaftLog.mustCheckOutOfBounds, RaftLog.firstIndex, Unstable.maybeFirstIndex,
      MemoryStorage.firstIndex, MemoryStorage.entries, limitSize, limitSizeAux, entrySize, varintLen_small_flow, bind, Except.bind, pure, Except.pure]
  have hsent : exStreamPr.sentEntries 2 0 = .ok exStreamPr' := by
    rw [Progress.sentEntries_replicate_pos _ _ _ rfl (by decide), Inflights.add_ok _ _ _ (by decide)]
    rfl
  rw [Raft.maybeSendAppend_run, hg]
  simp only [hp, Bool.false_eq_true, ↓reduceIte, ht, hc, hents]
  unfold Raft.appTail
  have hne : ¬ ((2 : Id) = (exLeader exStreamPr).cfg.id) := by decide
  have hpl : payloadsSize [({ term := 2, index := 2 } : Entry), { term := 2, index := 3 }] = 0 := by decide
  simp only [List.length_cons, List.length_nil, hne, hpl, hsent, ↓reduceIte, Bool.false_eq_true]
  refine ⟨_, rfl, ?_, ?_⟩
  · simp [exLeader, Raft.appMsg]; decide
  · decide

/-- a leader (id 1) that is a member, with 10 uncommitted bytes and a budget of 12 -/
def exPropLeader : Raft :=
  { cfg := { id := 1, maxUncommittedSize := 12 }, uncommittedSize := 10, state := .leader,
    trk := { cfg := { voters := [1] }, progress := [(1, { match_ := 0, next := 1, state := .replicate })] } }

-- a 3-byte proposal does not fit (10 + 3 > 12): reported as dropped, state unchanged
example : (Raft.stepLeader 1 { typ := .prop, entries := [{ data := some [1, 2, 3] }] }).run exPropLeader
    = .ok (some .proposalDropped, exPropLeader) :=
  Raft.stepLeader_prop_dropped 1 _ exPropLeader rfl (by simp) (by decide) rfl
    (by intro e he; simp at he; subst he; rfl) (by unfold Raft.accepts; decide)

end RaftVerif
