import RaftVerif.Props.SimulationCorollaries
import RaftVerif.Props.SimulationExample
/-!
# Props/SimulationCorollariesExample — non-vacuity of the corollaries

The hypotheses of the theorems of `Props/SimulationCorollaries.lean` are satisfiable: they are instantiated on the
reachable cluster at the end of the schedule `Simulation.ops` (election of node 1, two entries committed on nodes 1
and 2; `Simulation.example_run`, `Simulation.example_reachable`).  The facts about the concrete cluster come from
kernel evaluation; the conclusions come from the theorems.
-/
namespace RaftVerif.SimCor
open Sim Refine Simulation

/-- what we observe of a network message -/
structure MsgObs where
  typ : MsgType
  reject : Bool
  sender : Nat
  to : Nat
  term : Nat
  index : Nat
  deriving DecidableEq, Repr

def obsMsg (c : Cluster) (i : Nat) : Option MsgObs :=
  c.net[i]?.map fun m => ⟨m.typ, m.reject, m.from, m.to, m.term, m.index⟩

/-- the two messages we look at -/
structure NetObs where
  vote : Option MsgObs
  ack : Option MsgObs
  deriving DecidableEq, Repr

/-- kernel evaluation: at the end of `ops` the network holds (at 2) the vote of node 2 for node 1 in term 1 and (at 8)
the acknowledgement of index 2 by node 2 in term 1 -/
theorem example_net :
    (runOps c0 ops).map (fun c => (⟨obsMsg c 2, obsMsg c 8⟩ : NetObs)) =
      some ⟨some ⟨.voteResp, false, 2, 1, 1, 0⟩, some ⟨.appResp, false, 2, 1, 1, 2⟩⟩ := by
  rw [← runOpsK_eq]; decide +kernel

/-- the cluster at the end of `ops`, with everything the instantiations need -/
theorem example_facts : ∃ c r1 r2 mv ma, CReachable c0 c ∧ c.nodes 1 = some r1 ∧ c.nodes 2 = some r2 ∧
    r1.raft.state = .leader ∧ r1.raft.term = 1 ∧ r2.raft.term = 1 ∧ r2.raft.log.committed = 2 ∧
    r1.raft.log.abs.ents = exLog ∧ r2.raft.log.abs.ents = exLog ∧
    mv ∈ c.net ∧ mv.typ = .voteResp ∧ mv.reject = false ∧ mv.from = 2 ∧ mv.to = 1 ∧ mv.term = 1 ∧
    ma ∈ c.net ∧ ma.typ = .appResp ∧ ma.reject = false ∧ ma.from = 2 ∧ ma.term = 1 ∧ ma.index = 2 := by
  obtain ⟨c, hc, _, _, h1, h2, _, _⟩ := example_run
  have hr : CReachable c0 c := runOps_reachable .init hc
  obtain ⟨r1, ha, hva⟩ := of_map_eq h1
  obtain ⟨r2, hb, hvb⟩ := of_map_eq h2
  simp only [NodeObs.mk.injEq] at hva hvb
  have hnet := example_net
  rw [hc] at hnet
  simp only [Option.map_some, Option.some.injEq, NetObs.mk.injEq] at hnet
  obtain ⟨hv, hk⟩ := hnet
  obtain ⟨mv, hmv, hmv'⟩ := of_map_eq hv
  obtain ⟨ma, hma, hma'⟩ := of_map_eq hk
  simp only [MsgObs.mk.injEq] at hmv' hma'
  exact ⟨c, r1, r2, mv, ma, hr, ha, hb, hva.1, hva.2.1, hvb.2.1, hvb.2.2.1, hva.2.2.2.2, hvb.2.2.2.2,
    List.mem_of_getElem? hmv, hmv'.1, hmv'.2.1, hmv'.2.2.1, hmv'.2.2.2.1, hmv'.2.2.2.2.1,
    List.mem_of_getElem? hma, hma'.1, hma'.2.1, hma'.2.2.1, hma'.2.2.2.2.1, hma'.2.2.2.2.2⟩

/-- **the hypotheses of the corollaries are satisfiable**: on the cluster at the end of `ops`
* `cluster_log_matching` (nodes 1, 2 at `i = 2`, prefix index `j = 1`),
* `cluster_leader_completeness` (leader 1, node 2 with term 1 and commit index 2, `i = 2`),
* `cluster_vote_durable` (the vote of node 2 for node 1), `cluster_ack_durable` and `cluster_ack_matches_leader` (the
  acknowledgement of index 2 by node 2),
* `cluster_one_leader_per_term` (node 1 against itself — there is a leader),
* `cluster_commit_within_log`, `cluster_stored_behind_volatile`, `cluster_leader_term_durable`
apply; every conjunct after the first comes from the theorem named, not from evaluation -/
theorem example_corollaries : ∃ (c : Cluster) (r1 r2 : RawNode) (mv ma : Message), CReachable c0 c ∧
    -- log matching at index 1, from equal terms at index 2
    (∃ x y : Entry, r1.raft.log.abs.ents[1 - 1]? = some x ∧ r2.raft.log.abs.ents[1 - 1]? = some y ∧
      x.term = y.term ∧ x.typ = y.typ ∧ x.data = y.data ∧ x.index = 1 ∧ y.index = 1) ∧
    -- leader completeness at index 2
    (∃ x y : Entry, r1.raft.log.abs.ents[2 - 1]? = some x ∧ r2.raft.log.abs.ents[2 - 1]? = some y ∧
      x.term = y.term ∧ x.typ = y.typ ∧ x.data = y.data ∧ x.index = 2 ∧ y.index = 2) ∧
    -- the vote of node 2 is durable
    (mv.typ = .voteResp ∧ mv.reject = false ∧ c.nodes mv.from = some r2 ∧
      ((r2.raft.log.storage.hardState.getD {}).term > mv.term ∨
        ((r2.raft.log.storage.hardState.getD {}).term = mv.term ∧
          (r2.raft.log.storage.hardState.getD {}).vote = mv.to))) ∧
    -- the acknowledgement of node 2 is durable
    (ma.typ = .appResp ∧ ma.reject = false ∧ 1 ≤ ma.index ∧
      ma.term ≤ (r2.raft.log.storage.hardState.getD {}).term) ∧
    -- commit within log, stored behind volatile, the leader's term is durable
    r2.raft.log.committed ≤ r2.raft.log.lastIndex ∧
    (r2.raft.log.storage.hardState.getD {}).commit ≤ r2.raft.log.committed ∧
    (r1.raft.log.storage.hardState.getD {}).term = r1.raft.term := by
  obtain ⟨c, r1, r2, mv, ma, hr, h1, h2, hlead, ht1, ht2, hc2, hl1, hl2, hmv, vt, vr, vf, vto, vterm,
    hma, at_, ar, af, aterm, aidx⟩ := example_facts
  have hs : ([1, 2, 3] : List Id).Pairwise (· < ·) := by decide
  have h0 : 0 ∉ ([1, 2, 3] : List Id) := by decide
  have hne : ([1, 2, 3] : List Id) ≠ [] := by decide
  have e1 : r1.raft.log.abs.ents[2 - 1]? = some { term := 1, index := 2, data := some [7] } := by rw [hl1]; rfl
  have e2 : r2.raft.log.abs.ents[2 - 1]? = some { term := 1, index := 2, data := some [7] } := by rw [hl2]; rfl
  have hv2 : c.nodes mv.from = some r2 := by rw [vf]; exact h2
  have ha2 : c.nodes ma.from = some r2 := by rw [af]; exact h2
  refine ⟨c, r1, r2, mv, ma, hr, ?_, ?_, ⟨vt, vr, hv2, ?_⟩, ⟨at_, ar, by rw [aidx]; decide, ?_⟩, ?_, ?_, ?_⟩
  · exact cluster_log_matching hs h0 hne c0_init hr h1 h2 (by decide : 1 ≤ 2) e1 e2 rfl (Nat.le_refl 1) (by decide)
  · exact cluster_leader_completeness hs h0 hne c0_init hr h1 h2 hlead (by rw [ht1, ht2]; exact Nat.le_refl 1) (by decide : 1 ≤ 2)
      (by rw [hc2]; exact Nat.le_refl 2)
  · exact cluster_vote_durable hs h0 hne c0_init hr hmv vt vr hv2
  · exact (cluster_ack_durable hs h0 hne c0_init hr hma at_ ar (by rw [aidx]; decide) ha2).1
  · exact (cluster_commit_within_log hs h0 hne c0_init hr h2).1
  · exact (cluster_stored_behind_volatile hs h0 hne c0_init hr h2).2.1
  · exact cluster_leader_term_durable hs h0 hne c0_init hr h1 hlead

/-- `cluster_ack_matches_leader` and `cluster_one_leader_per_term` apply on the same cluster: the stored term of node
2 is 1 (by `cluster_ack_durable` and `cluster_stored_behind_volatile`, not by evaluation), node 1 is a live leader of
term 1, so the storage of node 2 agrees with the leader's log at index 2 ≤ the acknowledged index -/
theorem example_ack_matches_leader : ∃ (c : Cluster) (r1 r2 : RawNode), CReachable c0 c ∧
    c.nodes 1 = some r1 ∧ c.nodes 2 = some r2 ∧ r1.raft.state = .leader ∧
    (∃ x y : Entry, r1.raft.log.abs.ents[2 - 1]? = some x ∧ r2.raft.log.storage.abs.ents[2 - 1]? = some y ∧
      x.term = y.term ∧ x.typ = y.typ ∧ x.data = y.data ∧ x.index = 2 ∧ y.index = 2) ∧
    (∀ b rb, c.nodes b = some rb → rb.raft.state = .leader → rb.raft.term = r1.raft.term → b = 1) := by
  obtain ⟨c, r1, r2, mv, ma, hr, h1, h2, hlead, ht1, ht2, hc2, hl1, hl2, hmv, vt, vr, vf, vto, vterm,
    hma, at_, ar, af, aterm, aidx⟩ := example_facts
  have hs : ([1, 2, 3] : List Id).Pairwise (· < ·) := by decide
  have h0 : 0 ∉ ([1, 2, 3] : List Id) := by decide
  have hne : ([1, 2, 3] : List Id) ≠ [] := by decide
  have ha2 : c.nodes ma.from = some r2 := by rw [af]; exact h2
  have hge := (cluster_ack_durable hs h0 hne c0_init hr hma at_ ar (by rw [aidx]; decide) ha2).1
  have hle := (cluster_stored_behind_volatile hs h0 hne c0_init hr h2).1
  have hst : (r2.raft.log.storage.hardState.getD {}).term = ma.term := by
    rw [aterm] at hge ⊢
    rw [ht2] at hle
    omega
  refine ⟨c, r1, r2, hr, h1, h2, hlead, ?_, ?_⟩
  · exact cluster_ack_matches_leader hs h0 hne c0_init hr hma at_ ar ha2 hst h1 hlead (by rw [ht1, aterm])
      (by decide : 1 ≤ 2) (by rw [aidx]; exact Nat.le_refl 2)
  · intro b rb hb hlb htb
    exact cluster_one_leader_per_term hs h0 hne c0_init hr hb h1 hlb hlead htb

/-- `cluster_hardstate_monotone` applies to a **crash** step: the crash of node 2 after `ops ++ opsMore` (first
operation of `opsCrash`) is an environment step from a reachable cluster; node 2 is live before (term 1, commit 2)
and after it, and — by the theorem — its hard state advanced legally or it resumed from its stored hard state -/
theorem example_crash_step : ∃ (c c' : Cluster) (r2 r2' : RawNode), CReachable c0 c ∧ EnvStep c c' ∧
    c.nodes 2 = some r2 ∧ c'.nodes 2 = some r2' ∧ r2.raft.log.committed = 2 ∧ r2'.raft.log.committed = 2 ∧
    ((r2.raft.term ≤ r2'.raft.term ∧
        (r2'.raft.term = r2.raft.term → r2'.raft.vote = r2.raft.vote ∨ r2.raft.vote = 0) ∧
        r2.raft.log.committed ≤ r2'.raft.log.committed) ∨
      RawNode.hardState r2'.raft = r2.raft.log.storage.hardState.getD {}) := by
  obtain ⟨c, hc, _, ho2, _, _⟩ := example_run_more
  obtain ⟨c', hc', ho'⟩ := of_map_eq example_eval_crash2
  have hr : CReachable c0 c := runOps_reachable .init hc
  have hstep : EnvStep c c' := by
    rw [runOps_append, hc] at hc'
    simp only [Option.bind_some] at hc'
    have e : opsCrash.take 1 = [.crash 2 [0]] := rfl
    rw [e, runOps_cons] at hc'
    cases h1 : runOp c (.crash 2 [0]) with
    | none => rw [h1] at hc'; cases hc'
    | some c1 =>
      rw [h1] at hc'
      simp only [Option.bind_some, runOps_nil, Option.some.injEq] at hc'
      subst hc'
      exact runOp_step h1
  simp only [obsCluster, ClusterObs.mk.injEq] at ho'
  obtain ⟨r2, h2, hv2⟩ := of_map_eq ho2
  obtain ⟨r2', h2', hv2'⟩ := of_map_eq ho'.2.1
  simp only [NodeObs.mk.injEq] at hv2 hv2'
  exact ⟨c, c', r2, r2', hr, hstep, h2, h2', hv2.2.2.1, hv2'.2.2.1,
    cluster_hardstate_monotone (by decide) (by decide) (by decide) c0_init hr hstep h2 h2'⟩

end RaftVerif.SimCor
