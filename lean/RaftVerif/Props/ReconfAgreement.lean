import RaftVerif.Props.ReconfSafety
import RaftVerif.Proofs.ReconfAgreeChain
/-!
# C10, cross-node clause: every node computes the same configuration at the same index

For every initial configuration `c0` with `c0.wf` and every `Reachable c0 s` of the abstract
protocol with membership changes (`Spec/Reconf`):

* `committed_prefix_agree` — any two versions (volatile / durable / handed out) of any two nodes
  hold the same log up to the smaller of their commit indexes;
* `same_applied_same_configuration` — at any index both nodes have applied, both compute the same
  configuration; nodes with equal applied index have equal active configurations;
* `configuration_history_is_chain` — the configurations a node goes through as `applied` grows
  form a chain of allowed transitions, one per configuration entry;
* `active_is_fold_of_committed` — the active configuration is determined by the committed prefix.
-/
namespace RaftVerif.SpecR

/-! ### Statements -/

/-- any two versions anywhere agree on the log up to the smaller of their commit indexes -/
def CommittedPrefixAgree (s : State) : Prop :=
  ∀ a b v w, v ∈ versions (s.nodes a) → w ∈ versions (s.nodes b) →
    ∀ i, i ≤ v.commit → i ≤ w.commit → v.log.take i = w.log.take i

/-- at an index within the commit index of two versions anywhere, both compute the same configuration -/
def CommittedConfigurationAgree (c0 : Conf) (s : State) : Prop :=
  ∀ a b v w, v ∈ versions (s.nodes a) → w ∈ versions (s.nodes b) →
    ∀ k, k ≤ v.commit → k ≤ w.commit → v.log.cfgAt c0 k = w.log.cfgAt c0 k

/-- at an index both nodes have applied, both compute the same configuration -/
def SameAppliedSameConfiguration (c0 : Conf) (s : State) : Prop :=
  ∀ a b k, k ≤ (s.nodes a).applied → k ≤ (s.nodes b).applied →
    (s.nodes a).vol.log.cfgAt c0 k = (s.nodes b).vol.log.cfgAt c0 k

/-- nodes with the same applied index have the same active configuration -/
def SameAppliedSameActive (c0 : Conf) (s : State) : Prop :=
  ∀ a b, (s.nodes a).applied = (s.nodes b).applied → (s.nodes a).active c0 = (s.nodes b).active c0

/-! ### The configuration history -/

/-- the configurations a node goes through as `applied` grows: from the configuration at `k` to
the one at `k' ≥ k` (both applied) through exactly the configuration entries in `(k, k']`, each an
allowed transition (`Conf.allowed`: simple one-voter change, enter joint, leave joint) -/
def ConfigurationHistoryIsChain (c0 : Conf) (s : State) : Prop :=
  ∀ n k k', k ≤ k' → k' ≤ (s.nodes n).applied →
    CfgPath ((s.nodes n).vol.log.cfgAt c0 k) ((s.nodes n).vol.log.cfgsIn k k')
      ((s.nodes n).vol.log.cfgAt c0 k')

/-- all nodes go through the same configuration changes: the configuration entries in `(k, k']`
are the same at any two nodes that have applied `k'` -/
def SameConfigurationHistory (s : State) : Prop :=
  ∀ a b k k', k' ≤ (s.nodes a).applied → k' ≤ (s.nodes b).applied →
    (s.nodes a).vol.log.cfgsIn k k' = (s.nodes b).vol.log.cfgsIn k k'

/-- the active configuration is a function of the committed prefix only: it is what any version
anywhere whose commit index covers the node's applied index computes at that index, and every
index/entry pair ever recorded as committed that lies within a node's commit index is in its log -/
def ActiveIsFoldOfCommitted (c0 : Conf) (s : State) : Prop :=
  (∀ n b w, w ∈ versions (s.nodes b) → (s.nodes n).applied ≤ w.commit →
    (s.nodes n).active c0 = w.log.cfgAt c0 (s.nodes n).applied) ∧
  (∀ n v, v ∈ versions (s.nodes n) → ∀ i e t, (i, e, t) ∈ s.committed → i ≤ v.commit →
    v.log.at? i = some e)

variable (c0 : Conf) (hc0 : c0.wf) (s : State) (h : Reachable c0 s)
include hc0 h

/-- **C01/C03 across nodes**: committed prefixes agree, for all versions of all nodes -/
theorem committed_prefix_agree_versions : CommittedPrefixAgree s := by
  have hi := invAll_reachable hc0 h
  intro a b v w hv hw i h1 h2
  exact prefixCommitted_agree hi.hC hi.h3 (hi.h3.ver_commit a v hv) (hi.h3.ver_commit b w hw) h1 h2

/-- item 1, volatile versions: `i ≤ min commit_a commit_b → take i log_a = take i log_b` -/
theorem committed_prefix_agree (a b : NodeId) (i : Nat)
    (hi : i ≤ min (s.nodes a).vol.commit (s.nodes b).vol.commit) :
    (s.nodes a).vol.log.take i = (s.nodes b).vol.log.take i :=
  committed_prefix_agree_versions c0 hc0 s h a b _ _ (by simp [versions]) (by simp [versions]) i
    (Nat.le_trans hi (Nat.min_le_left _ _)) (Nat.le_trans hi (Nat.min_le_right _ _))

/-- item 1, durable versions -/
theorem committed_prefix_agree_durable (a b : NodeId) (i : Nat)
    (hi : i ≤ min (s.nodes a).dur.commit (s.nodes b).dur.commit) :
    (s.nodes a).dur.log.take i = (s.nodes b).dur.log.take i :=
  committed_prefix_agree_versions c0 hc0 s h a b _ _ (by simp [versions]) (by simp [versions]) i
    (Nat.le_trans hi (Nat.min_le_left _ _)) (Nat.le_trans hi (Nat.min_le_right _ _))

/-- **C10**, all versions: the configuration at a committed index is the same everywhere -/
theorem committed_configuration_agree : CommittedConfigurationAgree c0 s := by
  intro a b v w hv hw k h1 h2
  exact cfgAt_congr c0 (committed_prefix_agree_versions c0 hc0 s h a b v w hv hw k h1 h2)

/-- **C10**: every node computes the same configuration at the same (applied) index -/
theorem same_applied_same_configuration : SameAppliedSameConfiguration c0 s := by
  have hi := invAll_reachable hc0 h
  intro a b k ha hb
  apply cfgAt_congr
  exact committed_prefix_agree_versions c0 hc0 s h a b _ _ (by simp [versions]) (by simp [versions]) k
    (Nat.le_trans ha (hi.hC.applied_le a)) (Nat.le_trans hb (hi.hC.applied_le b))

/-- **C10**: equal applied index, equal active configuration -/
theorem same_applied_same_active : SameAppliedSameActive c0 s := by
  intro a b hab
  unfold Node.active
  rw [← hab]
  exact same_applied_same_configuration c0 hc0 s h a b _ (Nat.le_refl _) (by omega)

/-- item 3: the configurations a node goes through form a chain of allowed transitions -/
theorem configuration_history_is_chain : ConfigurationHistoryIsChain c0 s := by
  have hi := invAll_reachable hc0 h
  intro n k k' hk hk'
  have hch := cfg_transitions_allowed c0 hc0 s h n (s.nodes n).vol (by simp [versions])
  have h1 := hi.hC.applied_le n
  have h2 := hi.h2.ver_commit n (s.nodes n).vol (by simp [versions])
  exact cfgPath_of_chain hch hk (by omega)

/-- item 3: in particular the active configuration is reached from the initial one through all
applied configuration entries -/
theorem active_reached_from_initial (n : NodeId) :
    CfgPath c0 ((s.nodes n).vol.log.cfgsIn 0 (s.nodes n).applied) ((s.nodes n).active c0) := by
  have := configuration_history_is_chain c0 hc0 s h n 0 _ (Nat.zero_le _) (Nat.le_refl _)
  rwa [cfgAt_zero] at this

/-- item 3: the applied configuration entries are the same at all nodes -/
theorem same_configuration_history : SameConfigurationHistory s := by
  have hi := invAll_reachable hc0 h
  intro a b k k' ha hb
  unfold Log.cfgsIn
  rw [committed_prefix_agree_versions c0 hc0 s h a b _ _ (by simp [versions]) (by simp [versions]) k'
    (Nat.le_trans ha (hi.hC.applied_le a)) (Nat.le_trans hb (hi.hC.applied_le b))]

/-- item 3: the active configuration depends only on the committed prefix -/
theorem active_is_fold_of_committed : ActiveIsFoldOfCommitted c0 s := by
  have hi := invAll_reachable hc0 h
  refine ⟨fun n b w hw hle => ?_, fun n v hv i e t hcm hle => ?_⟩
  · unfold Node.active
    apply cfgAt_congr
    exact committed_prefix_agree_versions c0 hc0 s h n b _ w (by simp [versions]) hw _
      (hi.hC.applied_le n) hle
  · obtain ⟨c, j, _, hij, hch, hat⟩ := hi.h3.committed_chosen i e t hcm
    have hp : PrefixCommitted c0 s c (s.glog c) j := Or.inr ⟨c, j, Nat.le_refl _, Nat.le_refl _, hch, rfl⟩
    rw [← hat]
    exact Log.at?_congr (prefixCommitted_agree hi.hC hi.h3 (hi.h3.ver_commit n v hv) hp hle hij)

end RaftVerif.SpecR
