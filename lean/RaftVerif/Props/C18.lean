import RaftVerif.Proofs.LogRun
/-!
# C18  Log storage views behave like one abstract log

Property theorems only; definitions (`ALog`, `Contig`, the invariants `MemoryStorage.WF`,
`Unstable.WF`, `RaftLog.WF`, the abstraction functions `MemoryStorage.abs`, `RaftLog.abs`) are in
`Proofs/LogDefs.lean` and `Proofs/LogInv.lean`, helper lemmas in `Proofs/Log*.lean`.

All statements hold for every input (no bound on sizes or indexes).  The model functions return
`Except String _` for a Go panic (the string names the panic site) and `Except StorageErr _` for a Go
`error` value.

Reading guide.  `a : ALog` is an abstract log: `a.base` (everything up to it is compacted, its term is
`a.baseTerm`) and `a.ents`, the entries at `a.base+1, a.base+2, …` (`a.first = a.base+1`,
`a.last = a.base + a.ents.length`).  `a.term? i` is `some` exactly for `a.base ≤ i ≤ a.last`;
`a.slice lo hi` are the entries with index in `[lo, hi)`.
-/
namespace RaftVerif.C18

/-! ## a concrete non-trivial state used for the non-vacuity examples

storage: compacted up to index 3 (term 1), holds 4,5,6; unstable: entries 6,7,8 from offset 6 (so index 6
is both in storage and unstable), entry 6 already handed to the storage thread (`offsetInProgress = 7`) -/

def ent (t i : Nat) : Entry := { term := t, index := i }

def exStorage : MemoryStorage :=
  { snapshot := { index := 3, term := 1 }, ents := [ent 1 3, ent 1 4, ent 2 5, ent 2 6] }

def exLog : RaftLog :=
  { storage := exStorage,
    unstable := { offset := 6, entries := [ent 2 6, ent 3 7, ent 3 8], offsetInProgress := 7 },
    committed := 7, applying := 4, applied := 3, maxApplyingEntsSize := 1000 }

/-- the same with a pending unstable snapshot at index 9 -/
def exLogSnap : RaftLog :=
  { storage := exStorage,
    unstable := { offset := 10, entries := [ent 5 10], offsetInProgress := 10,
                  snapshot := some { index := 9, term := 4 } },
    committed := 9, applying := 4, applied := 3, maxApplyingEntsSize := 1000 }

example : exStorage.WF := by decide
example : exLog.WF := by decide
example : exLogSnap.WF := by decide
example : exLog.abs.ents = [ent 1 4, ent 2 5, ent 2 6, ent 3 7, ent 3 8] ∧ exLog.abs.base = 3 := by decide
example : exLogSnap.abs.ents = [ent 5 10] ∧ exLogSnap.abs.base = 9 ∧ exLogSnap.abs.baseTerm = 4 := by decide

/-! ## `limitSize` -/

/-- the result is a prefix of the input -/
theorem limitSize_prefix (es : List Entry) (m : Nat) : limitSize es m <+: es :=
  RaftVerif.limitSize_prefix es m

/-- non-empty input gives a non-empty result -/
theorem limitSize_ne_nil (es : List Entry) (m : Nat) (h : es ≠ []) : limitSize es m ≠ [] :=
  RaftVerif.limitSize_ne_nil es m h

/-- the total size is within the budget unless the result is a single entry -/
theorem limitSize_size (es : List Entry) (m : Nat) :
    entsSize (limitSize es m) ≤ m ∨ (limitSize es m).length = 1 :=
  RaftVerif.limitSize_size es m

/-- maximal: if an entry was left out, including the next one would exceed the budget -/
theorem limitSize_maximal (es : List Entry) (m : Nat) (hlt : (limitSize es m).length < es.length) :
    m < entsSize (es.take ((limitSize es m).length + 1)) :=
  RaftVerif.limitSize_maximal es m hlt

/-- the four properties above determine the result -/
theorem limitSize_unique (es r : List Entry) (m : Nat)
    (hpre : r <+: es) (hne : es ≠ [] → r ≠ [])
    (hsz : entsSize r ≤ m ∨ r.length = 1)
    (hmax : r.length < es.length → m < entsSize (es.take (r.length + 1))) :
    r = limitSize es m :=
  RaftVerif.limitSize_unique es r m hpre hne hsz hmax

example : limitSize [ent 1 4, ent 2 5, ent 2 6] 9 = [ent 1 4, ent 2 5] := by
  simp [limitSize, limitSizeAux, entrySize, ent, varintLen_small]
example : limitSize [ent 1 4, ent 2 5, ent 2 6] 0 = [ent 1 4] := by
  simp [limitSize, limitSizeAux, entrySize, ent, varintLen_small]

/-! ## MemoryStorage -/

/-- `FirstIndex` / `LastIndex` are the abstract ones -/
theorem storage_firstIndex (ms : MemoryStorage) : ms.firstIndex = ms.abs.first := rfl
theorem storage_lastIndex {ms : MemoryStorage} (h : ms.WF) : ms.lastIndex = ms.abs.last :=
  MemoryStorage.lastIndex_abs h

/-- the abstraction of a well-formed storage is a well-formed abstract log -/
theorem storage_abs_wf {ms : MemoryStorage} (h : ms.WF) : ms.abs.WF := h.abs_wf

/-- `Term(i)`: `ErrCompacted ⇔ i < base`, `ErrUnavailable ⇔ i > last`, otherwise the abstract term
(the base term at `i = base`); no other error -/
theorem storage_term {ms : MemoryStorage} (h : ms.WF) (i : Nat) :
    (ms.term i = .error .compacted ↔ i < ms.abs.base) ∧
    (ms.term i = .error .unavailable ↔ ms.abs.last < i) ∧
    (∀ t, ms.term i = .ok t ↔ ms.abs.term? i = some t) ∧
    ms.term i ≠ .error .snapOutOfDate ∧
    ms.abs.term? ms.abs.base = some ms.abs.baseTerm :=
  ⟨MemoryStorage.term_compacted_iff h i, MemoryStorage.term_unavailable_iff h i,
   fun t => MemoryStorage.term_ok_iff h i t, MemoryStorage.term_ne_snapOutOfDate h i, ALog.term?_base _⟩

example : exStorage.term 3 = .ok 1 ∧ exStorage.term 5 = .ok 2 ∧ exStorage.term 2 = .error .compacted ∧
    exStorage.term 7 = .error .unavailable := ⟨rfl, rfl, rfl, rfl⟩

/-- `Entries(lo, hi, maxSize)`, all cases in evaluation order: `ErrCompacted ⇔ lo ≤ base`; otherwise
panic ⇔ `hi > last + 1`; otherwise `ErrUnavailable` exactly when only the dummy entry is stored (Go
quirk, whatever `lo`, `hi` are); otherwise panic if `lo > hi`; otherwise `limitSize` of the abstract
slice. -/
theorem storage_entries {ms : MemoryStorage} (h : ms.WF) (lo hi maxSize : Nat) :
    ms.entries lo hi maxSize =
      if lo ≤ ms.abs.base then pure (.error .compacted)
      else if hi > ms.abs.last + 1 then throw "storage.Entries: hi out of bound"
      else if ms.abs.ents = [] then pure (.error .unavailable)
      else if lo > hi then throw "storage.Entries: slice bounds out of range"
      else pure (.ok (limitSize (ms.abs.slice lo hi) maxSize)) :=
  MemoryStorage.entries_eq h lo hi maxSize

/-- meaning of `a.slice lo hi` for a range inside the log: `hi - lo` entries, the `k`-th being the entry
at index `lo + k` -/
theorem abstract_slice_spec {a : ALog} (h : a.WF) {lo hi : Nat} (h1 : a.first ≤ lo) (h2 : lo ≤ hi)
    (h3 : hi ≤ a.last + 1) :
    (a.slice lo hi).length = hi - lo ∧ Contig lo (a.slice lo hi) ∧
    ∀ k, k < hi - lo → (a.slice lo hi)[k]? = a.entry? (lo + k) :=
  ⟨a.slice_length h1 h2 h3, ALog.slice_contig h h1, fun k hk => a.slice_getElem? h1 k hk⟩

example : exStorage.entries 4 7 1000 = .ok (.ok [ent 1 4, ent 2 5, ent 2 6]) := by
  rw [storage_entries (by decide)]
  simp [exStorage, MemoryStorage.abs, MemoryStorage.offset, ALog.slice, ALog.last, limitSize, limitSizeAux,
    entrySize, ent, varintLen_small, pure, Except.pure]
example : exStorage.entries 3 7 1000 = .ok (.error .compacted) := rfl

/-- `Append(es)` (for contiguous `es`): abstractly, forget the already-compacted part of `es`, then
overwrite from the first remaining index (`ALog.storeAppend`); a gap after the last index panics;
the invariant is kept. -/
theorem storage_append {ms : MemoryStorage} (h : ms.WF) {n : Nat} {es : List Entry} (hc : Contig n es) :
    (ms.append es).map MemoryStorage.abs = ms.abs.storeAppend es ∧
    ∀ ms', ms.append es = .ok ms' → ms'.WF :=
  ⟨MemoryStorage.append_abs h hc, fun _ hok => MemoryStorage.append_wf h hc hok⟩

example : (exStorage.append [ent 7 5, ent 7 6, ent 7 7]).map (·.abs.ents) =
    .ok [ent 1 4, ent 7 5, ent 7 6, ent 7 7] := rfl
example : (exStorage.append [ent 7 2, ent 7 3, ent 7 4]).map (·.abs.ents) = .ok [ent 7 4] := rfl
example : exStorage.append [ent 7 8] = .error "storage.Append: missing log entry" := rfl

/-- `Compact(ci)`: `ErrCompacted ⇔ ci ≤ base`; panic ⇔ `ci > last` (given not compacted); otherwise
the abstract log keeps exactly what is above `ci`, with base `(ci, term ci)`. -/
theorem storage_compact {ms : MemoryStorage} (h : ms.WF) (ci : Nat) :
    (ci ≤ ms.abs.base ∧ ms.compact ci = .ok (.error .compacted)) ∨
    (ms.abs.base < ci ∧ ms.abs.last < ci ∧ ms.compact ci = .error "storage.Compact: out of bound") ∨
    (ms.abs.base < ci ∧ ci ≤ ms.abs.last ∧ ∃ ms' t, ms.compact ci = .ok (.ok ms') ∧
      ms.abs.term? ci = some t ∧ ms'.abs = ms.abs.compactTo ci t ∧ ms'.WF ∧
      ms'.snapshot = ms.snapshot ∧ ms'.hardState = ms.hardState) :=
  MemoryStorage.compact_spec h ci

example : (exStorage.compact 5).map (·.map (fun ms => (ms.abs.base, ms.abs.baseTerm, ms.abs.ents))) =
    .ok (.ok (5, 2, [ent 2 6])) := rfl

/-- `ApplySnapshot(snap)`: refused (`ErrSnapOutOfDate`) iff the stored snapshot is at least as recent;
otherwise the log becomes empty with the snapshot as base. -/
theorem storage_applySnapshot (ms : MemoryStorage) (snap : Snapshot) :
    ((ms.snapshot.index ≠ 0 ∧ snap.index ≤ ms.snapshot.index) ∧
      ms.applySnapshot snap = .error .snapOutOfDate) ∨
    (¬(ms.snapshot.index ≠ 0 ∧ snap.index ≤ ms.snapshot.index) ∧ ∃ ms', ms.applySnapshot snap = .ok ms' ∧
      ms'.WF ∧ ms'.abs = { base := snap.index, baseTerm := snap.term, ents := [] } ∧
      ms'.snapshot = snap ∧ ms'.hardState = ms.hardState) :=
  MemoryStorage.applySnapshot_spec ms snap

/-- `CreateSnapshot(i, cs, data)`: the log is untouched; `ErrSnapOutOfDate ⇔ i ≤ snapshot.index`;
otherwise panic ⇔ `i > last` or `i < base`; otherwise the snapshot carries `(i, term i)`. -/
theorem storage_createSnapshot {ms : MemoryStorage} (h : ms.WF) (i : Nat) (cs : Option ConfState)
    (data : Option Bytes) :
    (i ≤ ms.snapshot.index ∧ ms.createSnapshot i cs data = .ok (.error .snapOutOfDate)) ∨
    (ms.snapshot.index < i ∧ ms.abs.last < i ∧
      ms.createSnapshot i cs data = .error "storage.CreateSnapshot: out of bound") ∨
    (ms.snapshot.index < i ∧ i ≤ ms.abs.last ∧ i < ms.abs.base ∧
      ms.createSnapshot i cs data = .error "storage.CreateSnapshot: index out of range") ∨
    (ms.snapshot.index < i ∧ i ≤ ms.abs.last ∧ ms.abs.base ≤ i ∧ ∃ ms' s,
      ms.createSnapshot i cs data = .ok (.ok (ms', s)) ∧ ms'.WF ∧ ms'.abs = ms.abs ∧ ms'.ents = ms.ents ∧
      ms'.snapshot = s ∧ s.index = i ∧ ms.abs.term? i = some s.term ∧
      s.conf = cs.getD ms.snapshot.conf ∧ s.data = data ∧ ms'.hardState = ms.hardState) :=
  MemoryStorage.createSnapshot_spec h i cs data

/-! ## unstable -/

/-- `truncateAndAppend(e0 :: rest)`: the three Go cases are the single abstract operation "drop
everything at `e0.index` and above, then append" (`Unstable.overwritten`), with `offset` and
`offsetInProgress` lowered to `e0.index` when they were above; a gap panics. -/
theorem unstable_truncateAndAppend {u : Unstable} (h : u.WF) (e0 : Entry) (rest : List Entry) :
    (e0.index ≤ u.next ∧ u.truncateAndAppend (e0 :: rest) = .ok (u.overwritten (e0 :: rest) e0.index)) ∨
    (u.next < e0.index ∧ u.truncateAndAppend (e0 :: rest) = .error "unstable.slice: out of bound") :=
  Unstable.truncateAndAppend_spec h e0 rest

/-- the invariant survives when the new entries are contiguous and stay above a pending snapshot -/
theorem unstable_truncateAndAppend_wf {u : Unstable} (h : u.WF) {e0 : Entry} {rest : List Entry}
    (hc : Contig e0.index (e0 :: rest)) (hle : e0.index ≤ u.next)
    (hs : u.snapshot.isSome → u.offset ≤ e0.index) : (u.overwritten (e0 :: rest) e0.index).WF :=
  Unstable.overwritten_wf h hc hle hs

/-- after an overwrite from `e0.index`, every unstable entry is either an old one strictly below
`e0.index` or one of the new ones: no old entry at or above the overwrite point survives -/
theorem unstable_overwrite_hides_old {u : Unstable} (h : u.WF) {e0 : Entry} {rest : List Entry}
    (e : Entry) (he : e ∈ (u.overwritten (e0 :: rest) e0.index).entries) :
    (e ∈ u.entries ∧ e.index < e0.index) ∨ e ∈ e0 :: rest :=
  Unstable.overwritten_entries_spec h e he

/-- `stableTo(index, term)` when `(index, term)` is an unstable entry: exactly the entries at indexes
`≤ index` leave `unstable` -/
theorem unstable_stableTo_match {u : Unstable} (h : u.WF) {id : EntryID} (hm : u.Matches id) :
    u.stableTo id = { u with entries := u.entries.filter (fun e => decide (id.index < e.index)),
                             offset := id.index + 1,
                             offsetInProgress := max u.offsetInProgress (id.index + 1) } :=
  Unstable.stableTo_of_matches h hm

/-- `stableTo(index, term)` otherwise: nothing changes -/
theorem unstable_stableTo_nomatch {u : Unstable} (h : u.WF) {id : EntryID} (hm : ¬ u.Matches id) :
    u.stableTo id = u :=
  Unstable.stableTo_of_not_matches h hm

/-- ABA: index `i` was overwritten by an entry with another term; the late acknowledgement for the
old `(i, t)` is a no-op -/
theorem unstable_stableTo_ABA {u : Unstable} (h : u.WF) {e0 : Entry} {rest : List Entry}
    (hc : Contig e0.index (e0 :: rest)) (hle : e0.index ≤ u.next)
    (hs : u.snapshot.isSome → u.offset ≤ e0.index)
    (id : EntryID) (e : Entry) (he : e ∈ e0 :: rest) (hi : e.index = id.index) (ht : e.term ≠ id.term) :
    (u.overwritten (e0 :: rest) e0.index).stableTo id = u.overwritten (e0 :: rest) e0.index :=
  Unstable.stableTo_stale_after_overwrite h hc hle hs id e he hi ht

example : (exLog.unstable.truncateAndAppend [ent 9 7]).map (fun u => (u.entries, u.offset, u.offsetInProgress)) =
    .ok ([ent 2 6, ent 9 7], 6, 7) := rfl
example : (exLog.unstable.truncateAndAppend [ent 9 5]).map (fun u => (u.entries, u.offset, u.offsetInProgress)) =
    .ok ([ent 9 5], 5, 5) := rfl
/-- ABA concretely: 7 was overwritten by term 9; the ack for (7, term 3) does nothing, the one for (7, 9) works -/
example : (exLog.unstable.truncateAndAppend [ent 9 7]).map (fun u => (u.stableTo ⟨3, 7⟩).entries) =
    .ok [ent 2 6, ent 9 7] := rfl
example : (exLog.unstable.truncateAndAppend [ent 9 7]).map (fun u => ((u.stableTo ⟨9, 7⟩).entries, (u.stableTo ⟨9, 7⟩).offset)) =
    .ok ([], 8) := rfl

/-- `stableTo` keeps the invariant (a matching acknowledgement while a snapshot is still pending is
excluded: Go processes such a combined acknowledgement as `stableTo; stableSnapTo`, which equals
`stableSnapTo; stableTo` by `unstable_stableTo_stableSnapTo_comm`) -/
theorem unstable_stableTo_wf {u : Unstable} (h : u.WF) (id : EntryID) (hs : u.Matches id → u.snapshot = none) :
    (u.stableTo id).WF :=
  Unstable.stableTo_wf h id hs

theorem unstable_stableTo_stableSnapTo_comm {u : Unstable} (h : u.WF) (id : EntryID) (i : Nat) :
    (u.stableTo id).stableSnapTo i = (u.stableSnapTo i).stableTo id :=
  Unstable.stableTo_stableSnapTo_comm h id i

/-- `acceptInProgress`: everything is in progress afterwards; nothing else changes -/
theorem unstable_acceptInProgress {u : Unstable} (h : u.WF) :
    u.acceptInProgress = { u with offsetInProgress := u.next,
                                  snapshotInProgress := u.snapshotInProgress || u.snapshot.isSome } ∧
    u.acceptInProgress.WF ∧ u.acceptInProgress.nextEntries = [] ∧ u.acceptInProgress.nextSnapshot = none :=
  ⟨Unstable.acceptInProgress_eq h, Unstable.acceptInProgress_wf h, Unstable.acceptInProgress_nextEntries h,
   Unstable.acceptInProgress_nextSnapshot h⟩

/-- `nextEntries`: exactly the unstable entries at `offsetInProgress` and above -/
theorem unstable_nextEntries {u : Unstable} (h : u.WF) :
    u.nextEntries = u.entries.filter (fun e => decide (u.offsetInProgress ≤ e.index)) :=
  Unstable.nextEntries_eq h

example : exLog.nextUnstableEnts = [ent 3 7, ent 3 8] := rfl

/-- `restore(s)`: the snapshot becomes the (not in progress) pending snapshot, no entries remain -/
theorem unstable_restore (u : Unstable) (s : Snapshot) :
    (u.restore s).WF ∧ (u.restore s).snapshot = some s ∧ (u.restore s).entries = [] ∧
    (u.restore s).offset = s.index + 1 ∧ (u.restore s).offsetInProgress = s.index + 1 ∧
    (u.restore s).snapshotInProgress = false :=
  ⟨Unstable.restore_wf u s, rfl, rfl, rfl, rfl, rfl⟩

/-- `stableSnapTo(i)`: clears the pending snapshot iff its index is `i`; entries untouched -/
theorem unstable_stableSnapTo {u : Unstable} (h : u.WF) (i : Nat) :
    (u.stableSnapTo i =
      if (∃ s, u.snapshot = some s ∧ s.index = i) then { u with snapshot := none, snapshotInProgress := false }
      else u) ∧ (u.stableSnapTo i).WF :=
  ⟨Unstable.stableSnapTo_eq u i, Unstable.stableSnapTo_wf h i⟩

/-! ## raftLog queries -/

/-- the abstraction of a well-formed `raftLog` is a well-formed abstract log -/
theorem log_abs_wf {l : RaftLog} (h : l.WF) : l.abs.WF := h.abs_wf

/-- `firstIndex` / `lastIndex` -/
theorem log_firstIndex {l : RaftLog} (h : l.WF) : l.firstIndex = l.abs.first := RaftLog.firstIndex_abs h
theorem log_lastIndex {l : RaftLog} (h : l.WF) : l.lastIndex = l.abs.last := RaftLog.lastIndex_abs h

/-- `term(i)`: `ErrCompacted ⇔ i < base`, `ErrUnavailable ⇔ i > last`, otherwise the abstract term -/
theorem log_term {l : RaftLog} (h : l.WF) (i : Nat) :
    (l.term i = .error .compacted ↔ i < l.abs.base) ∧
    (l.term i = .error .unavailable ↔ l.abs.last < i) ∧
    (∀ t, l.term i = .ok t ↔ l.abs.term? i = some t) :=
  ⟨RaftLog.term_compacted_iff h i, RaftLog.term_unavailable_iff h i, fun t => RaftLog.term_ok_iff h i t⟩

example : exLog.term 3 = .ok 1 ∧ exLog.term 6 = .ok 2 ∧ exLog.term 8 = .ok 3 ∧
    exLog.term 2 = .error .compacted ∧ exLog.term 9 = .error .unavailable := ⟨rfl, rfl, rfl, rfl, rfl⟩
example : exLogSnap.term 9 = .ok 4 ∧ exLogSnap.term 8 = .error .compacted ∧ exLogSnap.term 10 = .ok 5 :=
  ⟨rfl, rfl, rfl⟩

/-- `matchTerm(index, term)` -/
theorem log_matchTerm {l : RaftLog} (h : l.WF) (id : EntryID) :
    l.matchTerm id = true ↔ l.abs.term? id.index = some id.term := RaftLog.matchTerm_iff h id

/-- `slice(lo, hi, maxSize)`, all cases in evaluation order: panic if `lo > hi`; `ErrCompacted` if
`lo < first`; panic if `hi > last + 1`; otherwise `limitSize` of the abstract slice — on the
unstable-only path, the storage-only path, and the storage+unstable merge path (whose rule "a single
unstable entry that does not fit is not added" is exactly `limitSize` on the concatenation). -/
theorem log_slice {l : RaftLog} (h : l.WF) (lo hi maxSize : Nat) :
    l.slice lo hi maxSize =
      if lo > hi then throw "slice: invalid lo > hi"
      else if lo < l.abs.first then pure (.error .compacted)
      else if hi > l.abs.last + 1 then throw "slice: out of bound"
      else pure (.ok (limitSize (l.abs.slice lo hi) maxSize)) :=
  RaftLog.slice_eq h lo hi maxSize

/-- `entries(i, maxSize)` -/
theorem log_entries {l : RaftLog} (h : l.WF) (i maxSize : Nat) :
    l.entries i maxSize =
      if i > l.abs.last then pure (.ok [])
      else if i < l.abs.first then pure (.error .compacted)
      else pure (.ok (limitSize (l.abs.slice i (l.abs.last + 1)) maxSize)) :=
  RaftLog.entries_eq h i maxSize

/-- the merge path concretely: 4,5 from storage, 6 (the unstable copy), 7 from unstable; 8 does not fit -/
example : exLog.slice 4 9 16 = .ok (.ok [ent 1 4, ent 2 5, ent 2 6, ent 3 7]) := by
  rw [log_slice (by decide)]
  simp [exLog, exStorage, RaftLog.abs, MemoryStorage.abs, MemoryStorage.offset, ALog.slice, ALog.last,
    ALog.first, ALog.extend, ALog.truncateFrom, limitSize, limitSizeAux, entrySize, ent, varintLen_small,
    pure, Except.pure]

/-! ## raftLog mutators -/

/-- `findConflict(ents)`: the index of the first entry of `ents` whose term differs from the log's term
at that index or that the log does not have; `0` if there is none (`RaftLog.Agrees a e` is
`a.term? e.index = some e.term`) -/
theorem log_findConflict {l : RaftLog} (h : l.WF) (ents : List Entry) :
    ((∀ e ∈ ents, RaftLog.Agrees l.abs e) ∧ l.findConflict ents = 0) ∨
    (∃ pre e post, ents = pre ++ e :: post ∧ (∀ x ∈ pre, RaftLog.Agrees l.abs x) ∧ ¬ RaftLog.Agrees l.abs e ∧
      l.findConflict ents = e.index) :=
  RaftLog.findConflict_spec h ents

/-- `findConflictByTerm(index, term)`: the largest `j ≤ index` that is `0`, or whose term is unknown
(answer term 0), or whose term is `≤ term` (answer that term); all indexes in `(j, index]` have a known
term `> term` -/
theorem log_findConflictByTerm {l : RaftLog} (h : l.WF) (index term : Nat) :
    (l.findConflictByTerm index term).1 ≤ index ∧
    (∀ j, (l.findConflictByTerm index term).1 < j → j ≤ index → ∃ t, l.abs.term? j = some t ∧ term < t) ∧
    ((l.findConflictByTerm index term).1 = 0 → (l.findConflictByTerm index term).2 = 0) ∧
    (0 < (l.findConflictByTerm index term).1 →
      (l.abs.term? (l.findConflictByTerm index term).1 = none ∧ (l.findConflictByTerm index term).2 = 0) ∨
      (l.abs.term? (l.findConflictByTerm index term).1 = some (l.findConflictByTerm index term).2 ∧
        (l.findConflictByTerm index term).2 ≤ term)) :=
  RaftLog.findConflictByTerm_spec h index term

example : exLog.findConflict [ent 2 6, ent 3 7, ent 4 8, ent 4 9] = 8 := rfl
example : exLog.findConflictByTerm 8 2 = (6, 2) := rfl

/-- `append(e0 :: rest)` (contiguous entries, `e0.index > 0`): panics iff `e0.index ≤ committed` or there
is a gap after the last index; otherwise the abstract log is overwritten from `e0.index`
(`ALog.overwrite`: truncate there, then append), the invariant is kept, the new last index is returned
and nothing else changes.  (`e0.index = 0` is excluded: Go computes `after = index - 1` in `uint64`,
which wraps and defeats the committed check; the library never appends an entry with index 0.) -/
theorem log_append {l : RaftLog} (h : l.WF) (e0 : Entry) (rest : List Entry)
    (hc : Contig e0.index (e0 :: rest)) (hpos : 0 < e0.index) :
    (e0.index ≤ l.committed ∧ l.append (e0 :: rest) = .error "append: after out of range (committed)") ∨
    (l.committed < e0.index ∧ l.abs.last + 1 < e0.index ∧
      l.append (e0 :: rest) = .error "unstable.slice: out of bound") ∨
    (l.committed < e0.index ∧ e0.index ≤ l.abs.last + 1 ∧ ∃ l',
      l.append (e0 :: rest) = .ok (l', e0.index + rest.length) ∧ l'.WF ∧
      l'.abs = l.abs.overwrite (e0 :: rest) ∧ l'.lastIndex = e0.index + rest.length ∧
      l'.unstable = l.unstable.overwritten (e0 :: rest) e0.index ∧
      l'.storage = l.storage ∧ l'.committed = l.committed ∧ l'.applying = l.applying ∧
      l'.applied = l.applied ∧ l'.applyingEntsSize = l.applyingEntsSize ∧
      l'.applyingEntsPaused = l.applyingEntsPaused ∧ l'.maxApplyingEntsSize = l.maxApplyingEntsSize) :=
  RaftLog.append_spec h e0 rest hc hpos

theorem log_append_nil (l : RaftLog) : l.append [] = .ok (l, l.lastIndex) := rfl

/-- what `ALog.overwrite` means: below the overwrite point nothing changes; from it on the log holds
exactly the new entries; the result is well-formed -/
theorem abstract_overwrite_spec {a : ALog} (h : a.WF) (e0 : Entry) (rest : List Entry)
    (hc : Contig e0.index (e0 :: rest)) (h1 : a.base < e0.index) (h2 : e0.index ≤ a.last + 1) :
    (a.overwrite (e0 :: rest)).WF ∧
    (a.overwrite (e0 :: rest)).base = a.base ∧ (a.overwrite (e0 :: rest)).baseTerm = a.baseTerm ∧
    (a.overwrite (e0 :: rest)).last = e0.index + rest.length ∧
    (∀ i, i < e0.index → (a.overwrite (e0 :: rest)).entry? i = a.entry? i) ∧
    (∀ k, (a.overwrite (e0 :: rest)).entry? (e0.index + k) = (e0 :: rest)[k]?) :=
  ⟨ALog.overwrite_wf h e0 rest hc h1 h2, (ALog.overwrite_base a _).1, (ALog.overwrite_base a _).2,
   ALog.overwrite_last a e0 rest h1 h2, fun _ hi => ALog.overwrite_entry?_lt a e0 rest h2 hi,
   fun k => ALog.overwrite_entry?_ge a e0 rest h1 h2 k⟩

/-- `maybeAppend(prev, ents, mc)` for `ents` contiguous from `prev.index + 1`:
* rejected (`none`, nothing changes) iff the log does not have `prev.index` with term `prev.term`;
* otherwise, with `e` the first entry of `ents` that disagrees with the log (`ents = pre ++ e :: post`):
  no such entry: entries untouched; `e.index ≤ committed`: panic; else the log keeps everything below
  `e.index` (in particular the matching prefix `pre`) and is overwritten from there with `e :: post`;
* `committed := max committed (min mc lastnew)`, `lastnew = prev.index + ents.length ≤ lastIndex'`;
* the invariant is kept and afterwards every entry of `ents` agrees with the log. -/
theorem log_maybeAppend {l : RaftLog} (h : l.WF) (prev : EntryID) (ents : List Entry) (mc : Nat)
    (hc : Contig (prev.index + 1) ents) :
    (l.abs.term? prev.index ≠ some prev.term ∧ l.maybeAppend prev ents mc = .ok (l, none)) ∨
    (l.abs.term? prev.index = some prev.term ∧
      (((∀ e ∈ ents, RaftLog.Agrees l.abs e) ∧
          l.maybeAppend prev ents mc =
            .ok ({ l with committed := max l.committed (min mc (prev.index + ents.length)) },
                 some (prev.index + ents.length)) ∧
          prev.index + ents.length ≤ l.abs.last) ∨
       (∃ pre e post, ents = pre ++ e :: post ∧ (∀ x ∈ pre, RaftLog.Agrees l.abs x) ∧ ¬ RaftLog.Agrees l.abs e ∧
          ((e.index ≤ l.committed ∧
              l.maybeAppend prev ents mc = .error "maybeAppend: conflict with committed entry") ∨
           (l.committed < e.index ∧ ∃ l', l.maybeAppend prev ents mc = .ok (l', some (prev.index + ents.length)) ∧
              l'.WF ∧ l'.abs = l.abs.overwrite (e :: post) ∧
              l'.abs.last = prev.index + ents.length ∧
              l'.committed = max l.committed (min mc (prev.index + ents.length)) ∧
              l'.storage = l.storage ∧ l'.applying = l.applying ∧ l'.applied = l.applied ∧
              (∀ x ∈ ents, RaftLog.Agrees l'.abs x)))))) :=
  RaftLog.maybeAppend_spec h prev ents mc hc

/-- 6 and 7 match, 8 conflicts (term 4 vs 3) and is above `committed = 7`: 8 is replaced, 9 appended -/
example : (exLog.maybeAppend ⟨2, 5⟩ [ent 2 6, ent 3 7, ent 4 8, ent 4 9] 8).map
    (fun r => (r.1.unstable.entries, r.1.committed, r.2)) =
    .ok ([ent 2 6, ent 3 7, ent 4 8, ent 4 9], 8, some 9) := rfl
/-- a conflict at a committed index panics -/
example : exLog.maybeAppend ⟨2, 5⟩ [ent 2 6, ent 9 7] 8 =
    .error "maybeAppend: conflict with committed entry" := rfl
/-- `prev` not in the log: rejected -/
example : (exLog.maybeAppend ⟨9, 5⟩ [ent 9 6] 8).map (·.2) = .ok none := rfl

/-- **never expose an entry that was overwritten**: in any well-formed log whose abstract log is
`a.overwrite (e0 :: rest)` — the state right after `append` / `maybeAppend` / `truncateAndAppend`
overwrote from `e0.index` (`log_append`, `log_maybeAppend`) — the queries `term`, `slice`, `entries` and
`nextUnstableEnts` answer at every index `≥ e0.index` only with the new entries. -/
theorem overwritten_never_exposed {l' : RaftLog} (h' : l'.WF) {a : ALog} (e0 : Entry) (rest : List Entry)
    (habs : l'.abs = a.overwrite (e0 :: rest)) (ha : a.WF) (h1 : a.base < e0.index) (h2 : e0.index ≤ a.last + 1) :
    (∀ i t, e0.index ≤ i → l'.term i = .ok t → ∃ x ∈ e0 :: rest, x.index = i ∧ x.term = t) ∧
    (∀ lo hi m es, l'.slice lo hi m = .ok (.ok es) → ∀ x ∈ es, e0.index ≤ x.index → x ∈ e0 :: rest) ∧
    (∀ i m es, l'.entries i m = .ok (.ok es) → ∀ x ∈ es, e0.index ≤ x.index → x ∈ e0 :: rest) ∧
    (∀ x ∈ l'.nextUnstableEnts, e0.index ≤ x.index → x ∈ e0 :: rest) :=
  RaftLog.overwritten_not_exposed h' e0 rest habs ha h1 h2

/-- `commitTo(c)`: panics iff `c > committed` and `c > lastIndex`; otherwise `committed := max committed c`
(never decreases), nothing else changes, invariant kept -/
theorem log_commitTo {l : RaftLog} (h : l.WF) (c : Nat) :
    (l.commitTo c =
      if l.committed < c ∧ l.lastIndex < c then .error "commitTo: tocommit out of range"
      else .ok { l with committed := max l.committed c }) ∧
    (∀ l', l.commitTo c = .ok l' → l'.WF ∧ l'.abs = l.abs) := by
  refine ⟨RaftLog.commitTo_eq l c, ?_⟩
  intro l' hok
  refine ⟨(RaftLog.commitTo_wf h hok).1, ?_⟩
  rw [RaftLog.commitTo_eq] at hok
  split at hok
  · cases hok
  · injection hok with hok; subst hok; rfl

/-- `restore(s)` for a snapshot beyond `committed`: the log becomes empty with the snapshot as base -/
theorem log_restore {l : RaftLog} (h : l.WF) (s : Snapshot) (hs : l.committed < s.index) :
    (l.restore s).WF ∧ (l.restore s).abs = { base := s.index, baseTerm := s.term, ents := [] } ∧
    (l.restore s).committed = s.index ∧ (l.restore s).applying = l.applying ∧
    (l.restore s).applied = l.applied ∧ (l.restore s).storage = l.storage :=
  RaftLog.restore_spec h s hs

/-- `stableTo(index, term)` on the log: a non-matching (stale, reordered, ABA) acknowledgement changes
nothing at all; a matching one, given that storage already holds the acknowledged entries
(`RaftLog.StorageHolds`: each unstable entry with index `≤ index` is in storage at its index, and if these
are all unstable entries storage ends there), leaves the abstract log — hence every query answer —
unchanged and keeps the invariant. -/
theorem log_stableTo {l : RaftLog} (h : l.WF) (id : EntryID) :
    (¬ l.unstable.Matches id → l.stableTo id = l) ∧
    (l.unstable.Matches id → l.unstable.snapshot = none → l.StorageHolds id.index →
      (l.stableTo id).WF ∧ (l.stableTo id).abs = l.abs ∧ (l.stableTo id).unstable.offset = id.index + 1) :=
  RaftLog.stableTo_spec h id

example : exLog.unstable.Matches ⟨2, 6⟩ ∧ exLog.StorageHolds 6 ∧ (exLog.stableTo ⟨2, 6⟩).abs = exLog.abs ∧
    (exLog.stableTo ⟨2, 6⟩).unstable.entries = [ent 3 7, ent 3 8] := ⟨by decide, by decide, rfl, rfl⟩
/-- an acknowledgement for (6, term 1) — an entry that was replaced — is ignored -/
example : exLog.stableTo ⟨1, 6⟩ = exLog := (log_stableTo (by decide) _).1 (by decide)

/-- `appliedSnap` = `stableSnapTo(s.index); appliedTo(s.index, 0)` once storage installed the pending
snapshot: same abstract log, snapshot no longer pending, invariant holds again -/
theorem log_appliedSnap {l : RaftLog} (h : l.WF) {s : Snapshot} (hsn : l.unstable.snapshot = some s)
    (hoff : l.storage.offset = s.index) (hterm : l.storage.dummyTerm = s.term)
    (hempty : l.unstable.entries = [] → l.storage.lastIndex = s.index)
    (happ : l.applied ≤ s.index) :
    ∃ l', (l.stableSnapTo s.index).appliedTo s.index 0 = .ok l' ∧ l'.WF ∧ l'.abs = l.abs ∧
      l'.unstable.snapshot = none ∧ l'.applied = s.index ∧ l'.applying = max l.applying s.index ∧
      l'.committed = l.committed :=
  RaftLog.appliedSnap_spec h hsn hoff hterm hempty happ

/-- `acceptUnstable`: abstract log and invariant untouched; nothing left to hand to storage -/
theorem log_acceptUnstable {l : RaftLog} (h : l.WF) :
    l.acceptUnstable.WF ∧ l.acceptUnstable.abs = l.abs ∧ l.acceptUnstable.nextUnstableEnts = [] ∧
    l.acceptUnstable.hasNextUnstableSnapshot = false :=
  RaftLog.acceptUnstable_spec h

/-- `lastEntryID` never panics under the invariant: the last index with its term -/
theorem log_lastEntryID {l : RaftLog} (h : l.WF) :
    ∃ t, l.abs.term? l.abs.last = some t ∧ l.lastEntryID = .ok { term := t, index := l.abs.last } :=
  RaftLog.lastEntryID_spec h

/-- `isUpToDate(their)`: higher last term, or same last term and at least our last index -/
theorem log_isUpToDate {l : RaftLog} (h : l.WF) (their : EntryID) :
    ∃ t, l.abs.term? l.abs.last = some t ∧
      l.isUpToDate their = .ok (decide (their.term > t) || (their.term == t && decide (their.index ≥ l.abs.last))) :=
  RaftLog.isUpToDate_spec h their

/-- `maybeCommit(at)`: advances `committed` to `at.index` iff `at.term ≠ 0`, `at.index > committed` and the
log has `at.index` with term `at.term`; never panics; invariant kept -/
theorem log_maybeCommit {l : RaftLog} (h : l.WF) (at_ : EntryID) :
    (at_.term ≠ 0 ∧ l.committed < at_.index ∧ l.abs.term? at_.index = some at_.term ∧
      l.maybeCommit at_ = .ok ({ l with committed := at_.index }, true) ∧
      ({ l with committed := at_.index } : RaftLog).WF) ∨
    (¬ (at_.term ≠ 0 ∧ l.committed < at_.index ∧ l.abs.term? at_.index = some at_.term) ∧
      l.maybeCommit at_ = .ok (l, false)) :=
  RaftLog.maybeCommit_spec h at_

example : exLog.lastEntryID = .ok ⟨3, 8⟩ := rfl
example : (exLog.maybeCommit ⟨3, 8⟩).map (fun r => (r.1.committed, r.2)) = .ok (8, true) := rfl
example : (exLog.maybeCommit ⟨2, 8⟩).map (fun r => (r.1.committed, r.2)) = .ok (7, false) := rfl

/-! ## storage-side operations seen through the combined view -/

/-- the application appends entries **of the log** to storage (contiguous, no gap after storage's last
index, reaching at least `unstable.offset - 1`, no snapshot pending): `Append` succeeds and the combined
view does not change — same abstract log, hence same answers to every query; invariant kept.
(This is the write that a later `stableTo` acknowledges.) -/
theorem log_storage_append {l : RaftLog} (h : l.WF) (hsn : l.unstable.snapshot = none) {n : Nat} {es : List Entry}
    (hc : Contig n es) (hne : es ≠ []) (hin : ∀ e ∈ es, l.abs.entry? e.index = some e)
    (hn : n ≤ l.storage.lastIndex + 1) (hreach : l.unstable.offset ≤ n + es.length) :
    ∃ ms', l.storage.append es = .ok ms' ∧ ({ l with storage := ms' } : RaftLog).WF ∧
      ({ l with storage := ms' } : RaftLog).abs = l.abs ∧ ms'.lastIndex + 1 = n + es.length :=
  RaftLog.storage_append_log h hsn hc hne hin hn hreach

/-- storage compaction at an applied, no longer unstable index: the combined view is the abstract log
compacted there (`ALog.compactTo`: base `(ci, term ci)`, entries above `ci` kept); invariant kept -/
theorem log_storage_compact {l : RaftLog} (h : l.WF) (hsn : l.unstable.snapshot = none) (ci : Nat)
    (hlo : l.storage.offset < ci) (happ : ci ≤ l.applied) (hst : ci < l.unstable.offset) :
    ∃ ms' t, l.storage.compact ci = .ok (.ok ms') ∧ l.abs.term? ci = some t ∧
      ({ l with storage := ms' } : RaftLog).WF ∧
      ({ l with storage := ms' } : RaftLog).abs = l.abs.compactTo ci t :=
  RaftLog.storage_compact_log h hsn ci hlo happ hst

/-- the unstable entries 6,7,8 are written to storage (overwriting the stored 6): nothing changes in
the combined view; then (8, term 3) is acknowledged: still the same log, and nothing is unstable -/
example : (exLog.storage.append [ent 2 6, ent 3 7, ent 3 8]).map (fun ms =>
      let l1 : RaftLog := { exLog with storage := ms }
      (decide (l1.abs.ents = exLog.abs.ents), decide ((l1.stableTo ⟨3, 8⟩).abs.ents = exLog.abs.ents),
        (l1.stableTo ⟨3, 8⟩).unstable.entries, (l1.stableTo ⟨3, 8⟩).unstable.offset)) =
    .ok (true, true, [], 9) := rfl

/-! ## any sequence of operations

`LogOp`: `append`, `maybeAppend`, `stableTo` (any acknowledgement, also stale/reordered/ABA),
`acceptUnstable`, `storageAppend`, `storageCompact`, and `cursor op` for the `ApplyOp`s (`commitTo`,
Ready+accept, `appliedTo`, `restore`, snapshot installation).  `RaftLog.logStep` runs one operation guarded
by the decidable precondition of its specification theorem above (contiguous arguments; a *matching*
acknowledgement only when storage holds the entries; storage writes only of entries of the log; compaction
only of applied stable entries); `RaftLog.logRun` runs a list (`none` = a guard failed or Go panicked). -/

/-- **after any sequence of operations the invariant holds** -/
theorem log_run_wf {l : RaftLog} (h : l.WF) (ops : List LogOp) {l' : RaftLog} (hr : l.logRun ops = some l') :
    l'.WF :=
  RaftLog.logRun_wf h ops hr

/-- **… and therefore the combined view answers every query exactly as its abstract log does**:
first/last index, term-at (with `ErrCompacted` / `ErrUnavailable` exactly outside `[base, last]`), and
entry ranges (errors/panics exactly outside the range, otherwise the size-limited non-empty prefix);
likewise the storage alone against its own abstract log. -/
theorem log_run_queries {l : RaftLog} (h : l.WF) (ops : List LogOp) {l' : RaftLog} (hr : l.logRun ops = some l') :
    l'.abs.WF ∧ l'.firstIndex = l'.abs.first ∧ l'.lastIndex = l'.abs.last ∧
    (∀ i, l'.term i = l'.abs.termResult i) ∧
    (∀ lo hi m, l'.slice lo hi m = l'.abs.sliceResult lo hi m) ∧
    l'.storage.abs.WF ∧ l'.storage.lastIndex = l'.storage.abs.last ∧
    (∀ i, l'.storage.term i = l'.storage.abs.termResult i) := by
  have hw := log_run_wf h ops hr
  exact ⟨hw.abs_wf, RaftLog.firstIndex_abs hw, RaftLog.lastIndex_abs hw, fun i => RaftLog.term_eq' hw i,
    fun lo hi m => RaftLog.slice_eq hw lo hi m, hw.storage.abs_wf, MemoryStorage.lastIndex_abs hw.storage,
    fun i => MemoryStorage.term_eq' hw.storage i⟩

/-- an ABA run on `exLog`: a MsgApp overwrites index 8 (term 3) by term 9; the late acknowledgement for
(8, term 3) is ignored; storage writes 6,7,8; the acknowledgement for (8, term 9) empties `unstable`; 7 is
applied and storage is compacted at 6.  All guards hold and no step panics. -/
example : (exLog.logRun [.maybeAppend ⟨3, 7⟩ [ent 9 8] 7, .stableTo ⟨3, 8⟩,
      .storageAppend [ent 2 6, ent 3 7, ent 9 8], .stableTo ⟨9, 8⟩, .cursor (.applied 7 0),
      .storageCompact 6]).map
      (fun l => (l.unstable.entries, l.unstable.offset, l.storage.ents, l.abs.base, l.abs.ents)) =
    some ([], 9, [ent 2 6, ent 3 7, ent 9 8], 6, [ent 3 7, ent 9 8]) := by decide

end RaftVerif.C18
