import RaftVerif.Proofs.NextCommit
/-!
# Props/C06Local — the leader's commit rule, locally (C06)

For **every** leader state and **every** message: the only way a `Step` advances a leader's commit index
(term and role staying what they were) is an accepted MsgAppResp, and the new index is the quorum index of
the tracker, holds an entry of the leader's own term, and lies inside the log.  With C12 this gives: in
every voter set of the active configuration a strict majority has `Match ≥ commit`.
No log invariant is needed (`RaftLog.WF` is not a hypothesis): the facts come straight from the guards of
`raftLog.maybeCommit` (`matchTerm`, `commitTo`).

For followers: `handleAppendEntries` / `handleHeartbeat` move `committed` to exactly
`max committed (min m.commit lastNewIndex)` resp. `max committed m.commit`, never beyond the log.

Machinery: `Proofs/NextCommit.lean` (relations `CmE`, `LS`, `CK`; `maybeCommit_exact`,
`stepLeader_appResp_ack_commit`, `stepLeader_commit`, `step_leader_commit`).
-/
namespace RaftVerif.C06L
open Raft Next

/-- the index each voter has acknowledged, as seen by the leader: `Progress.Match` (absent peer: none) -/
def matchOf (r : Raft) : Id → Option Nat := fun id => (mapGet r.trk.progress id).map (·.match_)

theorem trk_committed_eq (r : Raft) :
    r.trk.committed = Quorum.jointCommitted r.trk.cfg.voters r.trk.outgoingL (matchOf r) := rfl

/-- **C06 the leader's commit rule** (any fuel, any message, any leader state): if `Step` succeeds, the
commit index went up and the term is unchanged, then
* the message is a non-rejecting **MsgAppResp** and the node is still leader,
* (i) the new commit index **is the quorum index** `trk.Committed()` of the (final) tracker,
* (ii) the entry at the new commit index has **the leader's own term** (`≠ 0`),
* (iii) the new commit index is **inside the log**. -/
theorem leader_commit_rule (fuel : Nat) (m : Message) (r r' : Raft) (e : Option StepErr)
    (hs : r.state = .leader) (h : (Raft.step fuel m).run r = .ok (e, r'))
    (hadv : r.log.committed < r'.log.committed) (ht : r'.term = r.term) :
    r'.trk.committed = some r'.log.committed ∧
    r'.log.term r'.log.committed = .ok r.term ∧
    r'.log.committed ≤ r'.log.lastIndex ∧
    r.term ≠ 0 ∧ r'.state = .leader ∧ m.typ = .appResp ∧ m.reject = false := by
  rcases (step_leader_commit fuel m r hs).elim h with h1 | h1 | ⟨_, _, h3, ⟨c1, c2, c3, c4⟩, h5, h6⟩
  · unfold CmE at h1; omega
  · omega
  · exact ⟨c1, c2, c3, c4, h3, h5, h6⟩

/-- **C06 quorum backing** (with C12): under the same hypotheses, in **each** non-empty voter set of the
leader's configuration (incoming and outgoing) a strict majority of the voters has `Match ≥` the new
commit index (`ackedAtLeast` counts the voters whose acknowledged index — `Match`, 0 if untracked — is at
least `k`; the new commit index is `≥ 1`, so an untracked voter never counts) -/
theorem leader_commit_quorum_backed (fuel : Nat) (m : Message) (r r' : Raft) (e : Option StepErr)
    (hs : r.state = .leader) (h : (Raft.step fuel m).run r = .ok (e, r'))
    (hadv : r.log.committed < r'.log.committed) (ht : r'.term = r.term) :
    (r'.trk.cfg.voters ≠ [] →
      r'.trk.cfg.voters.length < 2 * Quorum.ackedAtLeast r'.trk.cfg.voters (matchOf r') r'.log.committed) ∧
    (r'.trk.outgoingL ≠ [] →
      r'.trk.outgoingL.length < 2 * Quorum.ackedAtLeast r'.trk.outgoingL (matchOf r') r'.log.committed) ∧
    0 < r'.log.committed := by
  obtain ⟨h1, _⟩ := leader_commit_rule fuel m r r' e hs h hadv ht
  rw [trk_committed_eq] at h1
  obtain ⟨b0, b1⟩ := Quorum.joint_committed_backed _ _ _ _ h1
  exact ⟨b0, b1, by omega⟩

/-- **C06** a leader's commit index changes in a `Step` only as in `leader_commit_rule`: otherwise it is
unchanged, or the node has moved to a higher term (it was deposed by the message) -/
theorem leader_commit_sites (fuel : Nat) (m : Message) (r r' : Raft) (e : Option StepErr)
    (hs : r.state = .leader) (h : (Raft.step fuel m).run r = .ok (e, r')) :
    r'.log.committed = r.log.committed ∨ r.term < r'.term ∨
    (r.log.committed < r'.log.committed ∧ r'.term = r.term ∧ r'.state = .leader ∧ m.typ = .appResp ∧
      m.reject = false) := by
  rcases (step_leader_commit fuel m r hs).elim h with h1 | h1 | ⟨h1, h2, h3, _, h5, h6⟩
  · exact Or.inl h1
  · exact Or.inr (Or.inl h1)
  · exact Or.inr (Or.inr ⟨h1, h2, h3, h5, h6⟩)

/-- `maybeCommit` itself (called by the MsgAppResp handler and by `switchToConfig`): returns `true` iff it
advanced `committed`, and then to the tracker's quorum index, inside the log, entry of the own term -/
theorem maybeCommit_rule (r r' : Raft) (b : Bool) (h : Raft.maybeCommit.run r = .ok (b, r')) :
    (b = false ∧ r' = r) ∨
    (b = true ∧ ∃ idx, r.trk.committed = some idx ∧ r.log.committed < idx ∧ idx ≤ r.log.lastIndex ∧
      r.log.term idx = .ok r.term ∧ r.term ≠ 0 ∧ r' = { r with log := { r.log with committed := idx } }) :=
  (maybeCommit_exact r).elim h

/-! ### followers -/

/-- **C06 follower, MsgApp** (`handleAppendEntries`): the commit index never goes back; if it advanced,
the append was accepted — `m.index ≥ committed` and `(m.logTerm, m.index)` matches the local log —, the new
value is exactly `min(m.commit, lastNewIndex)`, `lastNewIndex = m.index + len(m.entries)` (the prefix on
which the follower is known to match the leader), and it is inside the log -/
theorem follower_commit_bounded (m : Message) (r r' : Raft) (h : (Raft.handleAppendEntries m).run r = .ok ((), r')) :
    r.log.committed ≤ r'.log.committed ∧
    (r.log.committed < r'.log.committed →
      r.log.committed ≤ m.index ∧ r.log.matchTerm { term := m.logTerm, index := m.index } = true ∧
      r'.log.committed = min m.commit (m.index + m.entries.length) ∧
      r'.log.committed ≤ r'.log.lastIndex) :=
  (handleAppendEntries_commit m r).elim h

/-- **C06 follower, MsgHeartbeat** (`handleHeartbeat`): `committed' = max committed m.commit`; an advance
is inside the log — the leader clamps the heartbeat's commit to `min(Match, committed)`; if it ever lay
beyond the follower's log, `commitTo` panics (`follower_heartbeat_commit_panics`) -/
theorem follower_heartbeat_commit (m : Message) (r r' : Raft) (h : (Raft.handleHeartbeat m).run r = .ok ((), r')) :
    r'.log.committed = max r.log.committed m.commit ∧
    (r.log.committed < m.commit → m.commit ≤ r.log.lastIndex) ∧ r'.log.lastIndex = r.log.lastIndex :=
  (handleHeartbeat_commit m r).elim h

theorem follower_heartbeat_commit_panics (m : Message) (r : Raft) (h1 : r.log.committed < m.commit)
    (h2 : r.log.lastIndex < m.commit) :
    (Raft.handleHeartbeat m).run r = .error "commitTo: tocommit out of range" :=
  handleHeartbeat_panics m r h1 h2

/-- the heartbeat a leader sends carries `min(Match, committed)` (raft.go `sendHeartbeat`) -/
theorem sendHeartbeat_commit_clamped (to : Id) (ctx : Option Bytes) (r r' : Raft) (pr : Progress)
    (hg : r.trk.getProgress to = some pr) (h : (Raft.sendHeartbeat to ctx).run r = .ok ((), r')) :
    ∃ x, r'.msgs = r.msgs ++ [x] ∧ x.typ = .heartbeat ∧ x.to = to ∧ x.commit = min pr.match_ r.log.committed := by
  unfold Raft.sendHeartbeat at h
  obtain ⟨pr', r1, h1, hA⟩ := bind_ok h
  obtain ⟨e1, hg'⟩ := getPr_ok h1; subst e1
  rw [hg] at hg'; injection hg' with hg'; subst hg'
  obtain ⟨r0, r2, h2, hB⟩ := bind_ok hA
  obtain ⟨e0, e2⟩ := get_ok h2; subst e0 e2
  obtain ⟨u3, r3, h3, hC⟩ := bind_ok hB
  have e4 := setPr_ok hC; subst e4
  rcases (send_spec _ _).elim h3 with ⟨hp, _⟩ | ⟨_, rfl⟩
  · simp [isPromise] at hp
  · refine ⟨_, rfl, ?_, ?_, ?_⟩ <;> simp [stamped]

/-! ### non-vacuity -/

/-- leader 1 of {1,2,3}, term 2, one entry of term 2 at index 1 acknowledged only by itself -/
def exLead3 : Raft :=
  { cfg := { id := 1 }, term := 2, vote := 1, lead := 1, state := .leader,
    log := { (RaftLog.new {} 1000) with
             unstable := { offset := 1, offsetInProgress := 2, entries := [{ term := 2, index := 1 }] } },
    trk := { cfg := { voters := [1, 2, 3] }, maxInflight := 16,
             progress := [(1, { match_ := 1, next := 2, state := .replicate, recentActive := true }),
                          (2, { match_ := 0, next := 2, state := .replicate, inflights := { size := 16 } }),
                          (3, { match_ := 0, next := 1, inflights := { size := 16 } })] } }

/-- the acknowledgement of follower 2 commits index 1 (quorum index 1, term 2 = own term, inside the log) and
the new commit index is broadcast -/
theorem leader_commit_example :
    ((Raft.step 3 { typ := .appResp, «from» := 2, to := 1, term := 2, index := 1 }).run exLead3).toOption.map
      (fun p => p.2.log.committed == 1 && p.2.trk.committed == some 1 && p.2.term == 2 &&
        p.2.state == .leader && (p.2.log.term 1).toOption == some 2 &&
        p.2.msgs.map (fun x => (x.typ, x.to, x.commit)) == [(.app, 2, 1), (.app, 3, 1)]) = some true := by
  rw [Raft.step, Raft.stepLeader]; decide +kernel

example : exLead3.state = .leader ∧ exLead3.log.committed = 0 := by decide

/-- an entry of an *older* term is not committed by counting replicas (Raft §5.4.2): same situation but the
leader's term is 3 -/
theorem old_term_not_committed_example :
    ((Raft.step 3 { typ := .appResp, «from» := 2, to := 1, term := 3, index := 1 }).run
      { exLead3 with term := 3 }).toOption.map
      (fun p => p.2.log.committed == 0 && p.2.trk.committed == some 1) = some true := by
  rw [Raft.step, Raft.stepLeader]; decide +kernel

/-- a follower of term 2 with an empty log -/
def exFol : Raft := { cfg := { id := 2 }, term := 2, lead := 1, log := RaftLog.new {} 1000 }

/-- non-vacuity of `follower_commit_bounded`: two entries arrive with commit 5: committed = min(5, 0+2) = 2 -/
example :
    ((Raft.handleAppendEntries
        { typ := .app, «from» := 1, to := 2, term := 2, index := 0, logTerm := 0, commit := 5,
          entries := [{ term := 2, index := 1 }, { term := 2, index := 2 }] }).run exFol).toOption.map
      (fun p => (p.2.log.committed, p.2.log.lastIndex)) = some (2, 2) := by decide +kernel

/-- non-vacuity of `follower_heartbeat_commit_panics` -/
example : (Raft.handleHeartbeat { typ := .heartbeat, «from» := 1, to := 2, term := 2, commit := 3 }).run exFol =
    .error "commitTo: tocommit out of range" :=
  follower_heartbeat_commit_panics _ exFol (by decide) (by decide)

end RaftVerif.C06L
