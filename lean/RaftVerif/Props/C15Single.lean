import RaftVerif.Proofs.NextSoloLog
/-!
# Props/C15Single — end-to-end liveness of a single-voter group (C15)

For **every** `RawNode` whose configuration has the node itself as sole voter (no joint configuration, only
itself tracked), in sync storage mode, a follower with a well-formed log, nothing unstable and nothing
committed-but-unapplied, empty outgoing queues — and whatever election-timeout draws `d1 d2` the model's
`globalRand` supplies — driving it with the standard application loop **never panics** (every model call
returns `.ok`) and

* `single_voter_elects`: `Tick` until the randomized election timeout, one `Ready`/`Advance`: it is **leader
  of the next term**, the empty entry of that term appended;
* `single_voter_commits` / `single_voter_liveness` (additionally `committed = lastIndex`, see
  `Next.SoloCaughtUp`): one `Ready`/persist/`Advance` round commits the empty entry; `Propose data` is accepted;
  one more round ends with **`committed = lastIndex`**, and the next `Ready` carries **the proposed entry in
  `CommittedEntries`**.

The explicit bound: `k + 1` ticks (`k + 1 = randomizedElectionTimeout - electionElapsed`, or 1 if that is not
positive), 1 + 2 `Ready`/`Advance` rounds, 1 further `Ready`.

What is fixed (see `Next.SoloStart`, `Next.SoloCaughtUp`): `preVote = false` (with PreVote one more
`Ready`/`Advance` round is needed: the pre-vote response to itself); `msgs = msgsAfterAppend = []`; no unstable
entries or snapshot; `committed ≤ applied`; for the commit part `committed = lastIndex`, applying not paused, no
parked ReadIndex requests, `autoLeave = false`; the harness field `draws = []`.  Limits (`maxSizePerMsg`,
`maxCommittedSizePerReady`, `maxUncommittedEntriesSize`, inflight limits) are arbitrary: with one entry per
batch none of them bites (a batch is never empty; the uncommitted size is 0 when the proposal arrives).

Machinery: `Proofs/NextSolo.lean`, `Proofs/NextSoloLog.lean` (run equations = exact results + totality),
`Proofs/NextReady.lean` (`ready_sync`: `Ready` in sync mode never panics; exact result).
-/
namespace RaftVerif.C15S
open Raft Next

/-- **C15 (single voter) election**: from any state of the shape `SoloStart id rn`, after `k` idle ticks
(`k` = the number of ticks before the randomized election timeout is reached), the firing tick, one `Ready`
and one `Advance`, every call succeeded and the node is **leader of term `term + 1`**, voted for itself, and
its log is the old log (`acceptUnstable` only moves the in-progress marker) with **one empty entry of the new
term appended at `lastIndex + 1`**; its self-acknowledgement of that entry is waiting in `msgsAfterAppend` -/
theorem single_voter_elects {id : Id} (rn : RawNode) (k d1 d2 : Nat) (h : SoloStart id rn)
    (hk : k = 0 ∨ rn.raft.electionElapsed + k < rn.raft.randomizedElectionTimeout)
    (hk' : rn.raft.randomizedElectionTimeout ≤ rn.raft.electionElapsed + k + 1) :
    ∃ rnL, electSchedule rn k d1 d2 = .ok rnL ∧
      rnL.raft.state = .leader ∧ rnL.raft.term = rn.raft.term + 1 ∧ rnL.raft.lead = id ∧ rnL.raft.vote = id ∧
      rn.raft.term < rnL.raft.term ∧
      rn.raft.log.acceptUnstable.append [{ term := rn.raft.term + 1, index := rn.raft.log.lastIndex + 1 }] =
        .ok (rnL.raft.log, rn.raft.log.lastIndex + 1) ∧
      rnL.raft.log.lastIndex = rn.raft.log.lastIndex + 1 ∧ rnL.raft.log.WF ∧
      rnL.raft.msgs = [] ∧
      rnL.raft.msgsAfterAppend = [selfAck id (rn.raft.term + 1) (rn.raft.log.lastIndex + 1)] ∧
      rnL.stepsOnAdvance = [] := by
  obtain ⟨rnL, hrun, hf⟩ := solo_elects_run rn k d1 d2 h hk hk'
  exact ⟨rnL, hrun, hf.leader, hf.term, hf.lead, hf.vote, by rw [hf.term]; omega, hf.log, hf.lastIndex, hf.logWF,
    hf.msgs, hf.maa, hf.advanced⟩

/-- the schedule, spelled out -/
theorem electSchedule_eq (rn : RawNode) (k d1 d2 : Nat) :
    electSchedule rn k d1 d2 =
      (idleTicks k rn >>= fun a => a.tick [d1] >>= fun b => b.ready >>= fun p => p.2.advance [d2]) := rfl

theorem idleTicks_succ (k : Nat) (rn : RawNode) : idleTicks (k + 1) rn = (rn.tick [] >>= idleTicks k) := rfl
theorem idleTicks_zero (rn : RawNode) : idleTicks 0 rn = .ok rn := rfl

/-- the complete schedule: election, one round (the empty entry is persisted and committed), `Propose data`, one
round (the entry is persisted and committed, the empty entry applied), and the next `Ready`.
`syncRound rn draws` = `Ready`; persist `rd.Entries` into the `MemoryStorage`; `Advance`. -/
def commitSchedule (rn : RawNode) (k d1 d2 : Nat) (data : Option Bytes) : Except String (Ready × RawNode) := do
  let rnL ← electSchedule rn k d1 d2
  let (_, rnA) ← syncRound rnL []
  let (_, rnB) ← rnA.propose [] data
  let (_, rnC) ← syncRound rnB []
  let rd ← rnC.readyWithoutAccept
  pure (rd, rnC)

/-- **C15 (single voter) end to end**, step by step.  For every node of shape `SoloStart id rn` that is
moreover caught up (`SoloCaughtUp`: `committed = lastIndex`, applying not paused, no parked read requests, no
auto-leave pending), all draws `d1 d2` and every payload `data`: every call of the schedule returns `.ok`
(no panic, the proposal is **not dropped**), and
* after the election the node is leader of `term + 1`;
* the first round persists the empty entry `(term+1, lastIndex+1)` and **commits** it;
* the round after `Propose data` persists the entry `(term+1, lastIndex+2, data)`, hands out the empty entry for
  application and ends with **`committed = lastIndex = old lastIndex + 2`**, still leader of `term + 1`;
* the next `Ready` carries **exactly the proposed entry in `CommittedEntries`**. -/
theorem single_voter_commits {id : Id} (rn : RawNode) (k d1 d2 : Nat) (data : Option Bytes) (h : SoloStart id rn)
    (hcu : SoloCaughtUp rn)
    (hk : k = 0 ∨ rn.raft.electionElapsed + k < rn.raft.randomizedElectionTimeout)
    (hk' : rn.raft.randomizedElectionTimeout ≤ rn.raft.electionElapsed + k + 1) :
    ∃ rnL rd2 rnA rnB rd3 rnC rd4,
      electSchedule rn k d1 d2 = .ok rnL ∧ syncRound rnL [] = .ok (rd2, rnA) ∧
      rnA.propose [] data = .ok (none, rnB) ∧ syncRound rnB [] = .ok (rd3, rnC) ∧
      rnC.readyWithoutAccept = .ok rd4 ∧
      rnL.raft.state = .leader ∧ rnL.raft.term = rn.raft.term + 1 ∧
      rd2.entries = [{ term := rn.raft.term + 1, index := rn.raft.log.lastIndex + 1 }] ∧
      rnA.raft.log.committed = rn.raft.log.lastIndex + 1 ∧ rnA.raft.log.lastIndex = rn.raft.log.lastIndex + 1 ∧
      rd3.entries = [proposed (rn.raft.term + 1) (rn.raft.log.lastIndex + 2) data] ∧
      rd3.committedEntries = [{ term := rn.raft.term + 1, index := rn.raft.log.lastIndex + 1 }] ∧
      rnC.raft.state = .leader ∧ rnC.raft.term = rn.raft.term + 1 ∧
      rnC.raft.log.committed = rn.raft.log.lastIndex + 2 ∧ rnC.raft.log.lastIndex = rn.raft.log.lastIndex + 2 ∧
      rnC.raft.log.applied = rn.raft.log.lastIndex + 1 ∧
      rd4.committedEntries = [proposed (rn.raft.term + 1) (rn.raft.log.lastIndex + 2) data] :=
  solo_commits_run rn k d1 d2 data h hcu hk hk'

/-- **C15 (single voter) end to end**, compact: the whole schedule succeeds; at its end the node is leader of
a higher term, `committed = lastIndex`, and the `Ready` hands out the proposed entry `(term+1, lastIndex+2, data)` -/
theorem single_voter_liveness {id : Id} (rn : RawNode) (k d1 d2 : Nat) (data : Option Bytes) (h : SoloStart id rn)
    (hcu : SoloCaughtUp rn)
    (hk : k = 0 ∨ rn.raft.electionElapsed + k < rn.raft.randomizedElectionTimeout)
    (hk' : rn.raft.randomizedElectionTimeout ≤ rn.raft.electionElapsed + k + 1) :
    ∃ rd rnC, commitSchedule rn k d1 d2 data = .ok (rd, rnC) ∧
      rnC.raft.state = .leader ∧ rn.raft.term < rnC.raft.term ∧
      rnC.raft.log.committed = rnC.raft.log.lastIndex ∧
      rd.committedEntries = [{ term := rn.raft.term + 1, index := rn.raft.log.lastIndex + 2, data := data }] := by
  obtain ⟨rnL, rd2, rnA, rnB, rd3, rnC, rd4, e1, e2, e3, e4, e5, _, _, _, _, _, _, _, h1, h2, h3, h4, _, h5⟩ :=
    single_voter_commits rn k d1 d2 data h hcu hk hk'
  refine ⟨rd4, rnC, ?_, h1, by rw [h2]; omega, by rw [h3, h4], h5⟩
  unfold commitSchedule
  simp only [e1, e2, e3, e4, e5, bind, Except.bind, pure, Except.pure]

/-! ### non-vacuity -/

/-- a fresh single-node group: node 1, log empty, follower of term 0, election timeout 10 (randomized: 13) -/
def exSolo : RawNode :=
  { raft := { cfg := { id := 1, electionTimeout := 10 }, log := RaftLog.new {} 1000, randomizedElectionTimeout := 13,
              trk := { cfg := { voters := [1] }, progress := [(1, { match_ := 0, next := 1 })], maxInflight := 16 } } }

theorem exSolo_start : SoloStart 1 exSolo := by
  refine ⟨rfl, rfl, ⟨rfl, by decide, rfl, rfl, ⟨_, rfl, rfl⟩⟩, rfl, rfl, by decide, rfl, rfl, by decide, rfl, rfl, rfl⟩

/-- 12 idle ticks, the 13th fires: the hypotheses of `single_voter_elects` hold for `exSolo` (non-vacuity), so it
is leader of term 1 with the empty entry at index 1 -/
example : ∃ rnL, electSchedule exSolo 12 3 5 = .ok rnL ∧ rnL.raft.state = .leader ∧ rnL.raft.term = 1 ∧
    rnL.raft.log.lastIndex = 1 := by
  obtain ⟨rnL, h1, h2, h3, _, _, _, _, h4, _⟩ :=
    single_voter_elects exSolo 12 3 5 exSolo_start (Or.inr (by decide)) (by decide)
  exact ⟨rnL, h1, h2, h3, h4⟩

theorem exSolo_caughtUp : SoloCaughtUp exSolo := ⟨by decide, rfl, rfl, rfl⟩

/-- the hypotheses of `single_voter_liveness` hold for `exSolo`: after the schedule (12 idle ticks, …) it is leader
of term 1 with `committed = lastIndex`, and the `Ready` hands out the entry (term 1, index 2, payload `[7]`) -/
example : ∃ rd rnC, commitSchedule exSolo 12 3 5 (some [7]) = .ok (rd, rnC) ∧ rnC.raft.state = .leader ∧
    rnC.raft.log.committed = rnC.raft.log.lastIndex ∧
    rd.committedEntries = [{ term := 1, index := 2, data := some [7] }] := by
  obtain ⟨rd, rnC, h1, h2, _, h3, h4⟩ :=
    single_voter_liveness exSolo 12 3 5 (some [7]) exSolo_start exSolo_caughtUp (Or.inr (by decide)) (by decide)
  exact ⟨rd, rnC, h1, h2, h3, h4⟩

end RaftVerif.C15S
