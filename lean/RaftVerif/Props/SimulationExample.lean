import RaftVerif.Props.Simulation
/-!
# Props/SimulationExample — non-vacuity of the simulation theorem

An *executable* environment (`runOp`, `runOps`: every successful operation is an `EnvStep`, `runOp_step`,
`runOps_reachable`), the concrete three-node cluster `c0` (an `InitCluster [1, 2, 3]`, `c0_init`), and a concrete
schedule `ops` — election of node 1 with the vote of node 2, commit of the leader's empty entry, one proposal `[7]`
replicated to node 2 and committed on both — evaluated in the kernel (`example_eval`, `example_run`); `opsMore`
continues with a leader tick, a heartbeat and the catch-up of node 3; `opsCrash` with a crash/restart of follower 2
and of the leader 1, the election of node 2 in term 2, a proposal forwarded by follower 3 and committed, and the
catch-up of the old leader (`example_eval_crash`, `example_run_crash`, `example_related_crash`).  Corollaries: the cluster at the end of the run
is related (`Sim.RSD`) to a reachable Spec state (`example_related`), and the hypotheses of
`cluster_state_machine_safety` are satisfiable (`example_safety`).

Kernel evaluation (`decide +kernel`) goes through `kFns`, copies of the model's node operations in which the
well-founded `Raft.step` is unfolded, with `kFns_eq : modelFns = kFns`.
-/
namespace RaftVerif.Simulation
open Sim Refine

instance instDecidableDeliverable (t : MsgType) : Decidable (Deliverable t) := by
  unfold Deliverable; infer_instance

instance instDecidableCovered (t : MsgType) : Decidable (Covered t) := by
  unfold Covered; infer_instance

/-- operations of the executable environment (one per constructor of `EnvStep`) -/
inductive EnvOp where
  /-- deliver the `i`-th message of `net` to node `n` (it must be addressed to `n` and of a `Covered` kind:
  `Deliverable` or a forwarded proposal) -/
  | deliver (n : Nat) (i : Nat) (draws : List Nat)
  | sync (n : Nat) (draws : List Nat)
  | tick (n : Nat) (draws : List Nat)
  | propose (n : Nat) (data : Option Bytes) (draws : List Nat)
  | campaign (n : Nat) (draws : List Nat)
  /-- crash node `n` and restart it at once from its own storage, with the configuration `Sim.exCfg n` it was
  built with (`electionTick = 10`, `heartbeatTick = 1`, `maxInflightMsgs = 256`); refused if a vote request of the
  node is still waiting in `msgs` -/
  | crash (n : Nat) (draws : List Nat)

/-- the node-level operations the environment uses (so that the same schedule runner can be instantiated with the
model's functions and with kernel-reducible copies of them, proved equal below) -/
structure NodeFns where
  step : RawNode → List Nat → Message → Except String (Option ApiErr × RawNode)
  sync : RawNode → List Nat → Except String (Ready × RawNode)
  tick : RawNode → List Nat → Except String RawNode
  propose : RawNode → List Nat → Option Bytes → Except String (Option ApiErr × RawNode)
  campaign : RawNode → List Nat → Except String (Option ApiErr × RawNode)

/-- the model: `RawNode.step`, `syncRound`, `RawNode.tick`, `RawNode.propose`, `RawNode.campaign` -/
def modelFns : NodeFns :=
  { step := fun rn d m => RawNode.step rn d m, sync := fun rn d => syncRound rn d, tick := fun rn d => RawNode.tick rn d,
    propose := fun rn d x => RawNode.propose rn d x, campaign := fun rn d => RawNode.campaign rn d }

/-- run one operation; `none` if the node is missing, the message index is out of range, the message is not
addressed to the node or not `Covered`, or the model operation fails (`.error`: a panic of the model, or draws
missing / left over) -/
def runOpWith (F : NodeFns) (c : Cluster) : EnvOp → Option Cluster
  | .deliver n i draws =>
    match c.nodes n, c.net[i]? with
    | some rn, some m =>
      if m.to = n ∧ Covered m.typ then
        match F.step rn draws m with
        | .ok (_, rn') => some (c.setNode n rn')
        | .error _ => none
      else none
    | _, _ => none
  | .sync n draws =>
    match c.nodes n with
    | some rn =>
      match F.sync rn draws with
      | .ok (rd, rn') => some { (c.setNode n rn') with net := c.net ++ rd.messages }
      | .error _ => none
    | none => none
  | .tick n draws =>
    match c.nodes n with
    | some rn =>
      match F.tick rn draws with
      | .ok rn' => some (c.setNode n rn')
      | .error _ => none
    | none => none
  | .propose n data draws =>
    match c.nodes n with
    | some rn =>
      match F.propose rn draws data with
      | .ok (_, rn') => some (c.setNode n rn')
      | .error _ => none
    | none => none
  | .campaign n draws =>
    match c.nodes n with
    | some rn =>
      match F.campaign rn draws with
      | .ok (_, rn') => some (c.setNode n rn')
      | .error _ => none
    | none => none
  | .crash n draws =>
    match c.nodes n with
    | some rn =>
      if rn.raft.msgs.all (fun m => decide (m.typ ≠ .vote)) then
        match RawNode.new (exCfg n) rn.raft.log.storage draws with
        | .ok rn' => some (c.setNode n rn')
        | .error _ => none
      else none
    | none => none

def runOpsWith (F : NodeFns) (c : Cluster) : List EnvOp → Option Cluster
  | [] => some c
  | op :: ops => (runOpWith F c op).bind (fun c' => runOpsWith F c' ops)

/-- **the executable environment**: one operation on the cluster of model nodes -/
def runOp (c : Cluster) (op : EnvOp) : Option Cluster := runOpWith modelFns c op

/-- a schedule -/
def runOps (c : Cluster) (ops : List EnvOp) : Option Cluster := runOpsWith modelFns c ops

theorem runOps_nil (c : Cluster) : runOps c [] = some c := rfl
theorem runOps_cons (c : Cluster) (op : EnvOp) (ops : List EnvOp) :
    runOps c (op :: ops) = (runOp c op).bind (fun c' => runOps c' ops) := rfl

/-- **every successful operation is an environment step** -/
theorem runOp_step {c c' : Cluster} {op : EnvOp} (h : runOp c op = some c') : EnvStep c c' := by
  cases op with
  | deliver n i draws =>
    simp only [runOp, runOpWith, modelFns] at h
    split at h
    · rename_i rn m hn hm
      split at h
      · rename_i hc
        split at h
        · rename_i e rn' hr
          cases h
          exact .deliver n rn rn' draws m e hn (List.mem_of_getElem? hm) hc.1 hc.2 hr
        · cases h
      · cases h
    · cases h
  | sync n draws =>
    simp only [runOp, runOpWith, modelFns] at h
    split at h
    · rename_i rn hn
      split at h
      · rename_i rd rn' hr
        cases h
        exact .sync n rn rn' draws rd hn hr
      · cases h
    · cases h
  | tick n draws =>
    simp only [runOp, runOpWith, modelFns] at h
    split at h
    · rename_i rn hn
      split at h
      · rename_i rn' hr
        cases h
        exact .tick n rn rn' draws hn hr
      · cases h
    · cases h
  | propose n data draws =>
    simp only [runOp, runOpWith, modelFns] at h
    split at h
    · rename_i rn hn
      split at h
      · rename_i e rn' hr
        cases h
        exact .propose n rn rn' draws data e hn hr
      · cases h
    · cases h
  | campaign n draws =>
    simp only [runOp, runOpWith, modelFns] at h
    split at h
    · rename_i rn hn
      split at h
      · rename_i e rn' hr
        cases h
        exact .campaign n rn rn' draws e hn hr
      · cases h
    · cases h
  | crash n draws =>
    simp only [runOp, runOpWith] at h
    split at h
    · rename_i rn hn
      split at h
      · rename_i hall
        split at h
        · rename_i rn' hr
          cases h
          refine .crash n rn rn' (exCfg n) draws hn (fun m hm => ?_) rfl rfl rfl rfl hr
          exact of_decide_eq_true (List.all_eq_true.1 hall m hm)
        · cases h
      · cases h
    · cases h

/-- a successful run of a schedule stays within the reachable clusters -/
theorem runOps_reachable {c0 c c' : Cluster} {ops : List EnvOp} (hc : CReachable c0 c)
    (h : runOps c ops = some c') : CReachable c0 c' := by
  induction ops generalizing c with
  | nil => simp only [runOps_nil, Option.some.injEq] at h; subst h; exact hc
  | cons op ops ih =>
    rw [runOps_cons] at h
    cases h1 : runOp c op with
    | none => rw [h1] at h; cases h
    | some c1 =>
      rw [h1] at h
      exact ih (.step hc (runOp_step h1)) h

theorem runOps_append (c : Cluster) (xs ys : List EnvOp) :
    runOps c (xs ++ ys) = (runOps c xs).bind (fun c' => runOps c' ys) := by
  induction xs generalizing c with
  | nil => rfl
  | cons x xs ih =>
    simp only [List.cons_append, runOps_cons]
    cases runOp c x with
    | none => rfl
    | some c1 => exact ih c1

/-! ## The concrete three-node cluster -/

/-- node `n` of the example: `RawNode.new` with `electionTick = 10`, `heartbeatTick = 1`, `maxInflightMsgs = 256`
(`Sim.exCfg n`) on the empty storage bootstrapped with the voters `[1, 2, 3]`, election-timeout draw `0` -/
def exNode (n : Nat) : Except String RawNode :=
  RawNode.new { id := n, electionTick := 10, heartbeatTick := 1, maxInflightMsgs := 256 } (initStorage [1, 2, 3]) [0]

/-- the initial cluster: nodes 1, 2, 3, empty network -/
def c0 : Cluster :=
  { nodes := fun n => if n = 1 ∨ n = 2 ∨ n = 3 then (exNode n).toOption else none, net := [] }

/-- the three constructions succeed -/
theorem exNode_ok (n : Nat) (hn : n = 1 ∨ n = 2 ∨ n = 3) : ∃ rn, exNode n = .ok rn :=
  init_exists (c := exCfg n) (c' := C14.cfgFill (exCfg n)) (by decide) (by decide) rfl
    (by rcases hn with rfl | rfl | rfl <;> rfl)

theorem c0_nodes (n : Nat) (hn : n = 1 ∨ n = 2 ∨ n = 3) : ∃ rn, c0.nodes n = some rn ∧ exNode n = .ok rn := by
  obtain ⟨rn, h⟩ := exNode_ok n hn
  exact ⟨rn, by simp only [c0, hn, if_true, h, Except.toOption], h⟩

theorem c0_init : InitCluster [1, 2, 3] c0 := by
  refine ⟨rfl, fun n rn h => ?_⟩
  simp only [c0] at h
  split at h
  · rename_i hn
    refine ⟨by simpa using hn, exCfg n, [0], rfl, rfl, rfl, rfl, ?_⟩
    cases hx : exNode n with
    | error e => rw [hx] at h; cases h
    | ok rn' =>
      rw [hx] at h
      simp only [Except.toOption, Option.some.injEq] at h
      subst h
      exact hx
  · cases h

/-- the initial cluster is related to the initial Spec state -/
theorem c0_related (val : Val) : RSD val [1, 2, 3] c0 Spec.State.init :=
  init_related (by decide) (by decide) c0_init

/-! ## Kernel-reducible copies of the model functions

`Raft.step` is defined by well-founded recursion (on the fuel, mutually with `appliedTo`/`appliedSnap`), which the
kernel cannot unfold.  `stepKs k` is the same function obtained by unfolding its equation lemmas `k` times
(structural recursion on `k`), *together with the proof that it is equal to `Raft.step k`*; `kFns` are the node
operations of `modelFns` with `Raft.step Raft.stepFuel` replaced by it.  Nothing is re-implemented: the terms are
produced from the model's own definitions by `unfold`/`rw`, and `kFns_eq : modelFns = kFns`. -/

/-- `Raft.step k`, unfolded -/
def stepKs : (k : Nat) → { f : Message → M (Option StepErr) // Raft.step k = f }
  | 0 => ⟨fun _ => throw "MODEL: step nesting deeper than expected", by funext m; rw [Raft.step]⟩
  | k + 1 =>
    have st := stepKs k
    have ato : { f : Nat → Nat → M Unit // Raft.appliedTo k = f } := by
      refine ⟨?g1, ?_⟩; rotate_left
      funext i s
      rw [Raft.appliedTo, st.2]
    have asn : { f : Snapshot → M Unit // Raft.appliedSnap k = f } := by
      refine ⟨?g2, ?_⟩; rotate_left
      funext s
      rw [Raft.appliedSnap, ato.2]
    by
      refine ⟨?g3, ?_⟩; rotate_left
      funext m
      rw [Raft.step, ato.2, asn.2]

theorem stepK_eq : Raft.step Raft.stepFuel = (stepKs Raft.stepFuel).1 := (stepKs Raft.stepFuel).2

/-- the node operations with `Raft.step Raft.stepFuel` replaced by its unfolded copy, and the proof of equality -/
def kFnsSig : { F : NodeFns // modelFns = F } := by
  refine ⟨?F, ?_⟩; rotate_left
  unfold modelFns RawNode.step RawNode.campaign RawNode.propose RawNode.rstep syncRound RawNode.advance RawNode.tick
    Raft.tick Raft.tickElection Raft.tickHeartbeat
  rw [stepK_eq]

def kFns : NodeFns := kFnsSig.1
theorem kFns_eq : modelFns = kFns := kFnsSig.2

theorem runOpsK_eq (c : Cluster) (ops : List EnvOp) : runOpsWith kFns c ops = runOps c ops := by
  rw [← kFns_eq]; rfl

/-! ## The schedule -/

/-- election of node 1 with the vote of node 2; the leader's empty entry is replicated to 2 and committed; the
proposal `[7]` is appended, replicated to 2, committed, and the commit index is propagated to 2.  (`net` indexes:
0/1 `MsgVote` to 2/3, 2 `MsgVoteResp`, 3/4 `MsgApp` (empty entry) to 2/3, 5 `MsgAppResp(1)`, 6 `MsgApp` (commit 1),
7 `MsgApp` (entry 2), 8 `MsgAppResp(2)`, 9 `MsgApp` (commit 2), 10 `MsgAppResp(2)`.)  An operation whose step
calls `reset` (`becomeCandidate`, `becomeFollower`, `becomeLeader`) consumes one election-timeout draw. -/
def ops : List EnvOp :=
  [.campaign 1 [0], .sync 1 [], .deliver 2 0 [0], .sync 2 [], .deliver 1 2 [0], .sync 1 [],
   .deliver 2 3 [], .sync 2 [], .deliver 1 5 [], .propose 1 (some [7]) [], .sync 1 [],
   .deliver 2 7 [], .sync 2 [], .deliver 1 8 [], .sync 1 [], .deliver 2 9 [], .sync 2 []]

/-- continuation: the leader's heartbeat timeout fires (`tick`), the heartbeat (net 12) brings node 3 — which has
seen nothing so far — into term 1, its `MsgHeartbeatResp` (13) makes the leader resend the empty entry (14), the
`MsgAppResp(1)` (15) moves 3 to replicate state and brings entry 2 with commit 2 (16) -/
def opsMore : List EnvOp :=
  [.tick 1 [], .sync 1 [], .deliver 3 12 [0], .sync 3 [], .deliver 1 13 [], .sync 1 [],
   .deliver 3 14 [], .sync 3 [], .deliver 1 15 [], .sync 1 [], .deliver 3 16 [], .sync 3 []]

/-- what we observe of a node: role, term, commit index, applied index, and the entries of its log -/
structure NodeObs where
  state : Role
  term : Nat
  committed : Nat
  applied : Nat
  ents : List Entry
  deriving DecidableEq, Repr

def obsNode (c : Cluster) (n : Nat) : Option NodeObs :=
  (c.nodes n).map fun rn => ⟨rn.raft.state, rn.raft.term, rn.raft.log.committed, rn.raft.log.applied,
    rn.raft.log.abs.ents⟩

/-- what we observe of a cluster: the three nodes and the number of messages in the network -/
structure ClusterObs where
  n1 : Option NodeObs
  n2 : Option NodeObs
  n3 : Option NodeObs
  netLen : Nat
  deriving DecidableEq, Repr

def obsCluster (c : Cluster) : ClusterObs := ⟨obsNode c 1, obsNode c 2, obsNode c 3, c.net.length⟩

/-- the two entries of the example: the leader's empty entry and the proposal -/
def exLog : List Entry := [{ term := 1, index := 1 }, { term := 1, index := 2, data := some [7] }]

theorem of_map_eq {α β : Type} {o : Option α} {f : α → β} {b : β} (h : o.map f = some b) :
    ∃ a, o = some a ∧ f a = b := by
  cases o with
  | none => cases h
  | some a => exact ⟨a, rfl, by simpa using h⟩

/-- kernel evaluation of the schedule -/
theorem example_eval :
    (runOps c0 ops).map obsCluster =
      some ⟨some ⟨.leader, 1, 2, 2, exLog⟩, some ⟨.follower, 1, 2, 2, exLog⟩, some ⟨.follower, 0, 0, 0, []⟩, 11⟩ := by
  rw [← runOpsK_eq]; decide +kernel

/-- kernel evaluation of the longer schedule: all three nodes have committed and applied both entries -/
theorem example_eval_more :
    (runOps c0 (ops ++ opsMore)).map obsCluster =
      some ⟨some ⟨.leader, 1, 2, 2, exLog⟩, some ⟨.follower, 1, 2, 2, exLog⟩, some ⟨.follower, 1, 2, 2, exLog⟩, 18⟩ := by
  rw [← runOpsK_eq]; decide +kernel

/-! ## The run, and the simulation theorem applied to it -/

/-- **the schedule runs** (no operation fails, every draw is consumed): at its end node 1 is leader of term 1 with
commit index 2, node 2 is a follower of term 1 with commit index 2, both hold the log `exLog` (the empty entry of
term 1 and the proposal `[7]`) and have applied it; node 3 has not heard of anything -/
theorem example_run : ∃ c, runOps c0 ops = some c ∧
    (c.nodes 1).map (fun rn => (rn.raft.state, rn.raft.term, rn.raft.log.committed)) = some (.leader, 1, 2) ∧
    (c.nodes 2).map (fun rn => (rn.raft.state, rn.raft.term, rn.raft.log.committed)) = some (.follower, 1, 2) ∧
    obsNode c 1 = some ⟨.leader, 1, 2, 2, exLog⟩ ∧ obsNode c 2 = some ⟨.follower, 1, 2, 2, exLog⟩ ∧
    obsNode c 3 = some ⟨.follower, 0, 0, 0, []⟩ ∧ c.net.length = 11 := by
  obtain ⟨c, hc, ho⟩ := of_map_eq example_eval
  simp only [obsCluster, ClusterObs.mk.injEq] at ho
  obtain ⟨h1, h2, h3, h4⟩ := ho
  refine ⟨c, hc, ?_, ?_, h1, h2, h3, h4⟩
  · obtain ⟨rn, hn, hv⟩ := of_map_eq h1
    simp only [NodeObs.mk.injEq] at hv
    rw [hn, Option.map_some, hv.1, hv.2.1, hv.2.2.1]
  · obtain ⟨rn, hn, hv⟩ := of_map_eq h2
    simp only [NodeObs.mk.injEq] at hv
    rw [hn, Option.map_some, hv.1, hv.2.1, hv.2.2.1]

/-- the longer schedule runs: all three nodes end with commit index 2, applied index 2 and the log `exLog` -/
theorem example_run_more : ∃ c, runOps c0 (ops ++ opsMore) = some c ∧
    obsNode c 1 = some ⟨.leader, 1, 2, 2, exLog⟩ ∧ obsNode c 2 = some ⟨.follower, 1, 2, 2, exLog⟩ ∧
    obsNode c 3 = some ⟨.follower, 1, 2, 2, exLog⟩ ∧ c.net.length = 18 := by
  obtain ⟨c, hc, ho⟩ := of_map_eq example_eval_more
  simp only [obsCluster, ClusterObs.mk.injEq] at ho
  exact ⟨c, hc, ho⟩

/-- the end of the run is a reachable cluster -/
theorem example_reachable : ∃ c, runOps c0 ops = some c ∧ CReachable c0 c := by
  obtain ⟨c, hc, _⟩ := example_run
  exact ⟨c, hc, runOps_reachable .init hc⟩

/-- **the simulation theorem bites**: the concrete run — election, the empty entry and one proposal committed — ends
in a cluster that is related (`Sim.RSD`, for every payload encoding `val`) to a reachable state of the abstract
protocol over the voters `[1, 2, 3]` -/
theorem example_related (val : Refine.Val) :
    ∃ c s, runOps c0 ops = some c ∧ Spec.Reachable (Sim.cfgOf [1, 2, 3]) s ∧ Sim.RSD val [1, 2, 3] c s := by
  obtain ⟨c, hc, hr⟩ := example_reachable
  obtain ⟨s, hs, hR⟩ := reachable_related (by decide) (by decide) (c0_related val) hr
  exact ⟨c, s, hc, hs, hR⟩

/-- **the hypotheses of `cluster_state_machine_safety` are satisfiable**: at the end of the run nodes 1 and 2 have
both committed index 2 and hold an entry there (the leader's one carries the payload `[7]`); the last conjunct — the
two entries agree — is obtained from `cluster_state_machine_safety`, not by evaluation -/
theorem example_safety : ∃ c ra rb e e', runOps c0 ops = some c ∧ CReachable c0 c ∧
    c.nodes 1 = some ra ∧ c.nodes 2 = some rb ∧ 2 ≤ ra.raft.log.committed ∧ 2 ≤ rb.raft.log.committed ∧
    ra.raft.log.abs.ents[2 - 1]? = some e ∧ rb.raft.log.abs.ents[2 - 1]? = some e' ∧ e.data = some [7] ∧
    (e.term = e'.term ∧ e.typ = e'.typ ∧ e.data = e'.data) := by
  obtain ⟨c, hc, _, _, h1, h2, _, _⟩ := example_run
  have hr : CReachable c0 c := runOps_reachable .init hc
  obtain ⟨ra, ha, hva⟩ := of_map_eq h1
  obtain ⟨rb, hb, hvb⟩ := of_map_eq h2
  simp only [NodeObs.mk.injEq] at hva hvb
  have hca : 2 ≤ ra.raft.log.committed := by rw [hva.2.2.1]; exact Nat.le_refl 2
  have hcb : 2 ≤ rb.raft.log.committed := by rw [hvb.2.2.1]; exact Nat.le_refl 2
  have hea : ra.raft.log.abs.ents[2 - 1]? = some { term := 1, index := 2, data := some [7] } := by
    rw [hva.2.2.2.2]; rfl
  have heb : rb.raft.log.abs.ents[2 - 1]? = some { term := 1, index := 2, data := some [7] } := by
    rw [hvb.2.2.2.2]; rfl
  exact ⟨c, ra, rb, _, _, hc, hr, ha, hb, hca, hcb, hea, heb, rfl,
    cluster_state_machine_safety (by decide) (by decide) (by decide) c0_init hr ha hb (by decide) hca hcb hea heb⟩

/-- the same for the longer schedule (tick, heartbeat, catch-up of node 3) -/
theorem example_related_more (val : Refine.Val) :
    ∃ c s, runOps c0 (ops ++ opsMore) = some c ∧ Spec.Reachable (Sim.cfgOf [1, 2, 3]) s ∧
      Sim.RSD val [1, 2, 3] c s := by
  obtain ⟨c, hc, _⟩ := example_run_more
  obtain ⟨s, hs, hR⟩ := reachable_related (by decide) (by decide) (c0_related val) (runOps_reachable .init hc)
  exact ⟨c, s, hc, hs, hR⟩

/-! ## Crashes, a second election, a forwarded proposal -/

/-- continuation after `ops ++ opsMore` (the network holds 18 messages):
* follower 2 crashes and restarts from its storage (two `sync` rounds re-apply the two committed entries);
* the leader, node 1, crashes and restarts (as a follower of term 1);
* node 2 campaigns for term 2 (vote requests: net 18/19), gets the vote of node 3 (20), becomes leader, appends its
  empty entry at index 3 (`MsgApp` 21/22 to 1/3), node 3 acknowledges (23), index 3 commits (24: commit 3 to 3);
* follower 3 proposes `[8]`: the proposal is **forwarded** to the leader (`MsgProp`, net 25), appended at index 4,
  replicated to 3 (26), acknowledged (27), committed, the commit index propagated (28, ack 29);
* the old leader, node 1, finally receives the new leader's first `MsgApp` (21): it enters term 2 and appends
  entry 3 (ack 30), gets entry 4 with commit 4 (31), and applies everything (three more `sync` rounds). -/
def opsCrash : List EnvOp :=
  [.crash 2 [0], .sync 2 [], .sync 2 [], .crash 1 [0], .campaign 2 [0], .sync 2 [],
   .deliver 3 19 [0], .sync 3 [], .deliver 2 20 [0], .sync 2 [], .deliver 3 22 [], .sync 3 [],
   .deliver 2 23 [], .sync 2 [],
   .propose 3 (some [8]) [], .sync 3 [], .deliver 2 25 [], .sync 2 [], .deliver 3 26 [], .sync 3 [],
   .deliver 2 27 [], .sync 2 [], .deliver 3 28 [], .sync 3 [],
   .deliver 1 21 [0], .sync 1 [], .deliver 2 30 [], .sync 2 [], .deliver 1 31 [], .sync 1 [], .sync 1 [], .sync 1 []]

/-- the log at the end: `exLog`, the empty entry of term 2 and the forwarded proposal -/
def exLog2 : List Entry := exLog ++ [{ term := 2, index := 3 }, { term := 2, index := 4, data := some [8] }]

/-- right after its crash (first operation of `opsCrash`) node 2 is back as a follower of term 1 holding both
entries, with the commit index 2 of its stored hard state and nothing applied yet -/
theorem example_eval_crash2 :
    (runOps c0 (ops ++ opsMore ++ opsCrash.take 1)).map obsCluster =
      some ⟨some ⟨.leader, 1, 2, 2, exLog⟩, some ⟨.follower, 1, 2, 0, exLog⟩, some ⟨.follower, 1, 2, 2, exLog⟩, 18⟩ := by
  rw [← runOpsK_eq]; decide +kernel

/-- right after the crash of the leader (fourth operation of `opsCrash`): three followers of term 1; the two
restarted nodes have recovered log and commit index from their storage -/
theorem example_eval_crash1 :
    (runOps c0 (ops ++ opsMore ++ opsCrash.take 4)).map obsCluster =
      some ⟨some ⟨.follower, 1, 2, 0, exLog⟩, some ⟨.follower, 1, 2, 2, exLog⟩, some ⟨.follower, 1, 2, 2, exLog⟩, 18⟩ := by
  rw [← runOpsK_eq]; decide +kernel

/-- kernel evaluation of the whole schedule (61 operations): node 2 leads term 2, all three nodes have committed and
applied the four entries `exLog2` — the two entries committed in term 1 survived both crashes and the election -/
theorem example_eval_crash :
    (runOps c0 (ops ++ opsMore ++ opsCrash)).map obsCluster =
      some ⟨some ⟨.follower, 2, 4, 4, exLog2⟩, some ⟨.leader, 2, 4, 4, exLog2⟩, some ⟨.follower, 2, 4, 4, exLog2⟩, 33⟩ := by
  rw [← runOpsK_eq]; decide +kernel

theorem example_run_crash : ∃ c, runOps c0 (ops ++ opsMore ++ opsCrash) = some c ∧
    obsNode c 1 = some ⟨.follower, 2, 4, 4, exLog2⟩ ∧ obsNode c 2 = some ⟨.leader, 2, 4, 4, exLog2⟩ ∧
    obsNode c 3 = some ⟨.follower, 2, 4, 4, exLog2⟩ ∧ c.net.length = 33 := by
  obtain ⟨c, hc, ho⟩ := of_map_eq example_eval_crash
  simp only [obsCluster, ClusterObs.mk.injEq] at ho
  exact ⟨c, hc, ho⟩

/-- the run with two crashes, a second election and a forwarded proposal is related to a Spec trace -/
theorem example_related_crash (val : Refine.Val) :
    ∃ c s, runOps c0 (ops ++ opsMore ++ opsCrash) = some c ∧ Spec.Reachable (Sim.cfgOf [1, 2, 3]) s ∧
      Sim.RSD val [1, 2, 3] c s := by
  obtain ⟨c, hc, _⟩ := example_run_crash
  obtain ⟨s, hs, hR⟩ := reachable_related (by decide) (by decide) (c0_related val) (runOps_reachable .init hc)
  exact ⟨c, s, hc, hs, hR⟩

/-! ## CheckQuorum

The same three nodes built with `checkQuorum := true` (`InitCluster` leaves `cfg.checkQuorum` free).  Two runs
exercise the behaviours that CheckQuorum adds: a leader that has not heard from a quorum for an election timeout
steps down in its own term (Spec `stepDown`), and a node of a higher term answers a stale leader's heartbeat with an
empty MsgAppResp of its own term, which deposes that leader (Spec `updateTerm`). -/

/-- `Sim.exCfg n` with CheckQuorum -/
def exCfgCQ (n : Nat) : Config := { exCfg n with checkQuorum := true }

def exNodeCQ (n : Nat) : Except String RawNode := RawNode.new (exCfgCQ n) (initStorage [1, 2, 3]) [0]

/-- the initial cluster with CheckQuorum: nodes 1, 2, 3, empty network -/
def cq0 : Cluster :=
  { nodes := fun n => if n = 1 ∨ n = 2 ∨ n = 3 then (exNodeCQ n).toOption else none, net := [] }

theorem cq0_init : InitCluster [1, 2, 3] cq0 := by
  refine ⟨rfl, fun n rn h => ?_⟩
  simp only [cq0] at h
  split at h
  · rename_i hn
    refine ⟨by simpa using hn, exCfgCQ n, [0], rfl, rfl, rfl, rfl, ?_⟩
    cases hx : exNodeCQ n with
    | error e => rw [hx] at h; cases h
    | ok rn' =>
      rw [hx] at h
      simp only [Except.toOption, Option.some.injEq] at h
      subst h
      exact hx
  · cases h

/-- election of node 1 with the vote of node 2 (`net`: 0/1 `MsgVote`, 2 `MsgVoteResp`, 3/4 `MsgApp`) -/
def opsElect : List EnvOp :=
  [.campaign 1 [0], .sync 1 [], .deliver 2 0 [0], .sync 2 [], .deliver 1 2 [0], .sync 1 []]

/-- ten ticks of the leader without any response: on the tenth (`electionTick = 10`) `MsgCheckQuorum` finds no
active quorum and the leader becomes a follower of its own term (one election-timeout draw) -/
def opsDown : List EnvOp :=
  [.tick 1 [], .tick 1 [], .tick 1 [], .tick 1 [], .tick 1 [], .tick 1 [], .tick 1 [], .tick 1 [], .tick 1 [],
   .tick 1 [0]]

/-- the leader's heartbeats go out (`net` 5/6); node 3 campaigns twice (candidate of term 2; `net` 7–10); the
heartbeat of term 1 (6) reaches it: it answers with an empty `MsgAppResp` of term 2 (`net` 11), which makes node 1 a
follower of term 2 -/
def opsStale : List EnvOp :=
  [.tick 1 [], .sync 1 [], .campaign 3 [0], .campaign 3 [0], .sync 3 [], .deliver 3 6 [], .sync 3 [],
   .deliver 1 11 [0]]

/-- the leader's log: its empty entry -/
def cqLog : List Entry := [{ term := 1, index := 1 }]

/-- kernel evaluation: the leader of term 1 steps down in term 1 -/
theorem example_eval_cq_down :
    (runOps cq0 (opsElect ++ opsDown)).map obsCluster =
      some ⟨some ⟨.follower, 1, 0, 0, cqLog⟩, some ⟨.follower, 1, 0, 0, []⟩, some ⟨.follower, 0, 0, 0, []⟩, 5⟩ := by
  rw [← runOpsK_eq]; decide +kernel

/-- kernel evaluation: the stale leader of term 1 is deposed by the answer of the candidate of term 2 -/
theorem example_eval_cq_stale :
    (runOps cq0 (opsElect ++ opsStale)).map obsCluster =
      some ⟨some ⟨.follower, 2, 0, 0, cqLog⟩, some ⟨.follower, 1, 0, 0, []⟩, some ⟨.candidate, 2, 0, 0, []⟩, 12⟩ := by
  rw [← runOpsK_eq]; decide +kernel

/-- both CheckQuorum runs end in clusters related to reachable states of the abstract protocol -/
theorem example_related_cq (val : Refine.Val) (ops' : List EnvOp) (h : ops' = opsDown ∨ ops' = opsStale) :
    ∃ c s, runOps cq0 (opsElect ++ ops') = some c ∧ Spec.Reachable (Sim.cfgOf [1, 2, 3]) s ∧
      Sim.RSD val [1, 2, 3] c s := by
  have hrun : ∃ c, runOps cq0 (opsElect ++ ops') = some c := by
    rcases h with rfl | rfl
    · obtain ⟨c, hc, _⟩ := of_map_eq example_eval_cq_down; exact ⟨c, hc⟩
    · obtain ⟨c, hc, _⟩ := of_map_eq example_eval_cq_stale; exact ⟨c, hc⟩
  obtain ⟨c, hc⟩ := hrun
  obtain ⟨s, hs, hR⟩ := reachable_related (by decide) (by decide)
    (init_related (val := val) (by decide) (by decide) cq0_init) (runOps_reachable .init hc)
  exact ⟨c, s, hc, hs, hR⟩

end RaftVerif.Simulation
