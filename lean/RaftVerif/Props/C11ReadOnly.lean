import RaftVerif.Proofs.FlowReadOnly
/-!
# C11 (ReadOnly bookkeeping part)  read positions, acknowledgements and release of read requests

Property theorems only (helpers in `Proofs/FlowReadOnly.lean`).  A request stored at list index `k`
of `unconfirmed` has *position* `confirmedReads + k + 1`; `pos = confirmedReads + len(unconfirmed)`
is the position of the latest request.  `Inv`: no peer acknowledged a position beyond `pos`.
-/
namespace RaftVerif

/-- the heartbeat context is a faithful encoding: 8 little-endian bytes decode to the position -/
theorem decLeUint64_leUint64_roundtrip (n : Nat) (h : n < 2^64) : decLeUint64 (leUint64 n) = some n :=
  decLeUint64_leUint64 n h

namespace ReadOnly

/-- `addRequest` appends the request (with the commit index it was issued at) at the tail, i.e. at
position `pos + 1`; nothing else changes; the invariant is kept -/
theorem addRequest_spec (ro : ReadOnly) (ci : Nat) (req : Message) :
    (ro.addRequest ci req).unconfirmed = ro.unconfirmed ++ [{ req := req, index := ci }] ∧
    (ro.addRequest ci req).pos = ro.pos + 1 ∧
    (ro.addRequest ci req).confirmedReads = ro.confirmedReads ∧
    (ro.addRequest ci req).acks = ro.acks ∧
    (ro.addRequest ci req).option = ro.option ∧
    (ro.Inv → (ro.addRequest ci req).Inv) := by
  refine ⟨rfl, ?_, rfl, rfl, rfl, ?_⟩
  · simp [addRequest, pos]; omega
  · intro h id v hv
    have := h id v hv
    simp only [addRequest, pos, List.length_append, List.length_cons, List.length_nil] at *
    omega

/-- the new request sits at list index `len(unconfirmed)`, i.e. position `pos + 1` -/
theorem addRequest_getElem (ro : ReadOnly) (ci : Nat) (req : Message) :
    (ro.addRequest ci req).unconfirmed[ro.unconfirmed.length]? = some { req := req, index := ci } ∧
    ro.confirmedReads + ro.unconfirmed.length + 1 = (ro.addRequest ci req).pos := by
  simp [addRequest, pos]; omega

/-- `heartbeatCtx`: nothing to confirm → no context; otherwise exactly the current position -/
theorem heartbeatCtx_spec (ro : ReadOnly) :
    (ro.unconfirmed = [] → ro.heartbeatCtx = none) ∧
    (ro.unconfirmed ≠ [] → ro.heartbeatCtx = some (leUint64 ro.pos)) ∧
    (ro.unconfirmed ≠ [] → ro.pos < 2^64 →
      ∃ b, ro.heartbeatCtx = some b ∧ b.length = 8 ∧ decLeUint64 b = some ro.pos) := by
  unfold heartbeatCtx pos
  refine ⟨?_, ?_, ?_⟩
  · intro h; simp [h]
  · intro h
    have : ro.unconfirmed.length ≠ 0 := by simpa using h
    simp [this]
  · intro h hlt
    have : ro.unconfirmed.length ≠ 0 := by simpa using h
    refine ⟨leUint64 (ro.confirmedReads + ro.unconfirmed.length), by simp [this], ?_,
      decLeUint64_leUint64 _ hlt⟩
    simp [leUint64]

/-- the position is monotone: `addRequest` advances it by one -/
theorem pos_addRequest_mono (ro : ReadOnly) (ci : Nat) (req : Message) :
    ro.pos < (ro.addRequest ci req).pos := by
  rw [(addRequest_spec ro ci req).2.1]; omega

/-- `recvAck` without a context (or with an empty one) is a no-op -/
theorem recvAck_noctx (ro : ReadOnly) (frm : Id) :
    ro.recvAck frm none = .ok ro ∧ ro.recvAck frm (some []) = .ok ro := ⟨rfl, rfl⟩

/-- `recvAck` panics exactly on a non-empty context shorter than 8 bytes -/
theorem recvAck_error_iff (ro : ReadOnly) (frm : Id) (ctx : Option Bytes) :
    (∃ e, ro.recvAck frm ctx = .error e) ↔ ∃ b, ctx = some b ∧ 0 < b.length ∧ b.length < 8 := by
  unfold recvAck
  cases ctx with
  | none => simp [pure, Except.pure]
  | some b =>
    cases b with
    | nil => simp [pure, Except.pure]
    | cons x t =>
      simp only [decLeUint64]
      by_cases h : (x :: t).length < 8
      · simp only [h, ↓reduceIte]
        constructor
        · intro _; exact ⟨x :: t, rfl, by simp, h⟩
        · intro _; exact ⟨_, rfl⟩
      · simp only [h, ↓reduceIte]
        constructor
        · rintro ⟨e, he⟩; cases he
        · rintro ⟨b, hb, _, hlt⟩; injection hb with hb; subst hb; exact absurd hlt h

/-- `recvAck frm v`: the peer's acknowledged position becomes the maximum of the old one and `v`
(monotone per peer), all other peers are untouched, the request queue is untouched, and the
invariant is kept as long as `v` is a position that was actually handed out -/
theorem recvAck_spec (ro ro' : ReadOnly) (frm : Id) (b : Bytes) (v : Nat) (hb : b ≠ [])
    (hdec : decLeUint64 b = some v) (h : ro.recvAck frm (some b) = .ok ro') :
    ro'.acked frm = max (ro.acked frm) v ∧
    ro.acked frm ≤ ro'.acked frm ∧
    (∀ id, id ≠ frm → mapGet ro'.acks id = mapGet ro.acks id) ∧
    ro'.unconfirmed = ro.unconfirmed ∧ ro'.confirmedReads = ro.confirmedReads ∧ ro'.pos = ro.pos ∧
    (ro.Inv → v ≤ ro.pos → ro'.Inv) := by
  cases b with
  | nil => exact absurd rfl hb
  | cons x t =>
    simp only [recvAck, hdec] at h
    injection h with h
    subst h
    refine ⟨?_, ?_, ?_, rfl, rfl, rfl, ?_⟩
    · simp [acked, mapGet_mapInsert_flow]
    · simp only [acked, mapGet_mapInsert_flow, ↓reduceIte, Option.getD_some]; omega
    · intro id hne
      simp only [mapGet_mapInsert_flow]
      rw [if_neg (fun h => hne h.symm)]
    · intro hinv hv id w hw
      simp only [mapGet_mapInsert_flow] at hw
      show w ≤ ro.pos
      split at hw
      · injection hw with hw
        have : (mapGet ro.acks frm).getD 0 ≤ ro.pos := by
          cases hg : mapGet ro.acks frm with
          | none => simp
          | some u => simpa using hinv frm u hg
        omega
      · exact hinv id w hw

open Quorum

/-- `maybeAdvance` never panics under the invariant and a non-empty voter set -/
theorem maybeAdvance_no_panic (ro : ReadOnly) (c0 c1 : List Id) (hinv : ro.Inv)
    (hne : c0 ≠ [] ∨ c1 ≠ []) : ∃ ro' rel, ro.maybeAdvance c0 c1 = .ok (ro', rel) := by
  obtain ⟨nc, hnc⟩ := jointCommitted_isSome c0 c1 (mapGet ro.acks) hne
  have hle := jointCommitted_le_pos ro c0 c1 nc hinv hnc hne
  rw [maybeAdvance_eq ro c0 c1 nc hnc]
  unfold pos at hle
  by_cases h1 : nc ≤ ro.confirmedReads
  · exact ⟨_, _, if_pos h1⟩
  · rw [if_neg h1, if_neg (by omega)]
    exact ⟨_, _, rfl⟩

/-- with an empty configuration the Go code indexes an empty slice: panic -/
theorem maybeAdvance_empty_config (ro : ReadOnly) : ∃ e, ro.maybeAdvance [] [] = .error e :=
  ⟨_, rfl⟩

/-- exact effect of `maybeAdvance`: with `nc` the joint quorum index over the acknowledged
positions, nothing happens unless `nc` advanced past `confirmedReads`; otherwise exactly the first
`nc - confirmedReads` requests are released, in FIFO order and each once (they are removed from
the queue), `confirmedReads` becomes `nc`, the position and the acks are untouched -/
theorem maybeAdvance_spec (ro ro' : ReadOnly) (rel : List ReadIndexRequest) (c0 c1 : List Id)
    (h : ro.maybeAdvance c0 c1 = .ok (ro', rel)) :
    ∃ nc, jointCommitted c0 c1 (mapGet ro.acks) = some nc ∧
      (nc ≤ ro.confirmedReads → ro' = ro ∧ rel = []) ∧
      (ro.confirmedReads < nc →
        ro.unconfirmed = rel ++ ro'.unconfirmed ∧
        ro.confirmedReads + rel.length = nc ∧
        ro'.confirmedReads = nc ∧ ro'.acks = ro.acks ∧ ro'.option = ro.option ∧
        ro'.pos = ro.pos ∧ (ro.Inv → ro'.Inv)) := by
  cases hj : jointCommitted c0 c1 (mapGet ro.acks) with
  | none => simp [maybeAdvance, hj] at h
  | some nc =>
    refine ⟨nc, rfl, ?_, ?_⟩
    · intro hle
      rw [maybeAdvance_eq ro c0 c1 nc hj, if_pos hle] at h
      injection h with h
      injection h with h1 h2
      exact ⟨h1.symm, h2.symm⟩
    · intro hlt
      rw [maybeAdvance_eq ro c0 c1 nc hj, if_neg (by omega)] at h
      by_cases hb : nc - ro.confirmedReads > ro.unconfirmed.length
      · rw [if_pos hb] at h; cases h
      · rw [if_neg hb] at h
        injection h with h
        injection h with h1 h2
        subst h1 h2
        have hlen : (ro.unconfirmed.take (nc - ro.confirmedReads)).length = nc - ro.confirmedReads := by
          rw [List.length_take]; omega
        refine ⟨(List.take_append_drop _ _).symm, by omega, rfl, rfl, rfl, ?_, ?_⟩
        · simp only [pos, List.length_drop]; omega
        · intro hinv id v hv
          have := hinv id v hv
          simp only [pos, List.length_drop] at *
          omega

/-- if the joint index did not advance, `maybeAdvance` does nothing -/
theorem maybeAdvance_noop (ro : ReadOnly) (c0 c1 : List Id) (nc : Nat)
    (hj : jointCommitted c0 c1 (mapGet ro.acks) = some nc) (hle : nc ≤ ro.confirmedReads) :
    ro.maybeAdvance c0 c1 = .ok (ro, []) := by
  rw [maybeAdvance_eq ro c0 c1 nc hj, if_pos hle]

/-- every released request — the one at queue index `k`, i.e. position `confirmedReads + k + 1` —
was acknowledged at a position at least its own by a strict majority of each non-empty voter set;
and it is the request that was `k`-th in the queue (FIFO) -/
theorem maybeAdvance_released_backed (ro ro' : ReadOnly) (rel : List ReadIndexRequest)
    (c0 c1 : List Id) (h : ro.maybeAdvance c0 c1 = .ok (ro', rel)) (k : Nat) (hk : k < rel.length) :
    rel[k]? = ro.unconfirmed[k]? ∧
    (c0 ≠ [] → c0.length < 2 * ackedAtLeast c0 (mapGet ro.acks) (ro.confirmedReads + k + 1)) ∧
    (c1 ≠ [] → c1.length < 2 * ackedAtLeast c1 (mapGet ro.acks) (ro.confirmedReads + k + 1)) := by
  obtain ⟨nc, hj, hnoop, hadv⟩ := maybeAdvance_spec ro ro' rel c0 c1 h
  by_cases hle : nc ≤ ro.confirmedReads
  · have := (hnoop hle).2; subst this; simp at hk
  · obtain ⟨hq, hlen, _⟩ := hadv (by omega)
    obtain ⟨b0, b1⟩ := joint_committed_backed c0 c1 _ nc hj
    have hp : ro.confirmedReads + k + 1 ≤ nc := by omega
    refine ⟨?_, ?_, ?_⟩
    · rw [hq, List.getElem?_append_left hk]
    · intro hc
      have := ackedAtLeast_anti c0 (mapGet ro.acks) _ _ hp
      have := b0 hc
      omega
    · intro hc
      have := ackedAtLeast_anti c1 (mapGet ro.acks) _ _ hp
      have := b1 hc
      omega

/-- conversely, a request that stays queued (position beyond the joint index) is *not* yet backed by
a strict majority of every non-empty voter set -/
theorem maybeAdvance_kept_unbacked (ro ro' : ReadOnly) (rel : List ReadIndexRequest)
    (c0 c1 : List Id) (h : ro.maybeAdvance c0 c1 = .ok (ro', rel)) (k : Nat)
    (hk : rel.length ≤ k) :
    (c0 ≠ [] ∧ 2 * ackedAtLeast c0 (mapGet ro.acks) (ro.confirmedReads + k + 1) ≤ c0.length) ∨
    (c1 ≠ [] ∧ 2 * ackedAtLeast c1 (mapGet ro.acks) (ro.confirmedReads + k + 1) ≤ c1.length) ∨
    -- (the joint index is behind `confirmedReads`: possible only after a configuration change)
    (∃ nc, jointCommitted c0 c1 (mapGet ro.acks) = some nc ∧ nc < ro.confirmedReads) := by
  obtain ⟨nc, hj, hnoop, hadv⟩ := maybeAdvance_spec ro ro' rel c0 c1 h
  by_cases hlt : nc < ro.confirmedReads
  · exact Or.inr (Or.inr ⟨nc, hj, hlt⟩)
  · have hgt : nc < ro.confirmedReads + k + 1 := by
      by_cases hle : nc ≤ ro.confirmedReads
      · omega
      · have := (hadv (by omega)).2.1; omega
    rcases joint_committed_maximal c0 c1 _ nc hj _ hgt with h0 | h1
    · exact Or.inl h0
    · exact Or.inr (Or.inl h1)

/-! ### non-vacuity: a leader of voters {1,2,3} with 3 confirmed reads and two queued ones
(positions 4 and 5); peers 1 and 2 acknowledged positions 5 and 4 -/

def exRO : ReadOnly :=
  { acks := [(1, 5), (2, 4)], confirmedReads := 3,
    unconfirmed := [{ req := { typ := .readIndex }, index := 10 }, { req := { typ := .readIndex }, index := 11 }] }

example : exRO.Inv := by
  intro id v h
  simp only [exRO, mapGet, Quorum.lookup] at h
  simp only [exRO, pos, List.length_cons, List.length_nil]
  split at h
  · injection h with h; omega
  · split at h
    · injection h with h; omega
    · cases h

example : jointCommitted [1, 2, 3] [] (mapGet exRO.acks) = some 4 := by decide
example : (exRO.maybeAdvance [1, 2, 3] []).toOption.map
      (fun p => (p.1.confirmedReads, p.1.unconfirmed.map (·.index), p.2.map (·.index)))
    = some (4, [11], [10]) := by decide
example : (exRO.heartbeatCtx.map List.length) = some 8 := by decide
example : ((exRO.addRequest 12 { typ := .readIndex }).unconfirmed.map (·.index)) = [10, 11, 12] := by decide
example : decLeUint64 (leUint64 5) = some 5 := decLeUint64_leUint64 5 (by decide)

end ReadOnly
end RaftVerif
