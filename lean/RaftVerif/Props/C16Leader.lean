import RaftVerif.Proofs.FlowLeader
import RaftVerif.Proofs.FlowAll
/-!
# C16 at the level of `stepLeader` (raft.go:1262-1560)

Whatever message a leader steps — acknowledgements, rejections, heartbeat responses, snapshot
status, unreachable reports, proposals, read requests, leadership transfer, quorum checks — the
flow-control limits are kept.  Property theorems only (one lemma per message type lives in
`Proofs/FlowLeader.lean`).
-/
namespace RaftVerif
namespace Raft

/-- unfolded form (1): size limit of every `MsgApp` a leader emits while stepping any message -/
theorem stepLeader_msgApp_size (fuel : Nat) (m : Message) (r r' : Raft) (res : Option StepErr)
    (h : (stepLeader fuel m).run r = .ok (res, r')) :
    r'.cfg = r.cfg ∧ ∃ new, r'.msgs = r.msgs ++ new ∧
      ∀ m' ∈ new, m'.typ = .app → entsSize m'.entries ≤ r.cfg.maxMsgSize ∨ m'.entries.length ≤ 1 :=
  (stepLeader_flow fuel m r r' res h).1

/-- unfolded form (2): while a leader steps any message, no follower ever gets more than `size`
(= `MaxInflightMsgs`) messages in flight, nor — when a byte budget is set — more than `maxBytes`
(= `MaxInflightBytes`) bytes beyond the one message that crossed the limit (the messages in flight
before the most recent one total less than `maxBytes`) -/
theorem stepLeader_windows (fuel : Nat) (m : Message) (r r' : Raft) (res : Option StepErr)
    (h : (stepLeader fuel m).run r = .ok (res, r'))
    (hw : ∀ id pr, r.trk.getProgress id = some pr →
      pr.inflights.count ≤ pr.inflights.size ∧
      (pr.inflights.maxBytes ≠ 0 → pr.inflights.q ≠ [] →
        ((pr.inflights.q.dropLast).map (·.2)).sum < pr.inflights.maxBytes)) :
    ∀ id pr, r'.trk.getProgress id = some pr →
      pr.inflights.count ≤ pr.inflights.size ∧
      (pr.inflights.maxBytes ≠ 0 → pr.inflights.q ≠ [] →
        ((pr.inflights.q.dropLast).map (·.2)).sum < pr.inflights.maxBytes) :=
  (stepLeader_flow fuel m r r' res h).2 hw

/-! ### the same for `raft.Step` as a whole: any role, any message, across term changes, campaigns,
leadership changes (`reset`), snapshot restores and configuration switches -/

/-- `Step` keeps the frame (packaged form) -/
theorem step_flow (fuel : Nat) (m : Message) (r r' : Raft) (res : Option StepErr)
    (h : (step fuel m).run r = .ok (res, r')) : Flow r r' :=
  step_flow_aux fuel m r r' res h

/-- every `MsgApp` emitted by one `Step` — by any node in any role — carries entries of encoded size
at most `MaxSizePerMsg`, unless it carries a single entry; `msgs` is only ever appended to -/
theorem step_msgApp_size (fuel : Nat) (m : Message) (r r' : Raft) (res : Option StepErr)
    (h : (step fuel m).run r = .ok (res, r')) :
    r'.cfg = r.cfg ∧ ∃ new, r'.msgs = r.msgs ++ new ∧
      ∀ m' ∈ new, m'.typ = .app → entsSize m'.entries ≤ r.cfg.maxMsgSize ∨ m'.entries.length ≤ 1 :=
  (step_flow fuel m r r' res h).1

/-- one `Step` preserves the window invariant of every tracked peer: at most `size` messages in
flight, and at most `maxBytes` bytes beyond the one message that crossed the limit — also when the
step changes term or role, resets all progress, restores a snapshot or switches configuration -/
theorem step_windows (fuel : Nat) (m : Message) (r r' : Raft) (res : Option StepErr)
    (h : (step fuel m).run r = .ok (res, r'))
    (hw : ∀ id pr, r.trk.getProgress id = some pr →
      pr.inflights.count ≤ pr.inflights.size ∧
      (pr.inflights.maxBytes ≠ 0 → pr.inflights.q ≠ [] →
        ((pr.inflights.q.dropLast).map (·.2)).sum < pr.inflights.maxBytes)) :
    ∀ id pr, r'.trk.getProgress id = some pr →
      pr.inflights.count ≤ pr.inflights.size ∧
      (pr.inflights.maxBytes ≠ 0 → pr.inflights.q ≠ [] →
        ((pr.inflights.q.dropLast).map (·.2)).sum < pr.inflights.maxBytes) :=
  (step_flow fuel m r r' res h).2 hw

/-- the other entry points of the `raft` struct used by `RawNode` keep the same frame: the logical
clock `tick` (elections, heartbeats, quorum checks) and `applyConfChange` (every progress created or
kept by the conf-change machinery has a well-formed window) -/
theorem tick_keeps_limits (r r' : Raft) (u : Unit) (h : tick.run r = .ok (u, r')) : Flow r r' :=
  tick_flow r r' u h

theorem applyConfChange_keeps_limits (cc : ConfChangeV2) (r r' : Raft) (cs : ConfState)
    (h : (applyConfChange cc).run r = .ok (cs, r')) : Flow r r' :=
  applyConfChange_flow cc r r' cs h

end Raft
end RaftVerif
