import RaftVerif.Proofs.FlowLeader
/-!
# C16 at the level of `stepLeader` (raft.go:1262-1560)

Whatever message a leader steps — acknowledgements, rejections, heartbeat responses, snapshot
status, unreachable reports, proposals, read requests, leadership transfer, quorum checks — the
flow-control limits are kept.  Property theorems only (one lemma per message type lives in
`Proofs/FlowLeader.lean`).
-/
namespace RaftVerif
namespace Raft

/-- **every** message stepped by a leader keeps the flow-control limits: the configuration is
untouched, `msgs` is only appended to, every appended `MsgApp` carries at most `MaxSizePerMsg` bytes
of entries (or a single entry), and all inflight windows keep `count ≤ size` -/
theorem stepLeader_flow (fuel : Nat) (m : Message) (r r' : Raft) (res : Option StepErr)
    (h : (stepLeader fuel m).run r = .ok (res, r')) : Flow r r' := by
  cases hm : m.typ with
  | beat => exact stepLeader_beat_flow fuel m hm r r' res h
  | checkQuorum => exact stepLeader_checkQuorum_flow fuel m hm r r' res h
  | prop => exact stepLeader_prop_flow fuel m hm r r' res h
  | readIndex => exact stepLeader_readIndex_flow fuel m hm r r' res h
  | forgetLeader => exact stepLeader_forgetLeader_flow fuel m hm r r' res h
  | appResp => exact stepLeader_appResp_flow fuel m hm r r' res h
  | heartbeatResp => exact stepLeader_heartbeatResp_flow fuel m hm r r' res h
  | snapStatus => exact stepLeader_snapStatus_flow fuel m hm r r' res h
  | unreachable => exact stepLeader_unreachable_flow fuel m hm r r' res h
  | transferLeader => exact stepLeader_transferLeader_flow fuel m hm r r' res h
  | hup => other_tac h hm
  | app => other_tac h hm
  | vote => other_tac h hm
  | voteResp => other_tac h hm
  | snap => other_tac h hm
  | heartbeat => other_tac h hm
  | timeoutNow => other_tac h hm
  | readIndexResp => other_tac h hm
  | preVote => other_tac h hm
  | preVoteResp => other_tac h hm
  | storageAppend => other_tac h hm
  | storageAppendResp => other_tac h hm
  | storageApply => other_tac h hm
  | storageApplyResp => other_tac h hm


/-- unfolded form (1): size limit of every `MsgApp` a leader emits while stepping any message -/
theorem stepLeader_msgApp_size (fuel : Nat) (m : Message) (r r' : Raft) (res : Option StepErr)
    (h : (stepLeader fuel m).run r = .ok (res, r')) :
    r'.cfg = r.cfg ∧ ∃ new, r'.msgs = r.msgs ++ new ∧
      ∀ m' ∈ new, m'.typ = .app → entsSize m'.entries ≤ r.cfg.maxMsgSize ∨ m'.entries.length ≤ 1 :=
  (stepLeader_flow fuel m r r' res h).1

/-- unfolded form (2): while a leader steps any message, no follower ever gets more than `size`
(= `MaxInflightMsgs`) messages in flight, nor — when a byte budget is set — more than `maxBytes`
(= `MaxInflightBytes`) bytes beyond the one message that crossed the limit (the messages in flight
before the most recent one total less than `maxBytes`) -/
theorem stepLeader_windows (fuel : Nat) (m : Message) (r r' : Raft) (res : Option StepErr)
    (h : (stepLeader fuel m).run r = .ok (res, r'))
    (hw : ∀ id pr, r.trk.getProgress id = some pr →
      pr.inflights.count ≤ pr.inflights.size ∧
      (pr.inflights.maxBytes ≠ 0 → pr.inflights.q ≠ [] →
        ((pr.inflights.q.dropLast).map (·.2)).sum < pr.inflights.maxBytes)) :
    ∀ id pr, r'.trk.getProgress id = some pr →
      pr.inflights.count ≤ pr.inflights.size ∧
      (pr.inflights.maxBytes ≠ 0 → pr.inflights.q ≠ [] →
        ((pr.inflights.q.dropLast).map (·.2)).sum < pr.inflights.maxBytes) :=
  (stepLeader_flow fuel m r r' res h).2 hw

end Raft
end RaftVerif
