import RaftVerif.Proofs.RawApply
/-!
# C08 at the level of `RawNode`: what `Ready` / `MsgStorageApply` hand to the application

Property theorems only (helpers in `Proofs/RawApply.lean`, log layer in `Props/C08.lean`).
All theorems are about an arbitrary `RawNode` whose log satisfies `RaftLog.WF`.
`au = !rn.async` is `allowUnstable`: sync mode may apply unstable entries, async mode may not.
-/
namespace RaftVerif.C08R
open RaftVerif RawNode Raw
open RaftVerif.C18 (ent exStorage exLog exLogSnap)

/-- **ready_committed_contiguous** (`readyWithoutAccept`, hence also `ready`; sync and async).
`rd.committedEntries` is what `nextCommittedEnts(!async)` returns, and if it is not empty it is exactly
the slice `(applying, applying + n]` of the log, `n` its length: the `k`-th entry has index
`applying + 1 + k` and *is* the log's entry at that index; the slice ends at or below
`hi = maxAppliableIndex(!async)`, which is `committed` in sync mode and
`min committed (unstable.offset - 1)` in async mode; so nothing beyond the commit index is handed out. -/
theorem ready_committed_contiguous (rn : RawNode) (rd : Ready) (hwf : rn.raft.log.WF)
    (h : rn.readyWithoutAccept = .ok rd) :
    rn.raft.log.nextCommittedEnts (!rn.async) = .ok rd.committedEntries ∧
    (rn.async = false → rn.raft.log.maxAppliableIndex (!rn.async) = rn.raft.log.committed) ∧
    (rn.async = true → rn.raft.log.maxAppliableIndex (!rn.async) =
      min rn.raft.log.committed (rn.raft.log.unstable.offset - 1) ∧ 0 < rn.raft.log.unstable.offset) ∧
    rn.raft.log.maxAppliableIndex (!rn.async) ≤ rn.raft.log.committed ∧
    (rd.committedEntries ≠ [] →
      rn.raft.log.applying + rd.committedEntries.length ≤ rn.raft.log.maxAppliableIndex (!rn.async) ∧
      rd.committedEntries = rn.raft.log.abs.slice (rn.raft.log.applying + 1)
        (rn.raft.log.applying + rd.committedEntries.length + 1) ∧
      rn.raft.log.abs.first ≤ rn.raft.log.applying + 1 ∧
      rn.raft.log.applying + rd.committedEntries.length ≤ rn.raft.log.abs.last) ∧
    (∀ k (hk : k < rd.committedEntries.length),
      rd.committedEntries[k].index = rn.raft.log.applying + 1 + k ∧
      rn.raft.log.abs.entry? (rn.raft.log.applying + 1 + k) = some rd.committedEntries[k]) ∧
    (∀ e ∈ rd.committedEntries, rn.raft.log.applying < e.index ∧ e.index ≤ rn.raft.log.committed ∧
      rn.raft.log.abs.entry? e.index = some e) := by
  have hc := RawNode.readyWithoutAccept_committed rn rd h
  obtain ⟨m1, m2, m3⟩ := C08.maxAppliableIndex_spec hwf
  obtain ⟨hk, hm⟩ := apply_batch_entries hwf (!rn.async) hc
  refine ⟨hc, ?_, ?_, RaftLog.maxAppliableIndex_le_committed _ _, ?_, hk, ?_⟩
  · intro ha; rw [ha]; exact m1
  · intro ha; rw [ha]; exact ⟨m2, m3⟩
  · intro hne
    obtain ⟨h1, _, h3, _, h5, h6⟩ := C08.nextCommittedEnts_batch hwf (!rn.async) hc hne
    exact ⟨h1, h3, h5, h6⟩
  · intro e he
    obtain ⟨a, _, _, d, f⟩ := hm e he
    exact ⟨a, d, f⟩

/-- **ready_committed_empty_iff**: a `Ready` carries no committed entries exactly when applying is paused,
or a snapshot is pending (`hasNextOrInProgressSnapshot`: not yet handed out, or being installed), or nothing
appliable lies beyond `applying`.  In particular nothing is handed out while a snapshot install is
outstanding, and nothing while paused. -/
theorem ready_committed_empty_iff (rn : RawNode) (rd : Ready) (hwf : rn.raft.log.WF)
    (h : rn.readyWithoutAccept = .ok rd) :
    (rd.committedEntries = [] ↔
      (rn.raft.log.applyingEntsPaused = true ∨ rn.raft.log.hasNextOrInProgressSnapshot = true ∨
        rn.raft.log.maxAppliableIndex (!rn.async) ≤ rn.raft.log.applying)) ∧
    (rn.raft.log.hasNextOrInProgressSnapshot = true → rd.committedEntries = []) ∧
    (rn.raft.log.applyingEntsPaused = true → rd.committedEntries = []) ∧
    (rn.raft.log.hasNextCommittedEnts (!rn.async) = true ↔ rd.committedEntries ≠ []) := by
  have hc := RawNode.readyWithoutAccept_committed rn rd h
  obtain ⟨e1, e2⟩ := C08.nextCommittedEnts_empty_iff hwf (!rn.async)
  have hiff : rd.committedEntries = [] ↔
      (rn.raft.log.applyingEntsPaused = true ∨ rn.raft.log.hasNextOrInProgressSnapshot = true ∨
        rn.raft.log.maxAppliableIndex (!rn.async) ≤ rn.raft.log.applying) := by
    rw [hc] at e1
    unfold RaftLog.hasNextOrInProgressSnapshot
    rw [← e1]
    constructor
    · intro h0; rw [h0]
    · intro h0; injection h0
  refine ⟨hiff, fun hs => hiff.mpr (Or.inr (Or.inl hs)), fun hp => hiff.mpr (Or.inl hp), ?_⟩
  rw [e2, hc]
  constructor
  · intro h0 h1; apply h0; rw [h1]
  · intro h0 h1; injection h1 with h1; exact h0 h1

/-- **ready_committed_size** (pagination): the batch fits the remaining budget
`maxApplyingEntsSize - applyingEntsSize` (which is positive whenever the batch is not empty) or is a single
entry — so an entry larger than the limit is still delivered, alone —, and it is a *maximal* such prefix of
`(applying, hi]`: if an appliable entry was left out, including the next one would exceed the budget. -/
theorem ready_committed_size (rn : RawNode) (rd : Ready) (hwf : rn.raft.log.WF)
    (h : rn.readyWithoutAccept = .ok rd) :
    (entsSize rd.committedEntries ≤ rn.raft.log.maxApplyingEntsSize - rn.raft.log.applyingEntsSize ∨
      rd.committedEntries.length = 1) ∧
    (rd.committedEntries ≠ [] → rn.raft.log.applyingEntsSize < rn.raft.log.maxApplyingEntsSize) ∧
    (rd.committedEntries ≠ [] →
      rn.raft.log.applying + rd.committedEntries.length < rn.raft.log.maxAppliableIndex (!rn.async) →
      rn.raft.log.maxApplyingEntsSize - rn.raft.log.applyingEntsSize <
        entsSize (rn.raft.log.abs.slice (rn.raft.log.applying + 1)
          (rn.raft.log.applying + rd.committedEntries.length + 2))) := by
  have hc := RawNode.readyWithoutAccept_committed rn rd h
  obtain ⟨s1, s2⟩ := C08.nextCommittedEnts_size hwf (!rn.async) hc
  refine ⟨s1, ?_, s2⟩
  intro hne
  exact hwf.budget (apply_batch_nonempty hwf _ hc hne).1

/-- **ready_async_apply_msg** (async storage writes; no assumption on the node).  `rd.messages` is the queue
`raft.msgs`, then at most one `MsgStorageAppend`, then — iff `rd.committedEntries ≠ []` — exactly one
`MsgStorageApply`, which is therefore the last message.  It is addressed to `localApplyThread`, carries
exactly `rd.committedEntries`, and carries exactly one response, `newStorageApplyRespMsg`: a
`MsgStorageApplyResp` from `localApplyThread` back to the node with the same entries.  Among the messages
this `Ready` adds to the queue there is no other `MsgStorageApply`. -/
theorem ready_async_apply_msg (rn : RawNode) (rd : Ready) (ha : rn.async = true)
    (h : rn.readyWithoutAccept = .ok rd) :
    ∃ pre : List Message,
      (pre = rn.raft.msgs ∨
        ∃ m, pre = rn.raft.msgs ++ [m] ∧ m.typ = .storageAppend ∧ m.to = localAppendThread) ∧
      (rd.committedEntries = [] → rd.messages = pre) ∧
      (rd.committedEntries ≠ [] → ∃ m resp, rd.messages = pre ++ [m] ∧ rd.messages.getLast? = some m ∧
        m.typ = .storageApply ∧ m.to = localApplyThread ∧ m.from = rn.raft.cfg.id ∧ m.term = 0 ∧
        m.entries = rd.committedEntries ∧ m.responses = [resp] ∧
        resp = newStorageApplyRespMsg rn.raft rd.committedEntries ∧
        resp.typ = .storageApplyResp ∧ resp.to = rn.raft.cfg.id ∧ resp.from = localApplyThread ∧
        resp.entries = rd.committedEntries) ∧
      (∀ m ∈ rd.messages.drop rn.raft.msgs.length, m.typ = .storageApply →
        rd.committedEntries ≠ [] ∧ rd.messages.getLast? = some m ∧ m.entries = rd.committedEntries) ∧
      ((∃ m ∈ rd.messages.drop rn.raft.msgs.length, m.typ = .storageApply) ↔ rd.committedEntries ≠ []) := by
  obtain ⟨pre, hp, hm⟩ := apply_rwa_async rn rd ha h
  obtain ⟨n1, n2⟩ := apply_newmsgs rn pre rd.committedEntries hp
  rw [← hm] at n1 n2
  refine ⟨pre, hp, ?_, ?_, ?_, ?_⟩
  · intro h0
    rw [hm, h0]
    simp [ApplyTail]
  · intro hne
    refine ⟨ApplyMsgOf rn.raft rd.committedEntries, newStorageApplyRespMsg rn.raft rd.committedEntries, ?_,
      (n2 hne).2, rfl, rfl, rfl, rfl, rfl, rfl, rfl, rfl, rfl, rfl, rfl⟩
    rw [hm]
    simp only [ApplyTail, hne, ↓reduceIte]
  · intro m hmem ht
    obtain ⟨hne, rfl⟩ := n1 m hmem ht
    exact ⟨hne, (n2 hne).2, rfl⟩
  · constructor
    · rintro ⟨m, hmem, ht⟩
      exact (n1 m hmem ht).1
    · intro hne
      exact ⟨_, (n2 hne).1, rfl⟩

/-- **ready_accept_applying** (`RawNode.ready` = `readyWithoutAccept` + `acceptReady`).  After a successful
`ready`, the log's `applying` cursor is the index of the last entry handed out (unchanged if none), i.e.
`applying + length`; the invariant is kept; the storage mode, `committed`, `applied`, the storage and the
abstract log are untouched.  All batch theorems above apply to `rd` (they are stated for
`readyWithoutAccept`, which `ready` runs first). -/
theorem ready_accept_applying (rn rn' : RawNode) (rd : Ready) (hwf : rn.raft.log.WF)
    (h : rn.ready = .ok (rd, rn')) :
    rn.readyWithoutAccept = .ok rd ∧ rn.acceptReady rd = .ok rn' ∧
    rn'.raft.log.WF ∧ rn'.async = rn.async ∧
    rn'.raft.log.applying = rn.raft.log.applying + rd.committedEntries.length ∧
    (rd.committedEntries = [] → rn'.raft.log.applying = rn.raft.log.applying) ∧
    (∀ last, rd.committedEntries.getLast? = some last → rn'.raft.log.applying = last.index) ∧
    (∀ e ∈ rd.committedEntries, rn.raft.log.applying < e.index ∧ e.index ≤ rn'.raft.log.applying) ∧
    rn'.raft.log.applying ≤ rn'.raft.log.committed ∧
    rn'.raft.log.committed = rn.raft.log.committed ∧ rn'.raft.log.applied = rn.raft.log.applied ∧
    rn'.raft.log.storage = rn.raft.log.storage ∧ rn'.raft.log.abs = rn.raft.log.abs := by
  obtain ⟨h1, h2⟩ := apply_ready_split rn rn' rd h
  obtain ⟨hc, _, w, a, c, ap, st, ab, _⟩ := C08.rawnode_ready rn rn' rd hwf h
  refine ⟨h1, h2, w, apply_acceptReady_async rn rn' rd h2, a, ?_, ?_, ?_, w.applyingLeCommitted, c, ap, st, ab⟩
  · intro h0; rw [a, h0]; rfl
  · intro last hl
    have hne : rd.committedEntries ≠ [] := by intro h0; rw [h0] at hl; cases hl
    obtain ⟨l2, hl2, hi⟩ := (apply_batch_ends hwf _ hc hne).2
    rw [hl] at hl2
    injection hl2 with hl2
    subst hl2
    rw [a, hi]
  · intro e he
    obtain ⟨x, y, _⟩ := (apply_batch_entries hwf _ hc).2 e he
    exact ⟨x, by rw [a]; exact y⟩

/-- **consecutive_readys_adjacent**.  Two successful `ready` calls `rn → rn'` and `rn1 → rn''`, where `rn1`
is reached from `rn'` by arbitrary operations that leave the `applying` cursor where it was and keep the
log invariant (`Step`, `Tick`, `Advance` / `MsgStorageApplyResp` up to an index already handed out, …),
hand out adjacent, non-overlapping ranges: the second batch (if not empty) starts at
`last index of the first batch + 1` (`applying + 1` if the first was empty), every index of the first batch
is below every index of the second, their concatenation is contiguous from `applying + 1`, and the cursor
ends right after it. -/
theorem consecutive_readys_adjacent (rn rn' rn1 rn'' : RawNode) (rd1 rd2 : Ready) (hwf : rn.raft.log.WF)
    (h1 : rn.ready = .ok (rd1, rn'))
    (hbetween : rn1.raft.log.applying = rn'.raft.log.applying ∧ rn1.raft.log.WF)
    (h2 : rn1.ready = .ok (rd2, rn'')) :
    (rd2.committedEntries ≠ [] → ∃ e rest, rd2.committedEntries = e :: rest ∧
      e.index = rn.raft.log.applying + rd1.committedEntries.length + 1 ∧
      (∀ last, rd1.committedEntries.getLast? = some last → e.index = last.index + 1)) ∧
    (∀ a ∈ rd1.committedEntries, ∀ b ∈ rd2.committedEntries, a.index < b.index) ∧
    Contig (rn.raft.log.applying + 1) (rd1.committedEntries ++ rd2.committedEntries) ∧
    rn''.raft.log.applying =
      rn.raft.log.applying + (rd1.committedEntries ++ rd2.committedEntries).length ∧
    rn''.raft.log.WF := by
  obtain ⟨hb1, hb2⟩ := hbetween
  obtain ⟨r1, _, _, _, a1, _, l1, m1, _⟩ := ready_accept_applying rn rn' rd1 hwf h1
  obtain ⟨r2, _, w2, _, a2, _, _, m2, _⟩ := ready_accept_applying rn1 rn'' rd2 hb2 h2
  have c1 := RawNode.readyWithoutAccept_committed rn rd1 r1
  have c2 := RawNode.readyWithoutAccept_committed rn1 rd2 r2
  refine ⟨?_, ?_, ?_, ?_, w2⟩
  · intro hne
    obtain ⟨e, rest, he, hi⟩ := apply_first_index hb2 h2 hne
    refine ⟨e, rest, he, by rw [hi, hb1, a1], ?_⟩
    intro last hl
    rw [hi, hb1, l1 last hl]
  · intro a ha b hb
    have := (m1 a ha).2
    have := (m2 b hb).1
    omega
  · rw [contig_append]
    obtain ⟨k1, _⟩ := apply_batch_entries hwf _ c1
    obtain ⟨k2, _⟩ := apply_batch_entries hb2 _ c2
    constructor
    · intro k hk; have := (k1 k hk).1; omega
    · intro k hk; have := (k2 k hk).1; rw [hb1, a1] at this; omega
  · rw [a2, hb1, a1, List.length_append]; omega

/-- **ready_twice_second_empty** (finding: the "nothing in between" case of adjacency is degenerate).
Two `ready` calls with *nothing* in between never both hand out entries: right after `acceptReady` the stream
is blocked — either the first batch stopped short of `hi` and applying is paused until a
`MsgStorageApplyResp` / `Advance` arrives, or it reached `hi` and nothing is left, or a snapshot is pending.
So the second `Ready` has no committed entries, whatever the first contained, and the cursor stays put.
(A statement "both non-empty ⇒ adjacent" would be vacuous; the meaningful adjacency theorem is
`consecutive_readys_adjacent`, where an acknowledgement, a commit or an append happens in between.) -/
theorem ready_twice_second_empty (rn rn' rn'' : RawNode) (rd1 rd2 : Ready) (hwf : rn.raft.log.WF)
    (h1 : rn.ready = .ok (rd1, rn')) (h2 : rn'.ready = .ok (rd2, rn'')) :
    rd2.committedEntries = [] ∧ rn''.raft.log.applying = rn'.raft.log.applying ∧
    (rn'.raft.log.applyingEntsPaused = true ∨ rn'.raft.log.hasNextOrInProgressSnapshot = true ∨
      rn'.raft.log.maxAppliableIndex (!rn'.async) ≤ rn'.raft.log.applying) := by
  obtain ⟨_, _, w', hasync, _⟩ := ready_accept_applying rn rn' rd1 hwf h1
  have hb := apply_ready_then_blocked rn rn' rd1 hwf h1
  rw [← hasync] at hb
  obtain ⟨r2, _, _, _, _, hz, _⟩ := ready_accept_applying rn' rn'' rd2 w' h2
  have he := ((ready_committed_empty_iff rn' rd2 w' r2).1).mpr hb
  exact ⟨he, hz he, hb⟩

/-- **restart_first_range**.  `RawNode.new` (i.e. `newRaft`) on a well-formed storage with
`Config.Applied = c.applied`, *if it succeeds*, yields a node whose log satisfies the invariant and whose
apply cursors (`applied` and `applying`) both sit at `ApplyRestartCursor c storage`, which is
* `c.applied` if `c.applied ≠ 0` — and success then forces `storage.offset ≤ c.applied ≤ committed`
  (`storage.offset = firstIndex - 1` is the compaction point; outside that range `appliedTo` panics, see the
  examples below), where `committed` is the persisted `HardState.Commit`;
* the compaction point `storage.offset` if `c.applied = 0` (Go skips `appliedTo` then) — *not* `0`: on a
  compacted storage the stream starts at `firstIndex`, whatever the application had applied before.
The first `Ready` succeeds and is non-empty iff the cursor is below `committed`; and the first non-empty
batch handed out — by the very first `Ready` or by a later one, as long as nothing moved `applying` —
starts exactly at index `cursor + 1`. -/
theorem restart_first_range (c : Config) (storage : MemoryStorage) (draws : List Nat) (rn : RawNode)
    (hs : storage.WF) (h : RawNode.new c storage draws = .ok rn) :
    rn.raft.log.WF ∧ rn.async = c.asyncStorageWrites ∧
    (c.applied ≠ 0 → ApplyRestartCursor c storage = c.applied ∧
      storage.offset ≤ c.applied ∧ c.applied ≤ rn.raft.log.committed) ∧
    (c.applied = 0 → ApplyRestartCursor c storage = storage.offset ∧ storage.offset + 1 = storage.firstIndex) ∧
    rn.raft.log.applied = ApplyRestartCursor c storage ∧
    rn.raft.log.applying = ApplyRestartCursor c storage ∧
    rn.raft.log.committed = (match storage.hardState with
      | some hd => if hd.isEmpty = true then storage.offset else hd.commit
      | none => storage.offset) ∧
    (∃ rd rn', rn.ready = .ok (rd, rn') ∧
      (rd.committedEntries ≠ [] ↔ ApplyRestartCursor c storage < rn.raft.log.committed)) ∧
    (∀ (rn1 rn2 : RawNode) (rd : Ready), rn1.raft.log.WF → rn1.raft.log.applying = rn.raft.log.applying →
      rn1.ready = .ok (rd, rn2) → rd.committedEntries ≠ [] →
      ∃ e rest, rd.committedEntries = e :: rest ∧ e.index = ApplyRestartCursor c storage + 1) := by
  obtain ⟨hn, ha, _⟩ := apply_new c storage draws rn h
  obtain ⟨w, _, _, _, _, _, cm, _, a0, a1⟩ := apply_newRaft_log c storage draws rn.raft hs hn
  have hcur : rn.raft.log.applied = ApplyRestartCursor c storage ∧
      rn.raft.log.applying = ApplyRestartCursor c storage := by
    unfold ApplyRestartCursor
    split
    · rename_i h0; exact a0 h0
    · rename_i h0; exact ⟨(a1 h0).2.2.1, (a1 h0).2.2.2⟩
  refine ⟨w, ha, ?_, ?_, hcur.1, hcur.2, cm, apply_new_first_ready c storage draws rn hs h, ?_⟩
  · intro h0
    exact ⟨by simp [ApplyRestartCursor, h0], (a1 h0).1, (a1 h0).2.1⟩
  · intro h0
    exact ⟨by simp [ApplyRestartCursor, h0], rfl⟩
  · intro rn1 rn2 rd w1 hap hr hne
    obtain ⟨e, rest, he, hi⟩ := apply_first_index w1 hr hne
    exact ⟨e, rest, he, by rw [hi, hap, hcur.2]⟩

/-- **async_apply_only_stable** (async storage writes).  Every entry in `rd.committedEntries` — and hence
every entry of the `MsgStorageApply` this `Ready` emits — has an index below `unstable.offset` and *is* the
entry the local stable storage holds at that index: only locally durable entries are delivered.  In
particular no entry is delivered for application in the same `Ready` that hands it out for appending. -/
theorem async_apply_only_stable (rn : RawNode) (rd : Ready) (hwf : rn.raft.log.WF) (ha : rn.async = true)
    (h : rn.readyWithoutAccept = .ok rd) :
    (∀ e ∈ rd.committedEntries, e.index < rn.raft.log.unstable.offset ∧
      rn.raft.log.storage.abs.entry? e.index = some e ∧ e ∉ rd.entries) ∧
    (∀ m ∈ rd.messages.drop rn.raft.msgs.length, m.typ = .storageApply →
      ∀ e ∈ m.entries, e.index < rn.raft.log.unstable.offset ∧
        rn.raft.log.storage.abs.entry? e.index = some e) := by
  have hc := RawNode.readyWithoutAccept_committed rn rd h
  rw [ha] at hc
  have hst : ∀ e ∈ rd.committedEntries, e.index < rn.raft.log.unstable.offset ∧
      rn.raft.log.storage.abs.entry? e.index = some e :=
    fun e he => C08.nextCommittedEnts_stable_only hwf hc e he
  constructor
  · intro e he
    obtain ⟨a, b⟩ := hst e he
    refine ⟨a, b, ?_⟩
    rw [RawNode.readyWithoutAccept_entries rn rd h]
    intro hin
    have hnx : rn.raft.log.nextUnstableEnts =
        rn.raft.log.unstable.entries.filter (fun x => decide (rn.raft.log.unstable.offsetInProgress ≤ x.index)) :=
      Unstable.nextEntries_eq hwf.unstable
    rw [hnx, List.mem_filter] at hin
    have := (hwf.unstable.contig.mem hin.1).1
    omega
  · intro m hm ht e he
    obtain ⟨_, _, _, _, hall, _⟩ := ready_async_apply_msg rn rd ha h
    obtain ⟨_, _, hent⟩ := hall m hm ht
    rw [hent] at he
    exact hst e he

/-- **apply_entry_location** (both modes; the exact form of "delivered entries are durable or about to
be").  Every committed entry a `Ready` hands out is
1. in stable storage (`index < unstable.offset`, and the storage holds exactly it), or
2. unstable but *in progress* (`offset ≤ index < offsetInProgress`): handed to storage by an **earlier**
   `Ready`, not acknowledged to raft yet, and **not** part of this `Ready`'s `Entries`, or
3. unstable and handed out for appending by this very `Ready` (`e ∈ rd.entries`).
Async mode only has case 1 (`async_apply_only_stable`). -/
theorem apply_entry_location (rn : RawNode) (rd : Ready) (hwf : rn.raft.log.WF)
    (h : rn.readyWithoutAccept = .ok rd) :
    ∀ e ∈ rd.committedEntries,
      (e.index < rn.raft.log.unstable.offset ∧ rn.raft.log.storage.abs.entry? e.index = some e) ∨
      (rn.raft.log.unstable.offset ≤ e.index ∧ e.index < rn.raft.log.unstable.offsetInProgress ∧
        e ∈ rn.raft.log.unstable.entries ∧ e ∉ rd.entries) ∨
      (rn.raft.log.unstable.offsetInProgress ≤ e.index ∧ e ∈ rd.entries) := by
  intro e he
  have hc := RawNode.readyWithoutAccept_committed rn rd h
  rw [RawNode.readyWithoutAccept_entries rn rd h]
  exact apply_batch_where hwf _ hc e he

/-- **sync_apply_stable_or_in_ready**: when nothing is in progress (`offsetInProgress ≤ offset`; in sync mode
this holds between an `Advance` that acknowledged everything handed out and the next `Ready`), every
delivered entry is stable or contained in the same `Ready`'s `Entries` — so an application that persists
`rd.entries` before applying `rd.committedEntries` only applies durable entries. -/
theorem sync_apply_stable_or_in_ready (rn : RawNode) (rd : Ready) (hwf : rn.raft.log.WF)
    (hnip : rn.raft.log.unstable.offsetInProgress ≤ rn.raft.log.unstable.offset)
    (h : rn.readyWithoutAccept = .ok rd) :
    ∀ e ∈ rd.committedEntries,
      (e.index < rn.raft.log.unstable.offset ∧ rn.raft.log.storage.abs.entry? e.index = some e) ∨
      e ∈ rd.entries := by
  intro e he
  rcases apply_entry_location rn rd hwf h e he with h1 | ⟨h2, h3, _⟩ | ⟨_, h4⟩
  · exact Or.inl h1
  · omega
  · exact Or.inr h4

/-! ## the naive form of "sync mode delivers stable entries or entries of the same `Ready`" is false -/

/-- a sync-mode node over `exLog` (`Props/C18.lean`): storage holds 4,5,6; unstable 6,7,8 from offset 6, entry
6 in progress (`offsetInProgress = 7`); `applying = 4`, `committed = 7` -/
def exSync : RawNode := { raft := { cfg := { id := 1 }, log := exLog } }
/-- the same node with asynchronous storage writes -/
def exAsync : RawNode := { exSync with async := true }

/-- **counterexample**: in sync mode a delivered entry need *not* be stable or contained in the same
`Ready`'s `Entries`.  On `exSync` the `Ready` delivers 5, 6, 7 and hands out 7, 8 for appending: entry 6 is
unstable (`6 ≥ offset = 6`) and not in `rd.entries` — it is *in progress* (case 2 of
`apply_entry_location`).  Such a state is reachable in sync mode (checked with `#eval` on the model, not
proved): `Ready` hands out 5,6,7; before `Advance` a `MsgApp` of a higher term overwrites 6 (so
`offsetInProgress := 6`); `Advance` then steps a stale `MsgStorageAppendResp` that is ignored; the commit
index reaches 5; the next `Ready` delivers 5 (unstable, in progress) with `Entries = [6]`. -/
theorem sync_naive_form_false :
    ¬ ∀ (rn : RawNode) (rd : Ready), rn.raft.log.WF → rn.async = false → rn.readyWithoutAccept = .ok rd →
      ∀ e ∈ rd.committedEntries, e.index < rn.raft.log.unstable.offset ∨ e ∈ rd.entries := by
  intro H
  obtain ⟨rd, hrd⟩ := C14.readyWithoutAccept_no_panic exSync (by decide)
  have hc : exLog.nextCommittedEnts true = .ok rd.committedEntries :=
    RawNode.readyWithoutAccept_committed exSync rd hrd
  have he : rd.entries = exLog.nextUnstableEnts := RawNode.readyWithoutAccept_entries exSync rd hrd
  have hb : (exLog.nextCommittedEnts true).toOption = some [ent 2 5, ent 2 6, ent 3 7] := by decide +kernel
  rw [hc] at hb
  have hce : rd.committedEntries = [ent 2 5, ent 2 6, ent 3 7] := by
    simpa [Except.toOption] using hb
  have hmem : ent 2 6 ∈ rd.committedEntries := by rw [hce]; decide
  rcases H exSync rd (by decide) rfl hrd (ent 2 6) hmem with h1 | h2
  · revert h1; decide
  · rw [he] at h2; revert h2; decide +kernel

/-! ## non-vacuity on concrete nodes -/

/-- the same log with a pending unstable snapshot at index 9 (async) -/
def exSnapNode : RawNode := { raft := { cfg := { id := 1 }, log := exLogSnap }, async := true }
/-- a 5-byte apply budget: one 4-byte entry per `Ready` -/
def exPage : RawNode := { raft := { cfg := { id := 1 }, log := { exLog with maxApplyingEntsSize := 5 } } }
/-- nothing in progress (`offsetInProgress = offset = 6`) -/
def exNoProg : RawNode :=
  { raft := { cfg := { id := 1 }, log := { exLog with unstable := { exLog.unstable with offsetInProgress := 6 } } } }

example : exSync.raft.log.WF ∧ exAsync.raft.log.WF ∧ exSnapNode.raft.log.WF ∧ exPage.raft.log.WF ∧
    exNoProg.raft.log.WF := by decide

/-- `ready_committed_contiguous`, sync: `(applying, hi] = (4, 7]`, all of it: 5, 6 (stable / in progress), 7
(unstable); `Entries` = 7, 8 -/
example : (exSync.readyWithoutAccept.toOption.map fun rd => (rd.committedEntries, rd.entries)) =
    some ([ent 2 5, ent 2 6, ent 3 7], [ent 3 7, ent 3 8]) := by decide +kernel

/-- `ready_committed_contiguous` / `async_apply_only_stable`, async: `hi = min 7 (6 - 1) = 5`: only 5 -/
example : (exAsync.readyWithoutAccept.toOption.map fun rd => (rd.committedEntries, rd.entries)) =
    some ([ent 2 5], [ent 3 7, ent 3 8]) ∧ exAsync.raft.log.unstable.offset = 6 ∧
    exAsync.raft.log.maxAppliableIndex (!exAsync.async) = 5 := by decide +kernel

/-- `ready_async_apply_msg`: the `MsgStorageAppend` for 7, 8 and then, last, the `MsgStorageApply` for 5 … -/
example : (exAsync.readyWithoutAccept.toOption.map fun rd =>
    (rd.committedEntries, rd.messages.map fun m => (m.typ, m.to, m.entries))) =
    some ([ent 2 5], [(.storageAppend, localAppendThread, [ent 3 7, ent 3 8]),
      (.storageApply, localApplyThread, [ent 2 5])]) := by decide +kernel

/-- … whose only response is the `MsgStorageApplyResp` for 5 from the apply thread to node 1 -/
example : (exAsync.readyWithoutAccept.toOption.map fun rd =>
    rd.messages.flatMap fun m => m.responses.map fun x => (x.typ, x.to, x.from, x.entries)) =
    some [(.storageAppendResp, 1, localAppendThread, []),
      (.storageApplyResp, 1, localApplyThread, [ent 2 5])] := by decide +kernel

/-- `ready_committed_empty_iff`: a pending snapshot blocks the stream — no committed entries and no
`MsgStorageApply`, although `committed = 9 > applying = 4`; on `exSync` the stream is not blocked -/
example : exSnapNode.raft.log.hasNextOrInProgressSnapshot = true ∧
    (exSnapNode.readyWithoutAccept.toOption.map fun rd => (rd.committedEntries, rd.messages.map (·.typ))) =
      some ([], [.storageAppend]) ∧
    exSync.raft.log.hasNextCommittedEnts (!exSync.async) = true := by decide +kernel

/-- `ready_committed_empty_iff`: paused — nothing handed out -/
example : (({ exSync with raft := { exSync.raft with log := { exLog with applyingEntsPaused := true } } } : RawNode)
    |>.readyWithoutAccept.toOption.map fun rd => rd.committedEntries) = some [] := by decide +kernel

/-- `ready_committed_size`: with a 5-byte budget only entry 5 (4 bytes) is delivered although 6 and 7 are
appliable: `5 < entsSize [5, 6] = 8` -/
example : (exPage.readyWithoutAccept.toOption.map fun rd => (rd.committedEntries, entsSize rd.committedEntries)) =
    some ([ent 2 5], 4) ∧ exPage.raft.log.maxAppliableIndex (!exPage.async) = 7 := by decide +kernel

/-- `ready_committed_size`: an entry larger than the budget (2 bytes) is still delivered, alone -/
example : (({ exSync with raft := { exSync.raft with log := { exLog with maxApplyingEntsSize := 2 } } } : RawNode)
    |>.readyWithoutAccept.toOption.map fun rd => rd.committedEntries) = some [ent 2 5] := by decide +kernel

/-- `ready_accept_applying`: after `ready` the cursor is the last delivered index: 7 (sync), 5 (async);
`committed`, `applied` untouched -/
example : (exSync.ready.toOption.map fun p =>
      (p.1.committedEntries.map (·.index), p.2.raft.log.applying, p.2.raft.log.committed, p.2.raft.log.applied)) =
      some ([5, 6, 7], 7, 7, 3) ∧
    (exAsync.ready.toOption.map fun p =>
      (p.1.committedEntries.map (·.index), p.2.raft.log.applying, p.2.raft.log.committed, p.2.raft.log.applied)) =
      some ([5], 5, 7, 3) := by decide +kernel

/-- two `Ready`s of the paginating node `exPage` with the acknowledgement of entry 5 (`appliedTo 5 4`, as
`Advance` does) in between -/
def exTwo : Except String (Ready × Ready × RawNode × RawNode × RawNode) := do
  let (rd1, rn') ← exPage.ready
  let l ← rn'.raft.log.appliedTo 5 4
  let rn1 : RawNode := { rn' with raft := { rn'.raft with log := l }, stepsOnAdvance := [] }
  let (rd2, rn'') ← rn1.ready
  pure (rd1, rd2, rn', rn1, rn'')

/-- `consecutive_readys_adjacent`: first batch 5 (then paused), acknowledgement keeps `applying = 5` and the
invariant, second batch 6 = 5 + 1, cursor 6 -/
example : (exTwo.toOption.map fun p =>
      (p.1.committedEntries.map (·.index), p.2.1.committedEntries.map (·.index),
       p.2.2.1.raft.log.applying, p.2.2.1.raft.log.applyingEntsPaused)) = some ([5], [6], 5, true) ∧
    (exTwo.toOption.map fun p =>
      (p.2.2.2.1.raft.log.applying, decide p.2.2.2.1.raft.log.WF, p.2.2.2.2.raft.log.applying)) =
      some (5, true, 6) := by decide +kernel

/-- `ready_twice_second_empty`: async, two `Ready`s in a row: 5, then nothing (6 is not stable yet) -/
example : ((exAsync.ready >>= fun p => p.2.ready >>= fun q => pure (p.1, q.1)).toOption.map fun p =>
    (p.1.committedEntries.map (·.index), p.2.committedEntries.map (·.index))) = some ([5], []) := by
  decide +kernel

/-- `apply_entry_location` on `exSync`: 5 is stable, 6 in progress (not in `Entries`), 7 in `Entries` -/
example : (exSync.readyWithoutAccept.toOption.map fun rd =>
      (rd.committedEntries.map fun e => (e.index, decide (e.index < 6), decide (e.index < 7), decide (e ∈ rd.entries)))) =
    some [(5, true, true, false), (6, false, true, false), (7, false, false, true)] ∧
    exSync.raft.log.unstable.offset = 6 ∧ exSync.raft.log.unstable.offsetInProgress = 7 := by decide +kernel

/-- `sync_apply_stable_or_in_ready`: nothing in progress: 5 is stable, 6 and 7 are in `Entries` = 6, 7, 8 -/
example : exNoProg.raft.log.unstable.offsetInProgress ≤ exNoProg.raft.log.unstable.offset ∧
    (exNoProg.readyWithoutAccept.toOption.map fun rd =>
      (rd.committedEntries.map (·.index), rd.entries.map (·.index))) = some ([5, 6, 7], [6, 7, 8]) := by
  decide +kernel

/-- a configuration with `Applied = a` -/
def exCfg (a : Nat) : Config :=
  { id := 1, electionTick := 10, heartbeatTick := 1, maxInflightMsgs := 256, applied := a,
    maxCommittedSizePerReady := 1000 }
/-- `exStorage` (compacted up to 3, entries 4, 5, 6) with a persisted `HardState.Commit = 6` -/
def exDisk : MemoryStorage := { exStorage with hardState := some { term := 2, vote := 0, commit := 6 } }

example : exDisk.WF ∧ exDisk.offset = 3 := by decide

/-- `restart_first_range`, `Applied = 5`: cursors at 5, `committed = 6`, the first `Ready` delivers 6 = 5 + 1 -/
example : ((RawNode.new (exCfg 5) exDisk [0]).toOption.map fun rn =>
      (rn.raft.log.applying, rn.raft.log.applied, rn.raft.log.committed)) = some (5, 5, 6) ∧
    ((RawNode.new (exCfg 5) exDisk [0] >>= fun rn => rn.ready).toOption.map fun p =>
      p.1.committedEntries.map (·.index)) = some [6] := by decide +kernel

/-- `Applied = 0` on a compacted storage: the cursors start at the compaction point 3 (not 0) and the first
`Ready` delivers 4, 5, 6 — entries the application may already have applied before the restart -/
example : ((RawNode.new (exCfg 0) exDisk [0]).toOption.map fun rn =>
      (rn.raft.log.applying, rn.raft.log.applied, rn.raft.log.committed)) = some (3, 3, 6) ∧
    ((RawNode.new (exCfg 0) exDisk [0] >>= fun rn => rn.ready).toOption.map fun p =>
      p.1.committedEntries.map (·.index)) = some [4, 5, 6] := by decide +kernel

/-- `Applied = 6 = committed`: nothing to deliver -/
example : ((RawNode.new (exCfg 6) exDisk [0] >>= fun rn => rn.ready).toOption.map fun p =>
      p.1.committedEntries.map (·.index)) = some [] := by decide +kernel

/-- `0 < Applied < storage.offset` (2 < 3) and `Applied > committed` (7 > 6): `newRaft` panics in `appliedTo` -/
example : (match RawNode.new (exCfg 2) exDisk [0] with | .ok _ => "ok" | .error e => e) =
      "appliedTo: applied out of range" ∧
    (match RawNode.new (exCfg 7) exDisk [0] with | .ok _ => "ok" | .error e => e) =
      "appliedTo: applied out of range" := by decide +kernel

end RaftVerif.C08R
