import RaftVerif.Props.ReconfNecessity
/-!
# Necessity (a): `leaderAppendCfg` must wait until the previous configuration entry is applied

The same executable model with ONLY the conjunct `pendingConf ≤ applied` of the `leaderAppendCfg`
guard dropped (`enabledNoPend`).  Two single-voter changes in flight, both computed from the same
applied configuration `{1,2,3,4}`: `add 5` (index 2) and `remove 1` (index 3).  Each is an allowed
transition from `{1,2,3,4}`, but the log now reads `{1,2,3,4} → {1,2,3,4,5} → {2,3,4}`.  A node
that has applied index 2 decides with `{1,2,3,4,5}`, one that has applied index 3 with `{2,3,4}`:
`{1,4,5}` and `{2,3}` are disjoint quorums.  The leader of term 1 commits `x4` at index 4 with
`{2,3}`; node 1 wins term 2 with `{1,4,5}` and commits `y4` at index 4.
-/
namespace RaftVerif.SpecR

def enabledNoPend (c0 : Conf) (s : State) : Action → Prop
  | .leaderAppendCfg n _ c => (s.nodes n).role = .leader ∧ ((s.nodes n).active c0).allowed c = true
  | a => enabled c0 s a

instance (c0 : Conf) (s : State) (a : Action) : Decidable (enabledNoPend c0 s a) := by
  cases a <;> simp only [enabledNoPend] <;> infer_instance

/-- the weakened guard differs from the real one in the dropped conjunct only -/
theorem enabledNoPend_iff (c0 : Conf) (s : State) (a : Action) :
    enabled c0 s a ↔ enabledNoPend c0 s a ∧
      ∀ n v c, a = .leaderAppendCfg n v c → (s.nodes n).pendingConf ≤ (s.nodes n).applied := by
  cases a <;> simp [enabledNoPend, enabled]
  rename_i n v c
  constructor
  · rintro ⟨h1, h2, h3⟩; exact ⟨⟨h1, h3⟩, h2⟩
  · rintro ⟨⟨h1, h3⟩, h2⟩; exact ⟨h1, h2, h3⟩

def runNoPend (c0 : Conf) : State → List Action → Option State
  | s, [] => some s
  | s, a :: as => if enabledNoPend c0 s a then runNoPend c0 (apply s a) as else none

def c4 : Conf := ([1, 2, 3, 4], [])

theorem c4_wf : c4.wf := ⟨by decide, by decide, by decide⟩

def g2 : Ent := ⟨1, 0, some ([1, 2, 3, 4, 5], [])⟩
def g3 : Ent := ⟨1, 0, some ([2, 3, 4], [])⟩

/-- node 2 wins term 1 with `{1,2,3}`, appends its empty entry, commits and applies it -/
def p1 : List Action :=
  [.campaign 2] ++ sync 2 ++ [.sendReqVote 2, .updateTerm 1 1, .grant 1 2 0 0, .updateTerm 3 1,
   .grant 3 2 0 0] ++ sync 1 ++ sync 3 ++ [.sendVote 1 1 2, .sendVote 3 1 2,
   .becomeLeader 2 [1, 2, 3], .leaderAppend 2 0] ++ sync 2 ++
  [.sendApp 2 0 1, .handleApp 1 1 0 0 [e1] 0, .handleApp 3 1 0 0 [e1] 0] ++ sync 1 ++ sync 3 ++
  [.sendAck 1 1 1, .sendAck 3 1 1, .leaderCommit 2 1 [1, 2, 3], .applyTo 2 1]

/-- `add 5` at index 2, committed by `{1,2,3}` but NOT applied by the leader -/
def p2 : List Action :=
  [.leaderAppendCfg 2 0 ([1, 2, 3, 4, 5], [])] ++ sync 2 ++
  [.sendApp 2 1 1, .handleApp 1 1 1 1 [g2] 1, .handleApp 3 1 1 1 [g2] 1] ++ sync 1 ++ sync 3 ++
  [.sendAck 1 1 2, .sendAck 3 1 2, .leaderCommit 2 2 [1, 2, 3]]

/-- the unguarded step: `remove 1` computed from the still active `{1,2,3,4}` -/
def p3a : List Action := [.leaderAppendCfg 2 0 ([2, 3, 4], [])]

/-- … replicated, committed by `{1,2,3}` of `{1,2,3,4}`, applied by the leader: active `{2,3,4}` -/
def p3b : List Action :=
  sync 2 ++ [.sendApp 2 2 1, .handleApp 1 1 2 1 [g3] 2, .handleApp 3 1 2 1 [g3] 2] ++ sync 1 ++ sync 3 ++
  [.sendAck 1 1 3, .sendAck 3 1 3, .leaderCommit 2 3 [1, 2, 3], .applyTo 2 3]

/-- `x4` at index 4 committed by `{2,3}` of `{2,3,4}` -/
def p4 : List Action :=
  [.leaderAppend 2 7] ++ sync 2 ++ [.sendApp 2 3 1, .handleApp 3 1 3 1 [x4] 3] ++ sync 3 ++
  [.sendAck 3 1 4, .leaderCommit 2 4 [2, 3]]

/-- node 1 (commit 2) applies `add 5`, campaigns and wins term 2 with `{1,4,5}` of `{1,2,3,4,5}` -/
def p5 : List Action :=
  [.applyTo 1 2, .campaign 1] ++ sync 1 ++ [.sendReqVote 1, .updateTerm 4 2, .grant 4 1 1 3,
   .updateTerm 5 2, .grant 5 1 1 3] ++ sync 4 ++ sync 5 ++ [.sendVote 4 2 1, .sendVote 5 2 1,
   .becomeLeader 1 [1, 4, 5]]

/-- … and commits `y4` at index 4 with `{1,4,5}` -/
def p6 : List Action :=
  [.leaderAppend 1 9] ++ sync 1 ++ [.sendApp 1 0 4, .handleApp 4 2 0 0 [e1, g2, g3, y4] 2,
   .handleApp 5 2 0 0 [e1, g2, g3, y4] 2] ++ sync 4 ++ sync 5 ++ [.sendAck 4 2 4, .sendAck 5 2 4,
   .leaderCommit 1 4 [1, 4, 5]]

def noPendTrace : List Action := p1 ++ p2 ++ p3a ++ p3b ++ p4 ++ p5 ++ p6

set_option maxRecDepth 100000

example : noPendTrace.length = 94 := by decide

/-- without the guard the whole trace is enabled and index 4 is committed with two entries -/
example : (runNoPend c4 State.init noPendTrace).map
    (fun s => (s.committed.filter (fun r => r.1 == 4)).map (fun r => (r.2.1.term, r.2.1.val))) =
    some [(2, 9), (1, 7)] := by decide

/-- the commit decisions: `(term, index, applied index used)`; index 4 was chosen twice, with the
configurations at applied 3 (`{2,3,4}`) and at applied 2 (`{1,2,3,4,5}`) -/
example : (runNoPend c4 State.init noPendTrace).map (fun s => (s.elected, s.choices)) =
    some ([(2, 1), (1, 2)], [(2, 4, 2), (1, 4, 3), (1, 3, 1), (1, 2, 1), (1, 1, 0)]) := by decide

/-- the final state violates `StateMachineSafety` (and the leader of term 2 lacks `x4`, committed
in term 1: `LeaderCompleteness` fails too) -/
theorem noPend_violates : ∃ s, runNoPend c4 State.init noPendTrace = some s ∧
    ¬ StateMachineSafety s ∧ ¬ LeaderCompleteness s := by
  have h : (runNoPend c4 State.init noPendTrace).map
      (fun s => decide ((4, x4, 1) ∈ s.committed ∧ (4, y4, 2) ∈ s.committed ∧ (2, 1) ∈ s.elected ∧
        (s.glog 2).at? 4 = some y4)) = some true := by decide
  cases hr : runNoPend c4 State.init noPendTrace with
  | none => rw [hr] at h; simp at h
  | some s =>
    rw [hr] at h
    simp only [Option.map_some, Option.some.injEq, decide_eq_true_eq] at h
    obtain ⟨h1, h2, h3, h4⟩ := h
    refine ⟨s, rfl, fun hs => absurd (hs 4 x4 y4 1 2 h1 h2) (by decide), fun hl => ?_⟩
    have := hl 2 1 4 x4 1 h3 h1 (by decide)
    rw [h4] at this
    exact absurd this (by decide)

/-- the log of the final leader is not a chain of allowed transitions: `{1,2,3,4,5} → {2,3,4}` -/
example : (runNoPend c4 State.init noPendTrace).map (fun s =>
    (((s.nodes 1).vol.log.cfgAt c4 2), ((s.nodes 1).vol.log.cfgAt c4 3),
     ((s.nodes 1).vol.log.cfgAt c4 2).allowed ((s.nodes 1).vol.log.cfgAt c4 3))) =
    some (([1, 2, 3, 4, 5], []), ([2, 3, 4], []), false) := by decide

/-- in the real model everything before the second `leaderAppendCfg` is enabled … -/
example : (run c4 State.init (p1 ++ p2)).isSome = true := by decide

/-- … and the second change is refused: `pendingConf = 2 > applied = 1` -/
example : (run c4 State.init (p1 ++ p2 ++ p3a)).isSome = false := by decide

/-- after applying index 2 the leader decides with `{1,2,3,4,5}`: `remove 1` alone is then fine,
but the stale proposal `{2,3,4}` (two voters removed at once) is not an allowed transition -/
example : (run c4 State.init (p1 ++ p2 ++ [.applyTo 2 2] ++ p3a)).isSome = false := by decide
example : (run c4 State.init (p1 ++ p2 ++ [.applyTo 2 2, .leaderAppendCfg 2 0 ([2, 3, 4, 5], [])])).isSome
    = true := by decide

end RaftVerif.SpecR
