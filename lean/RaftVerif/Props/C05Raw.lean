import RaftVerif.Proofs.RawNodeInv
import RaftVerif.Proofs.RawAdvance
import RaftVerif.Proofs.RawDecide
/-!
# Props/C05Raw — C05 at the `Raft.step` / `RawNode` level: visible promises are backed by durable state

Property theorems only (namespace `RaftVerif.C05R`); the machinery is in `Proofs/Raw*.lean`
(namespace `RaftVerif.Raw`).

## 1. the state invariant `PromisesWithinLog`

`Raw.PromisesWithinLog r` (Proofs/RawInv.lean): for every message `x` of `r.msgsAfterAppend`
* non-reject MsgAppResp (`Raw.PendApp`): `x.term ≤ r.term`, and `x.term = r.term → x.index ≤ r.log.lastIndex`;
* non-reject MsgVoteResp (`Raw.PendVote`): `x.term ≤ r.term`, and `x.term = r.term → x.to = r.vote ∨ x.to = 0`;
`r.msgs` holds no MsgAppResp / MsgVoteResp / MsgPreVoteResp at all; `committed ≤ lastIndex`.
This covers the acknowledgements a node addresses to itself (`appendEntry`, `campaign`) as well.

The form asked for in the task text is FALSE of the model in four respects (each with a checked
counterexample below): `term = r.term` (the term may rise while the promise waits), `to = r.vote`
(a grant to the id `None = 0`), and preservation by `step` needs hypotheses on MsgApp / MsgSnap /
MsgStorageAppendResp (`Raw.StepHyp`): the message must not contradict what was acknowledged in its own term,
and a storage acknowledgement must be truthful.  Lower-term requests are answered through
`msgsAfterAppend` too — nothing promise-like ever goes through `msgs`.
-/
namespace RaftVerif.C05R
open RaftVerif Raft Raw

/-! ### the invariant holds initially -/

/-- **C05** after `newRaft` both queues are empty and `committed ≤ lastIndex`: the invariant holds -/
theorem promises_after_newRaft (c : Config) (storage : MemoryStorage) (draws : List Nat) (r : Raft)
    (h : newRaft c storage draws = .ok r) :
    PromisesWithinLog r ∧ r.msgs = [] ∧ r.msgsAfterAppend = [] :=
  ⟨newRaft_inv c storage draws r h, (newRaft_quiet c storage draws r h).1, (newRaft_quiet c storage draws r h).2.1⟩

theorem promises_after_new (c : Config) (storage : MemoryStorage) (draws : List Nat) (rn : RawNode)
    (h : RawNode.new c storage draws = .ok rn) : PromisesWithinLog rn.raft :=
  rawnode_new_inv c storage draws rn h

/-! ### `Raft.step` keeps it -/

/-- **C05** `Step` (any fuel, any state, any message satisfying `StepHyp`) relates the states by `Prom`:
`Good` (term / commit monotone, one vote per term, queues only grow), `committed ≤ lastIndex` is kept, the
pending same-term acknowledgements that were within the log still are, and every promise queued by this
`Step` is fine in the new state -/
theorem step_promises_relation (fuel : Nat) (m : Message) (r r' : Raft) (e : Option StepErr)
    (hH : StepHyp r m) (h : (Raft.step fuel m).run r = .ok (e, r')) : Prom r r' :=
  (step_prom fuel m r hH).elim h

/-- **C05** `Step` keeps the invariant -/
theorem step_keeps_promises (fuel : Nat) (m : Message) (r r' : Raft) (e : Option StepErr)
    (hH : StepHyp r m) (hinv : PromisesWithinLog r) (h : (Raft.step fuel m).run r = .ok (e, r')) :
    PromisesWithinLog r' :=
  (step_promises_relation fuel m r r' e hH h).inv hinv

/-- every message that is not MsgApp / MsgHeartbeat / MsgSnap / MsgStorageAppendResp needs no hypothesis -/
theorem step_keeps_promises_other (fuel : Nat) (m : Message) (r r' : Raft) (e : Option StepErr)
    (h1 : m.typ ≠ .app) (h2 : m.typ ≠ .heartbeat) (h3 : m.typ ≠ .snap) (h4 : m.typ ≠ .storageAppendResp)
    (hinv : PromisesWithinLog r) (h : (Raft.step fuel m).run r = .ok (e, r')) : PromisesWithinLog r' :=
  step_keeps_promises fuel m r r' e (StepHyp.of_typ r m h1 h2 h3 h4) hinv h

/-- a MsgHeartbeat only needs a term (`TermOK`) -/
theorem step_keeps_promises_heartbeat (fuel : Nat) (m : Message) (r r' : Raft) (e : Option StepErr)
    (ht : m.typ = .heartbeat) (h0 : m.term ≠ 0)
    (hinv : PromisesWithinLog r) (h : (Raft.step fuel m).run r = .ok (e, r')) : PromisesWithinLog r' :=
  step_keeps_promises fuel m r r' e
    ⟨fun h => absurd h h0, MsgAgrees.of_typ (by rw [ht]; decide) (by rw [ht]; decide),
     fun h => by rw [ht] at h; cases h⟩ hinv h

/-- **C05** `tick` keeps the invariant (no hypothesis) -/
theorem tick_keeps_promises (r r' : Raft) (hinv : PromisesWithinLog r) (h : Raft.tick.run r = .ok ((), r')) :
    PromisesWithinLog r' :=
  ((tick_prom r).elim h).inv hinv

/-! ### the same at the `RawNode` API -/

theorem rawnode_step_keeps_promises (rn rn' : RawNode) (draws : List Nat) (m : Message) (e : Option ApiErr)
    (hH : StepHyp rn.raft m) (hinv : PromisesWithinLog rn.raft) (h : rn.step draws m = .ok (e, rn')) :
    PromisesWithinLog rn'.raft :=
  (rawnode_step_prom rn rn' draws m e hH h).inv hinv

theorem rawnode_tick_keeps_promises (rn rn' : RawNode) (draws : List Nat)
    (hinv : PromisesWithinLog rn.raft) (h : rn.tick draws = .ok rn') : PromisesWithinLog rn'.raft :=
  (rawnode_tick_prom rn rn' draws h).inv hinv

/-- `Ready` hands both queues out: afterwards they are empty and the invariant holds again -/
theorem ready_resets_promises (rn rn' : RawNode) (rd : Ready) (hinv : PromisesWithinLog rn.raft)
    (h : rn.ready = .ok (rd, rn')) :
    PromisesWithinLog rn'.raft ∧ rn'.raft.msgs = [] ∧ rn'.raft.msgsAfterAppend = [] :=
  ready_inv rn rn' rd h hinv.cl

/-! ### handler by handler (the whole-`Step` theorem above is assembled from these)

Only `handleAppendEntries`, `restore` (`handleSnapshot`) and the two `stableTo` calls of `Step` can make
`lastIndex` smaller; every other function of `Model/Raft.lean` keeps `Prom` unconditionally
(`Proofs/RawStep.lean`: `send_prom`, `appendEntry_prom`, `becomeLeader_prom`, `campaign_prom`, `hup_prom`,
`maybeCommit_prom`, `bcastAppend_prom`, `handleHeartbeat_prom`, `switchToConfig_prom`, `stepLeader_prom`, …). -/

/-- `send m` queues a promise `m` only into `msgsAfterAppend`; the invariant is kept when that promise is
fine in the current state (MsgAppResp: `index ≤ lastIndex`; MsgVoteResp: `to` is the recorded vote) -/
theorem send_keeps_promises (m : Message) (s s' : Raft)
    (ha : CL s → m.typ = .appResp → m.reject = false → m.index ≤ s.log.lastIndex)
    (hv : m.typ = .voteResp → m.reject = false →
      m.term ≤ s.term ∧ (m.term = s.term → m.to = s.vote ∨ m.to = 0))
    (h : (Raft.send m).run s = .ok ((), s')) : Prom s s' :=
  (send_prom m s ha hv).elim h

/-- `handleAppendEntries` on a node that is in the message's term, for a message that agrees with the log
below the pending same-term acknowledgements: the new acknowledgement is `≤ lastIndex'`, the old ones stay
inside -/
theorem handleAppendEntries_keeps_promises (m : Message) (s s' : Raft) (hT : s.term = m.term)
    (hA : AppAgrees s.log s.msgsAfterAppend m) (h : (Raft.handleAppendEntries m).run s = .ok ((), s')) :
    Prom s s' :=
  (handleAppendEntries_prom m s hT hA).elim h

theorem handleSnapshot_keeps_promises (m : Message) (s s' : Raft) (hT : s.term = m.term)
    (hS : SnapAgrees s.log s.msgsAfterAppend m) (h : (Raft.handleSnapshot m).run s = .ok ((), s')) :
    Prom s s' :=
  (handleSnapshot_prom m s hT hS).elim h

/-- `becomeFollower(t ≥ term)` touches neither the log nor `msgsAfterAppend`: promises of the old term simply
become promises of a lower term -/
theorem becomeFollower_keeps_promises (t l : Nat) (s s' : Raft) (ht : s.term ≤ t)
    (h : (Raft.becomeFollower t l).run s = .ok ((), s')) :
    Prom s s' ∧ s'.term = t ∧ s'.log = s.log ∧ s'.msgsAfterAppend = s.msgsAfterAppend := by
  obtain ⟨h1, h2, _, h3, h4⟩ := (becomeFollower_prom t l s ht).elim h
  exact ⟨h1, h2, h3, h4⟩

/-- the vote grant of `Step`: the MsgVoteResp is queued *before* `vote := from`; once the vote is recorded the
pair is fine (needs `vote = from ∨ vote = 0`, which is `canVote`, and that the node is in the request's term) -/
theorem vote_grant_keeps_promises (frm t ee : Nat) (s s' : Raft) (hv : s.vote = frm ∨ s.vote = 0)
    (ht : t ≠ 0 → s.term = t) (h : (Raft.send { typ := .voteResp, to := frm, term := t }).run s = .ok ((), s')) :
    Prom s { s' with electionElapsed := ee, vote := frm } :=
  (grant_prom frm t s hv ht).elim h ee

/-- the leader's own acknowledgement (`appendEntry`): queued with `index = lastIndex'` -/
theorem appendEntry_keeps_promises (es : List Entry) (s s' : Raft) (ok : Bool)
    (h : (Raft.appendEntry es).run s = .ok (ok, s')) : Prom s s' :=
  (appendEntry_prom es s).elim h

/-- the candidate's vote for itself (`campaign`): queued after `vote := id` -/
theorem campaign_keeps_promises (t : CampaignType) (s s' : Raft) (h : (Raft.campaign t).run s = .ok ((), s')) :
    Prom s s' :=
  (campaign_prom t s).elim h

/-- `stepLeader` needs no hypothesis at all -/
theorem stepLeader_keeps_promises (fuel : Nat) (m : Message) (s s' : Raft) (e : Option StepErr)
    (h : (Raft.stepLeader fuel m).run s = .ok (e, s')) : Prom s s' :=
  (stepLeader_prom fuel m s).elim h

/-- `Advance` (sync mode) replays `stepsOnAdvance` — the node's acknowledgements to itself, then
MsgStorageAppendResp / MsgStorageApplyResp — through `Step`; the invariant is kept when each replayed message
satisfies `StepHyp` in the state in which it is stepped (`Raw.StepsOK`; for the self-acknowledgements and
MsgStorageApplyResp that is automatic, `StepHyp.of_typ`; for MsgStorageAppendResp it says the application
really persisted the `Ready`, `AckOK`) -/
theorem advance_keeps_promises (rn rn' : RawNode) (draws : List Nat)
    (hok : StepsOK Raft.stepFuel { rn.raft with draws := draws } rn.stepsOnAdvance)
    (hinv : PromisesWithinLog rn.raft) (h : rn.advance draws = .ok rn') : PromisesWithinLog rn'.raft :=
  (advance_prom rn rn' draws hok h).inv hinv

/-! ### non-vacuity and the counterexamples (findings) of section 1 -/

/-- follower 1 in term 4 (leader 2), empty log -/
def exF : Raft := { cfg := { id := 1 }, term := 4, lead := 2, log := RaftLog.new {} 1000, draws := [0] }
/-- MsgApp from the leader with entries 1, 2 of term 4 -/
def exApp : Message :=
  { typ := .app, «from» := 2, to := 1, term := 4, entries := [{ term := 4, index := 1 }, { term := 4, index := 2 }] }


theorem exApp_hyp : StepHyp exF exApp :=
  ⟨by decide, ⟨fun _ => by decide, fun h => by cases h⟩, fun h => by cases h⟩

/-- non-vacuity of `step_keeps_promises`: its hypotheses hold for this follower and this MsgApp -/
example (r' : Raft) (e : Option StepErr) (h : (Raft.step 3 exApp).run exF = .ok (e, r')) : PromisesWithinLog r' :=
  step_keeps_promises 3 exApp exF r' e exApp_hyp (by decide) h

/-- the same follower after it appended entries 1, 2 of term 4 and queued the acknowledgement -/
def exF1 : Raft :=
  { exF with
    log := { exF.log with unstable := { offset := 1, offsetInProgress := 1,
                                         entries := [{ term := 4, index := 1 }, { term := 4, index := 2 }] } },
    msgsAfterAppend := [{ typ := .appResp, to := 2, «from» := 1, term := 4, index := 2 }] }

/-- non-vacuity: the follower appends 1, 2 and queues `MsgAppResp(term 4, index 2)` (this is `exF1`); the
invariant holds before and after, the promise is exactly at `lastIndex = 2` -/
example : PromisesWithinLog exF ∧
    ∃ e r', (Raft.step 3 exApp).run exF = .ok (e, r') ∧
      (PromisesWithinLog r' ∧ r'.log.lastIndex = 2 ∧ r'.log.unstable.entries = exF1.log.unstable.entries ∧
        r'.msgsAfterAppend.map (fun x => (x.typ, x.term, x.index, x.to, x.reject)) = [(.appResp, 4, 2, 2, false)]) :=
  ⟨by decide, step_outcome (by rw [Raft.step, Raft.stepFollower]; decide +kernel)⟩

/-- a heartbeat of the leader of term 5 -/
def exHb5 : Message := { typ := .heartbeat, «from» := 3, to := 1, term := 5 }

/-- **finding 1** (`term = r.term` is not invariant): the term rises to 5 while the acknowledgement of term 4 is
still queued -/
theorem term_clause_not_invariant :
    PromisesWithinLog exF1 ∧ (∀ x ∈ exF1.msgsAfterAppend, PendApp x → x.term = exF1.term) ∧
    ∃ e r', (Raft.step 3 exHb5).run exF1 = .ok (e, r') ∧
      (PromisesWithinLog r' ∧ ¬ ∀ x ∈ r'.msgsAfterAppend, PendApp x → x.term = r'.term) :=
  ⟨by decide, by decide, step_outcome (by rw [Raft.step, Raft.stepFollower]; decide +kernel)⟩

/-- a MsgApp of term 4 that contradicts the acknowledged entry 1 -/
def exBadApp : Message :=
  { typ := .app, «from» := 2, to := 1, term := 4, entries := [{ term := 3, index := 1 }] }

/-- **finding 4a** (`AppAgrees` is necessary): a same-term MsgApp, contiguous and with a term, that conflicts below the
pending promise truncates the log to 1; the queued `MsgAppResp(term 4, index 2)` is then beyond the log -/
theorem agree_hypothesis_necessary :
    PromisesWithinLog exF1 ∧ TermOK exBadApp ∧ Contig (exBadApp.index + 1) exBadApp.entries ∧
    ¬ AppAgrees exF1.log exF1.msgsAfterAppend exBadApp ∧
    ∃ e r', (Raft.step 3 exBadApp).run exF1 = .ok (e, r') ∧ ¬ PromisesWithinLog r' :=
  ⟨by decide, by decide, by decide, by decide, step_outcome (by rw [Raft.step, Raft.stepFollower]; decide +kernel)⟩


/-- a node of term 4 that granted its vote to the id `None = 0` (a MsgVote with `from = 0`) -/
def exV : Raft :=
  { cfg := { id := 1 }, term := 4, log := RaftLog.new {} 1000, draws := [0],
    msgsAfterAppend := [{ typ := .voteResp, to := 0, «from» := 1, term := 4 }] }
def exVote0 : Message := { typ := .vote, «from» := 0, to := 1, term := 4 }
def exVote3 : Message := { typ := .vote, «from» := 3, to := 1, term := 4 }

/-- **finding 3** (`to = r.vote` is not invariant): a MsgVote from `None = 0` is granted (vote stays 0, the grant goes to
0: this is how `exV` arises); a second request of the same term is then granted to 3.  The first grant is
still queued with `to = 0 ≠ vote = 3`.  Our clause `x.to = r.vote ∨ x.to = 0` holds throughout. -/
theorem vote_clause_not_invariant :
    (∃ e r', (Raft.step 3 exVote0).run { exV with msgsAfterAppend := [] } = .ok (e, r') ∧
      (r'.vote = 0 ∧ r'.msgsAfterAppend.map (fun x => (x.typ, x.term, x.to, x.reject)) = [(.voteResp, 4, 0, false)])) ∧
    PromisesWithinLog exV ∧ (∀ x ∈ exV.msgsAfterAppend, PendVote x → x.to = exV.vote) ∧
    ∃ e r', (Raft.step 3 exVote3).run exV = .ok (e, r') ∧
      (PromisesWithinLog r' ∧ r'.vote = 3 ∧ ¬ ∀ x ∈ r'.msgsAfterAppend, PendVote x → x.to = r'.vote) :=
  ⟨step_outcome (by rw [Raft.step]; decide +kernel), by decide, by decide,
   step_outcome (by rw [Raft.step]; decide +kernel)⟩

/-- an acknowledgement of entries 1, 2 by the append thread although the storage holds nothing -/
def exLie : Message :=
  { typ := .storageAppendResp, «from» := localAppendThread, to := 1, term := 4, index := 2, logTerm := 4 }

/-- **finding 4b** (`AckOK` is necessary): a MsgStorageAppendResp for entries the storage does not hold makes
`lastIndex` fall back to `storage.lastIndex = 0`; the queued `MsgAppResp(term 4, index 2)` is then beyond the
log (and `committed ≤ lastIndex` is all that is left of the log) -/
theorem ack_hypothesis_necessary :
    PromisesWithinLog exF1 ∧ ¬ AckOK exF1.log exLie ∧
    ∃ e r', (Raft.step 3 exLie).run exF1 = .ok (e, r') ∧ (r'.log.lastIndex = 0 ∧ ¬ PromisesWithinLog r') :=
  ⟨by decide, by decide, step_outcome (by rw [Raft.step]; decide +kernel)⟩


/-- a sync node whose application persisted entries 1, 2 and which now replays the truthful acknowledgement -/
def exAdvLog : RaftLog :=
  { exF1.log with storage := { ents := [({} : Entry), { term := 4, index := 1 }, { term := 4, index := 2 }] } }
def exAdv : RawNode :=
  { raft := { exF1 with msgsAfterAppend := [], log := exAdvLog }, stepsOnAdvance := [exLie] }

/-- non-vacuity of `advance_keeps_promises`: the acknowledgement is truthful now (`AckOK`), so `StepsOK` holds -/
example : PromisesWithinLog exAdv.raft ∧ AckOK exAdv.raft.log exLie ∧
    StepsOK Raft.stepFuel { exAdv.raft with draws := [] } exAdv.stepsOnAdvance :=
  ⟨by decide, by decide,
   ⟨⟨by decide, MsgAgrees.of_typ (by decide) (by decide), fun _ => by decide⟩, fun _ _ _ => trivial⟩⟩


/-! ## 2. sync mode (Ready/Advance)

In the Ready/Advance interface (`rn.async = false`) the application must persist a `Ready` (snapshot, entries,
hard state — `Raw.persistReady`, the Go idiom `ApplySnapshot; Append; SetHardState`) *before* it sends
`rd.Messages` and before it calls `Advance`.  The theorems of this section say that this write is enough:
the storage after it backs every promise the `Ready` carries (`Raw.sync_Covered`), `MustSync` is raised
when the backing state is new (with one exception — the finding `mustSync_ignores_snapshot`), and the node's
acknowledgements to itself are not in `rd.Messages` at all but wait for `Advance`.

Standing hypotheses: `Raw.PromisesWithinLog` (section 1), a well-formed log (`RaftLog.WF`), and
`Raw.sync_Stable rn`: the storage is up to date with what the node handed out in earlier `Ready`s
(stored term / vote = `prevHardSt`, in-progress unstable entries are stored, no snapshot in progress). -/

/-- **C05, Ready/Advance interface** (`readyWithoutAccept` form).  Let `rd` be the `Ready` the node would
hand out and `ms'` the storage after the application wrote it (`Raw.persistReady`).  Then every message of
`rd.Messages` is covered by `ms'` (`Raw.sync_Covered`): a non-reject MsgAppResp has a term at most the stored
term and, if equal, its index is at most the stored last index and the storage holds there the very entry of
the node's log; a non-reject MsgVoteResp has a term at most the stored term and, if equal, goes to the stored
vote.  I.e. once the `Ready` is persisted, its messages may be sent: each promise is on stable storage or the
sender has durably moved to a higher term than the message carries. -/
theorem sync_ready_covers_promises (rn : RawNode) (rd : Ready) (ha : rn.async = false)
    (hrd : rn.readyWithoutAccept = .ok rd) (hinv : PromisesWithinLog rn.raft)
    (hwf : rn.raft.log.WF) (hst : sync_Stable rn) {ms' : MemoryStorage}
    (hp : persistReady rn.raft.log.storage rd = .ok ms') :
    ∀ x ∈ rd.messages, sync_Covered rn.raft.log ms' x :=
  Raw.sync_ready_covers_promises rn rd ha hrd hinv hwf hst hp

/-- **C05, Ready/Advance interface** (`Ready()` form: `readyWithoutAccept` followed by `acceptReady`, the call
the application actually makes).  Same conclusion as `sync_ready_covers_promises`. -/
theorem sync_ready_covers_promises' (rn rn' : RawNode) (rd : Ready) (ha : rn.async = false)
    (h : rn.ready = .ok (rd, rn')) (hinv : PromisesWithinLog rn.raft) (hwf : rn.raft.log.WF)
    (hst : sync_Stable rn) {ms' : MemoryStorage} (hp : persistReady rn.raft.log.storage rd = .ok ms') :
    ∀ x ∈ rd.messages, sync_Covered rn.raft.log ms' x :=
  Raw.sync_ready_covers_promises' rn rn' rd ha h hinv hwf hst hp

/-- every pending promise — also the ones the node addressed to itself, which are *not* in `rd.Messages` — is
covered by the storage after the write of the `Ready` (either storage mode).  This is what makes the leader's
own acknowledgement safe to step at `Advance`. -/
theorem sync_pending_covered (rn : RawNode) (rd : Ready)
    (hrd : rn.readyWithoutAccept = .ok rd) (hinv : PromisesWithinLog rn.raft)
    (hwf : rn.raft.log.WF) (hst : sync_Stable rn) {ms' : MemoryStorage}
    (hp : persistReady rn.raft.log.storage rd = .ok ms') :
    ∀ x ∈ rn.raft.msgsAfterAppend, sync_Covered rn.raft.log ms' x :=
  Raw.sync_pending_covered rn rd hrd hinv hwf hst hp

/-- **the write of a `Ready` makes the storage a mirror of the node's log.**  With `rd` the `Ready` of the
node (`sync_Stable`, well-formed log):

1. the write succeeds, provided the storage does not already hold a snapshot at least as recent as the pending
   one (`Raw.sync_SnapFresh`; otherwise `ApplySnapshot` returns `ErrSnapOutOfDate`);
2. for every outcome `ms'` of the write: `ms'` is well-formed and has the same abstract log as the node
   (same compaction point, same entries); it answers `FirstIndex`, `LastIndex`, `Term(i)` and the entry lookup
   exactly like the node's `raftLog`; its term and vote are the node's (or the node is still at term 0 without
   vote, where Go does not write the empty `HardState`); a pending snapshot has become the stored snapshot.

C05 needs this because "restart rebuilds term/vote/log from Storage only" (`newRaft`, `loadState`): whatever the
node promised on the basis of its in-memory log is, after the write, what a restart would read. -/
theorem persist_ready_mirrors_log (rn : RawNode) (rd : Ready) (hrd : rn.readyWithoutAccept = .ok rd)
    (hwf : rn.raft.log.WF) (hst : sync_Stable rn) :
    (sync_SnapFresh rn.raft.log → ∃ ms', persistReady rn.raft.log.storage rd = .ok ms') ∧
    ∀ ms', persistReady rn.raft.log.storage rd = .ok ms' →
      ms'.WF ∧ ms'.abs = rn.raft.log.abs ∧
      ms'.firstIndex = rn.raft.log.firstIndex ∧ ms'.lastIndex = rn.raft.log.lastIndex ∧
      (∀ i, ms'.term i = rn.raft.log.term i) ∧ (∀ i, ms'.abs.entry? i = rn.raft.log.abs.entry? i) ∧
      ((persistTerm ms' = rn.raft.term ∧ persistVote ms' = rn.raft.vote) ∨
        (rn.raft.term = 0 ∧ rn.raft.vote = 0)) ∧
      ms'.snapshot = rn.raft.log.unstable.snapshot.getD rn.raft.log.storage.snapshot :=
  ⟨fun hfr => Raw.persistReady_succeeds rn rd hrd hwf hst hfr,
   fun _ hp =>
    have ha := Raw.persistReady_abs rn rd hrd hwf hst hp
    have hq := Raw.persistReady_queries rn rd hrd hwf hst hp
    ⟨ha.1, ha.2, hq.1, hq.2.1, hq.2.2.1, hq.2.2.2, Raw.persistReady_hard rn rd hrd hst hp,
      Raw.persistReady_snapshot rn rd hrd hst hp⟩⟩

/-! ### `MustSync` -/

/-- **`MustSync`, entries** (`rawnode.go` `MustSync`, third disjunct `entsnum != 0`).  Sync mode, unstable
entries in progress (if any) are stored.  If the `Ready` carries a current-term non-reject MsgAppResp whose
index is beyond the stored last index *and which is backed by unstable entries* (no snapshot pending, or the
index is at/above `unstable.offset`), then the `Ready` has entries and `MustSync = true`: the application is
told to fsync before it sends that acknowledgement.  The side condition is necessary, see
`mustSync_ignores_snapshot`. -/
theorem sync_mustSync_when_backing_new_app (rn : RawNode) (rd : Ready) (ha : rn.async = false)
    (hrd : rn.readyWithoutAccept = .ok rd) (hinv : PromisesWithinLog rn.raft) (hwf : rn.raft.log.WF)
    (hes : sync_EntsStored rn.raft.log)
    (x : Message) (hx : x ∈ rd.messages) (hpa : PendApp x) (hcur : x.term = rn.raft.term)
    (hnew : rn.raft.log.storage.lastIndex < x.index)
    (hents : rn.raft.log.unstable.snapshot = none ∨ rn.raft.log.unstable.offset ≤ x.index) :
    rd.entries ≠ [] ∧ rd.mustSync = true :=
  Raw.sync_mustSync_when_backing_new_app rn rd ha hrd hinv hwf hes x hx hpa hcur hnew hents

/-- **`MustSync`, term and vote** (`MustSync`, disjuncts `st.Vote != prevst.Vote || st.Term != prevst.Term`).
The stored term / vote are those handed out last.  If the node's term or vote differs from the stored one — in
particular whenever the `Ready` carries a current-term granted vote the storage does not back yet — then
`MustSync = true`. -/
theorem sync_mustSync_when_backing_new_vote (rn : RawNode) (rd : Ready)
    (hrd : rn.readyWithoutAccept = .ok rd)
    (hterm : persistTerm rn.raft.log.storage = rn.prevHard.term)
    (hvote : persistVote rn.raft.log.storage = rn.prevHard.vote)
    (hdiff : persistTerm rn.raft.log.storage ≠ rn.raft.term ∨ persistVote rn.raft.log.storage ≠ rn.raft.vote) :
    rd.mustSync = true :=
  Raw.sync_mustSync_when_backing_new_vote rn rd hrd hterm hvote hdiff

/-- **`MustSync` is raised whenever a promise is backed by new entries or a new (term, vote)**: under
`sync_Stable`, a `Ready` carrying a current-term promise whose backing state is not yet in the old storage —
entries above the stored last index, or a term / vote different from the stored ones — has
`MustSync = true`.  Anchor "MustSync tells the application when fsync is required". -/
theorem sync_mustSync_when_backing_new (rn : RawNode) (rd : Ready) (ha : rn.async = false)
    (hrd : rn.readyWithoutAccept = .ok rd) (hinv : PromisesWithinLog rn.raft) (hwf : rn.raft.log.WF)
    (hst : sync_Stable rn) (x : Message) (hx : x ∈ rd.messages) (hcur : x.term = rn.raft.term)
    (hnew : (PendApp x ∧ rn.raft.log.storage.lastIndex < x.index ∧
              (rn.raft.log.unstable.snapshot = none ∨ rn.raft.log.unstable.offset ≤ x.index)) ∨
            (PendVote x ∧ (persistTerm rn.raft.log.storage ≠ rn.raft.term ∨
              persistVote rn.raft.log.storage ≠ rn.raft.vote))) :
    rd.mustSync = true :=
  Raw.sync_mustSync_when_backing_new rn rd ha hrd hinv hwf hst x hx hcur hnew

/-- **FINDING: `MustSync` ignores a pending snapshot.**  There is a sync-mode node satisfying every standing
hypothesis of this section (`PromisesWithinLog`, well-formed log, `sync_Stable`, `sync_SnapFresh`) whose
`Ready` carries a snapshot and a current-term non-reject MsgAppResp acknowledging the snapshot's index, beyond
the stored last index, with no entries and `MustSync = false`.  (The node is `Raw.sync_snapNode`: follower 1
of term 3 has just `restore`d the snapshot (5, 3) sent by leader 2; term and vote are unchanged.)  Go's
`MustSync(st, prevst, entsnum)` does not look at `rd.Snapshot`; an application that takes `MustSync = false`
as "no fsync needed before sending" would send an acknowledgement of an accepted snapshot that is not durable.
Writing the `Ready` does cover the promise (`sync_ready_covers_promises`, see the example below) — what is
missing is only the *flag*. -/
theorem mustSync_ignores_snapshot :
    ∃ (rn : RawNode) (rd : Ready) (x : Message) (s : Snapshot),
      rn.async = false ∧ PromisesWithinLog rn.raft ∧ rn.raft.log.WF ∧ sync_Stable rn ∧
      sync_SnapFresh rn.raft.log ∧
      rn.readyWithoutAccept = .ok rd ∧ rd.snapshot = some s ∧ x ∈ rd.messages ∧ PendApp x ∧
      x.term = rn.raft.term ∧ x.index = s.index ∧ rn.raft.log.storage.lastIndex < x.index ∧
      rd.entries = [] ∧ rd.mustSync = false := by
  obtain ⟨hinv, hwf, hst, hfr, ha⟩ := Raw.sync_snapNode_inv
  obtain ⟨rd, hrd, hms, hents, hsnap, x, hx, hpa, hterm, hidx, hli⟩ := Raw.sync_snapshot_no_mustSync
  exact ⟨sync_snapNode, rd, x, { index := 5, term := 3 }, ha, hinv, hwf, hst, hfr, hrd, hsnap, hx, hpa, hterm,
    hidx, by rw [hli, hidx]; decide, hents, hms⟩

/-- the same as a negation: "a current-term acknowledgement beyond the stored last index forces `MustSync`"
is false without the side condition "backed by entries" of `sync_mustSync_when_backing_new` -/
theorem mustSync_not_implied_by_new_ack :
    ¬ ∀ (rn : RawNode) (rd : Ready) (x : Message), rn.async = false → PromisesWithinLog rn.raft →
      rn.raft.log.WF → sync_Stable rn → rn.readyWithoutAccept = .ok rd → x ∈ rd.messages → PendApp x →
      x.term = rn.raft.term → rn.raft.log.storage.lastIndex < x.index → rd.mustSync = true := by
  intro h
  obtain ⟨rn, rd, x, _, ha, hinv, hwf, hst, _, hrd, _, hx, hpa, hterm, _, hlt, _, hms⟩ :=
    mustSync_ignores_snapshot
  have := h rn rd x ha hinv hwf hst hrd hx hpa hterm hlt
  rw [hms] at this
  cases this

/-! ### the node's acknowledgements to itself wait for `Advance` -/

/-- **self-addressed acknowledgements are deferred to `Advance`** (sync mode; anchor "leader self-ack of
appended entries is such a message", `appendEntry`).  `Ready()` on a node whose `msgs` holds no self-addressed
message (`send` never queues one there):

* no message of `rd.Messages` is addressed to the node itself;
* each self-addressed pending promise (the leader's own MsgAppResp from `appendEntry`, the candidate's vote for
  itself) is in `rn'.stepsOnAdvance` and not in `rd.Messages`; every other pending promise is in `rd.Messages`;
* `Raw.sync_SoaShape`: `msgs` and `msgsAfterAppend` are emptied, and `stepsOnAdvance` is exactly the
  self-addressed part of `msgsAfterAppend` followed only by MsgStorageAppendResp / MsgStorageApplyResp addressed
  to the node;
* the previous `Ready` had been advanced (`stepsOnAdvance = []`).

So these acknowledgements are stepped by `Advance` only, i.e. after the application persisted the `Ready`: a
leader counts its own entries towards commit only after they are durable. -/
theorem sync_self_acks_deferred (rn rn' : RawNode) (rd : Ready) (ha : rn.async = false)
    (h : rn.ready = .ok (rd, rn')) (hmsgs : ∀ x ∈ rn.raft.msgs, x.to ≠ rn.raft.cfg.id) :
    (∀ x ∈ rd.messages, x.to ≠ rn.raft.cfg.id) ∧
    (∀ x ∈ rn.raft.msgsAfterAppend, x.to = rn.raft.cfg.id → x ∈ rn'.stepsOnAdvance ∧ x ∉ rd.messages) ∧
    (∀ x ∈ rn.raft.msgsAfterAppend, x.to ≠ rn.raft.cfg.id → x ∈ rd.messages) ∧
    sync_SoaShape rn rn' ∧ rn.stepsOnAdvance = [] :=
  Raw.sync_self_acks_deferred rn rn' rd ha h hmsgs

/-- **what `Advance` will step is covered by the persisted `Ready`**: every message of `rn'.stepsOnAdvance` is
a local storage acknowledgement (MsgStorageAppendResp / MsgStorageApplyResp) or a self-addressed pending
promise covered by the storage after the write of the `Ready` (`Raw.sync_Covered`).  Hence when the leader
counts its own MsgAppResp(index i) at `Advance`, entries up to `i` are on its stable storage. -/
theorem sync_self_acks_covered (rn rn' : RawNode) (rd : Ready) (ha : rn.async = false)
    (h : rn.ready = .ok (rd, rn')) (hinv : PromisesWithinLog rn.raft) (hwf : rn.raft.log.WF)
    (hst : sync_Stable rn) {ms' : MemoryStorage} (hp : persistReady rn.raft.log.storage rd = .ok ms') :
    ∀ x ∈ rn'.stepsOnAdvance,
      (x.typ = .storageAppendResp ∨ x.typ = .storageApplyResp) ∨
      (x ∈ rn.raft.msgsAfterAppend ∧ x.to = rn.raft.cfg.id ∧ sync_Covered rn.raft.log ms' x) :=
  Raw.sync_self_acks_covered rn rn' rd ha h hinv hwf hst hp

/-- what `acceptReady` alone does to the queues in sync mode (the step `Ready()` performs after building `rd`) -/
theorem sync_acceptReady_soa (rn rn' : RawNode) (rd : Ready) (ha : rn.async = false)
    (h : rn.acceptReady rd = .ok rn') : rn.stepsOnAdvance = [] ∧ sync_SoaShape rn rn' :=
  Raw.sync_acceptReady_soa rn rn' rd ha h

/-! ### non-vacuity (section 2) -/

/-- `sync_ready_covers_promises` on `Raw.sync_exFollower` (follower 1 granted its vote to 2 in term 3 and
accepted entries 3, 4; storage still at term 2 / last index 2): before the write the storage backs neither
promise, after it both — with the promises' own term, so not through the "higher term" disjunct -/
example : persistTerm sync_exFollower.raft.log.storage = 2 ∧ sync_exFollower.raft.log.storage.lastIndex = 2 ∧
    (∀ x ∈ sync_exRd.messages, sync_Covered sync_exFollower.raft.log sync_exMs x) ∧
    persistTerm sync_exMs = 3 ∧ persistVote sync_exMs = 2 ∧ sync_exMs.lastIndex = 4 ∧ sync_exMs.term 4 = .ok 3 ∧
    (∃ x ∈ sync_exRd.messages, PendApp x ∧ x.term = persistTerm sync_exMs ∧ x.index = 4) ∧
    (∃ x ∈ sync_exRd.messages, PendVote x ∧ x.term = persistTerm sync_exMs ∧ x.to = persistVote sync_exMs) :=
  ⟨rfl, rfl,
    sync_ready_covers_promises sync_exFollower sync_exRd rfl sync_exFollower_ready sync_exFollower_hyps.1
      sync_exFollower_hyps.2.1 sync_exFollower_hyps.2.2.1 sync_exFollower_persist,
    rfl, rfl, rfl, rfl, ⟨_, List.Mem.tail _ (List.Mem.head _), ⟨rfl, rfl⟩, rfl, rfl⟩,
    ⟨_, List.Mem.head _, ⟨rfl, rfl⟩, rfl, rfl⟩⟩

/-- `persist_ready_mirrors_log` on the same node: the write succeeds and yields the node's log -/
example : (∃ ms', persistReady sync_exFollower.raft.log.storage sync_exRd = .ok ms') ∧
    sync_exMs.abs = sync_exFollower.raft.log.abs ∧ sync_exMs.lastIndex = sync_exFollower.raft.log.lastIndex :=
  have h := persist_ready_mirrors_log sync_exFollower sync_exRd sync_exFollower_ready sync_exFollower_hyps.2.1
    sync_exFollower_hyps.2.2.1
  have h2 := h.2 sync_exMs sync_exFollower_persist
  ⟨h.1 sync_exFollower_hyps.2.2.2, h2.2.1, h2.2.2.2.1⟩

/-- `sync_mustSync_when_backing_new`, both cases, on the same node -/
example : sync_exRd.mustSync = true :=
  sync_mustSync_when_backing_new sync_exFollower sync_exRd rfl sync_exFollower_ready sync_exFollower_hyps.1
    sync_exFollower_hyps.2.1 sync_exFollower_hyps.2.2.1
    { typ := .appResp, to := 2, «from» := 1, term := 3, index := 4 } (List.Mem.tail _ (List.Mem.head _)) rfl
    (Or.inl ⟨⟨rfl, rfl⟩, by decide, Or.inl rfl⟩)
example : sync_exRd.mustSync = true :=
  sync_mustSync_when_backing_new sync_exFollower sync_exRd rfl sync_exFollower_ready sync_exFollower_hyps.1
    sync_exFollower_hyps.2.1 sync_exFollower_hyps.2.2.1
    { typ := .voteResp, to := 2, «from» := 1, term := 3 } (List.Mem.head _) rfl
    (Or.inr ⟨⟨rfl, rfl⟩, Or.inl (by decide)⟩)

/-- the snapshot node of `mustSync_ignores_snapshot`: the write installs the snapshot (5, 3) and afterwards
the storage backs MsgAppResp(index 5) (`sync_ready_covers_promises` applies) — although `MustSync = false` -/
example : ∃ rd ms', sync_snapNode.readyWithoutAccept = .ok rd ∧
    persistReady sync_snapNode.raft.log.storage rd = .ok ms' ∧
    (∀ x ∈ rd.messages, sync_Covered sync_snapNode.raft.log ms' x) ∧
    sync_snapNode.raft.log.storage.lastIndex = 0 ∧ ms'.lastIndex = 5 ∧ ms'.term 5 = .ok 3 ∧
    ms'.snapshot.index = 5 ∧ rd.mustSync = false :=
  ⟨_, _, rfl, rfl,
    sync_ready_covers_promises sync_snapNode _ rfl rfl sync_snapNode_inv.1 sync_snapNode_inv.2.1
      sync_snapNode_inv.2.2.1 rfl,
    rfl, rfl, rfl, rfl, rfl⟩

/-- `sync_self_acks_deferred` on `Raw.sync_exLeader` (leader 1 of term 3 appended entry 1): the `Ready`
carries only the MsgApp for peer 2 and entry 1 (to be synced); the leader's own acknowledgement of index 1
waits in `stepsOnAdvance`, followed by the MsgStorageAppendResp -/
example : (∀ x ∈ sync_exLeaderOut.1.messages, x.to ≠ 1) ∧
    sync_exLeaderOut.1.messages.map (fun m => (m.typ, m.to)) = [(.app, 2)] ∧
    sync_exLeaderOut.1.entries = [{ term := 3, index := 1 }] ∧ sync_exLeaderOut.1.mustSync = true ∧
    sync_exLeaderOut.2.stepsOnAdvance.map (fun m => (m.typ, m.to, m.index)) =
      [(.appResp, 1, 1), (.storageAppendResp, 1, 1)] ∧
    sync_exLeaderOut.2.raft.msgsAfterAppend = [] ∧ sync_SoaShape sync_exLeader sync_exLeaderOut.2 :=
  have h := sync_self_acks_deferred sync_exLeader _ _ rfl sync_exLeader_ready sync_exLeader_hyps.2.2.2
  ⟨h.1, rfl, rfl, rfl, rfl, rfl, h.2.2.2.1⟩

/-- `sync_self_acks_covered` on the same leader: what `Advance` will step is covered by the persisted `Ready`;
the storage before the write did not hold entry 1 -/
example : ∃ ms', persistReady sync_exLeader.raft.log.storage sync_exLeaderOut.1 = .ok ms' ∧
    sync_exLeader.raft.log.storage.lastIndex = 0 ∧ ms'.lastIndex = 1 ∧ ms'.term 1 = .ok 3 ∧
    ∀ x ∈ sync_exLeaderOut.2.stepsOnAdvance,
      (x.typ = .storageAppendResp ∨ x.typ = .storageApplyResp) ∨
      (x ∈ sync_exLeader.raft.msgsAfterAppend ∧ x.to = sync_exLeader.raft.cfg.id ∧
        sync_Covered sync_exLeader.raft.log ms' x) :=
  ⟨_, rfl, rfl, rfl, rfl,
    sync_self_acks_covered sync_exLeader _ _ rfl sync_exLeader_ready sync_exLeader_hyps.1 sync_exLeader_hyps.2.1
      sync_exLeader_hyps.2.2.1 rfl⟩

/-! ## 3. async mode (MsgStorageAppend)

With `AsyncStorageWrites` (`rn.async = true`) the application does not persist "the `Ready`"; it forwards the
local messages of `rd.Messages` to its storage threads.  The promises (`msgsAfterAppend`) are not sendable
messages of the `Ready` at all: they travel as the `Responses` of the one `MsgStorageAppend`, which the append
thread releases only after it has written the entries / hard state / snapshot *of that same message*.  The
theorems below give the exact shape of an async `Ready` (`Raw.async_Shape`, `Raw.async_AppendPart`,
`Raw.async_ApplyPart`, `Raw.async_appendMsg`, `Raw.async_IsSelfAck`, `Raw.async_needApp` — see
`Proofs/RawAsync.lean`) and read off C05 from it. -/
section Async
open RawNode

/-- **the exact shape of an async `Ready`** (`readyWithoutAccept`, rawnode.go:142-188).  `rd.Messages` is the
queued `raft.msgs`, then **at most one** MsgStorageAppend — present iff `needStorageAppendMsg`
(`Raw.async_needApp`) and then exactly `Raw.async_appendMsg` (entries, hard state, snapshot of the `Ready`;
`Responses = msgsAfterAppend ++ selfAck`, the self-acknowledgement attached iff `needStorageAppendRespMsg`) —
then **at most one** MsgStorageApply, present iff there are committed entries to apply.  Nothing else.  All
other async theorems are consequences. -/
theorem async_ready_shape (rn : RawNode) (rd : Ready) (ha : rn.async = true)
    (h : rn.readyWithoutAccept = .ok rd) : async_Shape rn rd :=
  Raw.async_ready_shape rn rd ha h

/-- **C05, async storage writes: promises leave only inside the MsgStorageAppend.**  If `raft.msgs` holds no
promise (which `PromisesWithinLog` guarantees) then
1. no message of the `Ready` is a MsgAppResp / MsgVoteResp / MsgPreVoteResp — no promise is directly sendable;
2. everything not addressed to a local storage thread comes from `raft.msgs`;
3. when promises are pending (`msgsAfterAppend ≠ []`) the `Ready` contains **the** MsgStorageAppend directly
   after `raft.msgs`; its `Responses` are exactly `msgsAfterAppend`, in creation order, followed by the
   self-acknowledgement (a MsgStorageAppendResp from the append thread to the node itself, carrying the node's
   term; iff one is needed); it carries **every** unstable entry not yet handed out and, when the hard state
   changed, the node's **current** (term, vote, commit).
So the write the append thread performs before releasing the responses contains the state they promise. -/
theorem async_promises_only_via_storage_append (rn : RawNode) (rd : Ready) (ha : rn.async = true)
    (h : rn.readyWithoutAccept = .ok rd) (hmsgs : ∀ x ∈ rn.raft.msgs, isPromise x.typ = false) :
    (∀ x ∈ rd.messages, isPromise x.typ = false) ∧
    (∀ x ∈ rd.messages, x.to ≠ localAppendThread → x.to ≠ localApplyThread → x ∈ rn.raft.msgs) ∧
    (rn.raft.msgsAfterAppend ≠ [] →
      ∃ selfAck applyPart, async_IsSelfAck rn.raft rd selfAck ∧ async_ApplyPart rn.raft rd applyPart ∧
        rd.messages = rn.raft.msgs ++ [async_appendMsg rn.raft rd selfAck] ++ applyPart ∧
        (async_appendMsg rn.raft rd selfAck).responses = rn.raft.msgsAfterAppend ++ selfAck ∧
        (∀ x ∈ selfAck, x.typ = .storageAppendResp ∧ x.to = rn.raft.cfg.id ∧ x.from = localAppendThread ∧
          x.term = rn.raft.term) ∧
        (async_appendMsg rn.raft rd selfAck).entries = rn.raft.log.nextUnstableEnts ∧
        (hardState rn.raft ≠ rn.prevHard → (hardState rn.raft).isEmpty = false →
          (async_appendMsg rn.raft rd selfAck).term = rn.raft.term ∧
          (async_appendMsg rn.raft rd selfAck).vote = rn.raft.vote ∧
          (async_appendMsg rn.raft rd selfAck).commit = rn.raft.log.committed)) :=
  Raw.async_promises_only_via_storage_append rn rd ha h hmsgs

/-- **no pending promise is visible in an async `Ready`**: under `PromisesWithinLog`, no message of
`rd.Messages` is a granted vote (`Raw.PendVote`), a positive append acknowledgement (`Raw.PendApp`) or a
MsgPreVoteResp.  An application that sends `rd.Messages` to peers immediately (as the async contract allows)
cannot leak a promise ahead of its write. -/
theorem async_no_pending_promise_visible (rn : RawNode) (rd : Ready) (ha : rn.async = true)
    (h : rn.readyWithoutAccept = .ok rd) (hinv : PromisesWithinLog rn.raft) :
    ∀ x ∈ rd.messages, ¬ PendApp x ∧ ¬ PendVote x ∧ x.typ ≠ .preVoteResp :=
  Raw.async_no_pending_promise_visible rn rd ha h hinv

/-- **the local-thread messages are exactly the append part and the apply part**, provided nothing in
`raft.msgs` is addressed to a local thread (`send` does not check this; no peer has such an id).  Filtering
`rd.Messages` by destination — which is what the application does — yields `[MsgStorageAppend]` or `[]` for
the append thread, `[MsgStorageApply]` or `[]` for the apply thread, and `raft.msgs` for the network. -/
theorem async_local_messages_exact (rn : RawNode) (rd : Ready) (ha : rn.async = true)
    (h : rn.readyWithoutAccept = .ok rd) (hloc : ∀ x ∈ rn.raft.msgs, isLocalMsgTarget x.to = false) :
    ∃ appendPart applyPart, async_AppendPart rn.raft rd appendPart ∧ async_ApplyPart rn.raft rd applyPart ∧
      rd.messages = rn.raft.msgs ++ appendPart ++ applyPart ∧
      rd.messages.filter (fun x => x.to == localAppendThread) = appendPart ∧
      rd.messages.filter (fun x => x.to == localApplyThread) = applyPart ∧
      rd.messages.filter (fun x => !isLocalMsgTarget x.to) = rn.raft.msgs :=
  Raw.async_local_messages_exact rn rd ha h hloc

/-- **`needStorageAppendMsg` exactly** (rawnode.go:218-224; `Raw.async_needApp` is the condition under which
`async_ready_shape` puts the MsgStorageAppend into the `Ready`).
1. On the `Ready`: something to write (entries / a non-empty hard state / a non-empty snapshot) or responses
   waiting for the next write.
2. On the node: unstable entries not yet handed out, or the hard state differs from the last one handed out
   (and is not all-zero), or a pending snapshot not yet handed out, or `msgsAfterAppend ≠ []`.
3. Conversely, if none of these holds the async `Ready` contains **no** MsgStorageAppend: its messages are
   `raft.msgs` and at most the MsgStorageApply.
For C05 the fourth disjunct matters: a pending promise alone forces a MsgStorageAppend, so a promise is never
stranded, and never released by any other route. -/
theorem needStorageAppendMsg_exact (rn : RawNode) (rd : Ready) (h : rn.readyWithoutAccept = .ok rd) :
    (async_needApp rn.raft rd = true ↔
      rd.entries ≠ [] ∨ (∃ hs, rd.hardState = some hs ∧ hs.isEmpty = false) ∨
      (∃ sn, rd.snapshot = some sn ∧ sn.index ≠ 0) ∨ rn.raft.msgsAfterAppend ≠ []) ∧
    (async_needApp rn.raft rd = true ↔
      rn.raft.log.nextUnstableEnts ≠ [] ∨
      (hardState rn.raft ≠ rn.prevHard ∧ (hardState rn.raft).isEmpty = false) ∨
      (∃ sn, rn.raft.log.unstable.nextSnapshot = some sn ∧ sn.index ≠ 0) ∨ rn.raft.msgsAfterAppend ≠ []) ∧
    (rn.async = true → rn.raft.log.nextUnstableEnts = [] →
      (hardState rn.raft = rn.prevHard ∨ (hardState rn.raft).isEmpty = true) →
      (∀ sn, rn.raft.log.unstable.nextSnapshot = some sn → sn.index = 0) →
      rn.raft.msgsAfterAppend = [] →
      ∃ applyPart, async_ApplyPart rn.raft rd applyPart ∧ rd.messages = rn.raft.msgs ++ applyPart) :=
  ⟨Raw.async_needApp_iff rn.raft rd, Raw.async_needApp_iff_node rn rd h,
   fun ha h1 h2 h3 h4 => Raw.async_no_append_when_idle rn rd ha h h1 h2 h3 h4⟩

/-- **the MsgStorageAppend carries the state its responses promise.**  For the `Ready` `rd` of node `rn` and
any self-acknowledgement part `selfAck`:
1. every field of `Raw.async_appendMsg` (type, addressed to the append thread, from the node; the entries of
   the `Ready`; term / vote / commit of a non-empty `rd.HardState`, zeros for an empty one; the snapshot iff
   non-empty; `Responses = msgsAfterAppend ++ selfAck`; all other fields zero);
2. in terms of the node: the entries are **all** unstable entries not yet handed out; if the hard state
   changed (and is not all-zero) term / vote / commit are the node's **current** ones, if it did not change
   they are zero ("nothing to write");
3. the fields of the `Ready` itself: entries = `nextUnstableEnts`, snapshot = `nextSnapshot`, hard state =
   the current one iff it differs from `prevHardSt`.
A response with the node's current term thus never travels with an older term or a shorter log than the
node had when it queued the response. -/
theorem storage_append_carries_state (rn : RawNode) (rd : Ready) (h : rn.readyWithoutAccept = .ok rd)
    (selfAck : List Message) :
    ((async_appendMsg rn.raft rd selfAck).typ = .storageAppend ∧
    (async_appendMsg rn.raft rd selfAck).to = localAppendThread ∧
    (async_appendMsg rn.raft rd selfAck).from = rn.raft.cfg.id ∧
    (async_appendMsg rn.raft rd selfAck).entries = rd.entries ∧
    (∀ hs, rd.hardState = some hs → hs.isEmpty = false →
      (async_appendMsg rn.raft rd selfAck).term = hs.term ∧ (async_appendMsg rn.raft rd selfAck).vote = hs.vote ∧
      (async_appendMsg rn.raft rd selfAck).commit = hs.commit) ∧
    (isEmptyHS rd.hardState = true →
      (async_appendMsg rn.raft rd selfAck).term = 0 ∧ (async_appendMsg rn.raft rd selfAck).vote = 0 ∧
      (async_appendMsg rn.raft rd selfAck).commit = 0) ∧
    (isEmptySnap rd.snapshot = false → (async_appendMsg rn.raft rd selfAck).snapshot = rd.snapshot) ∧
    (isEmptySnap rd.snapshot = true → (async_appendMsg rn.raft rd selfAck).snapshot = none) ∧
    (async_appendMsg rn.raft rd selfAck).responses = rn.raft.msgsAfterAppend ++ selfAck ∧
    (async_appendMsg rn.raft rd selfAck).index = 0 ∧ (async_appendMsg rn.raft rd selfAck).logTerm = 0 ∧
    (async_appendMsg rn.raft rd selfAck).reject = false ∧ (async_appendMsg rn.raft rd selfAck).rejectHint = 0 ∧
    (async_appendMsg rn.raft rd selfAck).context = none) ∧
    ((async_appendMsg rn.raft rd selfAck).entries = rn.raft.log.nextUnstableEnts ∧
    (hardState rn.raft ≠ rn.prevHard → (hardState rn.raft).isEmpty = false →
      (async_appendMsg rn.raft rd selfAck).term = rn.raft.term ∧
      (async_appendMsg rn.raft rd selfAck).vote = rn.raft.vote ∧
      (async_appendMsg rn.raft rd selfAck).commit = rn.raft.log.committed) ∧
    (hardState rn.raft = rn.prevHard →
      (async_appendMsg rn.raft rd selfAck).term = 0 ∧ (async_appendMsg rn.raft rd selfAck).vote = 0 ∧
      (async_appendMsg rn.raft rd selfAck).commit = 0)) ∧
    (rd.entries = rn.raft.log.nextUnstableEnts ∧
    rd.snapshot = rn.raft.log.unstable.nextSnapshot ∧
    (hardState rn.raft ≠ rn.prevHard → rd.hardState = some (hardState rn.raft)) ∧
    (hardState rn.raft = rn.prevHard → rd.hardState = none)) :=
  ⟨Raw.async_appendMsg_spec rn.raft rd selfAck, Raw.async_appendMsg_current rn rd h selfAck,
   Raw.async_ready_fields rn rd h⟩

/-- **nothing is written or released twice**: after `Ready()` in async mode (well-formed unstable log) a second
`Ready` taken right away needs no MsgStorageAppend (`Raw.async_needApp = false`) and consists of at most the
one MsgStorageApply.  `acceptReady` has emptied `msgsAfterAppend` and marked every unstable entry in progress,
so each promise is attached to exactly one MsgStorageAppend — the one whose write covers it. -/
theorem async_ready_twice_no_append (rn rn' : RawNode) (rd rd' : Ready) (ha : rn.async = true)
    (hwf : rn.raft.log.unstable.WF) (h : rn.ready = .ok (rd, rn')) (h' : rn'.readyWithoutAccept = .ok rd') :
    async_needApp rn'.raft rd' = false ∧
    ∃ applyPart, async_ApplyPart rn'.raft rd' applyPart ∧ rd'.messages = applyPart :=
  Raw.async_ready_twice_no_append rn rn' rd rd' ha hwf h h'

/-- what `acceptReady` leaves behind in async mode (`Raw.async_Accepted`): both queues emptied, every unstable
entry and the pending snapshot marked in progress; storage, commit index, term, vote, configuration,
`stepsOnAdvance` untouched — in async mode nothing is stepped at `Advance`, the acknowledgements come back
from the storage threads -/
theorem async_acceptReady (rn rn' : RawNode) (rd : Ready) (ha : rn.async = true)
    (h : rn.acceptReady rd = .ok rn') : async_Accepted rn rn' :=
  Raw.async_acceptReady rn rn' rd ha h

/-- **FINDING: `needStorageAppendRespMsg` does not imply that a MsgStorageAppend is emitted.**  There is an
async node (`Raw.async_exIdle`: the term-2 leader of `C15.exAsyncNode` with its unstable entry 4 already in
progress, hard state unchanged, no pending response) whose `Ready` satisfies `needStorageAppendRespMsg`
(unstable entries exist) but not `needStorageAppendMsg`, and contains no message at all — in particular no
MsgStorageAppend and hence no self-acknowledgement.  The two predicates of rawnode.go are independent:
the acknowledgement for in-progress entries is owed by the *earlier* MsgStorageAppend that handed them out;
the attachment statement of `self_ack_is_last_response` therefore needs both hypotheses. -/
theorem storage_append_resp_needed_but_no_append :
    ∃ (rn : RawNode) (rd : Ready), rn.async = true ∧ rn.readyWithoutAccept = .ok rd ∧
      needStorageAppendRespMsg rn.raft rd = true ∧ async_needApp rn.raft rd = false ∧
      rd.messages = [] ∧ ∀ x ∈ rd.messages, x.typ ≠ .storageAppend := by
  have key : (async_exIdle.readyWithoutAccept).toOption.map (fun rd =>
      (rd.messages.length, async_needApp async_exIdle.raft rd, needStorageAppendRespMsg async_exIdle.raft rd)) =
      some (0, false, true) := by decide +kernel
  cases hr : async_exIdle.readyWithoutAccept with
  | error e => rw [hr] at key; cases key
  | ok rd =>
    rw [hr] at key
    simp only [Except.toOption, Option.map_some, Option.some.injEq, Prod.mk.injEq] at key
    obtain ⟨k1, k2, k3⟩ := key
    have hnil : rd.messages = [] := List.eq_nil_of_length_eq_zero k1
    refine ⟨async_exIdle, rd, rfl, hr, k3, k2, hnil, ?_⟩
    intro x hx
    rw [hnil] at hx
    cases hx

/-! ### non-vacuity (section 3)

`Raw.async_exNode`: async leader 1 of term 2, entry 4 unstable and not yet handed out, a heartbeat queued in
`msgs`, its own MsgAppResp(index 4) pending, commit 1 in the last hard state handed out.  `Raw.async_exRd` is
its `Ready`, `Raw.async_exApp` the MsgStorageAppend in it, `Raw.async_exAck` the self-acknowledgement. -/

/-- `async_ready_shape` / `async_promises_only_via_storage_append` / `async_no_pending_promise_visible` apply
to `async_exNode`: a promise is pending, none is visible, and the one MsgStorageAppend carries it (followed by
the self-acknowledgement) together with entry 4 and commit 2 -/
example : async_Shape async_exNode async_exRd ∧ async_exNode.raft.msgsAfterAppend ≠ [] ∧
    (∀ x ∈ async_exRd.messages, isPromise x.typ = false) ∧
    async_exRd.messages = async_exNode.raft.msgs ++ [async_exApp] ∧
    async_exApp.responses.map (·.typ) = [.appResp, .storageAppendResp] ∧
    async_exApp.entries = [{ term := 2, index := 4 }] ∧ async_exApp.commit = 2 :=
  ⟨async_ready_shape _ _ rfl async_ex_ready, by decide,
    (async_promises_only_via_storage_append _ _ rfl async_ex_ready async_ex_msgs).1, rfl, by decide, rfl, rfl⟩

/-- clause 3 of `async_promises_only_via_storage_append` on `async_exNode`: its hypothesis holds, so the
existential is inhabited -/
example : ∃ selfAck applyPart, async_IsSelfAck async_exNode.raft async_exRd selfAck ∧
    async_ApplyPart async_exNode.raft async_exRd applyPart ∧
    async_exRd.messages = async_exNode.raft.msgs ++ [async_appendMsg async_exNode.raft async_exRd selfAck] ++
      applyPart ∧
    (async_appendMsg async_exNode.raft async_exRd selfAck).entries = async_exNode.raft.log.nextUnstableEnts :=
  have ⟨sa, ap, h1, h2, h3, _, _, h6, _⟩ :=
    (async_promises_only_via_storage_append _ _ rfl async_ex_ready async_ex_msgs).2.2 (by decide)
  ⟨sa, ap, h1, h2, h3, h6⟩

/-- `needStorageAppendMsg_exact` and `storage_append_carries_state` on `async_exNode`: the condition holds
(all of: new entry, changed commit, pending response), and the message is `async_exApp` -/
example : async_needApp async_exNode.raft async_exRd = true ∧
    async_exNode.raft.log.nextUnstableEnts ≠ [] ∧
    async_appendMsg async_exNode.raft async_exRd [async_exAck] = async_exApp ∧
    (async_appendMsg async_exNode.raft async_exRd [async_exAck]).entries = async_exNode.raft.log.nextUnstableEnts :=
  ⟨(needStorageAppendMsg_exact _ _ async_ex_ready).2.1.mpr (Or.inl (by decide)), by decide, rfl,
    (storage_append_carries_state _ _ async_ex_ready [async_exAck]).2.1.1⟩

/-- `async_ready_twice_no_append` on `async_exNode`: `Ready()` succeeds, the unstable log is well-formed, and
the second `Ready` is empty -/
example : (∃ rn', async_exNode.ready = .ok (async_exRd, rn')) ∧ async_exNode.raft.log.unstable.WF ∧
    (∀ rn' rd', async_exNode.ready = .ok (async_exRd, rn') → rn'.readyWithoutAccept = .ok rd' →
      async_needApp rn'.raft rd' = false) ∧
    ((async_exNode.ready).toOption.bind (fun p => p.2.readyWithoutAccept.toOption)).map
      (fun rd' => (rd'.messages.length, rd'.entries.length)) = some (0, 0) :=
  ⟨⟨_, rfl⟩, async_ex_wf,
    fun rn' rd' h h' => (async_ready_twice_no_append async_exNode rn' async_exRd rd' rfl async_ex_wf h h').1,
    by decide +kernel⟩

/-- `async_no_pending_promise_visible` and `async_local_messages_exact` on `async_exNode`: the invariant of
section 1 holds, a `PendApp` promise is pending, none is in the `Ready`; filtering by destination gives the
one MsgStorageAppend for the append thread and the heartbeat for the network -/
example : PromisesWithinLog async_exNode.raft ∧ (∃ x ∈ async_exNode.raft.msgsAfterAppend, PendApp x) ∧
    (∀ x ∈ async_exRd.messages, ¬ PendApp x ∧ ¬ PendVote x ∧ x.typ ≠ .preVoteResp) ∧
    async_exRd.messages.filter (fun x => x.to == localAppendThread) = [async_exApp] ∧
    async_exRd.messages.filter (fun x => !isLocalMsgTarget x.to) = async_exNode.raft.msgs := by
  have hinv : PromisesWithinLog async_exNode.raft := ⟨by decide, by decide, by decide, by decide⟩
  have hloc : ∀ x ∈ async_exNode.raft.msgs, isLocalMsgTarget x.to = false := by
    intro x hx
    have : x = { typ := .heartbeat, to := 2, «from» := 1, term := 2 } := by simpa [async_exNode] using hx
    rw [this]; decide
  obtain ⟨_, _, _, _, _, _, _, h6⟩ := async_local_messages_exact _ _ rfl async_ex_ready hloc
  exact ⟨hinv, ⟨_, List.Mem.head _, ⟨rfl, rfl⟩⟩,
    async_no_pending_promise_visible _ _ rfl async_ex_ready hinv, by rfl, h6⟩

end Async

/-! ## 4. the self-acknowledgement

The MsgStorageAppendResp the node addresses to itself (`newStorageAppendRespMsg`, rawnode.go:235-283) is how
the node learns that its unstable entries are durable — only then does `stableTo` drop them from `unstable`.
It is built when the `Ready` is built, but delivered after an arbitrary delay, possibly after the log was
truncated and re-extended; the `(index, logTerm)` pair it carries makes a stale delivery harmless. -/
section SelfAck
open RawNode

/-- **`newStorageAppendRespMsg`, field by field.**  On a well-formed log the acknowledgement can always be
built (the Go code panics on a `Term` error; that branch is unreachable).  Whenever it is built as `m`:
it is a MsgStorageAppendResp from the append thread to the node itself; `m.Term` is the node's term when the
`Ready` was built; `(m.Index, m.LogTerm)` is the id of the **last** log entry iff unstable entries exist
(handed out now or still in progress), else `(0, 0)` — and `Step` calls `stableTo` only for `Index ≠ 0`;
the snapshot is that of the `Ready` iff non-empty; every other field is zero; and it is not a promise
(`isPromise = false`), so it may sit in `Responses` after the promises without being one. -/
theorem newStorageAppendRespMsg_spec (r : Raft) (rd : Ready) :
    (r.log.WF → ∃ m, newStorageAppendRespMsg r rd = .ok m) ∧
    ∀ m, newStorageAppendRespMsg r rd = .ok m →
      (m.typ = .storageAppendResp ∧ m.to = r.cfg.id ∧ m.from = localAppendThread ∧ m.term = r.term ∧
      (r.log.hasNextOrInProgressUnstableEnts = true →
        ∃ t, r.log.term r.log.lastIndex = .ok t ∧ m.index = r.log.lastIndex ∧ m.logTerm = t) ∧
      (r.log.hasNextOrInProgressUnstableEnts = false → m.index = 0 ∧ m.logTerm = 0) ∧
      (isEmptySnap rd.snapshot = false → m.snapshot = rd.snapshot) ∧
      (isEmptySnap rd.snapshot = true → m.snapshot = none) ∧
      m.reject = false ∧ m.entries = [] ∧ m.responses = [] ∧
      m.commit = 0 ∧ m.vote = 0 ∧ m.rejectHint = 0 ∧ m.context = none) ∧
      isPromise m.typ = false :=
  ⟨fun hwf => Raw.sar_total r rd hwf, fun m h => ⟨Raw.sar_spec r rd m h, Raw.sar_not_promise r rd m h⟩⟩

/-- **the self-acknowledgement is the last response.**  `Ready()` in async mode:
1. when the MsgStorageAppend is emitted (`Raw.async_needApp`) and an acknowledgement is needed
   (`needStorageAppendRespMsg`), the **last** element of its `Responses` is the acknowledgement of
   `newStorageAppendRespMsg_spec` and everything before it is exactly `msgsAfterAppend`: the append thread
   releases the promises to the peers no later than it reports the write back to the node, and both only after
   the write;
2. `acceptReady` empties both queues and marks every unstable entry and the pending snapshot in progress
   (`Raw.async_Accepted`);
3. on a well-formed unstable log the next `Ready` hands out no entry and no snapshot a second time. -/
theorem self_ack_is_last_response (rn rn' : RawNode) (rd : Ready) (ha : rn.async = true)
    (h : rn.ready = .ok (rd, rn')) :
    (async_needApp rn.raft rd = true → needStorageAppendRespMsg rn.raft rd = true →
      ∃ resp applyPart, newStorageAppendRespMsg rn.raft rd = .ok resp ∧
        async_ApplyPart rn.raft rd applyPart ∧
        rd.messages = rn.raft.msgs ++ [async_appendMsg rn.raft rd [resp]] ++ applyPart ∧
        (async_appendMsg rn.raft rd [resp]).responses.getLast? = some resp ∧
        (async_appendMsg rn.raft rd [resp]).responses.dropLast = rn.raft.msgsAfterAppend ∧
        (∀ x ∈ (async_appendMsg rn.raft rd [resp]).responses.dropLast, x ∈ rn.raft.msgsAfterAppend)) ∧
    async_Accepted rn rn' ∧
    (rn.raft.log.unstable.WF →
      rn'.raft.log.unstable.WF ∧ rn'.raft.log.nextUnstableEnts = [] ∧
      rn'.raft.log.hasNextUnstableSnapshot = false ∧
      rn'.raft.log.unstable.entries = rn.raft.log.unstable.entries ∧
      ∀ rd', rn'.readyWithoutAccept = .ok rd' → rd'.entries = [] ∧ rd'.snapshot = none) :=
  Raw.async_self_ack_is_last_response rn rn' rd ha h

/-- **a stale self-acknowledgement is rejected** (the ABA link between `newStorageAppendRespMsg` and
`stableTo`).  Let `m` be the acknowledgement built for a `Ready` of raft state `r` with unstable entries, so
that by `newStorageAppendRespMsg_spec` `(m.Index, m.LogTerm)` is the id of `r`'s last entry at that time.
Let `l'` be the (well-formed) log at the time `m` is finally stepped, and suppose that in between the
unstable log was overwritten so that no unstable entry at `m.Index` has term `m.LogTerm` any more (the entry
there now has a different term, or the index is no longer unstable).  Then the call
`stableTo(entryID{term: m.LogTerm, index: m.Index})` that `Step` performs for `m` changes **nothing**: the
log — and its `unstable` part — are returned as they are, so the new entry at that index stays unstable until
*its own* write is acknowledged.  (`C18.log_stableTo`, first clause, and `C18.unstable_stableTo_nomatch`,
applied to the id delivered by `Raw.sar_spec`.)  Without the `LogTerm` guard the node would drop an entry from
`unstable` that is not on disk, and a later promise for it would not be durable. -/
theorem stale_self_ack_rejected (r : Raft) (rd : Ready) (m : Message)
    (h : newStorageAppendRespMsg r rd = .ok m) (hne : r.log.hasNextOrInProgressUnstableEnts = true)
    (l' : RaftLog) (hwf' : l'.WF)
    (hchg : ∀ e ∈ l'.unstable.entries, e.index = m.index → e.term ≠ m.logTerm) :
    (m.index = r.log.lastIndex ∧ r.log.term r.log.lastIndex = .ok m.logTerm) ∧
    ¬ l'.unstable.Matches ⟨m.logTerm, m.index⟩ ∧
    l'.stableTo ⟨m.logTerm, m.index⟩ = l' ∧
    l'.unstable.stableTo ⟨m.logTerm, m.index⟩ = l'.unstable := by
  obtain ⟨t, ht, hi, hl⟩ := (Raw.sar_spec r rd m h).2.2.2.2.1 hne
  have hnm : ¬ l'.unstable.Matches ⟨m.logTerm, m.index⟩ := by
    rintro ⟨e, he, hei, het⟩
    exact hchg e he hei het
  exact ⟨⟨hi, by rw [hl]; exact ht⟩, hnm, (C18.log_stableTo hwf' _).1 hnm,
    C18.unstable_stableTo_nomatch hwf'.unstable hnm⟩

/-- the same with the overwrite made explicit (`C18.unstable_stableTo_ABA` specialised to the
acknowledgement's `(LogTerm, Index)`): `m` acknowledges the last entry `(lastIndex, t)` of `r`'s log; later the
unstable log `u` (any well-formed state reached meanwhile) is overwritten from `e0.index` by the contiguous
run `e0 :: rest` (`truncateAndAppend`) which puts at `r`'s old last index an entry of a term other than `t`.
Then `stableTo` with `m`'s id leaves the overwritten unstable log unchanged. -/
theorem stale_self_ack_after_overwrite (r : Raft) (rd : Ready) (m : Message)
    (h : newStorageAppendRespMsg r rd = .ok m) (hne : r.log.hasNextOrInProgressUnstableEnts = true)
    {u : Unstable} (hu : u.WF) {e0 : Entry} {rest : List Entry}
    (hc : Contig e0.index (e0 :: rest)) (hle : e0.index ≤ u.next)
    (hs : u.snapshot.isSome → u.offset ≤ e0.index)
    (e : Entry) (he : e ∈ e0 :: rest) (hi : e.index = r.log.lastIndex)
    (ht : ∀ t, r.log.term r.log.lastIndex = .ok t → e.term ≠ t) :
    (u.overwritten (e0 :: rest) e0.index).stableTo ⟨m.logTerm, m.index⟩ =
      u.overwritten (e0 :: rest) e0.index := by
  obtain ⟨t, htm, hmi, hml⟩ := (Raw.sar_spec r rd m h).2.2.2.2.1 hne
  exact C18.unstable_stableTo_ABA hu hc hle hs ⟨m.logTerm, m.index⟩ e he (by rw [hi, hmi])
    (by rw [hml]; exact ht t htm)

/-! ### non-vacuity (section 4) -/

/-- `newStorageAppendRespMsg_spec` on `async_exNode`: the log is well-formed, the acknowledgement is
`async_exAck` = (index 4, logTerm 2) at term 2, the id of the last entry -/
example : (∃ m, newStorageAppendRespMsg async_exNode.raft async_exRd = .ok m) ∧
    async_exAck.term = async_exNode.raft.term ∧ async_exAck.index = async_exNode.raft.log.lastIndex ∧
    async_exNode.raft.log.term async_exNode.raft.log.lastIndex = .ok async_exAck.logTerm ∧
    async_exNode.raft.log.hasNextOrInProgressUnstableEnts = true ∧ isPromise async_exAck.typ = false :=
  have h := newStorageAppendRespMsg_spec async_exNode.raft async_exRd
  ⟨h.1 (by decide), (h.2 _ async_ex_ack).1.2.2.2.1, rfl, rfl, rfl, (h.2 _ async_ex_ack).2⟩

/-- `self_ack_is_last_response` on `async_exNode`: both hypotheses of clause 1 hold, `Ready()` succeeds, and
the last response of `async_exApp` is the acknowledgement -/
example : async_needApp async_exNode.raft async_exRd = true ∧
    needStorageAppendRespMsg async_exNode.raft async_exRd = true ∧
    (∀ rn', async_exNode.ready = .ok (async_exRd, rn') → async_Accepted async_exNode rn') ∧
    (∃ rn', async_exNode.ready = .ok (async_exRd, rn')) ∧
    async_exApp.responses.getLast?.map (fun x => (x.typ, x.index, x.logTerm, x.term)) =
      some (.storageAppendResp, 4, 2, 2) :=
  ⟨by decide, by decide, fun rn' h => (self_ack_is_last_response async_exNode rn' async_exRd rfl h).2.1,
    ⟨_, rfl⟩, by decide⟩

/-- `stale_self_ack_rejected` on `async_exNode`: the acknowledgement (4, term 2) arrives after entry 4 was
replaced by one of term 3 — `stableTo` does nothing; had entry 4 kept term 2 it would have matched -/
example :
    let l' : RaftLog := { async_exNode.raft.log with
      unstable := { async_exNode.raft.log.unstable with entries := [{ term := 3, index := 4 }] } }
    l'.WF ∧ l'.stableTo ⟨async_exAck.logTerm, async_exAck.index⟩ = l' ∧
    async_exNode.raft.log.unstable.Matches ⟨async_exAck.logTerm, async_exAck.index⟩ := by
  intro l'
  have hwf : l'.WF := by decide
  exact ⟨hwf, (stale_self_ack_rejected async_exNode.raft async_exRd async_exAck async_ex_ack rfl l' hwf
    (by decide)).2.2.1, by decide⟩

/-- `stale_self_ack_after_overwrite` on `async_exNode`: the unstable log is overwritten from index 4 by an
entry of term 3 -/
example : ((async_exNode.raft.log.unstable.overwritten [{ term := 3, index := 4 }] 4).stableTo
      ⟨async_exAck.logTerm, async_exAck.index⟩) =
    async_exNode.raft.log.unstable.overwritten [{ term := 3, index := 4 }] 4 :=
  stale_self_ack_after_overwrite async_exNode.raft async_exRd async_exAck async_ex_ack rfl async_ex_wf
    (e0 := { term := 3, index := 4 }) (rest := []) (by decide) (by decide) (by decide)
    { term := 3, index := 4 } (List.Mem.head _) rfl
    (fun t h => by
      have h2 : async_exNode.raft.log.term async_exNode.raft.log.lastIndex = .ok 2 := rfl
      rw [h2] at h; injection h with h; subst h; decide)

end SelfAck

end RaftVerif.C05R
