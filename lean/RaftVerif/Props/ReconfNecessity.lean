import RaftVerif.Props.ReconfTraces
/-!
# The guards are not redundant: `hup` without `hasUnappliedConfChanges` breaks state-machine safety

The same executable model with the third conjunct of the `campaign` guard dropped
(`enabledNoHup`): a node that holds two committed configuration entries but has applied none of
them wins an election with a quorum of the *initial* configuration `{1,2,3}` although an entry was
committed under `{1,2,3,4,5}` by `{1,4,5}`, and commits a different entry at the same index.
In the real model the trace is refused exactly at that `campaign`.
-/
namespace RaftVerif.SpecR

def enabledNoHup (c0 : Conf) (s : State) : Action → Prop
  | .campaign n => (s.nodes n).role ≠ .leader ∧ n ≠ 0
  | a => enabled c0 s a

instance (c0 : Conf) (s : State) (a : Action) : Decidable (enabledNoHup c0 s a) := by
  cases a <;> simp only [enabledNoHup] <;> infer_instance

def runNoHup (c0 : Conf) : State → List Action → Option State
  | s, [] => some s
  | s, a :: as => if enabledNoHup c0 s a then runNoHup c0 (apply s a) as else none

def f2 : Ent := ⟨1, 0, some ([1, 2, 3, 4], [])⟩
def f3 : Ent := ⟨1, 0, some ([1, 2, 3, 4, 5], [])⟩
def x4 : Ent := ⟨1, 7, none⟩
def y4 : Ent := ⟨2, 9, none⟩

/-- add node 4 (simple change), committed by `{1,2}` of `{1,2,3}` -/
def nA : List Action :=
  [.leaderAppendCfg 1 0 ([1, 2, 3, 4], [])] ++ sync 1 ++
  [.sendApp 1 1 1, .handleApp 2 1 1 1 [f2] 1] ++ sync 2 ++ [.sendAck 2 1 2,
   .leaderCommit 1 2 [1, 2], .applyTo 1 2]

/-- add node 5, committed by `{1,2,4}` of `{1,2,3,4}`; node 2 learns that index 2 is committed -/
def nB : List Action :=
  [.leaderAppendCfg 1 0 ([1, 2, 3, 4, 5], [])] ++ sync 1 ++
  [.sendApp 1 2 1, .handleApp 2 1 2 1 [f3] 2] ++ sync 2 ++ [.sendAck 2 1 3,
   .updateTerm 4 1, .sendApp 1 0 3, .handleApp 4 1 0 0 [e1, f2, f3] 2] ++ sync 4 ++ [.sendAck 4 1 3,
   .leaderCommit 1 3 [1, 2, 4], .applyTo 1 3]

/-- entry `x4` at index 4 committed by `{1,4,5}` of `{1,2,3,4,5}` -/
def nC : List Action :=
  [.leaderAppend 1 7] ++ sync 1 ++
  [.updateTerm 5 1, .sendApp 1 0 4, .handleApp 5 1 0 0 [e1, f2, f3, x4] 3] ++ sync 5 ++
  [.sendAck 5 1 4, .sendApp 1 3 1, .handleApp 4 1 3 1 [x4] 3] ++ sync 4 ++ [.sendAck 4 1 4,
   .leaderCommit 1 4 [1, 4, 5]]

/-- node 2 (commit 2, applied 0) campaigns and wins with `{2,3}` of the initial configuration -/
def nD : List Action :=
  [.campaign 2] ++ sync 2 ++ [.sendReqVote 2, .updateTerm 3 2, .grant 3 2 1 3] ++ sync 3 ++
  [.sendVote 3 2 2, .becomeLeader 2 [2, 3]]

/-- … and commits `y4` at index 4 -/
def nE : List Action :=
  [.leaderAppend 2 9] ++ sync 2 ++ [.sendApp 2 0 4, .handleApp 3 2 0 0 [e1, f2, f3, y4] 2] ++ sync 3 ++
  [.sendAck 3 2 4, .leaderCommit 2 4 [2, 3]]

def noHupTrace : List Action := tr1 ++ nA ++ nB ++ nC ++ nD ++ nE

set_option maxRecDepth 100000

/-- without the guard the whole trace is enabled and index 4 is committed with two entries -/
example : (runNoHup c3 State.init noHupTrace).map
    (fun s => (s.committed.filter (fun r => r.1 == 4)).map (fun r => (r.2.1.term, r.2.1.val))) =
    some [(2, 9), (1, 7)] := by decide

/-- in the real model everything up to the `campaign` of node 2 is enabled … -/
example : (run c3 State.init (tr1 ++ nA ++ nB ++ nC)).isSome = true := by decide

/-- … and that `campaign` is refused (index 2 is a committed, unapplied configuration entry) -/
example : (run c3 State.init (tr1 ++ nA ++ nB ++ nC ++ [.campaign 2])).isSome = false := by decide

/-- after applying what it knows to be committed, node 2 may campaign, but its configuration is
`{1,2,3,4}` and `{2,3}` is no quorum of it -/
example : (run c3 State.init (tr1 ++ nA ++ nB ++ nC ++ [.applyTo 2 2] ++ nD)).isSome = false := by decide
example : (run c3 State.init (tr1 ++ nA ++ nB ++ nC ++ [.applyTo 2 2] ++ nD.dropLast)).isSome = true := by
  decide

end RaftVerif.SpecR
