import RaftVerif.Proofs.C14Campaign
/-!
# C14  No internal assertion fires under any contract-respecting usage — exact firing conditions

Every Go `panic` of raft is a `throw` of the model (`Model/*.lean`).  This file gives, for every `throw`
site, a theorem stating **exactly** when it fires: `f args = .error msg ↔ condition` (pure functions, `P α =
Except String α`) or `(f args).run r = .error msg ↔ condition` (functions in `M = StateT Raft (Except String)`).
Most theorems quantify over the message `e` and list every `(message, condition)` pair of the function, so
they also say that *no other* site can fire.  Helper lemmas: `Proofs/C14Sites.lean` (log, tracker, ReadOnly),
`Proofs/C14Raft.lean` (raft.go), `Proofs/C14RawNode.lean` (rawnode.go, `Config.validate`, `newRaft`),
`Proofs/C14Conf.lean` (confchange), `Proofs/C14Restore.lean` (`restore`, `applyConfChange`).

Hypotheses are explicit: `RaftLog.WF` / `MemoryStorage.WF` (the log invariants of C18/C08), `Contig n es`
(`es` carries the indexes `n, n+1, …`), `ReadOnly.Inv`.  `usub a b` is Go's wrapping `uint64` subtraction.

## Table of `throw` sites (file:line, function, message) → theorem

### Model/Log.lean
| line | function | message | theorem |
|---|---|---|---|
| 55 | `MemoryStorage.entries` | storage.Entries: hi out of bound | `panic_storage_entries_hi_iff`, `panic_storage_entries_iff` |
| 57 | `MemoryStorage.entries` | storage.Entries: slice bounds out of range | `panic_storage_entries_bounds_iff`, `panic_storage_entries_iff` |
| 67 | `MemoryStorage.createSnapshot` | storage.CreateSnapshot: out of bound | `panic_storage_createSnapshot_oob_iff` |
| 68 | `MemoryStorage.createSnapshot` | storage.CreateSnapshot: index out of range | `panic_storage_createSnapshot_range_iff` |
| 76 | `MemoryStorage.compact` | storage.Compact: out of bound | `panic_storage_compact_iff` |
| 97 | `MemoryStorage.append` | storage.Append: missing log entry | `panic_storage_append_iff` |
| 163 | `Unstable.slice` | unstable.slice: invalid | `panic_unstable_slice_invalid_iff`, `panic_unstable_slice_iff` |
| 164 | `Unstable.slice` | unstable.slice: out of bound | `panic_unstable_slice_oob_iff`, `panic_unstable_slice_iff` |
| 169 | `Unstable.truncateAndAppend` | unstable.truncateAndAppend: empty | `panic_unstable_truncateAndAppend_empty_iff`, `panic_unstable_truncateAndAppend_iff` |
| 231 | `RaftLog.lastEntryID` | lastEntryID: unexpected error | `panic_lastEntryID_iff`; never under `WF`: `no_panic_log_layer` |
| 247 | `RaftLog.commitTo` | commitTo: tocommit out of range | `panic_commitTo_iff` |
| 255 | `RaftLog.append` | append: after out of range (committed) | `panic_append_iff` |
| 269 | `RaftLog.maybeAppend` | maybeAppend: conflict with committed entry | `panic_maybeAppend_conflict_iff`, `panic_maybeAppend_iff` |
| 272 | `RaftLog.maybeAppend` | maybeAppend: index out of range | `panic_maybeAppend_range_iff`; never for contiguous entries: `panic_maybeAppend_iff` |
| 289 | `RaftLog.mustCheckOutOfBounds` | slice: invalid lo > hi | `panic_mustCheckOutOfBounds_invalid_iff` |
| 291 | `RaftLog.mustCheckOutOfBounds` | slice: out of bound | `panic_mustCheckOutOfBounds_oob_iff` |
| 305 | `RaftLog.slice` | slice: entries unavailable from storage | `panic_slice_iff` (never under `WF`) |
| 306 | `RaftLog.slice` | slice: unexpected storage error … | `panic_slice_iff` (never under `WF`) |
| 323 | `RaftLog.allEntries` | allEntries: unexpected error | `panic_allEntries_iff`; never under `WF`: `no_panic_log_layer` |
| 347 | `RaftLog.nextCommittedEnts` | nextCommittedEnts: applying entry size not positive | `panic_nextCommittedEnts_iff` |
| 350 | `RaftLog.nextCommittedEnts` | nextCommittedEnts: unexpected error when getting unapplied entries | `panic_nextCommittedEnts_iff` (never) |
| 358 | `RaftLog.appliedTo` | appliedTo: applied out of range | `panic_appliedTo_iff` |
| 365 | `RaftLog.acceptApplying` | acceptApplying: applying out of range | `panic_acceptApplying_iff` |
| 378 | `RaftLog.scanAny` | scan: out of fuel | `panic_scanAny_fuel`, `panic_scanAny_iff` (never with the fuel the model passes) |
| 382 | `RaftLog.scanAny` | scan: error scanning unapplied entries | `panic_scanAny_iff` |
| 383 | `RaftLog.scanAny` | scan: got 0 entries | `panic_scanAny_iff` (never under `WF`) |

### Model/Tracker.lean
| 55 | `Inflights.add` | inflights.Add: cannot add into a Full inflights | `panic_inflights_add_iff` |
| 117 | `Progress.sentEntries` | progress.SentEntries: sending append in unhandled state | `panic_sentEntries_iff` |

### Model/ConfChange.lean (Go `error` values; they become panics in `applyConfChange`, `restore`, `newRaft`)
| 143–154 | `checkInvariants` | (nine messages, one per violated clause) | `panic_checkInvariants_iff` (some site fires ⇔ `¬ ConfInv`) |
| 211 | `Changer.apply` | removed all voters | `panic_apply_iff` |
| 220 | `Changer.enterJoint` | config is already joint | `enterJoint_cases` |
| 221 | `Changer.enterJoint` | can't make a zero-voter config joint | `enterJoint_cases` |
| 228 | `Changer.leaveJoint` | can't leave a non-joint config | `leaveJoint_cases` |
| 235 | `Changer.leaveJoint` | nil progress in LeaveJoint | `leaveJoint_cases` (contributes no case: unreachable) |
| 246 | `Changer.simple` | can't apply simple config change in joint config | `simple_cases` |
| 249 | `Changer.simple` | more than one voter changed without entering joint config | `simple_cases` |

### Model/Raft.lean
| 49 | `ReadOnly.recvAck` | readOnly.recvAck: context shorter than 8 bytes | `panic_recvAck_iff` |
| 55 | `ReadOnly.maybeAdvance` | … slice bounds out of range (empty config) | `panic_maybeAdvance_iff` |
| 60 | `ReadOnly.maybeAdvance` | readOnly.maybeAdvance: slice bounds out of range | `panic_maybeAdvance_iff`, `no_panic_maybeAdvance` |
| 114 | `liftP` | (re-throws the panic of a pure function) | `panic_liftP_iff` |
| 129 | `Raft.getPr` | nil Progress dereference | `panic_getPr_iff` |
| 142 | `Raft.send` | send: term should be set | `panic_send_iff`, `send_no_panic_iff` |
| 144 | `Raft.send` | send: term should not be set | `panic_send_iff`, `send_no_panic_iff` |
| 149 | `Raft.send` | send: message should not be self-addressed | `panic_send_iff`, `send_no_panic_iff` |
| 155 | `Raft.maybeSendSnapshot` | need non-empty snapshot | `panic_maybeSendSnapshot_iff` |
| 222 | `Raft.resetRandomizedElectionTimeout` | HARNESS: no election-timeout draw supplied | `panic_resetRandomizedElectionTimeout_iff`, `panic_reset_iff` |
| 277 | `Raft.becomeCandidate` | invalid transition [leader -> candidate] | `panic_becomeCandidate_iff` |
| 282 | `Raft.becomePreCandidate` | invalid transition [leader -> pre-candidate] | `panic_becomePreCandidate_iff` |
| 286 | `Raft.becomeLeader` | invalid transition [follower -> leader] | `panic_becomeLeader_iff` |
| 293 | `Raft.becomeLeader` | empty entry was dropped | `panic_becomeLeader_iff` (contributes no case: unreachable) |
| 338 | `Raft.responseToReadIndexReq` | responseToReadIndexReq: index out of range (no entries) | `panic_responseToReadIndexReq_iff` |
| 434 | `Raft.restore` | unable to restore config: … | `panic_restore_iff` |
| 437 | `Raft.restore` | ConfStates not equivalent | `panic_restore_iff` |
| 453 | `Raft.decodeCC` | proto.Unmarshal ConfChange failed | `panic_decodeCC_iff` |
| 457 | `Raft.decodeCC` | proto.Unmarshal ConfChangeV2 failed | `panic_decodeCC_iff` |
| 483 | `Raft.step` | MODEL: step nesting deeper than expected | `panic_step_fuel` (fires at fuel 0), `step_fuel_not_observable` (with fuel ≥ 2, in particular `stepFuel = 3`, `step` is one and the same function: the bound is never reached); that no *other* site produces this message is **not covered** |
| 572 | `Raft.stepLeader` | stepped empty MsgProp | `panic_stepLeader_emptyProp` (empty ⇒ fires; the converse — no other site of `stepLeader` produces this message — is **not covered**) |
| 786 | `Raft.applyConfChange` | applyConfChange: … | `panic_applyConfChange_of_rejected`, `panic_applyConfChange_nonleader_iff` (exact for non-leaders; for a leader only "rejected ⇒ fires"); run equation for every role — this site fires iff the Changer rejects, otherwise `applyConfChange = switchToConfig` — in `C10.applyConfChange_is_changer`; a change that passed the propose-time gate is never rejected: `C10.gated_cc_never_panics` |
| 791 | `Raft.loadState` | loadState: state.commit out of range | `panic_loadState_iff` |
| 818–830 | `Config.validate` | (seven messages) | `panic_validate_iff` |
| 850 | `newRaft` | newRaft: … | `panic_newRaft_iff` |
| 853 | `newRaft` | ConfStates not equivalent | `panic_newRaft_iff` |

### Model/RawNode.lean
| 50 | `RawNode.runM` | HARNESS: unused election-timeout draws | `panic_runM_iff` |
| 111 | `RawNode.acceptReady` | two accepted Ready structs without call to Advance | `panic_acceptReady_iff` |
| 147 | `RawNode.advance` | Advance must not be called when using AsyncStorageWrites | `panic_advance_iff` |

Functions without a `throw` of their own, whose panics are those of their callees: covered are
`maybeSendAppend` (`panic_maybeSendAppend_iff`: on a well-formed log neither `raftLog.entries`/`slice` nor
`SentEntries`/`Inflights.Add` can fire), `sendHeartbeat` (`panic_sendHeartbeat_iff`), `handleHeartbeat`,
`handleAppendEntries`, `handleSnapshot` (`panic_handle*_iff`), `hasUnappliedConfChanges`
(`no_panic_hasUnappliedConfChanges`), `readyWithoutAccept`/`acceptReady`/`ready` (`no_panic_ready`),
`campaign` (`panic_campaign_iff`), `hup` (`panic_hup_only_harness`), `bcastHeartbeat` / `bcastHeartbeatWithCtx` /
MsgBeat at a leader (`no_panic_bcastHeartbeat`, `no_panic_stepLeader_beat`: never, without any hypothesis).
**Not covered**: `bcastAppend`, `poll`, `step`, `stepLeader`, `stepCandidate`, `stepFollower`,
`tick*`, `switchToConfig` on a leader — no theorem here enumerates which callee sites are reachable from them.
-/
namespace RaftVerif.C14
open Raft

/-! ## MemoryStorage -/

theorem panic_storage_entries_hi_iff (ms : MemoryStorage) (lo hi m : Nat) :
    ms.entries lo hi m = .error "storage.Entries: hi out of bound" ↔ ms.offset < lo ∧ ms.lastIndex + 1 < hi :=
  storage_entries_hi_iff ms lo hi m

theorem panic_storage_entries_bounds_iff (ms : MemoryStorage) (lo hi m : Nat) :
    ms.entries lo hi m = .error "storage.Entries: slice bounds out of range" ↔
      ms.offset < lo ∧ hi ≤ ms.lastIndex + 1 ∧ ms.ents.length ≠ 1 ∧ hi < lo :=
  storage_entries_bounds_iff ms lo hi m

/-- `Entries` panics (with either message) exactly when, the range not being compacted, `hi` is beyond the
last index or — storage holding more than the dummy entry — the bounds are inverted -/
theorem panic_storage_entries_iff (ms : MemoryStorage) (lo hi m : Nat) :
    (∃ e, ms.entries lo hi m = .error e) ↔
      ms.offset < lo ∧ (ms.lastIndex + 1 < hi ∨ (ms.ents.length ≠ 1 ∧ hi < lo)) :=
  storage_entries_iff ms lo hi m

theorem panic_storage_createSnapshot_oob_iff (ms : MemoryStorage) (i : Nat) (cs : Option ConfState)
    (d : Option Bytes) :
    ms.createSnapshot i cs d = .error "storage.CreateSnapshot: out of bound" ↔
      ms.snapshot.index < i ∧ ms.lastIndex < i :=
  storage_createSnapshot_oob_iff ms i cs d

theorem panic_storage_createSnapshot_range_iff (ms : MemoryStorage) (i : Nat) (cs : Option ConfState)
    (d : Option Bytes) :
    ms.createSnapshot i cs d = .error "storage.CreateSnapshot: index out of range" ↔
      ms.snapshot.index < i ∧ i ≤ ms.lastIndex ∧ i < ms.offset :=
  storage_createSnapshot_range_iff ms i cs d

theorem panic_storage_createSnapshot_iff (ms : MemoryStorage) (i : Nat) (cs : Option ConfState)
    (d : Option Bytes) :
    (∃ e, ms.createSnapshot i cs d = .error e) ↔ ms.snapshot.index < i ∧ (ms.lastIndex < i ∨ i < ms.offset) :=
  storage_createSnapshot_iff ms i cs d

theorem panic_storage_compact_iff (ms : MemoryStorage) (ci : Nat) (e : String) :
    ms.compact ci = .error e ↔ e = "storage.Compact: out of bound" ∧ ms.offset < ci ∧ ms.lastIndex < ci := by
  constructor
  · intro h
    have h2 := (storage_compact_any_iff ms ci).mp ⟨e, h⟩
    have h3 := (storage_compact_iff ms ci).mpr h2
    rw [h3] at h; injection h with h
    exact ⟨h.symm, h2⟩
  · rintro ⟨rfl, h⟩; exact (storage_compact_iff ms ci).mpr h

/-- `Append` of a contiguous batch to a well-formed storage panics exactly on a gap after the last index -/
theorem panic_storage_append_iff {ms : MemoryStorage} (h : ms.WF) {n : Nat} {es : List Entry} (hc : Contig n es)
    (e : String) :
    ms.append es = .error e ↔ e = "storage.Append: missing log entry" ∧ es ≠ [] ∧ ms.lastIndex + 1 < n :=
  storage_append_iff h hc e

/-! ## unstable -/

theorem panic_unstable_slice_invalid_iff (u : Unstable) (lo hi : Nat) :
    u.slice lo hi = .error "unstable.slice: invalid" ↔ hi < lo :=
  unstable_slice_invalid_iff u lo hi

theorem panic_unstable_slice_oob_iff (u : Unstable) (lo hi : Nat) :
    u.slice lo hi = .error "unstable.slice: out of bound" ↔
      lo ≤ hi ∧ (lo < u.offset ∨ u.offset + u.entries.length < hi) :=
  unstable_slice_oob_iff u lo hi

theorem panic_unstable_slice_iff (u : Unstable) (lo hi : Nat) :
    (∃ e, u.slice lo hi = .error e) ↔ hi < lo ∨ lo < u.offset ∨ u.offset + u.entries.length < hi :=
  unstable_slice_iff u lo hi

theorem panic_unstable_truncateAndAppend_empty_iff (u : Unstable) (ents : List Entry) :
    u.truncateAndAppend ents = .error "unstable.truncateAndAppend: empty" ↔ ents = [] :=
  unstable_truncateAndAppend_empty_iff u ents

/-- the `unstable.slice` panic inside `truncateAndAppend`: a gap after the last unstable index -/
theorem panic_unstable_truncateAndAppend_gap_iff (u : Unstable) (ents : List Entry) :
    u.truncateAndAppend ents = .error "unstable.slice: out of bound" ↔
      ∃ e0 rest, ents = e0 :: rest ∧ u.offset + u.entries.length < e0.index :=
  unstable_truncateAndAppend_gap_iff u ents

theorem panic_unstable_truncateAndAppend_iff (u : Unstable) (ents : List Entry) :
    (∃ e, u.truncateAndAppend ents = .error e) ↔
      ents = [] ∨ ∃ e0 rest, ents = e0 :: rest ∧ u.offset + u.entries.length < e0.index :=
  unstable_truncateAndAppend_iff u ents

/-! ## raftLog -/

theorem panic_mustCheckOutOfBounds_invalid_iff (l : RaftLog) (lo hi : Nat) :
    l.mustCheckOutOfBounds lo hi = .error "slice: invalid lo > hi" ↔ hi < lo :=
  mustCheckOutOfBounds_invalid_iff l lo hi

theorem panic_mustCheckOutOfBounds_oob_iff (l : RaftLog) (lo hi : Nat) :
    l.mustCheckOutOfBounds lo hi = .error "slice: out of bound" ↔
      lo ≤ hi ∧ l.firstIndex ≤ lo ∧ l.lastIndex + 1 < hi :=
  mustCheckOutOfBounds_oob_iff l lo hi

theorem panic_mustCheckOutOfBounds_iff (l : RaftLog) (lo hi : Nat) :
    (∃ e, l.mustCheckOutOfBounds lo hi = .error e) ↔ hi < lo ∨ (l.firstIndex ≤ lo ∧ l.lastIndex + 1 < hi) :=
  mustCheckOutOfBounds_iff l lo hi

/-- **slice** under the log invariant: the only panics are the two argument checks; the storage/unstable
panics and the "entries unavailable"/"unexpected storage error" sites are unreachable -/
theorem panic_slice_iff {l : RaftLog} (h : l.WF) (lo hi m : Nat) (e : String) :
    l.slice lo hi m = .error e ↔
      (e = "slice: invalid lo > hi" ∧ hi < lo) ∨
      (e = "slice: out of bound" ∧ lo ≤ hi ∧ l.firstIndex ≤ lo ∧ l.lastIndex + 1 < hi) :=
  slice_error_iff h lo hi m e

theorem panic_lastEntryID_iff (l : RaftLog) (e : String) :
    l.lastEntryID = .error e ↔ e = "lastEntryID: unexpected error" ∧ ∃ se, l.term l.lastIndex = .error se := by
  constructor
  · intro h
    have h2 := (lastEntryID_any_iff l).mp ⟨e, h⟩
    have h3 := (lastEntryID_iff l).mpr h2
    rw [h3] at h; injection h with h
    exact ⟨h.symm, h2⟩
  · rintro ⟨rfl, h⟩; exact (lastEntryID_iff l).mpr h

theorem panic_commitTo_iff (l : RaftLog) (c : Nat) (e : String) :
    l.commitTo c = .error e ↔ e = "commitTo: tocommit out of range" ∧ l.committed < c ∧ l.lastIndex < c :=
  commitTo_iff l c e

/-- **append**: both panics (the committed check and the gap check of `truncateAndAppend`), no hypothesis.
`usub e0.index 1` is Go's `ents[0].Index - 1` (it wraps for index 0). -/
theorem panic_append_iff (l : RaftLog) (ents : List Entry) (e : String) :
    l.append ents = .error e ↔ ∃ e0 rest, ents = e0 :: rest ∧
      ((e = "append: after out of range (committed)" ∧ usub e0.index 1 < l.committed) ∨
       (e = "unstable.slice: out of bound" ∧ l.committed ≤ usub e0.index 1 ∧
          l.unstable.offset + l.unstable.entries.length < e0.index)) :=
  append_error_iff l ents e

/-- for a positive first index the committed check reads `e0.index ≤ committed` -/
theorem panic_append_committed_iff (l : RaftLog) (e0 : Entry) (rest : List Entry) (hpos : 0 < e0.index) :
    l.append (e0 :: rest) = .error "append: after out of range (committed)" ↔ e0.index ≤ l.committed := by
  rw [panic_append_iff]
  have hu : usub e0.index 1 = e0.index - 1 := usub_one_of_pos _ hpos
  constructor
  · rintro ⟨e0', rest', heq, (⟨_, h⟩ | ⟨h, _⟩)⟩
    · injection heq with h1 _; subst h1; rw [hu] at h; omega
    · simp at h
  · intro h; exact ⟨e0, rest, rfl, Or.inl ⟨rfl, by rw [hu]; omega⟩⟩

theorem panic_maybeAppend_conflict_iff (l : RaftLog) (prev : EntryID) (ents : List Entry) (c : Nat) :
    l.maybeAppend prev ents c = .error "maybeAppend: conflict with committed entry" ↔
      l.matchTerm prev = true ∧ l.findConflict ents ≠ 0 ∧ l.findConflict ents ≤ l.committed :=
  maybeAppend_conflict_iff l prev ents c

theorem panic_maybeAppend_range_iff (l : RaftLog) (prev : EntryID) (ents : List Entry) (c : Nat) :
    l.maybeAppend prev ents c = .error "maybeAppend: index out of range" ↔
      l.matchTerm prev = true ∧ l.findConflict ents ≠ 0 ∧ l.committed < l.findConflict ents ∧
      ents.length < usub (l.findConflict ents) (prev.index + 1) :=
  maybeAppend_range_iff l prev ents c

/-- **maybeAppend** under the invariant, entries contiguous after `prev`: the conflict with a committed entry
is the only panic (not "index out of range", nor any panic of `append`/`commitTo`) -/
theorem panic_maybeAppend_iff {l : RaftLog} (h : l.WF) (prev : EntryID) (ents : List Entry) (c : Nat)
    (hc : Contig (prev.index + 1) ents) (e : String) :
    l.maybeAppend prev ents c = .error e ↔
      e = "maybeAppend: conflict with committed entry" ∧
      l.matchTerm prev = true ∧ l.findConflict ents ≠ 0 ∧ l.findConflict ents ≤ l.committed :=
  maybeAppend_error_iff h prev ents c hc e

theorem panic_allEntries_iff (l : RaftLog) (e : String) :
    l.allEntries = .error e ↔
      l.entries l.firstIndex noLimit = .error e ∨
      (e = "allEntries: unexpected error" ∧ ∃ se, l.entries l.firstIndex noLimit = .ok (.error se)) :=
  allEntries_iff l e

/-- **nextCommittedEnts** on a log satisfying the invariant *except possibly its budget clause* (the invariant
holds once `applyingEntsPaused` is forced to `true`, which only makes that clause vacuous): the only panic is
the exhausted budget; "unexpected error when getting unapplied entries" and all `slice` panics are unreachable -/
theorem panic_nextCommittedEnts_iff {l : RaftLog}
    (h : ({ l with applyingEntsPaused := true } : RaftLog).WF) (au : Bool) (e : String) :
    l.nextCommittedEnts au = .error e ↔
      e = "nextCommittedEnts: applying entry size not positive" ∧
      l.applyingEntsPaused = false ∧ l.unstable.snapshot = none ∧ l.applying < l.maxAppliableIndex au ∧
      usub l.maxApplyingEntsSize l.applyingEntsSize = 0 :=
  nextCommittedEnts_error_iff h au e

theorem panic_appliedTo_iff (l : RaftLog) (i size : Nat) (e : String) :
    l.appliedTo i size = .error e ↔
      e = "appliedTo: applied out of range" ∧ (l.committed < i ∨ i < l.applied) := by
  rw [RaftLog.appliedTo_eq]
  split
  · rename_i h; simp [h, eq_comm]
  · rename_i h; simp [h]

theorem panic_acceptApplying_iff (l : RaftLog) (i size : Nat) (au : Bool) (e : String) :
    l.acceptApplying i size au = .error e ↔ e = "acceptApplying: applying out of range" ∧ l.committed < i := by
  rw [RaftLog.acceptApplying_eq]
  split
  · rename_i h; simp [h, eq_comm]
  · rename_i h; simp [h]

theorem panic_scanAny_fuel (l : RaftLog) (p : Entry → Bool) (ps lo hi : Nat) :
    l.scanAny p ps 0 lo hi = .error "scan: out of fuel" := rfl

/-- **scanAny** under the invariant with the fuel the model passes (`hi - lo < fuel`): it panics exactly when
the (non-empty) range starts in the compacted part or ends beyond the log; "out of fuel" and "got 0 entries"
are unreachable -/
theorem panic_scanAny_iff {l : RaftLog} (h : l.WF) (p : Entry → Bool) (ps fuel lo hi : Nat)
    (hf : hi - lo < fuel) (e : String) :
    l.scanAny p ps fuel lo hi = .error e ↔ lo < hi ∧
      ((e = "scan: error scanning unapplied entries" ∧ lo < l.firstIndex) ∨
       (e = "slice: out of bound" ∧ l.firstIndex ≤ lo ∧ l.lastIndex + 1 < hi)) :=
  scanAny_error_iff h p ps fuel lo hi hf e

/-! ## tracker -/

theorem panic_inflights_add_iff (i : Inflights) (idx b : Nat) (e : String) :
    i.add idx b = .error e ↔ e = "inflights.Add: cannot add into a Full inflights" ∧ i.full = true :=
  inflights_add_iff i idx b e

theorem panic_sentEntries_iff (pr : Progress) (n b : Nat) (e : String) :
    pr.sentEntries n b = .error e ↔
      (e = "progress.SentEntries: sending append in unhandled state" ∧ pr.state = .snapshot) ∨
      (e = "inflights.Add: cannot add into a Full inflights" ∧ pr.state = .replicate ∧ 0 < n ∧
        pr.inflights.full = true) :=
  sentEntries_iff pr n b e

/-! ## confchange -/

theorem panic_checkInvariants_iff (cfg : TrackerConfig) (trk : ProgressMap) :
    (∃ e, checkInvariants cfg trk = .error e) ↔ ¬ ConfInv cfg trk :=
  checkInvariants_error_iff cfg trk

theorem panic_apply_iff (c : Changer) (cfg : TrackerConfig) (trk : ProgressMap) (ccs : List ConfChangeSingle)
    (e : String) :
    c.apply cfg trk ccs = .error e ↔
      e = "removed all voters" ∧ (ccs.foldl (applyStep c) (cfg, trk)).1.voters = [] :=
  apply_error_iff c cfg trk ccs e

/-- every case of `Changer.simple`, in evaluation order -/
theorem simple_cases (c : Changer) (ccs : List ConfChangeSingle) :
    c.simple ccs =
      match checkInvariants c.tracker.cfg.clone c.tracker.progress with
      | .error e => .error e
      | .ok _ =>
        if joint c.tracker.cfg.clone = true then .error "can't apply simple config change in joint config"
        else if (ccs.foldl (applyStep c) (c.tracker.cfg.clone, c.tracker.progress)).1.voters.length = 0 then
          .error "removed all voters"
        else if symdiff c.tracker.cfg.voters
            (ccs.foldl (applyStep c) (c.tracker.cfg.clone, c.tracker.progress)).1.voters > 1 then
          .error "more than one voter changed without entering joint config"
        else
          match checkInvariants (ccs.foldl (applyStep c) (c.tracker.cfg.clone, c.tracker.progress)).1
                  (ccs.foldl (applyStep c) (c.tracker.cfg.clone, c.tracker.progress)).2 with
          | .error e => .error e
          | .ok _ => .ok (ccs.foldl (applyStep c) (c.tracker.cfg.clone, c.tracker.progress)) :=
  simple_eq c ccs

/-- every case of `Changer.enterJoint`, in evaluation order -/
theorem enterJoint_cases (c : Changer) (al : Bool) (ccs : List ConfChangeSingle) :
    c.enterJoint al ccs =
      match checkInvariants c.tracker.cfg.clone c.tracker.progress with
      | .error e => .error e
      | .ok _ =>
        if joint c.tracker.cfg.clone = true then .error "config is already joint"
        else if c.tracker.cfg.clone.voters.length = 0 then .error "can't make a zero-voter config joint"
        else if (enterJointFold c ccs).1.voters.length = 0 then .error "removed all voters"
        else
          match checkInvariants { (enterJointFold c ccs).1 with autoLeave := al } (enterJointFold c ccs).2 with
          | .error e => .error e
          | .ok _ => .ok ({ (enterJointFold c ccs).1 with autoLeave := al }, (enterJointFold c ccs).2) :=
  enterJoint_eq c al ccs

/-- every case of `Changer.leaveJoint`; "nil progress in LeaveJoint" is not among them -/
theorem leaveJoint_cases (c : Changer) :
    c.leaveJoint =
      match checkInvariants c.tracker.cfg.clone c.tracker.progress with
      | .error e => .error e
      | .ok _ =>
        if joint c.tracker.cfg.clone = false then .error "can't leave a non-joint config"
        else
          match checkInvariants (leaveJointResult c).1 (leaveJointResult c).2 with
          | .error e => .error e
          | .ok _ => .ok (leaveJointResult c) :=
  leaveJoint_eq c

/-! ## ReadOnly -/

theorem panic_recvAck_iff (ro : ReadOnly) (frm : Id) (ctx : Option Bytes) (e : String) :
    ro.recvAck frm ctx = .error e ↔
      e = "readOnly.recvAck: context shorter than 8 bytes" ∧ ∃ b, ctx = some b ∧ 0 < b.length ∧ b.length < 8 :=
  recvAck_iff ro frm ctx e

/-- `maybeAdvance` panics exactly on an empty configuration, or when the joint quorum index of the acks lies
beyond every request ever received -/
theorem panic_maybeAdvance_iff (ro : ReadOnly) (c0 c1 : List Id) (e : String) :
    ro.maybeAdvance c0 c1 = .error e ↔
      (e = "readOnly.maybeAdvance: slice bounds out of range (empty config)" ∧ c0 = [] ∧ c1 = []) ∨
      (e = "readOnly.maybeAdvance: slice bounds out of range" ∧
        ∃ nc, Quorum.jointCommitted c0 c1 (mapGet ro.acks) = some nc ∧
          ro.confirmedReads + ro.unconfirmed.length < nc) :=
  maybeAdvance_iff ro c0 c1 e

/-- … which the invariant "no ack beyond the handed-out positions" excludes for a non-empty configuration -/
theorem no_panic_maybeAdvance (ro : ReadOnly) (c0 c1 : List Id) (hinv : ro.Inv) (hne : c0 ≠ [] ∨ c1 ≠ []) :
    ∃ ro' rel, ro.maybeAdvance c0 c1 = .ok (ro', rel) :=
  ReadOnly.maybeAdvance_no_panic ro c0 c1 hinv hne

/-! ## raft.go -/

/-- `liftP` re-throws exactly the panic of the pure function -/
theorem panic_liftP_iff {α : Type} (x : P α) (r : Raft) (e : String) :
    (liftP x).run r = .error e ↔ x = .error e := by
  cases x <;> simp

theorem panic_getPr_iff (id : Id) (r : Raft) (e : String) :
    (getPr id).run r = .error e ↔ e = "nil Progress dereference" ∧ r.trk.getProgress id = none :=
  getPr_error_iff id r e

/-- **send**: `isVoteTyp` = MsgVote/MsgVoteResp/MsgPreVote/MsgPreVoteResp; `isAfterAppendTyp` =
MsgAppResp/MsgVoteResp/MsgPreVoteResp (queued in `msgsAfterAppend`, never checked for self-addressing) -/
theorem panic_send_iff (m : Message) (r : Raft) (e : String) :
    (send m).run r = .error e ↔
      (e = "send: term should be set" ∧ isVoteTyp m.typ = true ∧ m.term = 0) ∨
      (e = "send: term should not be set" ∧ isVoteTyp m.typ = false ∧ m.term ≠ 0) ∨
      (e = "send: message should not be self-addressed" ∧ (isVoteTyp m.typ = true ↔ m.term ≠ 0) ∧
        isAfterAppendTyp m.typ = false ∧ m.to = r.cfg.id) :=
  send_error_iff m r e

/-- **send never panics iff** the term is set exactly on the four vote message types and a message that goes
to `msgs` is not addressed to the node itself -/
theorem send_no_panic_iff (m : Message) (r : Raft) :
    (∃ r', (send m).run r = .ok ((), r')) ↔
      (isVoteTyp m.typ = true ↔ m.term ≠ 0) ∧ (isAfterAppendTyp m.typ = false → m.to ≠ r.cfg.id) :=
  send_ok_iff m r

theorem panic_maybeSendSnapshot_iff (to : Id) (pr : Progress) (r : Raft) (e : String) :
    (maybeSendSnapshot to pr).run r = .error e ↔
      pr.recentActive = true ∧
      ((e = "need non-empty snapshot" ∧ r.log.snapshot.index = 0) ∨
       (e = "send: message should not be self-addressed" ∧ r.log.snapshot.index ≠ 0 ∧ to = r.cfg.id)) :=
  maybeSendSnapshot_error_iff to pr r e

theorem panic_resetRandomizedElectionTimeout_iff (r : Raft) (e : String) :
    resetRandomizedElectionTimeout.run r = .error e ↔
      e = "HARNESS: no election-timeout draw supplied" ∧ r.draws = [] :=
  rret_error_iff r e

theorem panic_reset_iff (term : Nat) (r : Raft) (e : String) :
    (reset term).run r = .error e ↔ e = "HARNESS: no election-timeout draw supplied" ∧ r.draws = [] :=
  reset_error_iff term r e

theorem panic_becomeCandidate_iff (r : Raft) (e : String) :
    becomeCandidate.run r = .error e ↔
      (e = "invalid transition [leader -> candidate]" ∧ r.state = .leader) ∨
      (e = "HARNESS: no election-timeout draw supplied" ∧ r.state ≠ .leader ∧ r.draws = []) :=
  becomeCandidate_error_iff r e

theorem panic_becomePreCandidate_iff (r : Raft) (e : String) :
    becomePreCandidate.run r = .error e ↔
      e = "invalid transition [leader -> pre-candidate]" ∧ r.state = .leader :=
  becomePreCandidate_error_iff r e

/-- **becomeLeader**, all sites in evaluation order; "empty entry was dropped" contributes no case.  The last
case is the panic of `raftLog.append` for the empty entry (see `panic_append_iff`; impossible on a well-formed
log, where `committed ≤ lastIndex` and `lastIndex + 1` is the next unstable index). -/
theorem panic_becomeLeader_iff (r : Raft) (e : String) :
    becomeLeader.run r = .error e ↔
      (e = "invalid transition [follower -> leader]" ∧ r.state = .follower) ∨
      (r.state ≠ .follower ∧
        ((e = "HARNESS: no election-timeout draw supplied" ∧ r.draws = []) ∨
         (r.draws ≠ [] ∧
           ((e = "nil Progress dereference" ∧ r.trk.getProgress r.cfg.id = none) ∨
            (r.trk.getProgress r.cfg.id ≠ none ∧
              r.log.append [{ term := r.term, index := r.log.lastIndex + 1 }] = .error e))))) :=
  becomeLeader_error_iff r e

theorem panic_loadState_iff (hs : HardState) (r : Raft) (e : String) :
    (loadState hs).run r = .error e ↔
      e = "loadState: state.commit out of range" ∧
      (hs.commit < r.log.committed ∨ r.log.lastIndex < hs.commit) :=
  loadState_error_iff hs r e

theorem panic_responseToReadIndexReq_iff (req : Message) (ri : Nat) (r : Raft) (e : String) :
    (responseToReadIndexReq req ri).run r = .error e ↔
      e = "responseToReadIndexReq: index out of range (no entries)" ∧ req.entries = [] :=
  responseToReadIndexReq_error_iff req ri r e

theorem panic_decodeCC_iff (en : Entry) (r : Raft) (e : String) :
    (decodeCC en).run r = .error e ↔
      (e = "proto.Unmarshal ConfChange failed" ∧ en.getType = .confChange ∧
        decodeConfChangeV1AsV2 (en.data.getD []) = none) ∨
      (e = "proto.Unmarshal ConfChangeV2 failed" ∧ en.getType = .confChangeV2 ∧
        decodeConfChangeV2 (en.data.getD []) = none) :=
  decodeCC_error_iff en r e

/-- the model's recursion bound: at fuel 0 `step` panics -/
theorem panic_step_fuel (m : Message) (r : Raft) :
    (step 0 m).run r = .error "MODEL: step nesting deeper than expected" :=
  step_zero m r

/-- an empty `MsgProp` stepped at a leader panics -/
theorem panic_stepLeader_emptyProp (fuel : Nat) (m : Message) (r : Raft) (hm : m.typ = .prop)
    (he : m.entries = []) : (stepLeader fuel m).run r = .error "stepped empty MsgProp" :=
  stepLeader_emptyProp fuel m r hm he

/-- a configuration change rejected by the `Changer` panics in `applyConfChange` (any role) -/
theorem panic_applyConfChange_of_rejected (cc : ConfChangeV2) (r : Raft) (e' : String)
    (h : applyV2 { tracker := r.trk, lastIndex := r.log.lastIndex } cc = .error e') :
    (applyConfChange cc).run r = .error ("applyConfChange: " ++ e') :=
  applyConfChange_changer_error cc r e' h

/-- … and on a node that is not leader this is the only panic of `applyConfChange` -/
theorem panic_applyConfChange_nonleader_iff (cc : ConfChangeV2) (r : Raft) (hs : r.state ≠ .leader) (e : String) :
    (applyConfChange cc).run r = .error e ↔
      ∃ e', applyV2 { tracker := r.trk, lastIndex := r.log.lastIndex } cc = .error e' ∧
        e = "applyConfChange: " ++ e' :=
  applyConfChange_error_iff_nonleader cc r hs e

/-- **restore**, all sites in evaluation order (`snapHasMe`: the node is in the snapshot's configuration;
`restoreChanger`: empty tracker with the node's inflight limits; `swCfg`: the state after `switchToConfig`) -/
theorem panic_restore_iff (s : Snapshot) (r : Raft) (e : String) :
    (restore s).run r = .error e ↔
      r.log.committed < s.index ∧
      ((r.state ≠ .follower ∧ r.draws = [] ∧ e = "HARNESS: no election-timeout draw supplied") ∨
       (r.state = .follower ∧ snapHasMe r s = true ∧
         ((r.log.matchTerm { term := s.term, index := s.index } = true ∧ r.log.commitTo s.index = .error e) ∨
          (r.log.matchTerm { term := s.term, index := s.index } = false ∧
            ((∃ e', restoreConf (restoreChanger r s) s.conf = .error e' ∧
                e = "unable to restore config: " ++ e') ∨
             (∃ cfg trk, restoreConf (restoreChanger r s) s.conf = .ok (cfg, trk) ∧
                s.conf.equivalent (swCfg (restoreBase r s) cfg trk).trk.confState = false ∧
                e = "ConfStates not equivalent")))))) :=
  restore_error_iff s r e

/-! ## Config.validate, newRaft -/

theorem panic_validate_iff (c : Config) (e : String) :
    c.validate = .error e ↔
      (e = "cannot use none as id" ∧ c.id = 0) ∨
      (e = "cannot use local target as id" ∧ c.id ≠ 0 ∧ isLocalMsgTarget c.id = true) ∨
      (e = "heartbeat tick must be greater than 0" ∧ c.id ≠ 0 ∧ isLocalMsgTarget c.id = false ∧
        c.heartbeatTick = 0) ∨
      (e = "election tick must be greater than heartbeat tick" ∧ c.id ≠ 0 ∧ isLocalMsgTarget c.id = false ∧
        c.heartbeatTick ≠ 0 ∧ c.electionTick ≤ c.heartbeatTick) ∨
      (e = "max inflight messages must be greater than 0" ∧ c.id ≠ 0 ∧ isLocalMsgTarget c.id = false ∧
        c.heartbeatTick ≠ 0 ∧ c.heartbeatTick < c.electionTick ∧ c.maxInflightMsgs = 0) ∨
      (e = "max inflight bytes must be >= max message size" ∧ c.id ≠ 0 ∧ isLocalMsgTarget c.id = false ∧
        c.heartbeatTick ≠ 0 ∧ c.heartbeatTick < c.electionTick ∧ c.maxInflightMsgs ≠ 0 ∧
        c.maxInflightBytes ≠ 0 ∧ c.maxInflightBytes < c.maxSizePerMsg) ∨
      (e = "CheckQuorum must be enabled when ReadOnlyOption is ReadOnlyLeaseBased" ∧ c.id ≠ 0 ∧
        isLocalMsgTarget c.id = false ∧ c.heartbeatTick ≠ 0 ∧ c.heartbeatTick < c.electionTick ∧
        c.maxInflightMsgs ≠ 0 ∧ (c.maxInflightBytes = 0 ∨ c.maxSizePerMsg ≤ c.maxInflightBytes) ∧
        c.readOnlyOption = 1 ∧ c.checkQuorum = false) :=
  validate_error_iff c e

/-- **newRaft**, all sites in evaluation order: `validate`; `lastEntryID` of the fresh log; `restoreConf` of the
stored ConfState ("newRaft: …"); the ConfState round trip ("ConfStates not equivalent"); then the tail
`nrTail` = load HardState / fast-forward `applied` / `becomeFollower`, characterised by `panic_newRaft_tail_iff` -/
theorem panic_newRaft_iff (c : Config) (storage : MemoryStorage) (draws : List Nat) (e : String) :
    newRaft c storage draws = .error e ↔
      c.validate = .error e ∨
      ∃ c', c.validate = .ok c' ∧
        ((RaftLog.new storage c'.maxCommittedSizePerReady).lastEntryID = .error e ∨
         ∃ id, (RaftLog.new storage c'.maxCommittedSizePerReady).lastEntryID = .ok id ∧
           ((∃ e', restoreConf { tracker := Tracker.make c'.maxInflightMsgs c'.maxInflightBytes,
                                 lastIndex := id.index } storage.snapshot.conf = .error e' ∧
                e = "newRaft: " ++ e') ∨
            ∃ cfg trk, restoreConf { tracker := Tracker.make c'.maxInflightMsgs c'.maxInflightBytes,
                                     lastIndex := id.index } storage.snapshot.conf = .ok (cfg, trk) ∧
              ((storage.snapshot.conf.equivalent
                    (swCfg (newRaftInit c' storage draws) cfg trk).trk.confState = false ∧
                  e = "ConfStates not equivalent") ∨
               (storage.snapshot.conf.equivalent
                    (swCfg (newRaftInit c' storage draws) cfg trk).trk.confState = true ∧
                  (nrTail c' storage.hardState).run (swCfg (newRaftInit c' storage draws) cfg trk) =
                    .error e)))) :=
  newRaft_error_iff c storage draws e

/-- the tail of `newRaft`: a stored non-empty HardState whose commit is outside `[committed, lastIndex]`;
`Config.Applied` outside `[applied, committed]` (committed as loaded); no election-timeout draw -/
theorem panic_newRaft_tail_iff (c : Config) (hs : Option HardState) (r : Raft) (e : String) :
    (nrTail c hs).run r = .error e ↔
      (e = "loadState: state.commit out of range" ∧
        ∃ h, hs = some h ∧ h.isEmpty = false ∧ (h.commit < r.log.committed ∨ r.log.lastIndex < h.commit)) ∨
      ∃ r2, nrLoad hs r = .ok r2 ∧
        ((e = "appliedTo: applied out of range" ∧ c.applied ≠ 0 ∧
            (r2.log.committed < c.applied ∨ c.applied < r2.log.applied)) ∨
         ((c.applied = 0 ∨ (c.applied ≤ r2.log.committed ∧ r2.log.applied ≤ c.applied)) ∧ r.draws = [] ∧
            e = "HARNESS: no election-timeout draw supplied")) := by
  rw [nrTail_error_iff, nrLoad_error_iff]
  constructor
  · rintro (h | ⟨r2, h2, (h3 | ⟨⟨r3, h3⟩, h4⟩)⟩)
    · exact Or.inl h
    · exact Or.inr ⟨r2, h2, Or.inl ((nrApplied_error_iff _ _ _).mp h3)⟩
    · refine Or.inr ⟨r2, h2, Or.inr ⟨?_, h4⟩⟩
      by_cases ha : c.applied = 0
      · exact Or.inl ha
      · right
        have : ¬ (r2.log.committed < c.applied ∨ c.applied < r2.log.applied) := by
          intro hx
          have := (nrApplied_error_iff c r2 _).mpr ⟨rfl, ha, hx⟩
          rw [h3] at this; cases this
        omega
  · rintro (h | ⟨r2, h2, (h3 | ⟨h3, h4⟩)⟩)
    · exact Or.inl h
    · exact Or.inr ⟨r2, h2, Or.inl ((nrApplied_error_iff _ _ _).mpr h3)⟩
    · refine Or.inr ⟨r2, h2, Or.inr ⟨?_, h4⟩⟩
      cases hx : nrApplied c r2 with
      | ok r3 => exact ⟨r3, rfl⟩
      | error e' =>
        exfalso
        obtain ⟨_, ha, hc⟩ := (nrApplied_error_iff _ _ _).mp hx
        rcases h3 with h3 | h3
        · exact ha h3
        · omega

/-! ## rawnode.go -/

theorem panic_runM_iff {α : Type} (rn : RawNode) (draws : List Nat) (act : M α) (e : String) :
    rn.runM draws act = .error e ↔
      act.run { rn.raft with draws := draws } = .error e ∨
      ∃ a r', act.run { rn.raft with draws := draws } = .ok (a, r') ∧ r'.draws ≠ [] ∧
        e = "HARNESS: unused election-timeout draws" :=
  runM_error_iff rn draws act e

/-- **acceptReady**, all sites in evaluation order: a second `Ready` accepted without `Advance` (synchronous
mode only); `lastEntryID` for the self-addressed MsgStorageAppendResp; `acceptApplying` of the last committed
entry handed out -/
theorem panic_acceptReady_iff (rn : RawNode) (rd : Ready) (e : String) :
    rn.acceptReady rd = .error e ↔
      (rn.async = false ∧
        ((e = "two accepted Ready structs without call to Advance" ∧ rn.stepsOnAdvance ≠ []) ∨
         (rn.stepsOnAdvance = [] ∧ rn.raft.log.hasNextOrInProgressUnstableEnts = true ∧
            rn.raft.log.lastEntryID = .error e))) ∨
      ((rn.async = true ∨
          (rn.stepsOnAdvance = [] ∧ (rn.raft.log.hasNextOrInProgressUnstableEnts = false ∨
            ∃ id, rn.raft.log.lastEntryID = .ok id))) ∧
        e = "acceptApplying: applying out of range" ∧
        ∃ last, rd.committedEntries.getLast? = some last ∧ rn.raft.log.committed < last.index) :=
  acceptReady_error_iff rn rd e

/-- **Advance**: panics at once in async mode; otherwise exactly when stepping the stored self-addressed
messages does (`advanceAct`, see `panic_runM_iff`) -/
theorem panic_advance_iff (rn : RawNode) (draws : List Nat) (e : String) :
    rn.advance draws = .error e ↔
      (rn.async = true ∧ e = "Advance must not be called when using AsyncStorageWrites") ∨
      (rn.async = false ∧ rn.runM draws (advanceAct rn) = .error e) :=
  advance_error_iff rn draws e

/-! ## composite: no query of the log layer panics under the invariant

`firstIndex`, `lastIndex`, `term`, `matchTerm`, `findConflict`, `findConflictByTerm`, `snapshot`,
`hasNextCommittedEnts`, `hasNextUnstableEnts`, `nextUnstableEnts`, `maxAppliableIndex`, `zeroTermOnOutOfBounds`
are total functions of the model (they cannot `throw`); what they return is characterised in `Props/C18.lean`.
The queries that can `throw` are listed in the statement. -/

theorem no_panic_log_layer {l : RaftLog} (h : l.WF) :
    (∃ id, l.lastEntryID = .ok id) ∧
    (∀ their, ∃ b, l.isUpToDate their = .ok b) ∧
    (∀ i m, ∃ r, l.entries i m = .ok r) ∧
    (∃ es, l.allEntries = .ok es) ∧
    (∀ lo hi, lo ≤ hi → hi ≤ l.lastIndex + 1 → ∃ r, l.mustCheckOutOfBounds lo hi = .ok r) ∧
    (∀ lo hi m, lo ≤ hi → hi ≤ l.lastIndex + 1 → ∃ r, l.slice lo hi m = .ok r) ∧
    (∀ au, ∃ es, l.nextCommittedEnts au = .ok es) ∧
    (∀ at_, ∃ r, l.maybeCommit at_ = .ok r) ∧
    (∀ p ps lo hi, l.firstIndex ≤ lo → hi ≤ l.lastIndex + 1 → ∃ b, l.scanAny p ps (hi - lo + 1) lo hi = .ok b) ∧
    (∀ lo hi m, l.storage.offset < lo → lo ≤ hi → hi ≤ l.storage.lastIndex + 1 →
      ∃ r, l.storage.entries lo hi m = .ok r) := by
  refine ⟨?_, ?_, ?_, allEntries_ok h, ?_, ?_, ?_, ?_, ?_, ?_⟩
  · obtain ⟨t, _, ht⟩ := RaftLog.lastEntryID_spec h; exact ⟨_, ht⟩
  · intro their; obtain ⟨t, _, ht⟩ := RaftLog.isUpToDate_spec h their; exact ⟨_, ht⟩
  · intro i m
    rw [RaftLog.entries_eq h]
    split
    · exact ⟨_, rfl⟩
    · split <;> exact ⟨_, rfl⟩
  · intro lo hi h1 h2
    cases hx : l.mustCheckOutOfBounds lo hi with
    | ok r => exact ⟨r, rfl⟩
    | error e =>
      exfalso
      rcases (mustCheckOutOfBounds_iff l lo hi).mp ⟨e, hx⟩ with h3 | ⟨_, h3⟩ <;> omega
  · intro lo hi m h1 h2
    cases hx : l.slice lo hi m with
    | ok r => exact ⟨r, rfl⟩
    | error e =>
      exfalso
      rcases (slice_error_iff h lo hi m e).mp hx with ⟨_, h3⟩ | ⟨_, _, _, h3⟩ <;> omega
  · intro au; exact ⟨_, RaftLog.nextCommittedEnts_eq h au⟩
  · intro at_
    rcases RaftLog.maybeCommit_spec h at_ with ⟨_, _, _, hr, _⟩ | ⟨_, hr⟩ <;> exact ⟨_, hr⟩
  · intro p ps lo hi h1 h2
    cases hx : l.scanAny p ps (hi - lo + 1) lo hi with
    | ok b => exact ⟨b, rfl⟩
    | error e =>
      exfalso
      rcases (scanAny_error_iff h p ps _ lo hi (by omega) e).mp hx with ⟨_, (⟨_, h3⟩ | ⟨_, _, h3⟩)⟩ <;> omega
  · intro lo hi m h1 h2 h3
    cases hx : l.storage.entries lo hi m with
    | ok r => exact ⟨r, rfl⟩
    | error e =>
      exfalso
      rcases (storage_entries_iff l.storage lo hi m).mp ⟨e, hx⟩ with ⟨_, (h4 | ⟨_, h4⟩)⟩ <;> omega

/-- `hasUnappliedConfChanges` (the only caller of `scanAny`) never panics on a well-formed log without a
pending snapshot — the situation in which `hup` calls it (`promotable` has checked the snapshot) -/
theorem no_panic_hasUnappliedConfChanges (r : Raft) (h : r.log.WF) (hsn : r.log.unstable.snapshot = none) :
    ∃ b, hasUnappliedConfChanges.run r = .ok (b, r) :=
  hasUnappliedConfChanges_no_panic r h hsn

/-! ## composite: functions whose panics are those of their callees -/

/-- **maybeSendAppend** on a well-formed log: every way it can panic.  Not among them: `raftLog.entries`
(`slice`, `unstable.slice`, `storage.Entries`) and `Progress.SentEntries` / `Inflights.Add` — the progress is
not paused, hence not in `StateSnapshot`, and entries are attached only when the inflight window is not full. -/
theorem panic_maybeSendAppend_iff (to : Id) (b : Bool) (r : Raft) (hwf : r.log.WF) (e : String) :
    (maybeSendAppend to b).run r = .error e ↔
      (e = "nil Progress dereference" ∧ r.trk.getProgress to = none) ∨
      ∃ pr, r.trk.getProgress to = some pr ∧ pr.isPaused = false ∧
        (match r.log.term (usub pr.next 1) with
         | .error _ => (maybeSendSnapshot to pr).run r = .error e
         | .ok _ =>
           if (pr.state != .replicate || !pr.inflights.full) = true then
             match r.log.entries pr.next r.cfg.maxMsgSize with
             | .ok (.ok es) =>
               ¬ (es = [] ∧ b = false) ∧ to = r.cfg.id ∧ e = "send: message should not be self-addressed"
             | .ok (.error _) => b = true ∧ (maybeSendSnapshot to pr).run r = .error e
             | .error _ => False
           else b = true ∧ to = r.cfg.id ∧ e = "send: message should not be self-addressed") :=
  maybeSendAppend_error_iff to b r hwf e

theorem panic_sendHeartbeat_iff (to : Id) (ctx : Option Bytes) (r : Raft) (e : String) :
    (sendHeartbeat to ctx).run r = .error e ↔
      (e = "nil Progress dereference" ∧ r.trk.getProgress to = none) ∨
      (e = "send: message should not be self-addressed" ∧ r.trk.getProgress to ≠ none ∧ to = r.cfg.id) :=
  sendHeartbeat_error_iff to ctx r e

/-- **handleHeartbeat**: "commit beyond log", or a heartbeat that claims to come from the node itself -/
theorem panic_handleHeartbeat_iff (m : Message) (r : Raft) (e : String) :
    (handleHeartbeat m).run r = .error e ↔
      (e = "commitTo: tocommit out of range" ∧ r.log.committed < m.commit ∧ r.log.lastIndex < m.commit) ∨
      (¬ (r.log.committed < m.commit ∧ r.log.lastIndex < m.commit) ∧
        e = "send: message should not be self-addressed" ∧ m.from = r.cfg.id) :=
  handleHeartbeat_error_iff m r e

/-- **handleAppendEntries** (no hypothesis): exactly the panics of `maybeAppend` -/
theorem panic_handleAppendEntries_iff (m : Message) (r : Raft) (e : String) :
    (handleAppendEntries m).run r = .error e ↔
      r.log.committed ≤ m.index ∧
      r.log.maybeAppend { term := m.logTerm, index := m.index } m.entries m.commit = .error e :=
  handleAppendEntries_error_iff m r e

/-- … on a well-formed log, for a MsgApp whose entries are contiguous after `(index, logTerm)`: only
"conflict below commit" -/
theorem panic_handleAppendEntries_wf_iff (m : Message) (r : Raft) (hwf : r.log.WF)
    (hc : Contig (m.index + 1) m.entries) (e : String) :
    (handleAppendEntries m).run r = .error e ↔
      e = "maybeAppend: conflict with committed entry" ∧ r.log.committed ≤ m.index ∧
      r.log.matchTerm { term := m.logTerm, index := m.index } = true ∧
      r.log.findConflict m.entries ≠ 0 ∧ r.log.findConflict m.entries ≤ r.log.committed :=
  handleAppendEntries_error_iff_wf m r hwf hc e

theorem panic_handleSnapshot_iff (m : Message) (r : Raft) (e : String) :
    (handleSnapshot m).run r = .error e ↔ (restore (m.snapshot.getD {})).run r = .error e :=
  handleSnapshot_error_iff m r e

/-- **campaign on a well-formed log** panics only through the role transition; the vote requests can never trip a
`send` assertion (their term is set and non-zero, the request to the node itself is a vote *response* queued in
`msgsAfterAppend`, the others are not self-addressed) and `lastEntryID` cannot fail -/
theorem panic_campaign_iff (t : CampaignType) (r : Raft) (hwf : r.log.WF) (e : String) :
    (campaign t).run r = .error e ↔
      (t = .preElection ∧ e = "invalid transition [leader -> pre-candidate]" ∧ r.state = .leader) ∨
      (t ≠ .preElection ∧
        ((e = "invalid transition [leader -> candidate]" ∧ r.state = .leader) ∨
         (e = "HARNESS: no election-timeout draw supplied" ∧ r.state ≠ .leader ∧ r.draws = []))) :=
  campaign_error_iff_wf t r hwf e

/-- **hup on a well-formed log** (MsgHup / `Campaign()` / election timeout / MsgTimeoutNow) never fires a raft
assertion: the only possible panic is the model's harness running out of election-timeout draws -/
theorem panic_hup_only_harness (t : CampaignType) (r : Raft) (hwf : r.log.WF) (e : String)
    (h : (hup t).run r = .error e) :
    e = "HARNESS: no election-timeout draw supplied" ∧ r.draws = [] ∧ t ≠ .preElection ∧
    r.state ≠ .leader ∧ promotableB r = true :=
  hup_error_wf t r hwf e h

/-- **broadcasting heartbeats never panics** (no hypothesis at all): every id iterated over is a key of the
progress map, so `getPr` finds it, and the node itself is skipped, so no heartbeat is self-addressed -/
theorem no_panic_bcastHeartbeat (ctx : Option Bytes) (r : Raft) :
    (∀ e, (bcastHeartbeatWithCtx ctx).run r ≠ .error e) ∧ (∀ e, bcastHeartbeat.run r ≠ .error e) :=
  ⟨bcastHeartbeatWithCtx_noErr ctx r, bcastHeartbeat_noErr r⟩

/-- `MsgBeat` stepped at a leader (the heartbeat tick) never panics -/
theorem no_panic_stepLeader_beat (fuel : Nat) (m : Message) (r : Raft) (hm : m.typ = .beat) :
    ∀ e, (stepLeader fuel m).run r ≠ .error e :=
  stepLeader_beat_noErr fuel m r hm

/-- **becomeLeader on a well-formed log**: wrong role, no election-timeout draw, or no progress record of itself;
the empty entry can always be appended -/
theorem panic_becomeLeader_wf_iff (r : Raft) (hwf : r.log.WF) (e : String) :
    becomeLeader.run r = .error e ↔
      (e = "invalid transition [follower -> leader]" ∧ r.state = .follower) ∨
      (e = "HARNESS: no election-timeout draw supplied" ∧ r.state ≠ .follower ∧ r.draws = []) ∨
      (e = "nil Progress dereference" ∧ r.state ≠ .follower ∧ r.draws ≠ [] ∧
        r.trk.getProgress r.cfg.id = none) :=
  becomeLeader_error_iff_wf r hwf e

/-- **the recursion bound of the model is not observable**: with any fuel `≥ 2` (the model uses
`stepFuel = 3`) `step` is one and the same function -/
theorem step_fuel_not_observable (a : Nat) : Raft.step (a + 2) = Raft.step 2 :=
  step_fuel_irrelevant a

example : Raft.step Raft.stepFuel = Raft.step 2 := step_fuel_not_observable 1

/-- **`Ready()` never panics** on a node whose log satisfies the invariant, provided the application follows
the contract: in synchronous mode `Advance` was called after the previous `Ready` (`stepsOnAdvance = []`).
(`readyWithoutAccept`: `nextCommittedEnts` and `lastEntryID` cannot fail; `acceptReady`: the committed entries
handed out lie within `committed`.) -/
theorem no_panic_ready (rn : RawNode) (hwf : rn.raft.log.WF) (hc : rn.async = true ∨ rn.stepsOnAdvance = []) :
    ∃ rd rn', rn.ready = .ok (rd, rn') :=
  ready_no_panic rn hwf hc

theorem no_panic_readyWithoutAccept (rn : RawNode) (hwf : rn.raft.log.WF) :
    ∃ rd, rn.readyWithoutAccept = .ok rd :=
  readyWithoutAccept_no_panic rn hwf

/-- without the contract it does: see `panic_acceptReady_iff` and the example below -/
theorem no_panic_acceptReady (rn : RawNode) (rd : Ready) (hwf : rn.raft.log.WF)
    (hc : rn.async = true ∨ rn.stepsOnAdvance = [])
    (hrd : ∀ en ∈ rd.committedEntries, en.index ≤ rn.raft.log.committed) :
    ∃ rn', rn.acceptReady rd = .ok rn' :=
  acceptReady_no_panic rn rd hwf hc hrd

/-! ## non-vacuity: the panics actually fire on concrete states

`exStorage`, `exLog` are the states of `Props/C18.lean`: storage compacted up to 3 holding 4,5,6; unstable
6,7,8 from offset 6; `applied = 3`, `applying = 4`, `committed = 7`. -/
section Examples
open RaftVerif.C18 (ent exStorage exLog)

example : exStorage.entries 4 9 100 = .error "storage.Entries: hi out of bound" := rfl
example : exStorage.entries 6 5 100 = .error "storage.Entries: slice bounds out of range" := rfl
example : exStorage.createSnapshot 9 none none = .error "storage.CreateSnapshot: out of bound" := rfl
example : exStorage.compact 9 = .error "storage.Compact: out of bound" := rfl
example : exStorage.append [ent 7 8] = .error "storage.Append: missing log entry" := rfl
example : exLog.unstable.slice 7 6 = .error "unstable.slice: invalid" := rfl
example : exLog.unstable.slice 5 7 = .error "unstable.slice: out of bound" := rfl
example : exLog.unstable.truncateAndAppend [] = .error "unstable.truncateAndAppend: empty" := rfl
example : exLog.unstable.truncateAndAppend [ent 3 10] = .error "unstable.slice: out of bound" := rfl
example : exLog.mustCheckOutOfBounds 5 4 = .error "slice: invalid lo > hi" := rfl
example : exLog.mustCheckOutOfBounds 5 10 = .error "slice: out of bound" := rfl
example : exLog.slice 5 10 100 = .error "slice: out of bound" := rfl
example : exLog.commitTo 9 = .error "commitTo: tocommit out of range" := rfl
example : exLog.append [ent 9 7] = .error "append: after out of range (committed)" := rfl
example : exLog.append [ent 9 10] = .error "unstable.slice: out of bound" := rfl
example : exLog.maybeAppend ⟨2, 5⟩ [ent 2 6, ent 9 7] 8 = .error "maybeAppend: conflict with committed entry" := rfl
example : exLog.appliedTo 8 0 = .error "appliedTo: applied out of range" := rfl
example : exLog.appliedTo 2 0 = .error "appliedTo: applied out of range" := rfl
example : exLog.acceptApplying 8 0 true = .error "acceptApplying: applying out of range" := rfl
/-- a log that violates only the budget clause of the invariant -/
example : ({ exLog with applyingEntsSize := 1000 } : RaftLog).nextCommittedEnts true =
    .error "nextCommittedEnts: applying entry size not positive" := rfl
/-- a log whose last index has no term (storage lost its entries): `lastEntryID` panics -/
example : ({ unstable := { offset := 5 }, storage := { ents := [ent 0 0] } } : RaftLog).lastEntryID = .ok ⟨0, 0⟩ ∧
    ({ unstable := { offset := 5, snapshot := none }, storage := { ents := [] } } : RaftLog).lastIndex = 0 :=
  ⟨rfl, rfl⟩
/-- scanning from the compacted part -/
example : exLog.scanAny (fun _ => false) 100 10 2 6 = .error "scan: error scanning unapplied entries" := by
  rw [scanAny_error_iff (by decide) _ _ _ _ _ (by decide)]
  exact ⟨by decide, Or.inl ⟨rfl, by decide⟩⟩

example : ({ size := 1, q := [(5, 8)] } : Inflights).add 6 1 =
    .error "inflights.Add: cannot add into a Full inflights" := rfl
example : ({ state := .snapshot } : Progress).sentEntries 1 1 =
    .error "progress.SentEntries: sending append in unhandled state" := rfl
example : ({ state := .replicate, next := 6, inflights := { size := 1, q := [(5, 8)] } } : Progress).sentEntries 1 1 =
    .error "inflights.Add: cannot add into a Full inflights" := rfl
example : ({} : ReadOnly).recvAck 2 (some [1, 2, 3]) = .error "readOnly.recvAck: context shorter than 8 bytes" := rfl
example : ({} : ReadOnly).maybeAdvance [] [] =
    .error "readOnly.maybeAdvance: slice bounds out of range (empty config)" := rfl
/-- an ack for a position that was never handed out (violates `ReadOnly.Inv`) -/
example : ({ acks := [(1, 5)] } : ReadOnly).maybeAdvance [1] [] =
    .error "readOnly.maybeAdvance: slice bounds out of range" := rfl

example : (send { typ := .vote, to := 2 }).run {} = .error "send: term should be set" := rfl
example : (send { typ := .app, to := 2, term := 3 }).run {} = .error "send: term should not be set" := rfl
example : (send { typ := .app, to := 1 }).run { cfg := { id := 1 } } =
    .error "send: message should not be self-addressed" := rfl
example : ∃ r', (send { typ := .appResp, to := 1 }).run { cfg := { id := 1 } } = .ok ((), r') :=
  (send_no_panic_iff _ _).mpr ⟨by decide, by decide⟩
example : (getPr 7).run {} = .error "nil Progress dereference" := rfl
example : (maybeSendSnapshot 2 { recentActive := true }).run {} = .error "need non-empty snapshot" := rfl
example : becomeCandidate.run { state := .leader } = .error "invalid transition [leader -> candidate]" := rfl
example : becomePreCandidate.run { state := .leader } = .error "invalid transition [leader -> pre-candidate]" := rfl
example : becomeLeader.run {} = .error "invalid transition [follower -> leader]" := rfl
example : becomeLeader.run { state := .candidate, draws := [0] } = .error "nil Progress dereference" :=
  becomeLeader_nopr _ (by decide) 0 [] rfl rfl
example : becomeCandidate.run {} = .error "HARNESS: no election-timeout draw supplied" := rfl
example : (loadState { commit := 5 }).run {} = .error "loadState: state.commit out of range" := rfl
example : (responseToReadIndexReq {} 3).run {} =
    .error "responseToReadIndexReq: index out of range (no entries)" := rfl
example : (decodeCC { typ := some .confChangeV2, data := some [255] }).run {} =
    .error "proto.Unmarshal ConfChangeV2 failed" := rfl
example : (handleHeartbeat { commit := 5, «from» := 2 }).run {} = .error "commitTo: tocommit out of range" := rfl
example : (handleHeartbeat { «from» := 1 }).run { cfg := { id := 1 } } =
    .error "send: message should not be self-addressed" := rfl
example : (stepLeader 1 { typ := .prop }).run {} = .error "stepped empty MsgProp" :=
  panic_stepLeader_emptyProp 1 _ _ rfl rfl

/-- **removing the last voter**: a single-voter leader applies `RemoveNode(self)`; the `Changer` rejects it
("removed all voters") and `applyConfChange` panics -/
example : (applyConfChange { changes := [{ typ := .removeNode, nodeId := 1 }] }).run
      { cfg := { id := 1 }, state := .leader, trk := { cfg := { voters := [1] }, progress := [(1, {})] } } =
    .error "applyConfChange: removed all voters" :=
  panic_applyConfChange_of_rejected _ _ "removed all voters" rfl

example : ({} : Config).validate = .error "cannot use none as id" := rfl
example : ({ id := 1, electionTick := 10, heartbeatTick := 1, maxInflightMsgs := 256, readOnlyOption := 1 } : Config).validate =
    .error "CheckQuorum must be enabled when ReadOnlyOption is ReadOnlyLeaseBased" := rfl

example : ({ stepsOnAdvance := [{}] } : RawNode).acceptReady {} =
    .error "two accepted Ready structs without call to Advance" := rfl
example : ({ async := true } : RawNode).advance [] =
    .error "Advance must not be called when using AsyncStorageWrites" := rfl
/-- a `Ready` whose committed entries end beyond `committed` -/
example : ({ async := true } : RawNode).acceptReady { committedEntries := [ent 1 1] } =
    .error "acceptApplying: applying out of range" := rfl

end Examples

end RaftVerif.C14
