import RaftVerif.Props.ReconfNecessity
/-!
# Necessity (b): `MsgApp` must carry the leader's commit index

The same executable model, except that an append message may carry *any* commit index not above the
leader's (`ActionB.sendAppLow`).  Then a follower can hold two configuration entries without knowing
that the lower one is committed (`CfgCommittedBeforeNext` fails): node 2 holds `add 4` and `add 5`
with commit index 1, passes the `hup` check (no configuration entry in `(applied, commit]`), wins
term 2 with `{2,3}` of the initial `{1,2,3}` although `{1,4,5}` of `{1,2,3,4,5}` committed an entry
at index 4, and commits a different entry there.  In the real model the trace is refused at the
`handleApp` with the stale commit index: no such message exists.
-/
namespace RaftVerif.SpecR

/-- actions of the weakened model: the standard ones plus an append carrying commit index `cm` -/
inductive ActionB where
  | std (a : Action)
  | sendAppLow (n prev cnt cm : Nat)

def enabledB (c0 : Conf) (s : State) : ActionB → Prop
  | .std a => enabled c0 s a
  | .sendAppLow n prev cnt cm =>
      (s.nodes n).role = .leader ∧ prev + cnt ≤ (s.nodes n).vol.log.length ∧ cm ≤ (s.nodes n).vol.commit

instance (c0 : Conf) (s : State) (a : ActionB) : Decidable (enabledB c0 s a) := by
  cases a <;> simp only [enabledB] <;> infer_instance

def applyB (s : State) : ActionB → State
  | .std a => apply s a
  | .sendAppLow n prev cnt cm =>
      let nd := s.nodes n
      { s with msgs := Msg.app nd.vol.term prev ((nd.vol.log.termAt prev).getD 0)
                         ((nd.vol.log.drop prev).take cnt) cm :: s.msgs }

/-- the real `sendApp` is the instance of `sendAppLow` that carries the leader's own commit index;
nothing else differs from the real model -/
theorem sendAppLow_commit (c0 : Conf) (s : State) (n prev cnt : Nat) :
    (enabledB c0 s (.sendAppLow n prev cnt (s.nodes n).vol.commit) ↔ enabled c0 s (.sendApp n prev cnt)) ∧
    applyB s (.sendAppLow n prev cnt (s.nodes n).vol.commit) = apply s (.sendApp n prev cnt) := by
  simp [enabledB, enabled, applyB, apply]

def runB (c0 : Conf) : State → List ActionB → Option State
  | s, [] => some s
  | s, a :: as => if enabledB c0 s a then runB c0 (applyB s a) as else none

def stdB (as : List Action) : List ActionB := as.map .std

/-- `add 5` reaches node 2 with the stale commit index 1 (the leader's is 2) -/
def nB' : List ActionB :=
  stdB ([.leaderAppendCfg 1 0 ([1, 2, 3, 4, 5], [])] ++ sync 1) ++
  [.sendAppLow 1 2 1 1] ++
  stdB ([.handleApp 2 1 2 1 [f3] 1] ++ sync 2 ++ [.sendAck 2 1 3,
   .updateTerm 4 1, .sendApp 1 0 3, .handleApp 4 1 0 0 [e1, f2, f3] 2] ++ sync 4 ++ [.sendAck 4 1 3,
   .leaderCommit 1 3 [1, 2, 4], .applyTo 1 3])

/-- node 2 (term 2, commit index 1) commits `y4` at index 4 with `{2,3}` -/
def nE' : List Action :=
  [.leaderAppend 2 9] ++ sync 2 ++ [.sendApp 2 0 4, .handleApp 3 2 0 0 [e1, f2, f3, y4] 1] ++ sync 3 ++
  [.sendAck 3 2 4, .leaderCommit 2 4 [2, 3]]

def lowCommitTrace : List ActionB := stdB (tr1 ++ nA) ++ nB' ++ stdB (nC ++ nD ++ nE')

set_option maxRecDepth 100000

/-- the whole trace is enabled in the weakened model; index 4 is committed with two entries -/
example : (runB c3 State.init lowCommitTrace).map
    (fun s => (s.committed.filter (fun r => r.1 == 4)).map (fun r => (r.2.1.term, r.2.1.val))) =
    some [(2, 9), (1, 7)] := by decide

/-- two leaders were elected by disjoint quorums of configurations two steps apart, and node 2
holds two configuration entries (indexes 2 and 3) above its commit index 1 -/
example : (runB c3 State.init lowCommitTrace).map (fun s => (s.elected, s.eapp 2, s.ecommit 2)) =
    some ([(2, 2), (1, 1)], 0, 1) := by decide

/-- a state that recorded `x4` and `y4` as committed at index 4 violates state-machine safety -/
theorem not_sms_of_x4_y4 {s : State} (h1 : (4, x4, 1) ∈ s.committed) (h2 : (4, y4, 2) ∈ s.committed) :
    ¬ StateMachineSafety s := fun h => absurd (h 4 x4 y4 1 2 h1 h2) (by decide)

/-- the final state of the weakened run violates `StateMachineSafety` -/
theorem lowCommit_violates : ∃ s, runB c3 State.init lowCommitTrace = some s ∧ ¬ StateMachineSafety s := by
  have h : (runB c3 State.init lowCommitTrace).map
      (fun s => decide ((4, x4, 1) ∈ s.committed ∧ (4, y4, 2) ∈ s.committed)) = some true := by decide
  cases hr : runB c3 State.init lowCommitTrace with
  | none => rw [hr] at h; simp at h
  | some s =>
    rw [hr] at h
    simp only [Option.map_some, Option.some.injEq, decide_eq_true_eq] at h
    exact ⟨s, rfl, not_sms_of_x4_y4 h.1 h.2⟩

/-- in the real model the append that delivers `add 5` carries the leader's commit index 2 … -/
def nBpre : List Action := [.leaderAppendCfg 1 0 ([1, 2, 3, 4, 5], [])] ++ sync 1 ++ [.sendApp 1 2 1]

example : (run c3 State.init (tr1 ++ nA ++ nBpre ++ [.handleApp 2 1 2 1 [f3] 2])).isSome = true := by decide

/-- … and the delivery with the stale commit index is refused: there is no such message -/
example : (run c3 State.init (tr1 ++ nA ++ nBpre ++ [.handleApp 2 1 2 1 [f3] 1])).isSome = false := by decide

end RaftVerif.SpecR
