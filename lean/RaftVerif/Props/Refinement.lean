import RaftVerif.Proofs.RefineVote
import RaftVerif.Proofs.RefineApp
import RaftVerif.Proofs.RefineCampaign
import RaftVerif.Proofs.RefineInit
import RaftVerif.Proofs.RefineSend
import RaftVerif.Proofs.RefineLeader2
import RaftVerif.Props.LocalStep
/-!
# Props/Refinement — local refinement `Model.Raft.step ⊑ Spec`

Property theorems only.  Machinery: `Proofs/RefineAbs.lean` (abstraction, dictionary raftLog ↔ ghost
log), `Proofs/RefineStep.lean` (factoring of `Step`), `Proofs/RefineVote|RefineApp|RefineCampaign|
RefineLeader.lean`.

## Shape of every theorem

`val : Val` (the payload encoding `(Entry.Type, Entry.Data) ↦ Nat`) is a parameter; nothing is assumed
about it.  `Abs val r nd` says that the Spec node `nd` describes the model state `r`:
`nd.vol.term/vote/commit/log = r.term / r.vote / r.log.committed / absLog val r` and
`nd.role = absRole r.state` (`preCandidate ↦ follower`).  `nd.vol.acks`, `nd.vol.votes` (promises),
`nd.dur`, `nd.pending` are ghost / environment state.

For a protocol step of one node `n` — the model's `Raft.step` succeeds (`.run r = .ok (e, r')`, i.e. no Go
panic) on a state whose log satisfies `RaftLog.WF` and `Uncompacted`, with a message `m` of the stated
shape — each theorem gives, for **every** Spec state `s` with `Abs val r (s.nodes n)`:

1. the **local conjuncts** of the guard of the corresponding Spec action `a`, in the form
   `(environment conjuncts) → Spec.enabled cfg s a` — the hypotheses of that implication are *exactly* the
   conjuncts that are not the model's obligation (soup membership, durability, well-formed node ids);
2. the **effect**: `Abs val r' ((Spec.apply s a).nodes n)`;
3. what is **queued**: the promise (MsgVoteResp / MsgAppResp) is appended to `msgsAfterAppend`, never to
   `msgs`, and carries the `(term, index)` / `(term, candidate)` that the Spec records in `vol.acks` /
   `vol.votes`.

(`Spec.apply s a` changes no other node: `Spec.setNode`.)
-/
namespace RaftVerif.Refinement
open Raft Refine

/-! ## (a) `updateTerm` -/

/-- **(a) `updateTerm_refines`.**  A message with `m.term > r.term` of a kind for which `Step` calls
`becomeFollower(m.Term, …)` — `RaisesTerm r m`: every type except MsgPreVote, a granted MsgPreVoteResp, and
a MsgVote that arrives inside a leader's lease without the transfer context — is handled in two stages:

* `becomeFollower(m.term, lead)` (with `lead = m.from` for MsgApp / MsgHeartbeat / MsgSnap, else none),
  reaching a state `r1` which is the Spec's `updateTerm n m.term` (guard `vol.term < m.term` — entirely
  local — holds; effect: `term := m.term`, `vote := 0`, role follower, log and commit unchanged; the
  queues are untouched);
* then `Step` of the **same message on `r1`**, whose term now equals `m.term`: theorems (b)–(e) apply to
  `r1` (`r1.log = r.log`, so `RaftLog.WF` / `Uncompacted` carry over). -/
theorem updateTerm_refines (val : Val) (cfg : Spec.Cfg) (fuel : Nat) (m : Message) (r r' : Raft)
    (e : Option StepErr) (s : Spec.State) (n : Nat) (ha : Abs val r (s.nodes n)) (hk : RaisesTerm r m)
    (h : (Raft.step (fuel + 1) m).run r = .ok (e, r')) :
    ∃ r1, (Raft.becomeFollower m.term (leadOf m)).run r = .ok ((), r1) ∧
      Spec.enabled cfg s (.updateTerm n m.term) ∧
      Abs val r1 ((Spec.apply s (.updateTerm n m.term)).nodes n) ∧
      absVer val r1 = { absVer val r with term := m.term, vote := 0 } ∧
      r1.state = .follower ∧ r1.lead = leadOf m ∧ r1.log = r.log ∧ r1.cfg = r.cfg ∧
      r1.msgs = r.msgs ∧ r1.msgsAfterAppend = r.msgsAfterAppend ∧
      m.term = r1.term ∧ (Raft.step (fuel + 1) m).run r1 = .ok (e, r') := by
  obtain ⟨r1, h1, hf, h2⟩ := step_higher_term_runs fuel m r r' e hk h
  refine ⟨r1, h1, ?_, ?_, ?_, hf.state, hf.lead, hf.log, hf.cfg, hf.msgs, hf.maa, hf.term.symm, h2⟩
  · show (s.nodes n).vol.term < m.term
    rw [ha.term]; exact hk.gt
  · have : (Spec.apply s (.updateTerm n m.term)).nodes n =
        { (s.nodes n) with vol := { (s.nodes n).vol with term := m.term, vote := 0 }, role := .follower } := by
      simp [Spec.apply, Spec.setNode]
    rw [this]
    exact ⟨hf.term.symm, hf.vote.symm, by rw [hf.log]; exact ha.commit,
      by rw [absLog, hf.log]; exact ha.log, by rw [hf.state]; rfl⟩
  · simp only [absVer, absLog, hf.term, hf.vote, hf.log]

/-- the case distinction on a message of a higher term is exhaustive: it raises the term
(`updateTerm_refines`) or it is one of the three kinds handled by `preVote_stutters`,
`granted_preVoteResp_dispatched`, `inLease_vote_ignored` -/
theorem higher_term_cases (m : Message) (r : Raft) (hgt : m.term > r.term) :
    RaisesTerm r m ∨ m.typ = .preVote ∨ (m.typ = .preVoteResp ∧ m.reject = false) ∨
    (m.typ = .vote ∧ m.context ≠ some campaignTransferCtx ∧ inLease r = true) := by
  by_cases h1 : m.typ = .preVote
  · exact Or.inr (Or.inl h1)
  · by_cases h2 : m.typ = .preVoteResp ∧ m.reject = false
    · exact Or.inr (Or.inr (Or.inl h2))
    · by_cases h3 : m.typ = .vote ∧ m.context ≠ some campaignTransferCtx ∧ inLease r = true
      · exact Or.inr (Or.inr (Or.inr h3))
      · refine Or.inl ⟨hgt, h1, h2, fun hv => ?_⟩
        by_cases hc : m.context = some campaignTransferCtx
        · exact Or.inl hc
        · right
          cases hl : inLease r with
          | false => rfl
          | true => exact absurd ⟨hv, hc, hl⟩ h3

/-- the enumeration in `RaisesTerm` is exact, part 1: a MsgPreVote — any term — is answered without any
change of term, vote, role, leader or log (no Spec action: `Abs` is kept) -/
theorem preVote_stutters (val : Val) (fuel : Nat) (m : Message) (r r' : Raft) (e : Option StepErr)
    (nd : Spec.Node) (ha : Abs val r nd) (ht : m.typ = .preVote)
    (h : (Raft.step fuel m).run r = .ok (e, r')) : Abs val r' nd := by
  obtain ⟨h1, h2, _, h4, h5⟩ := LocalStep.prevote_leaves_term_vote fuel m r r' e ht h
  exact ha.congr h1 h2 h5 (by rw [h4])

/-- part 2: a MsgVote / MsgPreVote of a higher term that arrives within the lease of a known leader
(CheckQuorum) and is not forced by a leadership transfer is dropped: nothing changes at all -/
theorem inLease_vote_ignored (fuel : Nat) (m : Message) (r : Raft) (ht : m.typ = .vote ∨ m.typ = .preVote)
    (hgt : m.term > r.term) (hl : inLease r = true) (hc : m.context ≠ some campaignTransferCtx) :
    (Raft.step (fuel + 1) m).run r = .ok (none, r) := by
  unfold inLease at hl
  simp only [Bool.and_eq_true, bne_iff_ne, ne_eq, decide_eq_true_eq] at hl
  exact LocalStep.in_lease_request_ignored fuel m r hl.1.1 hl.1.2 hl.2 ht hgt hc

/-- part 3: a granted MsgPreVoteResp of a higher term does not make the node a follower of that term: it
is handed to the role's step function as it is (a pre-candidate counts it; the term rises only when the
pre-election is won, through `campaign`) -/
theorem granted_preVoteResp_dispatched (fuel : Nat) (m : Message) (r : Raft) (ht : m.typ = .preVoteResp)
    (hrej : m.reject = false) (hgt : m.term > r.term) :
    (Raft.step (fuel + 1) m).run r = (dispatch fuel m r).run r :=
  step_granted_preVoteResp_dispatch fuel m r ht hrej hgt

/-! ## (b) `grant` -/

/-- **(b) MsgVote at the node's own term, all cases.**  `Step` returns no error and either
* **grants**: `canVote` (`r.vote = m.from ∨ (r.vote = 0 ∧ r.lead = 0)`) and the Spec's `upToDate` hold,
  `r'` is `r` with `vote := m.from`, the election timer reset and the non-rejecting MsgVoteResp appended to
  `msgsAfterAppend`; this is Spec `grant n m.from m.logTerm m.index`;
* or **rejects**: the condition fails, `r'` is `r` with a rejecting MsgVoteResp appended to
  `msgsAfterAppend`; no Spec action (`reject_keeps`). -/
theorem vote_cases (val : Val) (fuel : Nat) (m : Message) (r r' : Raft) (e : Option StepErr)
    (ht : m.typ = .vote) (hterm : m.term = r.term) (hwf : r.log.WF) (hu : Uncompacted r.log)
    (h : (Raft.step (fuel + 1) m).run r = .ok (e, r')) :
    e = none ∧
    ((canVote r m ∧ Spec.upToDate m.logTerm m.index (absLog val r) = true ∧ r' = granted r m) ∨
     (¬ (canVote r m ∧ Spec.upToDate m.logTerm m.index (absLog val r) = true) ∧ r' = rejected r m)) :=
  step_vote_refine val fuel m r r' e ht hterm hwf hu h

/-- **(b) `grant_refines`.**  A MsgVote of the node's own term at a non-leader after which the recorded
vote is the requester and was not before.  Conjuncts of Spec `grant`'s guard proved: `vote = 0 ∨ vote = c`,
`upToDate lt li log`, `role ≠ leader`; left to the environment: `c ≠ 0` and
`reqVote term c lt li ∈ msgs`. -/
theorem grant_refines (val : Val) (cfg : Spec.Cfg) (fuel : Nat) (m : Message) (r r' : Raft)
    (e : Option StepErr) (s : Spec.State) (n : Nat) (ha : Abs val r (s.nodes n))
    (ht : m.typ = .vote) (hterm : m.term = r.term) (hs : r.state ≠ .leader)
    (hwf : r.log.WF) (hu : Uncompacted r.log)
    (h : (Raft.step (fuel + 1) m).run r = .ok (e, r')) (hv : r'.vote = m.from) (hne : r.vote ≠ m.from) :
    -- local guard conjuncts
    (r.vote = 0 ∨ r.vote = m.from) ∧ Spec.upToDate m.logTerm m.index (absLog val r) = true ∧
    absRole r.state ≠ .leader ∧
    (m.from ≠ 0 → Spec.Msg.reqVote m.term m.from m.logTerm m.index ∈ s.msgs →
      Spec.enabled cfg s (.grant n m.from m.logTerm m.index)) ∧
    -- effect
    Abs val r' ((Spec.apply s (.grant n m.from m.logTerm m.index)).nodes n) ∧
    absVer val r' = { absVer val r with vote := m.from } ∧ absRole r'.state = absRole r.state ∧
    -- the promise: queued behind the HardState write, and it is the Spec's vote promise
    r'.msgsAfterAppend = r.msgsAfterAppend ++
      [{ typ := .voteResp, to := m.from, «from» := r.cfg.id, term := r.term, reject := false }] ∧
    r'.msgs = r.msgs ∧
    ((Spec.apply s (.grant n m.from m.logTerm m.index)).nodes n).vol.votes =
      (r.term, m.from) :: (s.nodes n).vol.votes := by
  obtain ⟨_, ⟨hcv, hup, rfl⟩ | ⟨_, rfl⟩⟩ := step_vote_refine val fuel m r r' e ht hterm hwf hu h
  · refine ⟨?_, hup, absRole_ne_leader hs, fun hf hsoup => grant_enabled val cfg ha hterm hs hcv hup hf hsoup,
      granted_abs val ha, rfl, rfl, rfl, rfl, ?_⟩
    · rcases hcv with h1 | h1
      · exact Or.inr h1
      · exact Or.inl h1.1
    · rw [grant_nodes, ha.term]
  · exact absurd hv hne

/-- **(b) `reject_keeps`.**  A rejected vote request changes nothing in the abstract state — in fact
nothing at all but `msgsAfterAppend`, which receives the rejection -/
theorem reject_keeps (val : Val) (fuel : Nat) (m : Message) (r r' : Raft) (e : Option StepErr)
    (nd : Spec.Node) (ha : Abs val r nd) (ht : m.typ = .vote) (hterm : m.term = r.term)
    (hwf : r.log.WF) (hu : Uncompacted r.log)
    (h : (Raft.step (fuel + 1) m).run r = .ok (e, r'))
    (hrej : ¬ (canVote r m ∧ Spec.upToDate m.logTerm m.index (absLog val r) = true)) :
    Abs val r' nd ∧ absVer val r' = absVer val r ∧
    r' = { r with msgsAfterAppend := r.msgsAfterAppend ++
      [{ typ := .voteResp, to := m.from, «from» := r.cfg.id, term := r.term, reject := true }] } := by
  obtain ⟨_, ⟨hcv, hup, _⟩ | ⟨_, rfl⟩⟩ := step_vote_refine val fuel m r r' e ht hterm hwf hu h
  · exact absurd ⟨hcv, hup⟩ hrej
  · exact ⟨rejected_abs val ha, rfl, rfl⟩

/-- the Spec's `role ≠ leader` conjunct does not need the hypothesis `r.state ≠ .leader` for a node that
satisfies the leader invariant (`lead = id ≠ 0`, `vote = id`) and a request from another node: the
model's `canVote` then already excludes a leader (the vote path of `Step` itself has no role check) -/
theorem grant_not_leader {r : Raft} {m : Message} (hcv : canVote r m)
    (hinv : r.state = .leader → r.lead = r.cfg.id ∧ r.vote = r.cfg.id ∧ r.cfg.id ≠ 0)
    (hne : m.from ≠ r.cfg.id) : r.state ≠ .leader := canVote_not_leader hcv hinv hne

/-! ## (c) `handleApp` / `ackCommit` -/

/-- **(c) `handleApp_refines`.**  A MsgApp of the node's own term at a non-leader with contiguous entries.
In every case `Step` returns no error, the node is afterwards a follower of `m.from` with the same term
and vote, `msgs` is untouched and exactly one MsgAppResp is appended to `msgsAfterAppend`.  Three cases,
exactly as `handleAppendEntries` has them:

* (i) `m.index < committed` (`AppStale`): log and commit unchanged, the response acknowledges `committed` —
  Spec `ackCommit n term` (left to the environment: `hasAppOrSnap msgs term`);
* (ii) `(m.index, m.logTerm)` matches (`AppAccept`): `appendResult (absLog r) m.index m.logTerm ents =
  some (absLog r')`, `keepsCommitted … = true`, `commit' = max commit (min m.commit (m.index + |ents|))`,
  the response acknowledges `m.index + |ents|` — Spec `handleApp`, whose new ack promise
  `(term, m.index + |ents|)` is `(term, index)` of that response;
* (iii) no match (`AppReject`): `appendResult … = none`, log and commit unchanged, a rejecting response with
  the hint — Spec `handleApp` (effect: role follower only).

For (ii)/(iii) the conjunct left to the environment is `app term prev prevTerm ents commit ∈ msgs`.
The new log is again `RaftLog.WF` and `Uncompacted`. -/
theorem handleApp_refines (val : Val) (cfg : Spec.Cfg) (fuel : Nat) (m : Message) (r r' : Raft)
    (e : Option StepErr) (s : Spec.State) (n : Nat) (ha : Abs val r (s.nodes n))
    (ht : m.typ = .app) (hterm : m.term = r.term) (hs : r.state ≠ .leader)
    (hwf : r.log.WF) (hu : Uncompacted r.log) (hc : Contig (m.index + 1) m.entries)
    (h : (Raft.step (fuel + 1) m).run r = .ok (e, r')) :
    let ents := m.entries.map (absEnt val)
    e = none ∧ r'.term = r.term ∧ r'.vote = r.vote ∧ r'.state = .follower ∧ r'.lead = m.from ∧
    r'.cfg = r.cfg ∧ r'.msgs = r.msgs ∧
    (-- (i)
     (m.index < r.log.committed ∧ absVer val r' = absVer val r ∧
      r'.msgsAfterAppend = r.msgsAfterAppend ++
        [{ typ := .appResp, to := m.from, «from» := r.cfg.id, term := r.term, index := r.log.committed }] ∧
      (Spec.hasAppOrSnap s.msgs r.term = true → Spec.enabled cfg s (.ackCommit n r.term)) ∧
      Abs val r' ((Spec.apply s (.ackCommit n r.term)).nodes n) ∧
      ((Spec.apply s (.ackCommit n r.term)).nodes n).vol.acks = (r.term, r.log.committed) :: (s.nodes n).vol.acks) ∨
     -- (iii)
     (r.log.committed ≤ m.index ∧ (absLog val r).termAt m.index ≠ some m.logTerm ∧
      Spec.appendResult (absLog val r) m.index m.logTerm ents = none ∧ absVer val r' = absVer val r ∧
      (∃ hint hterm', r'.msgsAfterAppend = r.msgsAfterAppend ++
        [{ typ := .appResp, to := m.from, «from» := r.cfg.id, term := r.term, index := m.index, reject := true,
           rejectHint := hint, logTerm := hterm' }]) ∧
      (Spec.Msg.app r.term m.index m.logTerm ents m.commit ∈ s.msgs →
        Spec.enabled cfg s (.handleApp n r.term m.index m.logTerm ents m.commit)) ∧
      Abs val r' ((Spec.apply s (.handleApp n r.term m.index m.logTerm ents m.commit)).nodes n)) ∨
     -- (ii)
     (r.log.committed ≤ m.index ∧ (absLog val r).termAt m.index = some m.logTerm ∧
      Spec.appendResult (absLog val r) m.index m.logTerm ents = some (absLog val r') ∧
      Spec.keepsCommitted (absLog val r) m.index m.logTerm ents r.log.committed = true ∧
      r'.log.committed = max r.log.committed (min m.commit (m.index + m.entries.length)) ∧
      r'.log.WF ∧ Uncompacted r'.log ∧
      r'.msgsAfterAppend = r.msgsAfterAppend ++
        [{ typ := .appResp, to := m.from, «from» := r.cfg.id, term := r.term,
           index := m.index + m.entries.length }] ∧
      (Spec.Msg.app r.term m.index m.logTerm ents m.commit ∈ s.msgs →
        Spec.enabled cfg s (.handleApp n r.term m.index m.logTerm ents m.commit)) ∧
      Abs val r' ((Spec.apply s (.handleApp n r.term m.index m.logTerm ents m.commit)).nodes n) ∧
      ((Spec.apply s (.handleApp n r.term m.index m.logTerm ents m.commit)).nodes n).vol.acks =
        (r.term, m.index + m.entries.length) :: (s.nodes n).vol.acks)) := by
  intro ents
  obtain ⟨he, hf, hmsgs, hcase⟩ := step_app_refine val fuel m r r' e ht hterm hs hwf hu hc h
  refine ⟨he, hf.term, hf.vote, hf.state, hf.lead, hf.cfg, hmsgs, ?_⟩
  rcases hcase with h1 | h1 | h1
  · refine Or.inl ⟨h1.1, ?_, h1.2.2, ackCommit_enabled val cfg ha hs, appStale_abs val ha hf h1, ?_⟩
    · simp only [absVer, absLog, hf.term, hf.vote, h1.2.1]
    · rw [ackCommit_nodes]
      show (r.term, (s.nodes n).vol.commit) :: (s.nodes n).vol.acks = _
      rw [ha.commit]
  · refine Or.inr (Or.inl ⟨h1.1, h1.2.1, h1.2.2.2.1, ?_, ⟨_, _, h1.2.2.2.2⟩,
      handleApp_enabled val cfg ha hs (Or.inl h1), appReject_abs val ha hf h1⟩)
    simp only [absVer, absLog, hf.term, hf.vote, h1.2.2.1]
  · obtain ⟨a1, a2, a3, a4, a5, a6, a7, a8⟩ := h1
    refine Or.inr (Or.inr ⟨a1, a2, a3, a4, a5, a6, a7, a8,
      handleApp_enabled val cfg ha hs (Or.inr ⟨a1, a2, a3, a4, a5, a6, a7, a8⟩),
      appAccept_abs val ha hf ⟨a1, a2, a3, a4, a5, a6, a7, a8⟩, ?_⟩)
    exact appAccept_ack val ha ⟨a1, a2, a3, a4, a5, a6, a7, a8⟩

/-! ## (d) `handleHb` -/

/-- **(d) `handleHb_refines`.**  A MsgHeartbeat of the node's own term at a non-leader.  The run succeeds
only if `m.commit ≤ lastIndex` — otherwise (`committed < m.commit`, `lastIndex < m.commit`) `commitTo` panics
(`heartbeat_beyond_log_panics`); then `commit' = max commit m.commit`, the log entries are unchanged, the node
is a follower of `m.from`, and a MsgHeartbeatResp (not a promise) goes to `msgs`.  This is Spec
`handleHb n term m.commit`; conjuncts proved: `t = term`, `role ≠ leader`, `c ≤ log.length`; left to the
environment: `hb term n c ∈ msgs`. -/
theorem handleHb_refines (val : Val) (cfg : Spec.Cfg) (fuel : Nat) (m : Message) (r r' : Raft)
    (e : Option StepErr) (s : Spec.State) (n : Nat) (ha : Abs val r (s.nodes n))
    (ht : m.typ = .heartbeat) (hterm : m.term = r.term) (hs : r.state ≠ .leader)
    (hwf : r.log.WF) (hu : Uncompacted r.log)
    (h : (Raft.step (fuel + 1) m).run r = .ok (e, r')) :
    e = none ∧ m.commit ≤ (absLog val r).length ∧
    r'.log = { r.log with committed := max r.log.committed m.commit } ∧
    absVer val r' = { absVer val r with commit := max r.log.committed m.commit } ∧
    r'.state = .follower ∧ r'.lead = m.from ∧ r'.cfg = r.cfg ∧
    r'.msgs = r.msgs ++ [{ typ := .heartbeatResp, to := m.from, «from» := r.cfg.id, term := r.term,
                           context := m.context }] ∧
    r'.msgsAfterAppend = r.msgsAfterAppend ∧
    (Spec.Msg.hb r.term n m.commit ∈ s.msgs → Spec.enabled cfg s (.handleHb n r.term m.commit)) ∧
    Abs val r' ((Spec.apply s (.handleHb n r.term m.commit)).nodes n) := by
  obtain ⟨he, hf, hle, hl, hm1, hm2⟩ := step_hb_refine fuel m r r' e ht hterm hs hwf h
  refine ⟨he, by rw [absLog, absLogL_length_eq val hwf hu]; exact hle, hl, ?_, hf.state, hf.lead, hf.cfg,
    hm1, hm2, handleHb_enabled val cfg ha hs hwf hu hle, hb_abs val ha hf hl⟩
  simp only [absVer, absLog, hf.term, hf.vote, hl, absLogL_committed]

/-- what the model does with a heartbeat whose commit index lies beyond the log: it panics -/
theorem heartbeat_beyond_log_panics (m : Message) (r : Raft) (h1 : r.log.committed < m.commit)
    (h2 : r.log.lastIndex < m.commit) :
    (Raft.handleHeartbeat m).run r = .error "commitTo: tocommit out of range" :=
  Next.handleHeartbeat_panics m r h1 h2

/-! ## (e) `campaign` (+ `sendReqVote`) -/

/-- **(e) `campaign_refines`, MsgHup without PreVote** at a promotable non-leader with no unapplied
configuration change.  `CampaignPost val .election r r'` gives: `term' = term + 1`, `vote' = id`, role
candidate, `lead = 0`, log unchanged, `r'.msgs = r.msgs ++` one MsgVote per other voter carrying
`term + 1` and `(logTerm, index) = ((absLog r).lastTerm, (absLog r).length)`,
`r'.msgsAfterAppend = r.msgsAfterAppend ++` the node's vote for itself (a promise: it is released only
after the HardState is durable).  This is Spec `campaign n` followed by `sendReqVote n`, which puts exactly
`reqVote (term+1) n lastTerm length` into the soup.  Guard conjuncts proved: `role ≠ leader`
(`campaign`), `role = candidate` (`sendReqVote`); the remaining conjunct `n ≠ 0` is the hypothesis
`r.cfg.id ≠ 0` (established by `Config.validate`). -/
theorem campaign_refines (val : Val) (cfg : Spec.Cfg) (fuel : Nat) (m : Message) (r r' : Raft)
    (e : Option StepErr) (s : Spec.State) (n : Nat) (ha : Abs val r (s.nodes n)) (hn : n = r.cfg.id)
    (hm : m.typ = .hup) (h0 : m.term = 0) (hpv : r.cfg.preVote = false) (hnl : r.state ≠ .leader)
    (hp : Live.promotableB r = true) (hu : Raft.hasUnappliedConfChanges.run r = .ok (false, r))
    (hwf : r.log.WF) (hunc : Uncompacted r.log)
    (h : (Raft.step (fuel + 1) m).run r = .ok (e, r')) :
    e = none ∧ CampaignPost val .election r r' ∧
    absVer val r' = { absVer val r with term := r.term + 1, vote := r.cfg.id } ∧
    (r.cfg.id ≠ 0 → Spec.enabled cfg s (.campaign n)) ∧
    Abs val r' ((Spec.apply s (.campaign n)).nodes n) ∧
    Spec.enabled cfg (Spec.apply s (.campaign n)) (.sendReqVote n) ∧
    Abs val r' ((Spec.apply (Spec.apply s (.campaign n)) (.sendReqVote n)).nodes n) ∧
    (Spec.apply (Spec.apply s (.campaign n)) (.sendReqVote n)).msgs =
      Spec.Msg.reqVote (r.term + 1) n (absLog val r).lastTerm (absLog val r).length :: s.msgs ∧
    (∀ x ∈ voteReqs val .election r, x.typ = .vote ∧
      Spec.Msg.reqVote x.term x.from x.logTerm x.index =
        Spec.Msg.reqVote (r.term + 1) n (absLog val r).lastTerm (absLog val r).length) := by
  obtain ⟨he, hpost⟩ := step_hup_refine val fuel m r r' e hm h0 hpv hnl hp hu hwf hunc h
  obtain ⟨c1, c2, c3, c4, c5, _⟩ := campaign_abs val cfg s n .election r r' ha hn hpost
  refine ⟨he, hpost, ?_, c1, c2, c3, c4, c5, ?_⟩
  · simp only [absVer, absLog, hpost.term, hpost.vote, hpost.log]
  · intro x hx
    obtain ⟨h1, h2, _, _, h3, h4, h5, _⟩ := mem_voteReqs hx
    exact ⟨h1, by rw [h2, h3, h4, h5, hn]⟩

/-- **(e) MsgTimeoutNow** (leadership transfer) at a promotable follower with no unapplied configuration
change — with or without PreVote: a real election, the requests carry the transfer context -/
theorem timeoutNow_refines (val : Val) (cfg : Spec.Cfg) (fuel : Nat) (m : Message) (r r' : Raft)
    (e : Option StepErr) (s : Spec.State) (n : Nat) (ha : Abs val r (s.nodes n)) (hn : n = r.cfg.id)
    (hm : m.typ = .timeoutNow) (hterm : m.term = 0 ∨ m.term = r.term) (hs : r.state = .follower)
    (hp : Live.promotableB r = true) (hu : Raft.hasUnappliedConfChanges.run r = .ok (false, r))
    (hwf : r.log.WF) (hunc : Uncompacted r.log)
    (h : (Raft.step (fuel + 1) m).run r = .ok (e, r')) :
    e = none ∧ CampaignPost val .transfer r r' ∧
    (r.cfg.id ≠ 0 → Spec.enabled cfg s (.campaign n)) ∧
    Abs val r' ((Spec.apply s (.campaign n)).nodes n) ∧
    Spec.enabled cfg (Spec.apply s (.campaign n)) (.sendReqVote n) ∧
    (Spec.apply (Spec.apply s (.campaign n)) (.sendReqVote n)).msgs =
      Spec.Msg.reqVote (r.term + 1) n (absLog val r).lastTerm (absLog val r).length :: s.msgs := by
  obtain ⟨he, hpost⟩ := step_timeoutNow_refine val fuel m r r' e hm hterm hs hp hu hwf hunc h
  obtain ⟨c1, c2, c3, _, c5, _⟩ := campaign_abs val cfg s n .transfer r r' ha hn hpost
  exact ⟨he, hpost, c1, c2, c3, c5⟩

/-- a MsgHup at a leader, at a node that is not promotable, or with an unapplied configuration change does
nothing at all -/
theorem hup_noop (fuel : Nat) (m : Message) (r r' : Raft) (e : Option StepErr)
    (hm : m.typ = .hup) (h0 : m.term = 0)
    (hc : r.state = .leader ∨ Live.promotableB r = false ∨ Raft.hasUnappliedConfChanges.run r = .ok (true, r))
    (h : (Raft.step (fuel + 1) m).run r = .ok (e, r')) : r' = r ∧ e = none :=
  step_hup_noop fuel m r r' e hm h0 hc h

/-- **(e) through the election timer**: `tickElection` on a promotable node whose randomized election
timeout has elapsed resets the timer and steps MsgHup: without PreVote this is the campaign of
`campaign_refines` (started from `r` with `electionElapsed := 0`, which has the same abstraction) -/
theorem tickElection_campaign_refines (val : Val) (cfg : Spec.Cfg) (r r' : Raft) (s : Spec.State) (n : Nat)
    (ha : Abs val r (s.nodes n)) (hn : n = r.cfg.id) (hpv : r.cfg.preVote = false) (hnl : r.state ≠ .leader)
    (hp : Live.promotableB r = true) (ht : r.randomizedElectionTimeout ≤ r.electionElapsed + 1)
    (hu : Raft.hasUnappliedConfChanges.run { r with electionElapsed := 0 } = .ok (false, { r with electionElapsed := 0 }))
    (hwf : r.log.WF) (hunc : Uncompacted r.log)
    (h : Raft.tickElection.run r = .ok ((), r')) :
    CampaignPost val .election { r with electionElapsed := 0 } r' ∧
    (r.cfg.id ≠ 0 → Spec.enabled cfg s (.campaign n)) ∧
    Abs val r' ((Spec.apply s (.campaign n)).nodes n) ∧
    (Spec.apply (Spec.apply s (.campaign n)) (.sendReqVote n)).msgs =
      Spec.Msg.reqVote (r.term + 1) n (absLog val r).lastTerm (absLog val r).length :: s.msgs := by
  rw [Live.tickElection_run_fire r hp ht] at h
  obtain ⟨⟨e, r2⟩, hstep, h'⟩ := bind_eq_ok.1 h
  injection h' with h'; injection h' with _ h2; subst h2
  have ha0 : Abs val { r with electionElapsed := 0 } (s.nodes n) := ha.congr rfl rfl rfl rfl
  obtain ⟨_, hpost, _, c1, c2, _, _, c5, _⟩ := campaign_refines val cfg 2 (Live.hupMsg r)
    { r with electionElapsed := 0 } r2 e s n ha0 hn rfl rfl hpv hnl hp hu hwf hunc hstep
  exact ⟨hpost, c1, c2, c5⟩

/-- a tick of the election timer that does not fire only advances `electionElapsed`: no Spec action -/
theorem tickElection_idle_stutters (val : Val) (r r' : Raft) (nd : Spec.Node) (ha : Abs val r nd)
    (hc : Live.promotableB r = false ∨ r.electionElapsed + 1 < r.randomizedElectionTimeout)
    (h : Raft.tickElection.run r = .ok ((), r')) :
    r' = { r with electionElapsed := r.electionElapsed + 1 } ∧ Abs val r' nd := by
  rw [Live.tickElection_run_idle r hc] at h
  injection h with h; injection h with _ h2; subst h2
  exact ⟨rfl, ha.congr rfl rfl rfl rfl⟩

/-! ## composition: a message of a higher term = `updateTerm` ; the same-term step -/

/-- **(a)+(b) a MsgVote of a higher term** (outside a lease, or forced by a transfer): Spec `updateTerm`
followed — the node now has no vote and knows no leader, so `canVote` holds — by `grant` iff the candidate's
log is up to date, otherwise by nothing (a rejection is queued) -/
theorem vote_higher_term_refines (val : Val) (cfg : Spec.Cfg) (fuel : Nat) (m : Message) (r r' : Raft)
    (e : Option StepErr) (s : Spec.State) (n : Nat) (ha : Abs val r (s.nodes n))
    (ht : m.typ = .vote) (hk : RaisesTerm r m) (hwf : r.log.WF) (hu : Uncompacted r.log)
    (h : (Raft.step (fuel + 1) m).run r = .ok (e, r')) :
    ∃ r1, (Raft.becomeFollower m.term 0).run r = .ok ((), r1) ∧
      Spec.enabled cfg s (.updateTerm n m.term) ∧
      Abs val r1 ((Spec.apply s (.updateTerm n m.term)).nodes n) ∧ e = none ∧
      ((Spec.upToDate m.logTerm m.index (absLog val r) = true ∧ r' = granted r1 m ∧
        (m.from ≠ 0 → Spec.Msg.reqVote m.term m.from m.logTerm m.index ∈ s.msgs →
          Spec.enabled cfg (Spec.apply s (.updateTerm n m.term)) (.grant n m.from m.logTerm m.index)) ∧
        Abs val r' ((Spec.apply (Spec.apply s (.updateTerm n m.term)) (.grant n m.from m.logTerm m.index)).nodes n)) ∨
       (Spec.upToDate m.logTerm m.index (absLog val r) = false ∧ r' = rejected r1 m ∧
        Abs val r' ((Spec.apply s (.updateTerm n m.term)).nodes n))) := by
  obtain ⟨r1, h1, h2, h3, _, h5, h6, h7, _, _, _, h11, h12⟩ := updateTerm_refines val cfg fuel m r r' e s n ha hk h
  have hl : leadOf m = 0 := by simp [leadOf, ht]
  rw [hl] at h1 h6
  have hwf1 : r1.log.WF := by rw [h7]; exact hwf
  have hu1 : Uncompacted r1.log := by rw [h7]; exact hu
  have hlog : absLog val r1 = absLog val r := by unfold absLog; rw [h7]
  have hv1 : r1.vote = 0 := ((becomeFollower_higher (by have := hk.gt; omega) h1).vote)
  have hcv : canVote r1 m := Or.inr ⟨hv1, h6⟩
  have hs1 : r1.state ≠ .leader := by rw [h5]; simp
  obtain ⟨he, ⟨_, hup, rfl⟩ | ⟨hn, rfl⟩⟩ := step_vote_refine val fuel m r1 r' e ht h11 hwf1 hu1 h12
  · refine ⟨r1, h1, h2, h3, he, Or.inl ⟨hlog ▸ hup, rfl, fun hf hsoup => ?_, granted_abs val h3⟩⟩
    exact grant_enabled val cfg h3 h11 hs1 hcv hup hf (by simpa [Spec.apply, Spec.setNode] using hsoup)
  · refine ⟨r1, h1, h2, h3, he, Or.inr ⟨?_, rfl, rejected_abs val h3⟩⟩
    rw [← hlog]
    cases hb : Spec.upToDate m.logTerm m.index (absLog val r1) with
    | false => rfl
    | true => exact absurd ⟨hcv, hb⟩ hn

/-- **(a)+(d) a MsgHeartbeat of a higher term**: Spec `updateTerm` followed by `handleHb` -/
theorem hb_higher_term_refines (val : Val) (cfg : Spec.Cfg) (fuel : Nat) (m : Message) (r r' : Raft)
    (e : Option StepErr) (s : Spec.State) (n : Nat) (ha : Abs val r (s.nodes n))
    (ht : m.typ = .heartbeat) (hgt : m.term > r.term) (hwf : r.log.WF) (hu : Uncompacted r.log)
    (h : (Raft.step (fuel + 1) m).run r = .ok (e, r')) :
    Spec.enabled cfg s (.updateTerm n m.term) ∧
    (Spec.Msg.hb m.term n m.commit ∈ s.msgs →
      Spec.enabled cfg (Spec.apply s (.updateTerm n m.term)) (.handleHb n m.term m.commit)) ∧
    Abs val r' ((Spec.apply (Spec.apply s (.updateTerm n m.term)) (.handleHb n m.term m.commit)).nodes n) ∧
    r'.term = m.term ∧ r'.vote = 0 ∧ r'.lead = m.from ∧ r'.state = .follower ∧
    r'.log = { r.log with committed := max r.log.committed m.commit } := by
  have hk : RaisesTerm r m := ⟨hgt, by rw [ht]; simp, by rw [ht]; simp, by rw [ht]; simp⟩
  obtain ⟨r1, h1, h2, h3, _, h5, _, h7, _, _, _, h11, h12⟩ := updateTerm_refines val cfg fuel m r r' e s n ha hk h
  have hwf1 : r1.log.WF := by rw [h7]; exact hwf
  have hu1 : Uncompacted r1.log := by rw [h7]; exact hu
  have hs1 : r1.state ≠ .leader := by rw [h5]; simp
  have hv1 : r1.vote = 0 := ((becomeFollower_higher (by omega) h1).vote)
  obtain ⟨_, _, b3, _, b5, b6, _, _, _, b10, b11⟩ :=
    handleHb_refines val cfg fuel m r1 r' e (Spec.apply s (.updateTerm n m.term)) n h3 ht h11 hs1 hwf1 hu1 h12
  have hterm' : r'.term = m.term ∧ r'.vote = 0 := by
    obtain ⟨_, hf, _⟩ := step_hb_refine fuel m r1 r' e ht h11 hs1 hwf1 h12
    exact ⟨hf.term.trans h11.symm, hf.vote.trans hv1⟩
  rw [← h11] at b10 b11
  refine ⟨h2, fun hsoup => b10 (by simpa [Spec.apply, Spec.setNode] using hsoup), b11, hterm'.1, hterm'.2, b6, b5, ?_⟩
  rw [b3, h7]

/-! ## (f) `becomeLeader` (+ `leaderAppend` of the empty entry) -/

/-- **(f) `becomeLeader_refines`.**  A candidate steps a MsgVoteResp of its own term and comes out as leader.
With `t = tallyAfter r m` (`= r.trk.recordVote m.from (!m.reject)`: the vote map after recording this
response; `becomeLeader → reset` clears it afterwards) and `q = grantedBy t` (the voters of either half
whose recorded vote is a grant):

* `WonPost`: the joint tally of `t` is `won`; `q` is a quorum — a strict majority of **every** voter set —
  `(Spec.jointCfg voters outgoing).isQuorum q = true`; the node's **own** vote is recorded
  (`(mapGet t.votes id).isSome`: `Model/Raft.lean`, `stepCandidate`, the guard
  `else if (mapGet (← get).trk.votes r.cfg.id).isNone then pure ()` — own vote, released only once the
  HardState is durable, not yet recorded: stay candidate; the repaired defect 7.1); term, vote and commit
  are unchanged; `absLog r' = absLog r ++ [{term, val none none}]`; exactly one promise is queued: the
  leader's acknowledgement of its own entry `(term, length + 1)`; `msgs` receives only snapshots and
  MsgApp that are Spec `sendApp` messages of the new log (`bcastAppend`);
* this is Spec `becomeLeader n q` followed by `leaderAppend n (val none none)`; guard conjuncts proved:
  `role = candidate`, `isQuorum q`; left to the environment: `(term, n) ∈ dur.votes` (own vote durable),
  `reqVotesCovered` and `∀ v ∈ q, v = n ∨ vote term v n ∈ msgs`;
* the ack promise Spec `leaderAppend` records is `(term, index)` of the queued MsgAppResp. -/
theorem becomeLeader_refines (val : Val) (fuel : Nat) (m : Message) (r r' : Raft)
    (e : Option StepErr) (s : Spec.State) (n : Nat) (ha : Abs val r (s.nodes n))
    (ht : m.typ = .voteResp) (hterm : m.term = 0 ∨ m.term = r.term) (hs : r.state = .candidate)
    (hwf : r.log.WF) (hu : Uncompacted r.log)
    (h : (Raft.step (fuel + 1) m).run r = .ok (e, r')) (hl : r'.state = .leader) :
    let q := grantedBy (tallyAfter r m)
    let cfg := Spec.jointCfg r.trk.cfg.voters r.trk.outgoingL
    e = none ∧ WonPost val r m r' ∧
    absVer val r' = { absVer val r with log := absLog val r ++ [{ term := r.term, val := val none none }] } ∧
    (∀ v, v ∈ q ↔ (v ∈ r.trk.cfg.voters ∨ v ∈ r.trk.outgoingL) ∧ mapGet (tallyAfter r m).votes v = some true) ∧
    (s.nodes n).role = .candidate ∧ cfg.isQuorum q = true ∧
    ((r.term, n) ∈ (s.nodes n).dur.votes → Spec.reqVotesCovered s.msgs r.term n (absLog val r) = true →
      (∀ v ∈ q, v = n ∨ Spec.Msg.vote r.term v n ∈ s.msgs) → Spec.enabled cfg s (.becomeLeader n q)) ∧
    Spec.enabled cfg (Spec.apply s (.becomeLeader n q)) (.leaderAppend n (val none none)) ∧
    Abs val r' ((Spec.apply (Spec.apply s (.becomeLeader n q)) (.leaderAppend n (val none none))).nodes n) ∧
    ((Spec.apply (Spec.apply s (.becomeLeader n q)) (.leaderAppend n (val none none))).nodes n).vol.acks =
      (r.term, (absLog val r).length + 1) :: (s.nodes n).vol.acks := by
  intro q cfg
  obtain ⟨he, hp⟩ := step_voteResp_leader_refine val fuel m r r' e ht hterm hs hwf hu h hl
  obtain ⟨g1, g2⟩ := becomeLeader_guard_local val hp ha hs
  refine ⟨he, hp, ?_, ?_, g1, g2, fun hdur hcov hsoup => becomeLeader_enabled val cfg ha hs g2 hdur hcov hsoup,
    leaderAppend_enabled_after cfg s n q _, hp.abs q ha, becomeLeader_ack val q ha⟩
  · simp only [absVer, hp.term, hp.vote, hp.commit, hp.log]
  · intro v
    have := @mem_grantedBy (tallyAfter r m) v
    obtain ⟨c0, c1⟩ := tallyAfter_cfg r m
    rw [c0, c1] at this
    exact this

/-- the quorum of (f) contains the node itself whenever its recorded own vote is a grant (which is what a
campaign queues: `CampaignPost.maa`) and the node is a voter -/
theorem becomeLeader_quorum_has_self {r : Raft} {m : Message}
    (hv : mapGet (tallyAfter r m).votes r.cfg.id = some true)
    (hmem : r.cfg.id ∈ r.trk.cfg.voters ∨ r.cfg.id ∈ r.trk.outgoingL) :
    r.cfg.id ∈ grantedBy (tallyAfter r m) := own_mem_grantedBy hv hmem

/-! ## (g) `leaderCommit` -/

/-- **(g) `leaderCommit_refines`.**  A leader's `Step` (any message, any fuel) after which the commit index is
higher (`c = r'.log.committed`) and the term the same: the message is an accepted MsgAppResp; nothing of the
log but `committed` changed; `(absLog r').termAt c = some term`; and `q = ackedBy r' c` — the voters of
either half with `Progress.Match ≥ c` — is a quorum of the configuration.  This is Spec
`leaderCommit n c q`; guard conjuncts proved: `role = leader`, `commit < c`, `termAt c = some term`,
`isQuorum q`; left to the environment: every `v ∈ q` has acknowledged `c` (`hasAck` in the soup, or the
leader's own durable ack) — that is where the `Match` values came from. -/
theorem leaderCommit_refines (val : Val) (fuel : Nat) (m : Message) (r r' : Raft)
    (e : Option StepErr) (s : Spec.State) (n : Nat) (ha : Abs val r (s.nodes n))
    (hs : r.state = .leader) (hwf : r.log.WF) (hu : Uncompacted r.log)
    (h : (Raft.step fuel m).run r = .ok (e, r')) (hadv : r.log.committed < r'.log.committed)
    (ht : r'.term = r.term) :
    let c := r'.log.committed
    let q := ackedBy r' c
    let cfg := Spec.jointCfg r'.trk.cfg.voters r'.trk.outgoingL
    CommitPost val r m r' ∧
    absVer val r' = { absVer val r with commit := c } ∧
    (∀ v, v ∈ q ↔ (v ∈ r'.trk.cfg.voters ∨ v ∈ r'.trk.outgoingL) ∧
      ∃ pr, r'.trk.getProgress v = some pr ∧ c ≤ pr.match_) ∧
    (s.nodes n).role = .leader ∧ (s.nodes n).vol.commit < c ∧
    (s.nodes n).vol.log.termAt c = some (s.nodes n).vol.term ∧ cfg.isQuorum q = true ∧
    ((∀ v ∈ q, (v = n ∧ Spec.hasDurAck (s.nodes n).dur.acks r.term c = true) ∨
        Spec.hasAck s.msgs r.term v c = true) → Spec.enabled cfg s (.leaderCommit n c q)) ∧
    Abs val r' ((Spec.apply s (.leaderCommit n c q)).nodes n) := by
  intro c q cfg
  have hp := step_leaderCommit_refine val fuel m r r' e hs hwf hu h hadv ht
  obtain ⟨g1, g2, g3, g4⟩ := leaderCommit_guard_local val hp hadv ha
  refine ⟨hp, ?_, fun v => mem_ackedBy, g1, g2, g3, g4,
    fun hsoup => leaderCommit_enabled val cfg hp hadv ha g4 hsoup, leaderCommit_abs val q hp ha⟩
  simp only [absVer, hp.term, hp.vote, hp.log]
  rfl

/-! ## (h) `leaderAppend` (MsgProp) -/

/-- **(h) `prop_refines`.**  A leader accepts a local MsgProp (`Step` returns no error): the ghost log is
extended by exactly `ents.map (fun e => {term, val e.typ e.data})`, where `ents` are the proposal's entries
in order, configuration changes possibly neutralized (`PropRel`); term, vote and commit are unchanged; one
promise is queued (the leader's acknowledgement of the new last index); `msgs` receives only snapshots and
MsgApp that are Spec `sendApp` messages of the new log.  This is one Spec `leaderAppend n (val e.typ e.data)`
per entry (`appendAll`), each enabled (`role = leader` is the whole guard). -/
theorem prop_refines (val : Val) (cfg : Spec.Cfg) (fuel : Nat) (m : Message) (r r' : Raft)
    (s : Spec.State) (n : Nat) (ha : Abs val r (s.nodes n))
    (ht : m.typ = .prop) (h0 : m.term = 0) (hs : r.state = .leader) (hwf : r.log.WF) (hu : Uncompacted r.log)
    (h : (Raft.step (fuel + 1) m).run r = .ok (none, r')) :
    ∃ ents, PropPost val r m ents r' ∧
      absVer val r' = { absVer val r with
        log := absLog val r ++ ents.map (fun e => ({ term := r.term, val := val e.typ e.data } : Spec.Ent)) } ∧
      (∀ pre v, Spec.enabled cfg (appendAll val n pre s) (.leaderAppend n v)) ∧
      Abs val r' ((appendAll val n ents s).nodes n) := by
  obtain ⟨ents, hp⟩ := step_prop_refine val fuel m r r' ht h0 hs hwf hu h
  refine ⟨ents, hp, ?_, fun pre v => prop_enabled val cfg hs ha pre v, prop_abs val hp hs ha⟩
  simp only [absVer, hp.term, hp.vote, hp.commit, hp.log]

/-! ## `sendApp`, `sendHb` (the leader's sends) -/

/-- **`sendApp`.**  `maybeSendAppend(to, sendIfEmpty)` (the only place a MsgApp is created) on a well-formed
uncompacted log queues nothing, a snapshot, or exactly one MsgApp `x` to `to ≠ id` that satisfies
`SendAppOK val r x`: `x.from = id`, `x.term = term`, `x.commit ≤ committed`,
`termAt x.index = some x.logTerm`, `x.index + |x.entries| ≤ length` and
`x.entries.map absEnt = (log.drop x.index).take |x.entries|` (contiguous from `x.index + 1`) — i.e. at a
leader, Spec `sendApp n x.index |x.entries| x.commit` is enabled (whole guard: `role = leader`,
`prev + cnt ≤ length`, `commit ≤ vol.commit`) and puts exactly `absApp val x` into the soup. -/
theorem sendApp_refines (val : Val) (cfg : Spec.Cfg) (to : Id) (b : Bool) (r r' : Raft) (res : Bool)
    (s : Spec.State) (n : Nat) (ha : Abs val r (s.nodes n)) (hs : r.state = .leader)
    (hwf : r.log.WF) (hu : Uncompacted r.log)
    (h : (Raft.maybeSendAppend to b).run r = .ok (res, r')) :
    r'.msgs = r.msgs ∨
    (∃ x, r'.msgs = r.msgs ++ [x] ∧ x.typ = .snap) ∨
    (∃ x, r'.msgs = r.msgs ++ [x] ∧ x.to = to ∧ to ≠ r.cfg.id ∧ SendAppOK val r x ∧
      Spec.enabled cfg s (.sendApp n x.index x.entries.length x.commit) ∧
      (Spec.apply s (.sendApp n x.index x.entries.length x.commit)).msgs = absApp val x :: s.msgs ∧
      (Spec.apply s (.sendApp n x.index x.entries.length x.commit)).nodes = s.nodes) := by
  rcases maybeSendAppend_refine val to b r r' res hwf hu h with h1 | h1 | ⟨x, h1, h2, h3, h4⟩
  · exact Or.inl h1
  · exact Or.inr (Or.inl h1)
  · obtain ⟨c1, c2, c3⟩ := sendApp_abs val cfg ha hs h4
    exact Or.inr (Or.inr ⟨x, h1, h2, h3, h4, c1, c2, c3⟩)

/-- **`bcastAppend`** keeps log, term, role and `msgsAfterAppend`, and everything it appends to `msgs` is a
snapshot or a `SendAppOK` MsgApp -/
theorem bcastAppend_refines (val : Val) (r r' : Raft) (hwf : r.log.WF) (hu : Uncompacted r.log)
    (h : Raft.bcastAppend.run r = .ok ((), r')) :
    r'.log = r.log ∧ r'.term = r.term ∧ r'.state = r.state ∧ r'.msgsAfterAppend = r.msgsAfterAppend ∧
    ∃ added, r'.msgs = r.msgs ++ added ∧ ∀ x ∈ added, x.typ = .snap ∨ SendAppOK val r x := by
  obtain ⟨h1, h2, _, h4, h5, h6⟩ := (bcastAppend_sendsOK val r hwf hu).elim h
  exact ⟨h1, h2, h4, h5, h6⟩

/-- **`sendHb`.**  `sendHeartbeat(to, ctx)` queues one MsgHeartbeat with `commit = min(Match, committed)`:
conjuncts of Spec `sendHb n to c` proved: `role = leader`, `c ≤ vol.commit`; left to the environment:
`c = 0 ∨ hasAck msgs term to c` (the follower acknowledged `c` — that is what `Match` records). -/
theorem sendHb_refines (val : Val) (cfg : Spec.Cfg) (to : Id) (ctx : Option Bytes) (r r' : Raft)
    (pr : Progress) (s : Spec.State) (n : Nat) (ha : Abs val r (s.nodes n)) (hs : r.state = .leader)
    (hg : r.trk.getProgress to = some pr) (h : (Raft.sendHeartbeat to ctx).run r = .ok ((), r')) :
    ∃ x, r'.msgs = r.msgs ++ [x] ∧ x.typ = .heartbeat ∧ x.to = to ∧ x.commit = min pr.match_ r.log.committed ∧
      ((x.commit = 0 ∨ Spec.hasAck s.msgs r.term to x.commit = true) →
        Spec.enabled cfg s (.sendHb n to x.commit)) :=
  sendHeartbeat_refine val cfg to ctx r r' pr s n ha hs hg h

/-! ## `stepDown` -/

/-- **`stepDown`**: `becomeFollower(r.Term, lead)` — called with the node's own term by a leader that lost
its CheckQuorum, a candidate that lost the election, and by `stepCandidate` before handling a MsgApp /
MsgHeartbeat / MsgSnap — keeps term, vote, log and commit and makes the node a follower: Spec `stepDown n`
(guard `True`). -/
theorem stepDown_refines (val : Val) (cfg : Spec.Cfg) (l : Nat) (r r1 : Raft) (s : Spec.State) (n : Nat)
    (ha : Abs val r (s.nodes n)) (h : (Raft.becomeFollower r.term l).run r = .ok ((), r1)) :
    Spec.enabled cfg s (.stepDown n) ∧ Abs val r1 ((Spec.apply s (.stepDown n)).nodes n) ∧
    absVer val r1 = absVer val r ∧ r1.state = .follower ∧ r1.lead = l ∧
    r1.msgs = r.msgs ∧ r1.msgsAfterAppend = r.msgsAfterAppend := by
  obtain ⟨a1, a2, a3, a4, a5, _, a7, a8⟩ := (Raft.becomeFollower_spec _ _ r).elim h
  rw [if_pos rfl] at a2
  have : (Spec.apply s (.stepDown n)).nodes n = { (s.nodes n) with role := .follower } := by
    simp [Spec.apply, Spec.setNode]
  refine ⟨trivial, ?_, ?_, a4, a3, a7, a8⟩
  · rw [this]
    exact ⟨by rw [a1]; exact ha.term, by rw [a2]; exact ha.vote, by rw [a5]; exact ha.commit,
      by rw [absLog, a5]; exact ha.log, by rw [a4]; rfl⟩
  · simp only [absVer, absLog, a1, a2, a5]

/-! ## the node id -/

/-- the conjunct `n ≠ 0` of Spec `campaign`'s guard: established by `newRaft` (`Config.validate`) … -/
theorem node_id_ne_zero (c : Config) (storage : MemoryStorage) (draws : List Nat) (r : Raft)
    (h : newRaft c storage draws = .ok r) : r.cfg.id = c.id ∧ r.cfg.id ≠ 0 :=
  newRaft_id_ne_zero c storage draws r h

/-- … and kept by every `Step` -/
theorem step_keeps_cfg (fuel : Nat) (m : Message) (r r' : Raft) (e : Option StepErr)
    (h : (Raft.step fuel m).run r = .ok (e, r')) : r'.cfg = r.cfg :=
  ((Raft.step_routed fuel m r).elim h).cfg

/-! ## non-vacuity

Concrete states (non-empty uncompacted logs) on which the hypotheses of (b), (c-ii) and (e) hold; the
model is evaluated by the kernel. -/

/-- `x.toOption.map f = some v` exhibits a successful run -/
theorem run_of_toOption {α β : Type} {x : Except String α} {f : α → β} {v : β}
    (h : x.toOption.map f = some v) : ∃ a, x = .ok a ∧ f a = v := by
  cases x with
  | error _ => simp [Except.toOption] at h
  | ok a => exact ⟨a, rfl, by simpa [Except.toOption] using h⟩

/-- a follower (id 1) of term 4 that has not voted, log `[(t1,i1), (t2,i2)]`, commit 1 -/
def exVoter : Raft :=
  { cfg := { id := 1 }, term := 4,
    log := { (RaftLog.new { ents := [{}, { term := 1, index := 1 }, { term := 2, index := 2 }] } 1000) with
             committed := 1 } }

/-- candidate 2 asks for the vote of term 4 with last entry `(term 2, index 2)` -/
def exVoteReq : Message := { typ := .vote, «from» := 2, to := 1, term := 4, logTerm := 2, index := 2 }

example : exVoter.log.WF ∧ Uncompacted exVoter.log ∧ exVoter.state ≠ .leader ∧ exVoteReq.term = exVoter.term ∧
    exVoter.vote ≠ exVoteReq.from := by decide

example (val : Val) : absLog val exVoter = [{ term := 1, val := val none none }, { term := 2, val := val none none }] := rfl

/-- **non-vacuity of (b)**: the hypotheses of `grant_refines` hold on `exVoter` / `exVoteReq`; its conclusion
gives the abstract effect `vote := 2` -/
theorem grant_example (val : Val) :
    ∃ e r', (Raft.step 3 exVoteReq).run exVoter = .ok (e, r') ∧ r'.vote = 2 ∧
      absVer val r' = { absVer val exVoter with vote := 2 } ∧
      Spec.upToDate 2 2 (absLog val exVoter) = true ∧
      r'.msgsAfterAppend = [{ typ := .voteResp, to := 2, «from» := 1, term := 4, reject := false }] := by
  have hrun : ((Raft.step 3 exVoteReq).run exVoter).toOption.map (fun p => p.2.vote) = some 2 := by
    rw [Raft.step]; decide +kernel
  obtain ⟨⟨e, r'⟩, h, hv⟩ := run_of_toOption hrun
  have := grant_refines val ⟨fun _ => true⟩ 2 exVoteReq exVoter r' e
    { nodes := fun _ => absNode val exVoter, msgs := [], elected := [], glog := fun _ => [], committed := [] } 1
    (abs_absNode val exVoter) rfl rfl (by decide) (by decide) (by decide) h hv (by decide)
  exact ⟨e, r', h, hv, this.2.2.2.2.2.1, this.2.1, this.2.2.2.2.2.2.2.1⟩

/-- a follower (id 2) of term 2 with log `[(t1,i1), (t1,i2)]`, commit 1 -/
def exAppFol : Raft :=
  { cfg := { id := 2 }, term := 2, lead := 1,
    log := { (RaftLog.new { ents := [{}, { term := 1, index := 1 }, { term := 1, index := 2 }] } 1000) with
             committed := 1 } }

/-- the leader of term 2 sends entries 2 and 3 (term 2) after `(index 1, term 1)`, commit 3: index 2
conflicts (term 1 ≠ 2) above the commit index and is overwritten -/
def exApp : Message :=
  { typ := .app, «from» := 1, to := 2, term := 2, index := 1, logTerm := 1, commit := 3,
    entries := [{ term := 2, index := 2, data := some [7] }, { term := 2, index := 3 }] }

example : exAppFol.log.WF ∧ Uncompacted exAppFol.log ∧ exAppFol.state ≠ .leader ∧ exApp.term = exAppFol.term ∧
    Contig (exApp.index + 1) exApp.entries ∧ exAppFol.log.committed ≤ exApp.index := by decide

/-- **non-vacuity of (c-ii)**: `handleApp_refines` applies to `exAppFol` / `exApp` and lands in case (ii):
the ghost log becomes `[(1,·), (2, val(data 7)), (2,·)]`, commit `max 1 (min 3 3) = 3`, acknowledged index 3 -/
theorem handleApp_example (val : Val) :
    ∃ e r', (Raft.step 3 exApp).run exAppFol = .ok (e, r') ∧
      Spec.appendResult (absLog val exAppFol) 1 1 (exApp.entries.map (absEnt val)) = some (absLog val r') ∧
      absLog val r' = [{ term := 1, val := val none none }, { term := 2, val := val none (some [7]) },
                       { term := 2, val := val none none }] ∧
      r'.log.committed = 3 ∧
      r'.msgsAfterAppend = [{ typ := .appResp, to := 1, «from» := 2, term := 2, index := 3 }] := by
  have hrun : ((Raft.step 3 exApp).run exAppFol).toOption.map (fun p => p.2.log.committed) = some 3 := by
    rw [Raft.step, Raft.stepFollower]; decide +kernel
  obtain ⟨⟨e, r'⟩, h, hv⟩ := run_of_toOption hrun
  have hcases := handleApp_refines val ⟨fun _ => true⟩ 2 exApp exAppFol r' e
    { nodes := fun _ => absNode val exAppFol, msgs := [], elected := [], glog := fun _ => [], committed := [] } 2
    (abs_absNode val exAppFol) rfl rfl (by decide) (by decide) (by decide) (by decide) h
  obtain ⟨_, _, _, _, _, _, _, hc⟩ := hcases
  have hm : (absLog val exAppFol).termAt exApp.index = some exApp.logTerm := rfl
  rcases hc with ⟨h1, _⟩ | ⟨_, h1, _⟩ | ⟨_, _, h3, _, h5, _, _, h8, _⟩
  · exact absurd h1 (by decide)
  · exact absurd hm h1
  · refine ⟨e, r', h, h3, ?_, hv, h8⟩
    have : Spec.appendResult (absLog val exAppFol) 1 1 (exApp.entries.map (absEnt val)) =
        some [{ term := 1, val := val none none }, { term := 2, val := val none (some [7]) },
              { term := 2, val := val none none }] := by
      simp [exApp, exAppFol, absLog, absLogL, absEnt, RaftLog.abs, RaftLog.new, MemoryStorage.abs,
        MemoryStorage.lastIndex, MemoryStorage.offset, MemoryStorage.firstIndex,
        ALog.truncateFrom, ALog.extend, Spec.appendResult, Spec.appendResult.agree, Spec.Log.termAt]
    have h3' : Spec.appendResult (absLog val exAppFol) 1 1 (exApp.entries.map (absEnt val)) = some (absLog val r') := h3
    rw [this] at h3'
    injection h3' with h3'
    exact h3'.symm

/-- **non-vacuity of (e)**: `campaign_refines` applies to `Refine.exCamp` (promotable follower of term 1 with
log `[(1,1)]`, voters {1,2,3}) -/
theorem campaign_example (val : Val) :
    ∃ e r', (Raft.step 3 { typ := .hup }).run exCamp = .ok (e, r') ∧ r'.term = 2 ∧ r'.vote = 1 ∧
      r'.state = .candidate ∧
      r'.msgs.map (fun x => (x.typ, x.to, x.term, x.logTerm, x.index)) = [(.vote, 2, 2, 1, 1), (.vote, 3, 2, 1, 1)] ∧
      r'.msgsAfterAppend.map (fun x => (x.typ, x.to, x.term, x.reject)) = [(.voteResp, 1, 2, false)] := by
  obtain ⟨r', h, hp⟩ := exCamp_refines val
  refine ⟨none, r', h, hp.term, hp.vote, hp.state, ?_, ?_⟩
  · rw [hp.msgs]; rfl
  · rw [hp.maa]; rfl

/-- **non-vacuity of (f)**: `becomeLeader_refines` applies to `Refine.exCand` (candidate 1 of {1,2,3}, term 2,
log `[(1,1)]`, own vote recorded) and the grant of voter 2: quorum `{1, 2}`, ghost log `[(1,·), (2,·)]` -/
theorem becomeLeader_example (val : Val) :
    ∃ e r', (Raft.step 3 exGrant).run exCand = .ok (e, r') ∧ r'.state = .leader ∧
      grantedBy (tallyAfter exCand exGrant) = [1, 2] ∧
      absLog val r' = [{ term := 1, val := val none none }, { term := 2, val := val none none }] ∧
      r'.msgsAfterAppend = [{ typ := .appResp, to := 1, «from» := 1, term := 2, index := 2 }] := by
  obtain ⟨e, r', hr, hl⟩ := exCand_run
  obtain ⟨_, hp, _⟩ := becomeLeader_refines val 2 exGrant exCand r' e
    { nodes := fun _ => absNode val exCand, msgs := [], elected := [], glog := fun _ => [], committed := [] } 1
    (abs_absNode val exCand) rfl (Or.inr rfl) rfl (by decide) (by decide) hr hl
  refine ⟨e, r', hr, hl, by decide, by rw [hp.log]; rfl, by rw [hp.maa]; rfl⟩

/-- **non-vacuity of (g)**: `leaderCommit_refines` applies to `C06L.exLead3` and the acknowledgement of voter 2:
commit 0 → 1, quorum `{1, 2}` -/
theorem leaderCommit_example (val : Val) :
    ∃ e r', (Raft.step 3 exLeadAck).run C06L.exLead3 = .ok (e, r') ∧ r'.log.committed = 1 ∧
      (absLog val r').termAt 1 = some 2 ∧ CommitPost val C06L.exLead3 exLeadAck r' := by
  obtain ⟨e, r', hr, hc, ht⟩ := exLead3_run
  obtain ⟨hp, _⟩ := leaderCommit_refines val 3 exLeadAck C06L.exLead3 r' e
    { nodes := fun _ => absNode val C06L.exLead3, msgs := [], elected := [], glog := fun _ => [], committed := [] } 1
    (abs_absNode val C06L.exLead3) rfl (by decide) (by decide) hr (by rw [hc]; decide) ht
  exact ⟨e, r', hr, hc, by have := hp.termAt; rw [hc] at this; exact this, hp⟩

/-- **non-vacuity of (h)**: `prop_refines` applies to a proposal of one entry at `C06L.exLead3` -/
theorem prop_example (val : Val) :
    ∃ r' ents, (Raft.step 3 exLeadProp).run C06L.exLead3 = .ok (none, r') ∧ ents.length = 1 ∧
      PropPost val C06L.exLead3 exLeadProp ents r' := by
  obtain ⟨r', hr⟩ := exLead3_prop_run
  obtain ⟨ents, hp, _⟩ := prop_refines val ⟨fun _ => true⟩ 2 exLeadProp C06L.exLead3 r'
    { nodes := fun _ => absNode val C06L.exLead3, msgs := [], elected := [], glog := fun _ => [], committed := [] } 1
    (abs_absNode val C06L.exLead3) rfl rfl rfl (by decide) (by decide) hr
  exact ⟨r', ents, hr, hp.rel.length_eq.symm, hp⟩

/-!
## Summary: which theorem discharges which Spec action, and what remains for the environment

`Raft.step` (and `tick`) only ever performs the actions of the *node*; `write`, `persist`, `crash`,
`sendVote`, `sendAck` (and the moment at which queued messages reach the network) are actions of the
environment / `RawNode` layer (`Ready` / `Advance`, the storage thread, restarts), not of `Raft.step`.

| Spec action | model step | theorem | guard conjuncts **proved** (for `abs r`) | conjuncts left to the **environment** |
|---|---|---|---|---|
| `updateTerm n t` | first half of `Step` at `m.term > r.term` (`RaisesTerm`) | `updateTerm_refines` (+ `preVote_stutters`, `inLease_vote_ignored`, `granted_preVoteResp_dispatched` for the kinds that do not) | `vol.term < t` (the whole guard) | — |
| `grant n c lt li` | MsgVote, same term | `grant_refines`, `vote_cases`, `reject_keeps`; higher term: `vote_higher_term_refines` | `vote = 0 ∨ vote = c`, `upToDate lt li log`, `role ≠ leader` (from `r.state ≠ .leader`, or `grant_not_leader`) | `c ≠ 0`, `reqVote term c lt li ∈ msgs` |
| `ackCommit n t` | MsgApp, case `m.index < committed` | `handleApp_refines` (i) | `t = term`, `role ≠ leader` | `hasAppOrSnap msgs t` |
| `handleApp n t prev pt ents c` | MsgApp, cases match / no match | `handleApp_refines` (ii), (iii) | `t = term`, `role ≠ leader`, `keepsCommitted` | `app t prev pt ents c ∈ msgs` |
| `handleHb n t c` | MsgHeartbeat | `handleHb_refines` (+ `heartbeat_beyond_log_panics`); higher term: `hb_higher_term_refines` | `t = term`, `role ≠ leader`, `c ≤ log.length` | `hb t n c ∈ msgs` |
| `campaign n` | MsgHup without PreVote, MsgTimeoutNow, election timer | `campaign_refines`, `timeoutNow_refines`, `tickElection_campaign_refines` (+ `hup_noop`, `tickElection_idle_stutters`) | `role ≠ leader` | `n ≠ 0` (`node_id_ne_zero`, `step_keeps_cfg`) |
| `sendReqVote n` | the MsgVote queued in `msgs` by the same step | `campaign_refines` | `role = candidate` (whole guard); message = `reqVote (term+1) n lastTerm length` | when the `Ready` is taken |
| `becomeLeader n q` | MsgVoteResp at a candidate | `becomeLeader_refines`, `becomeLeader_quorum_has_self` | `role = candidate`, `isQuorum q` | `(term, n) ∈ dur.votes`, `reqVotesCovered`, `∀ v ∈ q, v = n ∨ vote term v n ∈ msgs` |
| `leaderAppend n val` | the empty entry of `becomeLeader`; MsgProp | `becomeLeader_refines`, `prop_refines` | `role = leader` (whole guard) | — |
| `leaderCommit n c q` | accepted MsgAppResp at a leader | `leaderCommit_refines` | `role = leader`, `commit < c`, `termAt c = some term`, `isQuorum q` | `∀ v ∈ q`, the ack of `v` for `c` is in the soup (or, for `n`, durable) |
| `sendApp n prev cnt c` | `maybeSendAppend`, `bcastAppend` | `sendApp_refines`, `bcastAppend_refines` (used by (f), (h)) | whole guard: `role = leader`, `prev + cnt ≤ length`, `c ≤ commit`; message content | — |
| `sendHb n to c` | `sendHeartbeat` | `sendHb_refines` | `role = leader`, `c ≤ commit` | `c = 0 ∨ hasAck msgs term to c` |
| `stepDown n` | `becomeFollower(r.term, …)` | `stepDown_refines` | `True` | — |
| `sendVote n t c`, `sendAck n t k` | release of `msgsAfterAppend` | routing only: every promise is appended to `msgsAfterAppend` with the `(term, candidate)` / `(term, index)` that the Spec records in `vol.votes` / `vol.acks` (`grant_refines`, `handleApp_refines`, `becomeLeader_refines`, `campaign_refines`; in general `LocalStep.promise_msgs_gated`) | — | `(t, c) ∈ dur.votes`, `(t, k) ∈ dur.acks`: durability, `RawNode` layer |
| `write`, `persist`, `crash` | `Ready`/`Advance`, storage thread, restart | — (environment) | | |
| `sendSnap`, `handleSnap` | MsgSnap | not covered: compaction is invisible in the Spec (ghost logs), `Uncompacted` fails after an install | | |

Every theorem is for every state of the stated shape; hypotheses: `RaftLog.WF`, `Uncompacted` (decidable), for
MsgApp `Contig (m.index + 1) m.entries`.  Statements that turned out false: none.
-/

end RaftVerif.Refinement
