import RaftVerif.Proofs.NextReady
/-!
# Props/C07Ready — `Ready` exposes exactly the current hard state (C07)

Theorems about `RawNode.readyWithoutAccept`, `acceptReady`, `ready`, `advance` of `Model/RawNode.lean`, for
every `RawNode` (both storage modes).  The monotonicity of term / vote / commit over `Step`, `tick`,
`applyConfChange`, `advance` is in `Props/LocalStep.lean`; this file ties the hard state a node *exposes* to
the one it *has*:

* the `HardState` of a `Ready` is present iff `(term, vote, commit)` of the raft state differs from the last
  one handed out, and then is exactly `(term, vote, commit)`;
* `acceptReady` records it (`prevHardSt`), except for the all-zero hard state, and does not touch the raft
  state's term / vote / commit; `advance` does not touch `prevHardSt`;
* `MustSync` ⇔ new entries ∨ term changed ∨ vote changed (a commit-only change needs no sync);
* in async mode the `MsgStorageAppend` of the same `Ready` carries the same term / vote / commit.
-/
namespace RaftVerif.C07R
open Raft RawNode Next

/-- the hard state of a raft state is its `(term, vote, committed)` -/
theorem hardState_eq (r : Raft) : hardState r = { term := r.term, vote := r.vote, commit := r.log.committed } := rfl

/-- **C07** `Ready.HardState` is present **iff** the current hard state differs from the last one handed
out (`prevHardSt`), and then it **is** the current `(term, vote, commit)` -/
theorem ready_hardstate_is_current (rn : RawNode) (rd : Ready) (h : rn.readyWithoutAccept = .ok rd) :
    rd.hardState = if hardState rn.raft ≠ rn.prevHard then some (hardState rn.raft) else none := by
  rw [(readyWithoutAccept_core rn rd h).1.hard]
  unfold rdHard
  by_cases hc : hardState rn.raft = rn.prevHard <;> simp [hc]

/-- the same for `RawNode.ready` (= `readyWithoutAccept` + `acceptReady`) -/
theorem ready_hardstate_is_current' (rn rn' : RawNode) (rd : Ready) (h : rn.ready = .ok (rd, rn')) :
    rd.hardState = if hardState rn.raft ≠ rn.prevHard then some (hardState rn.raft) else none := by
  unfold RawNode.ready at h
  obtain ⟨rd1, h1, h⟩ := bind_eq_ok.1 h
  obtain ⟨rn1, _, h⟩ := bind_eq_ok.1 h
  simp only [pure, Except.pure, Except.ok.injEq, Prod.mk.injEq] at h
  obtain ⟨rfl, _⟩ := h
  exact ready_hardstate_is_current rn _ h1

/-- **C07** after `ready` (in either mode) the raft state's term / vote / commit are untouched, and
`prevHardSt` **equals the current hard state** — unless the current hard state is the all-zero one (which
`acceptReady` never records; then `prevHardSt` is what it was) -/
theorem ready_records_hardstate (rn rn' : RawNode) (rd : Ready) (h : rn.ready = .ok (rd, rn')) :
    hardState rn'.raft = hardState rn.raft ∧
    ((hardState rn.raft).isEmpty = false → rn'.prevHard = hardState rn'.raft) ∧
    ((hardState rn.raft).isEmpty = true → rn'.prevHard = rn.prevHard) := by
  unfold RawNode.ready at h
  obtain ⟨rd1, h1, h⟩ := bind_eq_ok.1 h
  obtain ⟨rn1, h2, h⟩ := bind_eq_ok.1 h
  simp only [pure, Except.pure, Except.ok.injEq, Prod.mk.injEq] at h
  obtain ⟨rfl, rfl⟩ := h
  obtain ⟨hp, hh, _⟩ := acceptReady_hard rn _ _ h2
  have hrd := ready_hardstate_is_current rn _ h1
  refine ⟨hh, fun hne => ?_, fun he => ?_⟩
  · rw [hp, hh]
    unfold newPrevHard
    rw [hrd]
    by_cases hc : hardState rn.raft = rn.prevHard
    · simp [hc]
    · simp [hc, hne]
  · rw [hp]
    unfold newPrevHard
    rw [hrd]
    by_cases hc : hardState rn.raft = rn.prevHard
    · simp [hc]
    · simp [hc, he]

/-- **C07** "HardState emitted only on change": right after a `ready` that recorded the hard state, another
`readyWithoutAccept` carries no `HardState` (nothing was stepped in between) -/
theorem ready_twice_no_hardstate (rn rn' : RawNode) (rd rd' : Ready) (h : rn.ready = .ok (rd, rn'))
    (hne : (hardState rn.raft).isEmpty = false) (h' : rn'.readyWithoutAccept = .ok rd') :
    rd'.hardState = none := by
  obtain ⟨_, hp, _⟩ := ready_records_hardstate rn rn' rd h
  rw [ready_hardstate_is_current rn' rd' h', hp hne]
  simp

/-- `advance` (sync mode) replays the self-addressed messages; it does not touch `prevHardSt` (a hard-state
change it causes is exposed by the next `Ready`, by `ready_hardstate_is_current`) -/
theorem advance_keeps_prevHard (rn rn' : RawNode) (draws : List Nat) (h : rn.advance draws = .ok rn') :
    rn'.prevHard = rn.prevHard := (advance_prevHard rn rn' draws h).1

/-- **C07** `MustSync` ⇔ there are new entries ∨ the term changed ∨ the vote changed, relative to the last
hard state handed out; `Ready.Entries` are the log's next unstable entries -/
theorem mustSync_iff (rn : RawNode) (rd : Ready) (h : rn.readyWithoutAccept = .ok rd) :
    rd.entries = rn.raft.log.nextUnstableEnts ∧
    (rd.mustSync = true ↔
      rd.entries ≠ [] ∨ rn.raft.term ≠ rn.prevHard.term ∨ rn.raft.vote ≠ rn.prevHard.vote) := by
  obtain ⟨hc, _⟩ := readyWithoutAccept_core rn rd h
  refine ⟨hc.entries, ?_⟩
  rw [hc.sync, hc.entries]
  unfold RawNode.mustSync hardState
  cases hl : rn.raft.log.nextUnstableEnts with
  | nil => simp; constructor <;> (intro h; rcases h with h | h <;> simp [h])
  | cons a t => simp

/-- **C07** a commit-only change of the hard state is exposed but needs no sync -/
theorem commit_only_change_no_sync (rn : RawNode) (rd : Ready) (h : rn.readyWithoutAccept = .ok rd)
    (hents : rn.raft.log.nextUnstableEnts = []) (ht : rn.raft.term = rn.prevHard.term)
    (hv : rn.raft.vote = rn.prevHard.vote) (hc : rn.raft.log.committed ≠ rn.prevHard.commit) :
    rd.mustSync = false ∧ rd.hardState = some (hardState rn.raft) := by
  obtain ⟨he, hs⟩ := mustSync_iff rn rd h
  refine ⟨?_, ?_⟩
  · cases hm : rd.mustSync with
    | false => rfl
    | true =>
      rcases hs.mp hm with h1 | h1 | h1
      · exact absurd (he.trans hents) h1
      · exact absurd ht h1
      · exact absurd hv h1
  · rw [ready_hardstate_is_current rn rd h, if_pos]
    intro heq
    apply hc
    rw [← heq]
    rfl

/-- **C07 async** the `MsgStorageAppend` of a `Ready` (addressed to the append thread, carrying the same
new entries) has exactly the term / vote / commit of the `Ready`'s (non-empty) `HardState` -/
theorem async_append_carries_hardstate (rn : RawNode) (rd : Ready) (ha : rn.async = true)
    (h : rn.readyWithoutAccept = .ok rd) (hs : HardState) (hh : rd.hardState = some hs)
    (hne : hs.isEmpty = false) :
    ∃ m ∈ rd.messages, m.typ = .storageAppend ∧ m.to = localAppendThread ∧
      m.term = hs.term ∧ m.vote = hs.vote ∧ m.commit = hs.commit ∧ m.entries = rd.entries := by
  obtain ⟨hc, _, hasync⟩ := readyWithoutAccept_core rn rd h
  obtain ⟨m, hm, h1, h2, h3, h4, h5, h6⟩ := hasync ha hs (by rw [← hc.hard]; exact hh) hne
  exact ⟨m, hm, h1, h2, h3, h4, h5, by rw [h6, hc.entries]⟩

/-- sync mode: the messages of a `Ready` are the queued ones followed by the promises not addressed to the
node itself (those are replayed by `advance`) -/
theorem sync_ready_messages (rn : RawNode) (rd : Ready) (ha : rn.async = false)
    (h : rn.readyWithoutAccept = .ok rd) :
    rd.messages = rn.raft.msgs ++ rn.raft.msgsAfterAppend.filter (fun m => m.to != rn.raft.cfg.id) :=
  (readyWithoutAccept_core rn rd h).2.1 ha

/-- the other mode-independent fields of a `Ready` -/
theorem ready_fields (rn : RawNode) (rd : Ready) (h : rn.readyWithoutAccept = .ok rd) :
    rd.softState = (if softState rn.raft ≠ rn.prevSoft then some (softState rn.raft) else none) ∧
    rd.readStates = rn.raft.readStates ∧
    rd.snapshot = (if rn.raft.log.hasNextUnstableSnapshot = true then rn.raft.log.unstable.nextSnapshot else none) ∧
    rn.raft.log.nextCommittedEnts rn.applyUnstableEntries = .ok rd.committedEntries := by
  obtain ⟨hc, _⟩ := readyWithoutAccept_core rn rd h
  refine ⟨?_, hc.rs, hc.snap, hc.cents⟩
  rw [hc.soft]
  unfold rdSoft
  by_cases hs : softState rn.raft = rn.prevSoft <;> simp [hs]

/-- **hasReady** (one direction, cheap): a changed non-empty hard state makes `HasReady` true -/
theorem hasReady_of_hardstate_change (rn : RawNode) (hne : (hardState rn.raft).isEmpty = false)
    (hc : hardState rn.raft ≠ rn.prevHard) : rn.hasReady = true := by
  unfold RawNode.hasReady
  have : (hardState rn.raft != rn.prevHard) = true := by simpa using hc
  simp [hne, this]

/-! ### non-vacuity -/

/-- a follower that has just granted its vote to 2 in term 3; last handed-out hard state: term 2 -/
def exNode : RawNode :=
  { raft := { cfg := { id := 1 }, term := 3, vote := 2, log := RaftLog.new {} 1000 },
    prevHard := { term := 2 } }

/-- its `Ready` carries the hard state (3, 2, 0), must be synced, and is recorded by `acceptReady` -/
example : (exNode.ready.toOption.map fun p =>
    (p.1.hardState, p.1.mustSync, p.2.prevHard)) =
    some (some { term := 3, vote := 2, commit := 0 }, true, { term := 3, vote := 2, commit := 0 }) := by
  decide +kernel

/-- a commit-only change: exposed, no sync -/
example : (({ exNode with prevHard := { term := 3, vote := 2, commit := 0 },
                          raft := { exNode.raft with log := { exNode.raft.log with committed := 0 } } } : RawNode)
    |>.readyWithoutAccept.toOption.map fun rd => (rd.hardState, rd.mustSync)) = some (none, false) := by
  decide +kernel

/-- async mode: the MsgStorageAppend carries (3, 2, 0) -/
example : (({ exNode with async := true } : RawNode).readyWithoutAccept.toOption.map fun rd =>
    rd.messages.map (fun m => (m.typ, m.to, m.term, m.vote, m.commit))) =
    some [(.storageAppend, localAppendThread, 3, 2, 0)] := by
  decide +kernel

end RaftVerif.C07R
