import RaftVerif.Proofs.ReconfAll
/-!
# Global safety properties of the abstract protocol with membership changes (`Spec/Reconf`)

`Reachable c0 s → Statement s` for the statements of `Spec/ReconfStatements.lean`, for every
initial configuration `c0` with a non-empty duplicate-free incoming half (`Conf.wf`).  Quorums are
always those of the acting node's *own active configuration* (the one produced by the configuration
entries it has applied); configurations change through log entries exactly as in etcd-io/raft.
-/
namespace RaftVerif.SpecR

variable (c0 : Conf) (hc0 : c0.wf) (s : State) (h : Reachable c0 s)
include hc0 h

/-- **C02** election safety: at most one node is ever elected per term, no term is won twice —
although different candidates count quorums of different configurations -/
theorem election_safety : ElectionSafety s := by
  have hi := (invAll_reachable hc0 h).hnd
  exact ⟨fun t n n' h1 h2 => nodup_map_fst_unique _ hi t n n' h1 h2, hi⟩

/-- **C02** one leader per term -/
theorem one_leader_per_term : OneLeaderPerTerm s := by
  have hi := invAll_reachable hc0 h
  intro n n' hn hn' ht
  have h1 := hi.h1.leader_elected n hn
  have h2 := hi.h1.leader_elected n' hn'
  rw [ht] at h1
  exact hi.hnd.unique h1 h2

omit hc0 in
/-- **C02** released votes are unique per (term, voter) -/
theorem vote_unique : VoteUnique s := by
  have hi := inv1_reachable c0 s h
  intro t v c c' h1 h2
  exact ((hi.nodes v).vers _ (by simp [versions])).votes_uniq t c c' (hi.vote_msg _ _ _ h1)
    (hi.vote_msg _ _ _ h2)

omit hc0 in
/-- **C05** (votes) a released vote is covered by the voter's durable state -/
theorem vote_durable : VoteDurable s := by
  have hi := inv1_reachable c0 s h
  intro t v c hm
  have hok : VerOK (s.nodes v).dur := (hi.nodes v).vers _ (by simp [versions])
  have h1 := hi.vote_msg _ _ _ hm
  have h2 := hok.votes_le _ _ h1
  rcases Nat.lt_or_ge t (s.nodes v).dur.term with h3 | h3
  · exact Or.inl h3
  · have h4 : (s.nodes v).dur.term = t := by omega
    refine Or.inr ⟨h4, ?_⟩
    subst h4
    exact hok.votes_cur c h1

omit hc0 in
/-- **C07** the durable term never exceeds the volatile one; a leader's term is durable -/
theorem durable_behind_volatile : DurableBehindVolatile s := by
  have hi := inv1_reachable c0 s h
  intro n
  exact ⟨(hi.nodes n).dur_le_vol.term_le, (hi.nodes n).leader_dur⟩

/-- **C03** terms never decrease within a log and are bounded by the owner's term -/
theorem terms_monotone : TermsMonotone s := by
  have hi := (invAll_reachable hc0 h).h2
  intro n v hv
  exact ⟨(hi.ver_log n v hv).sorted, (hi.ver_log n v hv).terms⟩

/-- **C03** log matching, across all versions of all nodes -/
theorem log_matching : LogMatching s := by
  have hi := (invAll_reachable hc0 h).h2
  intro n n' v v' hv hv' i _ hi' ht
  exact (hi.ver_log n v hv).ok.matching (hi.ver_log n' v' hv').ok i hi' ht

/-- **C06 (b)** the commit index is never ahead of the log -/
theorem commit_within_log : CommitWithinLog s := (invAll_reachable hc0 h).h2.ver_commit

/-- **C06 (a)** a leader's log is the ghost log of its term -/
theorem committed_is_leader_log : CommittedIsLeaderLog s := (invAll_reachable hc0 h).h2.leader_log

/-- **C05** (acks) a released acknowledgement is covered by the sender's durable term -/
theorem ack_durable : AckDurable s := by
  have hi := invAll_reachable hc0 h
  intro t v k hm hk
  rcases hi.h3.ack_msg t v k hm with h0 | h0
  · omega
  · exact ((hi.h1.nodes v).vers _ (by simp [versions])).acks_le t k h0

/-- **C04** leader completeness: the log of every elected leader of term `T` holds every entry
committed by anybody while in a term below `T` (whether committed before or after the election),
whatever configurations the two of them were using -/
theorem leader_completeness : LeaderCompleteness s := by
  have hi := invAll_reachable hc0 h
  intro T n i e tc hel hcm htc
  obtain ⟨c, j, hc, hj, hch, hat⟩ := hi.h3.committed_chosen i e tc hcm
  rcases hi.h3.safe_at T n hel c j (by omega) (hch.term hi.hC) with h' | h'
  · rw [← hat, ← Log.at?_take hj, h', Log.at?_take hj]
  · exact absurd h' (fun hd => chosen_not_dead hi.hC hi.h3.choice_q hch (Nat.le_refl _) hd)

/-- **C01** state-machine safety: no index is ever committed with two different entries, by any
nodes, in any incarnations, under any configurations -/
theorem state_machine_safety : StateMachineSafety s := by
  have hi := invAll_reachable hc0 h
  intro i e e' t t' h1 h2
  obtain ⟨c, j, _, hj, hch, hat⟩ := hi.h3.committed_chosen i e t h1
  obtain ⟨c', j', _, hj', hch', hat'⟩ := hi.h3.committed_chosen i e' t' h2
  have : (s.glog c).at? i = (s.glog c').at? i := by
    rcases Nat.le_total c c' with hcc | hcc
    · exact (chosen_agree hi.h2 hi.hC hi.h3 hch hch' hcc hj).symm
    · exact chosen_agree hi.h2 hi.hC hi.h3 hch' hch hcc hj'
  rw [hat, hat'] at this
  exact Option.some.inj this

/-! ### Configuration invariants -/

/-- applied ≤ commit ≤ length -/
theorem applied_within_commit : AppliedWithinCommit s := by
  have hi := invAll_reachable hc0 h
  intro n
  exact ⟨hi.hC.applied_le n, hi.h2.ver_commit n _ (by simp [versions])⟩

/-- every configuration entry anywhere is an allowed transition from the one before it -/
theorem cfg_transitions_allowed : CfgTransitionsAllowed c0 s := by
  have hi := invAll_reachable hc0 h
  intro n v hv
  exact chain_of_logwf hi.hC.glog_chain (hi.h2.ver_log n v hv)

/-- at most one configuration entry above a leader's applied index, none above `pendingConfIndex` -/
theorem leader_one_unapplied_cfg : LeaderOneUnappliedCfg s := by
  have hi := invAll_reachable hc0 h
  intro n hn
  refine ⟨hi.hC.leader_one n hn, fun i hi1 hc => ?_⟩
  exact hi.hC.leader_pending n hn i hi1 (isCfg_le hc).2 hc

/-- two configuration entries in one log: the lower one is committed there -/
theorem cfg_committed_before_next : CfgCommittedBeforeNext s := (invAll_reachable hc0 h).hC.p2

/-- the winner of an election had applied every configuration entry below its commit index -/
theorem elected_cfg_applied : ElectedCfgApplied s := by
  have hi := invAll_reachable hc0 h
  intro T n hel
  have hE := hi.hC.elect T n hel
  exact ⟨hE.app_le, hE.no_cfg⟩

end RaftVerif.SpecR
