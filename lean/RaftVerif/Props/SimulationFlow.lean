import RaftVerif.Proofs.SimCorFlowAll
import RaftVerif.Props.NoPanicAll
/-!
# Props/SimulationFlow — C16 (flow control) at the cluster level

The flow-control invariants of `Props/C16.lean` / `Props/C16Leader.lean` (local, per operation) hold in **every reachable
cluster** of model nodes (`Simulation.CReachable` from `Simulation.InitCluster`: deliveries in any order and
multiplicity, ticks, proposals, campaigns, `Ready`/persist/`Advance` rounds, crashes with restart).
Machinery: `Proofs/SimCorFlow*.lean`.
-/
namespace RaftVerif.SimCor
open Sim Refine Simulation

/-- **C16, progress table of a leader**: in every reachable cluster, every entry of the progress table of every live
leader satisfies `Match < Next ≤ lastIndex + 1`, hence `Match ≤ lastIndex` -/
theorem cluster_progress_wf {voters : List Id} {c0 c : Cluster} (hsorted : voters.Pairwise (· < ·))
    (h0 : 0 ∉ voters) (hc : InitCluster voters c0) (h : CReachable c0 c)
    {n : Nat} {rn : RawNode} (hn : c.nodes n = some rn) (hl : rn.raft.state = .leader)
    {id : Id} {pr : Progress} (hp : rn.raft.trk.getProgress id = some pr) :
    pr.match_ < pr.next ∧ pr.next ≤ rn.raft.log.lastIndex + 1 ∧ pr.match_ ≤ rn.raft.log.lastIndex := by
  obtain ⟨_, _, hnpc⟩ := NoPanic.reachable_rsd_npc' (fun _ _ => 0) hsorted h0 hc h
  obtain ⟨h1, h2⟩ := (hnpc.1 n rn hn).prog hl id pr hp
  exact ⟨h1, h2, by omega⟩

/-- **C16, inflight windows**: in every reachable cluster, every inflight window of the progress table of every
live node (in any role, in particular of every leader) is well-formed (`Inflights.WF`): at most `size`
(= `MaxInflightMsgs` of the window) messages are in flight, and — when a byte budget is set — the messages in flight
before the most recent one total less than `maxBytes` (= `MaxInflightBytes`) -/
theorem cluster_inflights_bounded {voters : List Id} {c0 c : Cluster} (_hsorted : voters.Pairwise (· < ·))
    (_h0 : 0 ∉ voters) (hc : InitCluster voters c0) (h : CReachable c0 c)
    {n : Nat} {rn : RawNode} (hn : c.nodes n = some rn)
    {id : Id} {pr : Progress} (hp : rn.raft.trk.getProgress id = some pr) :
    pr.inflights.WF ∧ pr.inflights.count ≤ pr.inflights.size ∧
      (pr.inflights.maxBytes ≠ 0 → pr.inflights.q ≠ [] →
        ((pr.inflights.q.dropLast).map (·.2)).sum < pr.inflights.maxBytes) := by
  have hw := SimCorFlow.WinC.reachable hc h n rn hn id pr hp
  exact ⟨hw, hw.1, hw.2⟩

end RaftVerif.SimCor
