import RaftVerif.Props.ReconfSafety
/-!
# Non-vacuity: executable runs of `Spec/Reconf` checked by `decide`

A 3-node group `{1,2,3}` elects node 1, adds node 4 through a joint configuration
(`enter joint` → `leave joint`), removes node 1 by a simple change, elects node 2 under the new
configuration `{2,3,4}` and commits an entry there.  Every action is enabled (`run … = some _`),
and guards that must refuse do refuse.
-/
namespace RaftVerif.SpecR

def c3 : Conf := ([1, 2, 3], [])

theorem c3_wf : c3.wf := ⟨by decide, by decide, by decide⟩

/-- every state produced by `run` from a reachable state is reachable -/
theorem reachable_of_run (c0 : Conf) (s s' : State) (as : List Action) (hs : Reachable c0 s)
    (h : run c0 s as = some s') : Reachable c0 s' := by
  induction as generalizing s with
  | nil => simp only [run, Option.some.injEq] at h; exact h ▸ hs
  | cons a as ih =>
    simp only [run, step?] at h
    by_cases he : enabled c0 s a
    · rw [if_pos he] at h
      exact ih (apply s a) (Reachable.step s a hs he) h
    · rw [if_neg he] at h; simp at h

def e1 : Ent := ⟨1, 0, none⟩
def e2 : Ent := ⟨1, 0, some ([1, 2, 3, 4], [1, 2, 3])⟩
def e3 : Ent := ⟨1, 0, some ([1, 2, 3, 4], [])⟩
def e4 : Ent := ⟨1, 0, some ([2, 3, 4], [])⟩
def e5 : Ent := ⟨2, 0, none⟩

/-- synchronous `Ready/Advance` of node `n` -/
def sync (n : Nat) : List Action := [.write n, .persist n]

/-- node 1 is elected by `{1,2}`, appends its empty entry, commits and applies it -/
def tr1 : List Action :=
  [.campaign 1] ++ sync 1 ++ [.sendReqVote 1, .updateTerm 2 1, .grant 2 1 0 0] ++ sync 2 ++
  [.sendVote 2 1 1, .becomeLeader 1 [1, 2], .leaderAppend 1 0] ++ sync 1 ++
  [.sendApp 1 0 1, .handleApp 2 1 0 0 [e1] 0] ++ sync 2 ++ [.sendAck 2 1 1,
   .leaderCommit 1 1 [1, 2], .applyTo 1 1]

/-- enter joint `({1,2,3,4}, {1,2,3})`, committed under the old configuration, applied -/
def tr2 : List Action :=
  [.leaderAppendCfg 1 0 ([1, 2, 3, 4], [1, 2, 3])] ++ sync 1 ++
  [.sendApp 1 1 1, .handleApp 2 1 1 1 [e2] 1] ++ sync 2 ++ [.sendAck 2 1 2,
   .leaderCommit 1 2 [1, 2], .applyTo 1 2]

/-- leave joint: needs a quorum of both halves (`{1,2,4}`) -/
def tr3 : List Action :=
  [.leaderAppendCfg 1 0 ([1, 2, 3, 4], [])] ++ sync 1 ++
  [.sendApp 1 2 1, .handleApp 2 1 2 1 [e3] 2] ++ sync 2 ++ [.sendAck 2 1 3,
   .updateTerm 4 1, .sendApp 1 0 3, .handleApp 4 1 0 0 [e1, e2, e3] 2] ++ sync 4 ++ [.sendAck 4 1 3,
   .leaderCommit 1 3 [1, 2, 4], .applyTo 1 3]

/-- remove node 1 by a simple change; everybody learns the commit index and applies -/
def tr4 : List Action :=
  [.leaderAppendCfg 1 0 ([2, 3, 4], [])] ++ sync 1 ++
  [.sendApp 1 3 1, .handleApp 2 1 3 1 [e4] 3, .handleApp 4 1 3 1 [e4] 3] ++ sync 2 ++ sync 4 ++
  [.sendAck 2 1 4, .sendAck 4 1 4, .leaderCommit 1 4 [1, 2, 4], .applyTo 1 4,
   .sendApp 1 4 0, .handleApp 2 1 4 1 [] 4, .handleApp 4 1 4 1 [] 4, .applyTo 2 4, .applyTo 4 4]

/-- node 2 is elected by `{2,4}` under `{2,3,4}` and commits an entry of term 2 -/
def tr5 : List Action :=
  [.campaign 2] ++ sync 2 ++ [.sendReqVote 2, .updateTerm 4 2, .grant 4 2 1 4] ++ sync 4 ++
  [.sendVote 4 2 2, .becomeLeader 2 [2, 4], .leaderAppend 2 0] ++ sync 2 ++
  [.sendApp 2 4 1, .handleApp 4 2 4 1 [e5] 4] ++ sync 4 ++ [.sendAck 4 2 5,
   .leaderCommit 2 5 [2, 4]]

def reconfTrace : List Action := tr1 ++ tr2 ++ tr3 ++ tr4 ++ tr5

set_option maxRecDepth 100000

example : reconfTrace.length = 84 := by decide
example : (run c3 State.init reconfTrace).isSome = true := by decide

/-- two elections, five commit decisions with the applied index (hence configuration) used -/
example : (run c3 State.init reconfTrace).map (fun s => (s.elected, s.choices)) =
    some ([(2, 2), (1, 1)], [(2, 5, 4), (1, 4, 3), (1, 3, 2), (1, 2, 1), (1, 1, 0)]) := by decide

/-- the active configurations at the end: the removed node 1 has applied its own removal -/
example : (run c3 State.init reconfTrace).map
    (fun s => ((s.nodes 1).active c3, (s.nodes 2).active c3, (s.nodes 3).active c3, (s.nodes 2).vol.commit)) =
    some (([2, 3, 4], []), ([2, 3, 4], []), ([1, 2, 3], []), 5) := by decide

/-- in the joint configuration a quorum of the old half alone does not commit the leave-joint entry -/
example : (run c3 State.init (tr1 ++ tr2 ++ (tr3.take 9) ++ [.leaderCommit 1 3 [1, 2]])).isSome = false := by
  decide

/-- a second configuration change is refused while the first is not applied (`pendingConfIndex`) -/
example : (run c3 State.init (tr1 ++ (tr2.take 9) ++
    [.leaderAppendCfg 1 0 ([1, 2, 3, 4], [])])).isSome = false := by decide

/-- adding two voters at once without a joint configuration is refused -/
example : (run c3 State.init (tr1 ++ [.leaderAppendCfg 1 0 ([1, 2, 3, 4, 5], [])])).isSome = false := by
  decide

/-- node 2 knows that the enter-joint entry is committed but has not applied it: `hup` refuses -/
example : (run c3 State.init (tr1 ++ tr2 ++ (tr3.take 5) ++ [.campaign 2])).isSome = false := by decide

/-- … after applying it may campaign -/
example : (run c3 State.init (tr1 ++ tr2 ++ (tr3.take 5) ++ [.applyTo 2 2, .campaign 2])).isSome = true := by
  decide

/-- the theorems apply to this run (and to every other run of the executable model) -/
example : ∀ s, run c3 State.init reconfTrace = some s →
    ElectionSafety s ∧ LogMatching s ∧ LeaderCompleteness s ∧ StateMachineSafety s := by
  intro s hs
  have hr := reachable_of_run c3 _ s _ Reachable.init hs
  exact ⟨election_safety c3 c3_wf s hr, log_matching c3 c3_wf s hr,
    leader_completeness c3 c3_wf s hr, state_machine_safety c3 c3_wf s hr⟩

end RaftVerif.SpecR
